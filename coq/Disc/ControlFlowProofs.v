(* Lemmas about the tape-mode control-flow model (Disc/ControlFlowModel.v). *)
From Coq Require Import List ZArith Bool Lia Arith.
From PLV Require Import Disc.ControlFlowModel.
Import ListNotations.
Open Scope Z_scope.

(* ------------------------------------------------------------------ recording monad *)
Lemma bind_ret_l {A B} (a : A) (f : A -> M B) : bind (ret a) f = f a.
Proof. unfold bind, ret. destruct (f a); reflexivity. Qed.
Lemma bind_ret_r {A} (m : M A) : bind m ret = m.
Proof. destruct m as [t [a| |]]; unfold bind, ret; cbn; rewrite ?app_nil_r; reflexivity. Qed.
Lemma bind_assoc {A B C} (m : M A) (f : A -> M B) (g : B -> M C) :
  bind (bind m f) g = bind m (fun a => bind (f a) g).
Proof.
  destruct m as [t [a| |]]; cbn; try reflexivity.
  destruct (f a) as [t' [b| |]]; cbn; try reflexivity.
  destruct (g b); cbn. rewrite app_assoc. reflexivity.
Qed.
Lemma bind_ext {A B} (m : M A) (f g : A -> M B) : (forall a, f a = g a) -> bind m f = bind m g.
Proof. intros H. destruct m as [t [a| |]]; cbn; try reflexivity. rewrite H. reflexivity. Qed.
Lemma bind_ok {A B} t (a : A) (f : A -> M B) : bind (t, Ok a) f = (t ++ fst (f a), snd (f a)).
Proof. reflexivity. Qed.
Lemma bind_ok_inv {A B} (m : M A) (f : A -> M B) t b :
  bind m f = (t, Ok b) -> exists t1 a t2, m = (t1, Ok a) /\ f a = (t2, Ok b) /\ t = t1 ++ t2.
Proof.
  destruct m as [t1 [a| |]]; cbn; intros H; try discriminate.
  destruct (f a) as [t2 r] eqn:E. cbn in H. inversion H; subst.
  exists t1, a, t2. repeat split; try reflexivity. exact E.
Qed.

(* ------------------------------------------------------------------ range *)
(* ceiling division written with Coq's floor division *)
Definition cdiv (a b : Z) : Z := - ((- a) / b).
(* the loop test of the equivalent `i = start; while <test>: ...; i += step` *)
Definition before_stop (stop step x : Z) : Prop := if 0 <? step then x < stop else stop < x.

Lemma ceil_pos d s : 0 < s -> 0 < d -> (d - 1) / s + 1 = cdiv d s.
Proof.
  intros Hs Hd. unfold cdiv.
  assert (E : (- d) / s = - ((d - 1) / s) - 1).
  { symmetry. apply Z.div_unique with (r := s - 1 - (d - 1) mod s).
    - left. pose proof (Z.mod_pos_bound (d - 1) s Hs). lia.
    - pose proof (Z.div_mod (d - 1) s ltac:(lia)). lia. }
  rewrite E. lia.
Qed.
Lemma ceil_nonpos d s : 0 < s -> d <= 0 -> cdiv d s <= 0.
Proof. intros Hs Hd. unfold cdiv. assert (0 <= (- d) / s) by (apply Z.div_pos; lia). lia. Qed.

Lemma range_len_ceil start stop step : step <> 0 ->
  range_len start stop step = Z.max 0 (cdiv (stop - start) step).
Proof.
  intros Hs. unfold range_len.
  destruct (0 <? step) eqn:E.
  - apply Z.ltb_lt in E. destruct (start <? stop) eqn:F.
    + apply Z.ltb_lt in F. rewrite ceil_pos by lia.
      assert (0 < cdiv (stop - start) step) by (rewrite <- ceil_pos by lia; assert (0 <= (stop - start - 1) / step) by (apply Z.div_pos; lia); lia).
      lia.
    + apply Z.ltb_ge in F. pose proof (ceil_nonpos (stop - start) step E ltac:(lia)). lia.
  - apply Z.ltb_ge in E. assert (Hn : 0 < - step) by lia.
    assert (C : cdiv (stop - start) step = cdiv (start - stop) (- step)).
    { unfold cdiv. f_equal. rewrite <- (Z.div_opp_opp (- (start - stop)) (- step)) by lia. f_equal; lia. }
    rewrite C. destruct (stop <? start) eqn:F.
    + apply Z.ltb_lt in F. rewrite ceil_pos by lia.
      assert (0 < cdiv (start - stop) (- step)) by (rewrite <- ceil_pos by lia; assert (0 <= (start - stop - 1) / (- step)) by (apply Z.div_pos; lia); lia).
      lia.
    + apply Z.ltb_ge in F. pose proof (ceil_nonpos (start - stop) (- step) Hn ltac:(lia)). lia.
Qed.

Lemma range_len_nonneg start stop step : 0 <= range_len start stop step.
Proof.
  unfold range_len. destruct (0 <? step) eqn:E.
  - apply Z.ltb_lt in E. destruct (start <? stop) eqn:F; [|lia]. apply Z.ltb_lt in F.
    assert (0 <= (stop - start - 1) / step) by (apply Z.div_pos; lia). lia.
  - apply Z.ltb_ge in E. destruct (stop <? start) eqn:F; [|lia]. apply Z.ltb_lt in F.
    destruct (Z.eq_dec step 0) as [->|N]; [rewrite Zdiv_0_r; lia|].
    assert (0 <= (start - stop - 1) / (- step)) by (apply Z.div_pos; lia). lia.
Qed.

(* the k-th index is produced  <->  start + k*step is still before stop *)
Lemma pos_index d s k : 0 < s -> 0 <= k -> (k < (d - 1) / s + 1 <-> k * s < d).
Proof.
  intros Hs Hk. pose proof (Z.div_mod (d - 1) s ltac:(lia)) as D.
  pose proof (Z.mod_pos_bound (d - 1) s Hs) as B. split; intros H; nia.
Qed.

Lemma range_len_complete start stop step k : step <> 0 -> 0 <= k ->
  (k < range_len start stop step <-> before_stop stop step (start + k * step)).
Proof.
  intros Hs Hk. unfold range_len, before_stop.
  destruct (0 <? step) eqn:E.
  - apply Z.ltb_lt in E. destruct (start <? stop) eqn:F.
    + rewrite pos_index by lia. lia.
    + apply Z.ltb_ge in F. split; [lia|]. intros H. assert (0 <= k * step) by nia. lia.
  - apply Z.ltb_ge in E. destruct (stop <? start) eqn:F.
    + rewrite pos_index by lia. split; intros H; nia.
    + apply Z.ltb_ge in F. split; [lia|]. intros H. assert (k * step <= 0) by nia. lia.
Qed.

Lemma range_from_length i s n : length (range_from i s n) = n.
Proof. revert i; induction n as [|n IH]; intros i; cbn; [reflexivity | now rewrite IH]. Qed.
Lemma range_from_nth i s n : forall k, (k < n)%nat ->
  nth_error (range_from i s n) k = Some (i + Z.of_nat k * s).
Proof.
  revert i; induction n as [|n IH]; intros i k Hk; [lia|].
  destruct k as [|k]; cbn [range_from nth_error]; [f_equal; lia|].
  rewrite IH by lia. f_equal. lia.
Qed.

Lemma py_range_length start stop step l : py_range start stop step = Some l ->
  Z.of_nat (length l) = Z.max 0 (cdiv (stop - start) step).
Proof.
  unfold py_range. destruct (step =? 0) eqn:E; [discriminate|]. apply Z.eqb_neq in E.
  intros H; inversion H; subst. rewrite range_from_length, Z2Nat.id by apply range_len_nonneg.
  apply range_len_ceil; assumption.
Qed.
Lemma py_range_nth start stop step l k : py_range start stop step = Some l -> (k < length l)%nat ->
  nth_error l k = Some (start + Z.of_nat k * step).
Proof.
  unfold py_range. destruct (step =? 0); [discriminate|]. intros H; inversion H; subst.
  rewrite range_from_length. apply range_from_nth.
Qed.
Lemma py_range_complete start stop step l k : py_range start stop step = Some l ->
  ((k < length l)%nat <-> before_stop stop step (start + Z.of_nat k * step)).
Proof.
  unfold py_range. destruct (step =? 0) eqn:E; [discriminate|]. apply Z.eqb_neq in E.
  intros H; inversion H; subst. rewrite range_from_length.
  rewrite <- range_len_complete by lia. pose proof (range_len_nonneg start stop step). lia.
Qed.
Lemma py_range_zero_step start stop step : py_range start stop step = None <-> step = 0.
Proof. unfold py_range. destruct (step =? 0) eqn:E; [apply Z.eqb_eq in E|apply Z.eqb_neq in E]; split; congruence. Qed.

(* ------------------------------------------------------------------ plain Python loops (reference) *)
(* for i in l: s = body(i, s) *)
Fixpoint py_for {S} (body : Z -> S -> M S) (l : list Z) (s : S) : M S :=
  match l with [] => ret s | i :: r => bind (body i s) (py_for body r) end.
(* while c(s): s = body(s)        (fuelled) *)
Fixpoint py_while {S} (fuel : nat) (c : S -> M bool) (body : S -> M S) (s : S) : M S :=
  match fuel with
  | O => nofuel
  | S f => bind (c s) (fun b => if b then bind (body s) (py_while f c body) else ret s)
  end.

Definition unpack_res (r : pyv) : list Z := match r with PNone => [] | PInt z => [z] | PTup l => l end.

Lemma next_args_init a a' : length a = length a' ->
  next_args a (init_res a') = Some a' /\ is_nil a' && truthy (init_res a') = false.
Proof.
  destruct a as [|x [|y a]]; destruct a' as [|x' [|y' a']]; cbn; intros H; try discriminate; split; reflexivity.
Qed.
Lemma unpack_init a : unpack_res (init_res a) = a.
Proof. destruct a as [|x [|y a]]; reflexivity. Qed.

Lemma for_iter_ref n (body : Z -> list Z -> M pyv) (bodyS : Z -> list Z -> M (list Z)) :
  (forall i a, length a = n -> body i a = bind (bodyS i a) (fun a' => ret (init_res a'))) ->
  (forall i a t a', length a = n -> bodyS i a = (t, Ok a') -> length a' = n) ->
  forall l a, length a = n ->
    for_iter body l a (init_res a) = bind (py_for bodyS l a) (fun a' => ret (init_res a')).
Proof.
  intros Hb Hl l. induction l as [|i l IH]; intros a Ha.
  - cbn [for_iter py_for]. rewrite bind_ret_l. reflexivity.
  - cbn [for_iter py_for]. rewrite Hb by assumption. rewrite !bind_assoc.
    destruct (bodyS i a) as [t [a'| |]] eqn:E; try reflexivity.
    assert (La : length a' = n) by (eapply Hl; eassumption).
    rewrite !bind_ok. rewrite bind_ret_l.
    destruct (next_args_init a a' ltac:(congruence)) as [N T]. rewrite N, T.
    rewrite IH by assumption. reflexivity.
Qed.

(* a Python body function for n carried values returns n values (None / a scalar / an n-tuple) *)
Definition shaped (n : nat) (body : Z -> list Z -> M pyv) : Prop :=
  forall i a t r, length a = n -> body i a = (t, Ok r) -> exists a', length a' = n /\ r = init_res a'.
Definition state_body (body : Z -> list Z -> M pyv) : Z -> list Z -> M (list Z) :=
  fun i a => bind (body i a) (fun r => ret (unpack_res r)).

Lemma for_iter_shaped n body : shaped n body -> forall l a, length a = n ->
  for_iter body l a (init_res a) = bind (py_for (state_body body) l a) (fun a' => ret (init_res a')).
Proof.
  intros Hs. apply for_iter_ref.
  - intros i a Ha. unfold state_body. rewrite bind_assoc.
    destruct (body i a) as [t [r| |]] eqn:E; try reflexivity.
    destruct (Hs i a t r Ha E) as (a' & La & ->). rewrite !bind_ok, !bind_ret_l, unpack_init.
    cbn. rewrite app_nil_r. reflexivity.
  - intros i a t a' Ha H. unfold state_body in H.
    apply bind_ok_inv in H as (t1 & r & t2 & E & R & _).
    destruct (Hs i a t1 r Ha E) as (a'' & La & ->). rewrite unpack_init in R.
    unfold ret in R. inversion R; subst. assumption.
Qed.

Lemma for_loop_shaped start stop step n body init l :
  shaped n body -> length init = n ->
  (let '(a, b, c) := for_loop_args start stop step in py_range a b c) = Some l ->
  for_loop start stop step body init
  = bind (py_for (state_body body) l init) (fun a' => ret (init_res a')).
Proof.
  intros Hs Hi. unfold for_loop. destruct (for_loop_args start stop step) as [[a b] c].
  intros ->. apply for_iter_shaped with (n := n); assumption.
Qed.

Lemma for_loop_step0 start stop body init :
  for_loop start stop 0 body init = err.
Proof. unfold for_loop, for_loop_args. destruct stop; reflexivity. Qed.

(* the call signatures are those of range *)
Lemma for_loop_signatures a b c :
  for_loop_args a None 1 = (0, a, 1) /\ for_loop_args a None c = (0, a, c) /\
  for_loop_args a (Some b) 1 = (a, b, 1) /\ for_loop_args a (Some b) c = (a, b, c).
Proof. repeat split. Qed.

(* pure bodies: the returned carried values are the left fold of the body over the range *)
Lemma for_loop_fold n (f : Z -> list Z -> list Z) body :
  (forall i a, length a = n -> body i a = ([], Ok (init_res (f i a)))) ->
  (forall i a, length a = n -> length (f i a) = n) ->
  forall l a, length a = n ->
  for_iter body l a (init_res a) = ([], Ok (init_res (fold_left (fun s i => f i s) l a))).
Proof.
  intros Hb Hl l. induction l as [|i l IH]; intros a Ha; [reflexivity|].
  cbn [for_iter fold_left]. rewrite Hb by assumption. rewrite bind_ok.
  destruct (next_args_init a (f i a) ltac:(rewrite Hl; congruence)) as [N T]. rewrite N, T.
  rewrite IH by (apply Hl; assumption). reflexivity.
Qed.

(* the "should not return anything" check *)
Lemma for_iter_rejects_return body i l fr t r :
  body i [] = (t, Ok r) -> truthy r = true -> for_iter body (i :: l) [] fr = (t, Err).
Proof. intros E T. cbn [for_iter]. rewrite E, bind_ok. cbn. rewrite T. cbn. rewrite app_nil_r. reflexivity. Qed.

(* ------------------------------------------------------------------ while *)
Lemma while_iter_ref n (cnd cndS : list Z -> M bool) (body : list Z -> M pyv) (bodyS : list Z -> M (list Z)) :
  (forall a, length a = n -> cnd a = cndS a) ->
  (forall a, length a = n -> body a = bind (bodyS a) (fun a' => ret (init_res a'))) ->
  (forall a t a', length a = n -> bodyS a = (t, Ok a') -> length a' = n) ->
  forall fuel a, length a = n ->
    while_iter fuel cnd body a (init_res a) = bind (py_while fuel cndS bodyS a) (fun a' => ret (init_res a')).
Proof.
  intros Hc Hb Hl fuel. induction fuel as [|f IH]; intros a Ha; [reflexivity|].
  cbn [while_iter py_while]. rewrite Hc by assumption. rewrite bind_assoc. apply bind_ext. intros [|].
  - rewrite Hb by assumption. rewrite !bind_assoc.
    destruct (bodyS a) as [t [a'| |]] eqn:E; try reflexivity.
    assert (La : length a' = n) by (eapply Hl; eassumption).
    rewrite !bind_ok, bind_ret_l.
    destruct (next_args_init a a' ltac:(congruence)) as [N _]. rewrite N.
    rewrite IH by assumption. reflexivity.
  - rewrite bind_ret_l. reflexivity.
Qed.

Definition shapedw (n : nat) (body : list Z -> M pyv) : Prop :=
  forall a t r, length a = n -> body a = (t, Ok r) -> exists a', length a' = n /\ r = init_res a'.
Definition state_bodyw (body : list Z -> M pyv) : list Z -> M (list Z) :=
  fun a => bind (body a) (fun r => ret (unpack_res r)).

Lemma while_loop_shaped n cnd body : shapedw n body -> forall fuel init, length init = n ->
  while_loop fuel cnd body init
  = bind (py_while fuel cnd (state_bodyw body) init) (fun a' => ret (init_res a')).
Proof.
  intros Hs fuel init Hi. unfold while_loop. apply while_iter_ref with (n := n); [reflexivity | | |assumption].
  - intros a Ha. unfold state_bodyw. rewrite bind_assoc.
    destruct (body a) as [t [r| |]] eqn:E; try reflexivity.
    destruct (Hs a t r Ha E) as (a' & La & ->). rewrite !bind_ok, !bind_ret_l, unpack_init.
    cbn. rewrite app_nil_r. reflexivity.
  - intros a t a' Ha H. unfold state_bodyw in H.
    apply bind_ok_inv in H as (t1 & r & t2 & E & R & _).
    destruct (Hs a t1 r Ha E) as (a'' & La & ->). rewrite unpack_init in R.
    unfold ret in R. inversion R; subst. assumption.
Qed.

Lemma snd_bind_ok {A B} t (a : A) (f : A -> M B) : snd (bind (t, Ok a) f) = snd (f a).
Proof. reflexivity. Qed.

(* more fuel does not change a result that was obtained without running out of fuel *)
Lemma while_iter_S f cnd body a r :
  while_iter (S f) cnd body a r =
  bind (cnd a) (fun b => if b then bind (body a) (fun fr =>
      match next_args a fr with None => err | Some a' => while_iter f cnd body a' fr end) else ret r).
Proof. reflexivity. Qed.
Lemma while_iter_fuel_S cnd body : forall f a r,
  snd (while_iter f cnd body a r) <> Fuel -> while_iter (S f) cnd body a r = while_iter f cnd body a r.
Proof.
  induction f as [|f IH]; intros a r H; [cbn in H; congruence|].
  rewrite (while_iter_S (S f)). rewrite (while_iter_S f) in H |- *.
  destruct (cnd a) as [t [[|]| |]]; try reflexivity.
  cbn [bind fst snd] in H |- *.
  destruct (body a) as [t' [fr| |]]; try reflexivity.
  cbn [bind fst snd] in H |- *.
  destruct (next_args a fr) as [a'|]; try reflexivity.
  rewrite IH by exact H. reflexivity.
Qed.
Lemma while_iter_fuel_mono cnd body f f' a r : (f <= f')%nat ->
  snd (while_iter f cnd body a r) <> Fuel -> while_iter f' cnd body a r = while_iter f cnd body a r.
Proof.
  intros Hle H. induction Hle as [|m Hle IH]; [reflexivity|].
  rewrite while_iter_fuel_S; [assumption | rewrite IH; assumption].
Qed.

(* ------------------------------------------------------------------ cond *)
Lemma cond_first_true brs els args : forall k f,
  nth_error brs k = Some (true, f) ->
  (forall j p g, (j < k)%nat -> nth_error brs j = Some (p, g) -> p = false) ->
  cond_call brs els args = f args.
Proof.
  induction brs as [|[p g] brs IH]; intros k f Hk Hj; [destruct k; discriminate|].
  destruct k as [|k]; cbn in Hk.
  - inversion Hk; subst. reflexivity.
  - cbn [cond_call]. rewrite (Hj 0%nat p g ltac:(lia) eq_refl).
    apply IH with (k := k); [assumption|]. intros j p' g' Hlt Hn. apply (Hj (S j) p' g'); [lia|assumption].
Qed.
Lemma cond_none_true brs els args :
  (forall p g, In (p, g) brs -> p = false) ->
  cond_call brs els args = match els with Some f => f args | None => ret PNone end.
Proof.
  induction brs as [|[p g] brs IH]; intros H; [reflexivity|].
  cbn [cond_call]. rewrite (H p g (or_introl eq_refl)). apply IH. intros p' g' Hin. apply (H p' g'). right; assumption.
Qed.

(* ------------------------------------------------------------------ whole programs *)
(* reference semantics: the same program written with plain Python for / while / if-elif-else *)
Definition ret_vals (r : retspec) (env : list Z) : list Z :=
  match r with RNone => [] | RScalar e => [eval e env] | RTuple l => map (fun e => eval e env) l end.
(* range(stop) / range(0, stop, step) / range(start, stop) / range(start, stop, step) *)
Definition sig_range (sg : forsig) (env : list Z) : option (list Z) :=
  match sg with
  | Sig1 b => py_range 0 (eval b env) 1
  | Sig1s b c => py_range 0 (eval b env) (eval c env)
  | Sig2 a b => py_range (eval a env) (eval b env) 1
  | Sig3 a b c => py_range (eval a env) (eval b env) (eval c env)
  end.

Fixpoint ref_stmt (wfuel : nat) (s : stmt) (env : list Z) {struct s} : M (list Z) :=
  match s with
  | SOp code e => ([(code, eval e env)], Ok env)
  | SFor sg inits body rt =>
      match sig_range sg env with
      | None => err
      | Some l =>
          bind (py_for (fun i vals => bind (ref_block wfuel body (i :: vals ++ env))
                                           (fun e' => ret (ret_vals rt e')))
                       l (map (fun e => eval e env) inits))
               (fun vals => finish (length inits) env (init_res vals))
      end
  | SWhile c inits body rt =>
      bind (py_while wfuel
              (fun vals => ret (eval_pred c (vals ++ env)))
              (fun vals => bind (ref_block wfuel body (vals ++ env)) (fun e' => ret (ret_vals rt e')))
              (map (fun e => eval e env) inits))
           (fun vals => finish (length inits) env (init_res vals))
  | SCond args brs has_else els ers =>
      let argv := map (fun e => eval e env) args in
      bind (ref_cond wfuel brs env argv
              (if has_else
               then bind (ref_block wfuel els (argv ++ env)) (fun e' => ret (eval_ret ers e'))
               else ret PNone))
           (fun r => (observe r, Ok (cond_val r :: env)))
  end
with ref_block (wfuel : nat) (b : block) (env : list Z) {struct b} : M (list Z) :=
  match b with
  | BNil => ret env
  | BCons s r => bind (ref_stmt wfuel s env) (fun e' => ref_block wfuel r e')
  end
with ref_cond (wfuel : nat) (c : branches) (env argv : list Z) (otherwise : M pyv) {struct c} : M pyv :=
  match c with
  | CNil => otherwise
  | CCons p b r c' =>
      if eval_pred p env
      then bind (ref_block wfuel b (argv ++ env)) (fun e' => ret (eval_ret r e'))
      else ref_cond wfuel c' env argv otherwise
  end.

(* well-shaped programs: a loop body with n carried values returns n values *)
Definition wf_ret (n : nat) (rt : retspec) : bool :=
  match rt with
  | RNone => Nat.eqb n 0
  | RScalar _ => Nat.eqb n 1
  | RTuple l => Nat.ltb 1 n && Nat.eqb (length l) n
  end.
Fixpoint wf_stmt (s : stmt) : bool :=
  match s with
  | SOp _ _ => true
  | SFor _ inits body rt => wf_ret (length inits) rt && wf_block body
  | SWhile _ inits body rt => wf_ret (length inits) rt && wf_block body
  | SCond _ brs _ els _ => wf_branches brs && wf_block els
  end
with wf_block (b : block) : bool :=
  match b with BNil => true | BCons s r => wf_stmt s && wf_block r end
with wf_branches (c : branches) : bool :=
  match c with CNil => true | CCons _ b _ c' => wf_block b && wf_branches c' end.

Lemma wf_ret_spec n rt env : wf_ret n rt = true ->
  eval_ret rt env = init_res (ret_vals rt env) /\ length (ret_vals rt env) = n.
Proof.
  destruct rt as [|e|l]; cbn [wf_ret eval_ret ret_vals]; intros H.
  - apply Nat.eqb_eq in H. subst. split; reflexivity.
  - apply Nat.eqb_eq in H. subst. split; reflexivity.
  - apply andb_prop in H as [H1 H2]. apply Nat.ltb_lt in H1. apply Nat.eqb_eq in H2.
    assert (L : length (map (fun e => eval e env) l) = n) by (rewrite map_length; assumption).
    split; [|assumption].
    destruct (map (fun e => eval e env) l) as [|x [|y r]]; cbn in L; try lia. reflexivity.
Qed.

Lemma sig_range_args sg env :
  sig_range sg env =
  (let '(a, b, c) := eval_sig sg env in let '(x, y, z) := for_loop_args a b c in py_range x y z).
Proof. destruct sg; reflexivity. Qed.

Scheme stmt_mind := Induction for stmt Sort Prop
  with block_mind := Induction for block Sort Prop
  with branches_mind := Induction for branches Sort Prop.
Combined Scheme prog_mutind from stmt_mind, block_mind, branches_mind.

Lemma exec_ref_all wfuel :
  (forall s, wf_stmt s = true -> forall env, exec_stmt wfuel s env = ref_stmt wfuel s env) /\
  (forall b, wf_block b = true -> forall env, exec_block wfuel b env = ref_block wfuel b env) /\
  (forall c, wf_branches c = true -> forall env argv (oe : option (list Z -> M pyv)),
      cond_call (exec_branches wfuel c env) oe argv
      = ref_cond wfuel c env argv (match oe with Some g => g argv | None => ret PNone end)).
Proof.
  apply prog_mutind.
  - (* SOp *) reflexivity.
  - (* SFor *)
    intros sg inits body IHb rt W env. cbn [wf_stmt] in W. apply andb_prop in W as [Wr Wb].
    cbn [exec_stmt ref_stmt]. rewrite sig_range_args. unfold for_loop.
    destruct (eval_sig sg env) as [[a b] c]. destruct (for_loop_args a b c) as [[x y] z].
    destruct (py_range x y z) as [l|]; [|reflexivity].
    rewrite for_iter_ref with (n := length inits)
      (bodyS := fun i vals => bind (ref_block wfuel body (i :: vals ++ env)) (fun e' => ret (ret_vals rt e'))).
    + rewrite bind_assoc. apply bind_ext. intros vals. rewrite bind_ret_l. reflexivity.
    + intros i vals Hv. rewrite Hv, Nat.eqb_refl. rewrite (IHb Wb). rewrite bind_assoc.
      apply bind_ext. intros e'. rewrite bind_ret_l.
      destruct (wf_ret_spec _ rt e' Wr) as [-> _]. reflexivity.
    + intros i vals t a' Hv H. apply bind_ok_inv in H as (t1 & e' & t2 & _ & R & _).
      unfold ret in R. inversion R; subst. apply (wf_ret_spec _ rt e' Wr).
    + apply map_length.
  - (* SWhile *)
    intros c inits body IHb rt W env. cbn [wf_stmt] in W. apply andb_prop in W as [Wr Wb].
    cbn [exec_stmt ref_stmt]. unfold while_loop.
    rewrite while_iter_ref with (n := length inits)
      (cndS := fun vals => ret (eval_pred c (vals ++ env)))
      (bodyS := fun vals => bind (ref_block wfuel body (vals ++ env)) (fun e' => ret (ret_vals rt e'))).
    + rewrite bind_assoc. apply bind_ext. intros vals. rewrite bind_ret_l. reflexivity.
    + intros vals Hv. rewrite Hv, Nat.eqb_refl. reflexivity.
    + intros vals Hv. rewrite Hv, Nat.eqb_refl. rewrite (IHb Wb). rewrite bind_assoc.
      apply bind_ext. intros e'. rewrite bind_ret_l.
      destruct (wf_ret_spec _ rt e' Wr) as [-> _]. reflexivity.
    + intros vals t a' Hv H. apply bind_ok_inv in H as (t1 & e' & t2 & _ & R & _).
      unfold ret in R. inversion R; subst. apply (wf_ret_spec _ rt e' Wr).
    + apply map_length.
  - (* SCond *)
    intros args brs IHc has_else els IHe ers W env. cbn [wf_stmt] in W. apply andb_prop in W as [Wc We].
    cbn [exec_stmt ref_stmt]. rewrite (IHc Wc). destruct has_else; [|reflexivity].
    rewrite (IHe We). reflexivity.
  - (* BNil *) reflexivity.
  - (* BCons *)
    intros s IHs b IHb W env. cbn [wf_block] in W. apply andb_prop in W as [Ws Wb].
    cbn [exec_block ref_block]. rewrite (IHs Ws). apply bind_ext. intros e'. apply (IHb Wb).
  - (* CNil *) intros _ env argv oe. reflexivity.
  - (* CCons *)
    intros p b IHb r c IHc W env argv oe. cbn [wf_branches] in W. apply andb_prop in W as [Wb Wc].
    cbn [exec_branches cond_call ref_cond]. destruct (eval_pred p env).
    + rewrite (IHb Wb). reflexivity.
    + apply (IHc Wc).
Qed.

Lemma exec_block_ref wfuel b : wf_block b = true -> forall env, exec_block wfuel b env = ref_block wfuel b env.
Proof. apply (exec_ref_all wfuel). Qed.
