(* Lemmas about the grouping model (property C52). *)
From Coq Require Import List ZArith Bool Arith Lia Permutation.
From PLV Require Import Disc.GroupingModel.
Import ListNotations.

(* ================================================================== relations *)
Lemma pauli_eqb_eq a b : pauli_eqb a b = true <-> a = b.
Proof. destruct a, b; simpl; split; intro H; try reflexivity; discriminate. Qed.
Lemma word_eqb_eq : forall u v, word_eqb u v = true <-> u = v.
Proof.
  unfold word_eqb. induction u as [|a u IH]; destruct v as [|b v]; simpl; split; intro H;
    try reflexivity; try discriminate.
  - apply andb_true_iff in H as [H1 H2]. apply pauli_eqb_eq in H1. apply IH in H2. congruence.
  - inversion H; subst. apply andb_true_iff; split; [now apply pauli_eqb_eq | now apply IH].
Qed.

Lemma q_commute_sym a b : q_commute a b = q_commute b a.
Proof. destruct a, b; reflexivity. Qed.
Lemma qwc_sym : forall u v, qwc u v = qwc v u.
Proof. induction u as [|a u IH]; destruct v as [|b v]; simpl; try reflexivity. now rewrite IH, q_commute_sym. Qed.
Lemma anti_parity_sym : forall u v, anti_parity u v = anti_parity v u.
Proof. induction u as [|a u IH]; destruct v as [|b v]; simpl; try reflexivity. now rewrite IH, q_commute_sym. Qed.
Lemma rel_sym g u v : rel g u v = rel g v u.
Proof.
  destruct g; simpl; unfold commuting, anticommuting;
    [apply qwc_sym | now rewrite (anti_parity_sym u v) | apply anti_parity_sym].
Qed.

Lemma qwc_anti_parity : forall u v, qwc u v = true -> anti_parity u v = false.
Proof.
  induction u as [|a u IH]; destruct v as [|b v]; simpl; intro H; try reflexivity.
  apply andb_true_iff in H as [H1 H2]. rewrite H1, (IH _ H2). reflexivity.
Qed.
Lemma qwc_commuting u v : qwc u v = true -> commuting u v = true.
Proof. intro H. unfold commuting. now rewrite qwc_anti_parity. Qed.

(* the identity word is qwc / commuting with everything, and anticommutes with nothing *)
Lemma qwc_id_r : forall u n, qwc u (repeat PI n) = true.
Proof. induction u as [|a u IH]; destruct n; simpl; try reflexivity. rewrite IH. destruct a; reflexivity. Qed.
Lemma anti_parity_id_r : forall u n, anti_parity u (repeat PI n) = false.
Proof. intros. apply qwc_anti_parity, qwc_id_r. Qed.

(* ================================================================== adjacency = relation *)
Open Scope Z_scope.
Definition pint (p : pauli) : Z := 2 * xbit p + zbit p.
Close Scope Z_scope.

Lemma to_symp_length w : length (to_symp w) = 2 * length w.
Proof. unfold to_symp. rewrite app_length, !map_length. lia. Qed.
Lemma div2_to_symp w : Nat.div2 (length (to_symp w)) = length w.
Proof. rewrite to_symp_length. apply Nat.div2_double. Qed.
Lemma firstn_to_symp w : firstn (length w) (to_symp w) = map xbit w.
Proof.
  unfold to_symp. rewrite firstn_app, map_length, Nat.sub_diag. simpl. rewrite app_nil_r.
  rewrite <- (map_length xbit w) at 1. apply firstn_all.
Qed.
Lemma skipn_to_symp w : skipn (length w) (to_symp w) = map zbit w.
Proof.
  unfold to_symp. rewrite skipn_app, map_length, Nat.sub_diag. simpl.
  rewrite <- (map_length xbit w) at 1. now rewrite skipn_all.
Qed.
Lemma combine_map2 {A B C} (f : A -> B) (g : A -> C) l :
  combine (map f l) (map g l) = map (fun a => (f a, g a)) l.
Proof. induction l; simpl; congruence. Qed.
Lemma pint_row_to_symp w : pint_row (length w) (to_symp w) = map pint w.
Proof. unfold pint_row. rewrite firstn_to_symp, skipn_to_symp, combine_map2, map_map. reflexivity. Qed.
Lemma from_to_symp w : from_symp (to_symp w) = w.
Proof.
  unfold from_symp. rewrite div2_to_symp, firstn_to_symp, skipn_to_symp, combine_map2, map_map.
  rewrite <- (map_id w) at 2. apply map_ext. intros []; reflexivity.
Qed.

Lemma nz_pint a b : nz ((pint a * pint b) * (pint a - pint b)) = negb (q_commute a b).
Proof. destruct a, b; reflexivity. Qed.

Definition ac_list (v u : word) : list bool :=
  map (fun ab => negb (q_commute (fst ab) (snd ab))) (combine v u).
Lemma qam_pint u v : map nz (qam (map pint u) (map pint v)) = ac_list v u.
Proof.
  unfold qam, ac_list. rewrite map_map. revert u.
  induction v as [|b v IH]; destruct u as [|a u]; simpl; try reflexivity.
  rewrite nz_pint. f_equal. apply IH.
Qed.
Lemma fold_orb_acc l : forall a, fold_left orb l a = a || fold_left orb l false.
Proof.
  induction l as [|x l IH]; intro a; simpl; [now rewrite orb_false_r|].
  rewrite (IH (a || x)), (IH x). now rewrite orb_assoc.
Qed.
Lemma fold_xorb_acc l : forall a, fold_left xorb l a = xorb a (fold_left xorb l false).
Proof.
  induction l as [|x l IH]; intro a; cbn [fold_left]; [now rewrite xorb_false_r|].
  rewrite (IH (xorb a x)), (IH (xorb false x)), xorb_false_l. now rewrite xorb_assoc.
Qed.
Lemma or_reduce_ac : forall v u, or_reduce (ac_list v u) = negb (qwc v u).
Proof.
  unfold or_reduce, ac_list. induction v as [|b v IH]; destruct u as [|a u]; simpl; try reflexivity.
  rewrite fold_orb_acc, IH. now rewrite negb_andb.
Qed.
Lemma xor_reduce_ac : forall v u, xor_reduce (ac_list v u) = anti_parity v u.
Proof.
  unfold xor_reduce, ac_list. induction v as [|b v IH]; destruct u as [|a u]; try reflexivity.
  cbn [combine map fold_left anti_parity fst snd]. now rewrite fold_xorb_acc, IH, xorb_false_l.
Qed.
Lemma entry_pint g u v : entry g (map pint u) (map pint v) = negb (rel g u v).
Proof.
  unfold entry. rewrite qam_pint. destruct g; simpl; unfold commuting, anticommuting.
  - now rewrite or_reduce_ac, qwc_sym.
  - now rewrite xor_reduce_ac, negb_involutive, anti_parity_sym.
  - now rewrite xor_reduce_ac, anti_parity_sym.
Qed.

Lemma adjacency_iff_relation_l : forall g n ws, Forall (fun w => length w = n) ws ->
  adj_matrix g (symp_matrix ws) = map (fun wi => map (fun wj => negb (rel g wi wj)) ws) ws.
Proof.
  intros g n ws H. unfold adj_matrix.
  assert (HP : map (pint_row (n_qubits (symp_matrix ws))) (symp_matrix ws) = map (map pint) ws).
  { destruct ws as [|w0 ws0]; [reflexivity|].
    assert (Hn : n_qubits (symp_matrix (w0 :: ws0)) = n).
    { simpl. rewrite div2_to_symp. now inversion H. }
    rewrite Hn. unfold symp_matrix. rewrite map_map. apply map_ext_in. intros w Hw.
    rewrite Forall_forall in H. rewrite <- (H w Hw). apply pint_row_to_symp. }
  rewrite HP, map_map. apply map_ext. intro wi. rewrite map_map. apply map_ext. intro wj. apply entry_pint.
Qed.

Lemma adjb_adj_matrix g n ws i j : Forall (fun w => length w = n) ws -> i < length ws -> j < length ws ->
  adjb (adj_matrix g (symp_matrix ws)) i j = negb (rel g (nth i ws []) (nth j ws [])).
Proof.
  intros H Hi Hj. rewrite (adjacency_iff_relation_l g n ws H). unfold adjb.
  set (F := fun wi => map (fun wj => negb (rel g wi wj)) ws).
  rewrite (nth_indep (map F ws) [] (F [])) by now rewrite map_length.
  rewrite map_nth. unfold F.
  set (G := fun wj => negb (rel g (nth i ws []) wj)).
  rewrite (nth_indep (map G ws) false (G [])) by now rewrite map_length.
  now rewrite map_nth.
Qed.

(* ================================================================== partition from a colouring *)
Definition gflat (gs : list (Z * list nat)) : list nat := concat (map snd gs).
(* every member of a group carries the group's colour *)
Definition coloured (cols : list Z) (gs : list (Z * list nat)) : Prop :=
  Forall (fun cl => Forall (fun i => nth_error cols i = Some (fst cl)) (snd cl)) gs.

Lemma ins_perm c i gs : Permutation (gflat (ins c i gs)) (i :: gflat gs).
Proof.
  unfold gflat. induction gs as [|[c' l] r IH]; simpl; [constructor; constructor|].
  destruct (c =? c')%Z; simpl.
  - rewrite <- app_assoc. simpl. apply Permutation_sym, Permutation_middle.
  - rewrite IH. change (i :: l ++ concat (map snd r)) with ((i :: l) ++ concat (map snd r)).
    rewrite (Permutation_app_comm l (i :: concat (map snd r))). simpl. constructor. apply Permutation_app_comm.
Qed.
Lemma ins_coloured cols c i gs : coloured cols gs -> nth_error cols i = Some c -> coloured cols (ins c i gs).
Proof.
  unfold coloured. induction gs as [|[c' l] r IH]; simpl; intros H Hi.
  - constructor; [|constructor]. simpl. constructor; [assumption|constructor].
  - inversion H as [|? ? H1 H2]; subst. destruct (c =? c')%Z eqn:E.
    + apply Z.eqb_eq in E; subst. constructor; [|assumption]. simpl in *.
      apply Forall_app; split; [assumption|]. constructor; [assumption|constructor].
    + constructor; [assumption|]. now apply IH.
Qed.
Lemma build_perm : forall cols i gs,
  Permutation (gflat (build_from i cols gs)) (gflat gs ++ seq i (length cols)).
Proof.
  induction cols as [|c r IH]; intros i gs; simpl; [now rewrite app_nil_r|].
  rewrite IH, ins_perm. simpl. apply Permutation_middle.
Qed.
Lemma build_coloured : forall cols pre gs, coloured (pre ++ cols) gs ->
  coloured (pre ++ cols) (build_from (length pre) cols gs).
Proof.
  induction cols as [|c r IH]; intros pre gs H; simpl; [assumption|].
  replace (pre ++ c :: r) with ((pre ++ [c]) ++ r) in * by now rewrite <- app_assoc.
  replace (S (length pre)) with (length (pre ++ [c])) by (rewrite app_length; simpl; lia).
  apply IH. apply ins_coloured; [assumption|].
  rewrite <- app_assoc. simpl. rewrite nth_error_app2 by lia. now rewrite Nat.sub_diag.
Qed.

Lemma idx_partitions_perm cols : Permutation (concat (idx_partitions cols)) (seq 0 (length cols)).
Proof. unfold idx_partitions. apply (build_perm cols 0 []). Qed.
Lemma idx_partitions_coloured cols g : In g (idx_partitions cols) ->
  exists c, Forall (fun i => nth_error cols i = Some c) g.
Proof.
  unfold idx_partitions. intro H. apply in_map_iff in H as [[c l] [E H]]. simpl in E; subst.
  pose proof (build_coloured cols [] [] (Forall_nil _)) as HC. simpl in HC.
  unfold coloured in HC. rewrite Forall_forall in HC. exists c. apply (HC _ H).
Qed.

Lemma NoDup_app_l {A} (a b : list A) : NoDup (a ++ b) -> NoDup a.
Proof. induction a as [|x a IH]; simpl; intro H; [constructor|]. inversion H; subst. constructor; [|auto]. intro; apply H2, in_or_app; now left. Qed.
Lemma NoDup_app_r {A} (a b : list A) : NoDup (a ++ b) -> NoDup b.
Proof. induction a as [|x a IH]; simpl; intro H; [assumption|]. inversion H; auto. Qed.
Lemma NoDup_concat_in {A} (gs : list (list A)) g : NoDup (concat gs) -> In g gs -> NoDup g.
Proof.
  induction gs as [|h r IH]; simpl; intros H Hin; [contradiction|]. destruct Hin as [E|Hin]; subst.
  - eapply NoDup_app_l; eauto.
  - apply IH; [eapply NoDup_app_r; eauto | assumption].
Qed.
Lemma FOP_of_nodup {A} (R : A -> A -> Prop) l :
  NoDup l -> (forall x y, In x l -> In y l -> x <> y -> R x y) -> ForallOrdPairs R l.
Proof.
  induction l as [|a l IH]; intros Hn H; [constructor|]. inversion Hn; subst. constructor.
  - rewrite Forall_forall. intros y Hy. apply H; simpl; auto. intro; subst; contradiction.
  - apply IH; [assumption|]. intros; apply H; simpl; auto.
Qed.

Lemma properb_spec adj cols : properb adj cols = true ->
  length cols = length adj /\
  forall i j, i < j -> j < length adj -> adjb adj i j = true -> nth i cols 0%Z <> nth j cols 0%Z.
Proof.
  unfold properb. intro H. apply andb_true_iff in H as [H1 H2]. apply Nat.eqb_eq in H1. split; [assumption|].
  intros i j Hij Hj Ha. rewrite forallb_forall in H2.
  assert (Hi : In i (seq 0 (length adj))) by (apply in_seq; lia).
  specialize (H2 i Hi). rewrite forallb_forall in H2.
  assert (Hj' : In j (seq 0 (length adj))) by (apply in_seq; lia).
  specialize (H2 j Hj'). rewrite Ha in H2. apply Nat.ltb_lt in Hij. rewrite Hij in H2. simpl in H2.
  apply negb_true_iff, Z.eqb_neq in H2. assumption.
Qed.

Lemma adj_matrix_length g ws : length (adj_matrix g (symp_matrix ws)) = length ws.
Proof. unfold adj_matrix, symp_matrix. now rewrite !map_length. Qed.

Lemma partition_from_proper_colouring_l : forall g n ws cols,
  Forall (fun w => length w = n) ws ->
  properb (adj_matrix g (symp_matrix ws)) cols = true ->
  Permutation (concat (idx_partitions cols)) (seq 0 (length ws)) /\
  Forall (ForallOrdPairs (fun i j => rel g (nth i ws []) (nth j ws []) = true)) (idx_partitions cols).
Proof.
  intros g n ws cols Hlen Hp. apply properb_spec in Hp as [Hl Hp]. rewrite adj_matrix_length in Hl, Hp.
  pose proof (idx_partitions_perm cols) as HP. rewrite Hl in HP. split; [assumption|].
  assert (Hnd : NoDup (concat (idx_partitions cols))).
  { apply (Permutation_NoDup (Permutation_sym HP)), seq_NoDup. }
  rewrite Forall_forall. intros grp Hin.
  destruct (idx_partitions_coloured cols grp Hin) as [c Hc]. rewrite Forall_forall in Hc.
  apply FOP_of_nodup; [eapply NoDup_concat_in; eauto|].
  intros i j Hi Hj Hne.
  assert (Hb : forall k, In k grp -> k < length ws).
  { intros k Hk. assert (In k (seq 0 (length ws))) as Hs.
    { apply (Permutation_in k HP). apply in_concat. eauto. }
    apply in_seq in Hs. lia. }
  pose proof (Hb i Hi) as Bi. pose proof (Hb j Hj) as Bj.
  assert (Ec : nth i cols 0%Z = nth j cols 0%Z).
  { rewrite (nth_error_nth cols i 0%Z (Hc i Hi)), (nth_error_nth cols j 0%Z (Hc j Hj)). reflexivity. }
  destruct (rel g (nth i ws []) (nth j ws [])) eqn:ER; [reflexivity|exfalso].
  destruct (Nat.lt_total i j) as [Lt|[Eq|Gt]]; [|contradiction|].
  - apply (Hp i j Lt Bj); [|assumption]. rewrite (adjb_adj_matrix g n ws i j Hlen Bi Bj), ER. reflexivity.
  - apply (Hp j i Gt Bi); [|now symmetry]. rewrite (adjb_adj_matrix g n ws j i Hlen Bj Bi), rel_sym, ER. reflexivity.
Qed.

(* ================================================================== valid_grouping is sound *)
Lemma count_nat_pos i l : count_nat i l = 1 -> In i l.
Proof.
  unfold count_nat. intro H. destruct (filter (Nat.eqb i) l) as [|x r] eqn:E; [discriminate|].
  assert (In x (filter (Nat.eqb i) l)) as Hx by (rewrite E; now left).
  apply filter_In in Hx as [Hx Hb]. apply Nat.eqb_eq in Hb. now subst.
Qed.
Lemma pairwiseb_FOP {A B} (r : B -> B -> bool) (f : A -> B) l :
  pairwiseb r (map f l) = true -> ForallOrdPairs (fun i j => r (f i) (f j) = true) l.
Proof.
  induction l as [|a l IH]; simpl; intro H; [constructor|].
  apply andb_true_iff in H as [H1 H2]. constructor; [|now apply IH].
  rewrite forallb_forall in H1. rewrite Forall_forall. intros y Hy. apply H1. now apply in_map.
Qed.
Lemma pairwiseb_FOP_id {A} (r : A -> A -> bool) l :
  pairwiseb r l = true -> ForallOrdPairs (fun u v => r u v = true) l.
Proof. intro H. rewrite <- (map_id l) in H. now apply (pairwiseb_FOP r (fun x => x)) in H. Qed.

Lemma valid_grouping_sound_l : forall r ws gs, valid_grouping r ws gs = true ->
  Permutation (concat gs) (seq 0 (length ws)) /\
  Forall (ForallOrdPairs (fun i j => r (nth i ws []) (nth j ws []) = true)) gs.
Proof.
  intros r ws gs H. unfold valid_grouping in H.
  apply andb_true_iff in H as [H H3]. apply andb_true_iff in H as [H1 H2]. apply Nat.eqb_eq in H1. split.
  - apply Permutation_sym, NoDup_Permutation_bis; [apply seq_NoDup | rewrite seq_length; lia |].
    intros i Hi. rewrite forallb_forall in H2. apply count_nat_pos, Nat.eqb_eq, H2, Hi.
  - rewrite forallb_forall in H3. rewrite Forall_forall. intros g Hg. apply pairwiseb_FOP, H3, Hg.
Qed.

(* ================================================================== coefficients travel *)
Section Route.
Context {A : Type}.
Lemma find_pop_some : forall w (obs : list (word * A)) c r,
  find_pop w obs = Some (c, r) -> Permutation obs ((w, c) :: r).
Proof.
  induction obs as [|[w' c'] t IH]; simpl; intros c r H; [discriminate|].
  destruct (word_eqb w w') eqn:E.
  - apply word_eqb_eq in E. inversion H; subst. apply Permutation_refl.
  - destruct (find_pop w t) as [[c1 r1]|] eqn:F; [|discriminate]. inversion H; subst.
    rewrite (IH _ _ eq_refl). apply perm_swap.
Qed.
Lemma find_pop_none : forall w (obs : list (word * A)), find_pop w obs = None -> ~ In w (map fst obs).
Proof.
  induction obs as [|[w' c'] t IH]; simpl; intros H; [tauto|].
  destruct (word_eqb w w') eqn:E; [discriminate|].
  destruct (find_pop w t) as [[c1 r1]|] eqn:F; [discriminate|].
  intros [Eq|Hin]; [|now apply IH].
  subst. assert (word_eqb w w = true) by now apply word_eqb_eq. congruence.
Qed.

Lemma combine_app_eq {B C} (a a' : list B) (b b' : list C) : length a = length b ->
  combine (a ++ a') (b ++ b') = combine a b ++ combine a' b'.
Proof. revert b. induction a as [|x a IH]; destruct b; simpl; intro H; try discriminate; [reflexivity|]. f_equal. apply IH. lia. Qed.

Lemma route_group_spec : forall g (obs : list (word * A)) rest,
  Permutation (g ++ rest) (map fst obs) ->
  exists cs r, route_group g obs = (cs, r) /\ length cs = length g /\
               Permutation (combine g cs ++ r) obs /\ Permutation rest (map fst r).
Proof.
  induction g as [|w g IH]; intros obs rest H; simpl.
  - exists [], obs. repeat split; auto.
  - destruct (find_pop w obs) as [[c obs']|] eqn:F.
    + pose proof (find_pop_some _ _ _ _ F) as P.
      assert (P' : Permutation (g ++ rest) (map fst obs')).
      { apply (Permutation_map fst) in P. simpl in P. rewrite P in H. simpl in H.
        eapply Permutation_cons_inv; eauto. }
      destruct (IH obs' rest P') as [cs [r [E [L [P1 P2]]]]]. rewrite E.
      exists (c :: cs), r. repeat split; simpl; auto.
      rewrite P. constructor. assumption.
    + exfalso. apply (find_pop_none _ _ F). apply (Permutation_in w H). simpl. now left.
Qed.

Lemma route_spec : forall gs (obs : list (word * A)) rest,
  Permutation (concat gs ++ rest) (map fst obs) ->
  map (@length _) (route gs obs) = map (@length _) gs /\
  exists r, Permutation (combine (concat gs) (concat (route gs obs)) ++ r) obs /\ Permutation rest (map fst r).
Proof.
  induction gs as [|g gs IH]; intros obs rest H; simpl.
  - split; [reflexivity|]. exists obs. split; auto.
  - simpl in H. rewrite <- app_assoc in H.
    destruct (route_group_spec g obs (concat gs ++ rest) H) as [cs [r [E [L [P1 P2]]]]]. rewrite E.
    destruct (IH r rest P2) as [L2 [r2 [P3 P4]]]. simpl. split; [congruence|].
    exists r2. split; [|assumption].
    rewrite combine_app_eq by (symmetry; assumption). rewrite <- app_assoc, P3. assumption.
Qed.

Lemma coeffs_travel_l : forall gs (obs : list (word * A)),
  Permutation (concat gs) (map fst obs) ->
  map (@length _) (route gs obs) = map (@length _) gs /\
  Permutation (combine (concat gs) (concat (route gs obs))) obs.
Proof.
  intros gs obs H. rewrite <- (app_nil_r (concat gs)) in H.
  destruct (route_spec gs obs [] H) as [L [r [P1 P2]]]. split; [assumption|].
  apply Permutation_nil in P2. destruct r; [|discriminate]. now rewrite app_nil_r in P1.
Qed.
End Route.

(* ================================================================== diagonalising a qwc group *)
(* f agrees with w wherever w is not the identity *)
Definition covers (f w : word) : Prop := Forall2 (fun a p => p = PI \/ a = p) f w.
(* f' keeps every non-identity letter of f *)
Definition extends (f f' : word) : Prop := Forall2 (fun a b => a = PI \/ a = b) f f'.

Lemma extends_refl f : extends f f.
Proof. induction f; constructor; auto. Qed.
Lemma extends_trans : forall f1 f2 f3, extends f1 f2 -> extends f2 f3 -> extends f1 f3.
Proof.
  intros f1 f2 f3 H. revert f3. induction H as [|a b l l' Hab H IH]; intros f3 H3; inversion H3; subst; constructor.
  - destruct Hab as [|]; [now left|]. subst. assumption.
  - now apply IH.
Qed.
Lemma covers_extends : forall f w f', covers f w -> extends f f' -> covers f' w.
Proof.
  intros f w f' H. revert f'. induction H as [|a p l l' Hap H IH]; intros f' He; inversion He; subst; constructor.
  - destruct Hap as [|Hap]; [now left|]. subst. destruct H2 as [Hi|]; [|subst; now right].
    subst. now left.
  - now apply IH.
Qed.
Lemma merge_basis_spec : forall f w f', length f = length w -> merge_basis f w = Some f' ->
  extends f f' /\ covers f' w.
Proof.
  induction f as [|a f IH]; destruct w as [|p w]; simpl; intros f' L H; try discriminate.
  - inversion H; subst. split; constructor.
  - destruct (merge_basis f w) as [r|] eqn:M; [|discriminate].
    assert (L' : length f = length w) by lia. destruct (IH w r L' M) as [E C].
    destruct p, a; simpl in H; inversion H; subst; split; constructor; auto.
Qed.
Lemma Forall2_length' {A B} (R : A -> B -> Prop) l l' : Forall2 R l l' -> length l = length l'.
Proof. induction 1; simpl; congruence. Qed.

Lemma full_word_inv : forall n g f0 f,
  Forall (fun w => length w = n) g -> length f0 = n ->
  fold_left (fun acc w => match acc with Some x => merge_basis x w | None => None end) g (Some f0) = Some f ->
  extends f0 f /\ Forall (covers f) g.
Proof.
  induction g as [|w g IH]; simpl; intros f0 f Hg L H.
  - inversion H; subst. split; [apply extends_refl|constructor].
  - inversion Hg as [|? ? Lw Hg']; subst.
    assert (L0 : length f0 = length w) by congruence.
    destruct (merge_basis f0 w) as [f1|] eqn:M.
    + destruct (merge_basis_spec f0 w f1 L0 M) as [E C].
      assert (L1 : length f1 = length f0) by (symmetry; apply (Forall2_length' _ _ _ E)).
      destruct (IH f1 f Hg' L1 H) as [E2 C2]. split; [eapply extends_trans; eauto|].
      constructor; [eapply covers_extends; eauto | assumption].
    + exfalso. clear -H. induction g as [|x g IHg]; simpl in H; [discriminate | auto].
Qed.

Lemma conj_word_covers : forall f w, covers f w -> conj_word (map gate_of f) w = (1%Z, diag_word w).
Proof.
  intros f w H. induction H as [|a p l l' Hap H IH]; [reflexivity|].
  cbn [map conj_word diag_word]. fold (diag_word l'). rewrite IH.
  destruct Hap as [E|E]; subst; [destruct a; reflexivity | destruct p; reflexivity].
Qed.

Lemma qwc_group_diagonalised_l : forall n g f, Forall (fun w => length w = n) g ->
  full_word n g = Some f ->
  forall w, In w g -> conj_word (map gate_of f) w = (1%Z, diag_word w).
Proof.
  intros n g f Hg H w Hw. unfold full_word in H.
  destruct (full_word_inv n g (repeat PI n) f Hg (repeat_length PI n) H) as [_ C].
  rewrite Forall_forall in C. apply conj_word_covers, C, Hw.
Qed.

(* the conjugation table against the 2x2 matrices: V p V^dagger = |V|^2 * sign * q with V = sqrt2 * U *)
Lemma conj1_matrix_l : forall g p,
  mmul (mmul (gmat g) (pmat p)) (mdag (gmat g)) = mscale (gnorm g * fst (conj1 g p)) (pmat (snd (conj1 g p))).
Proof. intros [] []; reflexivity. Qed.
Lemma gmat_unitary_l : forall g, mmul (gmat g) (mdag (gmat g)) = mscale (gnorm g) (pmat PI).
Proof. intros []; reflexivity. Qed.

(* a pairwise qwc group always has a common basis: diagonalize_qwc_pauli_words does not raise *)
Lemma merge_basis_qwc_some : forall f w, length f = length w -> qwc f w = true ->
  exists f', merge_basis f w = Some f'.
Proof.
  induction f as [|a f IH]; destruct w as [|p w]; simpl; intros L H; try discriminate; eauto.
  apply andb_true_iff in H as [H1 H2]. destruct (IH w (eq_add_S _ _ L) H2) as [r E]. rewrite E.
  destruct p, a; simpl in *; eauto; discriminate.
Qed.
Lemma merge_basis_qwc_pres : forall f w f', merge_basis f w = Some f' -> length f = length w ->
  forall w', qwc f w' = true -> qwc w w' = true -> qwc f' w' = true.
Proof.
  induction f as [|a f IH]; destruct w as [|p w]; simpl; intros f' M L w' H1 H2; try discriminate.
  - inversion M; subst. assumption.
  - destruct (merge_basis f w) as [r|] eqn:E; [|discriminate].
    destruct w' as [|b w']; [destruct p, a; simpl in M; inversion M; reflexivity|].
    simpl in H1, H2. apply andb_true_iff in H1 as [A1 A2]. apply andb_true_iff in H2 as [B1 B2].
    pose proof (IH w r E (eq_add_S _ _ L) w' A2 B2) as R.
    destruct p, a; simpl in M; inversion M; subst; simpl; rewrite R, ?andb_true_r; assumption.
Qed.
Lemma full_word_exists_gen : forall n g f0, Forall (fun w => length w = n) g -> length f0 = n ->
  ForallOrdPairs (fun u v => qwc u v = true) g -> Forall (fun w => qwc f0 w = true) g ->
  exists f, fold_left (fun acc w => match acc with Some x => merge_basis x w | None => None end) g (Some f0) = Some f.
Proof.
  induction g as [|w g IH]; simpl; intros f0 Hg L HP HF; [eauto|].
  inversion Hg as [|? ? Lw Hg']; inversion HP as [|? ? Hw HP']; inversion HF as [|? ? Fw HF']; subst.
  assert (L0 : length f0 = length w) by congruence.
  destruct (merge_basis_qwc_some f0 w L0 Fw) as [f1 M]. rewrite M.
  destruct (merge_basis_spec f0 w f1 L0 M) as [E _].
  apply IH; try assumption.
  - symmetry. apply (Forall2_length' _ _ _ E).
  - rewrite Forall_forall in *. intros w' Hin. eapply merge_basis_qwc_pres; eauto.
Qed.
Lemma qwc_id_l : forall n w, qwc (repeat PI n) w = true.
Proof. intros. rewrite qwc_sym. apply qwc_id_r. Qed.
Lemma qwc_group_has_basis_l : forall n g, Forall (fun w => length w = n) g ->
  ForallOrdPairs (fun u v => qwc u v = true) g -> exists f, full_word n g = Some f.
Proof.
  intros n g Hg HP. unfold full_word. apply (full_word_exists_gen n g); auto using repeat_length.
  rewrite Forall_forall. intros. apply qwc_id_l.
Qed.

(* ================================================================== group_observables, rustworkx path *)
Lemma map_nth_seq {A} (d : A) l : map (fun i => nth i l d) (seq 0 (length l)) = l.
Proof. induction l as [|a l IH]; simpl; [reflexivity|]. f_equal. rewrite <- seq_shift, map_map. exact IH. Qed.
Lemma filter_partition_perm {A} (p : A -> bool) l :
  Permutation (filter p l ++ filter (fun x => negb (p x)) l) l.
Proof.
  induction l as [|a l IH]; simpl; [constructor|]. destruct (p a); simpl.
  - now constructor.
  - apply Permutation_sym, Permutation_cons_app, Permutation_sym, IH.
Qed.
Lemma FOP_map {A B} (R : B -> B -> Prop) (f : A -> B) g :
  ForallOrdPairs (fun i j => R (f i) (f j)) g -> ForallOrdPairs R (map f g).
Proof.
  induction 1 as [|a l H1 H2 IH]; simpl; constructor; [|assumption].
  rewrite Forall_forall in *. intros y Hy. apply in_map_iff in Hy as [x [E Hx]]. subst. auto.
Qed.
Lemma FOP_all {A} (R : A -> A -> Prop) l : (forall x y, In x l -> In y l -> R x y) -> ForallOrdPairs R l.
Proof.
  induction l as [|a l IH]; intro H; constructor.
  - rewrite Forall_forall. intros; apply H; simpl; auto.
  - apply IH. intros; apply H; simpl; auto.
Qed.
Lemma FOP_app {A} (R : A -> A -> Prop) a b : ForallOrdPairs R a -> ForallOrdPairs R b ->
  (forall x y, In x a -> In y b -> R x y) -> ForallOrdPairs R (a ++ b).
Proof.
  induction 1 as [|x l H1 H2 IH]; simpl; intros Hb Hc; [assumption|]. constructor.
  - apply Forall_app; split; [assumption|]. rewrite Forall_forall. intros; apply Hc; simpl; auto.
  - apply IH; [assumption|]. intros; apply Hc; simpl; auto.
Qed.
Lemma rel_id_r g u n : g <> ANTI -> rel g u (repeat PI n) = true.
Proof.
  destruct g; simpl; intro H; [apply qwc_id_r | unfold commuting; now rewrite anti_parity_id_r | congruence].
Qed.

Lemma group_observables_rx_sound_l : forall gt n obs cols,
  Forall (fun o => length (fst o) = n) obs ->
  with_wires obs <> [] ->
  properb (adj_matrix gt (symp_matrix (with_wires obs))) cols = true ->
  Forall (fun w => w = repeat PI n) (no_wires obs) ->
  (gt <> ANTI \/ no_wires obs = []) ->
  exists gs, group_observables obs (ORx cols) = Some gs /\
             Permutation (concat gs) (map fst obs) /\
             Forall (ForallOrdPairs (fun u v => rel gt u v = true)) gs.
Proof.
  intros gt n obs cols Hlen Hne Hp Hid Hanti.
  assert (Hw : Forall (fun w => length w = n) (with_wires obs)).
  { unfold with_wires. rewrite Forall_forall in *. intros w Hin. apply in_map_iff in Hin as [o [E Ho]].
    subst. apply filter_In in Ho as [Ho _]. auto. }
  destruct (partition_from_proper_colouring_l gt n _ cols Hw Hp) as [P F].
  unfold group_observables. destruct (with_wires obs) as [|w0 wr] eqn:EW; [congruence|].
  set (ws := w0 :: wr) in *. cbn [partition_observables]. unfold items_partitions.
  destruct (idx_partitions cols) as [|g0 r] eqn:EI.
  { simpl in P. apply Permutation_nil in P. discriminate. }
  cbn [map]. eexists; split; [reflexivity|]. set (nt := fun i => nth i ws []) in *. split.
  - cbn [concat].
    assert (Q : Permutation (map nt g0 ++ concat (map (map nt) r)) ws).
    { change (Permutation (concat (map (map nt) (g0 :: r))) ws). rewrite <- concat_map.
      eapply Permutation_trans; [apply Permutation_map; exact P|].
      unfold nt. rewrite map_nth_seq. apply Permutation_refl. }
    rewrite <- app_assoc. rewrite (Permutation_app_comm (no_wires obs)), app_assoc. unfold nt in Q. rewrite Q.
    rewrite <- EW. unfold with_wires, no_wires. rewrite <- map_app. apply Permutation_map.
    apply filter_partition_perm.
  - inversion F as [|? ? F0 Fr]; subst. constructor.
    + apply FOP_app.
      * apply FOP_map. exact F0.
      * apply FOP_all. intros x y Hx Hy. destruct Hanti as [Ha|Ha]; [|rewrite Ha in Hx; contradiction].
        rewrite Forall_forall in Hid. rewrite (Hid y Hy). now apply rel_id_r.
      * intros x y Hx Hy. destruct Hanti as [Ha|Ha]; [|rewrite Ha in Hy; contradiction].
        rewrite Forall_forall in Hid. rewrite (Hid y Hy). now apply rel_id_r.
    + rewrite Forall_forall in *. intros g Hg. apply in_map_iff in Hg as [g' [E Hg']]. subst.
      apply FOP_map. apply Fr. assumption.
Qed.

(* the corner that fails: a wire-less identity joins the first group also for `anticommuting` *)
Lemma anticommuting_wireless_refuted_l :
  exists obs cols gs,
    properb (adj_matrix ANTI (symp_matrix (with_wires obs))) cols = true /\
    group_observables obs (ORx cols) = Some gs /\
    forallb (pairwiseb (rel ANTI)) gs = false.
Proof.
  exists [([PX], true); ([PZ], true); ([PI], false)], [0%Z; 0%Z], [[[PX]; [PZ]; [PI]]].
  vm_compute. repeat split.
Qed.
