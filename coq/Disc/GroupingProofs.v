From Coq Require Import List ZArith Bool Arith Lia.
From PLV Require Import Disc.GroupingModel.
Import ListNotations.
Lemma qwc_nil : forall v, qwc [] v = true. Proof. reflexivity. Qed.
