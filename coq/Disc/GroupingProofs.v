(* Lemmas about the grouping model (property C52). *)
From Coq Require Import List ZArith Bool Arith Lia Permutation.
From PLV Require Import Disc.GroupingModel.
Import ListNotations.

(* ================================================================== relations *)
Lemma pauli_eqb_eq a b : pauli_eqb a b = true <-> a = b.
Proof. destruct a, b; simpl; split; intro H; try reflexivity; discriminate. Qed.
Lemma word_eqb_eq : forall u v, word_eqb u v = true <-> u = v.
Proof.
  unfold word_eqb. induction u as [|a u IH]; destruct v as [|b v]; simpl; split; intro H;
    try reflexivity; try discriminate.
  - apply andb_true_iff in H as [H1 H2]. apply pauli_eqb_eq in H1. apply IH in H2. congruence.
  - inversion H; subst. apply andb_true_iff; split; [now apply pauli_eqb_eq | now apply IH].
Qed.

Lemma q_commute_sym a b : q_commute a b = q_commute b a.
Proof. destruct a, b; reflexivity. Qed.
Lemma qwc_sym : forall u v, qwc u v = qwc v u.
Proof. induction u as [|a u IH]; destruct v as [|b v]; simpl; try reflexivity. now rewrite IH, q_commute_sym. Qed.
Lemma anti_parity_sym : forall u v, anti_parity u v = anti_parity v u.
Proof. induction u as [|a u IH]; destruct v as [|b v]; simpl; try reflexivity. now rewrite IH, q_commute_sym. Qed.
Lemma rel_sym g u v : rel g u v = rel g v u.
Proof. destruct g; simpl; unfold commuting, anticommuting; now rewrite ?qwc_sym, ?(anti_parity_sym u v). Qed.

Lemma qwc_anti_parity : forall u v, qwc u v = true -> anti_parity u v = false.
Proof.
  induction u as [|a u IH]; destruct v as [|b v]; simpl; intro H; try reflexivity.
  apply andb_true_iff in H as [H1 H2]. rewrite H1, (IH _ H2). reflexivity.
Qed.
Lemma qwc_commuting u v : qwc u v = true -> commuting u v = true.
Proof. intro H. unfold commuting. now rewrite qwc_anti_parity. Qed.

(* the identity word is qwc / commuting with everything, and anticommutes with nothing *)
Lemma qwc_id_r : forall u n, qwc u (repeat PI n) = true.
Proof. induction u as [|a u IH]; destruct n; simpl; try reflexivity. rewrite IH. destruct a; reflexivity. Qed.
Lemma anti_parity_id_r : forall u n, anti_parity u (repeat PI n) = false.
Proof. intros. apply qwc_anti_parity, qwc_id_r. Qed.

(* ================================================================== adjacency = relation *)
Open Scope Z_scope.
Definition pint (p : pauli) : Z := 2 * xbit p + zbit p.
Close Scope Z_scope.

Lemma to_symp_length w : length (to_symp w) = 2 * length w.
Proof. unfold to_symp. rewrite app_length, !map_length. lia. Qed.
Lemma div2_to_symp w : Nat.div2 (length (to_symp w)) = length w.
Proof. rewrite to_symp_length. apply Nat.div2_double. Qed.
Lemma firstn_to_symp w : firstn (length w) (to_symp w) = map xbit w.
Proof.
  unfold to_symp. rewrite firstn_app, map_length, Nat.sub_diag. simpl. rewrite app_nil_r.
  rewrite <- (map_length xbit w) at 1. apply firstn_all.
Qed.
Lemma skipn_to_symp w : skipn (length w) (to_symp w) = map zbit w.
Proof.
  unfold to_symp. rewrite skipn_app, map_length, Nat.sub_diag. simpl.
  rewrite <- (map_length xbit w) at 1. now rewrite skipn_all.
Qed.
Lemma combine_map2 {A B C} (f : A -> B) (g : A -> C) l :
  combine (map f l) (map g l) = map (fun a => (f a, g a)) l.
Proof. induction l; simpl; congruence. Qed.
Lemma pint_row_to_symp w : pint_row (length w) (to_symp w) = map pint w.
Proof. unfold pint_row. rewrite firstn_to_symp, skipn_to_symp, combine_map2, map_map. reflexivity. Qed.
Lemma from_to_symp w : from_symp (to_symp w) = w.
Proof.
  unfold from_symp. rewrite div2_to_symp, firstn_to_symp, skipn_to_symp, combine_map2, map_map.
  rewrite <- (map_id w) at 2. apply map_ext. intros []; reflexivity.
Qed.

Lemma nz_pint a b : nz ((pint a * pint b) * (pint a - pint b)) = negb (q_commute a b).
Proof. destruct a, b; reflexivity. Qed.

Definition ac_list (v u : word) : list bool :=
  map (fun ab => negb (q_commute (fst ab) (snd ab))) (combine v u).
Lemma qam_pint u v : map nz (qam (map pint u) (map pint v)) = ac_list v u.
Proof.
  unfold qam, ac_list. rewrite map_map. revert u.
  induction v as [|b v IH]; destruct u as [|a u]; simpl; try reflexivity.
  rewrite nz_pint. f_equal. apply IH.
Qed.
Lemma fold_orb_acc l : forall a, fold_left orb l a = a || fold_left orb l false.
Proof.
  induction l as [|x l IH]; intro a; simpl; [now rewrite orb_false_r|].
  rewrite (IH (a || x)), (IH x). now rewrite orb_assoc.
Qed.
Lemma fold_xorb_acc l : forall a, fold_left xorb l a = xorb a (fold_left xorb l false).
Proof.
  induction l as [|x l IH]; intro a; simpl; [now rewrite xorb_false_r|].
  rewrite (IH (xorb a x)), (IH x). now rewrite xorb_assoc.
Qed.
Lemma or_reduce_ac : forall v u, or_reduce (ac_list v u) = negb (qwc v u).
Proof.
  unfold or_reduce, ac_list. induction v as [|b v IH]; destruct u as [|a u]; simpl; try reflexivity.
  rewrite fold_orb_acc, IH. now rewrite negb_andb.
Qed.
Lemma xor_reduce_ac : forall v u, xor_reduce (ac_list v u) = anti_parity v u.
Proof.
  unfold xor_reduce, ac_list. induction v as [|b v IH]; destruct u as [|a u]; simpl; try reflexivity.
  now rewrite fold_xorb_acc, IH.
Qed.
Lemma entry_pint g u v : entry g (map pint u) (map pint v) = negb (rel g u v).
Proof.
  unfold entry. rewrite qam_pint. destruct g; simpl; unfold commuting, anticommuting.
  - now rewrite or_reduce_ac, qwc_sym.
  - now rewrite xor_reduce_ac, negb_involutive, anti_parity_sym.
  - now rewrite xor_reduce_ac, anti_parity_sym.
Qed.

Lemma adjacency_iff_relation_l : forall g n ws, Forall (fun w => length w = n) ws ->
  adj_matrix g (symp_matrix ws) = map (fun wi => map (fun wj => negb (rel g wi wj)) ws) ws.
Proof.
  intros g n ws H. unfold adj_matrix.
  assert (HP : map (pint_row (n_qubits (symp_matrix ws))) (symp_matrix ws) = map (map pint) ws).
  { destruct ws as [|w0 ws0]; [reflexivity|].
    assert (Hn : n_qubits (symp_matrix (w0 :: ws0)) = n).
    { simpl. rewrite div2_to_symp. now inversion H. }
    rewrite Hn. unfold symp_matrix. rewrite map_map. apply map_ext_in. intros w Hw.
    rewrite Forall_forall in H. rewrite <- (H w Hw). apply pint_row_to_symp. }
  rewrite HP, map_map. apply map_ext. intro wi. rewrite map_map. apply map_ext. intro wj. apply entry_pint.
Qed.

Lemma adjb_adj_matrix g n ws i j : Forall (fun w => length w = n) ws -> i < length ws -> j < length ws ->
  adjb (adj_matrix g (symp_matrix ws)) i j = negb (rel g (nth i ws []) (nth j ws [])).
Proof.
  intros H Hi Hj. rewrite (adjacency_iff_relation_l g n ws H). unfold adjb.
  set (F := fun wi => map (fun wj => negb (rel g wi wj)) ws).
  rewrite (nth_indep (map F ws) [] (F [])) by now rewrite map_length.
  rewrite map_nth. unfold F.
  set (G := fun wj => negb (rel g (nth i ws []) wj)).
  rewrite (nth_indep (map G ws) false (G [])) by now rewrite map_length.
  now rewrite map_nth.
Qed.
