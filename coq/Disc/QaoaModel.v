(* Model of pennylane/qaoa/cost.py, mixers.py, cycle.py (the Hamiltonian builders).
   No proofs here: this file must keep running for the correspondence check even when a
   proof elsewhere breaks.

   A diagonal Hamiltonian is a Pauli sentence whose words contain only Z: a list of
   (rational coefficient, list of wires carrying Z); the identity is the empty word.
   Operator arithmetic of the source (`3 * H`, `H1 + H2`) is modelled on sentences
   (scaling every coefficient / concatenation): the pauli_rep of the result is linear in both.
   Graphs: the node list (node VALUES = wire labels) and the edge list with both endpoints
   already mapped to node values (what `get_nvalue` does for rustworkx inputs).            *)
From Coq Require Import List ZArith QArith Qabs Bool.
Import ListNotations.
Open Scope Q_scope.

(* ------------------------------------------------------------------ sentences *)
Definition word := list Z.
Definition ham := list (Q * word).

Definition zval (b : Z -> bool) (w : Z) : Q := if b w then -(1) else 1.      (* 1 - 2 b_w *)
Fixpoint word_value (b : Z -> bool) (ws : word) : Q :=
  match ws with [] => 1 | w :: r => zval b w * word_value b r end.
Fixpoint diag_value (H : ham) (b : Z -> bool) : Q :=
  match H with [] => 0 | t :: r => fst t * word_value b (snd t) + diag_value r b end.

Definition hscale (k : Q) (H : ham) : ham := map (fun t => (k * fst t, snd t)) H.

Record graph := mkG { nodes : list Z; edges : list (Z * Z) }.

Inductive res (A : Type) := Ok (h : A) | Raise | Unspecified.
Arguments Ok {A} h. Arguments Raise {A}. Arguments Unspecified {A}.

Definition memz (x : Z) (l : list Z) : bool := existsb (Z.eqb x) l.

(* ------------------------------------------------------------------ cost.py : bit_driver *)
Definition bit_driver (wires : list Z) (b : Z) : res ham :=
  if (b =? 0)%Z then Ok (map (fun w => (-(1), [w])) wires)
  else if (b =? 1)%Z then Ok (map (fun w => (1, [w])) wires)
  else Raise.

(* ------------------------------------------------------------------ cost.py : edge_driver
   reward entries are coded 0="00" 1="01" 2="10" 3="11"; any other number = an invalid string *)
Definition edge_terms (r : Z) (sign : Q) (es : list (Z * Z)) : ham :=
  (if (r =? 0)%Z then
     flat_map (fun e => [((1#4) * sign, [fst e; snd e]); ((1#4) * sign, [fst e]); ((1#4) * sign, [snd e])]) es
   else []) ++
  (if (r =? 2)%Z then map (fun e => (-(1#2) * sign, [fst e; snd e])) es else []) ++
  (if (r =? 3)%Z then
     flat_map (fun e => [((1#4) * sign, [fst e; snd e]); (-(1#4) * sign, [fst e]); (-(1#4) * sign, [snd e])]) es
   else []).

Definition b2n (b : bool) : nat := if b then 1%nat else 0%nat.

Definition edge_driver (g : graph) (reward : list Z) : res ham :=
  if negb (forallb (fun e => memz e [0; 1; 2; 3]%Z) reward) then Raise
  else if (memz 1 reward && negb (memz 2 reward)) || (memz 2 reward && negb (memz 1 reward)) then Raise
  else if (length reward =? 0)%nat || (length reward =? 4)%nat then
    Ok (map (fun v => (1, [])) (nodes g))
  else
    (* reward = list(set(reward) - {"01"}): a subset of {00, 10, 11} *)
    let h0 := memz 0 reward in let h2 := memz 2 reward in let h3 := memz 3 reward in
    match (b2n h0 + b2n h2 + b2n h3)%nat with
    | 1%nat => Ok (edge_terms (if h0 then 0 else if h2 then 2 else 3)%Z (-(1)) (edges g))
    | 2%nat => (* the complement inside {00,10,11}, sign = 1 *)
        Ok (edge_terms (if negb h0 then 0 else if negb h2 then 2 else 3)%Z 1 (edges g))
    | _ => Unspecified   (* three entries left (needs duplicates in `reward`): reward[0] of a set, hash order *)
    end.

Definition happ (a b : res ham) : res ham :=
  match a, b with Ok x, Ok y => Ok (x ++ y) | Unspecified, _ => Unspecified | _, Unspecified => Unspecified | _, _ => Raise end.
Definition hmul (k : Q) (a : res ham) : res ham :=
  match a with Ok x => Ok (hscale k x) | Raise => Raise | Unspecified => Unspecified end.

(* ------------------------------------------------------------------ cost.py : problems *)
Definition maxcut (g : graph) : res ham :=
  let identity_h := map (fun e : Z * Z => (-(1#2), @nil Z)) (edges g) in
  happ (edge_driver g [2; 1]%Z) (Ok identity_h).

Definition max_independent_set (g : graph) (constrained : bool) : res ham :=
  if constrained then bit_driver (nodes g) 1
  else happ (hmul 3 (edge_driver g [2; 1; 0]%Z)) (bit_driver (nodes g) 1).

Definition min_vertex_cover (g : graph) (constrained : bool) : res ham :=
  if constrained then bit_driver (nodes g) 0
  else happ (hmul 3 (edge_driver g [3; 2; 1]%Z)) (bit_driver (nodes g) 0).

(* networkx / rustworkx complement: all unordered pairs of distinct nodes that are not adjacent *)
Fixpoint pairs (l : list Z) : list (Z * Z) :=
  match l with [] => [] | x :: r => map (fun y => (x, y)) r ++ pairs r end.
Definition adjacent (es : list (Z * Z)) (u v : Z) : bool :=
  existsb (fun e => ((fst e =? u)%Z && (snd e =? v)%Z) || ((fst e =? v)%Z && (snd e =? u)%Z)) es.
Definition complement (g : graph) : graph :=
  mkG (nodes g) (filter (fun p => negb (adjacent (edges g) (fst p) (snd p))) (pairs (nodes g))).

Definition max_clique (g : graph) (constrained : bool) : res ham :=
  if constrained then bit_driver (nodes g) 1
  else happ (hmul 3 (edge_driver (complement g) [2; 1; 0]%Z)) (bit_driver (nodes g) 1).

(* ------------------------------------------------------------------ documented objectives
   (written from the docstrings, not from the code) *)
Definition sumQ {A} (f : A -> Q) (l : list A) : Q := fold_right (fun x a => f x + a) 0 l.
Definition countQ {A} (p : A -> bool) (l : list A) : Q := sumQ (fun x => if p x then 1 else 0) l.
Definition lenQ {A} (l : list A) : Q := sumQ (fun _ => 1) l.

(* bit_driver: (-1)^(b+1) sum_i Z_i  ->  (-1)^(b+1) (n - 2 #ones) *)
Definition ones (b : Z -> bool) (ws : list Z) : Q := countQ b ws.
(* edge_driver: every edge whose endpoint colouring is in `reward` gets a lower energy than the
   others, the difference is exactly 1 and the four colourings average to 0
   (docs: reward {00,01,10} -> -1/4 for the rewarded, 3/4 for 11). *)
Definition colour (bu bv : bool) : Z := ((if bu then 2 else 0) + (if bv then 1 else 0))%Z.
Definition nrew (R : list Z) : Q := countQ (fun c => memz c R) [0; 1; 2; 3]%Z.
Definition edge_energy (R : list Z) (bu bv : bool) : Q :=
  if memz (colour bu bv) R then -((4 - nrew R) / 4) else nrew R / 4.
Definition edge_driver_obj (R : list Z) (g : graph) (b : Z -> bool) : Q :=
  sumQ (fun e => edge_energy R (b (fst e)) (b (snd e))) (edges g).

Definition is_cut (b : Z -> bool) (e : Z * Z) : bool := xorb (b (fst e)) (b (snd e)).
Definition both1 (b : Z -> bool) (e : Z * Z) : bool := b (fst e) && b (snd e).
Definition both0 (b : Z -> bool) (e : Z * Z) : bool := negb (b (fst e)) && negb (b (snd e)).

(* MaxCut: minus the number of edges crossing the cut *)
Definition maxcut_obj (g : graph) (b : Z -> bool) : Q := - countQ (is_cut b) (edges g).
(* independent set S = {v : b_v = 1}: |V| - 2|S| (smallest for the largest set); the unconstrained
   form adds 3 per violated edge (both endpoints chosen), up to the constant -3/4 |E| *)
Definition set_obj (g : graph) (b : Z -> bool) : Q := lenQ (nodes g) - 2 * ones b (nodes g).
Definition mis_obj (g : graph) (constrained : bool) (b : Z -> bool) : Q :=
  if constrained then set_obj g b
  else set_obj g b + 3 * countQ (both1 b) (edges g) - (3#4) * lenQ (edges g).
(* vertex cover S: 2|S| - |V| (smallest for the smallest cover); unconstrained: + 3 per uncovered edge *)
Definition mvc_obj (g : graph) (constrained : bool) (b : Z -> bool) : Q :=
  if constrained then - set_obj g b
  else - set_obj g b + 3 * countQ (both0 b) (edges g) - (3#4) * lenQ (edges g).
(* clique S: |V| - 2|S|; unconstrained: + 3 per chosen pair of distinct non-adjacent vertices *)
Definition nonadj (g : graph) (p : Z * Z) : bool := negb (adjacent (edges g) (fst p) (snd p)).
Definition clique_obj (g : graph) (constrained : bool) (b : Z -> bool) : Q :=
  if constrained then set_obj g b
  else set_obj g b + 3 * countQ (fun p => nonadj g p && both1 b p) (pairs (nodes g))
       - (3#4) * countQ (nonadj g) (pairs (nodes g)).

(* the operator formula printed in the docstrings of the unconstrained MIS / max-clique forms,
   3 sum_E (Z_i Z_j - Z_i - Z_j) + sum_V Z_i, taken literally *)
Definition mis_doc_literal (g : graph) : ham :=
  flat_map (fun e => [(3, [fst e; snd e]); (-(3), [fst e]); (-(3), [snd e])]) (edges g)
  ++ map (fun v => (1, [v])) (nodes g).

(* ------------------------------------------------------------------ general Pauli sentences (mixers) *)
(* letters: 1 = X, 2 = Y, 3 = Z *)
Definition pword := list (Z * Z).
Definition pham := list (Q * pword).
Definition embed (H : ham) : pham := map (fun t => (fst t, map (fun w => (w, 3%Z)) (snd t))) H.

(* mixers.py : x_mixer *)
Definition x_mixer (wires : list Z) : pham := map (fun w => (1, [(w, 1%Z)])) wires.
(* mixers.py : xy_mixer *)
Definition xy_mixer (g : graph) : pham :=
  flat_map (fun e => [((1#2), [(fst e, 1%Z); (snd e, 1%Z)]); ((1#2), [(fst e, 2%Z); (snd e, 2%Z)])]) (edges g).
(* mixers.py : bit_flip_mixer.  neighbours of a node (rustworkx/networkx return each neighbour once) *)
Fixpoint nub (l : list Z) : list Z :=
  match l with [] => [] | x :: r => if memz x r then nub r else x :: nub r end.
Definition nbrs (es : list (Z * Z)) (i : Z) : list Z :=
  nub (flat_map (fun e => if (fst e =? i)%Z then [snd e] else if (snd e =? i)%Z then [fst e] else []) es).
(* itertools.product over [I(n), Z(n)] with coefficients [1, sign] *)
Fixpoint expand (sign : Q) (nb : list Z) : pham :=
  match nb with
  | [] => [(1, [])]
  | n :: r => let rest := expand sign r in
              map (fun t => (1 * fst t, snd t)) rest ++ map (fun t => (sign * fst t, (n, 3%Z) :: snd t)) rest
  end.
Fixpoint halfpow (n : nat) : Q := match n with O => 1 | S k => (1#2) * halfpow k end.
Definition bit_flip_mixer (g : graph) (b : Z) : res pham :=
  if negb (memz b [0; 1]%Z) then Raise
  else let sign := if (b =? 0)%Z then 1 else -(1) in
       Ok (flat_map (fun i => let nb := nbrs (edges g) i in
                      map (fun t => (halfpow (length nb) * fst t, (i, 1%Z) :: snd t)) (expand sign nb))
                    (nodes g)).

(* ------------------------------------------------------------------ cycle.py (directed graphs)
   edges in wire order (position = wire), each with the value numpy.log(weight) recorded from
   the run (oracle) *)
Record digraph := mkD { dnodes : list Z; dedges : list (Z * Z * Q); directed : bool }.
Definition esrc (e : Z * Z * Q) := fst (fst e).
Definition edst (e : Z * Z * Q) := snd (fst e).
Fixpoint number {A} (i : Z) (l : list A) : list (Z * A) :=
  match l with [] => [] | x :: r => (i, x) :: number (i + 1)%Z r end.
Definition wired (d : digraph) : list (Z * (Z * Z * Q)) := number 0%Z (dedges d).

Definition loss_hamiltonian (d : digraph) : res ham :=
  if existsb (fun e => (esrc e =? edst e)%Z) (dedges d) then Raise
  else Ok (map (fun we => (snd (snd we), [fst we])) (wired d)).

(* _square_hamiltonian_terms *)
Fixpoint pairs_sq (l : ham) : ham :=
  match l with
  | [] => []
  | t :: r => map (fun u => (2 * fst t * fst u, snd t ++ snd u)) r ++ pairs_sq r
  end.
Definition square_terms (l : ham) : ham := (sumQ (fun t => fst t * fst t) l, []) :: pairs_sq l.

Definition out_edges (d : digraph) (n : Z) := filter (fun we => (esrc (snd we) =? n)%Z) (wired d).
Definition in_edges (d : digraph) (n : Z) := filter (fun we => (edst (snd we) =? n)%Z) (wired d).

Definition inner_out_flow (d : digraph) (n : Z) : ham :=
  let oe := out_edges d n in
  let dg := lenQ oe in
  square_terms (map (fun we => (1, [fst we])) oe)
  ++ map (fun we => (-(2) * (dg - 1), [fst we])) oe
  ++ [(dg * (dg - 2), [])].
Definition inner_net_flow (d : digraph) (n : Z) : ham :=
  let oe := out_edges d n in let ie := in_edges d n in
  square_terms ((lenQ oe - lenQ ie, []) :: map (fun we => (-(1), [fst we])) oe ++ map (fun we => (1, [fst we])) ie).

Definition out_flow_constraint (d : digraph) : res ham :=
  if directed d then Ok (flat_map (inner_out_flow d) (dnodes d)) else Raise.
Definition net_flow_constraint (d : digraph) : res ham :=
  if directed d then Ok (flat_map (inner_net_flow d) (dnodes d)) else Raise.

Definition has_edge (d : digraph) (u v : Z) : option Z :=
  match find (fun we => (esrc (snd we) =? u)%Z && (edst (snd we) =? v)%Z) (wired d) with
  | Some we => Some (fst we) | None => None end.
Definition partial_cycle_mixer (d : digraph) (we : Z * (Z * Z * Q)) : pham :=
  let i := esrc (snd we) in let j := edst (snd we) in
  flat_map (fun k =>
    if (k =? i)%Z || (k =? j)%Z then [] else
    match has_edge d i k, has_edge d k j with
    | Some ow, Some iw =>
        let w := fst we in
        [ ((1#4), [(w, 1); (ow, 1); (iw, 1)]%Z); ((1#4), [(w, 2); (ow, 2); (iw, 1)]%Z);
          ((1#4), [(w, 2); (ow, 1); (iw, 2)]%Z); (-(1#4), [(w, 1); (ow, 2); (iw, 2)]%Z) ]
    | _, _ => []
    end) (dnodes d).
Definition cycle_mixer (d : digraph) : res pham :=
  if directed d then Ok (flat_map (partial_cycle_mixer d) (wired d)) else Raise.

Definition rmap {A B} (f : A -> B) (r : res A) : res B :=
  match r with Ok x => Ok (f x) | Raise => Raise | Unspecified => Unspecified end.

(* max_weight_cycle: the cost Hamiltonian ... *)
Definition mwc_cost (d : digraph) (constrained : bool) : res ham :=
  if constrained then loss_hamiltonian d
  else happ (loss_hamiltonian d) (hmul 3 (happ (net_flow_constraint d) (out_flow_constraint d))).
(* ... and (cost, mixer) *)
Definition max_weight_cycle (d : digraph) (constrained : bool) : res (pham * pham) :=
  if constrained then
    match mwc_cost d true, cycle_mixer d with
    | Ok c, Ok m => Ok (embed c, m) | _, _ => Raise end
  else
    match mwc_cost d false with
    | Ok c => Ok (embed c, x_mixer (map fst (wired d)))
    | _ => Raise
    end.

(* documented meaning of the two constraint Hamiltonians (selected edges x_e = b_wire):
   out flow: sum_i 4 s_i (s_i - 1)   (zero iff at most one selected edge leaves each node),
   net flow: sum_i 4 (s_out_i - s_in_i)^2 *)
Definition selq (b : Z -> bool) (l : list (Z * (Z * Z * Q))) : Q := countQ (fun we => b (fst we)) l.
Definition out_flow_obj (d : digraph) (b : Z -> bool) : Q :=
  sumQ (fun n => let s := selq b (out_edges d n) in 4 * s * (s - 1)) (dnodes d).
Definition net_flow_obj (d : digraph) (b : Z -> bool) : Q :=
  sumQ (fun n => let s := selq b (out_edges d n) - selq b (in_edges d n) in 4 * s * s) (dnodes d).

(* loss: sum over edges of log(c_e) z_e *)
Definition loss_obj (d : digraph) (b : Z -> bool) : Q :=
  sumQ (fun we => snd (snd we) * zval b (fst we)) (wired d).
Definition mwc_obj (d : digraph) (constrained : bool) (b : Z -> bool) : Q :=
  if constrained then loss_obj d b else loss_obj d b + 3 * (net_flow_obj d b + out_flow_obj d b).

(* ------------------------------------------------------------------ correspondence check *)
Fixpoint ins (x : Z * Z) (l : pword) : pword :=
  match l with [] => [x] | y :: r => if (fst x <=? fst y)%Z then x :: l else y :: ins x r end.
Definition sortw (w : pword) : pword := fold_right ins [] w.
Fixpoint eqw (a b : pword) : bool :=
  match a, b with
  | [], [] => true
  | x :: r, y :: s => (fst x =? fst y)%Z && (snd x =? snd y)%Z && eqw r s
  | _, _ => false
  end.
Definition coeff_of (w : pword) (H : pham) : Q :=
  fold_right (fun t a => if eqw (sortw (snd t)) w then Qred (fst t + a) else a) 0 H.
(* equality of sentences as finite maps word -> coefficient, up to eps (eps = 0: exact) *)
Definition ham_close (eps : Q) (A B : pham) : bool :=
  forallb (fun t => let w := sortw (snd t) in Qle_bool (Qabs (coeff_of w A - coeff_of w B)) eps) (A ++ B).

Inductive gcase :=
| KBit (wires : list Z) (b : Z)
| KEdge (g : graph) (reward : list Z)
| KMaxcut (g : graph)
| KMis (g : graph) (c : bool)
| KMvc (g : graph) (c : bool)
| KClique (g : graph) (c : bool)
| KXmix (wires : list Z)
| KXYmix (g : graph)
| KBitflip (g : graph) (b : Z)
| KLoss (d : digraph)
| KNetflow (d : digraph)
| KOutflow (d : digraph)
| KCycleMixer (d : digraph)
| KMwc (d : digraph) (c : bool).

Definition with_mixer (c : res ham) (m : res pham) : res (pham * pham) :=
  match c, m with
  | Ok x, Ok y => Ok (embed x, y)
  | Unspecified, _ => Unspecified | _, Unspecified => Unspecified
  | _, _ => Raise end.
Definition solo (c : res pham) : res (pham * pham) := rmap (fun x => (x, [])) c.

(* what the builder returns: (cost, mixer); single-Hamiltonian builders have an empty second part *)
Definition run (k : gcase) : res (pham * pham) :=
  match k with
  | KBit ws b => solo (rmap embed (bit_driver ws b))
  | KEdge g r => solo (rmap embed (edge_driver g r))
  | KMaxcut g => with_mixer (maxcut g) (Ok (x_mixer (nodes g)))
  | KMis g c => with_mixer (max_independent_set g c)
                  (if c then bit_flip_mixer g 0 else Ok (x_mixer (nodes g)))
  | KMvc g c => with_mixer (min_vertex_cover g c)
                  (if c then bit_flip_mixer g 1 else Ok (x_mixer (nodes g)))
  | KClique g c => with_mixer (max_clique g c)
                  (if c then bit_flip_mixer (complement g) 0 else Ok (x_mixer (nodes g)))
  | KXmix ws => solo (Ok (x_mixer ws))
  | KXYmix g => solo (Ok (xy_mixer g))
  | KBitflip g b => solo (bit_flip_mixer g b)
  | KLoss d => solo (rmap embed (loss_hamiltonian d))
  | KNetflow d => solo (rmap embed (net_flow_constraint d))
  | KOutflow d => solo (rmap embed (out_flow_constraint d))
  | KCycleMixer d => solo (cycle_mixer d)
  | KMwc d c => max_weight_cycle d c
  end.

(* expected: None = the implementation raised; Some (cost, mixer) = extracted pauli_rep terms *)
Definition check_case (c : gcase * Q * option (pham * pham)) : bool :=
  match run (fst (fst c)), snd c with
  | Raise, None => true
  | Ok (h, m), Some (h', m') => ham_close (snd (fst c)) h h' && ham_close 0 m m'
  | _, _ => false
  end.

(* typed constructor used by the generated case files *)
Definition mkcase (k : gcase) (eps : Q) (e : option (pham * pham)) : gcase * Q * option (pham * pham) := (k, eps, e).
