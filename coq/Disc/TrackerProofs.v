(* Lemmas about the model of Tracker / simulator_tracking (Disc/TrackerModel.v). *)
From Coq Require Import List ZArith Bool Lia ZifyBool.
From PLV Require Import Disc.ShotsModel Disc.ShotsProofs Disc.TrackerModel.
Import ListNotations.
Open Scope Z_scope.

(* ------------------------------------------------------------------ specification-level views *)
(* totals.get(k, 0) and history.get(k, []) *)
Definition get_tot (t : list (Z * Z)) (k : Z) : Z := match lookup k t with Some z => z | None => 0 end.
Definition has_tot (t : list (Z * Z)) (k : Z) : bool := match lookup k t with Some _ => true | None => false end.
Definition get_hist (h : list (Z * list value)) (k : Z) : list value :=
  match lookup k h with Some l => l | None => [] end.

(* the values passed for keyword k in one update call *)
Fixpoint vals (k : Z) (kw : kwargs) : list value :=
  match kw with [] => [] | kv :: r => if k =? fst kv then snd kv :: vals k r else vals k r end.
Definition numval (v : value) : Z := match num_of v with Some z => z | None => 0 end.
Definition is_num (v : value) : bool := match num_of v with Some _ => true | None => false end.
Fixpoint sum_num (l : list value) : Z := match l with [] => 0 | v :: r => numval v + sum_num r end.
Definition has_num (l : list value) : bool := existsb is_num l.

(* the sequence of update calls an event list / a device call performs *)
Definition ev_kwargs (e : event) : list kwargs := match e with EUpdate kw => [kw] | ERecord => [] end.
Definition events_log (es : list event) : list kwargs := flat_map ev_kwargs es.
Definition call_log (c : call) : list kwargs := events_log (call_events c).
Definition key_vals (k : Z) (log : list kwargs) : list value := vals k (concat log).

(* abstract semantics of a program: is the tracker active, and the list of update calls since the
   last reset, in call order *)
Definition astep (persistent : bool) (a : bool * list kwargs) (o : op) : bool * list kwargs :=
  match o with
  | OEnter => (true, if persistent then snd a else [])
  | OExit => (false, snd a)
  | OReset => (fst a, [])
  | OUpdate kw => (fst a, snd a ++ [kw])
  | ORecord => a
  | OCall c => if fst a then (true, snd a ++ call_log c) else a
  end.
Definition arun (persistent : bool) (ops : list op) : bool * list kwargs :=
  fold_left (astep persistent) ops (false, []).

(* circuits of a batch that reach the tracker: all of them unless get_num_shots_and_executions raises *)
Fixpoint tracked (cs : list circuit) : list circuit :=
  match cs with [] => [] | c :: r => match nse c with None => [] | Some _ => c :: tracked r end end.
Definition nexec (c : circuit) : Z := match nse c with Some p => fst p | None => 0 end.
Definition nshots (c : circuit) : Z := match nse c with Some p => snd p | None => 0 end.

Definition call_executions (c : call) : Z :=
  match c with
  | CExecute a => sumZ (map nexec (tracked (batch_of a)))
  | CExecDeriv a | CExecJvp a | CExecVjp a => len (batch_of a)
  | _ => 0
  end.
Definition call_shots (c : call) : Z :=
  match c with
  | CExecute a => sumZ (map nshots (filter has_shots (tracked (batch_of a))))
  | _ => 0
  end.
Definition call_simulations (c : call) : Z :=
  match c with CExecute a => len (tracked (batch_of a)) | _ => 0 end.
Definition call_derivatives (c : call) : Z :=
  match c with CDeriv a | CExecDeriv a => len (batch_of a) | _ => 0 end.
Definition is_execute (c : call) : bool := match c with CExecute _ => true | _ => false end.
Definition is_deriv (c : call) : bool := match c with CDeriv _ => true | _ => false end.
Definition count {A} (f : A -> bool) (l : list A) : Z := len (filter f l).

(* `with Tracker(dev) as tracker:` followed by the device calls *)
Definition tracked_run (persistent has_cb : bool) (calls : list call) : tracker :=
  run_ops (init persistent has_cb) (OEnter :: map OCall calls).

(* ------------------------------------------------------------------ dictionaries *)
Lemma lookup_upd_hist k k' v h :
  lookup k' (upd_hist k v h) = if k' =? k then Some (get_hist h k ++ [v]) else lookup k' h.
Proof.
  unfold get_hist. induction h as [|[k0 l] r IH]; cbn [upd_hist lookup].
  - destruct (k' =? k); reflexivity.
  - destruct (Z.eqb_spec k k0) as [E|E]; cbn [lookup].
    + subst k0. rewrite ?Z.eqb_refl. destruct (k' =? k); reflexivity.
    + rewrite IH. destruct (Z.eqb_spec k' k0) as [E1|E1]; destruct (Z.eqb_spec k' k) as [E2|E2];
        destruct (Z.eqb_spec k k0); try reflexivity; try congruence.
Qed.

Lemma lookup_upd_tot k k' z t :
  lookup k' (upd_tot k z t) = if k' =? k then Some (z + get_tot t k) else lookup k' t.
Proof.
  unfold get_tot. induction t as [|[k0 x] r IH]; cbn [upd_tot lookup].
  - destruct (k' =? k); reflexivity.
  - destruct (Z.eqb_spec k k0) as [E|E]; cbn [lookup].
    + subst k0. rewrite ?Z.eqb_refl. destruct (k' =? k); reflexivity.
    + rewrite IH. destruct (Z.eqb_spec k' k0) as [E1|E1]; destruct (Z.eqb_spec k' k) as [E2|E2];
        destruct (Z.eqb_spec k k0); try reflexivity; try congruence.
Qed.

Lemma vals_app k a b : vals k (a ++ b) = vals k a ++ vals k b.
Proof. induction a as [|kv r IH]; cbn [vals app]; [reflexivity|]. destruct (k =? fst kv); cbn [app]; rewrite IH; reflexivity. Qed.
Lemma sum_num_app a b : sum_num (a ++ b) = sum_num a + sum_num b.
Proof. induction a as [|v r IH]; cbn [sum_num app]; [reflexivity|]. rewrite IH. lia. Qed.
Lemma has_num_app a b : has_num (a ++ b) = has_num a || has_num b.
Proof. unfold has_num. apply existsb_app. Qed.
Lemma key_vals_app k a b : key_vals k (a ++ b) = key_vals k a ++ key_vals k b.
Proof. unfold key_vals. rewrite concat_app. apply vals_app. Qed.
Lemma sumZ_app a b : sumZ (a ++ b) = sumZ a + sumZ b.
Proof. unfold sumZ. induction a as [|x r IH]; cbn [fold_right app]; [reflexivity|]. rewrite IH. lia. Qed.

(* ------------------------------------------------------------------ Tracker.update *)
Lemma update1_frame st kv :
  t_active (update1 st kv) = t_active st /\ t_persistent (update1 st kv) = t_persistent st /\
  t_has_cb (update1 st kv) = t_has_cb st /\ t_latest (update1 st kv) = t_latest st /\
  t_cblog (update1 st kv) = t_cblog st.
Proof. unfold update1. destruct (num_of (snd kv)); cbn; repeat split; reflexivity. Qed.

Lemma update1_hist st kv k :
  get_hist (t_history (update1 st kv)) k = get_hist (t_history st) k ++ vals k [kv].
Proof.
  assert (H : t_history (update1 st kv) = upd_hist (fst kv) (snd kv) (t_history st)).
  { unfold update1. destruct (num_of (snd kv)); reflexivity. }
  rewrite H. unfold get_hist at 1. rewrite lookup_upd_hist. cbn [vals].
  destruct (Z.eqb_spec k (fst kv)) as [E|E].
  - subst k. reflexivity.
  - rewrite app_nil_r. reflexivity.
Qed.

Lemma update1_tot st kv k :
  get_tot (t_totals (update1 st kv)) k = get_tot (t_totals st) k + sum_num (vals k [kv]) /\
  has_tot (t_totals (update1 st kv)) k = has_tot (t_totals st) k || has_num (vals k [kv]).
Proof.
  unfold update1, numval, has_num. cbn [vals].
  destruct (num_of (snd kv)) as [z|] eqn:N; cbn [t_totals set_th].
  - unfold get_tot at 1, has_tot at 1. rewrite lookup_upd_tot.
    destruct (Z.eqb_spec k (fst kv)) as [E|E]; cbn [sum_num existsb].
    + subst k. unfold numval, is_num. rewrite N. split; [lia|]. rewrite orb_true_r. reflexivity.
    + split; [unfold get_tot; lia|]. rewrite orb_false_r. reflexivity.
  - destruct (k =? fst kv); cbn [sum_num existsb]; unfold numval, is_num; rewrite ?N.
    + split; [lia|]. rewrite orb_false_r. reflexivity.
    + split; [lia|]. rewrite orb_false_r. reflexivity.
Qed.

Lemma fold_update1_frame kw : forall st,
  t_active (fold_left update1 kw st) = t_active st /\ t_persistent (fold_left update1 kw st) = t_persistent st /\
  t_has_cb (fold_left update1 kw st) = t_has_cb st /\ t_latest (fold_left update1 kw st) = t_latest st /\
  t_cblog (fold_left update1 kw st) = t_cblog st.
Proof.
  induction kw as [|kv r IH]; intros st; cbn [fold_left]; [repeat split; reflexivity|].
  destruct (IH (update1 st kv)) as (A & B & C & D & E). destruct (update1_frame st kv) as (A' & B' & C' & D' & E').
  repeat split; congruence.
Qed.

Lemma fold_update1_hist kw : forall st k,
  get_hist (t_history (fold_left update1 kw st)) k = get_hist (t_history st) k ++ vals k kw.
Proof.
  induction kw as [|kv r IH]; intros st k; cbn [fold_left].
  - cbn [vals]. rewrite app_nil_r. reflexivity.
  - rewrite IH, update1_hist. change (kv :: r) with ([kv] ++ r). rewrite vals_app, app_assoc. reflexivity.
Qed.

Lemma fold_update1_tot kw : forall st k,
  get_tot (t_totals (fold_left update1 kw st)) k = get_tot (t_totals st) k + sum_num (vals k kw) /\
  has_tot (t_totals (fold_left update1 kw st)) k = has_tot (t_totals st) k || has_num (vals k kw).
Proof.
  induction kw as [|kv r IH]; intros st k; cbn [fold_left].
  - cbn [vals sum_num has_num existsb]. split; [lia|]. rewrite orb_false_r. reflexivity.
  - destruct (IH (update1 st kv) k) as [A B]. destruct (update1_tot st kv k) as [A' B'].
    change (kv :: r) with ([kv] ++ r). rewrite vals_app, sum_num_app, has_num_app. split.
    + rewrite A, A'. lia.
    + rewrite B, B'. rewrite orb_assoc. reflexivity.
Qed.

Lemma update_frame st kw :
  t_active (update st kw) = t_active st /\ t_persistent (update st kw) = t_persistent st /\
  t_has_cb (update st kw) = t_has_cb st /\ t_latest (update st kw) = kw /\ t_cblog (update st kw) = t_cblog st.
Proof. unfold update. destruct (fold_update1_frame kw (set_latest st kw)) as (A & B & C & D & E). repeat split; assumption. Qed.

Lemma update_hist st kw k : get_hist (t_history (update st kw)) k = get_hist (t_history st) k ++ vals k kw.
Proof. unfold update. rewrite fold_update1_hist. reflexivity. Qed.

Lemma update_tot st kw k :
  get_tot (t_totals (update st kw)) k = get_tot (t_totals st) k + sum_num (vals k kw) /\
  has_tot (t_totals (update st kw)) k = has_tot (t_totals st) k || has_num (vals k kw).
Proof. unfold update. apply (fold_update1_tot kw (set_latest st kw) k). Qed.

(* ------------------------------------------------------------------ invariant: totals are the sums of the history *)
Definition Inv (st : tracker) : Prop :=
  forall k, get_tot (t_totals st) k = sum_num (get_hist (t_history st) k) /\
            has_tot (t_totals st) k = has_num (get_hist (t_history st) k).

Lemma inv_update st kw : Inv st -> Inv (update st kw).
Proof.
  intros I k. destruct (I k) as [A B]. destruct (update_tot st kw k) as [A' B'].
  rewrite update_hist, sum_num_app, has_num_app. split; [lia | congruence].
Qed.
Lemma inv_record st : Inv st -> Inv (record st).
Proof. unfold record. destruct (t_has_cb st); intros I; exact I. Qed.
Lemma inv_reset st : Inv (reset st).
Proof. intros k. split; reflexivity. Qed.
Lemma inv_set_active st b : Inv st -> Inv (set_active st b).
Proof. intros I; exact I. Qed.
Lemma inv_events es : forall st, Inv st -> Inv (run_events st es).
Proof.
  unfold run_events. induction es as [|e r IH]; intros st I; cbn [fold_left]; [exact I|].
  apply IH. destruct e; [apply inv_update | apply inv_record]; exact I.
Qed.
Lemma inv_step st o : Inv st -> Inv (step st o).
Proof.
  intros I. destruct o; cbn [step].
  - unfold enter. apply inv_set_active. destruct (t_persistent st); [exact I | apply inv_reset].
  - apply inv_set_active; exact I.
  - apply inv_reset.
  - apply inv_update; exact I.
  - apply inv_record; exact I.
  - unfold device_call. destruct (t_active st); [apply inv_events|]; exact I.
Qed.
Lemma inv_run ops : forall st, Inv st -> Inv (run_ops st ops).
Proof.
  unfold run_ops. induction ops as [|o r IH]; intros st I; cbn [fold_left]; [exact I|].
  apply IH, inv_step, I.
Qed.
Lemma inv_init p cb : Inv (init p cb).
Proof. intros k; split; reflexivity. Qed.

Lemma has_tot_iff t k : has_tot t k = true <-> lookup k t <> None.
Proof. unfold has_tot. destruct (lookup k t); split; congruence. Qed.

Lemma totals_are_sums_lemma p cb ops k :
  let st := run_ops (init p cb) ops in
  get_tot (t_totals st) k = sum_num (get_hist (t_history st) k) /\
  (lookup k (t_totals st) <> None <-> has_num (get_hist (t_history st) k) = true).
Proof.
  intros st. destruct (inv_run ops _ (inv_init p cb) k) as [A B]. fold st in A, B. split; [exact A|].
  rewrite <- has_tot_iff, B. reflexivity.
Qed.

(* ------------------------------------------------------------------ refinement: history = the log of updates, in order *)
Definition Ref (p : bool) (st : tracker) (a : bool * list kwargs) : Prop :=
  t_active st = fst a /\ t_persistent st = p /\
  (forall k, get_hist (t_history st) k = key_vals k (snd a)) /\
  t_latest st = last (snd a) [].

Lemma ref_update p st a kw : Ref p st a -> Ref p (update st kw) (fst a, snd a ++ [kw]).
Proof.
  intros (A & B & C & D). destruct (update_frame st kw) as (A' & B' & _ & D' & _).
  repeat split; cbn [fst snd]; try congruence.
  - intros k. rewrite update_hist, C, key_vals_app. unfold key_vals at 3. cbn [concat]. rewrite app_nil_r. reflexivity.
  - rewrite last_last. exact D'.
Qed.
Lemma ref_record p st a : Ref p st a -> Ref p (record st) a.
Proof. unfold record. destruct (t_has_cb st); intros R; exact R. Qed.

Lemma ref_events p es : forall st a, Ref p st a -> Ref p (run_events st es) (fst a, snd a ++ events_log es).
Proof.
  unfold run_events. induction es as [|e r IH]; intros st a R; cbn [fold_left events_log flat_map].
  - rewrite app_nil_r. destruct a; exact R.
  - destruct e as [kw|]; cbn [apply_event ev_kwargs app].
    + specialize (IH _ _ (ref_update p st a kw R)). cbn [fst snd] in IH.
      change (flat_map ev_kwargs r) with (events_log r). rewrite <- app_assoc in IH. exact IH.
    + apply IH. apply ref_record, R.
Qed.

Lemma ref_step p st a o : Ref p st a -> Ref p (step st o) (astep p a o).
Proof.
  intros R. pose proof R as (A & B & C & D). destruct o; cbn [step astep].
  - unfold enter. rewrite B. destruct p; repeat split; cbn; try assumption.
  - repeat split; cbn; assumption.
  - repeat split; cbn; assumption.
  - apply ref_update, R.
  - apply ref_record, R.
  - unfold device_call. rewrite A. destruct (fst a) eqn:F; [|exact R].
    pose proof (ref_events p (call_events c) st a R) as H. rewrite F in H. exact H.
Qed.

Lemma ref_run p ops : forall st a, Ref p st a -> Ref p (run_ops st ops) (fold_left (astep p) ops a).
Proof.
  unfold run_ops. induction ops as [|o r IH]; intros st a R; cbn [fold_left]; [exact R|].
  apply IH, ref_step, R.
Qed.

Lemma ref_init p cb : Ref p (init p cb) (false, []).
Proof. repeat split. Qed.

Lemma history_in_order_lemma p cb ops :
  let st := run_ops (init p cb) ops in
  t_active st = fst (arun p ops) /\
  (forall k, get_hist (t_history st) k = key_vals k (snd (arun p ops))) /\
  t_latest st = last (snd (arun p ops)) [].
Proof.
  intros st. destruct (ref_run p ops _ _ (ref_init p cb)) as (A & _ & C & D). repeat split; assumption.
Qed.

(* ------------------------------------------------------------------ inactive / reset *)
Lemma inactive_calls_lemma calls : forall st, t_active st = false -> run_ops st (map OCall calls) = st.
Proof.
  unfold run_ops. induction calls as [|c r IH]; intros st H; cbn [map fold_left]; [reflexivity|].
  cbn [step]. unfold device_call. rewrite H. apply IH, H.
Qed.

Lemma reset_clears_lemma st :
  t_totals (reset st) = [] /\ t_history (reset st) = [] /\ t_latest (reset st) = [] /\
  t_active (reset st) = t_active st /\
  (t_persistent st = false -> t_totals (enter st) = [] /\ t_history (enter st) = [] /\ t_latest (enter st) = []) /\
  (t_persistent st = true -> t_totals (enter st) = t_totals st /\ t_history (enter st) = t_history st) /\
  t_active (enter st) = true /\ t_active (exit st) = false /\
  t_totals (exit st) = t_totals st /\ t_history (exit st) = t_history st.
Proof.
  split; [reflexivity|]. split; [reflexivity|]. split; [reflexivity|]. split; [reflexivity|].
  split; [intros Hp; unfold enter; rewrite Hp; repeat split; reflexivity|].
  split; [intros Hp; unfold enter; rewrite Hp; split; reflexivity|].
  repeat split; reflexivity.
Qed.

(* ------------------------------------------------------------------ counting formulas *)
Definition key_sum (k : Z) (log : list kwargs) : Z := sum_num (key_vals k log).
Lemma key_sum_app k a b : key_sum k (a ++ b) = key_sum k a + key_sum k b.
Proof. unfold key_sum. rewrite key_vals_app, sum_num_app. reflexivity. Qed.
Lemma key_sum_cons k kw r : key_sum k (kw :: r) = sum_num (vals k kw) + key_sum k r.
Proof. unfold key_sum, key_vals. cbn [concat]. rewrite vals_app, sum_num_app. reflexivity. Qed.
Lemma key_sum_nil k : key_sum k [] = 0.
Proof. reflexivity. Qed.

Lemma arun_calls p calls : forall log,
  fold_left (astep p) (map OCall calls) (true, log) = (true, log ++ flat_map call_log calls).
Proof.
  induction calls as [|c r IH]; intros log; cbn [map fold_left flat_map].
  - rewrite app_nil_r. reflexivity.
  - cbn [astep fst snd]. rewrite IH, <- app_assoc. reflexivity.
Qed.

Lemma tracked_run_total p cb calls k :
  get_tot (t_totals (tracked_run p cb calls)) k = sumZ (map (fun c => key_sum k (call_log c)) calls).
Proof.
  unfold tracked_run.
  destruct (totals_are_sums_lemma p cb (OEnter :: map OCall calls) k) as [A _]. cbv zeta in A. rewrite A.
  destruct (history_in_order_lemma p cb (OEnter :: map OCall calls)) as (_ & C & _). cbv zeta in C. rewrite C.
  unfold arun. cbn [fold_left astep snd]. replace (if p then [] else []) with (@nil kwargs) by (destruct p; reflexivity).
  rewrite arun_calls. cbn [snd app].
  fold (key_sum k (flat_map call_log calls)). clear A C.
  induction calls as [|c r IH]; cbn [flat_map map]; [reflexivity|].
  rewrite key_sum_app, IH. unfold sumZ. cbn [fold_right]. reflexivity.
Qed.

(* per-call closed forms *)
Lemma exec_events_key k cs : k <> K_simulations -> k <> K_executions -> k <> K_results -> k <> K_shots -> k <> K_resources ->
  key_sum k (events_log (exec_events cs)) = 0.
Proof.
  intros H2 H3 H4 H5 H6. induction cs as [|c r IH]; cbn [exec_events]; [reflexivity|].
  destruct (nse c) as [[ex sh]|]; [|reflexivity].
  cbn [events_log flat_map ev_kwargs app]. fold (events_log (exec_events r)).
  rewrite key_sum_cons, IH. unfold exec_kwargs.
  unfold K_simulations, K_executions, K_results, K_shots, K_resources in *.
  destruct (has_shots c); cbn [vals fst snd];
    repeat match goal with |- context [k =? ?n] => destruct (Z.eqb_spec k n); [congruence|] end; reflexivity.
Qed.

Lemma res_events_key k cs : k <> K_resources -> key_sum k (events_log (res_events cs)) = 0.
Proof.
  intros H. unfold res_events. induction cs as [|c r IH]; cbn [map]; [reflexivity|].
  cbn [events_log flat_map ev_kwargs app]. fold (events_log (map (fun c0 => EUpdate [(K_resources, VTok (c_res c0))]) r)).
  rewrite key_sum_cons, IH. cbn [vals fst snd]. destruct (Z.eqb_spec k K_resources); [congruence|reflexivity].
Qed.

Lemma len_cons {A} (x : A) l : len (x :: l) = 1 + len l.
Proof. unfold len. cbn [length]. lia. Qed.

Ltac kw_simpl :=
  unfold K_batches, K_simulations, K_executions, K_results, K_shots, K_resources, K_derivative_batches,
    K_derivatives, K_exec_deriv_batches, K_jvp_batches, K_jvps, K_exec_jvp_batches, K_vjp_batches, K_vjps,
    K_exec_vjp_batches in *;
  cbn [vals fst snd Z.eqb Pos.eqb sum_num numval num_of].

Lemma events_log_app a b : events_log (a ++ b) = events_log a ++ events_log b.
Proof. unfold events_log. apply flat_map_app. Qed.

Lemma exec_events_executions cs :
  key_sum K_executions (events_log (exec_events cs)) = sumZ (map nexec (tracked cs)).
Proof.
  induction cs as [|c r IH]; cbn [exec_events tracked]; [reflexivity|].
  destruct (nse c) as [[ex sh]|] eqn:N; [|reflexivity].
  assert (NE : nexec c = ex) by (unfold nexec; rewrite N; reflexivity).
  cbn [events_log flat_map ev_kwargs app map]. fold (events_log (exec_events r)).
  rewrite key_sum_cons, IH. unfold exec_kwargs, sumZ. cbn [fold_right]. rewrite NE.
  destruct (has_shots c); cbn; lia.
Qed.

Lemma exec_events_simulations cs :
  key_sum K_simulations (events_log (exec_events cs)) = len (tracked cs).
Proof.
  induction cs as [|c r IH]; cbn [exec_events tracked]; [reflexivity|].
  destruct (nse c) as [[ex sh]|] eqn:N; [|reflexivity].
  cbn [events_log flat_map ev_kwargs app]. fold (events_log (exec_events r)).
  rewrite key_sum_cons, IH, len_cons. unfold exec_kwargs. destruct (has_shots c); kw_simpl; lia.
Qed.

Lemma exec_events_shots cs :
  key_sum K_shots (events_log (exec_events cs)) = sumZ (map nshots (filter has_shots (tracked cs))).
Proof.
  induction cs as [|c r IH]; cbn [exec_events tracked]; [reflexivity|].
  destruct (nse c) as [[ex sh]|] eqn:N; [|reflexivity].
  cbn [events_log flat_map ev_kwargs app filter]. fold (events_log (exec_events r)).
  rewrite key_sum_cons, IH. unfold exec_kwargs.
  assert (NS : nshots c = sh) by (unfold nshots; rewrite N; reflexivity).
  destruct (has_shots c); cbn [map]; unfold sumZ; cbn [fold_right]; rewrite ?NS; cbn; lia.
Qed.

Ltac call_cases c :=
  destruct c as [a| |a|a|a|a|a|a]; unfold call_log; cbn [call_events];
  rewrite ?events_log_app; cbn [events_log flat_map ev_kwargs app];
  repeat match goal with |- context [flat_map ev_kwargs ?l] => change (flat_map ev_kwargs l) with (events_log l) end;
  rewrite ?key_sum_app, ?key_sum_cons, ?key_sum_nil.

Lemma call_executions_ok c : key_sum K_executions (call_log c) = call_executions c.
Proof.
  call_cases c; cbn [call_executions];
    rewrite ?exec_events_executions, ?res_events_key by (unfold K_executions, K_resources; lia); cbn; lia.
Qed.

Lemma call_batches_ok c : key_sum K_batches (call_log c) = if is_execute c then 1 else 0.
Proof.
  call_cases c; cbn [is_execute];
    rewrite ?exec_events_key, ?res_events_key
      by (unfold K_batches, K_simulations, K_executions, K_results, K_shots, K_resources; lia); cbn; lia.
Qed.

Lemma call_deriv_batches_ok c : key_sum K_derivative_batches (call_log c) = if is_deriv c then 1 else 0.
Proof.
  call_cases c; cbn [is_deriv];
    rewrite ?exec_events_key, ?res_events_key
      by (unfold K_derivative_batches, K_simulations, K_executions, K_results, K_shots, K_resources; lia); cbn; lia.
Qed.

Lemma call_derivatives_ok c : key_sum K_derivatives (call_log c) = call_derivatives c.
Proof.
  call_cases c; cbn [call_derivatives];
    rewrite ?exec_events_key, ?res_events_key
      by (unfold K_derivatives, K_simulations, K_executions, K_results, K_shots, K_resources; lia); cbn; lia.
Qed.

Lemma call_shots_ok c : key_sum K_shots (call_log c) = call_shots c.
Proof.
  call_cases c; cbn [call_shots];
    rewrite ?exec_events_shots, ?res_events_key by (unfold K_shots, K_resources; lia); cbn; lia.
Qed.

Lemma call_simulations_ok c : key_sum K_simulations (call_log c) = call_simulations c.
Proof.
  call_cases c; cbn [call_simulations];
    rewrite ?exec_events_simulations, ?res_events_key by (unfold K_simulations, K_resources; lia); cbn; lia.
Qed.

Lemma sumZ_map_ext {A} (f g : A -> Z) l : (forall x, f x = g x) -> sumZ (map f l) = sumZ (map g l).
Proof. intros H. induction l as [|x r IH]; [reflexivity|]. unfold sumZ in *. cbn [map fold_right]. rewrite H, IH. reflexivity. Qed.

Lemma sumZ_indicator {A} (f : A -> bool) l : sumZ (map (fun c => if f c then 1 else 0) l) = count f l.
Proof.
  unfold count, len, sumZ. induction l as [|x r IH]; [reflexivity|]. cbn [map fold_right filter].
  rewrite IH. destruct (f x); cbn [length]; lia.
Qed.

Lemma executions_lemma p cb calls :
  get_tot (t_totals (tracked_run p cb calls)) K_executions = sumZ (map call_executions calls).
Proof. rewrite tracked_run_total. apply sumZ_map_ext, call_executions_ok. Qed.
Lemma batches_lemma p cb calls :
  get_tot (t_totals (tracked_run p cb calls)) K_batches = count is_execute calls.
Proof. rewrite tracked_run_total, <- sumZ_indicator. apply sumZ_map_ext, call_batches_ok. Qed.
Lemma deriv_batches_lemma p cb calls :
  get_tot (t_totals (tracked_run p cb calls)) K_derivative_batches = count is_deriv calls /\
  get_tot (t_totals (tracked_run p cb calls)) K_derivatives = sumZ (map call_derivatives calls).
Proof.
  split.
  - rewrite tracked_run_total, <- sumZ_indicator. apply sumZ_map_ext, call_deriv_batches_ok.
  - rewrite tracked_run_total. apply sumZ_map_ext, call_derivatives_ok.
Qed.
Lemma shots_lemma p cb calls :
  get_tot (t_totals (tracked_run p cb calls)) K_shots = sumZ (map call_shots calls).
Proof. rewrite tracked_run_total. apply sumZ_map_ext, call_shots_ok. Qed.
Lemma simulations_lemma p cb calls :
  get_tot (t_totals (tracked_run p cb calls)) K_simulations = sumZ (map call_simulations calls).
Proof. rewrite tracked_run_total. apply sumZ_map_ext, call_simulations_ok. Qed.

(* ------------------------------------------------------------------ the per-circuit shot rule *)
(* without shadow groups every group contributes (e, total_shots * e): shots = total x executions *)
Definition no_shadow_head (g : option meas) : bool := match g with Some m => negb (m_shadow m) | None => true end.

Lemma group_exec_rule single shots g e s :
  no_shadow_head g = true -> group_exec single shots g = Some (e, s) ->
  s = match shots with Some t => t * e | None => 0 end.
Proof.
  unfold group_exec, no_shadow_head. destruct g as [m|]; [|discriminate]. intros NS.
  destruct (m_exp m && _); [intros H; inversion H; subst; destruct shots; reflexivity|].
  destruct (m_exp m && _); [intros H; inversion H; subst; destruct shots; reflexivity|].
  destruct (m_shadow m); [discriminate|]. intros H; inversion H; subst; destruct shots; reflexivity.
Qed.

Lemma sum_groups_rule single shots gs : forall acc e s,
  forallb no_shadow_head gs = true -> sum_groups single shots gs acc = Some (e, s) ->
  snd acc = match shots with Some t => t * fst acc | None => 0 end ->
  s = match shots with Some t => t * e | None => 0 end.
Proof.
  induction gs as [|g r IH]; intros acc e s NS H A; cbn [sum_groups] in H.
  - inversion H; subst. exact A.
  - cbn [forallb] in NS. apply andb_prop in NS. destruct NS as [NS1 NS2].
    destruct (group_exec single shots g) as [[e1 s1]|] eqn:G; [|discriminate].
    pose proof (group_exec_rule _ _ _ _ _ NS1 G) as R.
    apply (IH _ _ _ NS2 H). cbn [fst snd]. rewrite A, R. destruct shots; lia.
Qed.

Lemma shots_rule_lemma c e s :
  forallb no_shadow_head (group_heads (c_meas c) (c_part c)) = true -> nse c = Some (e, s) ->
  s = match tape_total c with Some t => t * e | None => 0 end.
Proof.
  unfold nse. intros NS.
  destruct (sum_groups _ _ _ _) as [[e0 s0]|] eqn:G; [|discriminate].
  pose proof (sum_groups_rule _ _ _ _ _ _ NS G) as R. cbn [fst snd] in R. specialize (R ltac:(destruct (tape_total c); lia)).
  destruct (c_batch c) as [b|].
  - destruct (b =? 0); intros H; inversion H; clear H; destruct (tape_total c); lia.
  - intros H; inversion H; clear H; destruct (tape_total c); lia.
Qed.

(* a shot vector enters only through its total (C44: total = sum of the expanded vector) *)
Lemma tape_total_vector c l sh : c_shots c = SSeq l -> mk (SSeq l) = Some sh -> tape_total c = Some (sumZ (iter sh)).
Proof. intros E M. unfold tape_total. rewrite E, M. exact (mk_total _ _ M). Qed.

(* ------------------------------------------------------------------ callbacks *)
Definition records (es : list event) : Z := count (fun e => match e with ERecord => true | _ => false end) es.

Lemma cblog_events es : forall st, t_has_cb st = true ->
  len (t_cblog (run_events st es)) = len (t_cblog st) + records es.
Proof.
  unfold run_events, records, count, len. induction es as [|e r IH]; intros st H; cbn [fold_left filter length]; [lia|].
  destruct e as [kw|]; cbn [apply_event].
  - destruct (update_frame st kw) as (_ & _ & C & _ & E). rewrite IH by congruence. rewrite E. reflexivity.
  - unfold record at 1. rewrite H. rewrite IH by reflexivity. cbn [t_cblog length]. rewrite app_length. cbn [length]. lia.
Qed.

Lemma cblog_last_sees_current st : t_has_cb st = true ->
  last (t_cblog (record st)) ([], []) = (t_totals st, t_latest st).
Proof. intros H. unfold record. rewrite H. cbn [t_cblog]. apply last_last. Qed.
