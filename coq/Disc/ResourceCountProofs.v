(* Lemmas about Disc/ResourceCountModel.v (C46). *)
From Coq Require Import List ZArith Bool Lia.
From PLV Require Import Disc.ResourceCountModel.
Import ListNotations.
Open Scope Z_scope.

(* ================================================================== counting *)
Lemma ckeyb_eq a b : ckeyb a b = true <-> a = b.
Proof.
  destruct a as [[a1 a2] a3], b as [[b1 b2] b3]; cbn.
  rewrite !andb_true_iff, !Z.eqb_eq. split.
  - intros [[-> ->] ->]; reflexivity.
  - intros H; inversion H; auto.
Qed.
Lemma ckeyb_refl a : ckeyb a a = true.
Proof. apply ckeyb_eq; reflexivity. Qed.

Lemma ctotal_cons p l : ctotal (p :: l) = snd p + ctotal l.
Proof. reflexivity. Qed.

Lemma ctotal_bump k l : ctotal (bump k l) = ctotal l + 1.
Proof.
  induction l as [|[k' v] r IH]; cbn [bump].
  - rewrite ctotal_cons; cbn; lia.
  - destruct (ckeyb k' k); rewrite !ctotal_cons; cbn [snd]; [lia | rewrite IH; lia].
Qed.

Lemma ctotal_fold {A} (f : A -> ckey) l : forall acc,
  ctotal (fold_left (fun acc x => bump (f x) acc) l acc) = ctotal acc + Z.of_nat (length l).
Proof.
  induction l as [|x l IH]; intros acc; cbn [fold_left length].
  - lia.
  - rewrite IH, ctotal_bump. lia.
Qed.

Lemma count_total {A} (f : A -> ckey) l : ctotal (count_by f l) = Z.of_nat (length l).
Proof. unfold count_by. rewrite ctotal_fold. reflexivity. Qed.

Lemma cget_bump k k' l : cget k (bump k' l) = cget k l + (if ckeyb k' k then 1 else 0).
Proof.
  induction l as [|[k0 v] r IH]; cbn [bump cget].
  - destruct (ckeyb k' k); lia.
  - destruct (ckeyb k0 k') eqn:E; cbn [cget].
    + apply ckeyb_eq in E; subst k0. destruct (ckeyb k' k); lia.
    + destruct (ckeyb k0 k) eqn:E2.
      * destruct (ckeyb k' k) eqn:E3; [|lia].
        apply ckeyb_eq in E3, E2; subst. rewrite ckeyb_refl in E; discriminate.
      * apply IH.
Qed.

Lemma cget_fold {A} (f : A -> ckey) k l : forall acc,
  cget k (fold_left (fun acc x => bump (f x) acc) l acc) =
  cget k acc + Z.of_nat (length (filter (fun x => ckeyb (f x) k) l)).
Proof.
  induction l as [|x l IH]; intros acc; cbn [fold_left filter].
  - cbn; lia.
  - rewrite IH, cget_bump. destruct (ckeyb (f x) k); cbn [length]; lia.
Qed.

Lemma count_occ_spec {A} (f : A -> ckey) k l :
  cget k (count_by f l) = Z.of_nat (length (filter (fun x => ckeyb (f x) k) l)).
Proof. unfold count_by; rewrite cget_fold; reflexivity. Qed.

Lemma bump_keys k l x : In x (map fst (bump k l)) <-> x = k \/ In x (map fst l).
Proof.
  induction l as [|[k0 v] r IH]; cbn [bump map fst In].
  - intuition.
  - destruct (ckeyb k0 k) eqn:E; cbn [map fst In].
    + apply ckeyb_eq in E; subst. intuition.
    + rewrite IH. intuition.
Qed.

Lemma bump_nodup k l : NoDup (map fst l) -> NoDup (map fst (bump k l)).
Proof.
  induction l as [|[k0 v] r IH]; cbn [bump map fst]; intros H.
  - constructor; [intros []|constructor].
  - inversion H as [|? ? Hn Hr]; subst. destruct (ckeyb k0 k) eqn:E; cbn [map fst].
    + constructor; auto.
    + constructor; [|auto]. rewrite bump_keys. intros [->|Hin]; [|auto].
      rewrite ckeyb_refl in E; discriminate.
Qed.

Lemma count_keys_nodup {A} (f : A -> ckey) l : NoDup (map fst (count_by f l)).
Proof.
  unfold count_by.
  assert (G : forall acc, NoDup (map fst acc) ->
              NoDup (map fst (fold_left (fun acc x => bump (f x) acc) l acc))).
  { induction l as [|x l IH]; intros acc Ha; cbn [fold_left]; auto. apply IH, bump_nodup, Ha. }
  apply G; constructor.
Qed.

(* a key is reported iff some element has it *)
Lemma count_keys_spec {A} (f : A -> ckey) l k :
  In k (map fst (count_by f l)) <-> exists x, In x l /\ f x = k.
Proof.
  unfold count_by.
  assert (G : forall acc, In k (map fst (fold_left (fun acc x => bump (f x) acc) l acc)) <->
                          In k (map fst acc) \/ exists x, In x l /\ f x = k).
  { induction l as [|x l IH]; intros acc; cbn [fold_left].
    - split; [auto|]. intros [H|[x [[] _]]]; auto.
    - rewrite IH, bump_keys. split.
      + intros [[->|H]|[y [Hy He]]]; [right; exists x; split; [left|]; auto | auto | right; exists y; split; [right|]; auto].
      + intros [H|[y [[->|Hy] He]]]; [auto | left; left; auto | right; exists y; auto]. }
  rewrite G. cbn. intuition.
Qed.

(* ================================================================== wires *)
Lemma memZ_In x l : memZ x l = true <-> In x l.
Proof.
  induction l as [|y r IH]; cbn [memZ In]; [split; [discriminate|tauto]|].
  rewrite orb_true_iff, Z.eqb_eq, IH. intuition.
Qed.

Lemma dedup_acc_In x l : forall seen, In x (dedup_acc seen l) <-> In x l /\ ~ In x seen.
Proof.
  induction l as [|y r IH]; intros seen; cbn [dedup_acc In]; [tauto|].
  destruct (memZ y seen) eqn:E.
  - apply memZ_In in E. rewrite IH. split; [tauto|]. intros [[->|H] Hn]; tauto.
  - assert (Hy : ~ In y seen) by (intros H; apply memZ_In in H; congruence).
    cbn [In]. rewrite IH. cbn [In]. split.
    + intros [->|[H Hn]]; [tauto|]. split; [tauto|]. intros H2; apply Hn; auto.
    + intros [[->|H] Hn]; [auto|]. destruct (Z.eq_dec y x) as [->|Hne]; [auto|].
      right; split; auto. intros [?|?]; auto.
Qed.

Lemma dedup_acc_NoDup l : forall seen, NoDup (dedup_acc seen l).
Proof.
  induction l as [|y r IH]; intros seen; cbn [dedup_acc]; [constructor|].
  destruct (memZ y seen); [apply IH|]. constructor; [|apply IH].
  rewrite dedup_acc_In. intros [_ H]; apply H; left; reflexivity.
Qed.

Lemma dedup_In x l : In x (dedup l) <-> In x l.
Proof. unfold dedup; rewrite dedup_acc_In; cbn; tauto. Qed.
Lemma dedup_NoDup l : NoDup (dedup l).
Proof. apply dedup_acc_NoDup. Qed.

Lemma all_wires_spec c w :
  In w (all_wires c) <-> (exists g, In g (ops c) /\ In w (gwires g)) \/ (exists m, In m (meass c) /\ In w (mwires m)).
Proof. unfold all_wires. rewrite dedup_In, in_app_iff, !in_flat_map. tauto. Qed.

Lemma all_wires_nodup c : NoDup (all_wires c).
Proof. apply dedup_NoDup. Qed.

Lemma num_params_set c l : trainable c = Some l ->
  exists d, NoDup d /\ (forall x, In x d <-> In x l) /\ num_params c = Z.of_nat (length d).
Proof.
  intros H. exists (dedup l). unfold num_params; rewrite H.
  split; [apply dedup_NoDup|]. split; [intros x; apply dedup_In | reflexivity].
Qed.

(* ================================================================== depth: generic level recursion *)
Lemma keyb_eq a b : keyb a b = true <-> a = b.
Proof.
  destruct a as [a1 a2], b as [b1 b2]; unfold keyb; cbn [fst snd].
  rewrite andb_true_iff, !Z.eqb_eq. split; [intros [-> ->]; reflexivity | intros H; inversion H; auto].
Qed.

Lemma existsb_keyb ws k : existsb (fun k' => keyb k' k) ws = true <-> In k ws.
Proof.
  rewrite existsb_exists. split.
  - intros [x [Hx He]]. apply keyb_eq in He; subst; auto.
  - intros H; exists k; split; auto. apply keyb_eq; reflexivity.
Qed.

Lemma flook_push ws v F k :
  flook (push ws v F) k = if existsb (fun k' => keyb k' k) ws then Some v else flook F k.
Proof.
  unfold push. induction ws as [|a ws IH]; cbn [map app existsb flook]; [reflexivity|].
  destruct (keyb a k); cbn [orb]; auto.
Qed.

Lemma flook_push_in ws v F k : In k ws -> flook (push ws v F) k = Some v.
Proof. intros H. rewrite flook_push. apply existsb_keyb in H. rewrite H; reflexivity. Qed.
Lemma flook_push_notin ws v F k : ~ In k ws -> flook (push ws v F) k = flook F k.
Proof.
  intros H. rewrite flook_push. destruct (existsb _ ws) eqn:E; [|reflexivity].
  apply existsb_keyb in E; contradiction.
Qed.

Lemma maxl_cons a l : maxl (a :: l) = Z.max a (maxl l).
Proof. reflexivity. Qed.
Lemma maxl_nonneg l : 0 <= maxl l.
Proof. induction l; [cbn; lia | rewrite maxl_cons; lia]. Qed.
Lemma maxl_ge x l : In x l -> x <= maxl l.
Proof. induction l as [|a l IH]; intros []; rewrite maxl_cons; [subst; lia | specialize (IH H); lia]. Qed.
Lemma maxl_le l B : 0 <= B -> (forall x, In x l -> x <= B) -> maxl l <= B.
Proof.
  intros HB. induction l as [|a l IH]; intros H; [cbn; lia|]. rewrite maxl_cons.
  assert (a <= B) by (apply H; left; auto). assert (maxl l <= B) by (apply IH; intros; apply H; right; auto). lia.
Qed.
Lemma maxl_in l : l <> [] -> (forall x, In x l -> 0 <= x) -> In (maxl l) l.
Proof.
  induction l as [|a l IH]; [congruence|]. intros _ H. rewrite maxl_cons.
  destruct l as [|b r].
  - cbn. left. assert (0 <= a) by (apply H; left; auto). lia.
  - assert (I1 : In (maxl (b :: r)) (b :: r)) by (apply IH; [congruence | intros; apply H; right; auto]).
    destruct (Z.max_spec a (maxl (b :: r))) as [[_ ->]|[_ ->]]; [right; exact I1 | left; reflexivity].
Qed.

Lemma preds_In F n v : In v (preds F n) <-> exists k, In k (uses n) /\ flook F k = Some v.
Proof.
  unfold preds. rewrite in_flat_map. split.
  - intros [k [Hk Hv]]. exists k; split; auto. destruct (flook F k); cbn in Hv; [destruct Hv as [->|[]]; auto | contradiction].
  - intros [k [Hk Hv]]. exists k; split; auto. rewrite Hv; left; auto.
Qed.

Lemma level_nonneg F n : 0 <= level F n.
Proof. unfold level. destruct (preds F n); [lia|]. pose proof (maxl_nonneg (z :: l)). lia. Qed.
Lemma level_ge F n v : In v (preds F n) -> 1 + v <= level F n.
Proof. unfold level. intros H. destruct (preds F n) eqn:E; [contradiction|]. apply maxl_ge in H. lia. Qed.
Lemma level_cases F n : (forall v, In v (preds F n) -> 0 <= v) ->
  (preds F n = [] /\ level F n = 0) \/ (exists v, In v (preds F n) /\ level F n = 1 + v).
Proof.
  intros H. unfold level. destruct (preds F n) eqn:E; [left; auto|]. right.
  exists (maxl (z :: l)). split; [|reflexivity]. apply maxl_in; [congruence | exact H].
Qed.
Lemma level_le F n B : 0 <= B -> (forall k v, flook F k = Some v -> v <= B) -> level F n <= 1 + B.
Proof.
  intros HB H. unfold level. destruct (preds F n) eqn:E; [lia|].
  assert (maxl (z :: l) <= B); [|lia]. apply maxl_le; auto.
  intros x Hx. rewrite <- E in Hx. apply preds_In in Hx. destruct Hx as [k [_ Hk]]. eauto.
Qed.

(* ---- subsequences and chains ---- *)
Inductive subseq {A : Type} : list A -> list A -> Prop :=
| ss_nil l : subseq [] l
| ss_skip s x l : subseq s l -> subseq s (x :: l)
| ss_take s x l : subseq s l -> subseq (x :: s) (x :: l).

Fixpoint chain_rel {A : Type} (R : A -> A -> Prop) (s : list A) : Prop :=
  match s with
  | a :: ((b :: _) as r) => R a b /\ chain_rel R r
  | _ => True
  end.
Definition flipR {A : Type} (R : A -> A -> Prop) : A -> A -> Prop := fun a b => R b a.

(* b can only run after a: a writes a key (wire / mid-measure outcome) that b uses *)
Definition linked (a b : node) : Prop := exists k, In k (writes a) /\ In k (uses b).
Definition rlinked := flipR linked.

Lemma subseq_app_l {A} (s l l' : list A) : subseq s l' -> subseq s (l ++ l').
Proof. induction l; cbn; auto using ss_skip. Qed.
Lemma subseq_app {A} (s l : list A) : subseq s l -> forall s' l', subseq s' l' -> subseq (s ++ s') (l ++ l').
Proof.
  induction 1; intros s' l' H'; cbn [app].
  - apply subseq_app_l; auto.
  - apply ss_skip; auto.
  - apply ss_take; auto.
Qed.
Lemma subseq_rev {A} (s l : list A) : subseq s l -> subseq (rev s) (rev l).
Proof.
  induction 1; cbn [rev].
  - apply ss_nil.
  - rewrite <- (app_nil_r (rev s)). apply subseq_app; [auto | apply ss_nil].
  - apply subseq_app; [auto | apply ss_take, ss_nil].
Qed.
Lemma subseq_In {A} (s l : list A) : subseq s l -> forall x, In x s -> In x l.
Proof. induction 1; intros y Hy; [destruct Hy | right; auto | destruct Hy; [left; auto | right; auto]]. Qed.
Lemma subseq_tail {A} (x : A) s l : subseq (x :: s) l -> subseq s l.
Proof.
  remember (x :: s) as t eqn:E. intros H; revert x s E.
  induction H; intros y s0 E; [discriminate | apply ss_skip; eauto | inversion E; subst; apply ss_skip; auto].
Qed.
Lemma subseq_map {A B} (f : A -> B) s l : subseq s l -> subseq (map f s) (map f l).
Proof. induction 1; cbn [map]; [apply ss_nil | apply ss_skip; auto | apply ss_take; auto]. Qed.
Lemma subseq_map_inv {A B} (f : A -> B) l : forall t, subseq t (map f l) -> exists s, t = map f s /\ subseq s l.
Proof.
  induction l as [|a l IH]; intros t H; cbn [map] in H; inversion H; subst.
  - exists []; split; [reflexivity | apply ss_nil].
  - exists []; split; [reflexivity | apply ss_nil].
  - destruct (IH _ H2) as [s1 [-> Hs]]. exists s1; split; [reflexivity | apply ss_skip; auto].
  - destruct (IH _ H2) as [s1 [-> Hs]]. exists (a :: s1); split; [reflexivity | apply ss_take; auto].
Qed.
Lemma subseq_cons_inv {A} (a x : A) s l : subseq (a :: s) (x :: l) -> subseq (a :: s) l \/ (a = x /\ subseq s l).
Proof. intros H; inversion H; subst; auto. Qed.
Lemma subseq_length {A} (s l : list A) : subseq s l -> (length s <= length l)%nat.
Proof. induction 1; cbn [length]; lia. Qed.

Lemma chain_rel_tail {A} (R : A -> A -> Prop) a s : chain_rel R (a :: s) -> chain_rel R s.
Proof. destruct s; cbn; tauto. Qed.
Lemma chain_rel_ext {A} (R R' : A -> A -> Prop) s : (forall a b, R a b -> R' a b) -> chain_rel R s -> chain_rel R' s.
Proof.
  intros H. induction s as [|a s IH]; [auto|]. destruct s as [|b r]; [auto|].
  intros [H1 H2]; split; auto.
Qed.
Lemma chain_rel_app {A} (R : A -> A -> Prop) s1 : forall s2 a b,
  chain_rel R (s1 ++ [a]) -> chain_rel R (b :: s2) -> R a b -> chain_rel R (s1 ++ a :: b :: s2).
Proof.
  induction s1 as [|x s1 IH]; intros s2 a b H1 H2 H; cbn [app] in *.
  - split; auto.
  - destruct s1 as [|y s1']; cbn [app] in *.
    + destruct H1 as [H1 _]. split; [auto|split; auto].
    + destruct H1 as [H1 H1']. split; [auto|]. apply (IH s2 a b); auto.
Qed.
Lemma chain_rel_rev {A} (R : A -> A -> Prop) s : chain_rel R s -> chain_rel (flipR R) (rev s).
Proof.
  induction s as [|a s IH]; [auto|]. intros H. cbn [rev].
  destruct s as [|b s']; [cbn; auto|].
  destruct H as [H1 H2]. specialize (IH H2). cbn [rev] in *.
  rewrite <- app_assoc. cbn [app]. apply chain_rel_app; [exact IH | cbn; auto | exact H1].
Qed.
Lemma chain_rel_map {A B} (f : A -> B) (R : B -> B -> Prop) s :
  chain_rel R (map f s) <-> chain_rel (fun a b => R (f a) (f b)) s.
Proof.
  induction s as [|a s IH]; [cbn; tauto|]. destruct s as [|b r]; [cbn; tauto|].
  cbn [map] in *. cbn [chain_rel]. rewrite <- IH. tauto.
Qed.

(* ---- the invariant: frontier values = longest chains ending at a writer of the key ---- *)
Record Inv (P : list node) (F : front) (acc : Z) : Prop := mkInv {
  invA : forall k v, flook F k = Some v ->
         exists a s, subseq (a :: s) P /\ chain_rel rlinked (a :: s) /\ In k (writes a) /\ Z.of_nat (length s) = v;
  invB : forall a s k, subseq (a :: s) P -> chain_rel rlinked (a :: s) -> In k (writes a) ->
         exists v, flook F k = Some v /\ Z.of_nat (length s) <= v;
  invC : forall a s, subseq (a :: s) P -> chain_rel rlinked (a :: s) -> Z.of_nat (length s) <= acc;
  invD : 0 <= acc /\ (acc = 0 \/ exists a s, subseq (a :: s) P /\ chain_rel rlinked (a :: s) /\ Z.of_nat (length s) = acc)
}.

Lemma Inv_init : Inv [] [] 0.
Proof.
  constructor.
  - cbn; discriminate.
  - intros a s k H; inversion H.
  - intros a s H; inversion H.
  - split; [lia | left; reflexivity].
Qed.

Lemma preds_nonneg P F acc n : Inv P F acc -> forall v, In v (preds F n) -> 0 <= v.
Proof.
  intros I v Hv. apply preds_In in Hv. destruct Hv as [k [_ Hk]].
  destruct (invA _ _ _ I _ _ Hk) as [a [s [_ [_ [_ <-]]]]]. lia.
Qed.

Lemma L1 P F acc n s : Inv P F acc -> subseq s P -> chain_rel rlinked (n :: s) ->
  Z.of_nat (length s) <= level F n.
Proof.
  intros I Hs Hc. destruct s as [|b s'].
  - cbn. apply level_nonneg.
  - destruct Hc as [[k [Hw Hu]] Hc].
    destruct (invB _ _ _ I b s' k Hs Hc Hw) as [v0 [Hf Hle]].
    assert (Hp : In v0 (preds F n)) by (apply preds_In; exists k; auto).
    apply level_ge in Hp. cbn [length]. lia.
Qed.

Lemma L2 P F acc n : Inv P F acc ->
  exists s, subseq s P /\ chain_rel rlinked (n :: s) /\ Z.of_nat (length s) = level F n.
Proof.
  intros I. destruct (level_cases F n (preds_nonneg _ _ _ n I)) as [[_ ->]|[v0 [Hp ->]]].
  - exists []; split; [apply ss_nil | split; [cbn; auto | reflexivity]].
  - apply preds_In in Hp. destruct Hp as [k [Hu Hf]].
    destruct (invA _ _ _ I _ _ Hf) as [a [s0 [Hs [Hc [Hw Hl]]]]].
    exists (a :: s0). split; [auto|]. split.
    + split; [exists k; auto | auto].
    + cbn [length]. lia.
Qed.

Definition wfn (F : front) (n : node) : Prop :=
  forall k, In k (writes n) -> In k (uses n) \/ flook F k = None.

Lemma Inv_step P F acc n : Inv P F acc -> wfn F n ->
  Inv (n :: P) (push (writes n) (level F n) F) (Z.max acc (level F n)).
Proof.
  intros I W. pose proof (L1 P F acc n) as l1. destruct (L2 P F acc n I) as [s2 [Hs2 [Hc2 Hl2]]].
  constructor.
  - (* A *) intros k v Hk. rewrite flook_push in Hk.
    destruct (existsb (fun k' => keyb k' k) (writes n)) eqn:E.
    + inversion Hk; subst v. apply existsb_keyb in E.
      exists n, s2. split; [apply ss_take; auto | auto].
    + destruct (invA _ _ _ I _ _ Hk) as [a [s [Hs [Hc [Hw Hl]]]]].
      exists a, s. split; [apply ss_skip; auto | auto].
  - (* B *) intros a s k Hs Hc Hw. apply subseq_cons_inv in Hs. destruct Hs as [H1|[-> H1]].
    + destruct (invB _ _ _ I a s k H1 Hc Hw) as [v0 [Hf Hle]].
      assert (Hdec : In k (writes n) \/ ~ In k (writes n)).
      { destruct (existsb (fun k' => keyb k' k) (writes n)) eqn:E.
        - left; apply existsb_keyb; auto.
        - right; intros Hin; apply existsb_keyb in Hin; congruence. }
      destruct Hdec as [Hin|Hnin].
      * exists (level F n). split; [apply flook_push_in; auto|].
        destruct (W k Hin) as [Hu|Hnone]; [|congruence].
        assert (Hp : In v0 (preds F n)) by (apply preds_In; exists k; auto).
        apply level_ge in Hp. lia.
      * exists v0. split; [rewrite flook_push_notin; auto | auto].
    + exists (level F n). split; [apply flook_push_in; auto|]. apply (l1 s I H1 Hc).
  - (* C *) intros a s Hs Hc. apply subseq_cons_inv in Hs. destruct Hs as [H1|[-> H1]].
    + pose proof (invC _ _ _ I a s H1 Hc). lia.
    + pose proof (l1 s I H1 Hc). lia.
  - (* D *) destruct (invD _ _ _ I) as [H0 HD]. split; [lia|].
    destruct (Z.max_spec acc (level F n)) as [[_ ->]|[_ ->]].
    + right. exists n, s2. split; [apply ss_take; auto | auto].
    + destruct HD as [->|[a [s [Hs [Hc Hl]]]]]; [left; reflexivity|].
      right. exists a, s. split; [apply ss_skip; auto | auto].
Qed.

Fixpoint wf_run (F : front) (q : list node) : Prop :=
  match q with
  | [] => True
  | n :: r => wfn F n /\ wf_run (push (writes n) (level F n) F) r
  end.

Lemma run_inv q : forall P F acc, Inv P F acc -> wf_run F q ->
  Inv (rev q ++ P) (fst (run_st F acc q)) (snd (run_st F acc q)).
Proof.
  induction q as [|n r IH]; intros P F acc I W; cbn [run_st rev app fst snd]; [exact I|].
  destruct W as [W1 W2]. rewrite <- app_assoc. cbn [app].
  apply IH; [apply Inv_step; auto | exact W2].
Qed.

Lemma depth_nodes_nonneg q : 0 <= depth_nodes q.
Proof.
  unfold depth_nodes, run. assert (G : forall F acc, 0 <= acc -> 0 <= snd (run_st F acc q)).
  { induction q as [|n r IH]; intros F acc H; cbn [run_st snd]; [auto|]. apply IH. lia. }
  apply G; lia.
Qed.

(* generic theorem, forward chains *)
Theorem depth_nodes_ge_chain q t : wf_run [] q -> subseq t q -> chain_rel linked t -> t <> [] ->
  Z.of_nat (length t) - 1 <= depth_nodes q.
Proof.
  intros W Hs Hc Hne.
  pose proof (run_inv q [] [] 0 Inv_init W) as I. rewrite app_nil_r in I.
  apply subseq_rev in Hs. apply chain_rel_rev in Hc.
  destruct (rev t) as [|a s] eqn:E.
  { apply (f_equal (@length _)) in E. rewrite rev_length in E. destruct t; [congruence | discriminate]. }
  pose proof (invC _ _ _ I a s Hs Hc) as H.
  assert (length t = S (length s)) by (rewrite <- (rev_length t), E; reflexivity).
  unfold depth_nodes, run. lia.
Qed.

Theorem depth_nodes_attained q : q <> [] -> wf_run [] q ->
  exists t, subseq t q /\ chain_rel linked t /\ Z.of_nat (length t) = depth_nodes q + 1.
Proof.
  intros Hne W.
  pose proof (run_inv q [] [] 0 Inv_init W) as I. rewrite app_nil_r in I.
  destruct (invD _ _ _ I) as [H0 [Hz|[a [s [Hs [Hc Hl]]]]]].
  - destruct q as [|n r]; [congruence|]. exists [n]. split; [apply ss_take, ss_nil|]. split; [cbn; auto|].
    unfold depth_nodes, run. rewrite Hz. reflexivity.
  - exists (rev (a :: s)). split; [|split].
    + rewrite <- (rev_involutive q). apply subseq_rev; auto.
    + apply chain_rel_rev in Hc. revert Hc. apply chain_rel_ext. intros x y H; exact H.
    + rewrite rev_length. cbn [length]. unfold depth_nodes, run. lia.
Qed.

(* bounds that need no well-formedness *)
Lemma run_cons F acc n r : run F acc (n :: r) = run (push (writes n) (level F n) F) (Z.max acc (level F n)) r.
Proof. reflexivity. Qed.

Lemma run_bound q : forall F acc B, 0 <= B -> (forall k v, flook F k = Some v -> v <= B) -> acc <= B ->
  run F acc q <= B + Z.of_nat (length q).
Proof.
  induction q as [|n r IH]; intros F acc B HB HF Ha.
  - unfold run; cbn. lia.
  - rewrite run_cons. pose proof (level_le F n B HB HF) as Hl. pose proof (level_nonneg F n).
    assert (G : run (push (writes n) (level F n) F) (Z.max acc (level F n)) r <= (B + 1) + Z.of_nat (length r)).
    { apply IH; [lia | | lia]. intros k v Hk. rewrite flook_push in Hk.
      destruct (existsb _ (writes n)); [inversion Hk; subst; lia | apply HF in Hk; lia]. }
    cbn [length]. lia.
Qed.

Lemma run_st_inv q : forall F acc, (forall k v, flook F k = Some v -> v <= acc) ->
  (forall k v, flook (fst (run_st F acc q)) k = Some v -> v <= snd (run_st F acc q)) /\ acc <= snd (run_st F acc q).
Proof.
  induction q as [|n r IH]; intros F acc HF; cbn [run_st fst snd]; [split; [auto|lia]|].
  destruct (IH (push (writes n) (level F n) F) (Z.max acc (level F n))) as [H1 H2].
  - intros k v Hk. rewrite flook_push in Hk.
    destruct (existsb _ (writes n)); [inversion Hk; subst; lia | apply HF in Hk; lia].
  - split; [auto|lia].
Qed.

Lemma run_st_app q n : forall F acc,
  run_st F acc (q ++ [n]) =
  (push (writes n) (level (fst (run_st F acc q)) n) (fst (run_st F acc q)),
   Z.max (snd (run_st F acc q)) (level (fst (run_st F acc q)) n)).
Proof. induction q as [|m r IH]; intros F acc; cbn [app run_st fst snd]; [reflexivity | apply IH]. Qed.

Theorem depth_nodes_append q n : q <> [] ->
  depth_nodes q <= depth_nodes (q ++ [n]) <= depth_nodes q + 1.
Proof.
  intros _. unfold depth_nodes, run. rewrite run_st_app. cbn [snd].
  destruct (run_st_inv q [] 0) as [H1 H2]; [cbn; discriminate|].
  pose proof (level_le (fst (run_st [] 0 q)) n (snd (run_st [] 0 q)) H2 H1).
  lia.
Qed.
(* ================================================================== depth of a circuit *)
Definition glinked (aw : list Z) (a b : gate) : Prop := linked (node_of aw a) (node_of aw b).
Definition mcm_distinct (c : circuit) : Prop := NoDup (flat_map gmid (ops c)).
Definition with_op (c : circuit) (g : gate) : circuit := mkCirc (ops c ++ [g]) (meass c) (trainable c).

Lemma In_KW w l : In (KW w) (map KW l) <-> In w l.
Proof. rewrite in_map_iff. split; [intros [x [E H]]; inversion E; subst; auto | intros H; exists w; auto]. Qed.
Lemma In_KM m l : In (KM m) (map KM l) <-> In m l.
Proof. rewrite in_map_iff. split; [intros [x [E H]]; inversion E; subst; auto | intros H; exists m; auto]. Qed.
Lemma notIn_KM_KW m l : ~ In (KM m) (map KW l).
Proof. rewrite in_map_iff. intros [x [E _]]; inversion E. Qed.
Lemma notIn_KW_KM w l : ~ In (KW w) (map KM l).
Proof. rewrite in_map_iff. intros [x [E _]]; inversion E. Qed.

(* the readable form of the dependency relation between two operations *)
Lemma glinked_iff aw a b :
  glinked aw a b <-> (exists w, In w (eff aw a) /\ In w (eff aw b)) \/ (exists m, In m (gmid a) /\ In m (gcond b)).
Proof.
  unfold glinked, linked, node_of; cbn [uses writes]. split.
  - intros [k [Hw Hu]]. rewrite in_app_iff in Hw, Hu.
    destruct Hw as [Hw|Hw]; apply in_map_iff in Hw; destruct Hw as [y [E Hy]]; subst k.
    + left. exists y. split; auto. destruct Hu as [Hu|Hu]; [apply In_KW in Hu; auto | apply notIn_KW_KM in Hu; contradiction].
    + right. exists y. split; auto. destruct Hu as [Hu|Hu]; [apply notIn_KM_KW in Hu; contradiction | apply In_KM in Hu; auto].
  - intros [[w [H1 H2]]|[m [H1 H2]]].
    + exists (KW w). rewrite !in_app_iff, !In_KW. auto.
    + exists (KM m). rewrite !in_app_iff, !In_KM. auto.
Qed.

Lemma preds_nil n : preds [] n = [].
Proof. unfold preds. induction (uses n); cbn; auto. Qed.
Lemma level_nil n : level [] n = 0.
Proof. unfold level. rewrite preds_nil. reflexivity. Qed.

Lemma depth_eq_queue c : depth c = depth_nodes (queue c).
Proof.
  unfold depth, queue. destruct (ops c) eqn:E; [|reflexivity].
  cbn [map]. unfold depth_nodes, run. cbn [run_st snd]. rewrite level_nil. reflexivity.
Qed.

Lemma NoDup_app_inv {A} (l1 l2 : list A) : NoDup (l1 ++ l2) -> NoDup l2 /\ (forall x, In x l1 -> ~ In x l2).
Proof.
  induction l1 as [|a l1 IH]; cbn [app]; intros H; [split; [auto | intros x []]|].
  inversion H as [|? ? Hn Hr]; subst. destruct (IH Hr) as [H2 H3]. split; [auto|].
  intros x [->|Hx]; [intros Hi; apply Hn; apply in_or_app; auto | auto].
Qed.

Lemma wf_run_gates aw gs : forall F, NoDup (flat_map gmid gs) ->
  (forall m, In m (flat_map gmid gs) -> flook F (KM m) = None) -> wf_run F (map (node_of aw) gs).
Proof.
  induction gs as [|g r IH]; intros F Hnd HF; cbn [map wf_run]; [auto|].
  cbn [flat_map] in Hnd, HF. destruct (NoDup_app_inv _ _ Hnd) as [Hr Hdis]. split.
  - intros k Hk. unfold node_of in *; cbn [writes uses] in *. rewrite in_app_iff in Hk. destruct Hk as [Hk|Hk].
    + left. apply in_or_app; auto.
    + right. apply in_map_iff in Hk. destruct Hk as [m [<- Hm]]. apply HF. apply in_or_app; auto.
  - apply IH; [auto|]. intros m Hm. rewrite flook_push_notin.
    + apply HF. apply in_or_app; auto.
    + unfold node_of; cbn [writes]. rewrite in_app_iff. intros [H|H].
      * apply notIn_KM_KW in H; auto.
      * apply In_KM in H. apply (Hdis m H Hm).
Qed.

Lemma wf_queue c : mcm_distinct c -> wf_run [] (queue c).
Proof.
  intros H. unfold queue. cbn [wf_run]. split.
  - intros k Hk. left. exact Hk.
  - apply wf_run_gates; [exact H|]. intros m _. rewrite flook_push_notin; [reflexivity|].
    unfold inode; cbn [writes]. apply notIn_KM_KW.
Qed.

Lemma depth_nonneg c : 0 <= depth c.
Proof. rewrite depth_eq_queue. apply depth_nodes_nonneg. Qed.

Lemma inode_linked c g : all_wires c <> [] -> In g (ops c) -> linked (inode (all_wires c)) (node_of (all_wires c) g).
Proof.
  intros Hne Hg. unfold linked, inode, node_of, eff; cbn [writes uses].
  destruct (gwires g) as [|w ws] eqn:E.
  - destruct (all_wires c) as [|w0 r] eqn:Ea; [congruence|]. exists (KW w0). split; [left; auto | apply in_or_app; left; left; auto].
  - exists (KW w). split.
    + apply In_KW. apply all_wires_spec. left. exists g. split; auto. rewrite E; left; auto.
    + apply in_or_app; left. apply In_KW. left; auto.
Qed.

Theorem depth_ge_chain c s : mcm_distinct c -> all_wires c <> [] ->
  subseq s (ops c) -> chain_rel (glinked (all_wires c)) s -> Z.of_nat (length s) <= depth c.
Proof.
  intros Hm Hne Hs Hc. destruct s as [|g0 s']; [cbn; apply depth_nonneg|].
  rewrite depth_eq_queue.
  pose (t := inode (all_wires c) :: map (node_of (all_wires c)) (g0 :: s')).
  assert (G : Z.of_nat (length t) - 1 <= depth_nodes (queue c)).
  { apply depth_nodes_ge_chain; [apply wf_queue; auto | | | discriminate].
    - unfold t, queue. apply ss_take. apply subseq_map; auto.
    - unfold t. cbn [map]. split.
      + apply inode_linked; auto. apply (subseq_In _ _ Hs). left; auto.
      + change (chain_rel linked (map (node_of (all_wires c)) (g0 :: s'))).
        exact (proj2 (chain_rel_map (node_of (all_wires c)) linked (g0 :: s')) Hc). }
  unfold t in G. cbn [length] in G. rewrite map_length in G. cbn [length] in *. lia.
Qed.

Theorem depth_attained_chain c : mcm_distinct c ->
  exists s, subseq s (ops c) /\ chain_rel (glinked (all_wires c)) s /\ Z.of_nat (length s) = depth c.
Proof.
  intros Hm. rewrite depth_eq_queue.
  destruct (depth_nodes_attained (queue c)) as [t [Hs [Hc Hl]]]; [unfold queue; discriminate | apply wf_queue; auto|].
  pose proof (depth_nodes_nonneg (queue c)) as H0.
  unfold queue in Hs. destruct t as [|n0 t']; [cbn in Hl; lia|].
  apply subseq_cons_inv in Hs. destruct Hs as [Hs|[-> Hs]].
  - apply subseq_map_inv in Hs. destruct Hs as [s [E Hs]].
    destruct s as [|g s']; [discriminate|]. exists s'. split; [apply (subseq_tail g); auto|]. split.
    + rewrite E in Hc. pose proof (proj1 (chain_rel_map (node_of (all_wires c)) linked (g :: s')) Hc) as Hc'.
      apply chain_rel_tail in Hc'. exact Hc'.
    + apply (f_equal (@length _)) in E. rewrite map_length in E. cbn [length] in *. lia.
  - apply subseq_map_inv in Hs. destruct Hs as [s [E Hs]]. exists s. split; [auto|]. split.
    + apply chain_rel_tail in Hc. rewrite E in Hc.
      exact (proj1 (chain_rel_map (node_of (all_wires c)) linked s) Hc).
    + rewrite E in Hl. cbn [length] in Hl. rewrite map_length in Hl. lia.
Qed.

Theorem depth_le_gates c : depth c <= Z.of_nat (length (ops c)).
Proof.
  rewrite depth_eq_queue. unfold queue, depth_nodes. rewrite run_cons. rewrite level_nil.
  pose proof (run_bound (map (node_of (all_wires c)) (ops c)) (push (writes (inode (all_wires c))) 0 []) (Z.max 0 0) 0) as H.
  rewrite map_length in H. apply H; [lia | | lia].
  intros k v Hk. rewrite flook_push in Hk. destruct (existsb _ _); [inversion Hk; lia | discriminate].
Qed.

Theorem depth_append c g : all_wires (with_op c g) = all_wires c ->
  depth c <= depth (with_op c g) <= depth c + 1.
Proof.
  intros Hw. rewrite !depth_eq_queue.
  assert (E : queue (with_op c g) = queue c ++ [node_of (all_wires c) g]).
  { unfold queue. rewrite Hw. unfold with_op; cbn [ops]. rewrite map_app. reflexivity. }
  rewrite E. apply depth_nodes_append. unfold queue; discriminate.
Qed.

(* the tidy statement fails for tapes without wires, and appending an operation that brings a new wire can
   raise the depth by more than one (wire-less operations start to act on the new wire) *)
Definition gphase0 : gate := mkGate 1 [] 1 0 [] [].
Definition rx0 : gate := mkGate 2 [0] 1 0 [] [].
Lemma depth_no_wires_example :
  let c := mkCirc [gphase0] [] None in
  depth c = 0 /\ subseq [gphase0] (ops c) /\ chain_rel (glinked (all_wires c)) [gphase0].
Proof. cbn. split; [vm_compute; reflexivity | split; [apply ss_take, ss_nil | auto]]. Qed.
Lemma depth_new_wire_example :
  let c := mkCirc [gphase0] [] None in depth c = 0 /\ depth (with_op c rx0) = 2.
Proof. split; vm_compute; reflexivity. Qed.
(* ================================================================== estimator Resources arithmetic *)
Definition ekeys (l : list (Z * Z)) : list Z := map fst l.
Definition nonneg_counts (l : list (Z * Z)) : Prop := forall k, 0 <= eget k l.

Lemma efind_app k l1 l2 : efind k (l1 ++ l2) = match efind k l1 with Some v => Some v | None => efind k l2 end.
Proof. induction l1 as [|[k1 v1] r IH]; cbn [app efind]; [reflexivity|]. destruct (k1 =? k); auto. Qed.
Lemma efind_notin k l : ~ In k (ekeys l) -> efind k l = None.
Proof.
  induction l as [|[k1 v1] r IH]; cbn [efind ekeys map fst In]; [reflexivity|]. intros H.
  destruct (k1 =? k) eqn:E; [apply Z.eqb_eq in E; subst; tauto | apply IH; tauto].
Qed.
Lemma efind_in k l : In k (ekeys l) -> exists v, efind k l = Some v.
Proof.
  induction l as [|[k1 v1] r IH]; cbn [efind ekeys map fst In]; [tauto|]. intros H.
  destruct (k1 =? k) eqn:E; [eauto|]. apply Z.eqb_neq in E. destruct H; [congruence | auto].
Qed.
Lemma efind_some_in k l v : efind k l = Some v -> In (k, v) l.
Proof.
  induction l as [|[k1 v1] r IH]; cbn [efind]; [discriminate|].
  destruct (k1 =? k) eqn:E; [apply Z.eqb_eq in E; intros H; inversion H; subst; left; auto | right; auto].
Qed.

Definition addf (b : list (Z * Z)) (kv : Z * Z) : list (Z * Z) :=
  let s := snd kv + eget (fst kv) b in if 0 <? s then [(fst kv, s)] else [].
Definition keepf (a : list (Z * Z)) (kv : Z * Z) : bool :=
  match efind (fst kv) a with Some _ => false | None => 0 <? snd kv end.
Lemma cnt_add_eq a b : cnt_add a b = flat_map (addf b) a ++ filter (keepf a) b.
Proof. reflexivity. Qed.

Lemma addf_keys b kv k : In k (ekeys (addf b kv)) -> k = fst kv.
Proof. unfold addf. cbn zeta. destruct (0 <? _); cbn; [intros [H|[]]; auto | tauto]. Qed.
Lemma addpart_keys b a k : In k (ekeys (flat_map (addf b) a)) -> In k (ekeys a).
Proof.
  induction a as [|kv r IH]; cbn [flat_map]; [auto|]. unfold ekeys in *. rewrite map_app, in_app_iff. cbn [map In].
  intros [H|H]; [left; symmetry; apply (addf_keys b kv k H) | right; auto].
Qed.
Lemma addpart_nodup b a : NoDup (ekeys a) -> NoDup (ekeys (flat_map (addf b) a)).
Proof.
  induction a as [|kv r IH]; cbn [flat_map ekeys map]; [constructor|]. intros H. inversion H as [|? ? Hn Hr]; subst.
  unfold ekeys. rewrite map_app. unfold addf at 1. cbn zeta. destruct (0 <? _); cbn [map app fst].
  - constructor; [|apply IH; auto]. intros Hi. apply Hn. apply (addpart_keys b r _ Hi).
  - apply IH; auto.
Qed.
Lemma filter_keys (g : Z * Z -> bool) b k : In k (ekeys (filter g b)) -> exists v, In (k, v) b /\ g (k, v) = true.
Proof.
  unfold ekeys. rewrite in_map_iff. intros [[k' v] [E H]]. cbn in E; subst. apply filter_In in H. eauto.
Qed.
Lemma filter_nodup (g : Z * Z -> bool) b : NoDup (ekeys b) -> NoDup (ekeys (filter g b)).
Proof.
  induction b as [|kv r IH]; cbn [filter ekeys map]; [constructor|]. intros H. inversion H as [|? ? Hn Hr]; subst.
  destruct (g kv); cbn [ekeys map]; [|apply IH; auto]. constructor; [|apply IH; auto].
  intros Hi. apply Hn. destruct kv as [k0 v0]. apply filter_keys in Hi. destruct Hi as [v [Hi _]].
  cbn [fst]. apply in_map_iff. exists (k0, v); auto.
Qed.
Lemma NoDup_app_intro {A} (l1 l2 : list A) : NoDup l1 -> NoDup l2 -> (forall x, In x l1 -> ~ In x l2) -> NoDup (l1 ++ l2).
Proof.
  induction l1 as [|a l1 IH]; cbn [app]; intros H1 H2 H; [auto|]. inversion H1; subst.
  constructor; [|apply IH; auto; intros; apply H; right; auto].
  rewrite in_app_iff. intros [Hi|Hi]; [auto | apply (H a); [left|]; auto].
Qed.

Lemma cnt_add_nodup a b : NoDup (ekeys a) -> NoDup (ekeys b) -> NoDup (ekeys (cnt_add a b)).
Proof.
  intros Ha Hb. rewrite cnt_add_eq. unfold ekeys. rewrite map_app.
  apply NoDup_app_intro; [apply addpart_nodup; auto | apply filter_nodup; auto|].
  intros k H1 H2. apply addpart_keys in H1. apply efind_in in H1. destruct H1 as [v Hv].
  apply filter_keys in H2. destruct H2 as [v' [_ Hg]]. unfold keepf in Hg. cbn [fst] in Hg. rewrite Hv in Hg. discriminate.
Qed.

Lemma efind_addpart k a b : NoDup (ekeys a) ->
  efind k (flat_map (addf b) a) =
  match efind k a with Some v => if 0 <? v + eget k b then Some (v + eget k b) else None | None => None end.
Proof.
  induction a as [|[k1 v1] r IH]; cbn [flat_map efind]; [reflexivity|]. intros H. inversion H as [|? ? Hn Hr]; subst.
  rewrite efind_app. unfold addf at 1. cbn [fst snd]. cbn zeta. destruct (k1 =? k) eqn:E.
  - apply Z.eqb_eq in E; subst k1. destruct (0 <? v1 + eget k b); cbn [efind].
    + rewrite Z.eqb_refl. reflexivity.
    + rewrite IH; auto. rewrite (efind_notin k r); auto.
  - destruct (0 <? v1 + eget k1 b); cbn [efind]; [rewrite E|]; apply IH; auto.
Qed.
Lemma efind_filter k (g : Z * Z -> bool) b : NoDup (ekeys b) ->
  efind k (filter g b) = match efind k b with Some v => if g (k, v) then Some v else None | None => None end.
Proof.
  induction b as [|[k1 v1] r IH]; cbn [filter efind]; [reflexivity|]. intros H. inversion H as [|? ? Hn Hr]; subst.
  destruct (k1 =? k) eqn:E.
  - apply Z.eqb_eq in E; subst k1. destruct (g (k, v1)); cbn [efind].
    + rewrite Z.eqb_refl; reflexivity.
    + rewrite IH; auto. rewrite (efind_notin k r); auto.
  - destruct (g (k1, v1)); cbn [efind]; [rewrite E|]; apply IH; auto.
Qed.

(* Counter addition, pointwise: the sum, clamped at 0 *)
Theorem eget_cnt_add k a b : NoDup (ekeys a) -> NoDup (ekeys b) ->
  eget k (cnt_add a b) = (if 0 <? eget k a + eget k b then eget k a + eget k b else 0).
Proof.
  intros Ha Hb. rewrite cnt_add_eq. unfold eget at 1. rewrite efind_app, efind_addpart, efind_filter; auto.
  unfold keepf. cbn [fst snd].
  pose proof (eq_refl : eget k a = match efind k a with Some v => v | None => 0 end) as Hga.
  pose proof (eq_refl : eget k b = match efind k b with Some v => v | None => 0 end) as Hgb.
  destruct (efind k a) as [va|] eqn:Ea; rewrite Hga.
  - destruct (0 <? va + eget k b); [reflexivity|]. destruct (efind k b); reflexivity.
  - rewrite Hgb. destruct (efind k b) as [vb|]; [|reflexivity]. cbn [Z.add]. destruct (0 <? vb); reflexivity.
Qed.

Corollary eget_cnt_add_nonneg k a b : NoDup (ekeys a) -> NoDup (ekeys b) -> 0 <= eget k a -> 0 <= eget k b ->
  eget k (cnt_add a b) = eget k a + eget k b.
Proof.
  intros Ha Hb H1 H2. rewrite eget_cnt_add; auto. destruct (0 <? eget k a + eget k b) eqn:E; [reflexivity|].
  apply Z.ltb_ge in E. lia.
Qed.

Lemma eget_scale k n l : eget k (scale_gt n l) = eget k l * n.
Proof.
  unfold eget, scale_gt. induction l as [|[k1 v1] r IH]; cbn [map efind fst snd]; [reflexivity|].
  destruct (k1 =? k); auto.
Qed.
Lemma scale_keys n l : ekeys (scale_gt n l) = ekeys l.
Proof. unfold ekeys, scale_gt. rewrite map_map. reflexivity. Qed.

Lemma rep_series_spec x : NoDup (ekeys (egt x)) -> nonneg_counts (egt x) -> forall n,
  NoDup (ekeys (egt (rep_series x n))) /\
  (forall k, eget k (egt (rep_series x n)) = eget k (egt x) * (Z.of_nat n + 1)) /\
  ez (rep_series x n) = ez x /\ ea (rep_series x n) = ea x * (Z.of_nat n + 1) /\ el (rep_series x n) = el x.
Proof.
  intros Hd Hn. induction n as [|n [I1 [I2 [I3 [I4 I5]]]]]; cbn [rep_series].
  - repeat split; auto; intros; cbn; lia.
  - unfold add_series; cbn [egt ez ea el]. split; [apply cnt_add_nodup; auto|]. split; [|split; [|split]].
    + intros k. rewrite eget_cnt_add_nonneg; auto; [rewrite I2; nia | rewrite I2; specialize (Hn k); nia].
    + rewrite I3. apply Z.max_id.
    + rewrite I4. nia.
    + rewrite I5. apply Z.max_id.
Qed.
Lemma rep_parallel_spec x : NoDup (ekeys (egt x)) -> nonneg_counts (egt x) -> forall n,
  NoDup (ekeys (egt (rep_parallel x n))) /\
  (forall k, eget k (egt (rep_parallel x n)) = eget k (egt x) * (Z.of_nat n + 1)) /\
  ez (rep_parallel x n) = ez x /\ ea (rep_parallel x n) = ea x * (Z.of_nat n + 1) /\
  el (rep_parallel x n) = el x * (Z.of_nat n + 1).
Proof.
  intros Hd Hn. induction n as [|n [I1 [I2 [I3 [I4 I5]]]]]; cbn [rep_parallel].
  - repeat split; auto; intros; cbn; lia.
  - unfold add_parallel; cbn [egt ez ea el]. split; [apply cnt_add_nodup; auto|]. split; [|split; [|split]].
    + intros k. rewrite eget_cnt_add_nonneg; auto; [rewrite I2; nia | rewrite I2; specialize (Hn k); nia].
    + rewrite I3. apply Z.max_id.
    + rewrite I4. nia.
    + rewrite I5. nia.
Qed.

(* observational equality of Resources: same wire fields, same count for every gate key *)
Definition eres_eq (x y : eres) : Prop :=
  ez x = ez y /\ ea x = ea y /\ el x = el y /\ forall k, eget k (egt x) = eget k (egt y).

Theorem mul_series_is_repeated_add x n : NoDup (ekeys (egt x)) -> nonneg_counts (egt x) ->
  eres_eq (mul_series x (Z.of_nat n + 1)) (rep_series x n).
Proof.
  intros Hd Hn. destruct (rep_series_spec x Hd Hn n) as [_ [I2 [I3 [I4 I5]]]].
  unfold eres_eq, mul_series; cbn [ez ea el egt]. repeat split; auto. intros k. rewrite eget_scale, I2. reflexivity.
Qed.
Theorem mul_parallel_is_repeated_add x n : NoDup (ekeys (egt x)) -> nonneg_counts (egt x) ->
  eres_eq (mul_parallel x (Z.of_nat n + 1)) (rep_parallel x n).
Proof.
  intros Hd Hn. destruct (rep_parallel_spec x Hd Hn n) as [_ [I2 [I3 [I4 I5]]]].
  unfold eres_eq, mul_parallel; cbn [ez ea el egt]. repeat split; auto. intros k. rewrite eget_scale, I2. reflexivity.
Qed.

Theorem add_series_comm x y : NoDup (ekeys (egt x)) -> NoDup (ekeys (egt y)) ->
  eres_eq (add_series x y) (add_series y x).
Proof.
  intros Hx Hy. unfold eres_eq, add_series; cbn [ez ea el egt]. repeat split; try lia.
  intros k. rewrite !eget_cnt_add; auto. rewrite (Z.add_comm (eget k (egt y))). reflexivity.
Qed.
Theorem add_parallel_comm x y : NoDup (ekeys (egt x)) -> NoDup (ekeys (egt y)) ->
  eres_eq (add_parallel x y) (add_parallel y x).
Proof.
  intros Hx Hy. unfold eres_eq, add_parallel; cbn [ez ea el egt]. repeat split; try lia.
  intros k. rewrite !eget_cnt_add; auto. rewrite (Z.add_comm (eget k (egt y))). reflexivity.
Qed.
Theorem add_series_assoc x y z : NoDup (ekeys (egt x)) -> NoDup (ekeys (egt y)) -> NoDup (ekeys (egt z)) ->
  nonneg_counts (egt x) -> nonneg_counts (egt y) -> nonneg_counts (egt z) ->
  eres_eq (add_series (add_series x y) z) (add_series x (add_series y z)).
Proof.
  intros Hx Hy Hz Nx Ny Nz. unfold eres_eq, add_series; cbn [ez ea el egt]. repeat split; try lia.
  intros k. specialize (Nx k); specialize (Ny k); specialize (Nz k).
  rewrite (eget_cnt_add_nonneg k (cnt_add (egt x) (egt y))); auto using cnt_add_nodup;
    [|rewrite eget_cnt_add_nonneg; auto; lia].
  rewrite (eget_cnt_add_nonneg k (egt x) (cnt_add (egt y) (egt z))); auto using cnt_add_nodup;
    [|rewrite eget_cnt_add_nonneg; auto; lia].
  rewrite !eget_cnt_add_nonneg; auto. lia.
Qed.

(* ================================================================== Expression arithmetic *)
Lemma monob_eq a : forall b, monob a b = true <-> a = b.
Proof.
  induction a as [|x r IH]; intros [|y s]; cbn [monob]; try (split; [discriminate|congruence]); [tauto|].
  rewrite andb_true_iff, Z.eqb_eq, IH. split; [intros [-> ->]; reflexivity | intros H; inversion H; auto].
Qed.
Lemma xeval_cons rho m v e : xeval rho ((m, v) :: e) = v * meval rho m + xeval rho e.
Proof. reflexivity. Qed.

Lemma xeval_xset rho m v e : xeval rho (xset m v e) = xeval rho e + (v - xget m e) * meval rho m.
Proof.
  unfold xget. induction e as [|[m' v'] r IH]; cbn [xset xfind].
  - rewrite xeval_cons. cbn. lia.
  - destruct (monob m' m) eqn:E.
    + apply monob_eq in E; subst. rewrite !xeval_cons. lia.
    + rewrite !xeval_cons, IH. lia.
Qed.
Lemma xeval_xdel rho m e : xeval rho (xdel m e) = xeval rho e - xget m e * meval rho m.
Proof.
  unfold xget. induction e as [|[m' v'] r IH]; cbn [xdel xfind].
  - cbn. lia.
  - destruct (monob m' m) eqn:E.
    + apply monob_eq in E; subst. rewrite !xeval_cons. lia.
    + rewrite !xeval_cons, IH. lia.
Qed.
Lemma xeval_xnorm rho e : xeval rho (xnorm e) = xeval rho e.
Proof.
  unfold xnorm. induction e as [|[m v] r IH]; cbn [filter snd]; [reflexivity|].
  destruct (v =? 0) eqn:E; cbn [negb]; rewrite ?xeval_cons, IH; [apply Z.eqb_eq in E; subst; lia | reflexivity].
Qed.
Lemma reval_cast rho e : reval rho (cast e) = xeval rho e.
Proof.
  destruct e as [|[m v] r]; [reflexivity|]. destruct m as [|x m']; [|reflexivity].
  destruct r; [|reflexivity]. cbn. lia.
Qed.
Lemma reval_cast_norm rho e : reval rho (cast_norm e) = xeval rho e.
Proof.
  destruct e as [|[m v] r]; [reflexivity|]. destruct m as [|x m'].
  - destruct r; [cbn; lia|]. cbn [cast_norm reval]. apply xeval_xnorm.
  - cbn [cast_norm reval]. apply xeval_xnorm.
Qed.

Theorem xadd_int_eval rho e z : reval rho (xadd_int e z) = xeval rho e + z.
Proof. unfold xadd_int. rewrite reval_cast_norm, xeval_xset. cbn [meval fold_right]. lia. Qed.

Theorem xadd_eval rho a b : reval rho (xadd a b) = xeval rho a + xeval rho b.
Proof.
  unfold xadd. rewrite reval_cast_norm. revert a.
  induction b as [|[m v] r IH]; intros a; cbn [fold_left fst snd]; [cbn; lia|].
  rewrite IH. rewrite xeval_cons. destruct (xget m a + v =? 0) eqn:E.
  - apply Z.eqb_eq in E. rewrite xeval_xdel. nia.
  - rewrite xeval_xset. nia.
Qed.

Theorem xmul_int_eval rho e z : reval rho (xmul_int e z) = z * xeval rho e.
Proof.
  unfold xmul_int. destruct (z =? 0) eqn:E; [apply Z.eqb_eq in E; subst; cbn; lia|].
  rewrite reval_cast. induction e as [|[m v] r IH]; cbn [map fst snd]; [cbn; lia|].
  rewrite !xeval_cons, IH. nia.
Qed.

Lemma radd_eval rho a b : reval rho (radd a b) = reval rho a + reval rho b.
Proof.
  destruct a as [x|e], b as [y|f]; cbn [radd]; [reflexivity | | |].
  - rewrite xadd_int_eval. cbn [reval]. lia.
  - rewrite xadd_int_eval. cbn [reval]. lia.
  - apply xadd_eval.
Qed.

(* total_quantum_operations = sum(counts.values()): evaluating the symbolic total gives the sum of the evaluated counts *)
Theorem total_eval rho l :
  reval rho (fold_left radd l (XInt 0)) = fold_right (fun r a => reval rho r + a) 0 l.
Proof.
  assert (G : forall acc, reval rho (fold_left radd l acc) = reval rho acc + fold_right (fun r a => reval rho r + a) 0 l).
  { induction l as [|r l IH]; intros acc; cbn [fold_left fold_right]; [lia|]. rewrite IH, radd_eval. lia. }
  rewrite G. cbn. lia.
Qed.

(* ================================================================== packaged statements used by Props/C46.v *)
Lemma gate_counts_sum c :
  ctotal (gate_counts c) = Z.of_nat (length (ops c)) /\ ctotal (size_counts c) = Z.of_nat (length (ops c)).
Proof. split; apply count_total. Qed.

Lemma gate_counts_keys c :
  NoDup (map fst (gate_counts c)) /\ forall k, In k (map fst (gate_counts c)) <-> exists g, In g (ops c) /\ gkey g = k.
Proof. split; [apply count_keys_nodup | intros k; apply count_keys_spec]. Qed.

Lemma num_wires_spec c :
  num_wires c = Z.of_nat (length (all_wires c)) /\ NoDup (all_wires c) /\
  forall w, In w (all_wires c) <->
            (exists g, In g (ops c) /\ In w (gwires g)) \/ (exists m, In m (meass c) /\ In w (mwires m)).
Proof. split; [reflexivity|]. split; [apply all_wires_nodup | intros w; apply all_wires_spec]. Qed.

Lemma depth_longest_chain c : mcm_distinct c -> all_wires c <> [] ->
  (forall s, subseq s (ops c) -> chain_rel (glinked (all_wires c)) s -> Z.of_nat (length s) <= depth c) /\
  (exists s, subseq s (ops c) /\ chain_rel (glinked (all_wires c)) s /\ Z.of_nat (length s) = depth c).
Proof. intros Hm Hw. split; [intros s; apply depth_ge_chain; auto | apply depth_attained_chain; auto]. Qed.

Lemma add_fields x y :
  ez (add_series x y) = Z.max (ez x) (ez y) /\ ea (add_series x y) = ea x + ea y /\ el (add_series x y) = Z.max (el x) (el y) /\
  ez (add_parallel x y) = Z.max (ez x) (ez y) /\ ea (add_parallel x y) = ea x + ea y /\ el (add_parallel x y) = el x + el y /\
  egt (add_parallel x y) = egt (add_series x y).
Proof. repeat split. Qed.

Lemma add_counts x y k : NoDup (ekeys (egt x)) -> NoDup (ekeys (egt y)) ->
  eget k (egt (add_series x y)) = (if 0 <? eget k (egt x) + eget k (egt y) then eget k (egt x) + eget k (egt y) else 0) /\
  (0 <= eget k (egt x) -> 0 <= eget k (egt y) -> eget k (egt (add_series x y)) = eget k (egt x) + eget k (egt y)).
Proof. intros Hx Hy. split; [apply eget_cnt_add; auto | intros; apply eget_cnt_add_nonneg; auto]. Qed.

Lemma total_wires_parallel x y : 0 <= ez x -> 0 <= ez y -> 0 <= el x -> 0 <= el y ->
  total_wires (add_series x y) <= total_wires (add_parallel x y) <= total_wires x + total_wires y.
Proof. unfold total_wires, add_series, add_parallel; cbn [ez ea el]. lia. Qed.
