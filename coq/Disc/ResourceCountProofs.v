From Coq Require Import List ZArith Bool Lia.
From PLV Require Import Disc.ResourceCountModel.
Import ListNotations.
Open Scope Z_scope.
Lemma stub_true : True. Proof. exact I. Qed.
