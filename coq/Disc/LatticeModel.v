(* Model of pennylane/spin/lattice.py (generate_lattice, Lattice._generate_grid, _identify_neighbours,
   _generate_true_edges, _get_custom_edges) and of the Hamiltonian builders of
   pennylane/spin/spin_hamiltonian.py (transverse_ising, heisenberg, fermi_hubbard with the Jordan-Wigner
   mapping, kitaev, spin_hamiltonian).  No proofs here: this file must keep running for the correspondence
   check even when a proof elsewhere breaks.

   Coordinates are exact: every built-in shape has coordinates (x_1..x_d) with x_k in u_k * Z for a
   per-axis unit u_k (1, 1/2, 1/4, sqrt3/2, sqrt3/4, sqrt3/6); the squared distance is then
   sum_k w_k * (integer difference)^2 up to one common factor, with integer weights w_k. *)
From Coq Require Import List ZArith Bool QArith.
Import ListNotations.
Open Scope Z_scope.

Inductive shape := Chain | Square | Rectangle | Triangle | Honeycomb | Kagome | Lieb | Cubic | Bcc | Fcc | Diamond.

Record lspec := mkSpec { vecs : list (list Z); poss : list (list Z); wts : list Z }.

(* lattice_dict of generate_lattice, in integer units (see the table of units in harness/props/c69.py) *)
Definition spec_of (s : shape) : lspec :=
  match s with
  | Chain => mkSpec [[1]] [[0]] [1]
  | Square | Rectangle => mkSpec [[0; 1]; [1; 0]] [[0; 0]] [1; 1]
  | Triangle => mkSpec [[2; 0]; [1; 1]] [[0; 0]] [1; 3]                         (* units 1/2, sqrt3/2 *)
  | Honeycomb => mkSpec [[2; 0]; [1; 3]] [[0; 0]; [1; 1]] [3; 1]                (* units 1/2, sqrt3/6 *)
  | Kagome => mkSpec [[4; 0]; [2; 2]] [[0; 0]; [-1; 1]; [1; 1]] [1; 3]          (* units 1/4, sqrt3/4 *)
  | Lieb => mkSpec [[0; 2]; [2; 0]] [[0; 0]; [1; 0]; [0; 1]] [1; 1]             (* unit 1/2 *)
  | Cubic => mkSpec [[1; 0; 0]; [0; 1; 0]; [0; 0; 1]] [[0; 0; 0]] [1; 1; 1]
  | Bcc => mkSpec [[2; 0; 0]; [0; 2; 0]; [0; 0; 2]] [[0; 0; 0]; [1; 1; 1]] [1; 1; 1]
  | Fcc => mkSpec [[2; 0; 0]; [0; 2; 0]; [0; 0; 2]] [[0; 0; 0]; [1; 1; 0]; [1; 0; 1]; [0; 1; 1]] [1; 1; 1]
  | Diamond => mkSpec [[0; 2; 2]; [2; 0; 2]; [2; 2; 0]] [[0; 0; 0]; [1; 1; 1]] [1; 1; 1]  (* unit 1/4 *)
  end.

(* ---- small list utilities ---- *)
Definition range (lo hi : Z) : list Z := map (fun i => lo + Z.of_nat i) (seq 0 (Z.to_nat (hi - lo))).

(* itertools.product: the first range varies slowest *)
Fixpoint product (rs : list (list Z)) : list (list Z) :=
  match rs with
  | [] => [[]]
  | r :: rest => flat_map (fun x => map (cons x) (product rest)) r
  end.

Definition prodZ (l : list Z) : Z := fold_right Z.mul 1 l.

Fixpoint dot (a b : list Z) : Z :=
  match a, b with x :: r, y :: s => x * y + dot r s | _, _ => 0 end.
Fixpoint vadd (a b : list Z) : list Z :=
  match a, b with x :: r, y :: s => (x + y) :: vadd r s | _, _ => [] end.
Definition vscale (c : Z) (v : list Z) : list Z := map (Z.mul c) v.
(* math.dot(cell, vectors) = sum_i cell_i * vectors_i *)
Fixpoint lincomb (c : list Z) (vs : list (list Z)) (zero : list Z) : list Z :=
  match c, vs with x :: r, v :: s => vadd (vscale x v) (lincomb r s zero) | _, _ => zero end.
Fixpoint map2 {A B C} (f : A -> B -> C) (a : list A) (b : list B) : list C :=
  match a, b with x :: r, y :: s => f x y :: map2 f r s | _, _ => [] end.

(* `if x not in acc: acc.append(x)` (kept in reverse order; the order is never observed) *)
Definition add_new {A} (eqb : A -> A -> bool) (acc : list A) (x : A) : list A :=
  if existsb (eqb x) acc then acc else x :: acc.
Definition dedupb {A} (eqb : A -> A -> bool) (l : list A) : list A := fold_left (add_new eqb) l [].

Fixpoint allpairs {A} (l : list A) : list (A * A) :=
  match l with [] => [] | x :: r => map (pair x) r ++ allpairs r end.

(* ---- _generate_grid ---- *)
Definition point := (list Z * Z)%type.            (* (cell index vector, sublattice index) *)

Definition nsl (sp : lspec) : Z := Z.of_nat (length (poss sp)).
Definition zero_of (sp : lspec) : list Z := map (fun _ => 0) (wts sp).

(* nsites_axis = cumprod([n_sl, *n_cells[:0:-1]])[::-1] *)
Fixpoint axis (ncs : list Z) (k : Z) : list Z :=
  match ncs with [] => [] | _ :: r => k * prodZ r :: axis r k end.

Definition coords (sp : lspec) (p : point) : list Z :=
  vadd (lincomb (fst p) (vecs sp) (zero_of sp)) (nth (Z.to_nat (snd p)) (poss sp) (zero_of sp)).
Definition node (ncs : list Z) (k : Z) (p : point) : Z :=
  dot (map2 Z.modulo (fst p) ncs) (axis ncs k) + snd p.

Definition wrap (order : Z) (b : bool) : Z := if b then order else 0.
Definition ranges (ncs : list Z) (bcs : list bool) (order : Z) : list (list Z) :=
  map2 (fun n b => range (- wrap order b) (n + wrap order b)) ncs bcs.

Definition grid (sp : lspec) (ncs : list Z) (bcs : list bool) (order : Z) : list point :=
  flat_map (fun c => map (fun s => (c, s)) (range 0 (nsl sp))) (product (ranges ncs bcs order)).

(* ---- _identify_neighbours / _generate_true_edges ---- *)
Fixpoint sqd (w x y : list Z) : Z :=
  match w, x, y with a :: w', b :: x', c :: y' => a * (b - c) * (b - c) + sqd w' x' y' | _, _, _ => 0 end.
Definition norm2 (w v : list Z) : Z := sqd w v (map (fun _ => 0) v).
Definition maxl (l : list Z) : Z := fold_right Z.max 0 l.

(* cutoff = neighbour_order * max |v| + 1e-5; on the exact squared scale: d2 <= order^2 * max |v|^2 *)
Definition cutoff2 (sp : lspec) (order : Z) : Z := order * order * maxl (map (norm2 (wts sp)) (vecs sp)).

Definition lpoint := (list Z * Z)%type.           (* (coordinates, node index) *)
Definition lpoints (sp : lspec) (ncs : list Z) (bcs : list bool) (order : Z) : list lpoint :=
  map (fun p => (coords sp p, node ncs (nsl sp) p)) (grid sp ncs bcs order).

Definition d2 (sp : lspec) (pq : lpoint * lpoint) : Z := sqd (wts sp) (fst (fst pq)) (fst (snd pq)).

Definition kept (sp : lspec) (ncs : list Z) (bcs : list bool) (order : Z) : list (lpoint * lpoint) :=
  filter (fun pq => d2 sp pq <=? cutoff2 sp order) (allpairs (lpoints sp ncs bcs order)).

(* index of the distance in sorted(edges.items()) = number of distinct smaller distances present *)
Definition rank (dv : list Z) (v : Z) : Z := Z.of_nat (length (filter (fun x => x <? v) dv)).

Definition edge := (Z * Z * Z)%type.
Definition eqe (a b : edge) : bool :=
  match a, b with (a1, a2, a3), (b1, b2, b3) => (a1 =? b1) && (a2 =? b2) && (a3 =? b3) end.

Definition true_edge (sp : lspec) (dv : list Z) (order : Z) (pq : lpoint * lpoint) : list edge :=
  let t := rank dv (d2 sp pq) in
  if t <? order then [(Z.min (snd (fst pq)) (snd (snd pq)), Z.max (snd (fst pq)) (snd (snd pq)), t)] else [].

(* the set of true edges (the order inside the implementation's list depends on the KD-tree traversal
   and is not part of the model; both sides are sorted before they are compared) *)
Definition lattice_edges (sp : lspec) (ncs : list Z) (bcs : list bool) (order : Z) : list edge :=
  let k := kept sp ncs bcs order in
  let dv := dedupb Z.eqb (map (d2 sp) k) in
  dedupb eqe (flat_map (true_edge sp dv order) k).

Definition n_sites (sp : lspec) (ncs : list Z) : Z := prodZ ncs * nsl sp.

(* argument checks of generate_lattice / Lattice.__init__ (any exception = false) *)
Definition valid_args (sp : lspec) (ncs : list Z) (bcs : list bool) : bool :=
  forallb (fun n => 0 <? n) ncs && (length ncs =? length (vecs sp))%nat && (length bcs =? length ncs)%nat.

(* ---- Pauli sentences as term lists ---- *)
Inductive letter := LX | LY | LZ.
Definition lcode (l : letter) : Z := match l with LX => 1 | LY => 2 | LZ => 3 end.
Definition word := list (Z * letter).
Definition term := (Q * word)%type.

(* op(i) @ op(j) with the same letter on both sites: identity when i = j *)
Definition pair_word (l : letter) (i j : Z) : word :=
  if i =? j then [] else if i <? j then [(i, l); (j, l)] else [(j, l); (i, l)].

Definition nthQ (l : list Q) (i : Z) : Q := nth (Z.to_nat i) l 0%Q.
Definition nthQ2 (m : list (list Q)) (i j : Z) : Q := nthQ (nth (Z.to_nat i) m []) j.
Definition is_matrix (m : list (list Q)) (n : Z) : bool :=
  (Z.of_nat (length m) =? n) && forallb (fun r => Z.of_nat (length r) =? n) m.

Inductive coupling := CVec (v : list Q) | CMat (m : list (list Q)).
Definition coup_ok (c : coupling) (order n : Z) : bool :=
  match c with CVec v => Z.of_nat (length v) =? order | CMat m => is_matrix m n end.
Definition coup_at (c : coupling) (e : edge) : Q :=
  match e with (i, j, t) => match c with CVec v => nthQ v t | CMat m => nthQ2 m i j end end.

Definition H0 : list term := [(0%Q, [])].        (* hamiltonian = 0.0 * I(0) *)

(* transverse_ising: the two accumulation loops *)
Definition ising_terms (edges : list edge) (J : coupling) (h : Q) (n : Z) : list term :=
  let H1 := fold_left (fun H e => match e with (i, j, _) => H ++ [(Qopp (coup_at J e), pair_word LZ i j)] end) edges H0 in
  fold_left (fun H v => H ++ [(Qopp h, [(v, LX)])]) (range 0 n) H1.

(* heisenberg *)
Definition heis_terms (edges : list edge) (JX JY JZ : coupling) : list term :=
  fold_left (fun H e => match e with (i, j, _) =>
     H ++ [(coup_at JX e, pair_word LX i j); (coup_at JY e, pair_word LY i j); (coup_at JZ e, pair_word LZ i j)] end)
    edges H0.

(* fermi_hubbard under Jordan-Wigner (closed textbook images of the two kinds of fermionic terms):
   a+_p a_q + a+_q a_p = 1/2 (X_p Z.. X_q + Y_p Z.. Y_q)  (p < q),   = 1 - Z_p  (p = q)
   n_p n_q = 1/4 (1 - Z_p - Z_q + Z_p Z_q)  (p <> q) *)
Definition zstring (p q : Z) : word := map (fun k => (k, LZ)) (range (p + 1) q).
Definition hop_terms (c : Q) (p q : Z) : list term :=
  if p =? q then [(c, []); (Qopp c, [(p, LZ)])]
  else let lo := Z.min p q in let hi := Z.max p q in
       [(c * (1 # 2), [(lo, LX)] ++ zstring lo hi ++ [(hi, LX)]); (c * (1 # 2), [(lo, LY)] ++ zstring lo hi ++ [(hi, LY)])]%Q.
Definition nn_terms (c : Q) (p q : Z) : list term :=
  [(c * (1 # 4), []); (Qopp (c * (1 # 4)), [(p, LZ)]); (Qopp (c * (1 # 4)), [(q, LZ)]); (c * (1 # 4), pair_word LZ p q)]%Q.

Definition hubbard_terms (edges : list edge) (t : coupling) (U : list Q) (n : Z) : list term :=
  let Hh := fold_left (fun H e => match e with (i, j, _) =>
      H ++ hop_terms (Qopp (coup_at t e)) (2 * i) (2 * j) ++ hop_terms (Qopp (coup_at t e)) (2 * i + 1) (2 * j + 1) end) edges H0 in
  fold_left (fun H i => H ++ nn_terms (nthQ U i) (2 * i) (2 * i + 1)) (range 0 n) Hh.

(* ---- canonical form of a sentence: sorted by word, equal words merged, zero coefficients dropped ---- *)
Fixpoint cmp_word (a b : word) : comparison :=
  match a, b with
  | [], [] => Eq
  | [], _ => Lt
  | _, [] => Gt
  | (i, l) :: r, (j, m) :: s =>
      match i ?= j with
      | Eq => match lcode l ?= lcode m with Eq => cmp_word r s | c => c end
      | c => c
      end
  end.
Fixpoint insert_term (t : term) (l : list term) : list term :=
  match l with
  | [] => [t]
  | u :: r => match cmp_word (snd t) (snd u) with
              | Lt => t :: l
              | Eq => (Qred (fst u + fst t), snd u) :: r
              | Gt => u :: insert_term t r
              end
  end.
Definition canon (l : list term) : list term :=
  filter (fun t => negb (Qeq_bool (fst t) 0)) (fold_left (fun acc t => insert_term t acc) l []).

Definition cmp_edge (a b : edge) : comparison :=
  match a, b with (a1, a2, a3), (b1, b2, b3) =>
    match a1 ?= b1 with Eq => match a2 ?= b2 with Eq => a3 ?= b3 | c => c end | c => c end end.
Fixpoint insert_edge (e : edge) (l : list edge) : list edge :=
  match l with
  | [] => [e]
  | u :: r => match cmp_edge e u with Gt => u :: insert_edge e r | _ => e :: l end
  end.
Definition sort_edges (l : list edge) : list edge := fold_right insert_edge [] l.

(* ---- Lattice with custom_edges (neighbour_order = 1): _get_custom_edges ---- *)
(* lattice_map = dict(zip(map, points)): the LAST grid point of a node wins; with wrap 1 that is the cell
   whose periodic coordinates equal to 0 are replaced by n (the image n comes after 0 in the product) *)
Fixpoint last_cell (c ncs : list Z) (bcs : list bool) : list Z :=
  match c, ncs, bcs with
  | x :: c', n :: n', b :: b' => (if b && (x =? 0) then n else x) :: last_cell c' n' b'
  | _, _, _ => []
  end.
(* cell index vector and sublattice of a node index *)
Fixpoint cell_of (ncs : list Z) (k : Z) (v : Z) : list Z :=
  match ncs with [] => [] | _ :: r => (v / (k * prodZ r)) :: cell_of r k (v mod (k * prodZ r)) end.
Fixpoint vsub (a b : list Z) : list Z :=
  match a, b with x :: r, y :: s => (x - y) :: vsub r s | _, _ => [] end.

Inductive eop := OpXX | OpYY | OpZZ.             (* operator string on a custom edge *)

(* one custom edge ((e1, e2), op, coefficient) expanded over all unit cells.
   translation_vector = rint((pos(e2) - pos(e1) + positions[v1] - positions[v2]) @ inv(vectors))
   = (representative cell of e2) - (representative cell of e1) *)
Definition custom_expand (ncs : list Z) (bcs : list bool) (k : Z) (e1 e2 : Z) : list (Z * Z) :=
  let v1 := e1 mod k in let v2 := e2 mod k in
  let tv := vsub (last_cell (cell_of ncs k e2) ncs bcs) (last_cell (cell_of ncs k e1) ncs bcs) in
  let rs := map2 (fun (nb : Z * bool) (t : Z) => let tp := if snd nb then 0 else t in
                              range (Z.max 0 (- tp)) (fst nb - Z.max 0 tp)) (combine ncs bcs) tv in
  map (fun c => (dot (map2 Z.modulo c ncs) (axis ncs k) + v1,
                 dot (map2 Z.modulo (vadd c tv) ncs) (axis ncs k) + v2)) (product rs).

Definition letter_of (o : eop) : letter := match o with OpXX => LX | OpYY => LY | OpZZ => LZ end.

(* spin_hamiltonian / kitaev: coeff * (op1(v1) @ op2(v2)), both letters equal in this model *)
Definition custom_terms (ncs : list Z) (bcs : list bool) (k : Z) (ces : list (Z * Z * eop * Q))
                        (nodes : list (Z * letter * Q)) : list term :=
  let He := fold_left (fun H ce => match ce with (e1, e2, o, c) =>
      fold_left (fun H' ab => H' ++ [(c, pair_word (letter_of o) (fst ab) (snd ab))]) (custom_expand ncs bcs k e1 e2) H end)
      ces H0 in
  fold_left (fun H nd => match nd with (v, l, c) => H ++ [(c, [(v, l)])] end) nodes He.

Definition custom_edge_list (ncs : list Z) (bcs : list bool) (k : Z) (ces : list (Z * Z * eop * Q)) : list (Z * Z * Z) :=
  flat_map (fun ice => match ice with (idx, (e1, e2, _, _)) =>
      map (fun ab => (fst ab, snd ab, idx)) (custom_expand ncs bcs k e1 e2) end)
    (combine (range 0 (Z.of_nat (length ces))) ces).

(* ---- the cases of the correspondence check ---- *)
Inductive ham :=
| HNone
| HIsing (J : coupling) (h : Q)
| HHeis (JX JY JZ : coupling)
| HHubbard (t : coupling) (U : list Q)
| HKitaev (cx cy cz : Q)                                          (* honeycomb geometry, n_cells of length 2 *)
| HCustom (ces : list (Z * Z * eop * Q)) (nodes : list (Z * letter * Q)).

Record case := mkCase { c_shape : shape; c_ncs : list Z; c_bcs : list bool; c_order : Z; c_ham : ham }.

Definition result := option (Z * list edge * list term).

Definition run (c : case) : result :=
  let sp := spec_of (c_shape c) in
  let ncs := c_ncs c in let bcs := c_bcs c in
  if negb (valid_args sp ncs bcs) then None else
  let n := n_sites sp ncs in
  match c_ham c with
  | HKitaev cx cy cz =>
      let ces := [(0, 1, OpXX, cx); (1, 2, OpYY, cy); (1, nth 1 ncs 0 * 2, OpZZ, cz)] in
      if forallb (fun ce => match ce with (e1, e2, _, _) => (e1 <? n) && (e2 <? n) end) ces
      then Some (n, sort_edges (custom_edge_list ncs bcs (nsl sp) ces), canon (custom_terms ncs bcs (nsl sp) ces []))
      else None
  | HCustom ces nodes =>
      if forallb (fun ce => match ce with (e1, e2, _, _) => (e1 <? n) && (e2 <? n) end) ces
         && negb (Nat.eqb (length (custom_edge_list ncs bcs (nsl sp) ces)) 0)   (* lattice.edges[0] *)
         && forallb (fun nd => match nd with (v, _, _) => (0 <=? v) && (v <=? n) end) nodes
      then Some (n, sort_edges (custom_edge_list ncs bcs (nsl sp) ces), canon (custom_terms ncs bcs (nsl sp) ces nodes))
      else None
  | h =>
      let es := lattice_edges sp ncs bcs (c_order c) in
      match h with
      | HIsing J hh => if coup_ok J (c_order c) n then Some (n, sort_edges es, canon (ising_terms es J hh n)) else None
      | HHeis JX JY JZ =>
          if coup_ok JX (c_order c) n && coup_ok JY (c_order c) n && coup_ok JZ (c_order c) n
          then Some (n, sort_edges es, canon (heis_terms es JX JY JZ)) else None
      | HHubbard t U =>
          if coup_ok t (c_order c) n && (Z.of_nat (length U) =? n)
          then Some (n, sort_edges es, canon (hubbard_terms es t U n)) else None
      | _ => Some (n, sort_edges es, [])
      end
  end.

(* ---- comparison with the recorded behaviour of the implementation ---- *)
Fixpoint eq_edges (a b : list edge) : bool :=
  match a, b with [], [] => true | x :: r, y :: s => eqe x y && eq_edges r s | _, _ => false end.
Fixpoint eq_word (a b : word) : bool :=
  match a, b with
  | [], [] => true
  | (i, l) :: r, (j, m) :: s => (i =? j) && (lcode l =? lcode m) && eq_word r s
  | _, _ => false
  end.
Fixpoint eq_terms (a b : list term) : bool :=
  match a, b with
  | [], [] => true
  | (c, w) :: r, (d, v) :: s => Qeq_bool c d && eq_word w v && eq_terms r s
  | _, _ => false
  end.
Definition eq_result (a b : result) : bool :=
  match a, b with
  | None, None => true
  | Some (n, e, t), Some (n', e', t') => (n =? n') && eq_edges e e' && eq_terms t t'
  | _, _ => false
  end.

Definition check_case (c : case * result) : bool := eq_result (run (fst c)) (snd c).

(* typed constructors used by the generated case files (they make elaboration of the big literals fast) *)
Definition CR (c : case) (r : result) : case * result := (c, r).
Definition RS (n : Z) (e : list edge) (t : list term) : result := Some (n, e, t).
Definition ED (a b t : Z) : edge := (a, b, t).
Definition TM (c : Q) (w : word) : term := (c, w).
Definition SL (i : Z) (l : letter) : Z * letter := (i, l).
Definition CE (a b : Z) (o : eop) (c : Q) : Z * Z * eop * Q := (a, b, o, c).
Definition ND (v : Z) (l : letter) (c : Q) : Z * letter * Q := (v, l, c).
