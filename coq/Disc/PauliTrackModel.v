(* C74 (part A): Gallina transcription of pennylane/ftqc/pauli_tracker.py
   (pauli_to_xz, xz_to_pauli, pauli_prod, _commute_h/_commute_s/_commute_cnot, commute_clifford_op,
    _parse_mid_measurements, _get_xz_record, _correct_samples, get_byproduct_corrections) and of the byproduct
   formulas it imports from ftqc/decomposition.py (_single_xz_corrections, _cnot_xz_corrections).
   Definitions only; the semantics and the theorems live in Disc/PauliTrackProofs.v. *)
From Coq Require Import List ZArith Bool.
Import ListNotations.

Inductive pauli := PI | PX | PY | PZ.
Definition xz := (bool * bool)%type.

Definition pauli_eqb (a b : pauli) : bool :=
  match a, b with PI, PI | PX, PX | PY, PY | PZ, PZ => true | _, _ => false end.

(* _OPS_TO_XZ *)
Definition pauli_to_xz (p : pauli) : xz :=
  match p with PI => (false, false) | PX => (true, false) | PY => (true, true) | PZ => (false, true) end.

(* _XZ_TO_OPS *)
Definition xz_to_pauli_b (p : xz) : pauli :=
  match p with (false, false) => PI | (true, false) => PX | (true, true) => PY | (false, true) => PZ end.

Definition bit_of_Z (v : Z) : option bool :=
  if (v =? 0)%Z then Some false else if (v =? 1)%Z then Some true else None.

(* xz_to_pauli(x, z): ValueError unless both are 0/1 *)
Definition xz_to_pauli (x z : Z) : option pauli :=
  match bit_of_Z x, bit_of_Z z with
  | Some bx, Some bz => Some (xz_to_pauli_b (bx, bz))
  | _, _ => None
  end.

Definition xz_xor (a b : xz) : xz := (xorb (fst a) (fst b), xorb (snd a) (snd b)).

(* pauli_prod(ops): an entry None stands for an operator that is not a Pauli (NotImplementedError);
   the empty list raises ValueError.  The loop xors the encodings from left to right. *)
Fixpoint prod_loop (acc : xz) (l : list (option pauli)) : option xz :=
  match l with
  | [] => Some acc
  | None :: _ => None
  | Some p :: r => prod_loop (xz_xor acc (pauli_to_xz p)) r
  end.
Definition pauli_prod (l : list (option pauli)) : option xz :=
  match l with
  | [] => None
  | None :: _ => None
  | Some p :: r => prod_loop (pauli_to_xz p) r
  end.

(* _commute_h, _commute_s, _commute_cnot *)
Definition commute_h (p : xz) : xz := (snd p, fst p).
Definition commute_s (p : xz) : xz := (fst p, xorb (fst p) (snd p)).
Definition commute_cnot (pc pt : xz) : xz * xz :=
  ((fst pc, xorb (snd pc) (snd pt)), (xorb (fst pc) (fst pt), snd pt)).

(* commute_clifford_op(clifford_op, xz): the operator is S, H, CNOT or anything else with nw wires *)
Inductive cop := CS | CH | CCNOT | COther (nw : nat).
Definition cop_wires (c : cop) : nat := match c with CS | CH => 1 | CCNOT => 2 | COther n => n end.

Fixpoint all_pairs (l : list (list Z)) : bool :=
  match l with [] => true | [_; _] :: r => all_pairs r | _ :: _ => false end.
Fixpoint bits_of (l : list Z) : option (list bool) :=
  match l with
  | [] => Some []
  | v :: r => match bit_of_Z v, bits_of r with Some b, Some br => Some (b :: br) | _, _ => None end
  end.
Fixpoint to_xz (l : list (list Z)) : option (list xz) :=
  match l with
  | [] => Some []
  | [x; z] :: r => match bit_of_Z x, bit_of_Z z, to_xz r with
                   | Some bx, Some bz, Some br => Some ((bx, bz) :: br) | _, _, _ => None end
  | _ :: _ => None
  end.

Definition commute_clifford_op (c : cop) (l : list (list Z)) : option (list xz) :=
  if negb (Nat.eqb (length l) (cop_wires c)) then None          (* ValueError: length *)
  else if negb (all_pairs l) then None                          (* ValueError: tuple length *)
  else match to_xz l with
       | None => None                                           (* ValueError: not 0/1 *)
       | Some ps =>
         match c, ps with
         | CS, [p] => Some [commute_s p]
         | CH, [p] => Some [commute_h p]
         | CCNOT, [pc; pt] => let r := commute_cnot pc pt in Some [fst r; snd r]
         | _, _ => None                                         (* NotImplementedError *)
         end
       end.

(* ---- byproduct formulas of ftqc/decomposition.py ---- *)
Fixpoint parity (l : list bool) : bool := match l with [] => false | b :: r => xorb b (parity r) end.

Inductive g1 := K_H | K_S | K_RZ | K_ROT.
(* _single_xz_corrections(op, m1, m2, m3, m4) -> (x, z) *)
Definition single_xz (k : g1) (m1 m2 m3 m4 : bool) : xz :=
  match k with
  | K_RZ | K_ROT => (xorb m2 m4, xorb m1 m3)
  | K_H => (parity [m1; m3; m4], xorb m2 m3)
  | K_S => (xorb m2 m4, parity [m1; m2; m3; true])
  end.
(* _cnot_xz_corrections([m1,m2,m3,m4,m5,m6,m8,m9,m10,m11,m12,m13,m14]) *)
Definition cnot_xz (ms : list bool) : option (xz * xz) :=
  match ms with
  | [m1; m2; m3; m4; m5; m6; m8; m9; m10; m11; m12; m13; m14] =>
      Some ((parity [m2; m3; m5; m6], parity [m1; m3; m4; m5; m8; m9; m11; true]),
            (parity [m2; m3; m8; m10; m12; m14], parity [m9; m11; m13]))
  | _ => None
  end.

(* ---- tapes for get_byproduct_corrections ---- *)
Inductive tgate :=
| TG1 (k : g1) (w : nat)            (* H, S, RZ, RotXZX *)
| TCNOT (c t : nat)
| TP (p : pauli) (w : nat)          (* X, Y, Z, I as gates *)
| TOther (ws : list nat).           (* anything else: NotImplementedError *)

Definition tg_wires (g : tgate) : list nat :=
  match g with TG1 _ w => [w] | TCNOT c t => [c; t] | TP _ w => [w] | TOther ws => ws end.

Fixpoint incr (l : list nat) (w : nat) : list nat :=
  match l, w with
  | [], _ => []
  | c :: r, O => S c :: r
  | c :: r, S w' => c :: incr r w'
  end.

(* one entry of by_ops: the list of (x, z) byproducts of one non-Pauli gate *)
Definition byop := list xz.

(* _parse_mid_measurements: returns by_ops in tape order (the python reverses and pops from the end,
   i.e. consumes in tape order) *)
Fixpoint parse_mid (ops : list tgate) (used : list nat) (mid : list bool) : option (list byop) :=
  match ops with
  | [] => Some []
  | g :: r =>
    let used' := fold_left incr (tg_wires g) used in
    match g with
    | TG1 k w =>
        if (match k with K_RZ | K_ROT => Nat.ltb 1 (nth w used' 0) | _ => false end) then None
        else match mid with
             | m1 :: m2 :: m3 :: m4 :: mid' =>
                 match parse_mid r used' mid' with Some l => Some ([single_xz k m1 m2 m3 m4] :: l) | None => None end
             | _ => None
             end
    | TCNOT _ _ =>
        match cnot_xz (firstn 13 mid) with
        | Some (pc, pt) => match parse_mid r used' (skipn 13 mid) with Some l => Some ([pc; pt] :: l) | None => None end
        | None => None
        end
    | TP _ _ => parse_mid r used' mid
    | TOther _ => None
    end
  end.

Fixpoint set_nth {A} (i : nat) (v : A) (l : list A) : list A :=
  match l, i with
  | [], _ => []
  | _ :: r, O => v :: r
  | a :: r, S i' => a :: set_nth i' v r
  end.
Definition pI : xz := (false, false).
Definition frame := list xz.

(* the Clifford part of one step of _get_xz_record: commute the recorded frame through the gate *)
Definition track_g1 (k : g1) (w : nat) (F : frame) : frame :=
  match k with
  | K_H => set_nth w (commute_h (nth w F pI)) F
  | K_S => set_nth w (commute_s (nth w F pI)) F
  | _ => F
  end.
Definition track_cnot (c t : nat) (F : frame) : frame :=
  let r := commute_cnot (nth c F pI) (nth t F pI) in set_nth t (snd r) (set_nth c (fst r) F).

(* a Clifford circuit over {H, S, CNOT} and the frame obtained by applying commute_clifford_op gate after gate
   to the recorded (x, z) of the gate's wires (what _get_xz_record does without byproducts) *)
Inductive cgate := GH (w : nat) | GS (w : nat) | GCX (c t : nat).
Definition track_gate (g : cgate) (F : frame) : frame :=
  match g with GH w => track_g1 K_H w F | GS w => track_g1 K_S w F | GCX c t => track_cnot c t F end.
Definition track_circ (cs : list cgate) (F : frame) : frame := fold_left (fun F g => track_gate g F) cs F.

(* _get_xz_record: rec = list of (x_record[w], z_record[w]) *)
Fixpoint xz_record (ops : list tgate) (bys : list byop) (rec : frame) : option frame :=
  match ops with
  | [] => Some rec
  | g :: r =>
    match g with
    | TG1 K_RZ w | TG1 K_ROT w =>
        match bys with
        | (b :: _) :: bys' => xz_record r bys' (set_nth w b rec)
        | _ => None
        end
    | TG1 k w =>
        match bys with
        | [b] :: bys' => xz_record r bys' (set_nth w (xz_xor b (nth w (track_g1 k w rec) pI)) rec)
        | _ => None
        end
    | TCNOT c t =>
        match bys with
        | [bc; bt] :: bys' =>
            let rec' := track_cnot c t rec in
            xz_record r bys' (set_nth t (xz_xor bt (nth t rec' pI)) (set_nth c (xz_xor bc (nth c rec' pI)) rec))
        | _ => None
        end
    | TP p w => xz_record r bys (set_nth w (xz_xor (pauli_to_xz p) (nth w rec pI)) rec)
    | TOther _ => None
    end
  end.

Definition max_wire (ops : list tgate) (mw : list nat) : nat :=
  fold_right Nat.max 0 (flat_map tg_wires ops ++ mw).

(* get_byproduct_corrections(tape, mid_meas, measurement_vals) together with the (x, z) record *)
Definition byproduct_corrections (ops : list tgate) (mw : list nat) (mid vals : list bool)
  : option (list bool * list bool * list bool) :=
  let n := S (max_wire ops mw) in
  match parse_mid ops (repeat 0 n) mid with
  | None => None
  | Some bys =>
    match xz_record ops bys (repeat pI n) with
    | None => None
    | Some rec =>
        let xs := map fst rec in
        Some (map (fun wv => xorb (snd wv) (nth (fst wv) xs false)) (combine mw vals), xs, map snd rec)
    end
  end.

(* ---- correspondence cases ---- *)
Fixpoint list_beq {A} (e : A -> A -> bool) (a b : list A) : bool :=
  match a, b with [] , [] => true | x :: r, y :: s => e x y && list_beq e r s | _, _ => false end.
Definition xz_beq (a b : xz) : bool := Bool.eqb (fst a) (fst b) && Bool.eqb (snd a) (snd b).
Definition opt_beq {A} (e : A -> A -> bool) (a b : option A) : bool :=
  match a, b with None, None => true | Some x, Some y => e x y | _, _ => false end.

Inductive case :=
| KCommute (c : cop) (l : list (list Z)) (expected : option (list xz))
| KProd (l : list (option pauli)) (expected : option xz)
| KToXZ (p : pauli) (expected : xz)
| KToPauli (x z : Z) (expected : option pauli)
| KByprod (ops : list tgate) (mw : list nat) (mid vals : list bool)
          (expected : option (list bool * list bool * list bool))
| KTrack (cs : list cgate) (F : frame) (expected : frame)
| KByprodPublic (ops : list tgate) (mw : list nat) (mid vals : list bool) (expected : option (list bool)).

Definition check_case (k : case) : bool :=
  match k with
  | KCommute c l e => opt_beq (list_beq xz_beq) (commute_clifford_op c l) e
  | KProd l e => opt_beq xz_beq (pauli_prod l) e
  | KToXZ p e => xz_beq (pauli_to_xz p) e
  | KToPauli x z e => opt_beq pauli_eqb (xz_to_pauli x z) e
  | KByprod ops mw mid vals e =>
      opt_beq (fun a b => list_beq Bool.eqb (fst (fst a)) (fst (fst b)) && list_beq Bool.eqb (snd (fst a)) (snd (fst b))
                          && list_beq Bool.eqb (snd a) (snd b))
              (byproduct_corrections ops mw mid vals) e
  | KTrack cs F e => list_beq xz_beq (track_circ cs F) e
  | KByprodPublic ops mw mid vals e =>
      opt_beq (list_beq Bool.eqb)
              (match byproduct_corrections ops mw mid vals with Some r => Some (fst (fst r)) | None => None end) e
  end.
