From Coq Require Import List ZArith QArith Bool Lia.
From PLV Require Import Disc.EqualModel Disc.RebindModel.
Import ListNotations.
Lemma placeholder6_true : true = true. Proof. reflexivity. Qed.
