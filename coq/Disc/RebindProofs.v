(* Lemmas about Disc/RebindModel.v (data leaves, flatten/unflatten, bind_new_parameters). *)
From Coq Require Import List ZArith QArith Bool Lia Arith.
From PLV Require Import Disc.EqualModel Disc.EqualProofs Disc.RebindModel.
Import ListNotations.

Definition shape (l : list leaf) : list nat := map (@length Q) l.
Definition oparams (o : Z * list Z * op) : list leaf := params_of (snd o).
Definition oerase (o : Z * list Z * op) : Z * list Z * op := (fst o, erase (snd o)).
Definition bfun : op -> list leaf -> option (op * list leaf) := fun x qs => bind_aux x qs.

Lemma same_len_true : forall p q, length p = length q -> same_len p q = true.
Proof. intros. unfold same_len. rewrite H. apply Nat.eqb_refl. Qed.

Lemma zero_leaf_length : forall p, length (zero_leaf p) = length p.
Proof. intros. unfold zero_leaf. apply map_length. Qed.

Lemma shape_zero : forall ps, shape (map zero_leaf ps) = shape ps.
Proof. intros. unfold shape. rewrite map_map. apply map_ext. intros. apply zero_leaf_length. Qed.

(* ------------------------------------------------------------------ take_leaves *)
Lemma take_leaves_app : forall old pre rest, shape pre = shape old -> take_leaves old (pre ++ rest) = Some (pre, rest).
Proof.
  induction old; destruct pre; simpl; intros; try discriminate; auto.
  injection H; intros Hs Hl. rewrite same_len_true by auto. rewrite IHold by auto. reflexivity.
Qed.

Lemma take_leaves_spec : forall old ps t rest, take_leaves old ps = Some (t, rest) -> ps = t ++ rest /\ shape t = shape old.
Proof.
  induction old; simpl; intros.
  - inversion H; subst. auto.
  - destruct ps; try discriminate. destruct (same_len a l) eqn:E; try discriminate.
    destruct (take_leaves old ps) as [[t' r']|] eqn:T; try discriminate. inversion H; subst.
    apply IHold in T. destruct T as [-> S]. split; auto. simpl. f_equal; auto.
    unfold same_len in E. apply Nat.eqb_eq in E. auto.
Qed.

(* ------------------------------------------------------------------ binding the own parameters is the identity *)
Lemma bind_list_id : forall ops rest,
  Forall (fun o => forall rest, bind_aux (snd o) (params_of (snd o) ++ rest) = Some (snd o, rest)) ops ->
  bind_list bfun ops (flat_map oparams ops ++ rest) = Some (ops, rest).
Proof.
  induction ops; simpl; intros; auto. inversion H; subst.
  unfold oparams at 1. rewrite <- app_assoc. unfold bfun at 1. rewrite H2. rewrite IHops by auto.
  destruct a as [[k w] x]. reflexivity.
Qed.

Lemma bind_aux_id : forall a rest, bind_aux a (params_of a ++ rest) = Some (a, rest).
Proof.
  induction a using op_ind2; intros; cbn [bind_aux params_of].
  - rewrite take_leaves_app by reflexivity. reflexivity.
  - rewrite IHa. reflexivity.
  - rewrite IHa. reflexivity.
  - rewrite IHa. reflexivity.
  - simpl. rewrite IHa. reflexivity.
  - simpl. rewrite IHa. reflexivity.
  - change (bind_list (fun x qs => bind_aux x qs)) with (bind_list bfun).
    change (flat_map (fun o : Z * list Z * op => params_of (snd o)) ops) with (flat_map oparams ops).
    rewrite bind_list_id by auto. reflexivity.
Qed.

Lemma bind_list_erase : forall ops rest,
  Forall (fun o => forall rest, bind_aux (erase (snd o)) (params_of (snd o) ++ rest) = Some (snd o, rest)) ops ->
  bind_list bfun (map oerase ops) (flat_map oparams ops ++ rest) = Some (ops, rest).
Proof.
  induction ops; simpl; intros; auto. inversion H; subst.
  unfold oparams at 1. rewrite <- app_assoc. unfold bfun at 1. rewrite H2. rewrite IHops by auto.
  destruct a as [[k w] x]. reflexivity.
Qed.

Lemma bind_aux_erase : forall a rest, bind_aux (erase a) (params_of a ++ rest) = Some (a, rest).
Proof.
  induction a using op_ind2; intros; cbn [bind_aux params_of erase].
  - rewrite take_leaves_app by (symmetry; apply shape_zero). reflexivity.
  - rewrite IHa. reflexivity.
  - rewrite IHa. reflexivity.
  - rewrite IHa. reflexivity.
  - simpl. rewrite IHa. reflexivity.
  - simpl. rewrite IHa. reflexivity.
  - change (bind_list (fun x qs => bind_aux x qs)) with (bind_list bfun).
    change (flat_map (fun o : Z * list Z * op => params_of (snd o)) ops) with (flat_map oparams ops).
    change (map (fun o : Z * list Z * op => (fst o, erase (snd o))) ops) with (map oerase ops).
    rewrite bind_list_erase by auto. reflexivity.
Qed.

Lemma bind_same : forall a, bind a (params_of a) = Some a.
Proof. intros. unfold bind. rewrite <- (app_nil_r (params_of a)). rewrite bind_aux_id. reflexivity. Qed.

Lemma unflatten_flatten_op : forall a, unflatten (flatten a) = Some a.
Proof.
  intros. unfold unflatten, flatten, bind. simpl. rewrite <- (app_nil_r (params_of a)).
  rewrite bind_aux_erase. reflexivity.
Qed.

Lemma round_trip_item : forall a, round_trip_model a = Some a.
Proof.
  intros [x | [k o w e u v]]; simpl.
  - rewrite unflatten_flatten_op. reflexivity.
  - destruct o as [a|]; simpl.
    + rewrite bind_aux_erase. destruct e as [x|]; simpl; auto.
      rewrite same_len_true by apply zero_leaf_length. reflexivity.
    + destruct e as [x|]; simpl; auto. rewrite same_len_true by apply zero_leaf_length. reflexivity.
Qed.

(* ------------------------------------------------------------------ bind replaces exactly the leaves *)
Lemma bind_list_sound : forall ops,
  Forall (fun o => forall ps a' rest, bind_aux (snd o) ps = Some (a', rest) ->
                   ps = params_of a' ++ rest /\ erase a' = erase (snd o)) ops ->
  forall ps ops' rest, bind_list bfun ops ps = Some (ops', rest) ->
  ps = flat_map oparams ops' ++ rest /\ map oerase ops' = map oerase ops /\ map fst ops' = map fst ops.
Proof.
  induction ops; simpl; intros.
  - inversion H0; subst. auto.
  - inversion H; subst. unfold bfun at 1 in H0.
    destruct (bind_aux (snd a) ps) as [[x' ps']|] eqn:B; try discriminate.
    destruct (bind_list bfun ops ps') as [[r' rest']|] eqn:L; try discriminate.
    inversion H0; subst. apply H3 in B. destruct B as [-> Ee].
    apply (IHops H4) in L. destruct L as [-> [Em Ef]]. simpl. unfold oparams at 1. simpl.
    rewrite app_assoc. split; auto. split; f_equal; auto. unfold oerase. simpl. f_equal. auto.
Qed.

Lemma bind_aux_sound : forall a ps a' rest, bind_aux a ps = Some (a', rest) ->
  ps = params_of a' ++ rest /\ erase a' = erase a.
Proof.
  induction a using op_ind2; intros qs a' rest B; cbn [bind_aux] in B.
  - destruct (take_leaves ps qs) as [[t r]|] eqn:T; try discriminate. inversion B; subst.
    apply take_leaves_spec in T. destruct T as [-> S]. split; auto. simpl. f_equal.
    clear - S. revert ps S. induction t; destruct ps; simpl; intros; try discriminate; auto.
    injection S; intros. f_equal; auto. unfold zero_leaf. clear - H0.
    revert l H0. induction a; destruct l; simpl; intros; try discriminate; auto. f_equal. auto.
  - destruct (bind_aux a qs) as [[b' r]|] eqn:E; try discriminate. inversion B; subst.
    apply IHa in E. destruct E as [-> Ee]. simpl. rewrite Ee. auto.
  - destruct (bind_aux a qs) as [[b' r]|] eqn:E; try discriminate. inversion B; subst.
    apply IHa in E. destruct E as [-> Ee]. simpl. rewrite Ee. auto.
  - destruct (bind_aux a qs) as [[b' r]|] eqn:E; try discriminate. inversion B; subst.
    apply IHa in E. destruct E as [-> Ee]. simpl. rewrite Ee. auto.
  - destruct qs as [|[|x [|]] qs']; simpl in B; try discriminate.
    destruct (bind_aux a qs') as [[b' r]|] eqn:E; try discriminate. inversion B; subst.
    apply IHa in E. destruct E as [-> Ee]. simpl. rewrite Ee. auto.
  - destruct qs as [|[|x [|]] qs']; simpl in B; try discriminate.
    destruct (bind_aux a qs') as [[b' r]|] eqn:E; try discriminate. inversion B; subst.
    apply IHa in E. destruct E as [-> Ee]. simpl. rewrite Ee. auto.
  - change (bind_list (fun x qs => bind_aux x qs)) with (bind_list bfun) in B.
    destruct (bind_list bfun ops qs) as [[ops' r]|] eqn:L; try discriminate. inversion B; subst.
    apply (bind_list_sound ops H) in L. destruct L as [-> [Em Ef]]. split; auto.
    simpl. f_equal. exact Em.
Qed.

Lemma bind_sound : forall a ps a', bind a ps = Some a' -> params_of a' = ps /\ erase a' = erase a.
Proof.
  intros a ps a' B. unfold bind in B. destruct (bind_aux a ps) as [[x r]|] eqn:E; try discriminate.
  destruct r; try discriminate. inversion B; subst. apply bind_aux_sound in E. destruct E as [-> Ee].
  rewrite app_nil_r. auto.
Qed.

(* ------------------------------------------------------------------ the shape guard *)
Lemma shape_app : forall a b, shape (a ++ b) = shape a ++ shape b.
Proof. intros. apply map_app. Qed.

Lemma shape_params_erase : forall a, shape (params_of (erase a)) = shape (params_of a).
Proof.
  induction a using op_ind2; simpl; auto.
  - apply shape_zero.
  - unfold shape in *. simpl. f_equal. auto.
  - unfold shape in *. simpl. f_equal. auto.
  - induction ops; simpl; auto. inversion H; subst. rewrite !shape_app. f_equal; auto.
Qed.

Lemma bind_list_complete : forall ops,
  Forall (fun o => forall pre rest, shape pre = shape (params_of (snd o)) ->
                   exists a', bind_aux (snd o) (pre ++ rest) = Some (a', rest)) ops ->
  forall pre rest, shape pre = shape (flat_map oparams ops) ->
  exists ops', bind_list bfun ops (pre ++ rest) = Some (ops', rest).
Proof.
  induction ops; simpl; intros.
  - destruct pre; try discriminate. simpl. eauto.
  - inversion H; subst. rewrite shape_app in H0. unfold shape in H0 at 1. apply map_eq_app in H0.
    destruct H0 as [p1 [p2 [-> [S1 S2]]]]. rewrite <- app_assoc. unfold bfun at 1. cbv beta.
    unfold leaf in *. destruct (H3 p1 (p2 ++ rest) S1) as [a' ->].
    destruct (IHops H4 p2 rest S2) as [r' ->]. eauto.
Qed.

Lemma bind_aux_complete : forall a pre rest, shape pre = shape (params_of a) ->
  exists a', bind_aux a (pre ++ rest) = Some (a', rest).
Proof.
  induction a using op_ind2; intros pre rest S; cbn [bind_aux]; cbn [params_of] in S.
  - rewrite take_leaves_app by auto. eauto.
  - destruct (IHa pre rest S) as [b' ->]. eauto.
  - destruct (IHa pre rest S) as [b' ->]. eauto.
  - destruct (IHa pre rest S) as [b' ->]. eauto.
  - destruct pre as [|[|x [|]] pre']; simpl in S; try discriminate. injection S; intro S'.
    simpl. destruct (IHa pre' rest S') as [b' ->]. eauto.
  - destruct pre as [|[|x [|]] pre']; simpl in S; try discriminate. injection S; intro S'.
    simpl. destruct (IHa pre' rest S') as [b' ->]. eauto.
  - change (bind_list (fun x qs => bind_aux x qs)) with (bind_list bfun).
    destruct (bind_list_complete ops H pre rest S) as [ops' ->]. eauto.
Qed.

Lemma bind_guard : forall a ps, bind a ps <> None <-> shape ps = shape (params_of a).
Proof.
  intros. split.
  - intro N. destruct (bind a ps) as [a'|] eqn:B; try congruence.
    apply bind_sound in B. destruct B as [<- E].
    rewrite <- (shape_params_erase a'), E. apply shape_params_erase.
  - intro S. destruct (bind_aux_complete a ps [] S) as [a' B]. unfold bind.
    rewrite app_nil_r in B. rewrite B. discriminate.
Qed.
