(* Model of the ContextVar-based decomposition registries of
   pennylane/decomposition/decomposition_rule.py:
     _decompositions_var / _fixed_decomps_var, local_decomps, add_decomps, _fix_decomp,
     get_fixed_decomp, list_decomps (and DecompCollection.extend / copy / append).
   No proofs here: this file must keep running for the correspondence check even when a proof
   elsewhere breaks.

   Python objects are modelled by a heap: an address is a natural number, address 0 is the pair of
   module-level objects (_decompositions_private, _fixed_decomps_private) which are the DEFAULT value
   of the two ContextVars.  A heap cell of `hd` holds a whole "dict of DecompCollections"
   (operator name -> ordered list of rule tags; a missing key and an empty collection are the same
   observable, as with the defaultdict), a heap cell of `hf` holds a "dict of fixed rules".
   Every thread has its own ContextVar context: the current value of the two variables (an address;
   a new thread starts with the default = 0) and the stack of tokens held by the running
   `local_decomps` generator frames (a token remembers the value before the `set`).
   Sharing is possible in this model (several threads hold address 0, and nothing in the type of
   `state` prevents two threads from holding the same address); isolation is a THEOREM
   (CtxRegistryProofs.v), not built in. *)
From Coq Require Import List ZArith Bool Arith.
Import ListNotations.

Definition dmap := Z -> list Z.          (* op name -> rules of its DecompCollection, in order *)
Definition fmap := Z -> option Z.        (* op name -> fixed rule *)

Definition updN {A} (f : nat -> A) (k : nat) (v : A) : nat -> A :=
  fun j => if Nat.eqb j k then v else f j.
Definition updZ {A} (f : Z -> A) (k : Z) (v : A) : Z -> A :=
  fun j => if Z.eqb j k then v else f j.

Definition memZ (r : Z) (l : list Z) : bool := existsb (Z.eqb r) l.
Fixpoint has_dup (l : list Z) : bool :=
  match l with [] => false | x :: r => memZ x r || has_dup r end.

(* DecompCollection.extend(rules), called by add_decomps on collection `m op`:
     - a rule whose name is already in the collection        -> ValueError, nothing changed
     - DecompCollection(rules) finds two equal names in rules -> ValueError, nothing changed
     - otherwise  self._decomps |= new   (existing order kept, new rules appended in order) *)
Definition add_ok (m : dmap) (op : Z) (rs : list Z) : bool :=
  negb (existsb (fun r => memZ r (m op)) rs) && negb (has_dup rs).
Definition add_d (m : dmap) (op : Z) (rs : list Z) : dmap :=
  if add_ok m op rs then updZ m op (m op ++ rs) else m.

(* _fix_decomp: dict item assignment *)
Definition fix_f (m : fmap) (op r : Z) : fmap := updZ m op (Some r).

(* per-thread ContextVar context + the tokens held by the open `with local_decomps()` blocks *)
Record tstate := mkT { curd : nat; curf : nat; toks : list (nat * nat) }.

Record state := mkS {
  hd : nat -> dmap;       (* heap of "all decompositions" dicts *)
  hf : nat -> fmap;       (* heap of "fixed decompositions" dicts *)
  next : nat;             (* next fresh address (object identity) *)
  thr : nat -> tstate     (* thread id -> its context *)
}.

Inductive action :=
| AEnter                         (* with local_decomps():  __enter__ *)
| AExit                          (* normal exit of the with block (finally: reset, reset) *)
| AExitExn                       (* the body raises; finally: reset, reset; exception propagates *)
| AAdd (op : Z) (rs : list Z)    (* add_decomps(op, *rs) *)
| AFix (op r : Z)                (* _fix_decomp(op, r) *)
| AList (op : Z)                 (* list_decomps(op), result dropped *)
| AListMut (op r : Z).           (* c = list_decomps(op); c.append(r) *)

Definition init_state (d0 : dmap) (f0 : fmap) : state :=
  mkS (fun _ => d0) (fun _ => f0) 1 (fun _ => mkT 0 0 []).

(* get_fixed_decomp / list_decomps as seen by thread t:
     if fixed_rule := _fixed_decomps_var.get().get(name): return DecompCollection([fixed_rule])
     return _decompositions_var.get()[name].copy() *)
Definition view_reg (d : dmap) (f : fmap) (op : Z) : list Z :=
  match f op with Some r => [r] | None => d op end.
Definition view (st : state) (t : nat) (op : Z) : list Z :=
  view_reg (hd st (curd (thr st t))) (hf st (curf (thr st t))) op.

Definition step (st : state) (x : nat * action) : state :=
  let t := fst x in
  let ts := thr st t in
  match snd x with
  | AEnter =>
      (* current_decomps = {k: v.copy() ...}; token = var.set(new dict)   -- a NEW object holding a copy
         _new_fixed = var.get().copy(); token = var.set(_new_fixed) *)
      let n := next st in
      mkS (updN (hd st) n (hd st (curd ts))) (updN (hf st) n (hf st (curf ts))) (S n)
          (updN (thr st) t (mkT n n ((curd ts, curf ts) :: toks ts)))
  | AExit | AExitExn =>
      (* finally: var.reset(token) for both variables; Python's `with` makes this the innermost
         open block of the thread.  No open block: not expressible in Python, modelled as a no-op. *)
      match toks ts with
      | [] => st
      | (d, f) :: r => mkS (hd st) (hf st) (next st) (updN (thr st) t (mkT d f r))
      end
  | AAdd op rs =>
      (* _decompositions_var.get()[name].extend(decomps) : mutates the object the thread sees *)
      mkS (updN (hd st) (curd ts) (add_d (hd st (curd ts)) op rs)) (hf st) (next st) (thr st)
  | AFix op r =>
      mkS (hd st) (updN (hf st) (curf ts) (fix_f (hf st (curf ts)) op r)) (next st) (thr st)
  | AList _ => st
  | AListMut _ _ => st            (* only the returned copy is mutated *)
  end.

(* does the call complete without raising?  (AAdd: extend; AListMut: append on the copy) *)
Definition step_ok (st : state) (x : nat * action) : bool :=
  let t := fst x in
  match snd x with
  | AAdd op rs => add_ok (hd st (curd (thr st t))) op rs
  | AListMut op r => negb (memZ r (view st t op))
  | _ => true
  end.

Definition run_from (st : state) (s : list (nat * action)) : state := fold_left step s st.
Definition run (d0 : dmap) (f0 : fmap) (s : list (nat * action)) : state :=
  run_from (init_state d0 f0) s.

Definition depth (st : state) (t : nat) : nat := length (toks (thr st t)).

(* ---------------- correspondence interface ---------------- *)
Definition observe (st : state) (nthreads : nat) (ops : list Z) : list (list (list Z)) :=
  map (fun t => map (view st t) ops) (seq 0 nthreads).

Fixpoint trace (st : state) (nthreads : nat) (ops : list Z) (s : list (nat * action))
  : list (bool * list (list (list Z))) :=
  match s with
  | [] => []
  | x :: r => let st' := step st x in
              (step_ok st x, observe st' nthreads ops) :: trace st' nthreads ops r
  end.

Fixpoint assocD (l : list (Z * list Z)) : dmap :=
  match l with [] => fun _ => [] | (k, v) :: r => updZ (assocD r) k v end.
Fixpoint assocF (l : list (Z * Z)) : fmap :=
  match l with [] => fun _ => None | (k, v) :: r => updZ (assocF r) k (Some v) end.

(* a case: number of threads, op universe, initial global registries (as observed on the
   implementation before the schedule starts), the schedule *)
Definition case_in := (nat * list Z * list (Z * list Z) * list (Z * Z) * list (nat * action))%type.
(* expected: views of all threads before the first step, then (ok flag, views of all threads) after
   every step, then what the main thread (no local context, address 0) lists after all workers ended *)
Definition case_out := (list (list (list Z)) * list (bool * list (list (list Z))) * list (list Z))%type.

Definition run_case (c : case_in) : case_out :=
  match c with
  | (n, ops, d0, f0, s) =>
      let st0 := init_state (assocD d0) (assocF f0) in
      let stN := run_from st0 s in
      (observe st0 n ops, trace st0 n ops s,
       map (view_reg (hd stN 0) (hf stN 0)) ops)
  end.

Fixpoint eq_lz (a b : list Z) : bool :=
  match a, b with [], [] => true | x :: r, y :: s => Z.eqb x y && eq_lz r s | _, _ => false end.
Fixpoint eq_list {A} (e : A -> A -> bool) (a b : list A) : bool :=
  match a, b with [], [] => true | x :: r, y :: s => e x y && eq_list e r s | _, _ => false end.
Definition eq_obs := eq_list (eq_list eq_lz).
Definition eq_row (a b : bool * list (list (list Z))) : bool :=
  Bool.eqb (fst a) (fst b) && eq_obs (snd a) (snd b).

Definition eq_out (a b : case_out) : bool :=
  match a, b with
  | (i, tr, g), (i', tr', g') => eq_obs i i' && eq_list eq_row tr tr' && eq_list eq_lz g g'
  end.

Definition check_case (c : case_in * case_out) : bool := eq_out (run_case (fst c)) (snd c).

(* index of the first step whose row differs (for diagnostics only) *)
Fixpoint first_diff (a b : list (bool * list (list (list Z)))) (i : nat) : option nat :=
  match a, b with
  | [], [] => None
  | x :: r, y :: s => if eq_row x y then first_diff r s (S i) else Some i
  | _, _ => Some i
  end.
