(* C20: model of measurement splitting (split_to_single_terms / split_non_commuting and their
   post-processing functions) and of broadcast_expand / batch_params / batch_input, over Q.
   Transcribes pennylane/transforms/split_non_commuting.py:
     _split_all_multi_term_obs_mps, _processing_fn_no_grouping, _processing_fn_with_grouping,
     _sum_terms, _split_using_qwc_grouping (grouping = recorded index partition),
   and pennylane/transforms/broadcast_expand.py: _split_operations + processing_fn.
   Definitions only (no proofs here). *)
From Coq Require Import List ZArith QArith Bool.
Import ListNotations.

(* ---------------------------------------------------------------- data *)
(* Pauli word: list of (wire, letter); letters 1,2,3 = X,Y,Z; 0 = computational basis (wires only),
   4 = identity kept on a non-split measurement, >= 10 opaque (Hermitian / Projector) *)
Definition word := list (Z * Z).
(* key of a single-term measurement process: kind (0 expval, 1 var, 2 probs, 3 sample, 4 counts),
   scalar num/den (normalised), word.  Stands for MeasurementProcess.__eq__/__hash__ *)
Definition key := (Z * Z * Z * word)%type.

Fixpoint word_eqb (a b : word) : bool :=
  match a, b with
  | [], [] => true
  | (w, l) :: a', (w', l') :: b' => Z.eqb w w' && Z.eqb l l' && word_eqb a' b'
  | _, _ => false
  end.

Definition key_eqb (a b : key) : bool :=
  let '(k, n, dn, w) := a in let '(k', n', dn', w') := b in
  Z.eqb k k' && Z.eqb n n' && Z.eqb dn dn' && word_eqb w w'.

Definition exp_key (w : word) : key := (0%Z, 1%Z, 1%Z, w).

(* one term of obs.terms(): coefficient, "isinstance(o, Identity)", word of o *)
Definition term := (Q * bool * word)%type.

Inductive meas :=
| MComp (kind : Z) (ts : list term) (simp_sum : bool) (k : key)  (* obs is Sum / Prod / SProd *)
| MIdent (kind : Z) (k : key)                                    (* obs is an Identity instance *)
| MOther (kind : Z) (k : key).                                   (* any other obs, or wires only *)

(* single_term_obs_mps: insertion-ordered dict  key -> (indices, coeffs) (two parallel lists, zipped) *)
Definition dict := list (key * list (nat * Q)).

Fixpoint dict_add (d : dict) (k : key) (i : nat) (c : Q) : dict :=
  match d with
  | [] => [(k, [(i, c)])]
  | (k', l) :: r => if key_eqb k k' then (k', l ++ [(i, c)]) :: r else (k', l) :: dict_add r k i c
  end.

(* inner loop over the zipped obs.terms() *)
Fixpoint split_terms (d : dict) (off : Q) (i : nat) (ts : list term) : dict * Q :=
  match ts with
  | [] => (d, off)
  | (c, isI, w) :: r =>
      if isI then split_terms d (off + c) i r
      else split_terms (dict_add d (exp_key w) i c) off i r
  end.

(* one iteration of the loop over tape.measurements; None = RuntimeError *)
Definition split_one (d : dict) (i : nat) (m : meas) : option (dict * Q) :=
  match m with
  | MComp kind ts simp k =>
      if Z.eqb kind 0 then Some (split_terms d 0 i ts)
      else if simp then None else Some (dict_add d k i 1, 0)
  | MIdent kind k =>
      if Z.eqb kind 0 then Some (d, 0 + 1) else Some (dict_add d k i 1, 0)
  | MOther kind k => Some (dict_add d k i 1, 0)
  end.

Fixpoint split_all (d : dict) (i : nat) (ms : list meas) : option (dict * list Q) :=
  match ms with
  | [] => Some (d, [])
  | m :: r =>
      match split_one d i m with
      | None => None
      | Some (d', off) =>
          match split_all d' (S i) r with
          | None => None
          | Some (d'', offs) => Some (d'', off :: offs)
          end
      end
  end.

Definition keys (d : dict) : list key := map fst d.

(* ---------------------------------------------------------------- post-processing *)
(* a "push": res_batch_for_each_mp[mp_idx].append(sub_res); coeffs_for_each_mp[mp_idx].append(coeff) *)
Definition push := (nat * Q * Q)%type.

Definition entry_pushes (l : list (nat * Q)) (v : Q) : list push := map (fun ic => (fst ic, snd ic, v)) l.

(* _processing_fn_no_grouping: enumerate(single_term_obs_mps.items()) with res[smp_idx] *)
Fixpoint pushes_nogroup (d : dict) (res : list Q) : option (list push) :=
  match d, res with
  | [], _ => Some []
  | (k, l) :: r, v :: res' =>
      match pushes_nogroup r res' with
      | Some ps => Some (entry_pushes l v ++ ps)
      | None => None
      end
  | _ :: _, [] => None                      (* IndexError *)
  end.

Definition bucket (j : nat) (ps : list push) : list (Q * Q) :=
  map (fun p => (snd (fst p), snd p)) (filter (fun p => Nat.eqb (fst (fst p)) j) ps).

Fixpoint dotsum (cr : list (Q * Q)) : Q :=
  match cr with [] => 0 | (c, r) :: t => c * r + dotsum t end.

(* _sum_terms *)
Definition sum_terms (cr : list (Q * Q)) (off : Q) : Q :=
  match cr with
  | [] => off                                               (* ones(shape) * offset *)
  | [(c, r)] => if Qeq_bool c 1 && Qeq_bool off 0 then r    (* coeffs == [1] and offset == 0 *)
                else dotsum cr + off
  | _ => dotsum cr + off
  end.

(* res_for_each_mp: zip(res_batch_for_each_mp, coeffs_for_each_mp, offsets) *)
Fixpoint reasm (ps : list push) (j : nat) (offs : list Q) : list Q :=
  match offs with
  | [] => []
  | off :: r => sum_terms (bucket j ps) off :: reasm ps (S j) r
  end.

Definition reassemble_nogroup (d : dict) (res : list Q) (offs : list Q) : option (list Q) :=
  match pushes_nogroup d res with
  | Some ps => Some (reasm ps 0 offs)
  | None => None
  end.

(* grouping: SingleTermMP(indices, coeffs, group_idx, idx_in_group) *)
Definition gentry := (key * list (nat * Q) * nat * nat)%type.

(* result of one tape: squeezed scalar when the tape has one measurement *)
Inductive gres := GS (v : Q) | GT (l : list Q).

Definition glookup (res : list gres) (sizes : list nat) (g j : nat) : option Q :=
  match nth_error res g, nth_error sizes g with
  | Some rg, Some sz =>
      if Nat.eqb sz 1 then match rg with GS v => Some v | GT _ => None end
      else match rg with GT l => nth_error l j | GS _ => None end
  | _, _ => None
  end.

(* _processing_fn_with_grouping *)
Fixpoint pushes_grouped (res : list gres) (sizes : list nat) (es : list gentry) : option (list push) :=
  match es with
  | [] => Some []
  | (k, l, g, j) :: r =>
      match glookup res sizes g j, pushes_grouped res sizes r with
      | Some v, Some ps => Some (entry_pushes l v ++ ps)
      | _, _ => None
      end
  end.

Definition reassemble_grouped (es : list gentry) (res : list gres) (sizes : list nat) (offs : list Q) : option (list Q) :=
  match pushes_grouped res sizes es with
  | Some ps => Some (reasm ps 0 offs)
  | None => None
  end.

(* _split_using_qwc_grouping: index_groups (partition of range(len(measurements))) -> grouped dict *)
Fixpoint ge_group (d : dict) (g j : nat) (idxs : list nat) : list gentry :=
  match idxs with
  | [] => []
  | x :: r =>
      match nth_error d x with
      | Some (k, l) => (k, l, g, j) :: ge_group d g (S j) r
      | None => ge_group d g (S j) r
      end
  end.

Fixpoint ge_all (d : dict) (g : nat) (ig : list (list nat)) : list gentry :=
  match ig with
  | [] => []
  | idxs :: r => ge_group d g 0 idxs ++ ge_all d (S g) r
  end.

Definition key_at (d : dict) (x : nat) : key :=
  match nth_error d x with Some (k, _) => k | None => exp_key [] end.

Definition group_keys (d : dict) (ig : list (list nat)) : list (list key) := map (map (key_at d)) ig.

(* executing the tapes with an executor E *)
Definition mk_gres (l : list Q) : gres := match l with [v] => GS v | _ => GT l end.
Definition exec_groups (E : key -> Q) (gk : list (list key)) : list gres := map (fun g => mk_gres (map E g)) gk.

(* the value of an ORIGINAL measurement under E (E extended linearly, E(I) = 1) *)
Fixpoint eval_terms (E : key -> Q) (ts : list term) : Q :=
  match ts with
  | [] => 0
  | (c, isI, w) :: r => (if isI then c else c * E (exp_key w)) + eval_terms E r
  end.

Definition evalm (E : key -> Q) (m : meas) : Q :=
  match m with
  | MComp kind ts _ k => if Z.eqb kind 0 then eval_terms E ts else E k
  | MIdent kind k => if Z.eqb kind 0 then 1 else E k
  | MOther _ k => E k
  end.

Definition rejected (m : meas) : bool :=
  match m with MComp kind _ simp _ => negb (Z.eqb kind 0) && simp | _ => false end.

(* ---------------------------------------------------------------- correspondence (tie K) *)
Fixpoint lookup_tab (tab : list (key * Q)) (k : key) : Q :=
  match tab with [] => 0 | (k', v) :: r => if key_eqb k k' then v else lookup_tab r k end.

Fixpoint index_of (k : key) (l : list key) (i : nat) : option nat :=
  match l with [] => None | x :: r => if key_eqb k x then Some i else index_of k r (S i) end.

Fixpoint opt_all {A} (l : list (option A)) : option (list A) :=
  match l with
  | [] => Some []
  | None :: _ => None
  | Some x :: r => match opt_all r with Some xs => Some (x :: xs) | None => None end
  end.

Definition index_groups_of (d : dict) (tapes : list (list key)) : option (list (list nat)) :=
  opt_all (map (fun g => opt_all (map (fun k => index_of k (keys d) 0) g)) tapes).

Definition count_nat (x : nat) (l : list nat) : nat := length (filter (Nat.eqb x) l).

Definition is_partition (ig : list (list nat)) (n : nat) : bool :=
  Nat.eqb (length (concat ig)) n && forallb (fun x => Nat.eqb (count_nat x (concat ig)) 1) (seq 0 n).

Fixpoint keys_eqb (a b : list key) : bool :=
  match a, b with [], [] => true | x :: a', y :: b' => key_eqb x y && keys_eqb a' b' | _, _ => false end.
Fixpoint tapes_eqb (a b : list (list key)) : bool :=
  match a, b with [], [] => true | x :: a', y :: b' => keys_eqb x y && tapes_eqb a' b' | _, _ => false end.
Fixpoint qs_eqb (a b : list Q) : bool :=
  match a, b with [], [] => true | x :: a', y :: b' => Qeq_bool x y && qs_eqb a' b' | _, _ => false end.

(* mode: 0 = split_to_single_terms (one tape), 1 = grouping_strategy None (one tape per key),
   2 = grouped (recorded tapes define the partition).  observed = (tapes, results); None = raised *)
Definition check_case (c : list meas * Z * list (key * Q) * option (list (list key) * list Q)) : bool :=
  let '(ms, mode, tab, obs) := c in
  let E := lookup_tab tab in
  match split_all [] 0 ms, obs with
  | None, None => true
  | None, Some _ => false
  | Some _, None => false
  | Some (d, offs), Some (tapes, results) =>
      if Z.eqb mode 0 then
        tapes_eqb tapes [keys d] &&
        match reassemble_nogroup d (map E (keys d)) offs with Some v => qs_eqb v results | None => false end
      else if Z.eqb mode 1 then
        tapes_eqb tapes (map (fun k => [k]) (keys d)) &&
        match reassemble_nogroup d (map E (keys d)) offs with Some v => qs_eqb v results | None => false end
      else
        match index_groups_of d tapes with
        | None => false
        | Some ig =>
            is_partition ig (length d) && negb (existsb (fun g => Nat.eqb (length g) 0) ig) &&
            match reassemble_grouped (ge_all d 0 ig) (exec_groups E (group_keys d ig)) (map (@length nat) ig) offs with
            | Some v => qs_eqb v results
            | None => false
            end &&
            (* any grouping gives what no grouping gives (theorem grouped_same, re-evaluated) *)
            match reassemble_nogroup d (map E (keys d)) offs with Some v => qs_eqb v results | None => false end
        end
  end.

(* ---------------------------------------------------------------- broadcast_expand / batch_params / batch_input *)
Inductive param := PS (v : Q) | PB (vs : list Q).     (* unbatched / batched along the first axis *)
Definition bop := (Z * list param)%type.               (* operator id, data *)
Definition sop := (Z * list Q)%type.                   (* operator with unbatched data *)

Definition slice_param (b : nat) (p : param) : Q := match p with PS v => v | PB vs => nth b vs 0 end.
Definition slice_op (b : nat) (o : bop) : sop := (fst o, map (slice_param b) (snd o)).

(* _split_operations: new_ops = [[] for _ in range(B)]; for op in ops: for b in range(B): new_ops[b].append(op_b) *)
Definition append_op (acc : list (list sop)) (o : bop) : list (list sop) :=
  map (fun bl => snd bl ++ [slice_op (fst bl) o]) (combine (seq 0 (length acc)) acc).

Definition split_operations (ops : list bop) (B : nat) : list (list sop) :=
  fold_left append_op ops (repeat [] B).

(* processing_fn: results[b][m] -> results[m][b] (stack along the batch axis, order of b preserved) *)
Definition restack {R} (def : R) (nmeas : nat) (results : list (list R)) : list (list R) :=
  map (fun m => map (fun r => nth m r def) results) (seq 0 nmeas).

Definition bcheck (c : list bop * nat * list (list sop)) : bool :=
  let '(ops, B, tapes) := c in
  let model := split_operations ops B in
  Nat.eqb (length model) (length tapes) &&
  forallb (fun mt =>
    Nat.eqb (length (fst mt)) (length (snd mt)) &&
    forallb (fun ab => Z.eqb (fst (fst ab)) (fst (snd ab)) && qs_eqb (snd (fst ab)) (snd (snd ab)))
            (combine (fst mt) (snd mt)))
    (combine model tapes).
