(* Model of pennylane/core/shots.py (class Shots).  No proofs here: this file must keep running
   for the correspondence check even when a proof elsewhere breaks. *)
From Coq Require Import List ZArith Bool.
Import ListNotations.
Open Scope Z_scope.

(* ---- raw specifications, as a user may write them ---- *)
Inductive item :=
| IInt (z : Z)              (* a Python int *)
| IPair (s c : Z)           (* a 2-sequence of Python ints *)
| IBad.                     (* anything else: float, str, 3-tuple, nested ... *)

Inductive spec :=
| SNone
| SInt (z : Z)
| SSeq (l : list item)
| SBad.                     (* float, str ... *)

Record shots := mkShots { total : option Z; vec : list (Z * Z) }.

Definition valid_int (z : Z) : bool := 0 <? z.
Definition valid_item (i : item) : bool :=
  match i with IInt z => valid_int z | IPair s c => valid_int s && valid_int c | IBad => false end.
Definition to_pair (i : item) : Z * Z :=
  match i with IInt z => (z, 1) | IPair s c => (s, c) | IBad => (0, 0) end.

(* __all_tuple_init__ : the running (current_shots, current_copies) accumulator loop *)
Fixpoint ati_loop (cur : Z * Z) (rest : list (Z * Z)) : list (Z * Z) :=
  match rest with
  | [] => [cur]
  | s :: r => if fst s =? fst cur then ati_loop (fst cur, snd cur + snd s) r
              else cur :: ati_loop s r
  end.

Definition sum_total (v : list (Z * Z)) : Z := fold_right (fun p a => fst p * snd p + a) 0 v.

Definition all_tuple_init (l : list (Z * Z)) : option shots :=
  match l with
  | [] => None                                  (* shots[0] raises IndexError *)
  | c :: r => let v := ati_loop c r in Some (mkShots (Some (sum_total v)) v)
  end.

(* Shots(spec): None = an exception is raised *)
Definition mk (s : spec) : option shots :=
  match s with
  | SNone => Some (mkShots None [])
  | SInt z => if z <? 1 then None else Some (mkShots (Some z) [(z, 1)])
  | SSeq l => if forallb valid_item l then all_tuple_init (map to_pair l) else None
  | SBad => None
  end.

(* ---- observers ---- *)
Fixpoint repeatZ (x : Z) (n : nat) : list Z := match n with O => [] | S k => x :: repeatZ x k end.

(* __iter__ : nested loops over shot_vector and range(copies) *)
Definition iter (sh : shots) : list Z := flat_map (fun p => repeatZ (fst p) (Z.to_nat (snd p))) (vec sh).

(* the abstraction every statement of the property refers to: the expanded list of shot counts *)
Definition expand_pairs (l : list (Z * Z)) : list Z := flat_map (fun p => repeatZ (fst p) (Z.to_nat (snd p))) l.

Definition num_copies (sh : shots) : Z := fold_right (fun p a => snd p + a) 0 (vec sh).

Definition has_partitioned (sh : shots) : bool :=
  match total sh with
  | None => false
  | Some _ => (1 <? Z.of_nat (length (vec sh))) || match vec sh with p :: _ => 1 <? snd p | [] => false end
  end.

(* bins(): lower/upper bounds, running lower_bound *)
Fixpoint bins_from (lb : Z) (l : list Z) : list (Z * Z) :=
  match l with [] => [] | s :: r => (lb, lb + s) :: bins_from (lb + s) r end.
Definition bins (sh : shots) : list (Z * Z) := bins_from 0 (iter sh).

(* __add__ *)
Definition add (a b : shots) : option shots :=
  match total a, total b with
  | None, _ => Some b
  | _, None => Some a
  | _, _ => mk (SSeq (map (fun p => IPair (fst p) (snd p)) (vec a ++ vec b)))
  end.

(* __mul__ with a scalar p/q (q > 0; ints have q = 1; floats are modelled as exact dyadic rationals):
   int(shots * scalar) truncates toward zero *)
Definition scale (p q s : Z) : Z := Z.quot (s * p) q.
Definition mul (a : shots) (p q : Z) : option shots :=
  match total a with
  | None => Some a
  | Some _ => mk (SSeq (map (fun sc => IPair (scale p q (fst sc)) (snd sc)) (vec a)))
  end.

(* ---- canonical printing for the correspondence check ---- *)
Definition observe (o : option shots) : option (option Z * list (Z * Z) * list Z * list (Z * Z) * bool * Z) :=
  match o with
  | None => None
  | Some sh => Some (total sh, vec sh, iter sh, bins sh, has_partitioned sh, num_copies sh)
  end.

Definition eq_oz (a b : option Z) := match a, b with None, None => true | Some x, Some y => x =? y | _, _ => false end.
Fixpoint eq_lz (a b : list Z) := match a, b with [], [] => true | x :: r, y :: s => (x =? y) && eq_lz r s | _, _ => false end.
Fixpoint eq_lzz (a b : list (Z * Z)) :=
  match a, b with [], [] => true
  | (x, x') :: r, (y, y') :: s => (x =? y) && (x' =? y') && eq_lzz r s | _, _ => false end.
Definition eq_obs (a b : option (option Z * list (Z * Z) * list Z * list (Z * Z) * bool * Z)) : bool :=
  match a, b with
  | None, None => true
  | Some (t, v, i, bn, h, n), Some (t', v', i', bn', h', n') =>
      eq_oz t t' && eq_lzz v v' && eq_lz i i' && eq_lzz bn bn' && Bool.eqb h h' && (n =? n')
  | _, _ => false
  end.

(* operations exercised by the correspondence check *)
Inductive opcase :=
| OMk (s : spec)
| OAdd (a b : spec)
| OMul (a : spec) (p q : Z).

Definition run (c : opcase) : option (option Z * list (Z * Z) * list Z * list (Z * Z) * bool * Z) :=
  match c with
  | OMk s => observe (mk s)
  | OAdd a b => match mk a, mk b with Some x, Some y => observe (add x y) | _, _ => None end
  | OMul a p q => match mk a with Some x => observe (mul x p q) | None => None end
  end.

Definition check_case (c : opcase * option (option Z * list (Z * Z) * list Z * list (Z * Z) * bool * Z)) : bool :=
  eq_obs (run (fst c)) (snd c).
