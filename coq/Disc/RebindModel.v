(* Model of the parameter codec of operators: the data/"leaves" view (Operator.data, CompositeOp.data,
   ScalarSymbolicOp.data, SymbolicOp.data), flatten/unflatten as a pytree whose leaves are the numeric
   parameters in data order and whose metadata is everything else, and
   pennylane/ops/functions/bind_new_parameters.py on the AST of Disc/EqualModel.v:
     Plain  : the class is called again with the new params, the wires and the hyperparameters (all leaves replaced)
     Ctrl / PowO / Adj : rebuild around bind(base, params)                   (control values, exponent kept)
     SProdO / ExpO     : params[0] is the new scalar, the rest goes to the base
     Comp   : each operand takes len(operand.data) parameters, in operand order (ChangeOpBasis
              operands are stored and bound in the same order)
   A leaf is the flattened array of one parameter; scalars are one-element leaves.  The control-value
   pseudo parameter that MultiControlledX / ControlledQubitUnitary expose in .data is metadata here (the
   harness strips it and passes it through unchanged).
   No proofs in this file. *)
From Coq Require Import List ZArith QArith Bool.
From PLV Require Import Disc.EqualModel.
Import ListNotations.
Open Scope Z_scope.

Definition leaf := list Q.

(* ------------------------------------------------------------------ data view *)
Fixpoint params_of (a : op) : list leaf :=
  match a with
  | Plain _ ps _ _ => ps
  | Ctrl _ b _ _ _ _ => params_of b
  | PowO _ _ b => params_of b
  | Adj _ b => params_of b
  | SProdO s _ _ b => [s] :: params_of b
  | ExpO _ c _ b => [c] :: params_of b
  | Comp _ _ _ ops => flat_map (fun o : Z * list Z * op => params_of (snd o)) ops
  end.

(* metadata = the AST with every numeric leaf zeroed (shapes kept) *)
Definition zero_leaf (p : leaf) : leaf := map (fun _ => 0%Q) p.
Fixpoint erase (a : op) : op :=
  match a with
  | Plain n ps w h => Plain n (map zero_leaf ps) w h
  | Ctrl n b cw cv ww wt => Ctrl n (erase b) cw cv ww wt
  | PowO n z b => PowO n z (erase b)
  | Adj n b => Adj n (erase b)
  | SProdO s k p b => SProdO 0%Q k p (erase b)
  | ExpO n c k b => ExpO n 0%Q k (erase b)
  | Comp n k p ops => Comp n k p (map (fun o : Z * list Z * op => (fst o, erase (snd o))) ops)
  end.

(* ------------------------------------------------------------------ bind_new_parameters *)
Definition same_len (p q : leaf) : bool := (length p =? length q)%nat.

(* take the first k leaves, which must have the shapes of the old ones *)
Fixpoint take_leaves (old : list leaf) (ps : list leaf) : option (list leaf * list leaf) :=
  match old with
  | [] => Some ([], ps)
  | o :: old' =>
      match ps with
      | [] => None
      | p :: ps' =>
          if same_len o p then
            match take_leaves old' ps' with
            | Some (t, rest) => Some (p :: t, rest)
            | None => None
            end
          else None
      end
  end.

Definition take_scalar (ps : list leaf) : option (Q * list leaf) :=
  match ps with
  | [x] :: rest => Some (x, rest)
  | _ => None
  end.

(* operands are rebound left to right, each consuming its own parameters *)
Section BindList.
Variable f : op -> list leaf -> option (op * list leaf).
Fixpoint bind_list (l : list (Z * list Z * op)) (ps : list leaf) {struct l}
  : option (list (Z * list Z * op) * list leaf) :=
  match l with
  | [] => Some ([], ps)
  | o :: r =>
      match f (snd o) ps with
      | Some (x', ps') =>
          match bind_list r ps' with
          | Some (r', rest) => Some ((fst o, x') :: r', rest)
          | None => None
          end
      | None => None
      end
  end.
End BindList.

(* returns the rebuilt operator and the parameters not consumed *)
Fixpoint bind_aux (a : op) (ps : list leaf) {struct a} : option (op * list leaf) :=
  match a with
  | Plain n old w h =>
      match take_leaves old ps with
      | Some (t, rest) => Some (Plain n t w h, rest)
      | None => None
      end
  | Ctrl n b cw cv ww wt =>
      match bind_aux b ps with Some (b', rest) => Some (Ctrl n b' cw cv ww wt, rest) | None => None end
  | PowO n z b =>
      match bind_aux b ps with Some (b', rest) => Some (PowO n z b', rest) | None => None end
  | Adj n b =>
      match bind_aux b ps with Some (b', rest) => Some (Adj n b', rest) | None => None end
  | SProdO _ k p b =>
      match take_scalar ps with
      | Some (s', ps') =>
          match bind_aux b ps' with Some (b', rest) => Some (SProdO s' k p b', rest) | None => None end
      | None => None
      end
  | ExpO n _ k b =>
      match take_scalar ps with
      | Some (c', ps') =>
          match bind_aux b ps' with Some (b', rest) => Some (ExpO n c' k b', rest) | None => None end
      | None => None
      end
  | Comp n k p ops =>
      match bind_list (fun x qs => bind_aux x qs) ops ps with
      | Some (ops', rest) => Some (Comp n k p ops', rest)
      | None => None
      end
  end.

(* the length guard: every parameter must be consumed *)
Definition bind (a : op) (ps : list leaf) : option op :=
  match bind_aux a ps with
  | Some (a', []) => Some a'
  | _ => None
  end.

(* pytree view *)
Definition flatten (a : op) : list leaf * op := (params_of a, erase a).
Definition unflatten (lm : list leaf * op) : option op := bind (snd lm) (fst lm).

(* measurement processes: leaves = leaves of the observable, then the eigenvalue array *)
Definition mp_leaves (m : mp) : list leaf :=
  match m with
  | MP _ o _ e _ _ => (match o with Some a => params_of a | None => [] end) ++ (match e with Some x => [x] | None => [] end)
  end.
Definition mp_erase (m : mp) : mp :=
  match m with
  | MP k o w e x y => MP k (option_map erase o) w (option_map zero_leaf e) x y
  end.
Definition mp_unflatten (meta : mp) (ls : list leaf) : option mp :=
  match meta with
  | MP k o w e x y =>
      match o with
      | Some a =>
          match bind_aux a ls with
          | Some (a', rest) =>
              match e, rest with
              | None, [] => Some (MP k (Some a') w None x y)
              | Some old, [l] => if same_len old l then Some (MP k (Some a') w (Some l) x y) else None
              | _, _ => None
              end
          | None => None
          end
      | None =>
          match e, ls with
          | None, [] => Some (MP k None w None x y)
          | Some old, [l] => if same_len old l then Some (MP k None w (Some l) x y) else None
          | _, _ => None
          end
      end
  end.

(* ------------------------------------------------------------------ structural equality (tie) *)
Definition leaf_eqb (p q : leaf) : bool := forallb2 Qeq_bool p q.
Definition leaves_eqb (p q : list leaf) : bool := forallb2 leaf_eqb p q.
Definition blist_eqb (a b : list bool) : bool := forallb2 Bool.eqb a b.

Fixpoint op_eqb (a : op) {struct a} : op -> bool :=
  match a with
  | Plain n ps w h => fun b =>
      match b with Plain n' ps' w' h' => (n =? n') && leaves_eqb ps ps' && zlist_eqb w w' && (h =? h') | _ => false end
  | Ctrl n ba cw cv ww wt => fun b =>
      match b with
      | Ctrl n' ba' cw' cv' ww' wt' =>
          (n =? n') && op_eqb ba ba' && zlist_eqb cw cw' && blist_eqb cv cv' && zlist_eqb ww ww' && (wt =? wt')
      | _ => false
      end
  | PowO n z ba => fun b =>
      match b with PowO n' z' ba' => (n =? n') && Qeq_bool z z' && op_eqb ba ba' | _ => false end
  | Adj n ba => fun b =>
      match b with Adj n' ba' => (n =? n') && op_eqb ba ba' | _ => false end
  | SProdO s k p ba => fun b =>
      match b with SProdO s' k' p' ba' => Qeq_bool s s' && (k =? k') && optz_eqb p p' && op_eqb ba ba' | _ => false end
  | ExpO n c k ba => fun b =>
      match b with ExpO n' c' k' ba' => (n =? n') && Qeq_bool c c' && (k =? k') && op_eqb ba ba' | _ => false end
  | Comp n k p ops =>
      let cl := map (fun o : Z * list Z * op => (fst o, op_eqb (snd o))) ops in
      fun b =>
      match b with
      | Comp n' k' p' ops' =>
          (n =? n') && (k =? k') && optz_eqb p p' &&
          forallb2 (fun (c : operand (op -> bool)) (y : operand op) =>
                      (okey c =? okey y) && zlist_eqb (owires c) (owires y) && obody c (obody y)) cl ops'
      | _ => false
      end
  end.

Definition optop_eqb (a b : option op) : bool :=
  match a, b with Some x, Some y => op_eqb x y | None, None => true | _, _ => false end.
Definition optleaf_eqb (a b : option leaf) : bool :=
  match a, b with Some x, Some y => leaf_eqb x y | None, None => true | _, _ => false end.
Definition mp_eqb (a b : mp) : bool :=
  match a, b with
  | MP k o w e x y, MP k' o' w' e' x' y' =>
      (k =? k') && optop_eqb o o' && zlist_eqb w w' && optleaf_eqb e e' && (x =? x') && (y =? y')
  end.
Definition item_eqb (a b : item) : bool :=
  match a, b with IOp x, IOp y => op_eqb x y | IMp x, IMp y => mp_eqb x y | _, _ => false end.

(* ------------------------------------------------------------------ tie
   input : the AST extracted from the original object, the real op.data (leaves),
           the ASTs extracted after every round trip (copy, deepcopy, pickle, pytrees, jax, ...),
           and rebinding experiments (new leaves, AST extracted from bind_new_parameters' result). *)
Definition round_trip_model (a : item) : option item :=
  match a with
  | IOp x => option_map IOp (unflatten (flatten x))
  | IMp m => option_map IMp (mp_unflatten (mp_erase m) (mp_leaves m))
  end.
Definition item_leaves (a : item) : list leaf :=
  match a with IOp x => params_of x | IMp m => mp_leaves m end.

Definition check_bind (a : item) (e : list leaf * item) : bool :=
  match a, e with
  | IOp x, (ps, IOp r) => match bind x ps with Some x' => op_eqb x' r | None => false end
  | _, _ => false
  end.

Definition check_case (c : (item * list leaf) * (list item * list (list leaf * item))) : bool :=
  match c with
  | ((a, data), (results, binds)) =>
      leaves_eqb (item_leaves a) data &&
      forallb (item_eqb a) results &&
      (* the model's own flatten/unflatten round trip reproduces the AST the real round trips gave *)
      match round_trip_model a with Some a' => item_eqb a' a | None => false end &&
      forallb (check_bind a) binds
  end.
