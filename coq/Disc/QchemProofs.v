(* Lemmas about Disc/QchemModel.v (qchem.structure / number / spin and the Fock-space conservation checkers). *)
From Coq Require Import List ZArith QArith Bool Arith Lia ZifyBool.
From PLV Require Import Disc.FermiModel Disc.FermiProofs Disc.QchemModel.
Import ListNotations.
Local Open Scope nat_scope.

(* ------------------------------------------------------------------ counting *)
Fixpoint count_true (l : list bool) : nat :=
  match l with [] => 0 | x :: r => (if x then 1 else 0) + count_true r end.

Lemma count_below : forall e n a,
  count_true (map (fun i => Nat.ltb i e) (seq a n)) = Nat.min e (a + n) - Nat.min e a.
Proof.
  intros e n. induction n as [|n IH]; intro a; cbn [seq map count_true].
  - lia.
  - rewrite IH. destruct (Nat.ltb a e) eqn:E; [apply Nat.ltb_lt in E | apply Nat.ltb_ge in E]; lia.
Qed.

Lemma nth_map_seq : forall (f : nat -> bool) n a i, i < n -> nth i (map f (seq a n)) false = f (a + i).
Proof.
  intros f n. induction n as [|n IH]; intros a i H; [lia|].
  cbn [seq map]. destruct i as [|i]; cbn [nth].
  - f_equal. lia.
  - rewrite IH by lia. f_equal. lia.
Qed.

Lemma dot2_count : forall (f g : nat -> bool) l,
  dot2 (map f l) (map g l) = Nat.odd (count_true (map (fun j => f j && g j) l)).
Proof.
  intros f g l. induction l as [|x r IH]; cbn [map dot2 count_true]; [reflexivity|].
  rewrite IH, Nat.odd_add. destruct (f x && g x); reflexivity.
Qed.

(* ------------------------------------------------------------------ hf_state *)
Lemma hf_error_iff_lemma : forall e o b, hf_state e o b = Err <-> (e <= 0 \/ e > o)%Z.
Proof.
  intros e o b. unfold hf_state.
  destruct (e <=? 0)%Z eqn:E1; [split; [intros _; lia | reflexivity]|].
  destruct (e >? o)%Z eqn:E2; [split; [intros _; lia | reflexivity]|].
  split; [destruct b; discriminate | lia].
Qed.

Lemma hf_occ_lemma : forall e o, (0 < e <= o)%Z ->
  hf_state e o BOcc = Ok (occ_vec (Z.to_nat e) (Z.to_nat o)) /\
  length (occ_vec (Z.to_nat e) (Z.to_nat o)) = Z.to_nat o /\
  (forall i, i < Z.to_nat o -> nth i (occ_vec (Z.to_nat e) (Z.to_nat o)) false = Nat.ltb i (Z.to_nat e)) /\
  count_true (occ_vec (Z.to_nat e) (Z.to_nat o)) = Z.to_nat e.
Proof.
  intros e o H. unfold hf_state.
  destruct (e <=? 0)%Z eqn:E1; [lia|]. destruct (e >? o)%Z eqn:E2; [lia|].
  split; [reflexivity|]. unfold occ_vec. split; [rewrite map_length, seq_length; reflexivity|]. split.
  - intros i Hi. rewrite nth_map_seq by assumption. reflexivity.
  - rewrite count_below. lia.
Qed.

Lemma hf_parity_lemma : forall e o, (0 < e <= o)%Z ->
  exists s, hf_state e o BPar = Ok s /\ length s = Z.to_nat o /\
  forall i, i < Z.to_nat o -> nth i s false = Nat.odd (Nat.min (i + 1) (Z.to_nat e)).
Proof.
  intros e o H. unfold hf_state.
  destruct (e <=? 0)%Z eqn:E1; [lia|]. destruct (e >? o)%Z eqn:E2; [lia|].
  eexists. split; [reflexivity|]. split; [rewrite map_length, seq_length; reflexivity|].
  intros i Hi. rewrite nth_map_seq by assumption. cbn [plus].
  unfold tril_row, occ_vec. rewrite dot2_count.
  rewrite (map_ext _ (fun j => Nat.ltb j (Nat.min (i + 1) (Z.to_nat e)))).
  - rewrite count_below. f_equal. lia.
  - intro j. destruct (Nat.leb j i) eqn:A; destruct (Nat.ltb j (Z.to_nat e)) eqn:B;
      destruct (Nat.ltb j (Nat.min (i + 1) (Z.to_nat e))) eqn:D; try reflexivity; lia.
Qed.

Lemma hf_bk_lemma : forall e o, (0 < e <= o)%Z ->
  hf_state e o BBK = Ok (map (fun row => dot2 row (occ_vec (Z.to_nat e) (Z.to_nat o))) (beta_matrix (Z.to_nat o))).
Proof.
  intros e o H. unfold hf_state.
  destruct (e <=? 0)%Z eqn:E1; [lia|]. destruct (e >? o)%Z eqn:E2; [lia|]. reflexivity.
Qed.

Lemma beta_update_bounded : forall o, o <= 12 -> beta_matches_update o = true.
Proof.
  intros o H. do 13 (destruct o as [|o]; [vm_compute; reflexivity|]). lia.
Qed.

(* ------------------------------------------------------------------ excitations *)
Lemma excitations_error_lemma : forall e o d,
  excitations e o d = Err <-> (e <= 0 \/ o <= e \/ d < -2 \/ d > 2)%Z.
Proof.
  intros e o d. unfold excitations, dsz_ok.
  destruct (e >? 0)%Z eqn:E1; cbn [negb]; [|split; [intros _; lia | reflexivity]].
  destruct (o <=? e)%Z eqn:E2; [split; [intros _; lia | reflexivity]|].
  destruct ((-2 <=? d)%Z && (d <=? 2)%Z) eqn:E3; cbn [negb].
  - split; [discriminate | lia].
  - split; [intros _; lia | reflexivity].
Qed.

Lemma excitations_ok_lemma : forall e o d, (0 < e < o)%Z -> (-2 <= d <= 2)%Z ->
  excitations e o d = Ok (singles (Z.to_nat e) (Z.to_nat o) d, doubles (Z.to_nat e) (Z.to_nat o) d).
Proof.
  intros e o d H1 H2. unfold excitations, dsz_ok.
  destruct (e >? 0)%Z eqn:E1; [|lia]. destruct (o <=? e)%Z eqn:E2; [lia|].
  destruct ((-2 <=? d)%Z && (d <=? 2)%Z) eqn:E3; [reflexivity | lia].
Qed.

Lemma singles_spec_lemma : forall e o d x,
  In x (singles e o d) <->
  exists r p, x = [r; p] /\ r < e /\ e <= p < o /\ (s2 p - s2 r = 2 * d)%Z.
Proof.
  intros e o d x. unfold singles. rewrite in_flat_map. split.
  - intros [r [Hr H]]. apply in_flat_map in H. destruct H as [p [Hp H]].
    apply in_seq in Hr. apply in_seq in Hp.
    destruct (s2 p - s2 r =? 2 * d)%Z eqn:E; [|destruct H].
    destruct H as [H|[]]. exists r, p. repeat split; try lia. symmetry; exact H.
  - intros [r [p [Hx [Hr [Hp Hs]]]]]. exists r. split; [apply in_seq; lia|].
    apply in_flat_map. exists p. split; [apply in_seq; lia|].
    apply Z.eqb_eq in Hs. rewrite Hs. left. symmetry; exact Hx.
Qed.

Lemma doubles_spec_lemma : forall e o d x,
  In x (doubles e o d) <->
  exists s r q p, x = [s; r; q; p] /\ s < r /\ r < e /\ e <= q /\ q < p /\ p < o /\
                  (s2 p + s2 q - s2 r - s2 s = 2 * d)%Z.
Proof.
  intros e o d x. unfold doubles. rewrite in_flat_map. split.
  - intros [s [Hs H]]. apply in_flat_map in H. destruct H as [r [Hr H]].
    apply in_flat_map in H. destruct H as [q [Hq H]]. apply in_flat_map in H. destruct H as [p [Hp H]].
    apply in_seq in Hs. apply in_seq in Hr. apply in_seq in Hq. apply in_seq in Hp.
    destruct (s2 p + s2 q - s2 r - s2 s =? 2 * d)%Z eqn:E; [|destruct H].
    destruct H as [H|[]]. exists s, r, q, p. repeat split; try lia. symmetry; exact H.
  - intros [s [r [q [p [Hx [H1 [H2 [H3 [H4 [H5 H6]]]]]]]]]].
    exists s. split; [apply in_seq; lia|].
    apply in_flat_map. exists r. split; [apply in_seq; lia|].
    apply in_flat_map. exists q. split; [apply in_seq; lia|].
    apply in_flat_map. exists p. split; [apply in_seq; lia|].
    apply Z.eqb_eq in H6. rewrite H6. left. symmetry; exact Hx.
Qed.

Lemma NoDup_app_disj : forall {A} (l1 l2 : list A),
  NoDup l1 -> NoDup l2 -> (forall a, In a l1 -> In a l2 -> False) -> NoDup (l1 ++ l2).
Proof.
  intros A l1. induction l1 as [|x r IH]; intros l2 H1 H2 D; cbn [app]; [exact H2|].
  inversion H1; subst. constructor.
  - intro H. apply in_app_or in H. destruct H as [H|H]; [contradiction|]. apply (D x); [left; reflexivity | exact H].
  - apply IH; try assumption. intros a Ha Hb. apply (D a); [right; exact Ha | exact Hb].
Qed.

Lemma NoDup_flat_map : forall {A B} (f : A -> list B) (l : list A),
  NoDup l -> (forall x, In x l -> NoDup (f x)) ->
  (forall x y b, In x l -> In y l -> In b (f x) -> In b (f y) -> x = y) ->
  NoDup (flat_map f l).
Proof.
  intros A B f l. induction l as [|x r IH]; intros Hl Hf Hd; cbn [flat_map]; [constructor|].
  inversion Hl; subst. apply NoDup_app_disj.
  - apply Hf. left; reflexivity.
  - apply IH; try assumption.
    + intros y Hy. apply Hf. right; exact Hy.
    + intros y z b Hy Hz. apply Hd; right; assumption.
  - intros b Hb1 Hb2. apply in_flat_map in Hb2. destruct Hb2 as [y [Hy Hb2]].
    assert (x = y) by (apply (Hd x y b); [left; reflexivity | right; exact Hy | exact Hb1 | exact Hb2]).
    subst y. contradiction.
Qed.

Lemma NoDup_cond_single : forall {B} (c : bool) (b : B), NoDup (if c then [b] else []).
Proof. intros B c b. destruct c; repeat constructor. intros []. Qed.

Lemma singles_nodup_lemma : forall e o d, NoDup (singles e o d).
Proof.
  intros e o d. unfold singles. apply NoDup_flat_map.
  - apply seq_NoDup.
  - intros r _. apply NoDup_flat_map.
    + apply seq_NoDup.
    + intros p _. apply NoDup_cond_single.
    + intros p p' b _ _ H1 H2.
      destruct (s2 p - s2 r =? 2 * d)%Z; [|destruct H1]. destruct (s2 p' - s2 r =? 2 * d)%Z; [|destruct H2].
      destruct H1 as [H1|[]]. destruct H2 as [H2|[]]. congruence.
  - intros r r' b _ _ H1 H2.
    apply in_flat_map in H1. destruct H1 as [p [_ H1]]. apply in_flat_map in H2. destruct H2 as [p' [_ H2]].
    destruct (s2 p - s2 r =? 2 * d)%Z; [|destruct H1]. destruct (s2 p' - s2 r' =? 2 * d)%Z; [|destruct H2].
    destruct H1 as [H1|[]]. destruct H2 as [H2|[]]. congruence.
Qed.

(* every element produced under the binders (s, r, q) carries them in its first positions *)
Lemma dbl_inner : forall (o : nat) (d : Z) s r q b,
  In b (flat_map (fun p => if (s2 p + s2 q - s2 r - s2 s =? 2 * d)%Z then [[s; r; q; p]] else []) (seq (q + 1) (o - (q + 1)))) ->
  exists p, b = [s; r; q; p].
Proof.
  intros o d s r q b H. apply in_flat_map in H. destruct H as [p [_ H]].
  destruct (s2 p + s2 q - s2 r - s2 s =? 2 * d)%Z; [|destruct H]. destruct H as [H|[]]. exists p. symmetry; exact H.
Qed.

Lemma doubles_nodup_lemma : forall e o d, NoDup (doubles e o d).
Proof.
  intros e o d. unfold doubles. apply NoDup_flat_map.
  - apply seq_NoDup.
  - intros s _. apply NoDup_flat_map.
    + apply seq_NoDup.
    + intros r _. apply NoDup_flat_map.
      * apply seq_NoDup.
      * intros q _. apply NoDup_flat_map.
        -- apply seq_NoDup.
        -- intros p _. apply NoDup_cond_single.
        -- intros p p' b _ _ H1 H2.
           destruct (s2 p + s2 q - s2 r - s2 s =? 2 * d)%Z; [|destruct H1].
           destruct (s2 p' + s2 q - s2 r - s2 s =? 2 * d)%Z; [|destruct H2].
           destruct H1 as [H1|[]]. destruct H2 as [H2|[]]. congruence.
      * intros q q' b _ _ H1 H2. apply dbl_inner in H1. apply dbl_inner in H2.
        destruct H1 as [p H1]. destruct H2 as [p' H2]. congruence.
    + intros r r' b _ _ H1 H2.
      apply in_flat_map in H1. destruct H1 as [q [_ H1]]. apply in_flat_map in H2. destruct H2 as [q' [_ H2]].
      apply dbl_inner in H1. apply dbl_inner in H2. destruct H1 as [p H1]. destruct H2 as [p' H2]. congruence.
  - intros s s' b _ _ H1 H2.
    apply in_flat_map in H1. destruct H1 as [r [_ H1]]. apply in_flat_map in H2. destruct H2 as [r' [_ H2]].
    apply in_flat_map in H1. destruct H1 as [q [_ H1]]. apply in_flat_map in H2. destruct H2 as [q' [_ H2]].
    apply dbl_inner in H1. apply dbl_inner in H2. destruct H1 as [p H1]. destruct H2 as [p' H2]. congruence.
Qed.

Lemma counts_bounded : forall e o, o <= 12 -> e <= o ->
  length (singles e o 0%Z) = singles_count0 e o /\ length (doubles e o 0%Z) = doubles_count0 e o.
Proof.
  intros e o Ho He.
  assert (H : counts_ok o = true) by (do 13 (destruct o as [|o]; [vm_compute; reflexivity|]); lia).
  unfold counts_ok in H. rewrite forallb_forall in H.
  specialize (H e). rewrite andb_true_iff, !Nat.eqb_eq in H. apply H. apply in_seq. lia.
Qed.

(* spin bookkeeping: s2 is +1 on even (up) and -1 on odd (down) spin orbitals *)
Lemma s2_cases : forall i, (s2 i = 1 \/ s2 i = -1)%Z.
Proof. intro i. unfold s2. destruct (Nat.even i); [left | right]; reflexivity. Qed.

(* the fermionic=True variants conserve the particle number and change 2 S_z by -2*delta_sz
   (the words are a+_occ a_virt, i.e. the adjoints of the excitation operators of the docstring) *)
Lemma single_word_shift : forall e o d x, In x (singles e o d) ->
  shift wt_one (single_word x) = 0%Z /\ shift s2 (single_word x) = (- (2 * d))%Z.
Proof.
  intros e o d x H. apply singles_spec_lemma in H. destruct H as [r [p [-> [_ [_ H]]]]].
  cbn [single_word shift fold_right fst snd]. unfold wt_one. lia.
Qed.
Lemma double_word_shift : forall e o d x, In x (doubles e o d) ->
  shift wt_one (double_word x) = 0%Z /\ shift s2 (double_word x) = (- (2 * d))%Z.
Proof.
  intros e o d x H. apply doubles_spec_lemma in H. destruct H as [s [r [q [p [-> [_ [_ [_ [_ [_ H]]]]]]]]]].
  cbn [double_word shift fold_right fst snd]. unfold wt_one. lia.
Qed.

(* ------------------------------------------------------------------ excitations_to_wires *)
Definition zrange (a b : nat) : list Z := map Z.of_nat (seq a (b + 1 - a)).

Lemma zrange_spec : forall a b, a <= b ->
  length (zrange a b) = b + 1 - a /\ forall k, k <= b - a -> nth k (zrange a b) 0%Z = Z.of_nat (a + k).
Proof.
  intros a b H. unfold zrange. split; [rewrite map_length, seq_length; reflexivity|].
  intros k Hk. change 0%Z with (Z.of_nat 0). rewrite map_nth, seq_nth by lia. reflexivity.
Qed.

Lemma wrange_default : forall mx a b, b <= mx -> wrange (map Z.of_nat (seq 0 (mx + 1))) a b = zrange a b.
Proof.
  intros mx a b H. unfold wrange, zrange. apply map_ext_in. intros i Hi. apply in_seq in Hi.
  change 0%Z with (Z.of_nat 0). rewrite map_nth, seq_nth by lia. reflexivity.
Qed.

Lemma fold_max_ge : forall x a, a <= fold_right Nat.max a x /\ forall i, In i x -> i <= fold_right Nat.max a x.
Proof.
  induction x as [|y r IH]; intro a; cbn [fold_right]; [split; [lia | intros i []]|].
  destruct (IH a) as [H1 H2]. split; [lia|]. intros i [<-|Hi]; [lia|]. specialize (H2 i Hi). lia.
Qed.

Lemma lmax_ge : forall l x i, In x l -> In i x -> i <= lmax l.
Proof.
  induction l as [|y r IH]; intros x i Hx Hi; [destruct Hx|]. unfold lmax. cbn [fold_right]. fold (lmax r).
  destruct Hx as [<-|Hx].
  - apply (proj2 (fold_max_ge y (lmax r))). exact Hi.
  - pose proof (proj1 (fold_max_ge y (lmax r))). specialize (IH x i Hx Hi). lia.
Qed.

Lemma etw_body : forall sg db w, (sg <> [] \/ db <> []) ->
  excitations_to_wires sg db w =
    if negb (forallb (fun x => Nat.eqb (length x) 2) sg) then Err
    else if negb (forallb (fun x => Nat.eqb (length x) 4) db) then Err
    else
      let mx := Nat.max (lmax sg) (lmax db) in
      match (match w with None => Some (map Z.of_nat (seq 0 (mx + 1)))
                        | Some w => if Nat.eqb (length w) (mx + 1) then Some w else None end) with
      | None => Err
      | Some w =>
          Ok (map (fun x => wrange w (nth 0 x 0) (nth 1 x 0)) sg,
              map (fun x => [wrange w (nth 0 x 0) (nth 1 x 0); wrange w (nth 2 x 0) (nth 3 x 0)]) db)
      end.
Proof.
  intros sg db w H. unfold excitations_to_wires. destruct sg; destruct db; try reflexivity.
  destruct H as [H|H]; contradiction.
Qed.

Lemma etw_empty_lemma : forall w, excitations_to_wires [] [] w = Err.
Proof. reflexivity. Qed.

Lemma etw_excitations_lemma : forall e o d sg db,
  excitations e o d = Ok (sg, db) -> (sg <> [] \/ db <> []) ->
  excitations_to_wires sg db None =
    Ok (map (fun x => zrange (nth 0 x 0) (nth 1 x 0)) sg,
        map (fun x => [zrange (nth 0 x 0) (nth 1 x 0); zrange (nth 2 x 0) (nth 3 x 0)]) db).
Proof.
  intros e o d sg db H Hne.
  assert (He : ~ (e <= 0 \/ o <= e \/ d < -2 \/ d > 2)%Z).
  { intro C. apply excitations_error_lemma in C. rewrite C in H. discriminate. }
  rewrite excitations_ok_lemma in H by lia. injection H as <- <-.
  rewrite etw_body by exact Hne.
  set (E := Z.to_nat e) in *. set (O := Z.to_nat o) in *.
  assert (F2 : forallb (fun x => Nat.eqb (length x) 2) (singles E O d) = true).
  { apply forallb_forall. intros x Hx. apply singles_spec_lemma in Hx. destruct Hx as [r [p [-> _]]]. reflexivity. }
  assert (F4 : forallb (fun x => Nat.eqb (length x) 4) (doubles E O d) = true).
  { apply forallb_forall. intros x Hx. apply doubles_spec_lemma in Hx. destruct Hx as [s [r [q [p [-> _]]]]]. reflexivity. }
  rewrite F2, F4. cbn [negb]. cbv zeta. f_equal. f_equal.
  - apply map_ext_in. intros x Hx. apply wrange_default.
    pose proof (lmax_ge _ x (nth 1 x 0) Hx) as L.
    apply singles_spec_lemma in Hx. destruct Hx as [r [p [-> _]]]. cbn [nth] in *.
    specialize (L (or_intror (or_introl eq_refl))). lia.
  - apply map_ext_in. intros x Hx.
    pose proof (lmax_ge _ x (nth 1 x 0) Hx) as L1. pose proof (lmax_ge _ x (nth 3 x 0) Hx) as L3.
    apply doubles_spec_lemma in Hx. destruct Hx as [s [r [q [p [-> _]]]]]. cbn [nth] in *.
    specialize (L1 (or_intror (or_introl eq_refl))).
    specialize (L3 (or_intror (or_intror (or_intror (or_introl eq_refl))))).
    rewrite !wrange_default by lia. reflexivity.
Qed.

(* ------------------------------------------------------------------ Fock-space action: conservation laws *)
Lemma setbit_length : forall b p v, length (setbit p v b) = length b.
Proof. induction b as [|x r IH]; intros p v; [destruct p; reflexivity|]. destruct p; cbn [setbit length]; [reflexivity | rewrite IH; reflexivity]. Qed.

Lemma diag_val_setbit : forall wt b p v i, p < length b ->
  diag_val wt i (setbit p v b) =
  (diag_val wt i b + (if v then wt (i + p)%nat else 0) - (if nth p b false then wt (i + p)%nat else 0))%Z.
Proof.
  intros wt b. induction b as [|x r IH]; intros p v i H; cbn [length] in H; [lia|].
  destruct p as [|p]; cbn [setbit diag_val nth].
  - rewrite Nat.add_0_r. lia.
  - rewrite IH by lia. replace (S i + p) with (i + S p) by lia. lia.
Qed.

Lemma lad_apply_diag : forall wt l sb sb', lad_apply l sb = Some sb' ->
  length (snd sb') = length (snd sb) /\
  diag_val wt 0 (snd sb') = (diag_val wt 0 (snd sb) + (if snd l then wt (fst l) else - wt (fst l)))%Z.
Proof.
  intros wt [p c] [s b] sb' H. unfold lad_apply in H. cbn [fst snd] in *.
  destruct (Nat.ltb p (length b)) eqn:E; [|discriminate]. apply Nat.ltb_lt in E.
  destruct (Bool.eqb (nth p b false) c) eqn:E2; [discriminate|]. injection H as <-. cbn [snd].
  split; [apply setbit_length|]. rewrite diag_val_setbit by assumption. cbn [plus].
  destruct (nth p b false), c; cbn in E2; try discriminate; lia.
Qed.

Lemma fw_apply_diag : forall wt w sb sb', fw_apply w sb = Some sb' ->
  length (snd sb') = length (snd sb) /\ diag_val wt 0 (snd sb') = (diag_val wt 0 (snd sb) + shift wt w)%Z.
Proof.
  intros wt w. induction w as [|l r IH]; intros sb sb' H; cbn [fw_apply] in H.
  - injection H as <-. cbn [shift fold_right]. split; [reflexivity | lia].
  - destruct (fw_apply r sb) as [sb1|] eqn:E; [|discriminate].
    destruct (IH _ _ E) as [L1 D1]. destruct (lad_apply_diag wt _ _ _ H) as [L2 D2].
    split; [congruence|]. rewrite D2, D1. unfold shift. cbn [fold_right]. lia.
Qed.

(* [O_wt, w] = 0 on Fock space whenever the weighted balance of w vanishes *)
Lemma fock_commutes_lemma : forall wt w, shift wt w = 0%Z ->
  forall v, O_apply wt (W_apply w v) = W_apply w (O_apply wt v).
Proof.
  intros wt w Hs v. induction v as [|[c sb] r IH]; [reflexivity|].
  unfold O_apply, W_apply in *. cbn [flat_map map fst snd].
  destruct (fw_apply w sb) as [sb'|] eqn:E; cbn [app map fst snd].
  - rewrite IH. destruct (fw_apply_diag wt _ _ _ E) as [_ D]. rewrite D, Hs, Z.add_0_r. reflexivity.
  - exact IH.
Qed.

(* in general the word shifts the eigenvalue of O_wt by its balance: [O_wt, w] = shift(w) * w *)
Lemma fock_shift_lemma : forall wt w c sb sb', fw_apply w sb = Some sb' ->
  O_apply wt (W_apply w [(c, sb)]) = [((c * (diag_val wt 0 (snd sb) + shift wt w))%Z, sb')].
Proof.
  intros wt w c sb sb' E. unfold O_apply, W_apply. cbn [flat_map map fst snd]. rewrite E. cbn [app map fst snd].
  destruct (fw_apply_diag wt _ _ _ E) as [_ D]. rewrite D. reflexivity.
Qed.

Lemma diag_val_one_count : forall b i, diag_val wt_one i b = Z.of_nat (count_true b).
Proof.
  induction b as [|x r IH]; intro i; cbn [diag_val count_true]; [reflexivity|].
  rewrite IH. unfold wt_one. destruct x; lia.
Qed.

(* 2 S_z eigenvalue = (number of occupied even positions) - (number of occupied odd positions) *)
Fixpoint count_sel (sel : nat -> bool) (i : nat) (b : occ) : nat :=
  match b with [] => 0 | x :: r => (if x && sel i then 1 else 0) + count_sel sel (S i) r end.
Lemma diag_val_s2_count : forall b i,
  diag_val s2 i b = (Z.of_nat (count_sel Nat.even i b) - Z.of_nat (count_sel Nat.odd i b))%Z.
Proof.
  induction b as [|x r IH]; intro i; cbn [diag_val count_sel]; [reflexivity|].
  rewrite IH. unfold s2. rewrite <- Nat.negb_even. destruct x, (Nat.even i); cbn [andb negb]; lia.
Qed.

Lemma number_conserved_lemma : forall w s b s' b', shift wt_one w = 0%Z ->
  fw_apply w (s, b) = Some (s', b') -> length b' = length b /\ count_true b' = count_true b.
Proof.
  intros w s b s' b' Hs E. destruct (fw_apply_diag wt_one _ _ _ E) as [L D]. cbn [snd] in *.
  rewrite !diag_val_one_count, Hs in D. split; [exact L | lia].
Qed.

Lemma conserves_number_sound_lemma : forall F, conserves_number F = true ->
  forall t, In t F -> forall v, O_apply wt_one (W_apply (fst t) v) = W_apply (fst t) (O_apply wt_one v).
Proof.
  intros F H t Ht v. unfold conserves_number in H. rewrite forallb_forall in H.
  apply fock_commutes_lemma. apply Z.eqb_eq. apply H. exact Ht.
Qed.

Lemma conserves_sz_sound_lemma : forall F, conserves_sz F = true ->
  forall t, In t F -> forall v, O_apply s2 (W_apply (fst t) v) = W_apply (fst t) (O_apply s2 v).
Proof.
  intros F H t Ht v. unfold conserves_sz in H. rewrite forallb_forall in H.
  apply fock_commutes_lemma. apply Z.eqb_eq. apply H. exact Ht.
Qed.

(* the number operator of the model really is the diagonal observable: a+_i a_i |b> = n_i |b> *)
Lemma parity_below_setbit : forall b p v, parity_below p (setbit p v b) = parity_below p b.
Proof.
  induction b as [|x r IH]; intros p v; [destruct p; reflexivity|]. destruct p; cbn [setbit parity_below]; [reflexivity|].
  rewrite IH. reflexivity.
Qed.
Lemma nth_setbit_same : forall b p v, p < length b -> nth p (setbit p v b) false = v.
Proof.
  induction b as [|x r IH]; intros p v H; cbn [length] in H; [lia|]. destruct p; cbn [setbit nth]; [reflexivity|].
  apply IH. lia.
Qed.
Lemma setbit_setbit_id : forall b p, nth p b false = true -> setbit p true (setbit p false b) = b.
Proof.
  induction b as [|x r IH]; intros p H; [destruct p; reflexivity|]. destruct p; cbn [setbit nth] in *; [subst; reflexivity|].
  rewrite IH by assumption. reflexivity.
Qed.

Lemma lad_apply_eq : forall p c s b, p < length b ->
  lad_apply (p, c) (s, b) =
  if Bool.eqb (nth p b false) c then None else Some (xorb s (parity_below p b), setbit p c b).
Proof.
  intros p c s b H. unfold lad_apply. cbn [fst snd].
  destruct (Nat.ltb p (length b)) eqn:E; [reflexivity|]. apply Nat.ltb_ge in E. lia.
Qed.

Lemma nword_apply_lemma : forall i s b, i < length b ->
  fw_apply (nword i) (s, b) = if nth i b false then Some (s, b) else None.
Proof.
  intros i s b H. unfold nword.
  change (fw_apply [(i, true); (i, false)] (s, b))
    with (match lad_apply (i, false) (s, b) with Some sb' => lad_apply (i, true) sb' | None => None end).
  rewrite lad_apply_eq by assumption.
  destruct (nth i b false) eqn:E; cbn [Bool.eqb]; [|reflexivity].
  rewrite lad_apply_eq by (rewrite setbit_length; assumption).
  rewrite nth_setbit_same by assumption. cbn [Bool.eqb].
  rewrite parity_below_setbit, setbit_setbit_id by assumption.
  f_equal. f_equal. destruct s, (parity_below i b); reflexivity.
Qed.

(* ------------------------------------------------------------------ structure of N, S_z, S^2 *)
Lemma number_fs_terms_lemma : forall n t,
  In t (number_fs n) <-> exists i, i < n /\ t = ([(i, true); (i, false)], c1).
Proof.
  intros n t. unfold number_fs, nword. rewrite in_map_iff. split.
  - intros [i [<- Hi]]. apply in_seq in Hi. exists i. split; [lia | reflexivity].
  - intros [i [Hi ->]]. exists i. split; [reflexivity | apply in_seq; lia].
Qed.

Lemma spinz_fs_terms_lemma : forall n t,
  In t (spinz_fs n) <-> exists i, i < n /\ t = ([(i, true); (i, false)], (if Nat.even i then (1 # 2)%Q else (- (1 # 2))%Q, 0%Q)).
Proof.
  intros n t. unfold spinz_fs, nword, cq, szq. rewrite in_map_iff. split.
  - intros [i [<- Hi]]. apply in_seq in Hi. exists i. split; [lia | reflexivity].
  - intros [i [Hi ->]]. exists i. split; [reflexivity | apply in_seq; lia].
Qed.

Lemma observables_conserve_lemma : forall e n,
  conserves_number (number_fs n) = true /\ conserves_sz (number_fs n) = true /\
  conserves_number (spinz_fs n) = true /\ conserves_sz (spinz_fs n) = true /\
  conserves_number (spin2_fs e n) = true /\ conserves_sz (spin2_fs e n) = true.
Proof.
  intros e n.
  assert (A : forall (c : nat -> C) wt, forallb (fun t : fword * C => Z.eqb (shift wt (fst t)) 0) (map (fun i => (nword i, c i)) (seq 0 n)) = true).
  { intros c wt. apply forallb_forall. intros t Ht. apply in_map_iff in Ht. destruct Ht as [i [<- _]].
    cbn [fst nword shift fold_right snd]. apply Z.eqb_eq. lia. }
  split; [apply (A (fun _ => c1))|]. split; [apply (A (fun _ => c1))|].
  split; [apply (A (fun i => cq (szq i)))|]. split; [apply (A (fun i => cq (szq i)))|].
  unfold conserves_number, conserves_sz, spin2_fs. cbn [forallb fst shift fold_right]. rewrite !forallb_app.
  assert (D1 : forall wt, (forall a b g d, In (a, b, g, d) (tuples4 n) ->
               spin2_mask (a, b, g, d) && (Z.eqb (s2 a) (s2 d) && Z.eqb (s2 b) (s2 g)) = true ->
               (wt a + wt b - wt g - wt d = 0)%Z) ->
               forallb (fun t : fword * C => Z.eqb (shift wt (fst t)) 0) (spin2_diag n) = true).
  { intros wt Hw. apply forallb_forall. intros t Ht. unfold spin2_diag in Ht. apply in_map_iff in Ht.
    destruct Ht as [[[[a b] g] d] [<- Ht]]. apply filter_In in Ht. destruct Ht as [Hi Hc].
    cbn [fst word4 shift fold_right snd]. apply Z.eqb_eq. specialize (Hw a b g d Hi Hc). lia. }
  assert (D2 : forall wt, (forall a b g d, In (a, b, g, d) (tuples4 n) ->
               spin2_mask (a, b, g, d) &&
                 ((Z.eqb (s2 a) (s2 d + 2) && Z.eqb (s2 b) (s2 g - 2)) || (Z.eqb (s2 a) (s2 d - 2) && Z.eqb (s2 b) (s2 g + 2))) = true ->
               (wt a + wt b - wt g - wt d = 0)%Z) ->
               forallb (fun t : fword * C => Z.eqb (shift wt (fst t)) 0) (spin2_off n) = true).
  { intros wt Hw. apply forallb_forall. intros t Ht. unfold spin2_off in Ht. apply in_map_iff in Ht.
    destruct Ht as [[[[a b] g] d] [<- Ht]]. apply filter_In in Ht. destruct Ht as [Hi Hc].
    cbn [fst word4 shift fold_right snd]. apply Z.eqb_eq. specialize (Hw a b g d Hi Hc). lia. }
  split.
  - cbn [andb Z.eqb]. rewrite D1, D2; [reflexivity | |]; intros; unfold wt_one; lia.
  - cbn [andb Z.eqb]. rewrite D1, D2; [reflexivity | |]; intros a b g d _ Hc; lia.
Qed.

(* ------------------------------------------------------------------ Hermiticity checker *)
Lemma is_hermitian_sound_lemma : forall A, is_hermitian_sentence A = true -> sequiv (sadj A) A.
Proof.
  induction A as [|[w [re im]] r IH]; intros H v.
  - apply ceq_refl.
  - unfold is_hermitian_sentence in H. cbn [forallb snd] in H. apply andb_true_iff in H. destruct H as [H1 H2].
    apply Qeq_bool_iff in H1. specialize (IH H2 v).
    unfold sadj in *. cbn [map coef fst snd]. rewrite IH.
    destruct (weqb w v); [|reflexivity].
    split; cbn [cplus cconj fst snd]; [reflexivity | rewrite H1; ring].
Qed.

Lemma hermitian_real_coef_lemma : forall A, is_hermitian_sentence A = true -> forall v, (snd (coef A v) == 0)%Q.
Proof.
  induction A as [|[w [re im]] r IH]; intros H v; [reflexivity|].
  unfold is_hermitian_sentence in H. cbn [forallb snd] in H. apply andb_true_iff in H. destruct H as [H1 H2].
  apply Qeq_bool_iff in H1. specialize (IH H2 v). cbn [coef fst snd cplus].
  destruct (weqb w v); cbn [snd c0]; rewrite IH; [rewrite H1|]; ring.
Qed.

(* ------------------------------------------------------------------ bounded clauses over the Jordan-Wigner image *)
Lemma words_in_enumeration : forall n L (w : fword), length w <= L -> Forall (fun l => fst l < n) w ->
  In w (all_words (all_ops n) L).
Proof.
  intros n L w Hl Hw. apply in_all_words; [exact Hl|].
  eapply Forall_impl; [|exact Hw]. intros l Hlt. apply in_all_ops. exact Hlt.
Qed.

Lemma jw_fock_bounded : forall n w, n <= 3 -> length w <= 3 -> Forall (fun l => fst l < n) w ->
  jw_fock_word_ok n w = true.
Proof.
  intros n w Hn Hl Hw.
  assert (H : jw_fock_ok n 3 = true) by (do 4 (destruct n as [|n]; [vm_compute; reflexivity|]); lia).
  unfold jw_fock_ok in H. rewrite forallb_forall in H. apply H. apply words_in_enumeration; assumption.
Qed.

Lemma jw_fock_bounded4 : forall w, length w <= 2 -> Forall (fun l => fst l < 4) w -> jw_fock_word_ok 4 w = true.
Proof.
  intros w Hl Hw.
  assert (H : jw_fock_ok 4 2 = true) by (vm_compute; reflexivity).
  unfold jw_fock_ok in H. rewrite forallb_forall in H. apply H. apply words_in_enumeration; assumption.
Qed.

Lemma jw_commutes_from_ok : forall k wt n L w, jw_commutes_ok k wt n L = true ->
  length w <= L -> Forall (fun l => fst l < n) w -> shift wt w = 0%Z ->
  exists W, fw_image JW n w = Some W /\ sequiv (smul W (jw_obs k n)) (smul (jw_obs k n) W).
Proof.
  intros k wt n L w H Hl Hw Hs. unfold jw_commutes_ok in H. rewrite forallb_forall in H.
  specialize (H w (words_in_enumeration n L w Hl Hw)).
  unfold balanced in H. apply Z.eqb_eq in Hs. rewrite Hs in H. cbn [implb] in H.
  unfold jw_commutes_word_ok in H. destruct (fw_image JW n w) as [W|]; [|discriminate].
  exists W. split; [reflexivity|]. apply sent_eqb_sound. unfold sent_eqb. unfold commutator in H.
  destruct (sprune _); [reflexivity | discriminate].
Qed.

Lemma jw_number_commutes_bounded : forall n w, n <= 4 -> length w <= 4 -> Forall (fun l => fst l < n) w ->
  shift wt_one w = 0%Z ->
  exists W, fw_image JW n w = Some W /\ sequiv (smul W (jw_obs ONumber n)) (smul (jw_obs ONumber n) W).
Proof.
  intros n w Hn. apply jw_commutes_from_ok.
  do 5 (destruct n as [|n]; [vm_compute; reflexivity|]). lia.
Qed.

Lemma jw_spinz_commutes_bounded : forall n w, n <= 4 -> length w <= 4 -> Forall (fun l => fst l < n) w ->
  shift s2 w = 0%Z ->
  exists W, fw_image JW n w = Some W /\ sequiv (smul W (jw_obs OSpinz n)) (smul (jw_obs OSpinz n) W).
Proof.
  intros n w Hn. apply jw_commutes_from_ok.
  do 5 (destruct n as [|n]; [vm_compute; reflexivity|]). lia.
Qed.
