(* Soundness of the checkers of Disc/LieAlgModel.v (property C55).  All statements are for ALL inputs; the only
   bounded one is the automorphism property of the built-in involutions (all Pauli words on <= 4 qubits). *)
From Coq Require Import List ZArith Bool QArith Lia Setoid.
From PLV Require Import Disc.PauliAlgModel Disc.PauliAlgProofs Disc.LieAlgModel.
Import ListNotations.
Open Scope Z_scope.

(* ------------------------------------------------------------------ coefficients *)
Lemma rcoeff_app a b u : (rcoeff (a ++ b) u == rcoeff a u + rcoeff b u)%Q.
Proof.
  induction a as [|[w c] r IH]; cbn [app rcoeff].
  - ring.
  - rewrite IH. ring.
Qed.

Lemma rcoeff_rscale x s u : (rcoeff (rscale x s) u == x * rcoeff s u)%Q.
Proof.
  induction s as [|[w c] r IH]; cbn [rscale map rcoeff fst snd].
  - ring.
  - fold (rscale x r). rewrite IH. destruct (weqb w u); [rewrite Qred_correct|]; ring.
Qed.

Lemma word_eq_dec (a b : word) : {a = b} + {a <> b}.
Proof.
  destruct (weqb a b) eqn:E.
  - left. apply weqb_eq. exact E.
  - right. intros H. apply weqb_eq in H. congruence.
Qed.

Lemma rcoeff_notin s u : ~ In u (keysof s) -> (rcoeff s u == 0)%Q.
Proof.
  induction s as [|[w c] r IH]; cbn [keysof map rcoeff fst]; intros H.
  - reflexivity.
  - destruct (weqb w u) eqn:E.
    + apply weqb_eq in E. exfalso. apply H. left. exact E.
    + rewrite IH; [ring|]. intros I. apply H. right. exact I.
Qed.

Lemma seqb_sound a b : seqb a b = true -> seq_r a b.
Proof.
  unfold seqb, seq_r. intros H u. rewrite forallb_forall in H.
  destruct (in_dec word_eq_dec u (keysof a ++ keysof b)) as [I|N].
  - apply Qeq_bool_iff. exact (H u I).
  - rewrite (rcoeff_notin a u), (rcoeff_notin b u); [reflexivity| |];
      intros I; apply N; apply in_or_app; [right|left]; exact I.
Qed.

Lemma seqb_complete a b : seq_r a b -> seqb a b = true.
Proof.
  unfold seqb, seq_r. intros H. apply forallb_forall. intros u _. apply Qeq_bool_iff. apply H.
Qed.

Lemma seq_r_refl a : seq_r a a.
Proof. intros u. reflexivity. Qed.
Lemma seq_r_sym a b : seq_r a b -> seq_r b a.
Proof. intros H u. symmetry. apply H. Qed.
Lemma seq_r_trans a b c : seq_r a b -> seq_r b c -> seq_r a c.
Proof. intros H1 H2 u. rewrite (H1 u). apply H2. Qed.

(* ------------------------------------------------------------------ span certificates *)
Lemma in_span_sound fs B v c : in_span fs B v = Some c -> length c = length B /\ seq_r (lincomb c B) v.
Proof.
  unfold in_span. destruct ((length (coords fs v) =? length B)%nat && seqb (lincomb (coords fs v) B) v) eqn:E;
    [|discriminate].
  intros H. injection H as <-. apply andb_true_iff in E. destruct E as [E1 E2].
  split; [apply Nat.eqb_eq; exact E1 | apply seqb_sound; exact E2].
Qed.

Lemma in_span_spec_of fs B v : (match in_span fs B v with Some _ => true | None => false end) = true ->
  in_span_spec B v.
Proof.
  destruct (in_span fs B v) as [c|] eqn:E; [|discriminate]. intros _.
  exists c. exact (in_span_sound fs B v c E).
Qed.

Lemma all_in_span_sound fs B vs : all_in_span fs B vs = true -> forall v, In v vs -> in_span_spec B v.
Proof.
  unfold all_in_span. intros H v I. rewrite forallb_forall in H. exact (in_span_spec_of fs B v (H v I)).
Qed.

(* ------------------------------------------------------------------ functionals *)
Lemma dot_ext f a b : seq_r a b -> (dot f a == dot f b)%Q.
Proof.
  intros H. induction f as [|[w q] r IH]; cbn [dot]; [reflexivity|]. rewrite IH, (H w). reflexivity.
Qed.

Lemma dot_nil f : (dot f [] == 0)%Q.
Proof. induction f as [|[w q] r IH]; cbn [dot rcoeff]; [reflexivity|]. rewrite IH. ring. Qed.

Lemma dot_app f a b : (dot f (a ++ b) == dot f a + dot f b)%Q.
Proof.
  induction f as [|[w q] r IH]; cbn [dot]; [ring|]. rewrite IH, rcoeff_app. ring.
Qed.

Lemma dot_rscale f x s : (dot f (rscale x s) == x * dot f s)%Q.
Proof.
  induction f as [|[w q] r IH]; cbn [dot]; [ring|]. rewrite IH, rcoeff_rscale. ring.
Qed.

Fixpoint wsum (c l : list Q) : Q :=
  match c, l with x :: c', y :: l' => (x * y + wsum c' l')%Q | _, _ => 0%Q end.

Lemma dot_lincomb f : forall c B, (dot f (lincomb c B) == wsum c (map (dot f) B))%Q.
Proof.
  induction c as [|x c IH]; intros B.
  - cbn [lincomb wsum]. apply dot_nil.
  - destruct B as [|b B]; cbn [lincomb map wsum]; [apply dot_nil|].
    destruct (Qeq_bool x 0) eqn:E.
    + apply Qeq_bool_iff in E. rewrite IH, E. ring.
    + rewrite dot_app, dot_rscale, IH. reflexivity.
Qed.

Definition znth (i : Z) (c : list Q) : Q := if i <? 0 then 0%Q else nth (Z.to_nat i) c 0%Q.

Lemma znth_nil i : znth i [] = 0%Q.
Proof. unfold znth. destruct (i <? 0); [reflexivity|]. destruct (Z.to_nat i); reflexivity. Qed.

(* the unit vector and the coefficient list have equal lengths *)
Lemma unitb_wsum : forall l i c, length c = length l -> unitb i l = true -> (wsum c l == znth i c)%Q.
Proof.
  induction l as [|x r IH]; intros i c L H.
  - destruct c; [|discriminate]. cbn [wsum]. rewrite znth_nil. reflexivity.
  - destruct c as [|y c]; [discriminate|]. cbn [wsum]. cbn [unitb] in H.
    apply andb_true_iff in H. destruct H as [H1 H2]. apply Qeq_bool_iff in H1.
    assert (L' : length c = length r) by (simpl in L; lia).
    rewrite (IH (i - 1) c L' H2), H1. unfold znth.
    destruct (i =? 0) eqn:E0.
    + apply Z.eqb_eq in E0. subst i. cbn. ring.
    + apply Z.eqb_neq in E0. destruct (i <? 0) eqn:E1.
      * apply Z.ltb_lt in E1. assert (E2 : (i - 1 <? 0) = true) by (apply Z.ltb_lt; lia). rewrite E2. ring.
      * apply Z.ltb_ge in E1. assert (E2 : (i - 1 <? 0) = false) by (apply Z.ltb_ge; lia). rewrite E2.
        replace (Z.to_nat i) with (S (Z.to_nat (i - 1))) by lia. cbn [nth]. ring.
Qed.

Lemma checkrows_nth : forall fs i B, checkrows i fs B = true ->
  forall k f, nth_error fs k = Some f -> unitb (i + Z.of_nat k) (map (dot f) B) = true.
Proof.
  induction fs as [|g fs IH]; intros i B H k f E.
  - destruct k; discriminate.
  - cbn [checkrows] in H. apply andb_true_iff in H. destruct H as [H1 H2]. destruct k as [|k].
    + cbn in E. injection E as <-. replace (i + Z.of_nat 0) with i by lia. exact H1.
    + cbn [nth_error] in E. replace (i + Z.of_nat (S k)) with ((i + 1) + Z.of_nat k) by lia.
      exact (IH (i + 1) B H2 k f E).
Qed.

(* the value of the k-th dual functional on a linear combination is its k-th coefficient *)
Lemma dual_coordinate fs B : check_dual fs B = true ->
  forall c k f, length c = length B -> nth_error fs k = Some f ->
  (dot f (lincomb c B) == nth k c 0)%Q.
Proof.
  unfold check_dual. intros H c k f L E. apply andb_true_iff in H. destruct H as [_ H].
  pose proof (checkrows_nth fs 0 B H k f E) as U. cbn [Z.add] in U.
  rewrite dot_lincomb. rewrite (unitb_wsum (map (dot f) B) (Z.of_nat k) c); [|rewrite map_length; exact L|exact U].
  unfold znth. assert (X : (Z.of_nat k <? 0) = false) by (apply Z.ltb_ge; lia). rewrite X.
  rewrite Nat2Z.id. reflexivity.
Qed.

Lemma check_dual_sound fs B : check_dual fs B = true -> independent_spec B.
Proof.
  intros H c L Z0 k Hk.
  assert (Lf : length fs = length B).
  { unfold check_dual in H. apply andb_true_iff in H. destruct H as [H _]. apply Nat.eqb_eq. exact H. }
  destruct (nth_error fs k) as [f|] eqn:E.
  - rewrite <- (dual_coordinate fs B H c k f L E). rewrite (dot_ext f _ [] Z0). apply dot_nil.
  - apply nth_error_None in E. lia.
Qed.

Lemma check_independent_sound B : check_independent B = true -> independent_spec B.
Proof.
  unfold check_independent. destruct (duals B) as [fs|]; [|discriminate]. apply check_dual_sound.
Qed.

(* ------------------------------------------------------------------ closure *)
Lemma in_brackets A Bs a b : In a A -> In b Bs -> In (rbracket a b) (brackets A Bs).
Proof.
  intros Ha Hb. unfold brackets. apply in_flat_map. exists a. split; [exact Ha|].
  apply in_map. exact Hb.
Qed.

Lemma check_closure_sound B G : check_closure B G = true ->
  independent_spec B /\
  (forall g, In g G -> in_span_spec B g) /\
  (forall a b, In a B -> In b B -> in_span_spec B (rbracket a b)).
Proof.
  unfold check_closure. destruct (duals B) as [fs|]; [|discriminate]. intros H.
  apply andb_true_iff in H. destruct H as [H H3]. apply andb_true_iff in H. destruct H as [H1 H2].
  split; [exact (check_dual_sound fs B H1)|]. split.
  - exact (all_in_span_sound fs B G H2).
  - intros a b Ha Hb. exact (all_in_span_sound fs B _ H3 _ (in_brackets B B a b Ha Hb)).
Qed.

(* ------------------------------------------------------------------ structure constants *)
Lemma check_structure_sound f B : check_structure f B = true ->
  forall a b, (a < length B)%nat -> (b < length B)%nat ->
    seq_r (rbracket (nth a B []) (nth b B [])) (rscale (-1 # 1) (lincomb (fcol f (length B) a b) B)).
Proof.
  unfold check_structure. intros H2 a b Ha Hb.
  rewrite forallb_forall in H2.
  assert (Ia : In a (seq 0 (length B))) by (apply in_seq; lia).
  assert (Ib : In b (seq 0 (length B))) by (apply in_seq; lia).
  specialize (H2 a Ia). rewrite forallb_forall in H2. apply seqb_sound. exact (H2 b Ib).
Qed.

(* ------------------------------------------------------------------ involutions *)
Lemma theta_app inv a b : theta inv (a ++ b) = theta inv a ++ theta inv b.
Proof. unfold theta. apply map_app. Qed.

Lemma qopp_invol q : Qopp (Qopp q) = q.
Proof. destruct q as [n d]. unfold Qopp. cbn. rewrite Z.opp_involutive. reflexivity. Qed.

Lemma theta_involutive inv s : theta inv (theta inv s) = s.
Proof.
  unfold theta. rewrite map_map. rewrite <- (map_id s) at 2. apply map_ext. intros [w c]. cbn [fst snd].
  destruct (kappa inv w); [reflexivity|]. rewrite qopp_invol. reflexivity.
Qed.

(* theta is the linear extension of a sign function on Pauli words *)
Lemma theta_coeff inv s u : (rcoeff (theta inv s) u == (if kappa inv u then 1 else -1) * rcoeff s u)%Q.
Proof.
  induction s as [|[w c] r IH]; cbn [theta map rcoeff fst snd].
  - ring.
  - fold (theta inv r). rewrite IH. destruct (weqb w u) eqn:E.
    + apply weqb_eq in E. subst w. destruct (kappa inv u); ring.
    + ring.
Qed.

Lemma uniform_true_fix inv s : uniform inv true s = true -> theta inv s = s.
Proof.
  unfold uniform, theta. intros H. rewrite forallb_forall in H. rewrite <- (map_id s) at 2.
  apply map_ext_in. intros [w c] I. cbn [fst snd]. specialize (H (w, c) I). cbn [fst] in H.
  apply eqb_prop in H. rewrite H. reflexivity.
Qed.

Lemma uniform_false_neg inv s : uniform inv false s = true ->
  theta inv s = map (fun e => (fst e, Qopp (snd e))) s.
Proof.
  unfold uniform, theta. intros H. rewrite forallb_forall in H.
  apply map_ext_in. intros [w c] I. cbn [fst snd]. specialize (H (w, c) I). cbn [fst] in H.
  apply eqb_prop in H. rewrite H. reflexivity.
Qed.

Lemma kappa_hom_le4 :
  forallb (fun inv => forallb (fun w1 => forallb (fun w2 => kappa_hom inv w1 w2) (all_words 4)) (all_words 4))
          (builtin_involutions 4) = true.
Proof. vm_cast_no_check (eq_refl true). Qed.

Lemma builtin_automorphism : forall inv w1 w2,
  In inv (builtin_involutions 4) -> In w1 (all_words 4) -> In w2 (all_words 4) ->
  commutes w1 w2 = false ->
  kappa inv (snd (wmul w1 w2)) = Bool.eqb (kappa inv w1) (kappa inv w2).
Proof.
  intros inv w1 w2 Hi H1 H2 Hc. pose proof kappa_hom_le4 as A.
  rewrite forallb_forall in A. specialize (A inv Hi).
  rewrite forallb_forall in A. specialize (A w1 H1).
  rewrite forallb_forall in A. specialize (A w2 H2).
  unfold kappa_hom in A. rewrite Hc in A. cbn [orb] in A. apply eqb_prop in A. exact A.
Qed.

Lemma check_cartan_sound inv k m : check_cartan inv k m = true ->
  (forall x, In x k -> theta inv x = x) /\
  (forall y, In y m -> theta inv y = map (fun e => (fst e, Qopp (snd e))) y) /\
  independent_spec k /\ independent_spec m /\
  (forall a b, In a k -> In b k -> in_span_spec k (rbracket a b)) /\
  (forall a b, In a k -> In b m -> in_span_spec m (rbracket a b)) /\
  (forall a b, In a m -> In b m -> in_span_spec k (rbracket a b)).
Proof.
  unfold check_cartan. intros H. apply andb_true_iff in H. destruct H as [H H3].
  apply andb_true_iff in H. destruct H as [H1 H2].
  destruct (duals k) as [fk|]; [|discriminate]. destruct (duals m) as [fm|]; [|discriminate].
  apply andb_true_iff in H3. destruct H3 as [H3 C5]. apply andb_true_iff in H3. destruct H3 as [H3 C4].
  apply andb_true_iff in H3. destruct H3 as [H3 C3]. apply andb_true_iff in H3. destruct H3 as [C1 C2].
  rewrite forallb_forall in H1. rewrite forallb_forall in H2.
  split; [intros x I; apply uniform_true_fix; apply H1; exact I|].
  split; [intros y I; apply uniform_false_neg; apply H2; exact I|].
  split; [exact (check_dual_sound fk k C1)|].
  split; [exact (check_dual_sound fm m C2)|].
  split; [|split]; intros a b Ha Hb.
  - exact (all_in_span_sound fk k _ C3 _ (in_brackets k k a b Ha Hb)).
  - exact (all_in_span_sound fm m _ C4 _ (in_brackets k m a b Ha Hb)).
  - exact (all_in_span_sound fk k _ C5 _ (in_brackets m m a b Ha Hb)).
Qed.

(* ------------------------------------------------------------------ completeness of the span test (PauliVSpace) *)
Lemma lincomb_ext : forall c c' B, Forall2 Qeq c c' -> seq_r (lincomb c B) (lincomb c' B).
Proof.
  induction c as [|x c IH]; intros c' B F; inversion F as [|x0 y0 l l' Hxy Fl]; subst.
  - apply seq_r_refl.
  - destruct B as [|b B]; cbn [lincomb]; [apply seq_r_refl|].
    specialize (IH l' B Fl). intros u.
    destruct (Qeq_bool x 0) eqn:E1; destruct (Qeq_bool y0 0) eqn:E2.
    + apply IH.
    + apply Qeq_bool_iff in E1. rewrite rcoeff_app, rcoeff_rscale, <- Hxy, E1, (IH u). ring.
    + apply Qeq_bool_iff in E2. rewrite rcoeff_app, rcoeff_rscale, Hxy, E2, (IH u). ring.
    + rewrite !rcoeff_app, !rcoeff_rscale, Hxy, (IH u). reflexivity.
Qed.

Lemma coords_eq fs B : check_dual fs B = true -> forall c v,
  length c = length B -> seq_r (lincomb c B) v -> Forall2 Qeq (coords fs v) c.
Proof.
  intros H c v L S.
  assert (Lf : length fs = length c).
  { unfold check_dual in H. apply andb_true_iff in H. destruct H as [H _]. apply Nat.eqb_eq in H. lia. }
  assert (P : forall k f, nth_error fs k = Some f -> (Qred (dot f v) == nth k c 0)%Q).
  { intros k f E. rewrite Qred_correct. rewrite <- (dot_ext f _ _ S). exact (dual_coordinate fs B H c k f L E). }
  clear H L S. unfold coords. revert c Lf P. induction fs as [|f fs IH]; intros c Lf P.
  - destruct c; [constructor|discriminate].
  - destruct c as [|x c]; [discriminate|]. cbn [map]. constructor.
    + exact (P 0%nat f eq_refl).
    + apply IH; [simpl in Lf; lia|]. intros k g E. exact (P (S k) g E).
Qed.

Lemma f2_length {A B} (R : A -> B -> Prop) l l' : Forall2 R l l' -> length l = length l'.
Proof. induction 1; simpl; congruence. Qed.

Lemma in_span_complete fs B v : check_dual fs B = true -> in_span_spec B v -> in_span fs B v <> None.
Proof.
  intros H [c [L S]]. unfold in_span.
  pose proof (coords_eq fs B H c v L S) as F.
  assert (E1 : (length (coords fs v) =? length B)%nat = true).
  { apply Nat.eqb_eq. rewrite (f2_length _ _ _ F). exact L. }
  assert (E2 : seqb (lincomb (coords fs v) B) v = true).
  { apply seqb_complete. eapply seq_r_trans; [apply lincomb_ext; exact F | exact S]. }
  rewrite E1, E2. discriminate.
Qed.

(* PauliVSpace's question, decided exactly *)
Lemma vspace_independent_exact B v b : vspace_independent B v = Some b ->
  independent_spec B /\ (b = false <-> in_span_spec B v).
Proof.
  unfold vspace_independent. destruct (duals B) as [fs|]; [|discriminate].
  destruct (check_dual fs B) eqn:D; [|discriminate]. intros H. injection H as <-.
  split; [exact (check_dual_sound fs B D)|].
  destruct (in_span fs B v) as [c|] eqn:E.
  - split; [intros _|reflexivity]. exists c. exact (in_span_sound fs B v c E).
  - split; [discriminate|]. intros S. exfalso. exact (in_span_complete fs B v D S E).
Qed.
