(* Model of pennylane/data: the DatasetAttribute codecs (attributes/none.py, scalar.py, string.py,
   array.py, list.py, tuple.py, dictionary.py, base/dataset.py:_DatasetAttributeType), the type
   dispatch of base/attribute.py:match_obj_type / get_attribute_type (AttributeTypeMapper), and the
   attribute-level operations of base/dataset.py + base/hdf5.py (set, overwrite via attribute(),
   delete, write/read = copy_all with on_conflict, open(mode="copy")) over an abstract HDF5 tree.
   No proofs here: this file must keep running for the correspondence check. *)
From Coq Require Import List ZArith NArith Bool.
Import ListNotations.
Open Scope Z_scope.

(* ---------------------------------------------------------------- primitive data *)
Inductive dtype := DBool | DI8 | DI16 | DI32 | DI64 | DU8 | DU16 | DU32 | DU64
                 | DF16 | DF32 | DF64 | DC64 | DC128.

(* numbers: floats are exact dyadics m * 2^e (canonical form chosen by the harness) *)
Inductive num := NB (b : bool) | NI (z : Z) | NF (m e : Z) | NC (rm re im ie : Z).

Definition str := list Z.              (* unicode code points *)

(* HDF5 link names.  A name that is the canonical decimal numeral of n is represented as KIdx n,
   every other name as KStr (the harness converts; the representation is a bijection with strings,
   so name equality here = string equality on disk).  KIdx n is str(n) of list/tuple elements. *)
Inductive name := KIdx (n : N) | KStr (s : str).

Inductive iface := INumpy | IAutograd (requires_grad : bool).

(* qp.data.type_id values of the modelled attribute classes *)
Inductive tid := TNone | TScalar | TString | TArray | TList | TTuple | TDict | TDataset.

(* qp.data.py_type values (get_type_str of the written value's class) *)
Inductive pyty := PyNone | PyBool | PyInt | PyFloat | PyComplex | PyStr | PyNdarray | PyTensor
                | PyList | PyTuple | PyDict | PyDataset | PyNp (d : dtype)
                | PyOther.   (* any other string: never produced by the modelled codecs *)

(* ---------------------------------------------------------------- values *)
Inductive val :=
| VNone
| VBool (b : bool)                       (* Python bool *)
| VInt (z : Z)                           (* Python int (int64 range) *)
| VFloat (m e : Z)                       (* Python float *)
| VComplex (rm re im ie : Z)             (* Python complex *)
| VNp (d : dtype) (n : num)              (* numpy scalar; what DatasetScalar returns on read *)
| VStr (s : str)
| VArray (i : iface) (d : dtype) (shape : list Z) (data : list num)
| VList (l : list val)
| VTuple (l : list val)
| VDict (l : list (name * val))
| VDataset (l : list (name * val))       (* nested qp.data.Dataset *)
| VOpaque (id : Z).                      (* operator / pytree / sparse / molecule: black box, tie-only *)

(* ---------------------------------------------------------------- abstract HDF5 tree *)
Record attrs := mkA { a_tid : tid; a_py : pyty; a_if : option iface }.

Inductive payload :=
| PEmpty (d : dtype)                                 (* h5py.Empty / create_dataset(key, dtype="f") *)
| PData (d : dtype) (shape : list Z) (data : list num)
| PStr (s : str)                                     (* variable-length utf-8 string *)
| PWeird.                                            (* anything else found on disk *)

Inductive node :=
| NGroup (a : attrs) (ch : list (name * node))       (* children in creation order (track_order) *)
| NData (a : attrs) (p : payload)
| NOpaque (id : Z).

(* ---------------------------------------------------------------- decidable equalities *)
Definition dtype_code (d : dtype) : Z :=
  match d with DBool => 0 | DI8 => 1 | DI16 => 2 | DI32 => 3 | DI64 => 4 | DU8 => 5 | DU16 => 6
  | DU32 => 7 | DU64 => 8 | DF16 => 9 | DF32 => 10 | DF64 => 11 | DC64 => 12 | DC128 => 13 end.
Definition dtype_eqb (a b : dtype) : bool := dtype_code a =? dtype_code b.

Definition num_eqb (a b : num) : bool :=
  match a, b with
  | NB x, NB y => Bool.eqb x y
  | NI x, NI y => x =? y
  | NF m e, NF m' e' => (m =? m') && (e =? e')
  | NC a1 a2 a3 a4, NC b1 b2 b3 b4 => (a1 =? b1) && (a2 =? b2) && (a3 =? b3) && (a4 =? b4)
  | _, _ => false
  end.

Fixpoint list_eqb {A} (eqb : A -> A -> bool) (l m : list A) : bool :=
  match l, m with
  | [], [] => true
  | x :: r, y :: s => eqb x y && list_eqb eqb r s
  | _, _ => false
  end.

Definition str_eqb (a b : str) : bool := list_eqb Z.eqb a b.

Definition name_eqb (a b : name) : bool :=
  match a, b with
  | KIdx x, KIdx y => N.eqb x y
  | KStr x, KStr y => str_eqb x y
  | _, _ => false
  end.

Definition iface_eqb (a b : iface) : bool :=
  match a, b with
  | INumpy, INumpy => true
  | IAutograd x, IAutograd y => Bool.eqb x y
  | _, _ => false
  end.

Definition tid_code (t : tid) : Z :=
  match t with TNone => 0 | TScalar => 1 | TString => 2 | TArray => 3 | TList => 4 | TTuple => 5
  | TDict => 6 | TDataset => 7 end.
Definition tid_eqb (a b : tid) : bool := tid_code a =? tid_code b.

Definition pyty_eqb (a b : pyty) : bool :=
  match a, b with
  | PyNone, PyNone | PyBool, PyBool | PyInt, PyInt | PyFloat, PyFloat | PyComplex, PyComplex
  | PyStr, PyStr | PyNdarray, PyNdarray | PyTensor, PyTensor | PyList, PyList | PyTuple, PyTuple
  | PyDict, PyDict | PyDataset, PyDataset => true
  | PyNp x, PyNp y => dtype_eqb x y
  | _, _ => false
  end.

Definition opt_eqb {A} (eqb : A -> A -> bool) (a b : option A) : bool :=
  match a, b with None, None => true | Some x, Some y => eqb x y | _, _ => false end.

Definition attrs_eqb (a b : attrs) : bool :=
  tid_eqb (a_tid a) (a_tid b) && pyty_eqb (a_py a) (a_py b) && opt_eqb iface_eqb (a_if a) (a_if b).

Definition payload_eqb (a b : payload) : bool :=
  match a, b with
  | PEmpty d, PEmpty d' => dtype_eqb d d'
  | PData d s x, PData d' s' x' => dtype_eqb d d' && list_eqb Z.eqb s s' && list_eqb num_eqb x x'
  | PStr s, PStr s' => str_eqb s s'
  | _, _ => false
  end.

Fixpoint node_eqb (a b : node) : bool :=
  match a, b with
  | NGroup x l, NGroup y m =>
      attrs_eqb x y &&
      (fix go (l m : list (name * node)) : bool :=
         match l, m with
         | [], [] => true
         | (k, n) :: r, (k', n') :: s => name_eqb k k' && node_eqb n n' && go r s
         | _, _ => false
         end) l m
  | NData x p, NData y q => attrs_eqb x y && payload_eqb p q
  | NOpaque i, NOpaque j => i =? j
  | _, _ => false
  end.

Fixpoint val_eqb (a b : val) : bool :=
  let fix go (l m : list val) : bool :=
    match l, m with
    | [], [] => true
    | x :: r, y :: s => val_eqb x y && go r s
    | _, _ => false
    end in
  let fix gok (l m : list (name * val)) : bool :=
    match l, m with
    | [], [] => true
    | (k, x) :: r, (k', y) :: s => name_eqb k k' && val_eqb x y && gok r s
    | _, _ => false
    end in
  match a, b with
  | VNone, VNone => true
  | VBool x, VBool y => Bool.eqb x y
  | VInt x, VInt y => x =? y
  | VFloat m e, VFloat m' e' => (m =? m') && (e =? e')
  | VComplex a1 a2 a3 a4, VComplex b1 b2 b3 b4 => (a1 =? b1) && (a2 =? b2) && (a3 =? b3) && (a4 =? b4)
  | VNp d n, VNp d' n' => dtype_eqb d d' && num_eqb n n'
  | VStr s, VStr s' => str_eqb s s'
  | VArray i d s x, VArray i' d' s' x' =>
      iface_eqb i i' && dtype_eqb d d' && list_eqb Z.eqb s s' && list_eqb num_eqb x x'
  | VList l, VList m => go l m
  | VTuple l, VTuple m => go l m
  | VDict l, VDict m => gok l m
  | VDataset l, VDataset m => gok l m
  | VOpaque i, VOpaque j => i =? j
  | _, _ => false
  end.

(* ---------------------------------------------------------------- ordered groups *)
Section Assoc.
  Context {A : Type}.
  Fixpoint lookup (k : name) (l : list (name * A)) : option A :=
    match l with
    | [] => None
    | (k', x) :: r => if name_eqb k k' then Some x else lookup k r
    end.
  Definition has (k : name) (l : list (name * A)) : bool :=
    match lookup k l with Some _ => true | None => false end.
  Fixpoint remove (k : name) (l : list (name * A)) : list (name * A) :=
    match l with
    | [] => []
    | (k', x) :: r => if name_eqb k k' then remove k r else (k', x) :: remove k r
    end.
  (* "del if present; create": the new link is last in creation order *)
  Definition put (k : name) (x : A) (l : list (name * A)) : list (name * A) := remove k l ++ [(k, x)].
End Assoc.

Definition smap {A B} (f : A -> B) (s : list (name * A)) : list (name * B) :=
  map (fun p => (fst p, f (snd p))) s.
Definition wmap {A B} (f : A -> B) (w : list (list (name * A))) : list (list (name * B)) :=
  map (smap f) w.

(* ---------------------------------------------------------------- encode (value_to_hdf5 + _set_value) *)
Definition at_ (t : tid) (p : pyty) : attrs := mkA t p None.

(* DatasetList.__post_init__: extend -> append -> insert(len, v) -> mapper[str(len(self))] = v *)
Fixpoint list_extend (ch : list (name * node)) (ns : list node) : list (name * node) :=
  match ns with
  | [] => ch
  | n :: r => list_extend (ch ++ [(KIdx (N.of_nat (length ch)), n)]) r
  end.

(* DatasetTuple.value_to_hdf5: for i, elem in enumerate(value): mapper[str(i)] = elem *)
Fixpoint tuple_fill (i : N) (ns : list node) : list (name * node) :=
  match ns with
  | [] => []
  | n :: r => (KIdx i, n) :: tuple_fill (N.succ i) r
  end.

(* DatasetDict.__post_init__: update -> __setitem__: if key in self: del self[key]; mapper[key] = v *)
Fixpoint dict_update (ch : list (name * node)) (kvs : list (name * node)) : list (name * node) :=
  match kvs with
  | [] => ch
  | (k, n) :: r => dict_update (put k n ch) r
  end.

(* match_obj_type on the value's class, then <AttrClass>(value, parent_and_key=...) *)
Fixpoint encode (v : val) : node :=
  match v with
  | VNone => NData (at_ TNone PyNone) (PEmpty DF32)
  | VBool b => NData (at_ TScalar PyBool) (PData DBool [] [NB b])
  | VInt z => NData (at_ TScalar PyInt) (PData DI64 [] [NI z])
  | VFloat m e => NData (at_ TScalar PyFloat) (PData DF64 [] [NF m e])
  | VComplex a b c d => NData (at_ TScalar PyComplex) (PData DC128 [] [NC a b c d])
  | VNp d n =>
      match d with
      | DBool => (* numpy.bool_ is not a numbers.Number but has __array__ : DatasetArray *)
          NData (mkA TArray (PyNp d) (Some INumpy)) (PData d [] [n])
      | _ => NData (at_ TScalar (PyNp d)) (PData d [] [n])
      end
  | VStr s => NData (at_ TString PyStr) (PStr s)
  | VArray i d sh x =>
      NData (mkA TArray (match i with INumpy => PyNdarray | IAutograd _ => PyTensor end) (Some i)) (PData d sh x)
  | VList l => NGroup (at_ TList PyList) (list_extend [] (map encode l))
  | VTuple l => NGroup (at_ TTuple PyTuple) (tuple_fill 0%N (map encode l))
  | VDict l => NGroup (at_ TDict PyDict) (dict_update [] (smap encode l))
  | VDataset l => NGroup (at_ TDataset PyDataset) (smap encode l)   (* hdf5.copy of the dataset's group *)
  | VOpaque i => NOpaque i
  end.

(* ---------------------------------------------------------------- decode (get_attribute_type + copy_value) *)
Fixpoint seqN (i : N) (n : nat) : list N :=
  match n with O => [] | S k => i :: seqN (N.succ i) k end.

(* [mapper[str(i)].copy_value() for i in range(len(bind))]; a missing index is a KeyError *)
Fixpoint collect_idx (dch : list (name * option val)) (idx : list N) : option (list val) :=
  match idx with
  | [] => Some []
  | i :: r => match lookup (KIdx i) dch with
              | Some (Some v) => match collect_idx dch r with Some vs => Some (v :: vs) | None => None end
              | _ => None
              end
  end.

(* {key: attr.copy_value() for key, attr in mapper.items()} *)
Fixpoint collect_kv (dch : list (name * option val)) : option (list (name * val)) :=
  match dch with
  | [] => Some []
  | (k, Some v) :: r => match collect_kv r with Some vs => Some ((k, v) :: vs) | None => None end
  | (_, None) :: _ => None
  end.

(* None = an exception (unknown/mismatching type_id for the HDF5 object kind) *)
Fixpoint decode (n : node) : option val :=
  match n with
  | NOpaque i => Some (VOpaque i)
  | NData a p =>
      match a_tid a with
      | TNone => Some VNone
      | TScalar => match p with
                   | PData d [] [x] => Some (VNp d x)             (* bind[()] : numpy scalar *)
                   | PData d sh x => Some (VArray INumpy d sh x)  (* bind[()] of a non-scalar dataset *)
                   | _ => None
                   end
      | TString => match p with PStr s => Some (VStr s) | _ => None end
      | TArray => match p with
                  | PData d sh x =>
                      Some (VArray (match a_if a with Some i => i | None => INumpy end) d sh x)
                  | _ => None
                  end
      | _ => None
      end
  | NGroup a ch =>
      let dch := smap decode ch in
      match a_tid a with
      | TList => option_map VList (collect_idx dch (seqN 0%N (length dch)))
      | TTuple => option_map VTuple (collect_idx dch (seqN 0%N (length dch)))
      | TDict => option_map VDict (collect_kv dch)
      | TDataset => option_map VDataset (collect_kv dch)
      | _ => None
      end
  end.

(* what a value looks like after one write/read round trip *)
Fixpoint norm (v : val) : val :=
  match v with
  | VBool b => VNp DBool (NB b)
  | VInt z => VNp DI64 (NI z)
  | VFloat m e => VNp DF64 (NF m e)
  | VComplex a b c d => VNp DC128 (NC a b c d)
  | VNp DBool n => VArray INumpy DBool [] [n]
  | VList l => VList (map norm l)
  | VTuple l => VTuple (map norm l)
  | VDict l => VDict (smap norm l)
  | VDataset l => VDataset (smap norm l)
  | _ => v
  end.

(* the Python-level content of a value: every numeric form (Python scalar, numpy scalar, 0-d array)
   becomes (dtype, shape, data); container kinds, key order, strings are kept.  Two values are
   "equal with type sensitivity" iff their views coincide. *)
Fixpoint pyview (v : val) : val :=
  match v with
  | VBool b => VArray INumpy DBool [] [NB b]
  | VInt z => VArray INumpy DI64 [] [NI z]
  | VFloat m e => VArray INumpy DF64 [] [NF m e]
  | VComplex a b c d => VArray INumpy DC128 [] [NC a b c d]
  | VNp d n => VArray INumpy d [] [n]
  | VList l => VList (map pyview l)
  | VTuple l => VTuple (map pyview l)
  | VDict l => VDict (smap pyview l)
  | VDataset l => VDataset (smap pyview l)
  | _ => v
  end.

(* well-formed values: mapping keys are pairwise distinct (Python dict / dataset attributes) *)
Fixpoint nodupb {A} (l : list (name * A)) : bool :=
  match l with [] => true | (k, _) :: r => negb (has k r) && nodupb r end.

Fixpoint wf (v : val) : bool :=
  match v with
  | VList l | VTuple l => forallb wf l
  | VDict l | VDataset l => nodupb l && forallb (fun kv => wf (snd kv)) l
  | _ => true
  end.

(* ---------------------------------------------------------------- histories *)
(* A dataset is an ordered group of attributes; the world is a list of datasets (files or
   in-memory groups), addressed by position.  The operations are polymorphic in what is stored
   (trees for the implementation model, plain values for the specification). *)
Inductive op :=
| OSet (i : nat) (k : name) (v : val)      (* ds.k = v ; h5py refuses an existing name *)
| OPut (i : nat) (k : name) (v : val)      (* ds.k = qp.data.attribute(v) : _set_parent, overwrite *)
| ODel (i : nat) (k : name)                (* del ds.k *)
| OWrite (src dst : nat) (keys : list name) (overwrite : bool)
                                            (* src.write(dst, attributes=keys, overwrite=..) and
                                               dst.read(src, ..) ; keys = [] means all *)
| OSnap (src dst : nat)                    (* dst := Dataset.open(src, mode="copy") *)
| OReopen (i : nat).                       (* close and open again *)

Inductive status := SOk | SErr.
Definition status_eqb (a b : status) : bool :=
  match a, b with SOk, SOk | SErr, SErr => true | _, _ => false end.

Section Hist.
  Context {A : Type}.
  Variable enc : val -> A.
  Local Notation store := (list (name * A)).
  Local Notation world := (list (list (name * A))).

  Fixpoint set_nth (i : nat) (s : store) (w : world) : world :=
    match w, i with
    | [], _ => []
    | _ :: r, O => s :: r
    | x :: r, S j => x :: set_nth j s r
    end.

  (* hdf5.copy_all(source, dest, *keys, on_conflict) : stops at the first missing key *)
  Fixpoint copy_keys (src dst : store) (keys : list name) (ov : bool) : store * status :=
    match keys with
    | [] => (dst, SOk)
    | k :: r =>
        match lookup k src with
        | None => (dst, SErr)                           (* source[key] : KeyError *)
        | Some x =>
            if has k dst
            then if ov then copy_keys src (put k x dst) r ov   (* del dest[key]; dest.copy(...) *)
                 else copy_keys src dst r ov                   (* on_conflict = "ignore" *)
            else copy_keys src (dst ++ [(k, x)]) r ov
        end
    end.

  Definition step (o : op) (w : world) : world * status :=
    match o with
    | OSet i k v =>
        match nth_error w i with
        | None => (w, SErr)
        | Some s => if has k s then (w, SErr) else (set_nth i (s ++ [(k, enc v)]) w, SOk)
        end
    | OPut i k v =>
        match nth_error w i with
        | None => (w, SErr)
        | Some s => (set_nth i (put k (enc v) s) w, SOk)
        end
    | ODel i k =>
        match nth_error w i with
        | None => (w, SErr)
        | Some s => if has k s then (set_nth i (remove k s) w, SOk) else (w, SErr)
        end
    | OWrite i j keys ov =>
        match nth_error w i, nth_error w j with
        | Some s, Some d =>
            if Nat.eqb i j then (w, SErr)     (* not modelled: writing a dataset onto itself *)
            else let keys' := match keys with [] => map fst s | _ => keys end in
                 let (d', st) := copy_keys s d keys' ov in (set_nth j d' w, st)
        | _, _ => (w, SErr)
        end
    | OSnap i j =>
        match nth_error w i, nth_error w j with
        | Some s, Some _ => (set_nth j s w, SOk)
        | _, _ => (w, SErr)
        end
    | OReopen i => match nth_error w i with Some _ => (w, SOk) | None => (w, SErr) end
    end.

  Fixpoint run (h : list op) (w : world) : world * list status :=
    match h with
    | [] => (w, [])
    | o :: r => let (w1, s) := step o w in
                let (w2, ss) := run r w1 in (w2, s :: ss)
    end.
End Hist.

(* reading attribute k of dataset i in a world of trees: getattr(ds, k) then copy_value *)
Definition read_tree (w : list (list (name * node))) (i : nat) (k : name) : option val :=
  match lookup k (nth i w []) with None => None | Some n => decode n end.

Definition empty_world {A} (n : nat) : list (list (name * A)) := repeat [] n.

(* ---------------------------------------------------------------- correspondence *)
(* a case: number of datasets, history; observed: statuses, final trees (h5py dump of every
   dataset), final values (read through the Dataset API) *)
Definition observed := (list status * list (list (name * node)) * list (list (name * val)))%type.

Definition store_eqb (a b : list (name * node)) : bool :=
  list_eqb (fun p q => name_eqb (fst p) (fst q) && node_eqb (snd p) (snd q)) a b.
Definition vstore_eqb (a b : list (name * val)) : bool :=
  list_eqb (fun p q => name_eqb (fst p) (fst q) && val_eqb (snd p) (snd q)) a b.

Definition decode_store (s : list (name * node)) : option (list (name * val)) :=
  collect_kv (smap decode s).

Definition check_case (c : (nat * list op) * observed) : bool :=
  let '((n, h), (sts, trees, vals)) := c in
  let (w, ss) := run encode h (empty_world n) in
  list_eqb status_eqb ss sts
  && list_eqb store_eqb w trees                               (* encode + history vs on-disk layout *)
  && list_eqb (opt_eqb vstore_eqb) (map decode_store trees) (map (@Some _) vals)
                                                              (* decode vs what the API returns *)
  && list_eqb (opt_eqb vstore_eqb) (map decode_store w) (map (@Some _) vals).
