(* C65  Lemmas about the executor dispatch model (Disc/ExecutorModel.v). *)
From Coq Require Import List ZArith Bool Arith Lia Permutation.
From PLV Require Import Disc.ExecutorModel.
Import ListNotations.
Open Scope Z_scope.

(* ------------------------------------------------------------------ list facts *)
Lemma map_seq_nth {A B} (g : A -> B) (d : A) (l : list A) :
  map (fun i => g (nth i l d)) (seq 0 (length l)) = map g l.
Proof.
  induction l as [|a l IH]; simpl; [reflexivity|].
  f_equal. rewrite <- seq_shift, map_map. exact IH.
Qed.

Lemma map_seq_nth_id {A} (d : A) (l : list A) : map (fun i => nth i l d) (seq 0 (length l)) = l.
Proof. rewrite (map_seq_nth (fun x => x) d l). apply map_id. Qed.

Lemma map_seq_nth_error {T A} (run : T -> option A) (l : list T) :
  forall h : nat -> option A,
  (forall i t, nth_error l i = Some t -> h i = run t) -> map h (seq 0 (length l)) = map run l.
Proof.
  induction l as [|a l IH]; simpl; intros h H; [reflexivity|].
  f_equal; [apply (H 0%nat); reflexivity|].
  rewrite <- seq_shift, map_map. apply IH. intros i t Hi. apply (H (S i)). exact Hi.
Qed.

Lemma nth_map_lt {A B} (f : A -> B) (l : list A) (i : nat) (d : B) (d' : A) :
  (i < length l)%nat -> nth i (map f l) d = f (nth i l d').
Proof.
  intros H. rewrite (nth_indep (map f l) d (f d')) by (rewrite map_length; exact H).
  apply map_nth.
Qed.

(* ------------------------------------------------------------------ the pool oracle *)
Lemma assoc_log {T A} (run : T -> option A) (tasks : list T) (perm : list nat) (i : nat) (t : T) :
  In i perm -> nth_error tasks i = Some t ->
  assoc i (flat_map (fun j => match nth_error tasks j with
                              | Some t => [(j, run t)] | None => [] end) perm) = Some (run t).
Proof.
  induction perm as [|a perm IH]; simpl; intros Hin Ht; [contradiction|].
  destruct (Nat.eq_dec a i) as [->|Hne].
  - rewrite Ht. simpl. rewrite Nat.eqb_refl. reflexivity.
  - destruct Hin as [Hin|Hin]; [contradiction|].
    destruct (nth_error tasks a) eqn:E; simpl.
    + destruct (Nat.eqb a i) eqn:Eq; [apply Nat.eqb_eq in Eq; contradiction|].
      apply IH; assumption.
    + apply IH; assumption.
Qed.

(* whatever the completion order, as long as every task completes: results by index *)
Lemma pool_eval_spec {T A} (run : T -> option A) (perm : list nat) (tasks : list T) :
  covers perm (length tasks) -> pool_eval run perm tasks = collect (map run tasks).
Proof.
  intros Hc. unfold pool_eval. f_equal.
  apply map_seq_nth_error. intros i t Hi.
  rewrite (assoc_log run tasks perm i t); [reflexivity| |exact Hi].
  apply Hc. apply nth_error_Some. rewrite Hi. discriminate.
Qed.

Lemma coversb_covers perm n : coversb perm n = true -> covers perm n.
Proof.
  unfold coversb, covers. intros H i Hi.
  rewrite forallb_forall in H. specialize (H i).
  assert (Hin : In i (seq 0 n)) by (apply in_seq; lia).
  apply H in Hin. apply existsb_exists in Hin. destruct Hin as [x [Hx Hxi]].
  apply Nat.eqb_eq in Hxi. subst. exact Hx.
Qed.

Lemma covers_permutation perm n : (forall i, In i (seq 0 n) -> In i perm) -> covers perm n.
Proof. intros H i Hi. apply H. apply in_seq. lia. Qed.

Lemma permutation_covers perm n : Permutation (seq 0 n) perm -> covers perm n.
Proof.
  intros H. apply covers_permutation. intros i Hi. exact (Permutation_in i H Hi).
Qed.

(* ------------------------------------------------------------------ zip *)
Lemma fold_min_const (ls : list nat) (n : nat) :
  (forall x, In x ls -> x = n) -> fold_left Nat.min ls n = n.
Proof.
  induction ls as [|a ls IH]; simpl; intros H; [reflexivity|].
  rewrite (H a) by (left; reflexivity). rewrite Nat.min_id. apply IH. intros x Hx. apply H. right. exact Hx.
Qed.

Lemma minlen_all {A} (its : list (list A)) (n : nat) :
  its <> [] -> (forall x, In x its -> length x = n) -> minlen its = n.
Proof.
  destruct its as [|it r]; [intros H; contradiction|]. intros _ H. unfold minlen.
  rewrite (H it) by (left; reflexivity). apply fold_min_const.
  intros x Hx. apply in_map_iff in Hx. destruct Hx as [y [<- Hy]]. apply H. right. exact Hy.
Qed.

Lemma uniform_all {A} (it : list A) r :
  uniform (it :: r) = true -> forall x, In x (it :: r) -> length x = length it.
Proof.
  unfold uniform. intros H x [<-|Hx]; [reflexivity|].
  rewrite forallb_forall in H. apply Nat.eqb_eq. apply H. exact Hx.
Qed.

Lemma minlen_uniform {A} (it : list A) r : uniform (it :: r) = true -> minlen (it :: r) = length it.
Proof. intros H. apply minlen_all; [discriminate|]. apply uniform_all. exact H. Qed.

Lemma zipn_length {A} (d : A) its : length (zipn d its) = minlen its.
Proof. unfold zipn. rewrite map_length, seq_length. reflexivity. Qed.

Lemma zipn_single {A} (d : A) (it : list A) : zipn d [it] = map (fun x => [x]) it.
Proof. unfold zipn, minlen. simpl. apply (map_seq_nth (fun x => [x]) d it). Qed.

(* zip( *zip( *rows)) = rows for a non-empty rectangular table of width >= 1 *)
Lemma zipn_zipn {A} (d : A) (r0 : list A) (rs : list (list A)) :
  uniform (r0 :: rs) = true -> r0 <> [] -> zipn d (zipn d (r0 :: rs)) = r0 :: rs.
Proof.
  intros Hu Hne. set (rows := r0 :: rs) in *.
  assert (Hall := uniform_all r0 rs Hu). fold rows in Hall.
  assert (Hcols : zipn d rows = map (fun j => map (fun r => nth j r d) rows) (seq 0 (length r0))).
  { unfold zipn. unfold rows. rewrite (minlen_uniform r0 rs Hu). reflexivity. }
  assert (Hml : minlen (zipn d rows) = length rows).
  { apply minlen_all.
    - rewrite Hcols. destruct r0; [contradiction|]. simpl. discriminate.
    - intros x Hx. rewrite Hcols in Hx. apply in_map_iff in Hx. destruct Hx as [j [<- _]].
      apply map_length. }
  unfold zipn at 1. rewrite Hml.
  transitivity (map (fun i => nth i rows []) (seq 0 (length rows))); [|apply map_seq_nth_id].
  apply map_ext_in. intros i Hi. apply in_seq in Hi.
  rewrite Hcols, map_map.
  assert (Hlen : length (nth i rows []) = length r0).
  { apply Hall. apply nth_In. lia. }
  transitivity (map (fun j => nth j (nth i rows []) d) (seq 0 (length (nth i rows []))));
    [|apply map_seq_nth_id].
  rewrite Hlen.
  apply map_ext_in. intros j _.
  apply (nth_map_lt (fun r : list A => nth j r d) rows i d []). lia.
Qed.

(* ------------------------------------------------------------------ submit *)
Lemma submit_spec_gen q be f args kw :
  (submit_unpack (cfg_of be) = false -> v_apply_kw_splat q = true -> kw = []) ->
  exec_submit_gen q be f args kw = spec_submit f args kw.
Proof.
  intros H. unfold exec_submit_gen, spec_submit.
  destruct (submit_unpack (cfg_of be)) eqn:E; [reflexivity|].
  destruct (v_apply_kw_splat q) eqn:K; [|reflexivity].
  rewrite (H eq_refl eq_refl). reflexivity.
Qed.

Lemma submit_spec_pinned be f args kw :
  (be = MPPool -> kw = []) -> exec_submit_gen pinned be f args kw = spec_submit f args kw.
Proof.
  intros H. apply submit_spec_gen. intros E _. apply H. destruct be; cbn in E; try discriminate. reflexivity.
Qed.

Lemma submit_spec_fixed_all be f args kw : exec_submit_gen fixed_all be f args kw = spec_submit f args kw.
Proof. apply submit_spec_gen. intros _ K. cbn in K. discriminate. Qed.

(* ------------------------------------------------------------------ map *)
Lemma spec_map_cons f it r kw :
  spec_map f (it :: r) kw = collect (map (fun t => call f t kw) (zipn d0 (it :: r))).
Proof. reflexivity. Qed.

Lemma map_spec_gen q be perm f iters kw :
  iters <> [] -> covers perm (minlen iters) ->
  (be <> MPPool -> v_unpack q (map_unpack (cfg_of be)) (nparams f) (length iters) = true) ->
  (be = MPPool ->
     (1 < nparams f /\ uniform iters = true) \/
     (nparams f <= 1 /\ (exists it, iters = [it]) /\ v_unpack q false (nparams f) 1%nat = true)) ->
  exec_map_gen q be perm f iters kw = spec_map f iters kw.
Proof.
  intros Hne Hc Hd Hmp.
  assert (Hc' : covers perm (length (zipn d0 iters))) by (rewrite zipn_length; exact Hc).
  destruct iters as [|it0 r0]; [contradiction|].
  destruct be.
  - cbn [exec_map_gen]. unfold native_map_gen. rewrite Hd by discriminate. reflexivity.
  - cbn [exec_map_gen]. unfold native_map_gen. rewrite Hd by discriminate.
    unfold be_map. rewrite pool_eval_spec by exact Hc'. reflexivity.
  - cbn [exec_map_gen]. unfold native_map_gen. rewrite Hd by discriminate.
    unfold be_map. rewrite pool_eval_spec by exact Hc'. reflexivity.
  - cbn [exec_map_gen]. unfold mp_map_gen.
    destruct (Hmp eq_refl) as [[Hnp Hu] | [Hnp [[it Hit] Hq]]].
    + apply Z.ltb_lt in Hnp. rewrite Hnp. unfold zip_strict. rewrite Hu.
      unfold starmap_with. cbn [backend_has_starmap]. unfold be_starmap.
      rewrite pool_eval_spec by exact Hc'. reflexivity.
    + assert (Hlt : (1 <? nparams f) = false) by (apply Z.ltb_ge; exact Hnp).
      rewrite Hlt. unfold native_map_gen. inversion Hit; subst it0 r0.
      cbn [cfg_of map_unpack length]. rewrite Hq. unfold be_map.
      rewrite pool_eval_spec.
      * rewrite spec_map_cons, zipn_single, !map_map. reflexivity.
      * rewrite map_length. cbn in Hc. exact Hc.
Qed.

Lemma map_unpack_native be : be <> MPPool -> map_unpack (cfg_of be) = true.
Proof. destruct be; intros H; try reflexivity. contradiction. Qed.

(* pinned code: correct whenever the signature has more than one parameter *)
Lemma map_spec_pinned be perm f iters kw :
  iters <> [] -> covers perm (minlen iters) -> 1 < nparams f ->
  (be = MPPool -> uniform iters = true) ->
  exec_map_gen pinned be perm f iters kw = spec_map f iters kw.
Proof.
  intros Hne Hc Hnp Hu. apply map_spec_gen; try assumption.
  - intros Hbe. rewrite (map_unpack_native be Hbe). cbn. apply Z.ltb_lt. exact Hnp.
  - intros Hbe. left. split; [exact Hnp | apply Hu; exact Hbe].
Qed.

(* repaired decision (unpack when the backend unpacks or there is one iterable): every arity *)
Lemma map_spec_fixed be perm f iters kw :
  iters <> [] -> covers perm (minlen iters) ->
  (be = MPPool -> (1 < nparams f /\ uniform iters = true) \/ (nparams f <= 1 /\ exists it, iters = [it])) ->
  exec_map_gen fixed_map be perm f iters kw = spec_map f iters kw.
Proof.
  intros Hne Hc Hmp. apply map_spec_gen; try assumption.
  - intros Hbe. rewrite (map_unpack_native be Hbe). reflexivity.
  - intros Hbe. destruct (Hmp Hbe) as [H|[H1 H2]]; [left; exact H|right].
    split; [exact H1|]. split; [exact H2|reflexivity].
Qed.

(* pinned code, signature arity <= 1: the function is applied to each WHOLE iterable *)
Lemma map_packed_pinned be perm f iters kw :
  nparams f <= 1 -> covers perm (length iters) ->
  exec_map_gen pinned be perm f iters kw = collect (map (fun it => call f [ASeq it] kw) iters).
Proof.
  intros Hnp Hc.
  assert (Hlt : (1 <? nparams f) = false) by (apply Z.ltb_ge; exact Hnp).
  assert (Hc' : covers perm (length (map (fun x : arg => [x]) (map ASeq iters)))).
  { rewrite !map_length. exact Hc. }
  destruct be; cbn [exec_map_gen]; unfold mp_map_gen, native_map_gen; cbn [pinned v_unpack];
    unfold unpack_pinned; rewrite Hlt; try rewrite andb_false_r; cbn [andb cfg_of map_unpack];
    unfold be_map; try rewrite zipn_single; try rewrite pool_eval_spec by exact Hc';
    rewrite !map_map; reflexivity.
Qed.

(* ------------------------------------------------------------------ starmap *)
Lemma starmap_spec_gen q be perm f rows kw :
  covers perm (length rows) ->
  (backend_has_starmap be = false ->
     (v_starmap_kw_to_list q = true -> kw = []) /\ uniform rows = true /\
     (rows = [] \/ (hd [] rows <> [] /\
                    v_unpack q true (nparams f) (length (hd [] rows)) = true))) ->
  exec_starmap_gen q be perm f rows kw = spec_starmap f rows kw.
Proof.
  intros Hc H. unfold exec_starmap_gen, starmap_with.
  destruct (backend_has_starmap be) eqn:Hs.
  - destruct be; try discriminate; unfold be_starmap.
    + reflexivity.
    + rewrite pool_eval_spec by exact Hc. reflexivity.
  - destruct (H eq_refl) as [Hkw [Hu Hr]]. unfold zip_strict. rewrite Hu.
    assert (Hbe : exec_map_gen q be = native_map_gen q be) by (destruct be; try discriminate; reflexivity).
    assert (Hmu : map_unpack (cfg_of be) = true) by (destruct be; try discriminate; reflexivity).
    assert (Hbm : forall c its, be_map be perm c its = pool_eval (callp c) perm (zipn d0 its))
      by (destruct be; try discriminate; reflexivity).
    rewrite Hbe. unfold native_map_gen. rewrite Hmu.
    destruct Hr as [-> | [Hhd Hd]].
    + destruct (v_starmap_kw_to_list q) eqn:K.
      * rewrite (Hkw eq_refl). destruct (v_unpack q true (nparams f) (length (zipn d0 []))); rewrite Hbm; reflexivity.
      * destruct (v_unpack q true (nparams f) (length (zipn d0 []))); rewrite Hbm; reflexivity.
    + destruct rows as [|r0 rs]; [cbn in Hhd; contradiction|]. cbn [hd] in Hhd, Hd.
      rewrite zipn_length, (minlen_uniform r0 rs Hu), Hd, !Hbm.
      rewrite (zipn_zipn d0 r0 rs Hu Hhd). rewrite !pool_eval_spec by exact Hc.
      destruct (v_starmap_kw_to_list q) eqn:K.
      * rewrite (Hkw eq_refl). unfold spec_starmap.
        change (map (callp (f, [])) (r0 :: rs)) with (map (fun t => call f t []) (r0 :: rs)).
        destruct (collect (map (fun t => call f t []) (r0 :: rs))); reflexivity.
      * reflexivity.
Qed.

Lemma starmap_spec_pinned be perm f rows kw :
  covers perm (length rows) ->
  (backend_has_starmap be = false ->
     kw = [] /\ uniform rows = true /\ (rows = [] \/ (hd [] rows <> [] /\ 1 < nparams f))) ->
  exec_starmap_gen pinned be perm f rows kw = spec_starmap f rows kw.
Proof.
  intros Hc H. apply starmap_spec_gen; [exact Hc|].
  intros Hs. destruct (H Hs) as [Hk [Hu Hr]]. split; [intros _; exact Hk|]. split; [exact Hu|].
  destruct Hr as [Hr|[Hh Hnp]]; [left; exact Hr|right]. split; [exact Hh|].
  cbn. apply Z.ltb_lt. exact Hnp.
Qed.

Lemma starmap_spec_fixed_all be perm f rows kw :
  covers perm (length rows) ->
  (backend_has_starmap be = false -> uniform rows = true /\ (rows = [] \/ hd [] rows <> [])) ->
  exec_starmap_gen fixed_all be perm f rows kw = spec_starmap f rows kw.
Proof.
  intros Hc H. apply starmap_spec_gen; [exact Hc|].
  intros Hs. destruct (H Hs) as [Hu Hr]. split; [intros K; cbn in K; discriminate|]. split; [exact Hu|].
  destruct Hr as [Hr|Hh]; [left; exact Hr|right]. split; [exact Hh|reflexivity].
Qed.

(* ------------------------------------------------------------------ refutations (concrete witnesses) *)
Definition g1 : fn := {| fid := 100; nreq := 1; ndef := 0; fvar := false; farith := false |}.
Definition g11 : fn := {| fid := 110; nreq := 1; ndef := 1; fvar := false; farith := false |}.
Definition g2 : fn := {| fid := 200; nreq := 2; ndef := 0; fvar := false; farith := false |}.
Definition it123 : list arg := [AInt 1; AInt 2; AInt 3].

Lemma map_one_param_witness : forall be,
  nparams g1 = 1 /\ covers [2; 0; 1]%nat (minlen [it123]) /\
  spec_map g1 [it123] [] = Some [RApp 100 [AInt 1] [] []; RApp 100 [AInt 2] [] []; RApp 100 [AInt 3] [] []] /\
  exec_map_gen pinned be [2; 0; 1]%nat g1 [it123] [] = Some [RApp 100 [ASeq it123] [] []].
Proof.
  intros be. split; [reflexivity|]. split; [apply coversb_covers; reflexivity|].
  split; [reflexivity|]. destruct be; vm_compute; reflexivity.
Qed.

Lemma starmap_kwargs_witness :
  spec_starmap g11 [[AInt 7]; [AInt 1]] [(0%nat, AInt 4)]
    = Some [RApp 110 [AInt 7] [Some (AInt 4)] []; RApp 110 [AInt 1] [Some (AInt 4)] []] /\
  exec_starmap_gen pinned Thread [0; 1]%nat g11 [[AInt 7]; [AInt 1]] [(0%nat, AInt 4)] = None /\
  exec_starmap_gen pinned Proc [0; 1]%nat g11 [[AInt 7]; [AInt 1]] [(0%nat, AInt 4)] = None.
Proof. repeat split; vm_compute; reflexivity. Qed.

Lemma submit_mp_kwargs_witness :
  spec_submit g11 [AInt 7] [(0%nat, AInt 4)] = Some (RApp 110 [AInt 7] [Some (AInt 4)] []) /\
  exec_submit_gen pinned MPPool g11 [AInt 7] [(0%nat, AInt 4)] = None.
Proof. split; vm_compute; reflexivity. Qed.
