(* Reference table of the DOCUMENTED unitaries of PennyLane's named gates.

   Every entry is transcribed by hand from the LaTeX formula (or, where there is none, from the
   textbook definition stated in words) in the class docstring of the gate; nothing here is
   derived from the library's matrix code.  It is the thing the extracted matrices are compared to.

   Conventions: gate angle number j (0-based, constructor order) appears through
     c j = cos(theta_j/2), s j = sin(theta_j/2), pexp j n d = exp(i (n/d) theta_j);
   a matrix is its list of rows; the first listed wire is the MOST significant bit of the index. *)
From Coq Require Import List ZArith QArith String.
From PLV Require Import Alg.Poly Tab.TrigSyms.
Import ListNotations.
Open Scope string_scope.
Open Scope list_scope.

(* ------------------------------------------------------------------ helpers *)
Definition gt_mat := list (list poly).

(* i * x  and  -i * x *)
Definition gt_i (x : poly) : poly := pI *p x.
Definition gt_mi (x : poly) : poly := -p (pI *p x).
(* e^{-i theta_j / 2}, e^{+i theta_j / 2}, e^{i theta_j} *)
Definition em (j : nat) : poly := pexp j (-1) 2.
Definition ep (j : nat) : poly := pexp j 1 2.
Definition e1 (j : nat) : poly := pexp j 1 1.

Fixpoint gt_lookup (r c : nat) (l : list (nat * nat * poly)) : option poly :=
  match l with
  | [] => None
  | (r', c', x) :: t => if (Nat.eqb r r' && Nat.eqb c c')%bool then Some x else gt_lookup r c t
  end.

(* d x d matrix: the listed (row, col, entry) triples; elsewhere [dg] on the diagonal and 0 off it.
   A diagonal position that is to hold 0 must be listed explicitly with p0. *)
Definition gt_sparse (d : nat) (dg : poly) (l : list (nat * nat * poly)) : gt_mat :=
  map (fun r => map (fun c => match gt_lookup r c l with
                              | Some x => x
                              | None => if Nat.eqb r c then dg else p0
                              end) (seq 0%nat d)) (seq 0%nat d).

Definition gt_ident (d : nat) : gt_mat := gt_sparse d p1 [].
Definition gt_diag (l : list poly) : gt_mat :=
  map (fun r => map (fun c => if Nat.eqb r c then nth r l p0 else p0) (seq 0%nat (List.length l))) (seq 0%nat (List.length l)).

(* big-endian bits of an index and back (first wire = most significant) *)
Fixpoint gt_bits (n i : nat) : list bool :=
  match n with O => [] | S m => gt_bits m (Nat.div2 i) ++ [Nat.odd i] end.
Definition gt_idx (bs : list bool) : nat := fold_left (fun (a : nat) (b : bool) => (2 * a + (if b then 1 else 0))%nat) bs 0%nat.

(* permutation matrix of a reversible classical map on n bits: |x> -> |f x> *)
Definition gt_classical (n : nat) (f : list bool -> list bool) : gt_mat :=
  map (fun r => map (fun c => if Nat.eqb r (gt_idx (f (gt_bits n c))) then p1 else p0) (seq 0 (2 ^ n)%nat)) (seq 0 (2 ^ n)%nat).

(* "apply X on the last wire iff the control wires hold exactly the values cv" *)
Fixpoint gt_beq (a b : list bool) : bool :=
  match a, b with
  | [], [] => true
  | x :: a', y :: b' => Bool.eqb x y && gt_beq a' b'
  | _, _ => false
  end.
Definition gt_mcx (cv : list bool) : gt_mat :=
  gt_classical (S (List.length cv))
    (fun bs => let ctl := removelast bs in let t := last bs false in
               if gt_beq ctl cv then ctl ++ [negb t] else bs).

(* cos(theta/2) I - i sin(theta/2) P  for a Pauli word P given as a matrix:  exp(-i theta/2 P) *)
Definition gt_exp_pauli (P : gt_mat) : gt_mat :=
  map (fun rc => map (fun cx => (if Nat.eqb (fst rc) (fst cx) then c 0 else p0) +p gt_mi (s 0 *p snd cx))
                     (combine (seq 0%nat (List.length (snd rc))) (snd rc)))
      (combine (seq 0%nat (List.length P)) P).

(* Pauli words as explicit matrices (tensor products written out) *)
Definition mI : poly := -p pI.
Definition m1 : poly := -p p1.
Definition P_X : gt_mat := [[p0; p1]; [p1; p0]].
Definition P_Y : gt_mat := [[p0; mI]; [pI; p0]].
Definition P_Z : gt_mat := [[p1; p0]; [p0; m1]].
(* Z (x) Y = diag(Y, -Y) *)
Definition P_ZY : gt_mat := [[p0; mI; p0; p0]; [pI; p0; p0; p0]; [p0; p0; p0; pI]; [p0; p0; mI; p0]].
(* X (x) X = antidiagonal ones *)
Definition P_XX : gt_mat := [[p0; p0; p0; p1]; [p0; p0; p1; p0]; [p0; p1; p0; p0]; [p1; p0; p0; p0]].
(* Z (x) Z and Z (x) Z (x) Z : diagonal, +1 on even parity, -1 on odd parity *)
Definition P_ZZ : gt_mat := gt_diag [p1; m1; m1; p1].
Definition P_ZZZ : gt_mat := gt_diag [p1; m1; m1; p1; m1; p1; p1; m1].

(* Rot(phi, theta, omega) entries, angles number 0,1,2 *)
Definition rot00 : poly := em 0 *p em 2 *p c 1.             (*  e^{-i(phi+omega)/2} cos(theta/2) *)
Definition rot01 : poly := -p (ep 0 *p em 2 *p s 1).        (* -e^{ i(phi-omega)/2} sin(theta/2) *)
Definition rot10 : poly := em 0 *p ep 2 *p s 1.             (*  e^{-i(phi-omega)/2} sin(theta/2) *)
Definition rot11 : poly := ep 0 *p ep 2 *p c 1.             (*  e^{ i(phi+omega)/2} cos(theta/2) *)

(* indices of |0011> and |1100> *)
Definition i0011 : nat := 3%nat.
Definition i1100 : nat := 12%nat.

(* ------------------------------------------------------------------ the table *)
Definition gate_table : list (string * gt_mat) := [
  (* ---- ops/identity.py ---- *)
  ("Identity", [[p1; p0]; [p0; p1]]);
  (* "multiplies all components of the state by e^{-i phi}" *)
  ("GlobalPhase", [[pexp 0 (-1) 1; p0]; [p0; pexp 0 (-1) 1]]);

  (* ---- ops/qubit/non_parametric_ops.py ---- *)
  ("PauliX", [[p0; p1]; [p1; p0]]);
  ("PauliY", [[p0; -p pI]; [pI; p0]]);
  ("PauliZ", [[p1; p0]; [p0; -p p1]]);
  (* 1/sqrt2 [[1, 1], [1, -1]] *)
  ("Hadamard", [[pr2; pr2]; [pr2; -p pr2]]);
  ("S", [[p1; p0]; [p0; pI]]);
  (* [[1, 0], [0, e^{i pi/4}]] *)
  ("T", [[p1; p0]; [p0; zetap 1]]);
  (* 1/2 [[1+i, 1-i], [1-i, 1+i]] *)
  ("SX", [[pq (1 # 2) *p (p1 +p pI); pq (1 # 2) *p (p1 -pp pI)];
          [pq (1 # 2) *p (p1 -pp pI); pq (1 # 2) *p (p1 +p pI)]]);
  ("SWAP", [[p1; p0; p0; p0];
            [p0; p0; p1; p0];
            [p0; p1; p0; p0];
            [p0; p0; p0; p1]]);
  (* 1/sqrt2 [[0,0,1,i],[0,0,i,1],[1,-i,0,0],[-i,1,0,0]] *)
  ("ECR", [[p0; p0; pr2; pr2 *p pI];
           [p0; p0; pr2 *p pI; pr2];
           [pr2; -p (pr2 *p pI); p0; p0];
           [-p (pr2 *p pI); pr2; p0; p0]]);
  ("ISWAP", [[p1; p0; p0; p0];
             [p0; p0; pI; p0];
             [p0; pI; p0; p0];
             [p0; p0; p0; p1]]);
  ("SISWAP", [[p1; p0; p0; p0];
              [p0; pr2; pI *p pr2; p0];
              [p0; pI *p pr2; pr2; p0];
              [p0; p0; p0; p1]]);

  (* ---- ops/qubit/parametric_ops_single_qubit.py ---- *)
  ("RX", [[c 0; gt_mi (s 0)]; [gt_mi (s 0); c 0]]);
  ("RY", [[c 0; -p s 0]; [s 0; c 0]]);
  ("RZ", [[em 0; p0]; [p0; ep 0]]);
  ("PhaseShift", [[p1; p0]; [p0; e1 0]]);
  ("Rot", [[rot00; rot01]; [rot10; rot11]]);
  ("U1", [[p1; p0]; [p0; e1 0]]);
  (* U2(phi, delta) = 1/sqrt2 [[1, -e^{i delta}], [e^{i phi}, e^{i(phi+delta)}]] *)
  ("U2", [[pr2; -p (pr2 *p e1 1)]; [pr2 *p e1 0; pr2 *p e1 0 *p e1 1]]);
  (* U3(theta, phi, delta) = [[cos(theta/2), -e^{i delta} sin(theta/2)],
                              [e^{i phi} sin(theta/2), e^{i(phi+delta)} cos(theta/2)]] *)
  ("U3", [[c 0; -p (e1 2 *p s 0)]; [e1 1 *p s 0; e1 1 *p e1 2 *p c 0]]);

  (* ---- ops/op_math/controlled_ops.py ---- *)
  ("CNOT", [[p1; p0; p0; p0];
            [p0; p1; p0; p0];
            [p0; p0; p0; p1];
            [p0; p0; p1; p0]]);
  ("CY", [[p1; p0; p0; p0];
          [p0; p1; p0; p0];
          [p0; p0; p0; -p pI];
          [p0; p0; pI; p0]]);
  ("CZ", [[p1; p0; p0; p0];
          [p0; p1; p0; p0];
          [p0; p0; p1; p0];
          [p0; p0; p0; -p p1]]);
  ("CH", [[p1; p0; p0; p0];
          [p0; p1; p0; p0];
          [p0; p0; pr2; pr2];
          [p0; p0; pr2; -p pr2]]);
  (* identity except rows 5,6: |101> <-> |110> *)
  ("CSWAP", gt_sparse 8 p1 [(5, 5, p0); (5, 6, p1); (6, 5, p1); (6, 6, p0)]%nat);
  (* identity except the last 2x2 block, which is X *)
  ("Toffoli", gt_sparse 8 p1 [(6, 6, p0); (6, 7, p1); (7, 6, p1); (7, 7, p0)]%nat);
  (* diag(1,1,1,1,1,1,1,-1) *)
  ("CCZ", gt_sparse 8 p1 [(7, 7, -p p1)]%nat);
  ("CRX", [[p1; p0; p0; p0];
           [p0; p1; p0; p0];
           [p0; p0; c 0; gt_mi (s 0)];
           [p0; p0; gt_mi (s 0); c 0]]);
  ("CRY", [[p1; p0; p0; p0];
           [p0; p1; p0; p0];
           [p0; p0; c 0; -p s 0];
           [p0; p0; s 0; c 0]]);
  ("CRZ", [[p1; p0; p0; p0];
           [p0; p1; p0; p0];
           [p0; p0; em 0; p0];
           [p0; p0; p0; ep 0]]);
  ("CRot", [[p1; p0; p0; p0];
            [p0; p1; p0; p0];
            [p0; p0; rot00; rot01];
            [p0; p0; rot10; rot11]]);
  ("ControlledPhaseShift", gt_diag [p1; p1; p1; e1 0]);

  (* ---- ops/qubit/parametric_ops_multi_qubit.py ---- *)
  ("CPhaseShift00", gt_diag [e1 0; p1; p1; p1]);
  ("CPhaseShift01", gt_diag [p1; e1 0; p1; p1]);
  ("CPhaseShift10", gt_diag [p1; p1; e1 0; p1]);
  ("IsingXX", [[c 0; p0; p0; gt_mi (s 0)];
               [p0; c 0; gt_mi (s 0); p0];
               [p0; gt_mi (s 0); c 0; p0];
               [gt_mi (s 0); p0; p0; c 0]]);
  ("IsingYY", [[c 0; p0; p0; gt_i (s 0)];
               [p0; c 0; gt_mi (s 0); p0];
               [p0; gt_mi (s 0); c 0; p0];
               [gt_i (s 0); p0; p0; c 0]]);
  ("IsingZZ", gt_diag [em 0; ep 0; ep 0; em 0]);
  ("IsingXY", [[p1; p0; p0; p0];
               [p0; c 0; gt_i (s 0); p0];
               [p0; gt_i (s 0); c 0; p0];
               [p0; p0; p0; p1]]);
  ("PSWAP", [[p1; p0; p0; p0];
             [p0; p0; e1 0; p0];
             [p0; e1 0; p0; p0];
             [p0; p0; p0; p1]]);
  (* MultiRZ(theta) = exp(-i theta/2 Z^{(x) n}) *)
  ("MultiRZ2", gt_exp_pauli P_ZZ);
  ("MultiRZ3", gt_exp_pauli P_ZZZ);
  (* RP(theta, P) = exp(-i theta/2 P) *)
  ("PauliRot_X", gt_exp_pauli P_X);
  ("PauliRot_Y", gt_exp_pauli P_Y);
  ("PauliRot_Z", gt_exp_pauli P_Z);
  ("PauliRot_ZY", gt_exp_pauli P_ZY);
  ("PauliRot_XX", gt_exp_pauli P_XX);

  (* MultiControlledX: "a PauliX gate controlled on an arbitrary computational basis state";
     control wires first, target last *)
  ("MCX_11", gt_mcx [true; true]);
  ("MCX_10", gt_mcx [true; false]);
  ("MCX_111", gt_mcx [true; true; true]);
  ("MCX_101", gt_mcx [true; false; true]);

  (* ---- ops/qubit/qchem_ops.py ---- *)
  ("SingleExcitation", [[p1; p0; p0; p0];
                        [p0; c 0; -p s 0; p0];
                        [p0; s 0; c 0; p0];
                        [p0; p0; p0; p1]]);
  ("SingleExcitationPlus", [[ep 0; p0; p0; p0];
                            [p0; c 0; -p s 0; p0];
                            [p0; s 0; c 0; p0];
                            [p0; p0; p0; ep 0]]);
  ("SingleExcitationMinus", [[em 0; p0; p0; p0];
                             [p0; c 0; -p s 0; p0];
                             [p0; s 0; c 0; p0];
                             [p0; p0; p0; em 0]]);
  (* |0011> -> cos(phi/2)|0011> + sin(phi/2)|1100>,  |1100> -> cos(phi/2)|1100> - sin(phi/2)|0011>,
     all other basis states unchanged.  (column = input state, row = output state) *)
  ("DoubleExcitation", gt_sparse 16 p1 [(i0011, i0011, c 0); (i1100, i0011, s 0);
                                        (i1100, i1100, c 0); (i0011, i1100, -p s 0)]);
  (* |0011> -> cos(phi/2)|0011> + sin(phi/2)|1100>,  |1100> -> cos(phi/2)|1100> - sin(phi/2)|0011>  (docstring as corrected by the fix: commit),
     |x> -> e^{i phi/2}|x> otherwise *)
  ("DoubleExcitationPlus", gt_sparse 16 (ep 0) [(i0011, i0011, c 0); (i1100, i0011, s 0);
                                                (i1100, i1100, c 0); (i0011, i1100, -p s 0)]);
  (* same rotation as DoubleExcitationPlus, |x> -> e^{-i phi/2}|x> otherwise *)
  ("DoubleExcitationMinus", gt_sparse 16 (em 0) [(i0011, i0011, c 0); (i1100, i0011, s 0);
                                                 (i1100, i1100, c 0); (i0011, i1100, -p s 0)]);
  (* Documented by its circuit (figure orbital_rotation.jpeg):
       fSWAP(pi) on wires 1,2 ; G(phi) on wires 0,1 ; G(phi) on wires 2,3 ; fSWAP(pi) on wires 1,2
     with G = SingleExcitation and fSWAP = FermionicSWAP as documented above/below, i.e.
     fSWAP(pi) = [[1,0,0,0],[0,0,1,0],[0,1,0,0],[0,0,0,-1]].  Multiplied out by hand:
       U[x0x1x2x3, q0q1q2q3] = f(q1,q2) f(x1,x2) G[x0x2, q0q2] G[x1x3, q1q3],  f(1,1) = -1, f = 1 otherwise.
     (Agrees with the docstring example: |1100> -> s^2|0011> + cs|0110> - cs|1001> + c^2|1100>.) *)
  ("OrbitalRotation",
     let cc := c 0 *p c 0 in let ss := s 0 *p s 0 in let cs := c 0 *p s 0 in
     let mcs := -p (c 0 *p s 0) in let ms := -p s 0 in
     gt_sparse 16 p1 [
       (* one particle, spin beta: {|0001>, |0100>} *)
       (1, 1, c 0); (4, 1, s 0); (1, 4, ms); (4, 4, c 0);
       (* one particle, spin alpha: {|0010>, |1000>} *)
       (2, 2, c 0); (8, 2, s 0); (2, 8, ms); (8, 8, c 0);
       (* one alpha and one beta particle: {|0011>, |0110>, |1001>, |1100>} *)
       (3, 3, cc);  (6, 3, mcs); (9, 3, cs);  (12, 3, ss);
       (3, 6, cs);  (6, 6, cc);  (9, 6, ss);  (12, 6, mcs);
       (3, 9, mcs); (6, 9, ss);  (9, 9, cc);  (12, 9, cs);
       (3, 12, ss); (6, 12, cs); (9, 12, mcs); (12, 12, cc);
       (* three particles, alpha hole: {|0111>, |1101>} *)
       (7, 7, c 0); (13, 7, ms); (7, 13, s 0); (13, 13, c 0);
       (* three particles, beta hole: {|1011>, |1110>} *)
       (11, 11, c 0); (14, 11, ms); (11, 14, s 0); (14, 14, c 0)]%nat);
  (* [[1,0,0,0],[0, e^{i phi/2} cos(phi/2), -i e^{i phi/2} sin(phi/2), 0],
      [0, -i e^{i phi/2} sin(phi/2), e^{i phi/2} cos(phi/2), 0],[0,0,0,e^{i phi}]] *)
  ("FermionicSWAP", [[p1; p0; p0; p0];
                     [p0; ep 0 *p c 0; gt_mi (ep 0 *p s 0); p0];
                     [p0; gt_mi (ep 0 *p s 0); ep 0 *p c 0; p0];
                     [p0; p0; p0; e1 0]]);

  (* ---- ops/qubit/arithmetic_ops.py ---- *)
  (* |a>|b>|c>|d> -> |a>|b>|b xor c>|bc xor d xor (b xor c)a> *)
  ("QubitCarry", gt_classical 4 (fun bs => match bs with
       | [a; b; c'; d] => [a; b; xorb b c'; xorb (xorb (b && c') d) (xorb b c' && a)]
       | _ => bs end)%bool);
  (* |a>|b>|c> -> |a>|b>|a xor b xor c> *)
  ("QubitSum", gt_classical 3 (fun bs => match bs with
       | [a; b; c'] => [a; b; xorb (xorb a b) c']
       | _ => bs end))
].

Fixpoint gt_assoc (name : string) (l : list (string * gt_mat)) : option gt_mat :=
  match l with
  | [] => None
  | (k, m) :: t => if String.eqb name k then Some m else gt_assoc name t
  end.

Definition gate_doc (name : string) : option (list (list poly)) := gt_assoc name gate_table.
