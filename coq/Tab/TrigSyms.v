(* Symbols for writing documented gate formulas as exact Laurent polynomials (hz = 4: zeta = exp(i pi/4);
   D = 8: z_j = exp(i theta_j / 8), j = 0,1,2 the gate's parameters in order), and what they denote. *)
From Coq Require Import List ZArith QArith Reals Bool Lia Lra.
From Coquelicot Require Import Complex.
From PLV Require Import Alg.Poly Alg.PolyEval Alg.Angles.
Import ListNotations.

Definition HZ : Z := 4.
Definition DD : Z := 8.

(* z_j^e  (variable index j+1; index 0 is zeta) *)
Definition zmon (j : nat) (e : Z) : poly := [(1%Q, (0%Z :: repeat 0%Z j) ++ [e])].
(* zeta^k *)
Definition zetap (k : Z) : poly := [(1%Q, [k])].
Definition pI : poly := zetap 2.                                     (* i *)
Definition pr2 : poly := [((1 # 2)%Q, [1%Z]); (((-1) # 2)%Q, [3%Z])]. (* 1/sqrt 2 = (zeta - zeta^3)/2 *)
Definition psqrt2 : poly := [(1%Q, [1%Z]); ((-1)%Q, [3%Z])].           (* sqrt 2 *)
Definition pq (q : Q) : poly := pconst q.

Definition padd' := nadd HZ.
Definition pmul' := nmul HZ.
Definition pneg' (p : poly) := pnorm HZ (pneg p).
Infix "+p" := padd' (at level 50, left associativity).
Infix "*p" := pmul' (at level 40, left associativity).
Notation "-p x" := (pneg' x) (at level 35, right associativity).
Definition psub' (a b : poly) := a +p (-p b).
Infix "-pp" := psub' (at level 50, left associativity).

(* exp(i * (n/d) * theta_j)  requires d | 8n *)
Definition pexp (j : nat) (n d : Z) : poly := zmon j (DD * n / d).
(* cos(theta_j * n / d), sin(theta_j * n / d) *)
Definition pcos (j : nat) (n d : Z) : poly := pq (1 # 2) *p (pexp j n d +p pexp j (- n) d).
Definition psin (j : nat) (n d : Z) : poly := pq ((-1) # 2) *p pI *p (pexp j n d -pp pexp j (- n) d).
(* the usual half-angle symbols of the documentation *)
Definition c (j : nat) : poly := pcos j 1 2.
Definition s (j : nat) : poly := psin j 1 2.
Definition p0 : poly := pzero.
Definition p1 : poly := pone.

(* ---------------- what the symbols denote ---------------- *)
Local Close Scope Q_scope.
Local Open Scope R_scope.
Local Open Scope C_scope.

Lemma eeval_skip rho k n e : eeval rho k (repeat 0%Z n ++ [e]) = zpow (rho (k + n)%nat) e.
Proof.
  revert k. induction n as [|n IH]; intros k; cbn [repeat app eeval].
  - rewrite Nat.add_0_r. ring.
  - rewrite IH. replace (S k + n)%nat with (k + S n)%nat by lia. cbn. ring.
Qed.

Lemma zmon_denotes th j e : peval (aenv HZ DD th) (zmon j e) = cis (IZR e * (nth j th 0%R / IZR DD)).
Proof.
  unfold zmon, peval. cbn [fold_right]. unfold teval. cbn [fst snd app eeval].
  rewrite (eeval_skip _ 1 j e). cbn [Nat.add]. rewrite aenv_var. cbn [aenv zpow]. cbn.
  unfold q2c, Q2R. cbn. replace (1 * / 1)%R with 1%R by field. ring.
Qed.

Lemma cis_plus_conj x : (cis x + cis (- x)) = RtoC (2 * cos x).
Proof. unfold cis. rewrite cos_neg, sin_neg. apply injective_projections; cbn; ring. Qed.
Lemma cis_minus_conj x : (cis x - cis (- x)) = (0, 2 * sin x)%R.
Proof. unfold cis. rewrite cos_neg, sin_neg. apply injective_projections; cbn; ring. Qed.

Lemma G8 th : good_env HZ (aenv HZ DD th).
Proof. apply aenv_good. unfold HZ. lia. Qed.

Lemma q2c_half : q2c (1 # 2) = RtoC (/ 2).
Proof. unfold q2c, Q2R. cbn. f_equal. field. Qed.
Lemma q2c_mhalf : q2c ((-1) # 2) = RtoC (- / 2).
Proof. unfold q2c, Q2R. cbn. f_equal. field. Qed.

Lemma pI_denotes th : peval (aenv HZ DD th) pI = Ci.
Proof.
  unfold pI, zetap, peval. cbn [fold_right]. unfold teval. cbn [fst snd eeval aenv].
  rewrite zpow_cis. unfold HZ. replace (IZR 2 * (PI / IZR 4))%R with (PI / 2)%R by (simpl; field).
  unfold cis. rewrite cos_PI2, sin_PI2. unfold q2c, Q2R. cbn. replace (1 * / 1)%R with 1%R by field.
  apply injective_projections; cbn; ring.
Qed.

(* c j denotes cos(theta_j / 2) and s j denotes sin(theta_j / 2) *)
Theorem c_denotes th j : peval (aenv HZ DD th) (c j) = RtoC (cos (nth j th 0%R / 2)).
Proof.
  unfold c, pcos, pexp, pmul', padd', pq. rewrite (peval_nmul _ _ (G8 th)), (peval_nadd _ _ (G8 th)), peval_pconst, !zmon_denotes.
  unfold DD. change (8 * 1 / 2)%Z with 4%Z. change (8 * - (1) / 2)%Z with (-4)%Z.
  replace (IZR 4 * (nth j th 0 / IZR 8))%R with (nth j th 0 / 2)%R by (simpl; field).
  replace (IZR (-4) * (nth j th 0 / IZR 8))%R with (- (nth j th 0 / 2))%R by (simpl; field).
  rewrite cis_plus_conj, q2c_half, <- RtoC_mult. f_equal. field.
Qed.

Theorem s_denotes th j : peval (aenv HZ DD th) (s j) = RtoC (sin (nth j th 0%R / 2)).
Proof.
  unfold s, psin, pexp, pmul', psub', padd', pneg', pq.
  rewrite !(peval_nmul _ _ (G8 th)), (peval_nadd _ _ (G8 th)), (peval_pnorm _ _ (G8 th)), (peval_pneg (aenv HZ DD th)), peval_pconst, pI_denotes, !zmon_denotes.
  unfold DD. change (8 * 1 / 2)%Z with 4%Z. change (8 * - (1) / 2)%Z with (-4)%Z.
  replace (IZR 4 * (nth j th 0 / IZR 8))%R with (nth j th 0 / 2)%R by (simpl; field).
  replace (IZR (-4) * (nth j th 0 / IZR 8))%R with (- (nth j th 0 / 2))%R by (simpl; field).
  change (cis (nth j th 0 / 2) + - cis (- (nth j th 0 / 2))) with (cis (nth j th 0 / 2) - cis (- (nth j th 0 / 2))).
  rewrite cis_minus_conj, q2c_mhalf. unfold Ci. apply injective_projections; cbn; field.
Qed.

(* exp(i (n/d) theta_j) when d divides 8 n *)
Theorem pexp_denotes th j n d : (d <> 0)%Z -> (Z.divide d (DD * n)) ->
  peval (aenv HZ DD th) (pexp j n d) = cis (IZR n / IZR d * nth j th 0%R).
Proof.
  intros Hd [k Hk]. unfold pexp. rewrite zmon_denotes. f_equal. rewrite Hk, Z.div_mul by exact Hd.
  assert (E : (IZR k * IZR d = IZR DD * IZR n)%R) by (rewrite <- !mult_IZR; f_equal; lia).
  unfold DD in *. assert (IZR d <> 0%R) by (apply not_0_IZR; exact Hd).
  assert (K : IZR k = (8 * IZR n / IZR d)%R).
  { apply (Rmult_eq_reg_r (IZR d)); [|assumption]. rewrite E. simpl. field. assumption. }
  rewrite K. simpl. field. assumption.
Qed.
