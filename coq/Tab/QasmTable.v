(* OpenQASM 2 standard library "qelib1.inc": the unitaries of its gates, WRITTEN BY HAND FROM THE SPEC.

   OpenQASM 2 has two built-in unitaries,
       U(theta,phi,lambda) = [[ cos(theta/2),             -e^{i lambda} sin(theta/2)      ],
                              [ e^{i phi} sin(theta/2),     e^{i(phi+lambda)} cos(theta/2) ]]
       CX c,t              = |0><0| (x) I + |1><1| (x) X          (first argument = control),
   and qelib1.inc defines every other gate by a body over them.  This file records the RESULTING matrix of
   each gate including the global phase that the body implies (e.g. rz(phi) := u1(phi) = diag(1, e^{i phi}),
   which is e^{+i phi/2} exp(-i phi Z/2); ch carries e^{i pi/4}; rxx carries e^{-i theta/2}).  The bodies
   themselves are transcribed in Disc/QasmModel.v and Disc/QasmProofs.v proves that each body multiplies out to
   the matrix recorded here (qelib_bodies_ok), so the only trusted data is U, CX and the bodies.
   Nothing here is derived from PennyLane.

   Conventions as in Tab/GateTable.v: gate parameter number j (0-based, in the ORDER OF THE GATE'S PARAMETER
   LIST) appears through c j = cos(theta_j/2), s j = sin(theta_j/2), e1 j = e^{i theta_j}, em/ep j = e^{-/+ i theta_j/2};
   a matrix is its list of rows; the first qubit argument is the MOST significant bit of the index. *)
From Coq Require Import List ZArith QArith String Bool.
From PLV Require Import Alg.Poly Tab.TrigSyms Tab.GateTable.
Import ListNotations.
Open Scope string_scope.
Open Scope list_scope.
Open Scope nat_scope.

(* ------------------------------------------------------------------ the two built-ins *)
Definition qU : gt_mat := [[c 0; -p (e1 2 *p s 0)]; [e1 1 *p s 0; e1 1 *p e1 2 *p c 0]].
Definition qCX : gt_mat := [[p1; p0; p0; p0]; [p0; p1; p0; p0]; [p0; p0; p0; p1]; [p0; p0; p1; p0]].

(* controlled 2x2 block, control = first qubit *)
Definition q_ctrl (a b c' d : poly) : gt_mat := [[p1; p0; p0; p0]; [p0; p1; p0; p0]; [p0; p0; a; b]; [p0; p0; c'; d]].
Definition q_mi : poly := -p pI.
Definition q_m1 : poly := -p p1.

(* ------------------------------------------------------------------ the table: name -> (#parameters, #qubits, matrix) *)
Definition qelib_table : list (string * (nat * nat * gt_mat)) := [
  ("U",   (3, 1, qU));
  ("CX",  (0, 2, qCX));
  (* gate u3(theta,phi,lambda) q { U(theta,phi,lambda) q; } *)
  ("u3",  (3, 1, qU));
  ("u",   (3, 1, qU));
  (* gate u2(phi,lambda) q { U(pi/2,phi,lambda) q; }  = 1/sqrt2 [[1, -e^{i lambda}], [e^{i phi}, e^{i(phi+lambda)}]] *)
  ("u2",  (2, 1, [[pr2; -p (pr2 *p e1 1)]; [pr2 *p e1 0; pr2 *p e1 0 *p e1 1]]));
  (* gate u1(lambda) q { U(0,0,lambda) q; } = diag(1, e^{i lambda}) *)
  ("u1",  (1, 1, [[p1; p0]; [p0; e1 0]]));
  ("p",   (1, 1, [[p1; p0]; [p0; e1 0]]));
  ("cx",  (0, 2, qCX));
  ("id",  (0, 1, [[p1; p0]; [p0; p1]]));
  (* x = u3(pi,0,pi), y = u3(pi,pi/2,pi/2), z = u1(pi): exactly the Pauli matrices *)
  ("x",   (0, 1, [[p0; p1]; [p1; p0]]));
  ("y",   (0, 1, [[p0; q_mi]; [pI; p0]]));
  ("z",   (0, 1, [[p1; p0]; [p0; q_m1]]));
  (* h = u2(0,pi) *)
  ("h",   (0, 1, [[pr2; pr2]; [pr2; -p pr2]]));
  (* s = u1(pi/2), sdg = u1(-pi/2), t = u1(pi/4), tdg = u1(-pi/4) *)
  ("s",   (0, 1, [[p1; p0]; [p0; pI]]));
  ("sdg", (0, 1, [[p1; p0]; [p0; q_mi]]));
  ("t",   (0, 1, [[p1; p0]; [p0; zetap 1%Z]]));
  ("tdg", (0, 1, [[p1; p0]; [p0; zetap (-1)%Z]]));
  (* rx(theta) = u3(theta,-pi/2,pi/2) = exp(-i theta X/2);  ry(theta) = u3(theta,0,0) = exp(-i theta Y/2) *)
  ("rx",  (1, 1, [[c 0; gt_mi (s 0)]; [gt_mi (s 0); c 0]]));
  ("ry",  (1, 1, [[c 0; -p s 0]; [s 0; c 0]]));
  (* rz(phi) = u1(phi) = diag(1, e^{i phi})  -- NOT exp(-i phi Z/2): differs by the global phase e^{i phi/2} *)
  ("rz",  (1, 1, [[p1; p0]; [p0; e1 0]]));
  (* sx = sdg h sdg = 1/sqrt2 [[1,-i],[-i,1]] (= e^{-i pi/4} sqrt(X));  sxdg = s h s *)
  ("sx",  (0, 1, [[pr2; gt_mi pr2]; [gt_mi pr2; pr2]]));
  ("sxdg", (0, 1, [[pr2; gt_i pr2]; [gt_i pr2; pr2]]));
  (* cz a,b { h b; cx a,b; h b; }   cy a,b { sdg b; cx a,b; s b; }   swap a,b { cx a,b; cx b,a; cx a,b; } *)
  ("cz",  (0, 2, q_ctrl p1 p0 p0 q_m1));
  ("cy",  (0, 2, q_ctrl p0 q_mi pI p0));
  ("swap", (0, 2, [[p1; p0; p0; p0]; [p0; p0; p1; p0]; [p0; p1; p0; p0]; [p0; p0; p0; p1]]));
  (* ch a,b { h b; sdg b; cx a,b; h b; t b; cx a,b; t b; h b; s b; x b; s a; }  = e^{i pi/4} * controlled-H *)
  ("ch",  (0, 2, [[zetap 1%Z; p0; p0; p0]; [p0; zetap 1%Z; p0; p0];
                  [p0; p0; zetap 1%Z *p pr2; zetap 1%Z *p pr2]; [p0; p0; zetap 1%Z *p pr2; -p (zetap 1%Z *p pr2)]]));
  (* ccx: the 15-gate Toffoli network; exactly the Toffoli permutation.  cswap a,b,c { cx c,b; ccx a,b,c; cx c,b; } *)
  ("ccx", (0, 3, gt_sparse 8 p1 [(6, 6, p0); (6, 7, p1); (7, 6, p1); (7, 7, p0)]%nat));
  ("cswap", (0, 3, gt_sparse 8 p1 [(5, 5, p0); (5, 6, p1); (6, 5, p1); (6, 6, p0)]%nat));
  (* crx, cry, crz: exactly the controlled exp(-i lambda P/2) (the bodies are phase-exact) *)
  ("crx", (1, 2, q_ctrl (c 0) (gt_mi (s 0)) (gt_mi (s 0)) (c 0)));
  ("cry", (1, 2, q_ctrl (c 0) (-p s 0) (s 0) (c 0)));
  ("crz", (1, 2, q_ctrl (em 0) p0 p0 (ep 0)));
  (* cu1(lambda) = cp(lambda) = diag(1,1,1,e^{i lambda});  cu3 = controlled U(theta,phi,lambda) *)
  ("cu1", (1, 2, gt_diag [p1; p1; p1; e1 0]));
  ("cp",  (1, 2, gt_diag [p1; p1; p1; e1 0]));
  ("cu3", (3, 2, q_ctrl (c 0) (-p (e1 2 *p s 0)) (e1 1 *p s 0) (e1 1 *p e1 2 *p c 0)));
  (* rxx(theta) = e^{-i theta/2} exp(-i theta XX/2);  rzz(theta) a,b { cx a,b; u1(theta) b; cx a,b; } = diag(1,e^{i theta},e^{i theta},1) *)
  ("rxx", (1, 2, [[em 0 *p c 0; p0; p0; em 0 *p gt_mi (s 0)];
                  [p0; em 0 *p c 0; em 0 *p gt_mi (s 0); p0];
                  [p0; em 0 *p gt_mi (s 0); em 0 *p c 0; p0];
                  [em 0 *p gt_mi (s 0); p0; p0; em 0 *p c 0]]));
  ("rzz", (1, 2, gt_diag [p1; e1 0; e1 0; p1]));
  (* NOT in OpenQASM 2 / qelib1.inc.  OpenQASM 3 built-in: gphase(gamma) multiplies the state by e^{+i gamma}; a 1x1 matrix on no qubit *)
  ("gphase", (1, 0, [[e1 0]]))
].

Fixpoint qt_assoc {A} (name : string) (l : list (string * A)) : option A :=
  match l with
  | [] => None
  | (k, m) :: t => if String.eqb name k then Some m else qt_assoc name t
  end.

Definition qelib_entry (name : string) : option (nat * nat * gt_mat) := qt_assoc name qelib_table.
Definition qelib_mat (name : string) : gt_mat := match qelib_entry name with Some (_, _, m) => m | None => [] end.
Definition qelib_arity (name : string) : option (nat * nat) := match qelib_entry name with Some (a, b, _) => Some (a, b) | None => None end.

(* ------------------------------------------------------------------ documented global phases of the PennyLane export table
   key "PennyLaneName->qasmname";  M_pennylane(theta) = phase(theta) * qelib(qasmname)(theta);  every pair not listed: phase 1.
   A phase is 1 or e^{i (n/d) theta_j}: a unit complex number for every real theta (ph_unit_denotes in Disc/QasmProofs.v). *)
Inductive qphase := PhOne | PhExp (j : nat) (n d : Z).
Definition ph_poly (ph : qphase) : poly := match ph with PhOne => p1 | PhExp j n d => pexp j n d end.
Definition ph_unit (ph : qphase) : bool :=
  match ph with PhOne => true | PhExp j n d => negb (d =? 0)%Z && ((DD * n) mod d =? 0)%Z end.

Definition export_phase_table : list (string * qphase) := [
  (* RZ(phi) = exp(-i phi Z/2) = e^{-i phi/2} diag(1, e^{i phi}) = e^{-i phi/2} * rz(phi) *)
  ("RZ->rz", PhExp 0 (-1)%Z 2%Z);
  (* GlobalPhase(phi) = e^{-i phi}, gphase(phi) = e^{+i phi}: opposite sign conventions; e^{-i phi} = e^{-2 i phi} * e^{+i phi}.
     Unobservable for a whole program, but the exported number is NOT the OpenQASM-3 argument of the same scalar. *)
  ("GlobalPhase->gphase", PhExp 0 (-2)%Z 1%Z)
].
Definition export_phase_doc (key : string) : qphase := match qt_assoc key export_phase_table with Some ph => ph | None => PhOne end.
Definition export_phase (key : string) : poly := ph_poly (export_phase_doc key).

Definition qt_scale (ph : poly) (M : gt_mat) : gt_mat := map (map (fun x => ph *p x)) M.

(* The generated obligation for a table pair: M_pennylane = ph * qelib matrix for the documented phase of the pair or, failing
   that, for one of the other global phases that occur between the rotation and the phase-gate conventions
   (so that e.g. re-mapping RZ to u1 would still be recognised as the same unitary up to a global phase). *)
Definition phase_candidates (key : string) : list qphase :=
  [export_phase_doc key; PhOne; PhExp 0 (-1)%Z 2%Z; PhExp 0 1%Z 2%Z].
Definition export_equiv (hz : Z) (eqb : Z -> gt_mat -> gt_mat -> bool) (key : string) (M N : gt_mat) : bool :=
  existsb (fun ph => eqb hz M (qt_scale (ph_poly ph) N)) (phase_candidates key).

