From Coq Require Import List ZArith Lia Bool Arith.
From PLV Require Import Num.JacProdModel.
Import ListNotations.
Open Scope Z_scope.
Lemma dot_nil_r : forall a, dot a [] = 0.
Proof. destruct a; reflexivity. Qed.
