(* Lemmas about the model of gradients/vjp.py and gradients/jvp.py *)
From Coq Require Import List ZArith Lia Bool Arith.
From PLV Require Import Num.JacProdModel.
Import ListNotations.
Open Scope Z_scope.

(* ---------- well-shaped PennyLane structures built from dense data ---------- *)
(* one Jacobian / dy entry: a rank-0 array (sc = true, the list has length 1) or a rank-1 array *)
Definition enc_t (sc : bool) (l : list Z) : tens := if sc then T0 (hd 0 l) else T1 l.
Definition enc_e (sc : bool) (l : list Z) : val := VT (enc_t sc l).
(* entry list l is well-shaped for dimension d *)
Definition wf_e (sc : bool) (d : nat) (l : list Z) : Prop := length l = d.
Definition wf_d (sc : bool) (d : nat) : Prop := d <> O /\ (sc = true -> d = 1%nat).

(* one measurement: kind, dy entry, Jacobian rows (one per trainable parameter) *)
Record meas := { m_sc : bool; m_dy : list Z; m_rows : list (list Z) }.
Definition wf_m (k : nat) (m : meas) : Prop :=
  wf_d (m_sc m) (length (m_dy m)) /\ length (m_rows m) = k /\
  Forall (fun r => length r = length (m_dy m)) (m_rows m).
Definition enc_dy (ms : list meas) : val := VTup (map (fun m => enc_e (m_sc m) (m_dy m)) ms).
Definition enc_jac_t (ms : list meas) : val :=                 (* tuple of tuples (several parameters) *)
  VTup (map (fun m => VTup (map (enc_e (m_sc m)) (m_rows m))) ms).
Definition enc_jac_a (ms : list meas) : val :=                 (* tuple of arrays (one parameter) *)
  VTup (map (fun m => enc_e (m_sc m) (hd [] (m_rows m))) ms).
(* the explicit contraction: component p of the VJP *)
Definition contract_vjp (ms : list meas) (p : nat) : Z :=
  fold_right Z.add 0 (map (fun m => dot (m_dy m) (nth p (m_rows m) [])) ms).
(* component i of the JVP of one measurement *)
Definition contract_jvp (tg : list Z) (rows : list (list Z)) (i : nat) : Z :=
  dot tg (map (fun r => nth i r 0) rows).

(* ---------- basics ---------- *)
Lemma dot_nil_r : forall a, dot a [] = 0.
Proof. destruct a; reflexivity. Qed.

Lemma dot_single : forall a x, dot [a] [x] = a * x.
Proof. intros; cbn [dot]; lia. Qed.

Lemma length1 : forall (l : list Z), length l = 1%nat -> l = [hd 0 l].
Proof. intros [|x [|y l]] H; cbn in *; try discriminate; reflexivity. Qed.

Lemma eqb_ln_refl : forall a, eqb_ln a a = true.
Proof. induction a; cbn; [reflexivity | rewrite Nat.eqb_refl, IHa; reflexivity]. Qed.

Lemma all_some_map_Some : forall {A B} (f : A -> B) (l : list A), all_some (map (fun x => Some (f x)) l) = Some (map f l).
Proof. induction l; cbn; [reflexivity | rewrite IHl; reflexivity]. Qed.

Lemma all_some_ext : forall {A B} (f : A -> option B) (g : A -> B) (l : list A),
  Forall (fun x => f x = Some (g x)) l -> all_some (map f l) = Some (map g l).
Proof.
  induction 1; cbn; [reflexivity|]. rewrite H, IHForall. reflexivity.
Qed.

Lemma map2o_map : forall {A B C D} (f : A -> B -> C) (a : D -> A) (b : D -> B) (l : list D),
  map2o f (map a l) (map b l) = Some (map (fun x => f (a x) (b x)) l).
Proof. induction l; cbn; [reflexivity | rewrite IHl; reflexivity]. Qed.

Lemma firstn_app_exact : forall (r l : list Z), firstn (length r) (r ++ l) = r.
Proof. induction r; cbn; intros; [reflexivity | rewrite IHr; reflexivity]. Qed.
Lemma skipn_app_exact : forall (r l : list Z), skipn (length r) (r ++ l) = l.
Proof. induction r; cbn; intros; auto. Qed.

Lemma chunks_aux_concat : forall n rows fuel, n <> O -> Forall (fun r => length r = n) rows ->
  (length (concat rows) <= fuel)%nat -> chunks_aux fuel n (concat rows) = Some rows.
Proof.
  intros n rows; induction rows as [|r rows IH]; intros fuel Hn Hf Hlen.
  - destruct fuel; reflexivity.
  - inversion Hf as [|? ? Hr Hf']; subst.
    cbn [concat] in *. rewrite app_length in Hlen.
    destruct r as [|x r]; [cbn in Hn; congruence|].
    destruct fuel as [|fuel]; [cbn in Hlen; lia|].
    cbn [chunks_aux app].
    change (x :: r ++ concat rows) with ((x :: r) ++ concat rows).
    destruct (Nat.ltb_spec (length ((x :: r) ++ concat rows)) (length (x :: r))) as [Hlt|_].
    + rewrite app_length in Hlt. lia.
    + rewrite firstn_app_exact, skipn_app_exact.
      rewrite IH; [reflexivity | assumption | assumption | cbn in Hlen; lia].
Qed.

Lemma chunks_concat : forall n rows, n <> O -> rows <> [] -> Forall (fun r => length r = n) rows ->
  chunks n (concat rows) = Some rows.
Proof.
  intros n rows Hn Hne Hf. unfold chunks.
  destruct (concat rows) eqn:E.
  - destruct rows as [|r rows]; [congruence|]. inversion Hf; subst.
    cbn in E. destruct r; [cbn in Hn; congruence | discriminate].
  - rewrite <- E. apply chunks_aux_concat; auto.
Qed.

(* ---------- stacking of encoded entries ---------- *)
Lemma as_t_enc : forall sc rows, all_some (map as_t (map (enc_e sc) rows)) = Some (map (enc_t sc) rows).
Proof. intros; rewrite map_map; cbn [enc_e as_t]. apply all_some_map_Some. Qed.

Lemma stack_flat_T0 : forall rows, rows <> [] ->
  stack_flat (map (enc_e true) rows) = Some (map (hd 0) rows).
Proof.
  intros rows Hne. unfold stack_flat. rewrite as_t_enc.
  destruct rows as [|r rows]; [congruence|]. cbn [map].
  replace (forallb _ (map (enc_t true) rows)) with true.
  - f_equal. cbn [enc_t]. clear. change (concat (map flatten_t (map (enc_t true) (r :: rows))) = map (hd 0) (r :: rows)).
    induction (r :: rows); cbn; [reflexivity | rewrite IHl; reflexivity].
  - symmetry. apply forallb_forall. intros u Hu. apply in_map_iff in Hu as (x & <- & _). reflexivity.
Qed.

Lemma stack_flat_T1 : forall d rows, rows <> [] -> Forall (fun r => length r = d) rows ->
  stack_flat (map (enc_e false) rows) = Some (concat rows).
Proof.
  intros d rows Hne Hf. unfold stack_flat. rewrite as_t_enc.
  destruct rows as [|r rows]; [congruence|]. cbn [map].
  inversion Hf as [|? ? Hr Hf']; subst.
  replace (forallb _ (map (enc_t false) rows)) with true.
  - f_equal. clear. change (concat (map flatten_t (map (enc_t false) (r :: rows))) = concat (r :: rows)).
    induction (r :: rows); cbn; [reflexivity | rewrite IHl; reflexivity].
  - symmetry. apply forallb_forall. intros u Hu. apply in_map_iff in Hu as (x & <- & Hx).
    rewrite Forall_forall in Hf'. cbn. rewrite (Hf' x Hx), Nat.eqb_refl. reflexivity.
Qed.

Lemma map_dot_single : forall a rows, Forall (fun r => length r = 1%nat) rows ->
  map (dot [a]) rows = vscale a (map (hd 0) rows).
Proof.
  induction 1 as [|r rows Hr Hf IH]; [reflexivity|].
  cbn [map vscale]. fold (vscale a (map (hd 0) rows)). rewrite IH. f_equal. rewrite (length1 r Hr). cbn. lia.
Qed.

Lemma concat_singletons : forall rows, Forall (fun r => length r = 1%nat) rows ->
  concat rows = map (hd 0) rows.
Proof.
  induction 1 as [|r rows Hr Hf IH]; cbn; [reflexivity|].
  rewrite IH, (length1 r Hr). reflexivity.
Qed.

(* ---------- compute_vjp_single ---------- *)
Lemma vjp_single_array_ok : forall sc dy row,
  wf_d sc (length dy) -> length row = length dy ->
  compute_vjp_single (enc_e sc dy) (enc_e sc row) = Ok (VT (T1 [dot dy row])).
Proof.
  intros sc dy row [Hd Hsc] Hr. destruct sc.
  - specialize (Hsc eq_refl). rewrite Hsc in Hr.
    rewrite (length1 dy Hsc), (length1 row Hr). reflexivity.
  - unfold enc_e, enc_t, compute_vjp_single. cbn [flatten_t].
    destruct row as [|x row]; [cbn in Hr; congruence|].
    cbn [is_shape0]. rewrite Hr, Nat.eqb_refl. reflexivity.
Qed.

Lemma vjp_single_tuple_ok : forall sc dy rows,
  wf_d sc (length dy) -> rows <> [] -> Forall (fun r => length r = length dy) rows ->
  compute_vjp_single (enc_e sc dy) (VTup (map (enc_e sc) rows)) = Ok (VT (T1 (map (dot dy) rows))).
Proof.
  intros sc dy rows [Hd Hsc] Hne Hf. unfold compute_vjp_single.
  destruct (map (enc_e sc) rows) eqn:Em; [destruct rows; [congruence | discriminate]|].
  rewrite <- Em. clear Em.
  destruct sc.
  - specialize (Hsc eq_refl). rewrite Hsc in Hf.
    destruct dy as [|a [|? ?]]; cbn in Hsc; try discriminate.
    cbn [enc_e enc_t flatten_t length Nat.eqb hd].
    rewrite (stack_flat_T0 rows Hne).
    rewrite map_dot_single by assumption. reflexivity.
  - cbn [enc_e enc_t flatten_t].
    rewrite (stack_flat_T1 (length dy) rows Hne Hf).
    destruct (Nat.eqb_spec (length dy) 1) as [H1|H1].
    + rewrite H1 in Hf. rewrite concat_singletons by assumption.
      destruct dy as [|a [|? ?]]; cbn in H1; try discriminate.
      rewrite map_dot_single by assumption. reflexivity.
    + rewrite chunks_concat by assumption. reflexivity.
Qed.

(* ---------- sums of stacked vectors ---------- *)
Lemma vadd_length : forall a b, length a = length b -> length (vadd a b) = length a.
Proof. induction a; destruct b; cbn; intros; try discriminate; auto. Qed.

Lemma nth_vadd : forall a b p, length a = length b -> nth p (vadd a b) 0 = nth p a 0 + nth p b 0.
Proof.
  induction a; destruct b; cbn; intros p H; try discriminate.
  - destruct p; reflexivity.
  - destruct p; [reflexivity | apply IHa; lia].
Qed.

Lemma sum_stack_T1 : forall vs, sum_stack (map T1 vs) = option_map T1 (vsum1 vs).
Proof.
  induction vs as [|v vs IH]; [reflexivity|].
  destruct vs as [|w vs]; [reflexivity|].
  cbn [map sum_stack vsum1] in *. rewrite IH.
  destruct (match vs with [] => Some w | _ :: _ => _ end) as [s|]; cbn [option_map]; [|reflexivity].
  unfold tadd. cbn [tshape eqb_ln]. rewrite Bool.andb_true_r.
  destruct (Nat.eqb (length v) (length s)); reflexivity.
Qed.

Lemma vsum1_some : forall k vs, vs <> [] -> Forall (fun v => length v = k) vs ->
  exists c, vsum1 vs = Some c /\ length c = k.
Proof.
  intros k vs Hne Hf. induction Hf as [|v vs Hv Hf IH]; [congruence|].
  destruct vs as [|w vs].
  - exists v. split; [reflexivity | assumption].
  - destruct IH as (c & Hc & Hl); [discriminate|].
    cbn [vsum1] in *. rewrite Hc. rewrite Hv, Hl, Nat.eqb_refl.
    eexists; split; [reflexivity|]. rewrite vadd_length; lia.
Qed.

Lemma nth_vsum1 : forall k vs c, Forall (fun v => length v = k) vs -> vsum1 vs = Some c ->
  length c = k /\ forall p, nth p c 0 = fold_right Z.add 0 (map (fun v => nth p v 0) vs).
Proof.
  intros k vs. induction vs as [|v vs IH]; intros c Hf Hc; [discriminate|].
  inversion Hf as [|? ? Hv Hf']; subst.
  destruct vs as [|w vs].
  - cbn in Hc. inversion Hc; subst. split; [reflexivity|]. intros p. cbn. lia.
  - cbn [vsum1] in Hc, IH.
    destruct (match vs with [] => Some w | _ :: _ => _ end) as [s|] eqn:Es; [|discriminate].
    destruct (IH s Hf' eq_refl) as [Hl Hn].
    destruct (Nat.eqb_spec (length v) (length s)) as [E|E]; [|discriminate].
    inversion Hc; subst. split; [apply vadd_length; assumption|].
    intros p. rewrite nth_vadd by assumption. rewrite Hn. reflexivity.
Qed.

Lemma nth_map_dot : forall dy rows p, nth p (map (dot dy) rows) 0 = dot dy (nth p rows []).
Proof.
  induction rows as [|r rows IH]; intros p.
  - destruct p; cbn; rewrite dot_nil_r; reflexivity.
  - destruct p; cbn; [reflexivity | apply IH].
Qed.

(* the per-measurement VJP vectors, the vector the code sums *)
Definition vjp_rows (ms : list meas) : list (list Z) := map (fun m => map (dot (m_dy m)) (m_rows m)) ms.

Lemma vjp_rows_len : forall k ms, Forall (wf_m k) ms -> Forall (fun v => length v = k) (vjp_rows ms).
Proof.
  intros k ms H. unfold vjp_rows. rewrite Forall_map. eapply Forall_impl; [|exact H].
  intros m (_ & Hk & _). rewrite map_length. assumption.
Qed.

Lemma contract_vjp_spec : forall k ms c, Forall (wf_m k) ms -> vsum1 (vjp_rows ms) = Some c ->
  length c = k /\ forall p, nth p c 0 = contract_vjp ms p.
Proof.
  intros k ms c Hf Hc. destruct (nth_vsum1 k _ c (vjp_rows_len k ms Hf) Hc) as [Hl Hn].
  split; [assumption|]. intros p. rewrite Hn. unfold contract_vjp, vjp_rows. rewrite map_map.
  f_equal. apply map_ext. intros m. apply nth_map_dot.
Qed.

(* ---------- compute_vjp_multi: the except-branch ---------- *)
Lemma all_some_T0 : forall l,
  all_some (map (fun t => match t with T0 x => Some x | _ => None end) (map T0 l)) = Some l.
Proof. induction l; cbn; [reflexivity | rewrite IHl; reflexivity]. Qed.

Lemma stack_row_T0 : forall l, l <> [] -> stack_row (map T0 l) = Some (T1 l).
Proof.
  intros [|x l] H; [congruence|]. unfold stack_row. simpl. rewrite all_some_T0. reflexivity.
Qed.

Lemma fallback_row_ok : forall k m, k <> O -> wf_m k m ->
  fallback_row (enc_e (m_sc m) (m_dy m)) (VTup (map (enc_e (m_sc m)) (m_rows m)))
  = Some (T1 (map (dot (m_dy m)) (m_rows m))).
Proof.
  intros k m Hk (Hd & Hlen & Hf). unfold fallback_row. rewrite map_map.
  rewrite (all_some_ext _ (fun r => T0 (dot (m_dy m) r))).
  - rewrite <- (map_map (dot (m_dy m)) T0). apply stack_row_T0.
    destruct (m_rows m); [cbn in Hlen; congruence | discriminate].
  - eapply Forall_impl; [|exact Hf]. intros r Hr. cbn beta.
    rewrite vjp_single_array_ok by assumption. reflexivity.
Qed.

Definition dyl (ms : list meas) : list val := map (fun m => enc_e (m_sc m) (m_dy m)) ms.
Definition jtl (ms : list meas) : list val := map (fun m => VTup (map (enc_e (m_sc m)) (m_rows m))) ms.

Lemma vjp_fallback_ok : forall k ms, k <> O -> Forall (wf_m k) ms ->
  vjp_fallback (dyl ms) (jtl ms) = match vsum1 (vjp_rows ms) with Some c => Ok (VT (T1 c)) | None => Err end.
Proof.
  intros k ms Hk Hf. unfold vjp_fallback, dyl, jtl. rewrite map2o_map.
  rewrite (all_some_ext _ (fun m => T1 (map (dot (m_dy m)) (m_rows m)))).
  - rewrite <- (map_map (fun m => map (dot (m_dy m)) (m_rows m)) T1). fold (vjp_rows ms).
    rewrite sum_stack_T1. destruct (vsum1 (vjp_rows ms)); reflexivity.
  - eapply Forall_impl; [|exact Hf]. intros m Hm. cbn beta.
    apply (fallback_row_ok k); assumption.
Qed.

(* ---------- compute_vjp_multi: the einsum paths ---------- *)
Lemma as_T0_dyl : forall ms xs, all_some (map as_T0 (dyl ms)) = Some xs ->
  xs = map (fun m => hd 0 (m_dy m)) ms /\ Forall (fun m => m_sc m = true) ms.
Proof.
  induction ms as [|m ms IH]; intros xs H.
  - cbn in H. inversion H. split; [reflexivity | constructor].
  - unfold dyl in H. cbn [map] in H. fold (dyl ms) in H. unfold enc_e at 1, enc_t at 1 in H.
    destruct (m_sc m) eqn:Esc; cbn [as_T0 all_some] in H; [|discriminate].
    destruct (all_some (map as_T0 (dyl ms))) as [ys|] eqn:E; [|discriminate].
    inversion H; subst. destruct (IH ys eq_refl) as [-> Hall].
    split; [reflexivity | constructor; assumption].
Qed.

Lemma as_T1_dyl : forall ms rows, all_some (map as_T1 (dyl ms)) = Some rows ->
  rows = map m_dy ms /\ Forall (fun m => m_sc m = false) ms.
Proof.
  induction ms as [|m ms IH]; intros xs H.
  - cbn in H. inversion H. split; [reflexivity | constructor].
  - unfold dyl in H. cbn [map] in H. fold (dyl ms) in H. unfold enc_e at 1, enc_t at 1 in H.
    destruct (m_sc m) eqn:Esc; cbn [as_T1 all_some] in H; [discriminate|].
    destruct (all_some (map as_T1 (dyl ms))) as [ys|] eqn:E; [|discriminate].
    inversion H; subst. destruct (IH ys eq_refl) as [-> Hall].
    split; [reflexivity | constructor; assumption].
Qed.

Lemma dense0_jtl : forall ms, Forall (fun m => m_sc m = true) ms ->
  dense0 (jtl ms) = Some (map (fun m => map (hd 0) (m_rows m)) ms).
Proof.
  intros ms H. unfold dense0, jtl. rewrite map_map. apply all_some_ext.
  eapply Forall_impl; [|exact H]. intros m Hm. cbn beta. rewrite Hm, map_map.
  cbn [enc_e enc_t as_T0]. apply all_some_map_Some.
Qed.

Lemma dense1_jtl : forall ms, Forall (fun m => m_sc m = false) ms ->
  dense1 (jtl ms) = Some (map m_rows ms).
Proof.
  intros ms H. unfold dense1, jtl. rewrite map_map. apply all_some_ext.
  eapply Forall_impl; [|exact H]. intros m Hm. cbn beta. rewrite Hm, map_map.
  cbn [enc_e enc_t as_T1]. rewrite all_some_map_Some, map_id. reflexivity.
Qed.

Lemma einsum_s_sound : forall k ms xs, Forall (wf_m k) ms ->
  all_some (map as_T0 (dyl ms)) = Some xs -> einsum_s xs (jtl ms) = vsum1 (vjp_rows ms).
Proof.
  intros k ms xs Hf H. destruct (as_T0_dyl ms xs H) as [-> Hsc].
  unfold einsum_s. rewrite dense0_jtl by assumption. rewrite map2o_map.
  f_equal. unfold vjp_rows. apply map_ext_in. intros m Hin.
  rewrite Forall_forall in Hf, Hsc. destruct (Hf m Hin) as ((_ & H1) & _ & Hr).
  specialize (H1 (Hsc m Hin)). rewrite H1 in Hr.
  destruct (m_dy m) as [|a [|? ?]]; cbn in H1; try discriminate.
  cbn [hd]. symmetry. apply map_dot_single. assumption.
Qed.

Lemma einsum_v_sound : forall ms rows r,
  all_some (map as_T1 (dyl ms)) = Some rows -> einsum_v rows (jtl ms) = Some r -> vsum1 (vjp_rows ms) = Some r.
Proof.
  intros ms rows r H He. destruct (as_T1_dyl ms rows H) as [-> Hsc].
  unfold einsum_v in He. rewrite dense1_jtl in He by assumption.
  destruct (forallb _ (map m_rows ms)); [|discriminate].
  rewrite map2o_map in He. exact He.
Qed.

Lemma dy_kind_scalar : forall ds xs, dy_kind ds = KScalar xs -> all_some (map as_T0 ds) = Some xs.
Proof.
  intros ds xs H. unfold dy_kind in H. destruct ds as [|d ds]; [discriminate|].
  destruct (all_some (map as_T0 (d :: ds))) as [ys|]; [inversion H; reflexivity|].
  destruct (all_some (map as_T1 (d :: ds))) as [[|a r]|]; try discriminate.
  destruct (forallb _ r); discriminate.
Qed.

Lemma dy_kind_vector : forall ds rows, dy_kind ds = KVector rows -> all_some (map as_T1 ds) = Some rows.
Proof.
  intros ds rows H. unfold dy_kind in H. destruct ds as [|d ds]; [discriminate|].
  destruct (all_some (map as_T0 (d :: ds))) as [ys|]; [discriminate|].
  destruct (all_some (map as_T1 (d :: ds))) as [[|a r]|]; try discriminate.
  destruct (forallb _ r); [inversion H; reflexivity | discriminate].
Qed.

(* every path of the several-parameters branch returns the summed per-measurement vectors *)
Lemma vjp_multi_tuple_sum : forall k ms, k <> O -> ms <> [] -> Forall (wf_m k) ms ->
  compute_vjp_multi (enc_dy ms) (enc_jac_t ms)
  = match vsum1 (vjp_rows ms) with Some c => Ok (VT (T1 c)) | None => Err end.
Proof.
  intros k ms Hk Hne Hf. unfold enc_dy, enc_jac_t. fold (dyl ms) (jtl ms).
  destruct ms as [|m0 ms']; [congruence|].
  unfold compute_vjp_multi. unfold jtl at 1. cbn [map is_tup negb].
  change (VTup (map (enc_e (m_sc m0)) (m_rows m0)) :: map (fun m => VTup (map (enc_e (m_sc m)) (m_rows m))) ms')
    with (jtl (m0 :: ms')).
  set (ms := m0 :: ms') in *.
  destruct (dy_kind (dyl ms)) as [xs|rows|] eqn:Ek.
  - apply dy_kind_scalar in Ek. rewrite (einsum_s_sound k ms xs Hf Ek).
    destruct (vsum1 (vjp_rows ms)) eqn:Ev; [reflexivity|].
    rewrite (vjp_fallback_ok k ms Hk Hf), Ev. reflexivity.
  - apply dy_kind_vector in Ek.
    destruct (einsum_v rows (jtl ms)) as [r|] eqn:Ee.
    + rewrite (einsum_v_sound ms rows r Ek Ee). reflexivity.
    + apply (vjp_fallback_ok k ms Hk Hf).
  - apply (vjp_fallback_ok k ms Hk Hf).
Qed.

(* ---------- compute_vjp_multi: the single-parameter branch ---------- *)
Lemma vjp_multi_array_sum : forall ms, ms <> [] -> Forall (wf_m 1) ms ->
  compute_vjp_multi (enc_dy ms) (enc_jac_a ms)
  = match vsum1 (vjp_rows ms) with Some c => Ok (VT (T1 c)) | None => Err end.
Proof.
  intros ms Hne Hf. unfold enc_dy, enc_jac_a. fold (dyl ms).
  destruct ms as [|m0 ms']; [congruence|].
  unfold compute_vjp_multi. cbn [map].
  replace (is_tup (enc_e (m_sc m0) (hd [] (m_rows m0)))) with false by reflexivity.
  cbn [negb].
  change (enc_e (m_sc m0) (hd [] (m_rows m0)) :: map (fun m => enc_e (m_sc m) (hd [] (m_rows m))) ms')
    with (map (fun m => enc_e (m_sc m) (hd [] (m_rows m))) (m0 :: ms')).
  set (ms := m0 :: ms') in *.
  unfold dyl. rewrite map2o_map.
  rewrite (all_some_ext _ (fun m => T1 (map (dot (m_dy m)) (m_rows m)))).
  - rewrite <- (map_map (fun m => map (dot (m_dy m)) (m_rows m)) T1). fold (vjp_rows ms).
    rewrite sum_stack_T1. destruct (vsum1 (vjp_rows ms)); reflexivity.
  - eapply Forall_impl; [|exact Hf]. intros m (Hd & Hlen & Hr). cbn beta.
    destruct (m_rows m) as [|r [|? ?]]; cbn in Hlen; try discriminate.
    inversion Hr; subst. cbn [hd]. rewrite vjp_single_array_ok by assumption. reflexivity.
Qed.

Lemma vjp_multi_tuple_contraction : forall k ms, k <> O -> ms <> [] -> Forall (wf_m k) ms ->
  exists c, compute_vjp_multi (enc_dy ms) (enc_jac_t ms) = Ok (VT (T1 c)) /\ length c = k /\
            forall p, nth p c 0 = contract_vjp ms p.
Proof.
  intros k ms Hk Hne Hf.
  destruct (vsum1_some k (vjp_rows ms)) as (c & Hc & Hl).
  - unfold vjp_rows. destruct ms; [congruence | discriminate].
  - apply vjp_rows_len; assumption.
  - exists c. rewrite (vjp_multi_tuple_sum k ms Hk Hne Hf), Hc.
    split; [reflexivity|]. apply (contract_vjp_spec k ms c Hf Hc).
Qed.

Lemma vjp_multi_array_contraction : forall ms, ms <> [] -> Forall (wf_m 1) ms ->
  compute_vjp_multi (enc_dy ms) (enc_jac_a ms) = Ok (VT (T1 [contract_vjp ms 0])).
Proof.
  intros ms Hne Hf.
  destruct (vsum1_some 1 (vjp_rows ms)) as (c & Hc & Hl).
  - unfold vjp_rows. destruct ms; [congruence | discriminate].
  - apply vjp_rows_len; assumption.
  - rewrite (vjp_multi_array_sum ms Hne Hf), Hc.
    destruct (contract_vjp_spec 1 ms c Hf Hc) as [_ Hn].
    rewrite <- (Hn O). destruct c as [|x [|? ?]]; cbn in Hl; try discriminate. reflexivity.
Qed.

Lemma vjp_multi_sum_of_singles : forall k ms, k <> O -> ms <> [] -> Forall (wf_m k) ms ->
  Forall (fun m => compute_vjp_single (enc_e (m_sc m) (m_dy m)) (VTup (map (enc_e (m_sc m)) (m_rows m)))
                   = Ok (VT (T1 (map (dot (m_dy m)) (m_rows m))))) ms /\
  compute_vjp_multi (enc_dy ms) (enc_jac_t ms)
  = match sum_stack (map (fun m => T1 (map (dot (m_dy m)) (m_rows m))) ms) with
    | Some t => Ok (VT t) | None => Err end.
Proof.
  intros k ms Hk Hne Hf. split.
  - eapply Forall_impl; [|exact Hf]. intros m (Hd & Hlen & Hr).
    apply vjp_single_tuple_ok; try assumption. destruct (m_rows m); [cbn in Hlen; congruence | discriminate].
  - rewrite (vjp_multi_tuple_sum k ms Hk Hne Hf).
    rewrite <- (map_map (fun m => map (dot (m_dy m)) (m_rows m)) T1). fold (vjp_rows ms).
    rewrite sum_stack_T1. destruct (vsum1 (vjp_rows ms)); reflexivity.
Qed.

(* ---------- compute_jvp_single / multi ---------- *)
Lemma nth_vscale : forall c r i, nth i (vscale c r) 0 = c * nth i r 0.
Proof.
  induction r as [|x r IH]; intros i; destruct i; cbn; try lia. apply IH.
Qed.

Lemma lincomb_T0 : forall tg rows, length tg = length rows -> rows <> [] ->
  lincomb tg (map (enc_t true) rows) = Some (T0 (dot tg (map (hd 0) rows))).
Proof.
  induction tg as [|c tg IH]; intros [|r rows] Hl Hne; cbn in Hl; try congruence; try discriminate.
  destruct rows as [|r2 rows].
  - destruct tg; [|discriminate]. cbn. do 2 f_equal. lia.
  - destruct tg as [|c2 tg]; [discriminate|].
    specialize (IH (r2 :: rows)). cbn [map] in *. cbn [lincomb].
    cbn [lincomb] in IH. rewrite IH; [|cbn in *; lia | discriminate]. reflexivity.
Qed.

Lemma lincomb_T1 : forall d tg rows, length tg = length rows -> rows <> [] ->
  Forall (fun r => length r = d) rows ->
  exists L, lincomb tg (map (enc_t false) rows) = Some (T1 L) /\ length L = d /\
            forall i, nth i L 0 = contract_jvp tg rows i.
Proof.
  intros d. induction tg as [|c tg IH]; intros [|r rows] Hl Hne Hf; cbn in Hl; try congruence; try discriminate.
  inversion Hf as [|? ? Hr Hf']; subst.
  destruct rows as [|r2 rows].
  - destruct tg; [|discriminate]. exists (vscale c r). split; [reflexivity|]. split.
    + unfold vscale. rewrite map_length. reflexivity.
    + intros i. rewrite nth_vscale. unfold contract_jvp. cbn. lia.
  - destruct tg as [|c2 tg]; [discriminate|].
    destruct (IH (r2 :: rows)) as (L & HL & Hlen & Hn); [cbn in *; lia | discriminate | assumption|].
    cbn [map] in *. cbn [lincomb]. cbn [lincomb] in HL. rewrite HL.
    exists (vadd (vscale c r) L).
    assert (Hlv : length (vscale c r) = length L) by (unfold vscale; rewrite map_length; lia).
    split; [|split].
    + unfold tadd. cbn [tscale enc_t tshape eqb_ln]. rewrite Hlv, Nat.eqb_refl. reflexivity.
    + rewrite vadd_length by assumption. unfold vscale. rewrite map_length. reflexivity.
    + intros i. rewrite nth_vadd by assumption. rewrite nth_vscale, Hn. unfold contract_jvp. cbn. lia.
Qed.

Lemma jvp_single_scalar_ok : forall tg rows, length tg = length rows -> rows <> [] ->
  compute_jvp_single tg (VTup (map (enc_e true) rows)) = Ok (VT (T0 (dot tg (map (hd 0) rows)))).
Proof.
  intros tg rows Hl Hne. unfold compute_jvp_single.
  destruct (map (enc_e true) rows) eqn:Em; [destruct rows; [congruence | discriminate]|].
  rewrite <- Em. rewrite as_t_enc, lincomb_T0 by assumption. reflexivity.
Qed.

Lemma jvp_single_vector_ok : forall d tg rows, length tg = length rows -> rows <> [] ->
  Forall (fun r => length r = d) rows ->
  exists L, compute_jvp_single tg (VTup (map (enc_e false) rows)) = Ok (VT (T1 L)) /\ length L = d /\
            forall i, nth i L 0 = contract_jvp tg rows i.
Proof.
  intros d tg rows Hl Hne Hf. destruct (lincomb_T1 d tg rows Hl Hne Hf) as (L & HL & Hlen & Hn).
  exists L. split; [|split; assumption]. unfold compute_jvp_single.
  destruct (map (enc_e false) rows) eqn:Em; [destruct rows; [congruence | discriminate]|].
  rewrite <- Em. rewrite as_t_enc, HL. reflexivity.
Qed.

Lemma jvp_single_array_ok : forall c t, is_shape0 t = false ->
  compute_jvp_single [c] (VT t) = Ok (VT (tscale c t)).
Proof. intros c t H. unfold compute_jvp_single. rewrite H. reflexivity. Qed.

Lemma jvp_multi_is_map : forall tg js,
  compute_jvp_multi tg (VTup js)
  = match all_ok (map (compute_jvp_single tg) js) with Some l => Ok (VTup l) | None => Err end.
Proof. reflexivity. Qed.

(* ---------- the zero shortcut of vjp() ---------- *)
Lemma dot_zero_l : forall dy r, Forall (eq 0) dy -> dot dy r = 0.
Proof.
  induction dy as [|x dy IH]; intros r H; [reflexivity|].
  inversion H; subst. destruct r; [reflexivity|]. cbn [dot]. rewrite IH by assumption. lia.
Qed.

Lemma all_zero_repeat : forall k c, length c = k -> (forall p, nth p c 0 = 0) -> c = repeat 0 k.
Proof.
  induction k; intros [|x c] Hl Hn; cbn in Hl; try discriminate; [reflexivity|].
  cbn [repeat]. f_equal; [exact (Hn O)|]. apply IHk; [lia|]. intros p. exact (Hn (S p)).
Qed.

Lemma contract_vjp_zero : forall ms p, Forall (fun m => Forall (eq 0) (m_dy m)) ms -> contract_vjp ms p = 0.
Proof.
  intros ms p H. unfold contract_vjp. induction H as [|m ms Hm H IH]; [reflexivity|].
  cbn [map fold_right]. rewrite IH, dot_zero_l by assumption. reflexivity.
Qed.

Lemma all_zero_enc_e : forall sc dy, wf_d sc (length dy) -> Forall (eq 0) dy -> all_zero_val (enc_e sc dy) = true.
Proof.
  intros sc dy [_ Hsc] Hz. unfold enc_e, enc_t, all_zero_val. destruct sc; cbn [flatten_t].
  - specialize (Hsc eq_refl). destruct dy as [|a [|? ?]]; cbn in Hsc; try discriminate.
    inversion Hz; subst. reflexivity.
  - apply forallb_forall. intros x Hx. rewrite Forall_forall in Hz. rewrite <- (Hz x Hx). reflexivity.
Qed.

Lemma all_zero_enc_dy : forall k ms, Forall (wf_m k) ms -> Forall (fun m => Forall (eq 0) (m_dy m)) ms ->
  all_zero_val (enc_dy ms) = true.
Proof.
  intros k ms Hf Hz. unfold enc_dy. cbn [all_zero_val]. apply forallb_forall. intros v Hv.
  apply in_map_iff in Hv as (m & <- & Hin). rewrite Forall_forall in Hf, Hz.
  apply all_zero_enc_e; [apply (Hf m Hin) | apply (Hz m Hin)].
Qed.

Lemma zero_dy_shortcut_multi : forall t g results ms,
  tp_k t <> O -> multi t = true -> partitioned t = false -> ms <> [] ->
  Forall (wf_m (tp_k t)) ms -> Forall (fun m => Forall (eq 0) (m_dy m)) ms ->
  snd g results = enc_jac_t ms ->
  snd (vjp_tape t (enc_dy ms) g) results = vjp_proc t (enc_dy ms) g results.
Proof.
  intros t g results ms Hk Hm Hp Hne Hf Hz Hg.
  unfold vjp_tape. destruct (Nat.eqb_spec (tp_k t) 0) as [E|_]; [congruence|].
  rewrite (all_zero_enc_dy _ ms Hf Hz). cbn [snd].
  unfold vjp_proc. rewrite Hm, Hp, Hg. cbn [negb].
  destruct (vjp_multi_tuple_contraction (tp_k t) ms Hk Hne Hf) as (c & -> & Hl & Hn).
  do 3 f_equal. symmetry. apply all_zero_repeat; [assumption|].
  intros p. rewrite Hn. apply contract_vjp_zero. assumption.
Qed.

Lemma map_dot_zero : forall dy rows, Forall (eq 0) dy -> map (dot dy) rows = repeat 0 (length rows).
Proof.
  intros dy rows H. induction rows; cbn; [reflexivity|]. rewrite IHrows, dot_zero_l by assumption. reflexivity.
Qed.

Lemma zero_dy_shortcut_single : forall t g results sc dy rows,
  tp_k t <> O -> multi t = false -> partitioned t = false ->
  wf_d sc (length dy) -> length rows = tp_k t -> Forall (fun r => length r = length dy) rows ->
  Forall (eq 0) dy -> snd g results = VTup (map (enc_e sc) rows) ->
  snd (vjp_tape t (enc_e sc dy) g) results = vjp_proc t (enc_e sc dy) g results.
Proof.
  intros t g results sc dy rows Hk Hm Hp Hd Hlen Hr Hz Hg.
  unfold vjp_tape. destruct (Nat.eqb_spec (tp_k t) 0) as [E|_]; [congruence|].
  rewrite (all_zero_enc_e sc dy Hd Hz). cbn [snd].
  unfold vjp_proc. rewrite Hm, Hp, Hg. cbn [negb].
  rewrite vjp_single_tuple_ok; try assumption.
  - rewrite map_dot_zero, Hlen by assumption. reflexivity.
  - destruct rows; [cbn in Hlen; congruence | discriminate].
Qed.

(* ---------- the zero shortcut of jvp(), with and without a shot vector ---------- *)
Lemma nth_error_all : forall (l pre : list val),
  all_some (map (fun i => nth_error (pre ++ l) i) (seq (length pre) (length l))) = Some l.
Proof.
  induction l as [|x l IH]; intros pre; [reflexivity|].
  cbn [length seq map all_some].
  rewrite nth_error_app2 by lia. rewrite Nat.sub_diag. cbn [nth_error].
  specialize (IH (pre ++ [x])). rewrite <- app_assoc in IH. cbn [app] in IH.
  rewrite app_length in IH. cbn [length] in IH. rewrite Nat.add_1_r in IH. rewrite IH. reflexivity.
Qed.

Lemma all_ok_const : forall {A} (f : A -> res) z (l : list A), Forall (fun x => f x = Ok z) l ->
  all_ok (map f l) = Some (repeat z (length l)).
Proof.
  induction 1 as [|x l Hx Hf IH]; [reflexivity|]. cbn [map all_ok length repeat]. rewrite Hx, IH. reflexivity.
Qed.

Lemma forallb_zero : forall tg, Forall (eq 0) tg -> forallb (Z.eqb 0) tg = true.
Proof. induction 1 as [|x l Hx Hf IH]; [reflexivity|]. cbn. rewrite IH. subst. reflexivity. Qed.

(* entry length of a measurement of dimension d (0 = scalar measurement, rank-0 entries) *)
Definition dlen (d : nat) : nat := if Nat.eqb d 0 then 1%nat else d.
Definition enc_jrows (d : nat) (rows : list (list Z)) : val := VTup (map (enc_e (Nat.eqb d 0)) rows).

Lemma jvp_single_zero : forall d tg rows, Forall (eq 0) tg -> length tg = length rows -> rows <> [] ->
  Forall (fun r => length r = dlen d) rows ->
  compute_jvp_single tg (enc_jrows d rows) = Ok (zero_meas d).
Proof.
  intros d tg rows Hz Hl Hne Hf. unfold zero_meas, dlen, enc_jrows in *. destruct (Nat.eqb d 0).
  - rewrite jvp_single_scalar_ok by assumption. rewrite dot_zero_l by assumption. reflexivity.
  - destruct (jvp_single_vector_ok d tg rows Hl Hne Hf) as (L & -> & Hlen & Hn).
    do 3 f_equal. apply all_zero_repeat; [assumption|].
    intros i. rewrite Hn. unfold contract_jvp. apply dot_zero_l; assumption.
Qed.

Definition wf_rows (k d : nat) (rows : list (list Z)) : Prop :=
  length rows = k /\ Forall (fun r => length r = dlen d) rows.

Lemma zero_tangent_shortcut_shots : forall t g results d tg shots_rows,
  tp_k t <> O -> tp_meas t = [d] -> partitioned t = true ->
  Forall (eq 0) tg -> length tg = tp_k t ->
  length shots_rows = tp_shots t -> Forall (wf_rows (tp_k t) d) shots_rows ->
  snd g results = VTup (map (enc_jrows d) shots_rows) ->
  snd (jvp_tape t tg g) results = jvp_proc t tg g results.
Proof.
  intros t g results d tg shots_rows Hk Hm Hp Hz Hl Hn Hf Hg.
  unfold jvp_tape. destruct (Nat.eqb_spec (tp_k t) 0) as [E|_]; [congruence|].
  rewrite (forallb_zero tg Hz). cbn [snd]. rewrite Hp.
  unfold jvp_proc. rewrite Hp, Hg. cbn [negb].
  assert (Hmulti : multi t = false) by (unfold multi; rewrite Hm; reflexivity). rewrite Hmulti.
  assert (Hza : zero_all t = zero_meas d) by (unfold zero_all; rewrite Hm; reflexivity). rewrite Hza.
  rewrite <- Hn.
  pose proof (nth_error_all (map (enc_jrows d) shots_rows) []) as Hall.
  cbn [app length] in Hall. rewrite map_length in Hall. rewrite Hall.
  rewrite map_map. rewrite (all_ok_const _ (zero_meas d)); [reflexivity|].
  eapply Forall_impl; [|exact Hf]. intros rows [Hk' Hr]. cbn beta.
  apply jvp_single_zero; try assumption; [lia|]. destruct rows; [cbn in Hk'; congruence | discriminate].
Qed.

Lemma zero_tangent_shortcut_noshots : forall t g results d tg rows,
  tp_k t <> O -> tp_meas t = [d] -> partitioned t = false ->
  Forall (eq 0) tg -> length tg = tp_k t -> wf_rows (tp_k t) d rows ->
  snd g results = enc_jrows d rows ->
  snd (jvp_tape t tg g) results = jvp_proc t tg g results.
Proof.
  intros t g results d tg rows Hk Hm Hp Hz Hl [Hk' Hr] Hg.
  unfold jvp_tape. destruct (Nat.eqb_spec (tp_k t) 0) as [E|_]; [congruence|].
  rewrite (forallb_zero tg Hz). cbn [snd]. rewrite Hp.
  unfold jvp_proc. rewrite Hp, Hg. cbn [negb].
  assert (Hmulti : multi t = false) by (unfold multi; rewrite Hm; reflexivity). rewrite Hmulti.
  assert (Hza : zero_all t = zero_meas d) by (unfold zero_all; rewrite Hm; reflexivity). rewrite Hza.
  symmetry. apply jvp_single_zero; try assumption; [lia|]. destruct rows; [cbn in Hk'; congruence | discriminate].
Qed.

(* ---------- batch processing ---------- *)
Definition prepend (acc : list val) (r : res) : res :=
  match r with Ok (VTup l) => Ok (VTup (acc ++ l)) | _ => Err end.

Lemma prepend_prepend : forall a b r, prepend a (prepend b r) = prepend (a ++ b) r.
Proof. intros a b [[| |l]|]; cbn; try reflexivity. rewrite app_assoc. reflexivity. Qed.

Lemma batch_loop_acc : forall ext fs results acc,
  batch_loop ext fs results acc = prepend acc (batch_loop ext fs results []).
Proof.
  intros ext fs. induction fs as [|[n f] fs IH]; intros results acc.
  - cbn. rewrite app_nil_r. reflexivity.
  - cbn [batch_loop]. destruct (f (firstn n results)) as [v|]; [|reflexivity].
    destruct ext; destruct v as [|t|l]; cbn [app];
      repeat match goal with |- context [match iter_val ?v with _ => _ end] => destruct (iter_val v) end;
      try reflexivity;
      match goal with |- batch_loop _ _ _ ?a = prepend _ (batch_loop _ _ _ ?b) =>
        rewrite (IH _ a), (IH _ b), prepend_prepend end; try reflexivity.
Qed.

Fixpoint run_all (fs : list (nat * (list Z -> res))) (results : list Z) : list res :=
  match fs with [] => [] | (n, f) :: r => f (firstn n results) :: run_all r (skipn n results) end.
Definition offset (t : nat) (fs : list (nat * (list Z -> res))) : nat :=
  fold_right Nat.add O (map fst (firstn t fs)).
Definition iter_or_skip (v : val) : option (list val) := match v with VNone => Some [] | _ => iter_val v end.

Lemma skipn_add : forall (b a : nat) (l : list Z), skipn a (skipn b l) = skipn (b + a) l.
Proof.
  induction b; intros a l; [reflexivity|]. destruct l; cbn [skipn Nat.add]; [destruct a; reflexivity | apply IHb].
Qed.

Lemma run_all_slice : forall fs results t n f, nth_error fs t = Some (n, f) ->
  nth_error (run_all fs results) t = Some (f (firstn n (skipn (offset t fs) results))).
Proof.
  induction fs as [|[n0 f0] fs IH]; intros results t n f H; [destruct t; discriminate|].
  destruct t as [|t].
  - cbn in H. inversion H; subst. reflexivity.
  - cbn [nth_error] in H. cbn [run_all nth_error]. rewrite (IH _ t n f H).
    unfold offset. cbn [firstn map fold_right fst]. rewrite skipn_add. reflexivity.
Qed.

Lemma batch_append_ok : forall fs results vs, all_ok (run_all fs results) = Some vs ->
  batch_loop false fs results [] = Ok (VTup vs).
Proof.
  induction fs as [|[n f] fs IH]; intros results vs H.
  - cbn in H. inversion H. reflexivity.
  - cbn [run_all all_ok] in H. cbn [batch_loop].
    destruct (f (firstn n results)) as [v|]; [|discriminate].
    destruct (all_ok (run_all fs (skipn n results))) as [vs'|] eqn:E; [|discriminate].
    inversion H; subst. specialize (IH _ _ E).
    destruct v; cbn [app]; rewrite batch_loop_acc, IH; reflexivity.
Qed.

Lemma batch_err : forall ext fs results, all_ok (run_all fs results) = None ->
  batch_loop ext fs results [] = Err.
Proof.
  intros ext. induction fs as [|[n f] fs IH]; intros results H; [discriminate|].
  cbn [run_all all_ok] in H. cbn [batch_loop].
  destruct (f (firstn n results)) as [v|]; [|reflexivity].
  destruct (all_ok (run_all fs (skipn n results))) as [vs'|] eqn:E; [discriminate|].
  specialize (IH _ E).
  destruct ext; destruct v; cbn [app]; try destruct (iter_val _); try reflexivity;
    rewrite batch_loop_acc, IH; reflexivity.
Qed.

Lemma batch_extend_ok : forall fs results vs ls, all_ok (run_all fs results) = Some vs ->
  all_some (map iter_or_skip vs) = Some ls ->
  batch_loop true fs results [] = Ok (VTup (concat ls)).
Proof.
  induction fs as [|[n f] fs IH]; intros results vs ls H Hi.
  - cbn in H. inversion H; subst. cbn in Hi. inversion Hi. reflexivity.
  - cbn [run_all all_ok] in H. cbn [batch_loop].
    destruct (f (firstn n results)) as [v|]; [|discriminate].
    destruct (all_ok (run_all fs (skipn n results))) as [vs'|] eqn:E; [|discriminate].
    inversion H; subst. cbn [map all_some] in Hi.
    destruct (iter_or_skip v) as [l|] eqn:Ev; [|discriminate].
    destruct (all_some (map iter_or_skip vs')) as [ls'|] eqn:El; [|discriminate].
    inversion Hi; subst. specialize (IH _ _ _ E El). cbn [concat].
    destruct v as [|t|l0]; cbn [iter_or_skip] in Ev.
    + inversion Ev; subst. rewrite IH. reflexivity.
    + rewrite Ev. cbn [app]. rewrite batch_loop_acc, IH. reflexivity.
    + rewrite Ev. cbn [app]. rewrite batch_loop_acc, IH. reflexivity.
Qed.

Lemma batch_extend_not_iterable : forall fs results vs, all_ok (run_all fs results) = Some vs ->
  all_some (map iter_or_skip vs) = None -> batch_loop true fs results [] = Err.
Proof.
  induction fs as [|[n f] fs IH]; intros results vs H Hi.
  - cbn in H. inversion H; subst. discriminate.
  - cbn [run_all all_ok] in H. cbn [batch_loop].
    destruct (f (firstn n results)) as [v|]; [|discriminate].
    destruct (all_ok (run_all fs (skipn n results))) as [vs'|] eqn:E; [|discriminate].
    inversion H; subst. cbn [map all_some] in Hi.
    destruct v as [|t|l0]; cbn [iter_or_skip] in Hi.
    + destruct (all_some (map iter_or_skip vs')) eqn:El; [discriminate|]. apply (IH _ _ E El).
    + destruct (iter_val (VT t)); [|reflexivity].
      destruct (all_some (map iter_or_skip vs')) eqn:El; [discriminate|].
      cbn [app]. rewrite batch_loop_acc, (IH _ _ E El). reflexivity.
    + cbn [iter_val] in *. destruct (all_some (map iter_or_skip vs')) eqn:El; [discriminate|].
      cbn [app]. rewrite batch_loop_acc, (IH _ _ E El). reflexivity.
Qed.
