(* Lemmas about the model of gradients/vjp.py and gradients/jvp.py *)
From Coq Require Import List ZArith Lia Bool Arith.
From PLV Require Import Num.JacProdModel.
Import ListNotations.
Open Scope Z_scope.

(* ---------- well-shaped PennyLane structures built from dense data ---------- *)
(* one Jacobian / dy entry: a rank-0 array (sc = true, the list has length 1) or a rank-1 array *)
Definition enc_t (sc : bool) (l : list Z) : tens := if sc then T0 (hd 0 l) else T1 l.
Definition enc_e (sc : bool) (l : list Z) : val := VT (enc_t sc l).
(* entry list l is well-shaped for dimension d *)
Definition wf_e (sc : bool) (d : nat) (l : list Z) : Prop := length l = d.
Definition wf_d (sc : bool) (d : nat) : Prop := d <> O /\ (sc = true -> d = 1%nat).

(* one measurement: kind, dy entry, Jacobian rows (one per trainable parameter) *)
Record meas := { m_sc : bool; m_dy : list Z; m_rows : list (list Z) }.
Definition wf_m (k : nat) (m : meas) : Prop :=
  wf_d (m_sc m) (length (m_dy m)) /\ length (m_rows m) = k /\
  Forall (fun r => length r = length (m_dy m)) (m_rows m).
Definition enc_dy (ms : list meas) : val := VTup (map (fun m => enc_e (m_sc m) (m_dy m)) ms).
Definition enc_jac_t (ms : list meas) : val :=                 (* tuple of tuples (several parameters) *)
  VTup (map (fun m => VTup (map (enc_e (m_sc m)) (m_rows m))) ms).
Definition enc_jac_a (ms : list meas) : val :=                 (* tuple of arrays (one parameter) *)
  VTup (map (fun m => enc_e (m_sc m) (hd [] (m_rows m))) ms).
(* the explicit contraction: component p of the VJP *)
Definition contract_vjp (ms : list meas) (p : nat) : Z :=
  fold_right Z.add 0 (map (fun m => dot (m_dy m) (nth p (m_rows m) [])) ms).
(* component i of the JVP of one measurement *)
Definition contract_jvp (tg : list Z) (rows : list (list Z)) (i : nat) : Z :=
  dot tg (map (fun r => nth i r 0) rows).

(* ---------- basics ---------- *)
Lemma dot_nil_r : forall a, dot a [] = 0.
Proof. destruct a; reflexivity. Qed.

Lemma dot_single : forall a x, dot [a] [x] = a * x.
Proof. intros; cbn [dot]; lia. Qed.

Lemma length1 : forall (l : list Z), length l = 1%nat -> l = [hd 0 l].
Proof. intros [|x [|y l]] H; cbn in *; try discriminate; reflexivity. Qed.

Lemma eqb_ln_refl : forall a, eqb_ln a a = true.
Proof. induction a; cbn; [reflexivity | rewrite Nat.eqb_refl, IHa; reflexivity]. Qed.

Lemma all_some_map_Some : forall {A B} (f : A -> B) (l : list A), all_some (map (fun x => Some (f x)) l) = Some (map f l).
Proof. induction l; cbn; [reflexivity | rewrite IHl; reflexivity]. Qed.

Lemma all_some_ext : forall {A B} (f : A -> option B) (g : A -> B) (l : list A),
  Forall (fun x => f x = Some (g x)) l -> all_some (map f l) = Some (map g l).
Proof.
  induction 1; cbn; [reflexivity|]. rewrite H, IHForall. reflexivity.
Qed.

Lemma map2o_map : forall {A B C D} (f : A -> B -> C) (a : D -> A) (b : D -> B) (l : list D),
  map2o f (map a l) (map b l) = Some (map (fun x => f (a x) (b x)) l).
Proof. induction l; cbn; [reflexivity | rewrite IHl; reflexivity]. Qed.

Lemma firstn_app_exact : forall (r l : list Z), firstn (length r) (r ++ l) = r.
Proof. induction r; cbn; intros; [reflexivity | rewrite IHr; reflexivity]. Qed.
Lemma skipn_app_exact : forall (r l : list Z), skipn (length r) (r ++ l) = l.
Proof. induction r; cbn; intros; auto. Qed.

Lemma chunks_aux_concat : forall n rows fuel, n <> O -> Forall (fun r => length r = n) rows ->
  (length (concat rows) <= fuel)%nat -> chunks_aux fuel n (concat rows) = Some rows.
Proof.
  intros n rows; induction rows as [|r rows IH]; intros fuel Hn Hf Hlen.
  - destruct fuel; reflexivity.
  - inversion Hf as [|? ? Hr Hf']; subst.
    cbn [concat] in *. rewrite app_length in Hlen.
    destruct r as [|x r]; [cbn in Hn; congruence|].
    destruct fuel as [|fuel]; [cbn in Hlen; lia|].
    cbn [chunks_aux app].
    change (x :: r ++ concat rows) with ((x :: r) ++ concat rows).
    destruct (Nat.ltb_spec (length ((x :: r) ++ concat rows)) (length (x :: r))) as [Hlt|_].
    + rewrite app_length in Hlt. lia.
    + rewrite firstn_app_exact, skipn_app_exact.
      rewrite IH; [reflexivity | assumption | assumption | cbn in Hlen; lia].
Qed.

Lemma chunks_concat : forall n rows, n <> O -> rows <> [] -> Forall (fun r => length r = n) rows ->
  chunks n (concat rows) = Some rows.
Proof.
  intros n rows Hn Hne Hf. unfold chunks.
  destruct (concat rows) eqn:E.
  - destruct rows as [|r rows]; [congruence|]. inversion Hf; subst.
    cbn in E. destruct r; [cbn in Hn; congruence | discriminate].
  - rewrite <- E. apply chunks_aux_concat; auto.
Qed.

(* ---------- stacking of encoded entries ---------- *)
Lemma as_t_enc : forall sc rows, all_some (map as_t (map (enc_e sc) rows)) = Some (map (enc_t sc) rows).
Proof. intros; rewrite map_map; cbn [enc_e as_t]. apply all_some_map_Some. Qed.

Lemma stack_flat_T0 : forall rows, rows <> [] ->
  stack_flat (map (enc_e true) rows) = Some (map (hd 0) rows).
Proof.
  intros rows Hne. unfold stack_flat. rewrite as_t_enc.
  destruct rows as [|r rows]; [congruence|]. cbn [map].
  replace (forallb _ (map (enc_t true) rows)) with true.
  - f_equal. cbn [enc_t]. clear. change (concat (map flatten_t (map (enc_t true) (r :: rows))) = map (hd 0) (r :: rows)).
    induction (r :: rows); cbn; [reflexivity | rewrite IHl; reflexivity].
  - symmetry. apply forallb_forall. intros u Hu. apply in_map_iff in Hu as (x & <- & _). reflexivity.
Qed.

Lemma stack_flat_T1 : forall d rows, rows <> [] -> Forall (fun r => length r = d) rows ->
  stack_flat (map (enc_e false) rows) = Some (concat rows).
Proof.
  intros d rows Hne Hf. unfold stack_flat. rewrite as_t_enc.
  destruct rows as [|r rows]; [congruence|]. cbn [map].
  inversion Hf as [|? ? Hr Hf']; subst.
  replace (forallb _ (map (enc_t false) rows)) with true.
  - f_equal. clear. change (concat (map flatten_t (map (enc_t false) (r :: rows))) = concat (r :: rows)).
    induction (r :: rows); cbn; [reflexivity | rewrite IHl; reflexivity].
  - symmetry. apply forallb_forall. intros u Hu. apply in_map_iff in Hu as (x & <- & Hx).
    rewrite Forall_forall in Hf'. cbn. rewrite (Hf' x Hx), Nat.eqb_refl. reflexivity.
Qed.

Lemma map_dot_single : forall a rows, Forall (fun r => length r = 1%nat) rows ->
  map (dot [a]) rows = vscale a (map (hd 0) rows).
Proof.
  induction 1 as [|r rows Hr Hf IH]; [reflexivity|].
  cbn [map vscale]. fold (vscale a (map (hd 0) rows)). rewrite IH. f_equal. rewrite (length1 r Hr). cbn. lia.
Qed.

Lemma concat_singletons : forall rows, Forall (fun r => length r = 1%nat) rows ->
  concat rows = map (hd 0) rows.
Proof.
  induction 1 as [|r rows Hr Hf IH]; cbn; [reflexivity|].
  rewrite IH, (length1 r Hr). reflexivity.
Qed.

(* ---------- compute_vjp_single ---------- *)
Lemma vjp_single_array_ok : forall sc dy row,
  wf_d sc (length dy) -> length row = length dy ->
  compute_vjp_single (enc_e sc dy) (enc_e sc row) = Ok (VT (T1 [dot dy row])).
Proof.
  intros sc dy row [Hd Hsc] Hr. destruct sc.
  - specialize (Hsc eq_refl). rewrite Hsc in Hr.
    rewrite (length1 dy Hsc), (length1 row Hr). reflexivity.
  - unfold enc_e, enc_t, compute_vjp_single. cbn [flatten_t].
    destruct row as [|x row]; [cbn in Hr; congruence|].
    cbn [is_shape0]. rewrite Hr, Nat.eqb_refl. reflexivity.
Qed.

Lemma vjp_single_tuple_ok : forall sc dy rows,
  wf_d sc (length dy) -> rows <> [] -> Forall (fun r => length r = length dy) rows ->
  compute_vjp_single (enc_e sc dy) (VTup (map (enc_e sc) rows)) = Ok (VT (T1 (map (dot dy) rows))).
Proof.
  intros sc dy rows [Hd Hsc] Hne Hf. unfold compute_vjp_single.
  destruct (map (enc_e sc) rows) eqn:Em; [destruct rows; [congruence | discriminate]|].
  rewrite <- Em. clear Em.
  destruct sc.
  - specialize (Hsc eq_refl). rewrite Hsc in Hf.
    destruct dy as [|a [|? ?]]; cbn in Hsc; try discriminate.
    cbn [enc_e enc_t flatten_t length Nat.eqb hd].
    rewrite (stack_flat_T0 rows Hne).
    rewrite map_dot_single by assumption. reflexivity.
  - cbn [enc_e enc_t flatten_t].
    rewrite (stack_flat_T1 (length dy) rows Hne Hf).
    destruct (Nat.eqb_spec (length dy) 1) as [H1|H1].
    + rewrite H1 in Hf. rewrite concat_singletons by assumption.
      destruct dy as [|a [|? ?]]; cbn in H1; try discriminate.
      rewrite map_dot_single by assumption. reflexivity.
    + rewrite chunks_concat by assumption. reflexivity.
Qed.

(* ---------- sums of stacked vectors ---------- *)
Lemma vadd_length : forall a b, length a = length b -> length (vadd a b) = length a.
Proof. induction a; destruct b; cbn; intros; try discriminate; auto. Qed.

Lemma nth_vadd : forall a b p, length a = length b -> nth p (vadd a b) 0 = nth p a 0 + nth p b 0.
Proof.
  induction a; destruct b; cbn; intros p H; try discriminate.
  - destruct p; reflexivity.
  - destruct p; [reflexivity | apply IHa; lia].
Qed.

Lemma sum_stack_T1 : forall vs, sum_stack (map T1 vs) = option_map T1 (vsum1 vs).
Proof.
  induction vs as [|v vs IH]; [reflexivity|].
  destruct vs as [|w vs]; [reflexivity|].
  cbn [map sum_stack vsum1] in *. rewrite IH.
  destruct (match vs with [] => Some w | _ :: _ => _ end) as [s|]; cbn [option_map]; [|reflexivity].
  unfold tadd. cbn [tshape eqb_ln]. rewrite Bool.andb_true_r.
  destruct (Nat.eqb (length v) (length s)); reflexivity.
Qed.

Lemma vsum1_some : forall k vs, vs <> [] -> Forall (fun v => length v = k) vs ->
  exists c, vsum1 vs = Some c /\ length c = k.
Proof.
  intros k vs Hne Hf. induction Hf as [|v vs Hv Hf IH]; [congruence|].
  destruct vs as [|w vs].
  - exists v. split; [reflexivity | assumption].
  - destruct IH as (c & Hc & Hl); [discriminate|].
    cbn [vsum1] in *. rewrite Hc. rewrite Hv, Hl, Nat.eqb_refl.
    eexists; split; [reflexivity|]. rewrite vadd_length; lia.
Qed.

Lemma nth_vsum1 : forall k vs c, Forall (fun v => length v = k) vs -> vsum1 vs = Some c ->
  length c = k /\ forall p, nth p c 0 = fold_right Z.add 0 (map (fun v => nth p v 0) vs).
Proof.
  intros k vs. induction vs as [|v vs IH]; intros c Hf Hc; [discriminate|].
  inversion Hf as [|? ? Hv Hf']; subst.
  destruct vs as [|w vs].
  - cbn in Hc. inversion Hc; subst. split; [reflexivity|]. intros p. cbn. lia.
  - cbn [vsum1] in Hc, IH.
    destruct (match vs with [] => Some w | _ :: _ => _ end) as [s|] eqn:Es; [|discriminate].
    destruct (IH s Hf' eq_refl) as [Hl Hn].
    destruct (Nat.eqb_spec (length v) (length s)) as [E|E]; [|discriminate].
    inversion Hc; subst. split; [apply vadd_length; assumption|].
    intros p. rewrite nth_vadd by assumption. rewrite Hn. reflexivity.
Qed.

Lemma nth_map_dot : forall dy rows p, nth p (map (dot dy) rows) 0 = dot dy (nth p rows []).
Proof.
  induction rows as [|r rows IH]; intros p.
  - destruct p; cbn; rewrite dot_nil_r; reflexivity.
  - destruct p; cbn; [reflexivity | apply IH].
Qed.

(* the per-measurement VJP vectors, the vector the code sums *)
Definition vjp_rows (ms : list meas) : list (list Z) := map (fun m => map (dot (m_dy m)) (m_rows m)) ms.

Lemma vjp_rows_len : forall k ms, Forall (wf_m k) ms -> Forall (fun v => length v = k) (vjp_rows ms).
Proof.
  intros k ms H. unfold vjp_rows. rewrite Forall_map. eapply Forall_impl; [|exact H].
  intros m (_ & Hk & _). rewrite map_length. assumption.
Qed.

Lemma contract_vjp_spec : forall k ms c, Forall (wf_m k) ms -> vsum1 (vjp_rows ms) = Some c ->
  length c = k /\ forall p, nth p c 0 = contract_vjp ms p.
Proof.
  intros k ms c Hf Hc. destruct (nth_vsum1 k _ c (vjp_rows_len k ms Hf) Hc) as [Hl Hn].
  split; [assumption|]. intros p. rewrite Hn. unfold contract_vjp, vjp_rows. rewrite map_map.
  f_equal. apply map_ext. intros m. apply nth_map_dot.
Qed.

(* ---------- compute_vjp_multi: the except-branch ---------- *)
Lemma all_some_T0 : forall l,
  all_some (map (fun t => match t with T0 x => Some x | _ => None end) (map T0 l)) = Some l.
Proof. induction l; cbn; [reflexivity | rewrite IHl; reflexivity]. Qed.

Lemma stack_row_T0 : forall l, l <> [] -> stack_row (map T0 l) = Some (T1 l).
Proof.
  intros [|x l] H; [congruence|]. unfold stack_row. simpl. rewrite all_some_T0. reflexivity.
Qed.

Lemma fallback_row_ok : forall k m, k <> O -> wf_m k m ->
  fallback_row (enc_e (m_sc m) (m_dy m)) (VTup (map (enc_e (m_sc m)) (m_rows m)))
  = Some (T1 (map (dot (m_dy m)) (m_rows m))).
Proof.
  intros k m Hk (Hd & Hlen & Hf). unfold fallback_row. rewrite map_map.
  rewrite (all_some_ext _ (fun r => T0 (dot (m_dy m) r))).
  - rewrite <- (map_map (dot (m_dy m)) T0). apply stack_row_T0.
    destruct (m_rows m); [cbn in Hlen; congruence | discriminate].
  - eapply Forall_impl; [|exact Hf]. intros r Hr. cbn beta.
    rewrite vjp_single_array_ok by assumption. reflexivity.
Qed.

Definition dyl (ms : list meas) : list val := map (fun m => enc_e (m_sc m) (m_dy m)) ms.
Definition jtl (ms : list meas) : list val := map (fun m => VTup (map (enc_e (m_sc m)) (m_rows m))) ms.

Lemma vjp_fallback_ok : forall k ms, k <> O -> Forall (wf_m k) ms ->
  vjp_fallback (dyl ms) (jtl ms) = match vsum1 (vjp_rows ms) with Some c => Ok (VT (T1 c)) | None => Err end.
Proof.
  intros k ms Hk Hf. unfold vjp_fallback, dyl, jtl. rewrite map2o_map.
  rewrite (all_some_ext _ (fun m => T1 (map (dot (m_dy m)) (m_rows m)))).
  - rewrite <- (map_map (fun m => map (dot (m_dy m)) (m_rows m)) T1). fold (vjp_rows ms).
    rewrite sum_stack_T1. destruct (vsum1 (vjp_rows ms)); reflexivity.
  - eapply Forall_impl; [|exact Hf]. intros m Hm. cbn beta.
    apply (fallback_row_ok k); assumption.
Qed.

(* ---------- compute_vjp_multi: the einsum paths ---------- *)
Lemma as_T0_dyl : forall ms xs, all_some (map as_T0 (dyl ms)) = Some xs ->
  xs = map (fun m => hd 0 (m_dy m)) ms /\ Forall (fun m => m_sc m = true) ms.
Proof.
  induction ms as [|m ms IH]; intros xs H.
  - cbn in H. inversion H. split; [reflexivity | constructor].
  - unfold dyl in H. cbn [map] in H. fold (dyl ms) in H. unfold enc_e at 1, enc_t at 1 in H.
    destruct (m_sc m) eqn:Esc; cbn [as_T0 all_some] in H; [|discriminate].
    destruct (all_some (map as_T0 (dyl ms))) as [ys|] eqn:E; [|discriminate].
    inversion H; subst. destruct (IH ys eq_refl) as [-> Hall].
    split; [reflexivity | constructor; assumption].
Qed.

Lemma as_T1_dyl : forall ms rows, all_some (map as_T1 (dyl ms)) = Some rows ->
  rows = map m_dy ms /\ Forall (fun m => m_sc m = false) ms.
Proof.
  induction ms as [|m ms IH]; intros xs H.
  - cbn in H. inversion H. split; [reflexivity | constructor].
  - unfold dyl in H. cbn [map] in H. fold (dyl ms) in H. unfold enc_e at 1, enc_t at 1 in H.
    destruct (m_sc m) eqn:Esc; cbn [as_T1 all_some] in H; [discriminate|].
    destruct (all_some (map as_T1 (dyl ms))) as [ys|] eqn:E; [|discriminate].
    inversion H; subst. destruct (IH ys eq_refl) as [-> Hall].
    split; [reflexivity | constructor; assumption].
Qed.

Lemma dense0_jtl : forall ms, Forall (fun m => m_sc m = true) ms ->
  dense0 (jtl ms) = Some (map (fun m => map (hd 0) (m_rows m)) ms).
Proof.
  intros ms H. unfold dense0, jtl. rewrite map_map. apply all_some_ext.
  eapply Forall_impl; [|exact H]. intros m Hm. cbn beta. rewrite Hm, map_map.
  cbn [enc_e enc_t as_T0]. apply all_some_map_Some.
Qed.

Lemma dense1_jtl : forall ms, Forall (fun m => m_sc m = false) ms ->
  dense1 (jtl ms) = Some (map m_rows ms).
Proof.
  intros ms H. unfold dense1, jtl. rewrite map_map. apply all_some_ext.
  eapply Forall_impl; [|exact H]. intros m Hm. cbn beta. rewrite Hm, map_map.
  cbn [enc_e enc_t as_T1]. rewrite all_some_map_Some, map_id. reflexivity.
Qed.

Lemma einsum_s_sound : forall k ms xs, Forall (wf_m k) ms ->
  all_some (map as_T0 (dyl ms)) = Some xs -> einsum_s xs (jtl ms) = vsum1 (vjp_rows ms).
Proof.
  intros k ms xs Hf H. destruct (as_T0_dyl ms xs H) as [-> Hsc].
  unfold einsum_s. rewrite dense0_jtl by assumption. rewrite map2o_map.
  f_equal. unfold vjp_rows. apply map_ext_in. intros m Hin.
  rewrite Forall_forall in Hf, Hsc. destruct (Hf m Hin) as ((_ & H1) & _ & Hr).
  specialize (H1 (Hsc m Hin)). rewrite H1 in Hr.
  destruct (m_dy m) as [|a [|? ?]]; cbn in H1; try discriminate.
  cbn [hd]. symmetry. apply map_dot_single. assumption.
Qed.

Lemma einsum_v_sound : forall ms rows r,
  all_some (map as_T1 (dyl ms)) = Some rows -> einsum_v rows (jtl ms) = Some r -> vsum1 (vjp_rows ms) = Some r.
Proof.
  intros ms rows r H He. destruct (as_T1_dyl ms rows H) as [-> Hsc].
  unfold einsum_v in He. rewrite dense1_jtl in He by assumption.
  destruct (forallb _ (map m_rows ms)); [|discriminate].
  rewrite map2o_map in He. exact He.
Qed.

Lemma dy_kind_scalar : forall ds xs, dy_kind ds = KScalar xs -> all_some (map as_T0 ds) = Some xs.
Proof.
  intros ds xs H. unfold dy_kind in H. destruct ds as [|d ds]; [discriminate|].
  destruct (all_some (map as_T0 (d :: ds))) as [ys|]; [inversion H; reflexivity|].
  destruct (all_some (map as_T1 (d :: ds))) as [[|a r]|]; try discriminate.
  destruct (forallb _ r); discriminate.
Qed.

Lemma dy_kind_vector : forall ds rows, dy_kind ds = KVector rows -> all_some (map as_T1 ds) = Some rows.
Proof.
  intros ds rows H. unfold dy_kind in H. destruct ds as [|d ds]; [discriminate|].
  destruct (all_some (map as_T0 (d :: ds))) as [ys|]; [discriminate|].
  destruct (all_some (map as_T1 (d :: ds))) as [[|a r]|]; try discriminate.
  destruct (forallb _ r); [inversion H; reflexivity | discriminate].
Qed.

(* every path of the several-parameters branch returns the summed per-measurement vectors *)
Lemma vjp_multi_tuple_sum : forall k ms, k <> O -> ms <> [] -> Forall (wf_m k) ms ->
  compute_vjp_multi (enc_dy ms) (enc_jac_t ms)
  = match vsum1 (vjp_rows ms) with Some c => Ok (VT (T1 c)) | None => Err end.
Proof.
  intros k ms Hk Hne Hf. unfold enc_dy, enc_jac_t. fold (dyl ms) (jtl ms).
  destruct ms as [|m0 ms']; [congruence|].
  unfold compute_vjp_multi. unfold jtl at 1. cbn [map is_tup negb].
  change (VTup (map (enc_e (m_sc m0)) (m_rows m0)) :: map (fun m => VTup (map (enc_e (m_sc m)) (m_rows m))) ms')
    with (jtl (m0 :: ms')).
  set (ms := m0 :: ms') in *.
  destruct (dy_kind (dyl ms)) as [xs|rows|] eqn:Ek.
  - apply dy_kind_scalar in Ek. rewrite (einsum_s_sound k ms xs Hf Ek).
    destruct (vsum1 (vjp_rows ms)) eqn:Ev; [reflexivity|].
    rewrite (vjp_fallback_ok k ms Hk Hf), Ev. reflexivity.
  - apply dy_kind_vector in Ek.
    destruct (einsum_v rows (jtl ms)) as [r|] eqn:Ee.
    + rewrite (einsum_v_sound ms rows r Ek Ee). reflexivity.
    + apply (vjp_fallback_ok k ms Hk Hf).
  - apply (vjp_fallback_ok k ms Hk Hf).
Qed.
