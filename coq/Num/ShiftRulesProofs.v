From Coq Require Import List ZArith QArith Bool Reals Lra.
From PLV Require Import Num.ShiftRulesModel.
Import ListNotations.
Lemma branch_refuted_stub : equidistant_test (sortQ [1#1; 3#1]) = true /\ is_multiples (sortQ [1#1; 3#1]) = false.
Proof. split; vm_compute; reflexivity. Qed.
