(* Lemmas for C35.
   Part A (R): a shift rule is exact on cos(w.)/sin(w.) at all points iff it satisfies the trigonometric
               moment conditions; exactness then extends to every finite trigonometric polynomial; PennyLane's
               antisymmetric rules; order 2 (iterated rules); period wrap; the two-term rule.
   Part C (Q): the branch test of _get_shift_rule does not characterise {w,2w,..,Rw}; the repaired test does.
   Part D (Q): process_shifts-style merging / dropping / sorting preserves sum_k c_k g(s_k). *)
From Coq Require Import List ZArith QArith Qabs Bool Reals Lra Lia Permutation Morphisms.
From PLV Require Import Num.ShiftRulesModel.
Import ListNotations.

(* ================================================================== Part A *)
Section PartA.
Open Scope R_scope.

Lemma rapply_cos : forall rl w x,
  rapply rl (fun t => cos (w * t)) x = mom_cos rl w * cos (w * x) - mom_sin rl w * sin (w * x).
Proof.
  induction rl as [|[c s] t IH]; intros w x; cbn [rapply mom_cos mom_sin fst snd].
  - ring.
  - rewrite IH. replace (w * (x + s)) with (w * x + w * s) by ring. rewrite cos_plus. ring.
Qed.

Lemma rapply_sin : forall rl w x,
  rapply rl (fun t => sin (w * t)) x = mom_cos rl w * sin (w * x) + mom_sin rl w * cos (w * x).
Proof.
  induction rl as [|[c s] t IH]; intros w x; cbn [rapply mom_cos mom_sin fst snd].
  - ring.
  - rewrite IH. replace (w * (x + s)) with (w * x + w * s) by ring. rewrite sin_plus. ring.
Qed.

(* (a) exactness on the two trigonometric monomials at ALL x  <->  moment conditions *)
Lemma exact_iff_moments1 : forall rl w,
  ((forall x, rapply rl (fun t => cos (w * t)) x = - w * sin (w * x)) /\
   (forall x, rapply rl (fun t => sin (w * t)) x = w * cos (w * x)))
  <-> moments1 rl w.
Proof.
  intros rl w; unfold moments1; split.
  - intros [Hc Hs]. specialize (Hc 0). specialize (Hs 0).
    rewrite rapply_cos in Hc. rewrite rapply_sin in Hs.
    rewrite Rmult_0_r, cos_0, sin_0 in Hc, Hs. split; lra.
  - intros [Hc Hs]; split; intro x.
    + rewrite rapply_cos, Hc, Hs. ring.
    + rewrite rapply_sin, Hc, Hs. ring.
Qed.

Lemma exact_iff_moments2 : forall rl w,
  ((forall x, rapply rl (fun t => cos (w * t)) x = - (w * w) * cos (w * x)) /\
   (forall x, rapply rl (fun t => sin (w * t)) x = - (w * w) * sin (w * x)))
  <-> moments2 rl w.
Proof.
  intros rl w; unfold moments2; split.
  - intros [Hc Hs]. specialize (Hc 0). specialize (Hs 0).
    rewrite rapply_cos in Hc. rewrite rapply_sin in Hs.
    rewrite Rmult_0_r, cos_0, sin_0 in Hc, Hs. split; lra.
  - intros [Hc Hs]; split; intro x.
    + rewrite rapply_cos, Hc, Hs. ring.
    + rewrite rapply_sin, Hc, Hs. ring.
Qed.

(* ---- the right-hand sides really are the derivatives *)
Lemma dlim_ext : forall f g x l l', (forall y, f y = g y) -> l = l' ->
  derivable_pt_lim f x l -> derivable_pt_lim g x l'.
Proof.
  intros f g x l l' E El H eps He. subst l'. destruct (H eps He) as [d Hd]. exists d. intros h Hh Hlt.
  rewrite <- !E. apply Hd; assumption.
Qed.

Lemma dlim_lin : forall w x, derivable_pt_lim (fun t => w * t) x w.
Proof.
  intros w x eps He. exists (mkposreal 1 Rlt_0_1). intros h Hh _.
  replace ((w * (x + h) - w * x) / h - w) with 0 by (field; exact Hh).
  rewrite Rabs_R0. exact He.
Qed.

Lemma dlim_cosw : forall w x, derivable_pt_lim (fun t => cos (w * t)) x (- w * sin (w * x)).
Proof.
  intros w x.
  apply (dlim_ext (comp cos (fun t => w * t)) _ x (- sin (w * x) * w)); [reflexivity | ring |].
  apply derivable_pt_lim_comp; [apply dlim_lin | apply derivable_pt_lim_cos].
Qed.

Lemma dlim_sinw : forall w x, derivable_pt_lim (fun t => sin (w * t)) x (w * cos (w * x)).
Proof.
  intros w x.
  apply (dlim_ext (comp sin (fun t => w * t)) _ x (cos (w * x) * w)); [reflexivity | ring |].
  apply derivable_pt_lim_comp; [apply dlim_lin | apply derivable_pt_lim_sin].
Qed.

Lemma dlim_term : forall w a b x,
  derivable_pt_lim (fun t => a * cos (w * t) + b * sin (w * t)) x
                   (- (a * w) * sin (w * x) + b * w * cos (w * x)).
Proof.
  intros w a b x.
  apply (dlim_ext (plus_fct (mult_real_fct a (fun t => cos (w * t))) (mult_real_fct b (fun t => sin (w * t)))) _ x
                  (a * (- w * sin (w * x)) + b * (w * cos (w * x)))); [reflexivity | ring |].
  apply derivable_pt_lim_plus; apply derivable_pt_lim_scal; [apply dlim_cosw | apply dlim_sinw].
Qed.

Lemma dlim_term2 : forall w a b x,
  derivable_pt_lim (fun t => - (a * w) * sin (w * t) + b * w * cos (w * t)) x
                   (- (a * w * w) * cos (w * x) - b * w * w * sin (w * x)).
Proof.
  intros w a b x.
  apply (dlim_ext (plus_fct (mult_real_fct (- (a * w)) (fun t => sin (w * t)))
                            (mult_real_fct (b * w) (fun t => cos (w * t)))) _ x
                  (- (a * w) * (w * cos (w * x)) + b * w * (- w * sin (w * x)))); [reflexivity | ring |].
  apply derivable_pt_lim_plus; apply derivable_pt_lim_scal; [apply dlim_sinw | apply dlim_cosw].
Qed.

Lemma tsum_deriv : forall ts x, derivable_pt_lim (tsum ts) x (tderiv ts x).
Proof.
  induction ts as [|t r IH]; intro x.
  - apply (dlim_ext (fct_cte 0) _ x 0); [reflexivity | reflexivity | apply derivable_pt_lim_const].
  - apply (dlim_ext (plus_fct (fun y => ta t * cos (tw t * y) + tb t * sin (tw t * y)) (tsum r)) _ x
                    ((- (ta t * tw t) * sin (tw t * x) + tb t * tw t * cos (tw t * x)) + tderiv r x));
      [reflexivity | reflexivity |].
    apply derivable_pt_lim_plus; [apply dlim_term | apply IH].
Qed.

Lemma tpoly_deriv : forall a0 ts x, derivable_pt_lim (tpoly a0 ts) x (tderiv ts x).
Proof.
  intros a0 ts x.
  apply (dlim_ext (plus_fct (fct_cte a0) (tsum ts)) _ x (0 + tderiv ts x)); [reflexivity | ring |].
  apply derivable_pt_lim_plus; [apply derivable_pt_lim_const | apply tsum_deriv].
Qed.

Lemma tderiv_deriv : forall ts x, derivable_pt_lim (tderiv ts) x (tderiv2 ts x).
Proof.
  induction ts as [|t r IH]; intro x.
  - apply (dlim_ext (fct_cte 0) _ x 0); [reflexivity | reflexivity | apply derivable_pt_lim_const].
  - apply (dlim_ext (plus_fct (fun y => - (ta t * tw t) * sin (tw t * y) + tb t * tw t * cos (tw t * y)) (tderiv r)) _ x
                    ((- (ta t * tw t * tw t) * cos (tw t * x) - tb t * tw t * tw t * sin (tw t * x)) + tderiv2 r x));
      [reflexivity | reflexivity |].
    apply derivable_pt_lim_plus; [apply dlim_term2 | apply IH].
Qed.

(* ---- linearity of the rule *)
Lemma rapply_ext : forall rl f g x, (forall y, f y = g y) -> rapply rl f x = rapply rl g x.
Proof. induction rl as [|[c s] t IH]; intros; cbn [rapply]; [reflexivity | rewrite H, (IH f g x H); reflexivity]. Qed.

Lemma rapply_plus : forall rl f g x, rapply rl (fun y => f y + g y) x = rapply rl f x + rapply rl g x.
Proof. induction rl as [|[c s] t IH]; intros; cbn [rapply]; [ring | rewrite IH; ring]. Qed.

Lemma rapply_lin : forall rl f g a b x,
  rapply rl (fun y => a * f y + b * g y) x = a * rapply rl f x + b * rapply rl g x.
Proof. induction rl as [|[c s] t IH]; intros; cbn [rapply]; [ring | rewrite IH; ring]. Qed.

Lemma rapply_const : forall rl a x, rapply rl (fun _ => a) x = a * mom0 rl.
Proof. induction rl as [|[c s] t IH]; intros; cbn [rapply mom0 fst]; [ring | rewrite IH; ring]. Qed.

(* the linear-combination lemma, by induction over the term list *)
Lemma rapply_tsum1 : forall rl ts, Forall (fun t => moments1 rl (tw t)) ts ->
  forall x, rapply rl (tsum ts) x = tderiv ts x.
Proof.
  intros rl ts H; induction H as [|t r [Hc Hs] Hr IH]; intro x.
  - cbn [tderiv]. rewrite (rapply_ext rl (tsum []) (fun _ => 0) x) by reflexivity.
    rewrite rapply_const. ring.
  - cbn [tderiv].
    rewrite (rapply_ext rl (tsum (t :: r))
              (fun y => (ta t * cos (tw t * y) + tb t * sin (tw t * y)) + tsum r y) x) by reflexivity.
    rewrite (rapply_plus rl (fun y => ta t * cos (tw t * y) + tb t * sin (tw t * y)) (tsum r)).
    rewrite (rapply_lin rl (fun y => cos (tw t * y)) (fun y => sin (tw t * y))).
    rewrite rapply_cos, rapply_sin, Hc, Hs, IH. ring.
Qed.

Lemma rapply_tsum2 : forall rl ts, Forall (fun t => moments2 rl (tw t)) ts ->
  forall x, rapply rl (tsum ts) x = tderiv2 ts x.
Proof.
  intros rl ts H; induction H as [|t r [Hc Hs] Hr IH]; intro x.
  - cbn [tderiv2]. rewrite (rapply_ext rl (tsum []) (fun _ => 0) x) by reflexivity.
    rewrite rapply_const. ring.
  - cbn [tderiv2].
    rewrite (rapply_ext rl (tsum (t :: r))
              (fun y => (ta t * cos (tw t * y) + tb t * sin (tw t * y)) + tsum r y) x) by reflexivity.
    rewrite (rapply_plus rl (fun y => ta t * cos (tw t * y) + tb t * sin (tw t * y)) (tsum r)).
    rewrite (rapply_lin rl (fun y => cos (tw t * y)) (fun y => sin (tw t * y))).
    rewrite rapply_cos, rapply_sin, Hc, Hs, IH. ring.
Qed.

Lemma rapply_tpoly : forall rl a0 ts x, rapply rl (tpoly a0 ts) x = a0 * mom0 rl + rapply rl (tsum ts) x.
Proof.
  intros. rewrite (rapply_ext rl (tpoly a0 ts) (fun y => (fun _ => a0) y + tsum ts y) x) by reflexivity.
  rewrite (rapply_plus rl (fun _ => a0) (tsum ts)), rapply_const. reflexivity.
Qed.

(* what is needed for the constant term: a0 * (sum of coefficients) = 0 *)
Lemma rule_exact_trig_poly1 : forall rl a0 ts,
  a0 * mom0 rl = 0 -> Forall (fun t => moments1 rl (tw t)) ts ->
  forall x, rapply rl (tpoly a0 ts) x = tderiv ts x /\
            derivable_pt_lim (tpoly a0 ts) x (rapply rl (tpoly a0 ts) x).
Proof.
  intros rl a0 ts H0 H x.
  assert (E : rapply rl (tpoly a0 ts) x = tderiv ts x).
  { rewrite rapply_tpoly, H0, (rapply_tsum1 rl ts H). ring. }
  split; [exact E | rewrite E; apply tpoly_deriv].
Qed.

Lemma rule_exact_trig_poly2 : forall rl a0 ts,
  a0 * mom0 rl = 0 -> Forall (fun t => moments2 rl (tw t)) ts ->
  forall x, rapply rl (tpoly a0 ts) x = tderiv2 ts x /\
            derivable_pt_lim (tpoly a0 ts) x (tderiv ts x) /\
            derivable_pt_lim (tderiv ts) x (rapply rl (tpoly a0 ts) x).
Proof.
  intros rl a0 ts H0 H x.
  assert (E : rapply rl (tpoly a0 ts) x = tderiv2 ts x).
  { rewrite rapply_tpoly, H0, (rapply_tsum2 rl ts H). ring. }
  split; [exact E | split; [apply tpoly_deriv | rewrite E; apply tderiv_deriv]].
Qed.

(* the constant-term condition is also necessary: apply the rule to the constant function *)
Lemma const_term_needs_mom0 : forall rl a0 x, rapply rl (tpoly a0 []) x = a0 * mom0 rl.
Proof. intros. rewrite rapply_tpoly. rewrite (rapply_ext rl (tsum []) (fun _ => 0) x) by reflexivity.
  rewrite rapply_const. ring. Qed.

(* ---- PennyLane's first-order rules come in +/- pairs *)
Lemma mom0_app : forall a b, mom0 (a ++ b) = mom0 a + mom0 b.
Proof. induction a as [|[c s] t IH]; intros; cbn [app mom0 fst]; [ring | rewrite IH; ring]. Qed.
Lemma mom_cos_app : forall a b w, mom_cos (a ++ b) w = mom_cos a w + mom_cos b w.
Proof. induction a as [|[c s] t IH]; intros; cbn [app mom_cos fst snd]; [ring | rewrite IH; ring]. Qed.
Lemma mom_sin_app : forall a b w, mom_sin (a ++ b) w = mom_sin a w + mom_sin b w.
Proof. induction a as [|[c s] t IH]; intros; cbn [app mom_sin fst snd]; [ring | rewrite IH; ring]. Qed.

Lemma mom_neg : forall h w,
  mom0 (map (fun cs => (- fst cs, - snd cs)) h) = - mom0 h /\
  mom_cos (map (fun cs => (- fst cs, - snd cs)) h) w = - mom_cos h w /\
  mom_sin (map (fun cs => (- fst cs, - snd cs)) h) w = mom_sin h w.
Proof.
  induction h as [|[c s] t IH]; intro w; cbn [map mom0 mom_cos mom_sin fst snd].
  - repeat split; ring.
  - destruct (IH w) as [H0 [Hc Hs]]. rewrite H0, Hc, Hs.
    replace (w * - s) with (- (w * s)) by ring. rewrite cos_neg, sin_neg. repeat split; ring.
Qed.

Lemma antisym_moments : forall h w,
  mom0 (antisym h) = 0 /\ mom_cos (antisym h) w = 0 /\ mom_sin (antisym h) w = 2 * mom_sin h w.
Proof.
  intros h w. unfold antisym. rewrite mom0_app, mom_cos_app, mom_sin_app.
  destruct (mom_neg h w) as [H0 [Hc Hs]]. rewrite H0, Hc, Hs. repeat split; ring.
Qed.

Lemma antisym_exact_iff : forall h w, moments1 (antisym h) w <-> 2 * mom_sin h w = w.
Proof.
  intros h w. unfold moments1. destruct (antisym_moments h w) as [_ [Hc Hs]]. rewrite Hc, Hs.
  split; [intros [_ H]; exact H | intro H; split; [reflexivity | exact H]].
Qed.

Lemma antisym_rule_exact : forall h a0 ts,
  Forall (fun t => 2 * mom_sin h (tw t) = tw t) ts ->
  forall x, derivable_pt_lim (tpoly a0 ts) x (rapply (antisym h) (tpoly a0 ts) x).
Proof.
  intros h a0 ts H x. apply rule_exact_trig_poly1.
  - destruct (antisym_moments h 0) as [H0 _]. rewrite H0. ring.
  - eapply Forall_impl; [|exact H]. intros t Ht. apply antisym_exact_iff. exact Ht.
Qed.

(* (b) the two-term rule: coefficients +-w/2 at shifts +-pi/(2w); w = 1 gives +-1/2 at +-pi/2 *)
Lemma two_term_moments : forall w, w <> 0 -> moments1 (two_term w) w.
Proof.
  intros w Hw. unfold two_term. apply antisym_exact_iff. cbn [mom_sin fst snd].
  replace (w * (PI / (2 * w))) with (PI / 2) by (field; exact Hw). rewrite sin_PI2. field.
Qed.

Lemma two_term_one : two_term 1 = [(1 / 2, PI / (2 * 1)); (- (1 / 2), - (PI / (2 * 1)))].
Proof. reflexivity. Qed.

(* ---- order 2: _iterate_shift_rule multiplies coefficients and adds shifts *)
Lemma mom_scale_shift : forall r2 c s w,
  mom0 (map (fun b => (c * fst b, s + snd b)) r2) = c * mom0 r2 /\
  mom_cos (map (fun b => (c * fst b, s + snd b)) r2) w =
    c * (cos (w * s) * mom_cos r2 w - sin (w * s) * mom_sin r2 w) /\
  mom_sin (map (fun b => (c * fst b, s + snd b)) r2) w =
    c * (sin (w * s) * mom_cos r2 w + cos (w * s) * mom_sin r2 w).
Proof.
  induction r2 as [|[c2 s2] t IH]; intros c s w; cbn [map mom0 mom_cos mom_sin fst snd].
  - repeat split; ring.
  - destruct (IH c s w) as [H0 [Hc Hs]]. rewrite H0, Hc, Hs.
    replace (w * (s + s2)) with (w * s + w * s2) by ring. rewrite cos_plus, sin_plus. repeat split; ring.
Qed.

Lemma iterate2_moments : forall r1 r2 w,
  mom0 (iterate2 r1 r2) = mom0 r1 * mom0 r2 /\
  mom_cos (iterate2 r1 r2) w = mom_cos r1 w * mom_cos r2 w - mom_sin r1 w * mom_sin r2 w /\
  mom_sin (iterate2 r1 r2) w = mom_sin r1 w * mom_cos r2 w + mom_cos r1 w * mom_sin r2 w.
Proof.
  induction r1 as [|[c s] t IH]; intros r2 w; unfold iterate2; cbn [flat_map mom0 mom_cos mom_sin fst snd].
  - repeat split; ring.
  - fold (iterate2 t r2). rewrite mom0_app, mom_cos_app, mom_sin_app.
    destruct (IH r2 w) as [H0 [Hc Hs]]. destruct (mom_scale_shift r2 c s w) as [G0 [Gc Gs]].
    rewrite H0, Hc, Hs, G0, Gc, Gs. repeat split; ring.
Qed.

Lemma iterate2_exact : forall r1 r2 w, moments1 r1 w -> moments1 r2 w -> moments2 (iterate2 r1 r2) w.
Proof.
  intros r1 r2 w [A1 B1] [A2 B2]. unfold moments2. destruct (iterate2_moments r1 r2 w) as [_ [Hc Hs]].
  rewrite Hc, Hs, A1, B1, A2, B2. split; ring.
Qed.

Lemma iterate2_mom0 : forall r1 r2, mom0 r1 = 0 -> mom0 (iterate2 r1 r2) = 0.
Proof. intros r1 r2 H. destruct (iterate2_moments r1 r2 0) as [H0 _]. rewrite H0, H. ring. Qed.

(* ---- period wrap: moving a shift by a multiple of a true period changes no moment *)
Lemma cos_sin_2PI_nat : forall n : nat, cos (2 * INR n * PI) = 1 /\ sin (2 * INR n * PI) = 0.
Proof.
  intro n. replace (2 * INR n * PI) with (0 + 2 * INR n * PI) by ring.
  rewrite cos_period, sin_period, cos_0, sin_0. split; reflexivity.
Qed.

Lemma cos_sin_2PI_Z : forall m : Z, cos (2 * PI * IZR m) = 1 /\ sin (2 * PI * IZR m) = 0.
Proof.
  intro m. destruct (Z_le_gt_dec 0 m) as [H|H].
  - rewrite <- (Z2Nat.id m H), <- INR_IZR_INZ.
    replace (2 * PI * INR (Z.to_nat m)) with (2 * INR (Z.to_nat m) * PI) by ring. apply cos_sin_2PI_nat.
  - assert (Hm : (0 <= - m)%Z) by lia.
    replace (IZR m) with (- IZR (- m)) by (rewrite opp_IZR; ring).
    rewrite <- (Z2Nat.id (- m) Hm), <- INR_IZR_INZ.
    replace (2 * PI * - INR (Z.to_nat (- m))) with (- (2 * INR (Z.to_nat (- m)) * PI)) by ring.
    rewrite cos_neg, sin_neg. destruct (cos_sin_2PI_nat (Z.to_nat (- m))) as [Hc Hs]. rewrite Hc, Hs.
    split; ring.
Qed.

Lemma wrap_shift_sound : forall w T s (m k : Z), w * T = 2 * PI * IZR m ->
  cos (w * (s + IZR k * T)) = cos (w * s) /\ sin (w * (s + IZR k * T)) = sin (w * s).
Proof.
  intros w T s m k H.
  replace (w * (s + IZR k * T)) with (w * s + 2 * PI * IZR (k * m))
    by (rewrite mult_IZR; replace (w * (s + IZR k * T)) with (w * s + IZR k * (w * T)) by ring; rewrite H; ring).
  rewrite cos_plus, sin_plus. destruct (cos_sin_2PI_Z (k * m)) as [Hc Hs]. rewrite Hc, Hs. split; ring.
Qed.

End PartA.

(* ================================================================== Part C *)
Open Scope Q_scope.

Lemma branch_refuted_13 :
  let fs := [1 # 1; 3 # 1] in
  equidistant_test (sortQ fs) = true /\ is_multiples (sortQ fs) = false /\
  generate_branch fs None = (if REPAIRED_BRANCH_TEST then BSolve else BEqui).
Proof. vm_compute. repeat split; reflexivity. Qed.

Lemma mult_from_chain : forall r p k w d,
  p == inject_Z k * w -> d == w -> forallb (Qeq_bool d) (diffs_from p r) = true ->
  mult_from w (k + 1) r = true.
Proof.
  induction r as [|y t IH]; intros p k w d Hp Hd H; cbn [mult_from diffs_from forallb] in *.
  - reflexivity.
  - apply andb_true_iff in H. destruct H as [H1 H2]. apply Qeq_bool_iff in H1.
    assert (Hy : y == inject_Z (k + 1) * w).
    { rewrite inject_Z_plus. setoid_replace y with (p + d) by (rewrite H1; ring). rewrite Hp, Hd. ring. }
    apply andb_true_iff. split.
    + apply Qeq_bool_iff. exact Hy.
    + apply (IH y (k + 1)%Z w d Hy Hd H2).
Qed.

Lemma repaired_test_sound_exact : forall l,
  equally_spaced_exact l = true -> min_is_spacing_exact l = true -> is_multiples l = true.
Proof.
  intros [|x [|y r]] H1 H2; cbn [is_multiples mult_from].
  - reflexivity.
  - apply andb_true_iff; split; [apply Qeq_bool_iff; ring | reflexivity].
  - cbn [equally_spaced_exact diffs diffs_from] in H1. cbn [min_is_spacing_exact] in H2.
    apply Qeq_bool_iff in H2.
    apply andb_true_iff; split; [apply Qeq_bool_iff; ring |].
    change (mult_from x (1 + 1) (y :: r) = true).
    apply (mult_from_chain (y :: r) x 1%Z x (y - x)); [ring | exact H2 |].
    cbn [diffs_from forallb]. apply andb_true_iff; split; [apply Qeq_bool_iff; reflexivity | exact H1].
Qed.

(* ================================================================== Part D *)
Section PartD.
Variable g : Q -> Q.

Lemma qsum_app : forall a b, qsum g (a ++ b) == qsum g a + qsum g b.
Proof. induction a as [|[c s] t IH]; intro b; cbn [app qsum fst snd]; [ring | rewrite IH; ring]. Qed.

Lemma qsum_perm : forall a b, Permutation a b -> qsum g a == qsum g b.
Proof.
  induction 1 as [| x a b _ IH | x y a | a b c _ IH1 _ IH2]; cbn [qsum].
  - reflexivity.
  - rewrite IH. reflexivity.
  - ring.
  - rewrite IH1. exact IH2.
Qed.

(* ---- sorting *)
Lemma insertS_perm : forall x l, Permutation (insertS x l) (x :: l).
Proof.
  induction l as [|y r IH]; cbn [insertS].
  - apply Permutation_refl.
  - destruct (shift_le (snd x) (snd y)); [apply Permutation_refl |].
    eapply Permutation_trans; [apply perm_skip, IH | apply perm_swap].
Qed.

Lemma sort_rule_perm : forall r, Permutation (sort_rule r) r.
Proof.
  induction r as [|x r IH]; cbn [sort_rule fold_right].
  - apply Permutation_refl.
  - eapply Permutation_trans; [apply insertS_perm | apply perm_skip, IH].
Qed.

Lemma sort_preserves_sum : forall r, qsum g (sort_rule r) == qsum g r.
Proof. intro r. apply qsum_perm, sort_rule_perm. Qed.

(* ---- dropping zero coefficients *)
Lemma drop_zero_preserves_sum : forall r, qsum g (drop_zero r) == qsum g r.
Proof.
  induction r as [|[c s] t IH]; cbn [drop_zero filter qsum fst snd].
  - reflexivity.
  - fold (drop_zero t). destruct (Qeq_bool c 0) eqn:E; cbn [negb qsum fst snd].
    + apply Qeq_bool_iff in E. rewrite IH, E. ring.
    + rewrite IH. reflexivity.
Qed.

(* ---- merging *)
Definition hit (ks : list Z) (cs : Q * Q) : Q :=
  qsum g (map (fun k => ((if (round_key (snd cs) =? k)%Z then fst cs else 0), key_val k)) ks).
Definition merged_on (ks : list Z) (r : qrule) : Q :=
  qsum g (map (fun k => (coeff_for k r, key_val k)) ks).

Lemma merged_on_nil : forall ks, merged_on ks [] == 0.
Proof. induction ks as [|k ks IH]; unfold merged_on in *; cbn [map qsum coeff_for fst snd]; [reflexivity | rewrite IH; ring]. Qed.

Lemma merged_on_cons : forall ks cs t, merged_on ks (cs :: t) == hit ks cs + merged_on ks t.
Proof.
  induction ks as [|k ks IH]; intros cs t; unfold merged_on, hit in *; cbn [map qsum fst snd].
  - ring.
  - rewrite IH. cbn [coeff_for]. destruct (round_key (snd cs) =? k)%Z; ring.
Qed.

Lemma hit_absent : forall ks cs, ~ In (round_key (snd cs)) ks -> hit ks cs == 0.
Proof.
  induction ks as [|k ks IH]; intros cs H; unfold hit in *; cbn [map qsum fst snd].
  - reflexivity.
  - destruct (Z.eqb_spec (round_key (snd cs)) k) as [E|E].
    + exfalso. apply H. left. symmetry; exact E.
    + rewrite IH; [ring | intro HI; apply H; right; exact HI].
Qed.

Lemma hit_present : forall ks cs, NoDup ks -> In (round_key (snd cs)) ks ->
  hit ks cs == fst cs * g (key_val (round_key (snd cs))).
Proof.
  induction ks as [|k ks IH]; intros cs Hn Hi.
  - destruct Hi.
  - inversion Hn as [|k' ks' Hnk Hn']; subst.
    change (hit (k :: ks) cs) with
      ((if (round_key (snd cs) =? k)%Z then fst cs else 0) * g (key_val k) + hit ks cs).
    destruct (Z.eqb_spec (round_key (snd cs)) k) as [E|E].
    + rewrite hit_absent by (rewrite E; exact Hnk). rewrite E. ring.
    + destruct Hi as [Hi|Hi]; [exfalso; apply E; symmetry; exact Hi |].
      rewrite (IH cs Hn' Hi). ring.
Qed.

Lemma merged_on_spec : forall ks r, NoDup ks -> (forall cs, In cs r -> In (round_key (snd cs)) ks) ->
  merged_on ks r == qsum g (rounded r).
Proof.
  intros ks r Hn; induction r as [|cs t IH]; intro Hin.
  - apply merged_on_nil.
  - rewrite merged_on_cons, hit_present by (auto; apply Hin; left; reflexivity).
    rewrite IH by (intros c Hc; apply Hin; right; exact Hc).
    cbn [rounded map qsum fst snd]. reflexivity.
Qed.

Lemma existsb_eqb_In : forall x l, existsb (Z.eqb x) l = true <-> In x l.
Proof.
  intros x l. rewrite existsb_exists. split.
  - intros [y [Hy E]]. apply Z.eqb_eq in E. subst. exact Hy.
  - intro H. exists x. split; [exact H | apply Z.eqb_refl].
Qed.

Lemma dedupZ_In : forall l x, In x (dedupZ l) <-> In x l.
Proof.
  induction l as [|y r IH]; intro x; cbn [dedupZ].
  - reflexivity.
  - destruct (existsb (Z.eqb y) r) eqn:E.
    + rewrite IH. split; [intro H; right; exact H |]. intros [H|H]; [subst; apply existsb_eqb_In; exact E | exact H].
    + cbn [In]. rewrite IH. reflexivity.
Qed.

Lemma dedupZ_NoDup : forall l, NoDup (dedupZ l).
Proof.
  induction l as [|y r IH]; cbn [dedupZ].
  - constructor.
  - destruct (existsb (Z.eqb y) r) eqn:E; [exact IH |].
    constructor; [| exact IH]. rewrite dedupZ_In. intro H. apply existsb_eqb_In in H. congruence.
Qed.

Lemma insertZ_perm : forall x l, Permutation (insertZ x l) (x :: l).
Proof.
  induction l as [|y r IH]; cbn [insertZ].
  - apply Permutation_refl.
  - destruct (x <=? y)%Z; [apply Permutation_refl |].
    eapply Permutation_trans; [apply perm_skip, IH | apply perm_swap].
Qed.

Lemma sortZ_perm : forall l, Permutation (sortZ l) l.
Proof.
  induction l as [|x r IH]; cbn [sortZ fold_right].
  - apply Permutation_refl.
  - eapply Permutation_trans; [apply insertZ_perm | apply perm_skip, IH].
Qed.

Lemma unique_keys_ok : forall r,
  NoDup (unique_keys r) /\ (forall cs, In cs r -> In (round_key (snd cs)) (unique_keys r)).
Proof.
  intro r. unfold unique_keys. split.
  - eapply Permutation_NoDup; [apply Permutation_sym, sortZ_perm | apply dedupZ_NoDup].
  - intros cs H. eapply Permutation_in; [apply Permutation_sym, sortZ_perm |].
    apply dedupZ_In. apply (in_map (fun cs => round_key (snd cs))). exact H.
Qed.

(* merging rows whose shifts agree after rounding to 10 decimals: the sum with the ROUNDED shifts is preserved *)
Lemma merge_always_sum : forall r, qsum g (merge_always r) == qsum g (rounded r).
Proof.
  intro r. destruct (unique_keys_ok r) as [Hn Hi].
  change (qsum g (merge_always r)) with (merged_on (unique_keys r) r). apply merged_on_spec; assumption.
Qed.

Hypothesis g_proper : Proper (Qeq ==> Qeq) g.

Lemma rounded_on_grid : forall r, on_grid r -> qsum g (rounded r) == qsum g r.
Proof.
  induction r as [|cs t IH]; intro H; cbn [rounded map qsum fst snd].
  - reflexivity.
  - fold (rounded t). rewrite IH by (intros c Hc; apply H; right; exact Hc).
    rewrite (g_proper _ _ (H cs (or_introl eq_refl))). reflexivity.
Qed.

(* merging equal shifts (shifts on the 1e-10 grid, so rounding is the identity) preserves the sum *)
Lemma merge_preserves_sum : forall r, on_grid r -> qsum g (merge r) == qsum g r.
Proof.
  intros r H. unfold merge. destruct (length r =? length (unique_keys r))%nat; [reflexivity |].
  rewrite merge_always_sum. apply rounded_on_grid. exact H.
Qed.

Lemma drop_zero_on_grid : forall r, on_grid r -> on_grid (drop_zero r).
Proof. intros r H cs Hc. apply H. unfold drop_zero in Hc. apply filter_In in Hc. tauto. Qed.

Lemma process_core_preserves_sum : forall r, on_grid r -> qsum g (process_core r) == qsum g r.
Proof.
  intros r H. unfold process_core.
  rewrite sort_preserves_sum, merge_preserves_sum by (apply drop_zero_on_grid; exact H).
  apply drop_zero_preserves_sum.
Qed.

End PartD.
