(* C63  Soundness of the Schroedinger checker, schedules, and the parameter-routing theorems. *)
From Coq Require Import List Arith ZArith QArith Qreals Reals Lia Bool Lra.
From Coquelicot Require Import Coquelicot.
From PLV Require Import Alg.Poly Alg.PolyEval Alg.Angles Alg.DerivDef Alg.Deriv Lin.Vec Lin.VecHom Lin.PVec Lin.PVecSound Num.PulseModel.
Import ListNotations.
Local Close Scope Q_scope.
Local Open Scope R_scope.

Notation evm rho := (map (map (peval rho))).
Definition c_scale (a : C) (M : cmat) : cmat := map (map (Cmult a)) M.
Definition minus_i : C := Copp Ci.
Definition cnth (M : cmat) (r c : nat) : C := mnth (RtoC 0) M r c.

(* "U (a matrix of functions of the real variable theta_j, the other variables fixed by th) solves
    dU/d theta_j = -i H U  entrywise at every real x, and equals U0 at theta_j = 0" *)
Definition sol_sem (hz D : Z) (j : nat) (H U U0 : pmat) : Prop :=
  forall th : list R,
    (forall x r c,
        Cderive (fun y => cnth (evm (aenv hz D (upd th j y)) U) r c) x
                (cnth (c_scale minus_i (c_mmul (evm (aenv hz D (upd th j x)) H) (evm (aenv hz D (upd th j x)) U))) r c))
    /\ evm (aenv hz D (upd th j 0)) U = evm (aenv hz D (upd th j 0)) U0.

Lemma cnth_evm rho M r c : cnth (evm rho M) r c = peval rho (mnth pzero M r c).
Proof. unfold cnth. symmetry. apply (mnth_hom poly C pzero (RtoC 0) (peval rho)). reflexivity. Qed.

Lemma mnth_mderiv hz D j U r c : mnth pzero (mderiv hz D j U) r c = pderiv hz D j (mnth pzero U r c).
Proof. unfold mderiv. symmetry. apply (mnth_hom poly poly pzero pzero (pderiv hz D j)). reflexivity. Qed.

(* erasing the exponent of a variable whose angle is 0 does not change the value *)
Lemma elin_ezero a e : forall k m, a (k + m)%nat = 0 -> elin a k (ezero m e) = elin a k e.
Proof.
  induction e as [|x e IH]; intros k m Hz; [destruct m; reflexivity|].
  destruct m as [|m]; cbn [ezero elin].
  - rewrite Nat.add_0_r in Hz. rewrite Hz. ring.
  - rewrite IH; [reflexivity|]. rewrite <- Hz. f_equal. lia.
Qed.

Lemma ang_upd_zero hz D th j : ang hz D (upd th j 0) (S j) = 0.
Proof. cbn [ang]. rewrite nth_upd_same. unfold Rdiv. ring. Qed.

Lemma peval_pat0 hz D th j p : peval (aenv hz D (upd th j 0)) (pat0 j p) = peval (aenv hz D (upd th j 0)) p.
Proof.
  induction p as [|t p IH]; [reflexivity|].
  unfold pat0. cbn [map]. fold (pat0 j p).
  change (peval ?r (?a :: ?q)) with (Cplus (teval r a) (peval r q)).
  rewrite IH. f_equal. unfold teval. cbn [fst snd]. f_equal.
  rewrite !eeval_cis. f_equal. apply elin_ezero. cbn [Nat.add]. apply ang_upd_zero.
Qed.

Lemma evm_mat0 hz D th j U : evm (aenv hz D (upd th j 0)) (mat0 j U) = evm (aenv hz D (upd th j 0)) U.
Proof.
  unfold mat0. rewrite map_map. apply map_ext. intros r. rewrite map_map. apply map_ext. intros p. apply peval_pat0.
Qed.

Section Sound.
  Variables hz D : Z.
  Hypothesis Hhz : (0 < hz)%Z.
  Hypothesis Heven : Z.even hz = true.
  Hypothesis HD : D <> 0%Z.

  Lemma peval_minus_i th : peval (aenv hz D th) (p_minus_i hz) = minus_i.
  Proof.
    unfold p_minus_i, minus_i.
    change (peval ?r [?a]) with (Cplus (teval r a) (RtoC 0)).
    unfold teval. cbn [fst snd]. rewrite eeval_cis. cbn [elin ang].
    replace (IZR (hz / 2) * (PI / IZR hz) + 0) with (IZR (hz / 2) * (PI / IZR hz)) by ring.
    rewrite (cis_half hz Hhz Heven).
    unfold q2c, Q2R. cbn [Qnum Qden]. unfold Ci, Copp, Cplus, Cmult, RtoC. cbn [fst snd Ropp].
    apply injective_projections; cbn [fst snd]; field.
  Qed.

  Lemma evm_rhs th H U :
    evm (aenv hz D th) (schrod_rhs hz H U) = c_scale minus_i (c_mmul (evm (aenv hz D th) H) (evm (aenv hz D th) U)).
  Proof.
    pose proof (aenv_good hz D th Hhz) as G.
    unfold schrod_rhs, c_scale. rewrite <- (ev_mmul hz _ G). rewrite !map_map. apply map_ext. intros r.
    rewrite !map_map. apply map_ext. intros p. rewrite (peval_nmul hz _ G), peval_minus_i. reflexivity.
  Qed.
End Sound.

Theorem solves_schrodinger_sound hz D j H U U0 :
  solves_schrodinger hz D j H U U0 = true -> sol_sem hz D j H U U0.
Proof.
  unfold solves_schrodinger. intros X.
  apply andb_prop in X as [X E0]. apply andb_prop in X as [X E1]. apply andb_prop in X as [X HD].
  apply andb_prop in X as [Hhz Heven]. apply Z.ltb_lt in Hhz. apply negb_true_iff, Z.eqb_neq in HD.
  intros th. split.
  - intros x r c.
    apply (Cderive_ext (fun y => peval (aenv hz D (upd th j y)) (mnth pzero U r c))).
    + intros y. symmetry. apply cnth_evm.
    + pose proof (aenv_good hz D (upd th j x) Hhz) as G.
      rewrite <- (evm_rhs hz D Hhz Heven), <- (meqb_sound hz _ G _ _ E1), cnth_evm, mnth_mderiv.
      apply pderiv_sound; assumption.
  - pose proof (aenv_good hz D (upd th j 0) Hhz) as G.
    rewrite <- (meqb_sound hz _ G _ _ E0). symmetry. apply evm_mat0.
Qed.

(* ---------- schedules ---------- *)
Fixpoint sched_sem (hz D : Z) (k : nat) (V0 : pmat) (ws : list (pmat * pmat)) : Prop :=
  match ws with
  | [] => True
  | (H, U) :: r =>
      let V := p_mmul hz U V0 in
      sol_sem hz D k H V V0
      /\ (forall th : list R, evm (aenv hz D th) V = c_mmul (evm (aenv hz D th) U) (evm (aenv hz D th) V0))
      /\ sched_sem hz D (S k) V r
  end.

Theorem piecewise_compose hz D ws : forall k V0,
  sched_ok hz D k V0 ws = true -> sched_sem hz D k V0 ws.
Proof.
  induction ws as [|[H U] ws IH]; intros k V0 X; [exact I|].
  cbn [sched_ok] in X. apply andb_prop in X as [X1 X2]. cbn [sched_sem]. split; [|split].
  - apply solves_schrodinger_sound. exact X1.
  - intros th. unfold solves_schrodinger in X1.
    apply andb_prop in X1 as [X1 _]. apply andb_prop in X1 as [X1 _]. apply andb_prop in X1 as [X1 _].
    apply andb_prop in X1 as [Hhz _]. apply Z.ltb_lt in Hhz.
    apply (ev_mmul hz _ (aenv_good hz D th Hhz)).
  - apply IH. exact X2.
Qed.

(* a time shift of the window does not matter for a time-independent generator *)
Lemma Cderive_shift (f : R -> C) s x l : Cderive f (x - s) l -> Cderive (fun y => f (y - s)) x l.
Proof.
  intros [A B]. split.
  - apply (is_derive_ext (fun y => (fun z => fst (f z)) (y - s))); [reflexivity|].
    replace (fst l) with (scal (1 - 0) (fst l)) by (unfold scal; cbn; unfold mult; cbn; ring).
    apply (is_derive_comp (fun z => fst (f z)) (fun y => y - s)); [exact A|].
    apply (is_derive_minus (V:=R_NormedModule)); [apply (is_derive_id (K:=R_AbsRing)) | apply (is_derive_const (V:=R_NormedModule))].
  - apply (is_derive_ext (fun y => (fun z => snd (f z)) (y - s))); [reflexivity|].
    replace (snd l) with (scal (1 - 0) (snd l)) by (unfold scal; cbn; unfold mult; cbn; ring).
    apply (is_derive_comp (fun z => snd (f z)) (fun y => y - s)); [exact B|].
    apply (is_derive_minus (V:=R_NormedModule)); [apply (is_derive_id (K:=R_AbsRing)) | apply (is_derive_const (V:=R_NormedModule))].
Qed.

(* ====================================================================== parameter routing *)
Local Close Scope R_scope.
Local Open Scope Z_scope.

Definition ph_wf (h : ph) : Prop :=
  List.Forall (fun t => is_call (fst t) = false) (fst h) /\ List.Forall (fun t => is_call (fst t) = true) (snd h).

Lemma filter_all {A} (f : A -> bool) l : List.Forall (fun x => f x = true) l -> filter f l = l.
Proof. induction 1 as [|x l H _ IH]; [reflexivity|]. cbn [filter]. rewrite H, IH. reflexivity. Qed.
Lemma filter_none {A} (f : A -> bool) l : List.Forall (fun x => f x = false) l -> filter f l = [].
Proof. induction 1 as [|x l H _ IH]; [reflexivity|]. cbn [filter]. rewrite H, IH. reflexivity. Qed.

Lemma ph_make_wf ts : ph_wf (ph_make ts).
Proof.
  unfold ph_wf, ph_make. cbn [fst snd]. split; apply Forall_forall; intros t Ht; apply filter_In in Ht as [_ Ht].
  - apply negb_true_iff in Ht. exact Ht.
  - exact Ht.
Qed.

Lemma partition_parts {A} (k : A -> bool) f1 p1 f2 p2 :
  List.Forall (fun t => k t = false) f1 -> List.Forall (fun t => k t = true) p1 ->
  List.Forall (fun t => k t = false) f2 -> List.Forall (fun t => k t = true) p2 ->
  (filter (fun t => negb (k t)) ((f1 ++ p1) ++ (f2 ++ p2)), filter k ((f1 ++ p1) ++ (f2 ++ p2))) = (f1 ++ f2, p1 ++ p2).
Proof.
  intros F1 P1 F2 P2. rewrite !filter_app.
  assert (N : forall l, List.Forall (fun t => k t = false) l -> List.Forall (fun t => negb (k t) = true) l).
  { intros l H. eapply List.Forall_impl; [|exact H]. intros t Ht. cbn beta in Ht. rewrite Ht. reflexivity. }
  assert (M : forall l, List.Forall (fun t => k t = true) l -> List.Forall (fun t => negb (k t) = false) l).
  { intros l H. eapply List.Forall_impl; [|exact H]. intros t Ht. cbn beta in Ht. rewrite Ht. reflexivity. }
  rewrite (filter_all (fun t => negb (k t)) f1 (N _ F1)), (filter_all (fun t => negb (k t)) f2 (N _ F2)),
          (filter_none (fun t => negb (k t)) p1 (M _ P1)), (filter_none (fun t => negb (k t)) p2 (M _ P2)).
  rewrite (filter_none k f1 F1), (filter_none k f2 F2), (filter_all k p1 P1), (filter_all k p2 P2).
  rewrite !app_nil_r. reflexivity.
Qed.

Lemma ph_make_parts (f1 p1 f2 p2 : list pterm) :
  List.Forall (fun t : pterm => is_call (fst t) = false) f1 -> List.Forall (fun t : pterm => is_call (fst t) = true) p1 ->
  List.Forall (fun t : pterm => is_call (fst t) = false) f2 -> List.Forall (fun t : pterm => is_call (fst t) = true) p2 ->
  ph_make ((f1 ++ p1) ++ (f2 ++ p2)) = (f1 ++ f2, p1 ++ p2).
Proof. intros F1 P1 F2 P2. exact (partition_parts (fun t : pterm => is_call (fst t)) f1 p1 f2 p2 F1 P1 F2 P2). Qed.

Lemma route_params_app t1 : forall p1 l1 t2 p2,
  route_params t1 p1 = Some l1 ->
  route_params (t1 ++ t2) (p1 ++ p2) = match route_params t2 p2 with Some l2 => Some (l1 ++ l2) | None => None end.
Proof.
  induction t1 as [|[c op] t1 IH]; intros p1 l1 t2 p2 H.
  - destruct p1; [|discriminate]. injection H as <-. cbn [app]. destruct (route_params t2 p2); reflexivity.
  - destruct p1 as [|p p1]; [destruct c; discriminate|].
    cbn [app route_params] in *. destruct c; destruct (route_params t1 p1) as [l|] eqn:E; try discriminate;
      injection H as <-; rewrite (IH _ _ t2 p2 E); destruct (route_params t2 p2); reflexivity.
Qed.

(* H = H_a + H_b takes the concatenation of the two parameter lists: the first len(params_a) entries reach the
   coefficient functions of H_a (in their order), the rest those of H_b; fixed terms are concatenated. *)
Theorem ph_add_call a b pa pb fa ra fb rb :
  ph_wf a -> ph_wf b -> ph_call a pa = Some (fa, ra) -> ph_call b pb = Some (fb, rb) ->
  ph_call (ph_add a b) (pa ++ pb) = Some (fa ++ fb, ra ++ rb).
Proof.
  intros [Fa Pa] [Fb Pb] Ca Cb.
  assert (E : ph_add a b = (fst a ++ fst b, snd a ++ snd b)) by (apply ph_make_parts; assumption).
  rewrite E. unfold ph_call in *. cbn [fst snd]. revert Ca Cb.
  destruct (route_params (snd a) pa) as [la|] eqn:Ea; [|discriminate].
  destruct (route_params (snd b) pb) as [lb|] eqn:Eb; [|discriminate].
  intros Ca Cb. injection Ca as <- <-. injection Cb as <- <-.
  rewrite (route_params_app _ _ _ (snd b) pb Ea), Eb. unfold fixed_values. rewrite map_app. reflexivity.
Qed.

Definition zscale (c : Z) (x : Z * Z) : Z * Z := (c * fst x, snd x).

Lemma route_params_scale c (ts : list pterm) : forall ps l,
  List.Forall (fun t : pterm => is_call (fst t) = true) ts -> route_params ts ps = Some l ->
  route_params (map (fun t : pterm => (cscale c (fst t), snd t)) ts) ps = Some (map (zscale c) l).
Proof.
  induction ts as [|[k op] ts IH]; intros ps l F H.
  - destruct ps; [|discriminate]. injection H as <-. reflexivity.
  - inversion F as [|? ? Hk F']; subst. destruct k as [v|m]; [discriminate|].
    destruct ps as [|p ps]; [discriminate|]. cbn [map route_params fst snd cscale] in *.
    destruct (route_params ts ps) as [l'|] eqn:E; [|discriminate]. injection H as <-.
    rewrite (IH ps l' F' E). cbn [map]. unfold zscale. cbn [fst snd]. rewrite Z.mul_assoc. reflexivity.
Qed.

(* c * H: every coefficient (fixed value or function value) is multiplied by c; the routing is unchanged *)
Theorem ph_scale_call c a pa fa ra :
  ph_wf a -> ph_call a pa = Some (fa, ra) ->
  ph_call (ph_scale c a) pa = Some (map (zscale c) fa, map (zscale c) ra).
Proof.
  intros [Fa Pa] Ca.
  set (sc := fun t : pterm => (cscale c (fst t), snd t)).
  assert (F' : List.Forall (fun t : pterm => is_call (fst t) = false) (map sc (fst a))).
  { apply List.Forall_forall. intros t Ht. apply in_map_iff in Ht as [u [<- Hu]].
    rewrite List.Forall_forall in Fa. specialize (Fa u Hu). destruct u as [[v|m] op]; [reflexivity | discriminate]. }
  assert (P' : List.Forall (fun t : pterm => is_call (fst t) = true) (map sc (snd a))).
  { apply List.Forall_forall. intros t Ht. apply in_map_iff in Ht as [u [<- Hu]].
    rewrite List.Forall_forall in Pa. specialize (Pa u Hu). destruct u as [[v|m] op]; [discriminate | reflexivity]. }
  assert (E : ph_scale c a = (map sc (fst a), map sc (snd a))).
  { pose proof (ph_make_parts (map sc (fst a)) (map sc (snd a)) [] [] F' P' (List.Forall_nil _) (List.Forall_nil _)) as E.
    rewrite !app_nil_r in E. exact E. }
  rewrite E. unfold ph_call in *. cbn [fst snd]. revert Ca.
  destruct (route_params (snd a) pa) as [la|] eqn:Ea; [|discriminate].
  intros Ca. injection Ca as <- <-.
  subst sc. rewrite (route_params_scale c _ _ _ Pa Ea). f_equal. f_equal.
  unfold fixed_values. rewrite !map_map. apply map_ext_in. intros [[v|m] op] Hin; cbn; [reflexivity|].
  rewrite List.Forall_forall in Fa. specialize (Fa _ Hin). discriminate.
Qed.

(* ---------- hardware Hamiltonians: the reorder functions act block by block ---------- *)
Inductive block :=
| BF (f : Z)                                   (* a plain callable coefficient: one parameter *)
| BAP2 (fa fp : Z)                             (* drive with callable amplitude and phase: two parameters *)
| BAP1 (a p : harg).                           (* drive with exactly one of amplitude / phase callable: one parameter *)
Definition block_ok (b : block) : Prop :=
  match b with BAP1 a p => xorb (acall a) (acall p) = true | _ => True end.
Definition block_coeffs (b : block) : list hcoef :=
  match b with
  | BF f => [HC_F f]
  | BAP2 fa fp => [HC_AP (ACall fa) (ACall fp); HC_AP (ACall fa) (ACall fp)]
  | BAP1 a p => [HC_AP a p; HC_AP a p]
  end.
Definition block_arity (b : block) : nat := match b with BAP2 _ _ => 2 | _ => 1 end.
Definition block_route (b : block) (ps : list Z) : list pval :=
  match b, ps with
  | BF _, [x] => [POne x]
  | BAP2 _ _, [x; y] => [PMany [x; y]; PMany [x; y]]     (* amplitude parameter first, phase parameter second, to BOTH the cos and the sin coefficient *)
  | BAP1 _ _, [x] => [POne x; POne x]
  | _, _ => []
  end.
Fixpoint routes (bs : list block) (pss : list (list Z)) : list pval :=
  match bs, pss with b :: bs', ps :: pss' => block_route b ps ++ routes bs' pss' | _, _ => [] end.

Theorem reorder_ap_blocks bs : forall pss i,
  List.Forall block_ok bs -> List.Forall2 (fun b ps => length ps = block_arity b) bs pss ->
  reorder_ap i i (concat (map block_coeffs bs)) (concat pss) = Some (routes bs pss).
Proof.
  induction bs as [|b bs IH]; intros pss i Ok F2; inversion F2 as [|? ps ? pss' Hl F2']; subst; [reflexivity|].
  inversion Ok as [|? ? Okb Ok']; subst.
  cbn [map concat routes].
  destruct b as [f|fa fp|a p]; cbn [block_arity] in Hl.
  - destruct ps as [|x [|? ?]]; try discriminate. cbn [block_coeffs app reorder_ap block_route]. rewrite Nat.eqb_refl.
    replace (i + 1)%nat with (S i) by lia. rewrite (IH pss' (S i) Ok' F2'). reflexivity.
  - destruct ps as [|x [|y [|? ?]]]; try discriminate. cbn [block_coeffs app reorder_ap block_route acall andb]. rewrite Nat.eqb_refl.
    assert (N : Nat.eqb (S i) (i + 2) = false) by (apply Nat.eqb_neq; lia). rewrite N.
    replace (i + 2)%nat with (S (S i)) by lia. rewrite (IH pss' (S (S i)) Ok' F2'). reflexivity.
  - destruct ps as [|x [|? ?]]; try discriminate. cbn [block_ok] in Okb.
    cbn [block_coeffs app reorder_ap block_route]. rewrite Nat.eqb_refl.
    assert (N : Nat.eqb (S i) (i + 2) = false) by (apply Nat.eqb_neq; lia).
    destruct (acall a), (acall p); try discriminate; cbn [andb orb]; rewrite N;
      replace (i + 2)%nat with (S (S i)) by lia; rewrite (IH pss' (S (S i)) Ok' F2'); reflexivity.
Qed.

(* transmon: every AmplitudeAndPhaseAndFreq coefficient receives the slice of as many parameters as it has callables *)
Definition apf_arity (c : hcoef) : nat := match c with HC_APF a p f => ncall3 a p f | _ => 1 end.
Definition apf_route (c : hcoef) (ps : list Z) : pval :=
  match c with HC_APF _ _ _ => PMany ps | _ => POne (hd 0 ps) end.
Fixpoint apf_routes (cs : list hcoef) (pss : list (list Z)) : list pval :=
  match cs, pss with c :: cs', ps :: pss' => apf_route c ps :: apf_routes cs' pss' | _, _ => [] end.

Theorem reorder_apf_blocks cs : forall pss,
  List.Forall2 (fun c ps => length ps = apf_arity c) cs pss ->
  reorder_apf cs (concat pss) = Some (apf_routes cs pss).
Proof.
  induction cs as [|c cs IH]; intros pss F2; inversion F2 as [|? ps ? pss' Hl F2']; subst; [reflexivity|].
  cbn [concat apf_routes].
  assert (K : forall a p f, apf_arity c = ncall3 a p f ->
              reorder_apf cs (skipn (ncall3 a p f) (ps ++ concat pss')) = Some (apf_routes cs pss')
              /\ firstn (ncall3 a p f) (ps ++ concat pss') = ps).
  { intros a p f E. rewrite <- E, <- Hl. split.
    - rewrite skipn_app, skipn_all, Nat.sub_diag. cbn [skipn app]. apply IH. exact F2'.
    - rewrite firstn_app, firstn_all, Nat.sub_diag. cbn [firstn]. apply app_nil_r. }
  destruct c as [f|a p|a p f].
  - cbn [apf_arity] in Hl. destruct ps as [|x [|? ?]]; try discriminate. cbn [app reorder_apf apf_route hd]. rewrite (IH pss' F2'). reflexivity.
  - cbn [apf_arity] in Hl. destruct ps as [|x [|? ?]]; try discriminate. cbn [app reorder_apf apf_route hd]. rewrite (IH pss' F2'). reflexivity.
  - destruct (K a p f eq_refl) as [K1 K2]. cbn [reorder_apf apf_route]. rewrite K1, K2. reflexivity.
Qed.

(* documented orders as instances *)
Example rydberg_drive_all_callable fa fp fd a p d :
  hden (HRyd (ACall fa) (ACall fp) (ACall fd) true true)
    = Some (RAP, 0%nat, [HC_AP (ACall fa) (ACall fp); HC_AP (ACall fa) (ACall fp); HC_F fd], false)
  /\ hcalls (RAP, 0%nat, [HC_AP (ACall fa) (ACall fp); HC_AP (ACall fa) (ACall fp); HC_F fd], false) [a; p; d]
     = Some [(fa, POne a); (fp, POne p); (fa, POne a); (fp, POne p); (fd, POne d)].
Proof. split; reflexivity. Qed.
Example transmon_drive_amp_freq fa ff a f :
  hcalls (RAPF, 0%nat, [HC_APF (ACall fa) AConst (ACall ff)], false) [a; f] = Some [(fa, POne a); (ff, POne f)].
Proof. reflexivity. Qed.

Local Close Scope Z_scope.
Theorem piecewise_two hz D H1 U1 H2 U2 V0 :
  sched_ok hz D 0 V0 [(H1, U1); (H2, U2)] = true ->
  let V1 := p_mmul hz U1 V0 in let V2 := p_mmul hz U2 V1 in
  sol_sem hz D 0 H1 V1 V0 /\ sol_sem hz D 1 H2 V2 V1
  /\ (forall th : list R, evm (aenv hz D th) V2
        = c_mmul (evm (aenv hz D th) U2) (c_mmul (evm (aenv hz D th) U1) (evm (aenv hz D th) V0))).
Proof.
  intros X. apply piecewise_compose in X. cbn [sched_sem] in X.
  destruct X as [S1 [M1 [S2 [M2 _]]]]. cbv zeta. split; [exact S1|]. split; [exact S2|].
  intros th. rewrite M2, M1. reflexivity.
Qed.
