(* C14 Unitary synthesis: proofs about Num/SynthModel.v *)
From Coq Require Import List Arith ZArith Bool Reals Lra Lia Psatz.
From Coquelicot Require Import Complex.
From PLV Require Import Lin.Vec Lin.PVecSound Num.SynthModel.
Import ListNotations.

(* ================================================================== discrete part *)
Lemma gk_eqb_eq a b : gk_eqb a b = true -> a = b.
Proof. destruct a, b; simpl; intros H; try reflexivity; discriminate. Qed.
Lemma nats_eqb_eq a : forall b, nats_eqb a b = true -> a = b.
Proof.
  induction a as [|x a IH]; intros [|y b] H; simpl in H; try discriminate; [reflexivity|].
  apply andb_prop in H as [H1 H2]. apply Nat.eqb_eq in H1. subst. f_equal. apply IH, H2.
Qed.
Lemma sop_eqb_eq a b : sop_eqb a b = true -> a = b.
Proof.
  destruct a as [k w], b as [k' w']. unfold sop_eqb. simpl. intros H. apply andb_prop in H as [H1 H2].
  apply gk_eqb_eq in H1. apply nats_eqb_eq in H2. subst. reflexivity.
Qed.
Lemma skel_eqb_eq a : forall b, skel_eqb a b = true -> a = b.
Proof.
  induction a as [|x a IH]; intros [|y b] H; simpl in H; try discriminate; [reflexivity|].
  apply andb_prop in H as [H1 H2]. apply sop_eqb_eq in H1. subst. f_equal. apply IH, H2.
Qed.

Lemma cnot_count_app a b : cnot_count (a ++ b) = cnot_count a + cnot_count b.
Proof. unfold cnot_count. rewrite filter_app, app_length. reflexivity. Qed.

Lemma cnot_count_strip s : cnot_count (strip_phase s) = cnot_count s.
Proof.
  unfold cnot_count, strip_phase. induction s as [|[k w] s IH]; [reflexivity|].
  simpl. destruct k; simpl; try (rewrite IH; reflexivity); exact IH.
Qed.

Lemma entangler_count_strip_le s : entangler_count (strip_phase s) <= entangler_count s.
Proof.
  unfold entangler_count, strip_phase. induction s as [|[k w] s IH]; [apply Nat.le_refl|].
  simpl. destruct (negb (gk_eqb k GPhase)); simpl; destruct (multiwire (k, w)); simpl; lia.
Qed.

Lemma templates_cnot_le3 t : In t two_qubit_templates -> cnot_count t <= 3.
Proof. intros [H|[H|[H|[H|[]]]]]; subst; vm_compute; lia. Qed.

Lemma template_cnot_count k : k <= 3 -> cnot_count (template_of k) = k.
Proof. intros H. destruct k as [|[|[|[|k]]]]; try reflexivity; lia. Qed.

Lemma existsb_skel s l : existsb (skel_eqb s) l = true -> In s l.
Proof. intros H. apply existsb_exists in H as [t [Ht E]]. apply skel_eqb_eq in E. subst. exact Ht. Qed.

Lemma two_qubit_skeleton_cnots s : two_qubit_skeleton_ok s = true -> cnot_count s <= 3.
Proof.
  unfold two_qubit_skeleton_ok. intros H. apply existsb_skel in H. rewrite <- cnot_count_strip. apply templates_cnot_le3, H.
Qed.

Lemma two_qubit_skeleton_class s : two_qubit_skeleton_ok s = true -> exists k, k <= 3 /\ strip_phase s = template_of k /\ cnot_count s = k.
Proof.
  unfold two_qubit_skeleton_ok. intros H. apply existsb_skel in H. rewrite <- cnot_count_strip.
  destruct H as [H|[H|[H|[H|[]]]]]; rewrite <- H; [exists 0|exists 1|exists 2|exists 3]; repeat split; lia.
Qed.

(* every op of a template acting on two wires is a CNOT *)
Lemma templates_only_cnot t o : In t two_qubit_templates -> In o t -> multiwire o = true -> fst o = GCNOT.
Proof.
  intros [H|[H|[H|[H|[]]]]] Ho M; subst; simpl in Ho;
  repeat (destruct Ho as [Ho|Ho]; [subst; simpl in M; try discriminate; reflexivity|]); destruct Ho.
Qed.

(* ================================================================== numeric part *)
Local Open Scope R_scope.
Definition KR : R := IZR K.
Lemma K_pos : (0 < K)%Z. Proof. reflexivity. Qed.
Lemma KR_pos : 0 < KR. Proof. apply IZR_lt, K_pos. Qed.

Definition inF (x : R) (a : fi) : Prop := IZR (fst a) <= x * KR <= IZR (snd a).

Lemma fpt_sound m : inF (IZR m / KR) (fpt m).
Proof. unfold inF, fpt; simpl. pose proof KR_pos. replace (IZR m / KR * KR) with (IZR m) by (field; lra). lra. Qed.

Lemma fadd_sound x y a b : inF x a -> inF y b -> inF (x + y) (fadd a b).
Proof. unfold inF, fadd; simpl. intros [H1 H2] [H3 H4]. rewrite !plus_IZR, Rmult_plus_distr_r. lra. Qed.

Lemma fopp_sound x a : inF x a -> inF (- x) (fopp a).
Proof. unfold inF, fopp; simpl. intros [H1 H2]. rewrite !opp_IZR. lra. Qed.

Lemma fsub_sound x y a b : inF x a -> inF y b -> inF (x - y) (fsub a b).
Proof. intros Hx Hy. unfold fsub, Rminus. apply fadd_sound; [exact Hx | apply fopp_sound, Hy]. Qed.

Lemma dn_le p : IZR (dn p) * KR <= IZR p.
Proof.
  unfold dn, KR. rewrite <- mult_IZR. apply IZR_le. rewrite Z.mul_comm. apply Z.mul_div_le. exact K_pos.
Qed.
Lemma up_ge p : IZR p <= IZR (up p) * KR.
Proof.
  unfold up, KR. rewrite <- mult_IZR. apply IZR_le.
  pose proof (Z.mul_div_le (- p) K K_pos). lia.
Qed.

Lemma mul_ge_one a1 a2 b1 b2 X Y : a1 <= X <= a2 -> b1 <= Y <= b2 ->
  a1 * b1 <= X * Y \/ a1 * b2 <= X * Y \/ a2 * b1 <= X * Y \/ a2 * b2 <= X * Y.
Proof.
  intros [H1 H2] [H3 H4].
  destruct (Rle_dec 0 Y) as [HY|HY].
  - destruct (Rle_dec 0 a1) as [Ha|Ha]; [left | right; left]; nra.
  - destruct (Rle_dec 0 a2) as [Ha|Ha]; [right; right; left | right; right; right]; nra.
Qed.
Lemma mul_le_one a1 a2 b1 b2 X Y : a1 <= X <= a2 -> b1 <= Y <= b2 ->
  X * Y <= a1 * b1 \/ X * Y <= a1 * b2 \/ X * Y <= a2 * b1 \/ X * Y <= a2 * b2.
Proof.
  intros [H1 H2] [H3 H4].
  destruct (Rle_dec 0 Y) as [HY|HY].
  - destruct (Rle_dec 0 a2) as [Ha|Ha]; [right; right; right | right; right; left]; nra.
  - destruct (Rle_dec 0 a1) as [Ha|Ha]; [right; left | left]; nra.
Qed.

Lemma fmul_sound x y a b : inF x a -> inF y b -> inF (x * y) (fmul a b).
Proof.
  unfold inF, fmul. destruct a as [a1 a2], b as [b1 b2]. cbn [fst snd]. intros Hx Hy.
  pose proof KR_pos as HK.
  set (X := x * KR) in *. set (Y := y * KR) in *.
  assert (E : x * y * KR = X * Y / KR) by (unfold X, Y; field; lra).
  rewrite E. split.
  - pose proof (dn_le (min4 (a1 * b1) (a1 * b2) (a2 * b1) (a2 * b2))) as D.
    assert (L : IZR (min4 (a1 * b1) (a1 * b2) (a2 * b1) (a2 * b2)) <= X * Y).
    { destruct (mul_ge_one _ _ _ _ _ _ Hx Hy) as [H|[H|[H|H]]]; rewrite <- mult_IZR in H;
        (eapply Rle_trans; [apply IZR_le|exact H]); unfold min4; lia. }
    apply Rmult_le_reg_r with KR; [exact HK|]. replace (X * Y / KR * KR) with (X * Y) by (field; lra). lra.
  - pose proof (up_ge (max4 (a1 * b1) (a1 * b2) (a2 * b1) (a2 * b2))) as D.
    assert (L : X * Y <= IZR (max4 (a1 * b1) (a1 * b2) (a2 * b1) (a2 * b2))).
    { destruct (mul_le_one _ _ _ _ _ _ Hx Hy) as [H|[H|[H|H]]]; rewrite <- mult_IZR in H;
        (eapply Rle_trans; [exact H|apply IZR_le]); unfold max4; lia. }
    apply Rmult_le_reg_r with KR; [exact HK|]. replace (X * Y / KR * KR) with (X * Y) by (field; lra). lra.
Qed.

Lemma fabsmax_sound x a : inF x a -> (x * KR) * (x * KR) <= IZR (fabsmax a * fabsmax a).
Proof.
  unfold inF, fabsmax. destruct a as [lo hi]. cbn [fst snd]. intros [H1 H2].
  set (m := Z.max (Z.abs lo) (Z.abs hi)).
  assert (A : (- m <= lo)%Z) by (unfold m; lia). assert (B : (hi <= m)%Z) by (unfold m; lia).
  apply IZR_le in A, B. rewrite opp_IZR in A. rewrite mult_IZR. nra.
Qed.

(* complex enclosures; Coquelicot's C = R * R *)
Definition inC (z : C) (c : ci) : Prop := inF (fst z) (fst c) /\ inF (snd z) (snd c).
Lemma czero_sound : inC (RtoC 0) czero.
Proof. unfold inC, czero, inF, fpt; simpl. split; lra. Qed.
Lemma cone_sound : inC (RtoC 1) cone.
Proof. unfold inC, cone, inF, fpt, KR; simpl. split; lra. Qed.
Lemma cadd_sound x y a b : inC x a -> inC y b -> inC (Cplus x y) (cadd a b).
Proof. intros [H1 H2] [H3 H4]. split; simpl; apply fadd_sound; assumption. Qed.
Lemma cmul_sound x y a b : inC x a -> inC y b -> inC (Cmult x y) (cmul a b).
Proof.
  intros [H1 H2] [H3 H4]. split; simpl.
  - apply fsub_sound; apply fmul_sound; assumption.
  - apply fadd_sound; apply fmul_sound; assumption.
Qed.
Lemma csub_sound x y a b : inC x a -> inC y b -> inC (Cminus x y) (csub a b).
Proof. intros [H1 H2] [H3 H4]. split; simpl; apply fsub_sound; assumption. Qed.

Definition Cmod2 (z : C) : R := fst z * fst z + snd z * snd z.
Lemma cnorm2_ub_sound z c : inC z c -> Cmod2 z * (KR * KR) <= IZR (cnorm2_ub c).
Proof.
  intros [H1 H2]. apply fabsmax_sound in H1, H2. unfold Cmod2, cnorm2_ub. rewrite plus_IZR. nra.
Qed.

(* ---- relational parametricity of the generic circuit semantics of Lin/Vec.v *)
Section Rel.
  Variables (A B : Type) (R : A -> B -> Prop).
  Variables (za oa : A) (zb ob : B) (adda mula : A -> A -> A) (addb mulb : B -> B -> B).
  Hypothesis Rz : R za zb.
  Hypothesis Ro : R oa ob.
  Hypothesis Radd : forall a a' b b', R a b -> R a' b' -> R (adda a a') (addb b b').
  Hypothesis Rmul : forall a a' b b', R a b -> R a' b' -> R (mula a a') (mulb b b').

  Lemma nth_rel l l' : Forall2 R l l' -> forall i, R (nth i l za) (nth i l' zb).
  Proof. induction 1 as [|x y l l' Hxy Hl IH]; intros [|i]; simpl; auto. Qed.
  Lemma row_rel M M' : Forall2 (Forall2 R) M M' -> forall r, Forall2 R (nth r M []) (nth r M' []).
  Proof. induction 1 as [|x y l l' Hxy Hl IH]; intros [|i]; simpl; auto. Qed.
  Lemma mnth_rel M M' r c : Forall2 (Forall2 R) M M' -> R (mnth za M r c) (mnth zb M' r c).
  Proof. intros H. unfold mnth. apply nth_rel, row_rel, H. Qed.

  Lemma apply_entry_rel n ws M M' v v' i : Forall2 (Forall2 R) M M' -> Forall2 R v v' ->
    R (apply_entry za adda mula n ws M v i) (apply_entry zb addb mulb n ws M' v' i).
  Proof.
    intros HM Hv. unfold apply_entry.
    induction (seq 0 (2 ^ length ws)) as [|x l IH]; simpl; [exact Rz|].
    apply Radd; [|exact IH]. apply Rmul; [apply mnth_rel, HM | unfold vnth; apply nth_rel, Hv].
  Qed.
  Lemma apply_gate_rel n ws M M' v v' : Forall2 (Forall2 R) M M' -> Forall2 R v v' ->
    Forall2 R (apply_gate za adda mula n ws M v) (apply_gate zb addb mulb n ws M' v').
  Proof.
    intros HM Hv. unfold apply_gate. induction (seq 0 (2 ^ n)) as [|x l IH]; simpl; constructor; [|exact IH].
    apply apply_entry_rel; assumption.
  Qed.
  Definition grel (g : gate A) (g' : gate B) : Prop := fst g = fst g' /\ Forall2 (Forall2 R) (snd g) (snd g').
  Lemma capply_rel n c c' : Forall2 grel c c' -> forall v v', Forall2 R v v' ->
    Forall2 R (capply za adda mula n c v) (capply zb addb mulb n c' v').
  Proof.
    unfold capply. induction 1 as [|g g' c c' [Hw HM] Hc IH]; intros v v' Hv; simpl; [exact Hv|].
    apply IH. rewrite Hw. apply apply_gate_rel; assumption.
  Qed.
  Lemma basis_rel n c : Forall2 R (basis za oa n c) (basis zb ob n c).
  Proof. unfold basis. induction (seq 0 (2 ^ n)) as [|x l IH]; simpl; constructor; [destruct (Nat.eqb x c); assumption | exact IH]. Qed.
End Rel.

Definition gate_in (gi : igate) (g : gate C) : Prop := grel ci C (fun a z => inC z a) gi g.

Lemma circuit_column_enclosed n gatesI gatesC c : Forall2 gate_in gatesI gatesC ->
  Forall2 (fun a z => inC z a) (i_capply n gatesI (i_basis n c)) (c_capply n gatesC (c_basis n c)).
Proof.
  intros H. unfold i_capply, c_capply, i_basis, c_basis.
  apply (capply_rel ci C (fun a z => inC z a) czero (RtoC 0) cadd cmul Cplus Cmult).
  - exact czero_sound.
  - intros; apply cadd_sound; assumption.
  - intros; apply cmul_sound; assumption.
  - exact H.
  - apply basis_rel; [exact czero_sound | exact cone_sound].
Qed.

Lemma col_ok_sound b2 gotI : forall gotC colI colC,
  Forall2 (fun a z => inC z a) gotI gotC -> Forall2 (fun a z => inC z a) colI colC -> col_ok b2 gotI colI = true ->
  Forall2 (fun g w => Cmod2 (Cminus g w) * (KR * KR) <= IZR b2) gotC colC.
Proof.
  induction gotI as [|g gs IH]; intros gotC colI colC Hg Hc H.
  - inversion Hg; subst. destruct colI; simpl in H; [|discriminate]. inversion Hc; subst. constructor.
  - inversion Hg as [|? gc ? gcs Hg1 Hg2]; subst. destruct colI as [|w ws]; simpl in H; [discriminate|].
    inversion Hc as [|? wc ? wcs Hc1 Hc2]; subst. apply andb_prop in H as [Ha Hb]. constructor.
    + apply Z.leb_le, IZR_le in Ha. eapply Rle_trans; [apply cnorm2_ub_sound, csub_sound; eassumption | exact Ha].
    + eapply IH; eassumption.
Qed.

Lemma cols_check_nth n gates b2 : forall UI c0 k colI, cols_check n gates b2 c0 UI = true -> nth_error UI k = Some colI ->
  col_ok b2 (i_capply n gates (i_basis n (c0 + k))) colI = true.
Proof.
  induction UI as [|col r IH]; intros c0 k colI H E; [destruct k; discriminate|].
  simpl in H. apply andb_prop in H as [H1 H2]. destruct k as [|k]; simpl in E.
  - injection E as <-. rewrite Nat.add_0_r. exact H1.
  - replace (c0 + S k)%nat with (S c0 + k)%nat by lia. apply IH; assumption.
Qed.

Lemma Forall2_len {A B} (P : A -> B -> Prop) l l' : Forall2 P l l' -> length l = length l'.
Proof. induction 1; simpl; congruence. Qed.
Lemma Forall2_nth_error {A B} (P : A -> B -> Prop) l l' : Forall2 P l l' -> forall k y, nth_error l' k = Some y ->
  exists x, nth_error l k = Some x /\ P x y.
Proof.
  induction 1 as [|a b l l' Hab Hl IH]; intros [|k] y E; simpl in E; try discriminate.
  - injection E as <-. exists a. split; [reflexivity|exact Hab].
  - apply IH, E.
Qed.

(* MAIN: if every gate entry and every entry of U lies in its enclosure and the check passes, then every entry of
   (circuit - U) has squared modulus at most b2 / K^2 -- for the TRUE complex matrices. *)
Theorem interval_check_sound n gatesI gatesC UI UC b2 :
  Forall2 gate_in gatesI gatesC ->
  Forall2 (Forall2 (fun a z => inC z a)) UI UC ->
  dist_check n gatesI UI b2 = true ->
  length UC = (2 ^ n)%nat /\
  forall c colC, nth_error UC c = Some colC ->
    Forall2 (fun g w => Cmod2 (Cminus g w) * (KR * KR) <= IZR b2) (c_capply n gatesC (c_basis n c)) colC.
Proof.
  intros HG HU H. unfold dist_check in H. apply andb_prop in H as [HL HC]. split.
  - apply Nat.eqb_eq in HL. rewrite <- HL. symmetry. eapply Forall2_len, HU.
  - intros c colC E. destruct (Forall2_nth_error _ _ _ HU c colC E) as [colI [EI HI]].
    pose proof (cols_check_nth n gatesI b2 UI 0 c colI HC EI) as OK. simpl in OK.
    eapply col_ok_sound; [apply circuit_column_enclosed, HG | exact HI | exact OK].
Qed.

(* the bound used by check_dist:  b2 / K^2 <= 1e-14, i.e. |entry| <= 1e-7 *)
Lemma bound2_meaning : IZR bound2 <= 1 / 100000000000000 * (KR * KR).
Proof.
  unfold bound2, KR. rewrite <- mult_IZR.
  pose proof (Z.mul_div_le (K * K) 100000000000000 eq_refl) as H. apply IZR_le in H. rewrite mult_IZR in H. lra.
Qed.

Corollary interval_check_entry_bound z : Cmod2 z * (KR * KR) <= IZR bound2 -> Cmod2 z <= 1 / 100000000000000.
Proof.
  intros H. pose proof bound2_meaning as B. pose proof KR_pos as HK.
  assert (0 < KR * KR) by nra. apply Rmult_le_reg_r with (KR * KR); [assumption|]. lra.
Qed.

(* exact rationals are enclosed by the intervals computed in the model *)
Lemma f_of_qz_sound a d : (0 < d)%Z -> inF (IZR a / IZR d) (f_of_qz (a, d)).
Proof.
  intros Hd. unfold inF, f_of_qz. cbn [fst snd]. pose proof (IZR_lt _ _ Hd) as HD. simpl in HD.
  assert (E : IZR a / IZR d * KR = IZR (a * K) / IZR d) by (rewrite mult_IZR; unfold KR; field; lra).
  rewrite E. split.
  - pose proof (Z.mul_div_le (a * K) d Hd) as H. apply IZR_le in H. rewrite mult_IZR in H.
    apply Rmult_le_reg_r with (IZR d); [exact HD|]. replace (IZR (a * K) / IZR d * IZR d) with (IZR (a * K)) by (field; lra). lra.
  - pose proof (Z.mul_div_le (- a * K) d Hd) as H. set (q := ((- a * K) / d)%Z) in *.
    assert (H' : (a * K <= d * (- q))%Z) by (replace (d * - q)%Z with (- (d * q))%Z by ring; lia).
    apply IZR_le in H'. rewrite (mult_IZR d) in H'.
    apply Rmult_le_reg_r with (IZR d); [exact HD|]. replace (IZR (a * K) / IZR d * IZR d) with (IZR (a * K)) by (field; lra). lra.
Qed.

(* the enclosure of sqrt(1/2) supplied with each case is verified by the model itself *)
Lemma half_ok_sound h : half_ok h = true -> inF (sqrt (1 / 2)) h.
Proof.
  unfold half_ok, inF. destruct h as [lo hi]. cbn [fst snd]. intros H.
  apply andb_prop in H as [H H4]. apply andb_prop in H as [H H3]. apply andb_prop in H as [H1 H2].
  apply Z.leb_le, IZR_le in H1, H2, H3, H4.
  rewrite !mult_IZR in H3, H4. fold KR in H3, H4.
  pose proof KR_pos as HK.
  assert (S0 : 0 <= sqrt (1 / 2)) by apply sqrt_pos.
  assert (S2 : sqrt (1 / 2) * sqrt (1 / 2) = 1 / 2) by (apply sqrt_sqrt; lra).
  set (s := sqrt (1 / 2)) in *. split.
  - destruct (Rle_dec (IZR lo) (s * KR)) as [L|L]; [exact L|]. exfalso. apply Rnot_le_lt in L.
    assert (0 <= s * KR) by nra. assert ((s * KR) * (s * KR) < IZR lo * IZR lo) by nra.
    assert ((s * KR) * (s * KR) = KR * KR / 2) by (replace (s * KR * (s * KR)) with (s * s * (KR * KR)) by ring; rewrite S2; field). lra.
  - destruct (Rle_dec (s * KR) (IZR hi)) as [L|L]; [exact L|]. exfalso. apply Rnot_le_lt in L.
    assert (IZR hi * IZR hi < (s * KR) * (s * KR)) by nra.
    assert ((s * KR) * (s * KR) = KR * KR / 2) by (replace (s * KR * (s * KR)) with (s * s * (KR * KR)) by ring; rewrite S2; field). lra.
Qed.

(* value of an exact rational / of an exact element of Q(zeta_8) *)
Definition qzR (q : qz) : R := IZR (fst q) / IZR (snd q).
Definition z8C (x : z8) : C :=
  let '(a, b, c, d) := x in (qzR a + (qzR b - qzR d) * sqrt (1 / 2), qzR c + (qzR b + qzR d) * sqrt (1 / 2)).

Lemma qz_ok_pos q : qz_ok q = true -> 0 < IZR (snd q).
Proof. unfold qz_ok. intros H. apply Z.ltb_lt in H. apply IZR_lt in H. exact H. Qed.
Lemma f_of_qz_sound' q : qz_ok q = true -> inF (qzR q) (f_of_qz q).
Proof. destruct q as [a d]. unfold qz_ok, qzR. cbn [fst snd]. intros H. apply f_of_qz_sound. apply Z.ltb_lt, H. Qed.
Lemma qz_sub_ok x y : qz_ok x = true -> qz_ok y = true -> qz_ok (qz_sub x y) = true /\ qzR (qz_sub x y) = qzR x - qzR y.
Proof.
  intros Hx Hy. pose proof (qz_ok_pos _ Hx) as Px. pose proof (qz_ok_pos _ Hy) as Py.
  unfold qz_ok in *. apply Z.ltb_lt in Hx, Hy. destruct x as [a d], y as [b e]. unfold qz_sub, qzR in *. cbn [fst snd] in *. split.
  - apply Z.ltb_lt. apply Z.mul_pos_pos; assumption.
  - rewrite minus_IZR, !mult_IZR. field. lra.
Qed.
Lemma qz_add_ok x y : qz_ok x = true -> qz_ok y = true -> qz_ok (qz_add x y) = true /\ qzR (qz_add x y) = qzR x + qzR y.
Proof.
  intros Hx Hy. pose proof (qz_ok_pos _ Hx) as Px. pose proof (qz_ok_pos _ Hy) as Py.
  unfold qz_ok in *. apply Z.ltb_lt in Hx, Hy. destruct x as [a d], y as [b e]. unfold qz_add, qzR in *. cbn [fst snd] in *. split.
  - apply Z.ltb_lt. apply Z.mul_pos_pos; assumption.
  - rewrite plus_IZR, !mult_IZR. field. lra.
Qed.

Lemma z8_encl_sound h x : half_ok h = true -> z8_ok x = true -> inC (z8C x) (z8_encl h x).
Proof.
  intros Hh Hx. apply half_ok_sound in Hh. destruct x as [[[a b] c] d]. unfold z8_ok in Hx.
  apply andb_prop in Hx as [Hx Hd]. apply andb_prop in Hx as [Hx Hc]. apply andb_prop in Hx as [Ha Hb].
  destruct (qz_sub_ok b d Hb Hd) as [S1 S2]. destruct (qz_add_ok b d Hb Hd) as [A1 A2].
  unfold z8C, z8_encl, inC. cbn [fst snd]. split.
  - apply fadd_sound; [apply f_of_qz_sound', Ha|]. rewrite <- S2. apply fmul_sound; [apply f_of_qz_sound', S1 | exact Hh].
  - apply fadd_sound; [apply f_of_qz_sound', Hc|]. rewrite <- A2. apply fmul_sound; [apply f_of_qz_sound', A1 | exact Hh].
Qed.

Lemma z8_col_sound h col : half_ok h = true -> forallb z8_ok col = true ->
  Forall2 (fun a z => inC z a) (map (z8_encl h) col) (map z8C col).
Proof.
  intros Hh. induction col as [|e col IH]; simpl; intros H; constructor.
  - apply andb_prop in H as [H1 _]. apply z8_encl_sound; assumption.
  - apply andb_prop in H as [_ H2]. apply IH, H2.
Qed.
Lemma z8_cols_sound h U : half_ok h = true -> forallb (forallb z8_ok) U = true ->
  Forall2 (Forall2 (fun a z => inC z a)) (map (map (z8_encl h)) U) (map (map z8C) U).
Proof.
  intros Hh. induction U as [|col U IH]; simpl; intros H; constructor.
  - apply andb_prop in H as [H1 _]. apply z8_col_sound; assumption.
  - apply andb_prop in H as [_ H2]. apply IH, H2.
Qed.

(* check_dist as evaluated per run: the unitary is the EXACT matrix over Q(zeta_8) given in the case *)
Theorem check_dist_sound x gatesC : check_dist x = true -> Forall2 gate_in (dc_gates x) gatesC ->
  forall c colX, nth_error (dc_U x) c = Some colX ->
    Forall2 (fun g w => Cmod2 (Cminus g (z8C w)) <= 1 / 100000000000000) (c_capply (dc_n x) gatesC (c_basis (dc_n x) c)) colX.
Proof.
  unfold check_dist. intros H HG c colX E.
  apply andb_prop in H as [H HD]. apply andb_prop in H as [Hh HZ].
  pose proof (z8_cols_sound _ _ Hh HZ) as HU.
  destruct (interval_check_sound _ _ _ _ _ _ HG HU HD) as [_ HS].
  specialize (HS c (map z8C colX)). rewrite nth_error_map, E in HS. specialize (HS eq_refl).
  clear - HS. remember (c_capply (dc_n x) gatesC (c_basis (dc_n x) c)) as got. clear Heqgot.
  revert got HS. induction colX as [|w ws IH]; intros got HS; inversion HS; subst; constructor.
  - apply interval_check_entry_bound. assumption.
  - apply IH. assumption.
Qed.
