(* Model for C59 (pennylane/fourier/{utils,circuit_spectrum,qnode_spectrum,coefficients}.py).
   No proofs here: this file must keep running for the correspondence check even when a proof breaks.

   Part 1 (over Q, executable): finite sets of rationals as lists; the tidy specification (sumset, scaling)
            and the transcription of get_spectrum / join_spectra (non-negative half spectra with the {0}
            short cuts, sums and |differences|), the final mirroring "[-f for f in spec[:0:-1]] + spec",
            the loop of circuit_spectrum (markers, encoding_gates, one-parameter test, absent markers) and
            the loop of qnode_spectrum (classical Jacobian entries as rationals, |jac| scaling).
            The generator eigenvalues of the gates are a table (what np.linalg.eigvalsh returns).
   Part 2 (finite Fourier sums): terms (frequency, coefficient) over Q, formal product, evaluation with a
            multiplicative character.
   Part 3 (exact DFT): the discrete Fourier transform of _coefficients_no_filter evaluated exactly in
            cyclotomic coordinates: sum_j w^(j m) is the integer vector of exponent counts, reduced modulo
            the cyclotomic polynomial Phi_N (table for odd N <= 17); the low-pass index bookkeeping
            (fftshift / take / ifftshift) of coefficients(). *)
From Coq Require Import List ZArith QArith Qabs Bool.
Import ListNotations.

(* ================================================================== Part 1: spectra *)
Open Scope Q_scope.

Definition memQ (x : Q) (l : list Q) : bool := existsb (Qeq_bool x) l.
Fixpoint nubQ (l : list Q) : list Q :=
  match l with [] => [] | x :: r => if memQ x r then nubQ r else x :: nubQ r end.
Fixpoint insQ (x : Q) (l : list Q) : list Q :=
  match l with [] => [x] | y :: r => if Qle_bool x y then x :: y :: r else y :: insQ x r end.
Definition sortQ (l : list Q) : list Q := fold_right insQ [] l.
Definition setQ (l : list Q) : list Q := sortQ (nubQ l).          (* canonical form: sorted, no duplicates *)

(* the tidy specification *)
Definition sums (a b : list Q) : list Q := flat_map (fun u => map (Qplus u) b) a.
Definition sumset (a b : list Q) : list Q := setQ (sums a b).
Definition scaleset (c : Q) (a : list Q) : list Q := setQ (map (Qmult c) a).
Definition symm (a : list Q) : list Q := a ++ map Qopp a.         (* a together with its negatives *)

(* utils.get_spectrum: evals sorted ascending (eigvalsh); combinations(evals, 2) -> x[1]-x[0]; | {0} *)
Fixpoint pair_diffs (ev : list Q) : list Q :=
  match ev with [] => [] | x :: r => map (fun y => y - x) r ++ pair_diffs r end.
Definition get_spectrum (ev : list Q) : list Q := nubQ (pair_diffs ev ++ [0]).

(* utils.join_spectra on non-negative half spectra *)
Definition is_zero_set (s : list Q) : bool := match s with [x] => Qeq_bool x 0 | _ => false end.
Definition join_raw (s1 s2 : list Q) : list Q :=
  flat_map (fun a => map (fun b => a + b) s2) s1 ++ flat_map (fun a => map (fun b => Qabs (a - b)) s2) s1.
Definition join_nn (s1 s2 : list Q) : list Q :=
  if is_zero_set s1 then s2 else if is_zero_set s2 then s1 else nubQ (join_raw s1 s2).

(* "spec = sorted(spec); [-f for f in spec[:0:-1]] + spec" *)
Definition mirror (s : list Q) : list Q := let s' := sortQ s in map Qopp (rev (tl s')) ++ s'.

(* gates that occur in the generated circuits; GRot stands for any multi-parameter gate *)
Inductive gate := GRX | GRY | GRZ | GPhaseShift | GIsingZZ | GIsingXX | GMultiRZ2 | GMultiRZ3 | GCRZ | GCPhase | GRot.
Definition nparams (g : gate) : nat := match g with GRot => 3%nat | _ => 1%nat end.
(* eigenvalues of the generator, ascending *)
Definition gate_evals (g : gate) : list Q :=
  match g with
  | GRX | GRY | GRZ => [-(1#2); 1#2]
  | GPhaseShift => [0; 1]
  | GIsingZZ | GIsingXX | GMultiRZ2 => [-(1#2); -(1#2); 1#2; 1#2]
  | GMultiRZ3 => [-(1#2); -(1#2); -(1#2); -(1#2); 1#2; 1#2; 1#2; 1#2]
  | GCRZ => [-(1#2); 0; 0; 1#2]
  | GCPhase => [0; 0; 0; 1]
  | GRot => []
  end.

Fixpoint lookup (m : nat) (fs : list (nat * list Q)) : option (list Q) :=
  match fs with [] => None | (k, s) :: r => if Nat.eqb k m then Some s else lookup m r end.
Fixpoint upd (m : nat) (s : list Q) (fs : list (nat * list Q)) : list (nat * list Q) :=
  match fs with [] => [(m, s)] | (k, t) :: r => if Nat.eqb k m then (k, s) :: r else (k, t) :: upd m s r end.
Definition memN (m : nat) (l : list nat) : bool := existsb (Nat.eqb m) l.
Definition is_enc (enc : option (list nat)) (m : nat) : bool :=
  match enc with None => true | Some l => memN m l end.

(* the loop of circuit_spectrum.processing_fn; None = ValueError *)
Fixpoint cs_loop (enc : option (list nat)) (ops : list (option nat * gate)) (fs : list (nat * list Q))
  : option (list (nat * list Q)) :=
  match ops with
  | [] => Some fs
  | (None, _) :: r => cs_loop enc r fs
  | (Some m, g) :: r =>
      if is_enc enc m then
        if Nat.eqb (nparams g) 1 then
          let spec := get_spectrum (gate_evals g) in
          let spec' := match lookup m fs with Some old => join_nn old spec | None => spec end in
          cs_loop enc r (upd m spec' fs)
        else None
      else cs_loop enc r fs
  end.
Fixpoint absent (l : list nat) (fs : list (nat * list Q)) : list (nat * list Q) :=
  match l with [] => []
  | m :: r => match lookup m fs with Some _ => absent r fs
              | None => if memN m r then absent r fs else (m, []) :: absent r fs end
  end.
Definition circuit_spectrum (enc : option (list nat)) (ops : list (option nat * gate)) : option (list (nat * list Q)) :=
  match cs_loop enc ops [] with
  | None => None
  | Some fs => Some (map (fun ms => (fst ms, mirror (snd ms))) fs
                     ++ match enc with None => [] | Some l => absent l fs end)
  end.

(* the loop of qnode_spectrum for one array argument: every (decomposed) operation comes with the row of
   the classical Jacobian (parameter index, entry); requested = all indices < npar *)
Definition qs_op (sp : list (nat * list Q)) (op : gate * list (nat * Q)) : list (nat * list Q) :=
  let spec := get_spectrum (gate_evals (fst op)) in
  fold_left (fun sp pj =>
      if Qeq_bool (snd pj) 0 then sp else
      match lookup (fst pj) sp with
      | None => sp
      | Some old => upd (fst pj) (join_nn old (map (Qmult (Qabs (snd pj))) spec)) sp
      end) (snd op) sp.
Definition qnode_spectrum (npar : nat) (ops : list (gate * list (nat * Q))) : list (nat * list Q) :=
  map (fun ms => (fst ms, mirror (snd ms)))
      (fold_left qs_op ops (map (fun p => (p, [0])) (seq 0 npar))).

(* ================================================================== Part 2: finite Fourier sums *)
Definition fterm := (Q * Q)%type.                                   (* (frequency, coefficient) *)
Definition fsum := list fterm.
Definition fmul (p q : fsum) : fsum :=
  flat_map (fun s => map (fun t => (fst s + fst t, snd s * snd t)) q) p.
Definition fscale_arg (a : Q) (p : fsum) : fsum := map (fun t => (a * fst t, snd t)) p.   (* x |-> a x *)
Definition freqs (p : fsum) : list Q := map fst p.
Fixpoint feval (chi : Q -> Q) (p : fsum) : Q :=
  match p with [] => 0 | t :: r => snd t * chi (fst t) + feval chi r end.

(* ================================================================== Part 3: exact DFT *)
Open Scope Z_scope.

(* cyclotomic polynomials, coefficients from the leading one down; None = not tabulated *)
Definition ones (n : nat) : list Z := repeat 1 n.
Definition phi (N : Z) : option (list Z) :=
  match N with
  | 1 => Some [1; -1]
  | 3 => Some (ones 3)
  | 5 => Some (ones 5)
  | 7 => Some (ones 7)
  | 9 => Some [1; 0; 0; 1; 0; 0; 1]
  | 11 => Some (ones 11)
  | 13 => Some (ones 13)
  | 15 => Some [1; -1; 0; 1; -1; 1; 0; -1; 1]
  | 17 => Some (ones 17)
  | _ => None
  end.

(* remainder of p modulo the monic polynomial ph (both listed from the leading coefficient down) *)
Fixpoint sub_scaled (c : Z) (ph p : list Z) : list Z :=
  match ph, p with
  | a :: ph', b :: p' => (b - c * a) :: sub_scaled c ph' p'
  | _, _ => p
  end.
Fixpoint prem (fuel : nat) (ph p : list Z) : list Z :=
  match fuel with
  | O => p
  | S f => if (length p <? length ph)%nat then p
           else match p with [] => [] | c :: _ => prem f ph (tl (sub_scaled c ph p)) end
  end.
Definition const_of (r : list Z) : option Z :=
  match rev r with
  | [] => Some 0
  | c :: rest => if forallb (Z.eqb 0) rest then Some c else None
  end.

(* sample positions n = -d .. d (the index vector nvec of _coefficients_no_filter); sample n is
   f(2 pi n / N); the monomial e^{i k x} contributes w^(n k), w = e^{2 pi i / N}; multiplied by the DFT
   kernel w^(-n q) it is w^(n m) with m = k - q.  gvec = the element sum_n w^(n m) of Z[w]/(w^N - 1) as the
   vector of exponent counts (leading exponent N-1 first). *)
Definition zrange (lo : Z) (n : nat) : list Z := map (fun i => lo + Z.of_nat i) (seq 0 n).
Definition gvec (N d m : Z) : list Z :=
  let pos := zrange (- d) (Z.to_nat N) in
  map (fun r => Z.of_nat (length (filter (fun n => ((n * m) mod N) =? r) pos)))
      (rev (zrange 0 (Z.to_nat N))).
Definition geom_const (N d m : Z) : option Z :=
  match phi N with
  | None => None
  | Some ph => const_of (prem (Z.to_nat N) ph (gvec N d m))
  end.

Definition cq := (Q * Q)%type.
Definition cadd (a b : cq) : cq := (Qred (fst a + fst b)%Q, Qred (snd a + snd b)%Q).
Definition cscale (z : Z) (a : cq) : cq := (Qred (inject_Z z * fst a)%Q, Qred (inject_Z z * snd a)%Q).
Definition cdiv (a : cq) (z : Z) : cq := (Qred (fst a / inject_Z z)%Q, Qred (snd a / inject_Z z)%Q).

(* geom_const N d m only depends on m mod N ((n m) mod N = (n (m mod N)) mod N), so it is tabulated once
   per axis for the residues 0 .. N-1 *)
Definition gtab (N d : Z) : list (option Z) := map (geom_const N d) (zrange 0 (Z.to_nat N)).
Definition gtabs (degs : list Z) : list (Z * list (option Z)) := map (fun d => (2 * d + 1, gtab (2 * d + 1) d)) degs.

(* product over the axes of sum_n w_i^(n (k_i - q_i)) *)
Fixpoint geom_prod (tabs : list (Z * list (option Z))) (ks qs : list Z) : option Z :=
  match tabs, ks, qs with
  | [], [], [] => Some 1
  | (N, tb) :: tabs', k :: ks', q :: qs' =>
      match nth (Z.to_nat ((k - q) mod N)) tb None, geom_prod tabs' ks' qs' with
      | Some a, Some b => Some (a * b)
      | _, _ => None
      end
  | _, _, _ => None
  end.
Definition term := (list Z * cq)%type.                               (* (k_1..k_n), coefficient *)
Fixpoint dft_at (tabs : list (Z * list (option Z))) (ts : list term) (qs : list Z) : option cq :=
  match ts with
  | [] => Some (0%Q, 0%Q)
  | t :: r => match geom_prod tabs (fst t) qs, dft_at tabs r qs with
              | Some g, Some acc => Some (cadd (cscale g (snd t)) acc)
              | _, _ => None
              end
  end.
Definition size_of (degs : list Z) : Z := fold_right (fun d acc => (2 * d + 1) * acc) 1 degs.
(* all index vectors of an array of shape (2 d_i + 1)_i in row-major (C) order *)
Fixpoint indices (degs : list Z) : list (list Z) :=
  match degs with
  | [] => [[]]
  | d :: r => flat_map (fun i => map (cons i) (indices r)) (zrange 0 (Z.to_nat (2 * d + 1)))
  end.
(* entry q of  np.fft.fftn(f_discrete) / f_discrete.size *)
Definition coeff_at (tabs : list (Z * list (option Z))) (size : Z) (ts : list term) (qs : list Z) : option cq :=
  match dft_at tabs ts qs with Some s => Some (cdiv s size) | None => None end.

Fixpoint sequence {A} (l : list (option A)) : option (list A) :=
  match l with [] => Some []
  | None :: _ => None
  | Some x :: r => match sequence r with Some r' => Some (x :: r') | None => None end
  end.
Definition coeffs_no_filter (degs : list Z) (ts : list term) : option (list cq) :=
  let tabs := gtabs degs in let size := size_of degs in
  sequence (map (coeff_at tabs size ts) (indices degs)).

(* low-pass branch, per axis: fftshift (roll by n//2), take the central 2d+1 entries, ifftshift (roll by
   -(n//2)); the final ifftn followed by fftn is the identity.  src gives, for a position i of the result,
   the position of the unfiltered array (threshold t) it is copied from. *)
Definition fftshift_src (n a : Z) : Z := (a - n / 2) mod n.            (* shifted[a] = x[(a - n//2) mod n] *)
Definition ifftshift_src (n i : Z) : Z := (i + n / 2) mod n.           (* y[i] = x[(i + n//2) mod n] *)
Definition filter_src (t d i : Z) : Z :=
  let nt := 2 * t + 1 in let nd := 2 * d + 1 in
  fftshift_src nt (ifftshift_src nd i + (t - d)).
Fixpoint filter_srcs (ts ds qs : list Z) : list Z :=
  match ts, ds, qs with
  | t :: ts', d :: ds', q :: qs' => filter_src t d q :: filter_srcs ts' ds' qs'
  | _, _, _ => []
  end.
Definition coeffs_filtered (degs thr : list Z) (ts : list term) : option (list cq) :=
  let tabs := gtabs thr in let size := size_of thr in
  sequence (map (fun qs => coeff_at tabs size ts (filter_srcs thr degs qs)) (indices degs)).

(* band-limited layout: position q of an axis with N = 2d+1 holds frequency q (q <= d) or q - N *)
Definition freq_of_pos (d q : Z) : Z := if q <=? d then q else q - (2 * d + 1).

(* ================================================================== correspondence *)
Inductive input :=
| ICircuit (enc : option (list nat)) (ops : list (option nat * gate))
| IQnode (npar : nat) (ops : list (gate * list (nat * Q)))
| ICoeff (degs : list Z) (thr : option (list Z)) (ts : list term).
Inductive output :=
| OSpectra (r : option (list (nat * list Q)))
| OCoeffs (r : option (list cq)).

Definition run_model (i : input) : output :=
  match i with
  | ICircuit enc ops => OSpectra (circuit_spectrum enc ops)
  | IQnode npar ops => OSpectra (Some (qnode_spectrum npar ops))
  | ICoeff degs None ts => OCoeffs (coeffs_no_filter degs ts)
  | ICoeff degs (Some thr) ts => OCoeffs (coeffs_filtered degs thr ts)
  end.

Fixpoint listQ_eqb (a b : list Q) : bool :=
  match a, b with
  | [], [] => true
  | x :: a', y :: b' => Qeq_bool x y && listQ_eqb a' b'
  | _, _ => false
  end.
(* spectra are compared as finite maps: the expected side is listed in ascending marker order *)
Fixpoint spectra_sub (a b : list (nat * list Q)) : bool :=
  match a with [] => true
  | (m, s) :: r => match lookup m b with Some s' => listQ_eqb s s' | None => false end && spectra_sub r b
  end.
Definition spectra_eqb (a b : list (nat * list Q)) : bool :=
  Nat.eqb (length a) (length b) && spectra_sub a b && spectra_sub b a.
Fixpoint listC_eqb (a b : list cq) : bool :=
  match a, b with
  | [], [] => true
  | x :: a', y :: b' => Qeq_bool (fst x) (fst y) && Qeq_bool (snd x) (snd y) && listC_eqb a' b'
  | _, _ => false
  end.
Definition out_eqb (a b : output) : bool :=
  match a, b with
  | OSpectra None, OSpectra None => true
  | OSpectra (Some x), OSpectra (Some y) => spectra_eqb x y
  | OCoeffs None, OCoeffs None => true
  | OCoeffs (Some x), OCoeffs (Some y) => listC_eqb x y
  | _, _ => false
  end.
Definition check_case (c : input * output) : bool := out_eqb (run_model (fst c)) (snd c).
