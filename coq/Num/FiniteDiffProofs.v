(* Lemmas for C36: moment conditions imply exact differentiation of polynomials (all stencils, all
   polynomials, all base points and steps), and the model's coefficients satisfy the moment conditions
   on the stated finite grids. *)
From Coq Require Import List ZArith QArith Qabs Qfield Bool Lia Setoid.
From PLV Require Import Num.FiniteDiffModel.
Import ListNotations.
Open Scope Q_scope.

(* ------------------------------------------------------------------ sums over a stencil *)
(* the stencil with weights c_i * s_i *)
Definition wmul (cs : list (Q * Q)) : list (Q * Q) := map (fun c => (fst c * snd c, snd c)) cs.

Lemma moment_wmul : forall cs j, moment (wmul cs) j == moment cs (S j).
Proof.
  induction cs as [|[c s] r IH]; intro j.
  - reflexivity.
  - cbn [wmul map moment fst snd]. fold (wmul r). rewrite IH. cbn [qpow]. ring.
Qed.

Lemma stencil_sum_nil : forall cs x0 h, stencil_sum cs [] x0 h == 0.
Proof.
  induction cs as [|[c s] r IH]; intros; cbn [stencil_sum peval].
  - reflexivity.
  - rewrite IH. ring.
Qed.

Lemma stencil_sum_cons : forall cs a r x0 h,
  stencil_sum cs (a :: r) x0 h ==
  a * moment cs 0 + x0 * stencil_sum cs r x0 h + h * stencil_sum (wmul cs) r x0 h.
Proof.
  induction cs as [|[c s] t IH]; intros.
  - cbn [stencil_sum wmul map moment]. ring.
  - cbn [stencil_sum wmul map moment fst snd qpow]. fold (wmul t). rewrite IH.
    cbn [peval]. ring.
Qed.

(* ------------------------------------------------------------------ Taylor (Hasse) coefficients *)
(* hasse p n x = p^(n)(x) / n!  by the Horner recursion  T_n(a + X r) = [n=0] a + x T_n(r) + T_(n-1)(r) *)
Fixpoint hasse (p : list Q) (n : nat) (x : Q) : Q :=
  match p with
  | [] => 0
  | a :: r => (match n with O => a | S _ => 0 end) + x * hasse r n x
              + (match n with O => 0 | S m => hasse r m x end)
  end.

Definition kron (K : Q) (n j : nat) : Q := if Nat.eqb j n then K else 0.

(* the core induction: a stencil whose moments below length p are K*[j = n] computes K h^n T_n(p)(x0) *)
Lemma stencil_hasse : forall p cs n K x0 h,
  (forall j, (j < length p)%nat -> moment cs j == kron K n j) ->
  stencil_sum cs p x0 h == K * qpow h n * hasse p n x0.
Proof.
  induction p as [|a r IH]; intros cs n K x0 h H.
  - rewrite stencil_sum_nil. cbn [hasse]. ring.
  - rewrite stencil_sum_cons.
    rewrite (IH cs n K) by (intros j Hj; apply H; cbn [length]; lia).
    assert (H0 : moment cs 0 == kron K n 0) by (apply H; cbn [length]; lia).
    rewrite H0.
    destruct n as [|m].
    + rewrite (IH (wmul cs) 0%nat 0).
      * unfold kron. cbn [Nat.eqb hasse qpow]. ring.
      * intros j Hj. rewrite moment_wmul. rewrite H by (cbn [length]; lia).
        unfold kron. cbn [Nat.eqb]. destruct (Nat.eqb j 0); reflexivity.
    + rewrite (IH (wmul cs) m K).
      * unfold kron. cbn [Nat.eqb hasse qpow]. ring.
      * intros j Hj. rewrite moment_wmul. rewrite H by (cbn [length]; lia).
        unfold kron. cbn [Nat.eqb]. reflexivity.
Qed.

(* ------------------------------------------------------------------ link with the formal derivative *)
Definition qn (k : nat) : Q := inject_Z (Z.of_nat k).

Lemma qn_S : forall k, qn (S k) == qn k + 1.
Proof. intro k. unfold qn. rewrite Nat2Z.inj_succ. unfold Z.succ. rewrite inject_Z_plus. reflexivity. Qed.

Lemma qn_add : forall a b, qn (a + b) == qn a + qn b.
Proof. intros. unfold qn. rewrite Nat2Z.inj_add, inject_Z_plus. reflexivity. Qed.

Lemma qn_0 : qn 0 == 0.
Proof. reflexivity. Qed.

Lemma hasse_dcoef : forall r j n x,
  hasse (dcoef j r) n x == qn (j + n) * hasse r n x + qn (S n) * x * hasse r (S n) x.
Proof.
  induction r as [|a r IH]; intros j n x.
  - cbn [dcoef hasse]. ring.
  - cbn [dcoef]. change (inject_Z (Z.of_nat j)) with (qn j).
    destruct n as [|m].
    + cbn [hasse]. rewrite (IH (S j) 0%nat).
      rewrite !qn_add, !qn_S, !qn_0. ring.
    + cbn [hasse]. rewrite (IH (S j) (S m)), (IH (S j) m).
      rewrite !qn_add, !qn_S. ring.
Qed.

Lemma hasse_pderiv : forall p n x, qn (S n) * hasse p (S n) x == hasse (pderiv p) n x.
Proof.
  intros [|a r] n x.
  - cbn [pderiv hasse]. ring.
  - cbn [pderiv]. rewrite hasse_dcoef. cbn [hasse].
    rewrite !qn_add, !qn_S, !qn_0. ring.
Qed.

Lemma hasse_0 : forall p x, hasse p 0 x == peval p x.
Proof. induction p as [|a r IH]; intro x; cbn [hasse peval]; [reflexivity | rewrite IH; ring]. Qed.

Lemma qfact_S : forall n, qfact (S n) == qn (S n) * qfact n.
Proof. intro n. unfold qfact, qn. cbn [zfact]. rewrite inject_Z_mult. reflexivity. Qed.

Lemma nderiv_succ_r : forall n p, nderiv (S n) p = nderiv n (pderiv p).
Proof.
  induction n as [|n IH]; intro p; [reflexivity|].
  change (nderiv (S (S n)) p) with (pderiv (nderiv (S n) p)). rewrite IH. reflexivity.
Qed.

(* n! * T_n(p)(x) is the value at x of the n-fold formal derivative *)
Lemma hasse_nderiv : forall n p x, qfact n * hasse p n x == peval (nderiv n p) x.
Proof.
  induction n as [|n IH]; intros p x.
  - change (nderiv 0 p) with p. rewrite hasse_0. change (qfact 0) with 1. ring.
  - rewrite nderiv_succ_r.
    rewrite <- IH, <- hasse_pderiv, qfact_S. ring.
Qed.

Lemma qpow_nonzero : forall h n, ~ h == 0 -> ~ qpow h n == 0.
Proof.
  intros h n Hh. induction n as [|n IH]; cbn [qpow].
  - discriminate.
  - intro E. apply Qmult_integral in E. tauto.
Qed.

(* ------------------------------------------------------------------ (a) moments ==> exactness *)
Lemma moments_imply_exact_l : forall n D cs, moments_hold n D cs ->
  forall p, (length p <= D)%nat -> forall x0 h, ~ h == 0 ->
  stencil n cs p x0 h == peval (nderiv n p) x0.
Proof.
  intros n D cs HM p Hp x0 h Hh. unfold stencil.
  rewrite (stencil_hasse p cs n (qfact n)).
  - rewrite <- hasse_nderiv. field. apply qpow_nonzero; exact Hh.
  - intros j Hj. apply HM. lia.
Qed.

(* the un-divided form, valid also for h = 0 *)
Lemma moments_imply_exact_sum_l : forall n D cs, moments_hold n D cs ->
  forall p, (length p <= D)%nat -> forall x0 h,
  stencil_sum cs p x0 h == qpow h n * peval (nderiv n p) x0.
Proof.
  intros n D cs HM p Hp x0 h.
  rewrite (stencil_hasse p cs n (qfact n)).
  - rewrite <- hasse_nderiv. ring.
  - intros j Hj. apply HM. lia.
Qed.

(* ------------------------------------------------------------------ (b) the model's coefficients *)
Lemma In_zrange : forall k lo z, (lo <= z < lo + Z.of_nat k)%Z -> In z (zrange lo k).
Proof.
  induction k as [|k IH]; intros lo z H; cbn [zrange].
  - lia.
  - destruct (Z.eq_dec z lo) as [->|Hne]; [left; reflexivity | right; apply IH; lia].
Qed.

Lemma grid_cell : forall nmax amax, grid_okb nmax amax = true ->
  forall n a s, (1 <= n <= Z.of_nat nmax)%Z -> (1 <= a <= Z.of_nat amax)%Z -> s <> SUnknown ->
  cell_okb n a s = true.
Proof.
  intros nmax amax G n a s Hn Ha Hs. unfold grid_okb in G.
  assert (In1 : In n (zrange 1 nmax)) by (apply In_zrange; lia).
  assert (In2 : In a (zrange 1 amax)) by (apply In_zrange; lia).
  rewrite forallb_forall in G. specialize (G n In1).
  rewrite forallb_forall in G. specialize (G a In2).
  rewrite forallb_forall in G. apply G.
  destruct s; cbn; tauto.
Qed.

Lemma moments_okb_hold : forall n D cs, moments_okb n D cs = true -> moments_hold n D cs.
Proof.
  intros n D cs H j Hj. unfold moments_okb in H. rewrite forallb_forall in H.
  apply Qeq_bool_iff. apply H. apply in_seq. lia.
Qed.

Lemma unknown_none : forall n a, fd_coeffs n a SUnknown = None.
Proof.
  intros n a. unfold fd_coeffs, shifts_of.
  destruct (n <? 1)%Z; [reflexivity|]. destruct (a <? 1)%Z; reflexivity.
Qed.

Lemma grid_moments : forall nmax amax, grid_okb nmax amax = true ->
  forall n a s cs, (1 <= n <= Z.of_nat nmax)%Z -> (1 <= a <= Z.of_nat amax)%Z ->
  fd_coeffs n a s = Some cs -> moments_hold (Z.to_nat n) (Z.to_nat (n + a)) cs.
Proof.
  intros nmax amax G n a s cs Hn Ha E.
  assert (Hs : s <> SUnknown) by (intro; subst; rewrite unknown_none in E; discriminate).
  pose proof (grid_cell _ _ G n a s Hn Ha Hs) as C. unfold cell_okb in C.
  rewrite E in C. apply andb_true_iff in C. destruct C as [_ C].
  apply moments_okb_hold. exact C.
Qed.

Lemma grid_defined : forall nmax amax, grid_okb nmax amax = true ->
  forall n a s, (1 <= n <= Z.of_nat nmax)%Z -> (1 <= a <= Z.of_nat amax)%Z ->
  (fd_coeffs n a s <> None <->
   s = Forward \/ s = Backward \/ (s = Center /\ (a mod 2 = 0)%Z)).
Proof.
  intros nmax amax G n a s Hn Ha.
  assert (C : s <> SUnknown -> defined_as_expected a s (fd_coeffs n a s) = true).
  { intro Hs. pose proof (grid_cell _ _ G n a s Hn Ha Hs) as C. unfold cell_okb in C.
    apply andb_true_iff in C. tauto. }
  destruct s.
  - specialize (C ltac:(discriminate)). unfold defined_as_expected in C.
    destruct (fd_coeffs n a Forward); [|discriminate]. split; [auto | discriminate].
  - specialize (C ltac:(discriminate)). unfold defined_as_expected in C.
    destruct (fd_coeffs n a Backward); [|discriminate]. split; [auto | discriminate].
  - specialize (C ltac:(discriminate)). unfold defined_as_expected in C.
    destruct (fd_coeffs n a Center).
    + apply Z.eqb_eq in C. split; [auto | discriminate].
    + apply negb_true_iff, Z.eqb_neq in C. split; [congruence|].
      intros [H|[H|[_ H]]]; try discriminate. contradiction.
  - rewrite unknown_none. split; [congruence|]. intros [H|[H|[H _]]]; discriminate.
Qed.

Lemma grid_4_6 : grid_okb 4 6 = true.
Proof. vm_compute. reflexivity. Qed.

Lemma grid_8_10 : grid_okb 8 10 = true.
Proof. vm_compute. reflexivity. Qed.

Lemma coeffs_moments_4_6 : forall n a s cs, (1 <= n <= 4)%Z -> (1 <= a <= 6)%Z ->
  fd_coeffs n a s = Some cs -> moments_hold (Z.to_nat n) (Z.to_nat (n + a)) cs.
Proof. intros n a s cs Hn Ha. apply (grid_moments 4 6 grid_4_6); cbn; lia. Qed.

Lemma coeffs_moments_8_10 : forall n a s cs, (1 <= n <= 8)%Z -> (1 <= a <= 10)%Z ->
  fd_coeffs n a s = Some cs -> moments_hold (Z.to_nat n) (Z.to_nat (n + a)) cs.
Proof. intros n a s cs Hn Ha. apply (grid_moments 8 10 grid_8_10); cbn; lia. Qed.

Lemma coeffs_defined_8_10 : forall n a s, (1 <= n <= 8)%Z -> (1 <= a <= 10)%Z ->
  (fd_coeffs n a s <> None <->
   s = Forward \/ s = Backward \/ (s = Center /\ (a mod 2 = 0)%Z)).
Proof. intros n a s Hn Ha. apply (grid_defined 8 10 grid_8_10); cbn; lia. Qed.

(* the property itself for the model: its stencils differentiate every polynomial of degree
   below n + approx_order exactly *)
Lemma fd_exact_8_10 : forall n a s cs, (1 <= n <= 8)%Z -> (1 <= a <= 10)%Z ->
  fd_coeffs n a s = Some cs ->
  forall p, (length p <= Z.to_nat (n + a))%nat -> forall x0 h, ~ h == 0 ->
  stencil (Z.to_nat n) cs p x0 h == peval (nderiv (Z.to_nat n) p) x0.
Proof.
  intros n a s cs Hn Ha E. apply moments_imply_exact_l.
  exact (coeffs_moments_8_10 n a s cs Hn Ha E).
Qed.
