(* Model of pennylane/gradients/finite_difference.py : finite_diff_coeffs(n, approx_order, strategy),
   over exact rationals.  No proofs here: this file must keep running for the correspondence check
   even when a proof elsewhere breaks. *)
From Coq Require Import List ZArith QArith Qabs Bool.
Import ListNotations.
Open Scope Q_scope.

Inductive strategy := Forward | Backward | Center | SUnknown.

(* ---- small helpers ---- *)
Fixpoint zrange (lo : Z) (k : nat) : list Z :=            (* np.arange(lo, lo + k) *)
  match k with O => [] | S k' => lo :: zrange (lo + 1) k' end.
Fixpoint qpow (x : Q) (k : nat) : Q := match k with O => 1 | S k' => x * qpow x k' end.   (* 0 ** 0 = 1 as in numpy *)
Fixpoint zfact (k : nat) : Z := match k with O => 1%Z | S k' => (Z.of_nat k * zfact k')%Z end.
Definition qfact (k : nat) : Q := inject_Z (zfact k).

(* ---- shift selection, line by line ---- *)
(* num_points = approx_order + 2 * np.floor((n + 1) / 2) - 1 *)
Definition num_points (n a : Z) : Z := (a + 2 * ((n + 1) / 2) - 1)%Z.

Definition shifts_of (n a : Z) (s : strategy) : option (list Z) :=
  if (n <? 1)%Z then None                                  (* ValueError: derivative order *)
  else if (a <? 1)%Z then None                             (* ValueError: approximation order *)
  else
    let np := num_points n a in
    let N := if (n mod 2 =? 0)%Z then (np + 1)%Z else np in
    match s with
    | Forward => Some (zrange 0 (Z.to_nat N))                         (* np.arange(N) *)
    | Backward => Some (zrange (- N + 1) (Z.to_nat (1 - (- N + 1))))  (* np.arange(-N + 1, 1) *)
    | Center =>
        if negb (a mod 2 =? 0)%Z then None                            (* ValueError: even order required *)
        else let N' := (np / 2)%Z in                                  (* N = num_points // 2 *)
             Some (zrange (- N') (Z.to_nat (N' + 1 - (- N'))))        (* np.arange(-N, N + 1) *)
    | SUnknown => None                                                (* ValueError: unknown strategy *)
    end.

(* ---- the linear system  A = shifts ** arange(len).reshape(-1,1);  b[n] = n! ---- *)
Definition vrow (ss : list Q) (n : nat) (j : nat) : list Q :=        (* augmented row j *)
  map (fun s => Qred (qpow s j)) ss ++ [if Nat.eqb j n then qfact n else 0].
Definition vsystem (ss : list Q) (n : nat) : list (list Q) := map (vrow ss n) (seq 0 (length ss)).

(* ---- exact Gaussian elimination (linalg_solve; in exact arithmetic the pivot order is irrelevant,
        we take the first row with a non-zero leading entry) ---- *)
Fixpoint find_pivot (acc rows : list (list Q)) : option (list Q * list (list Q)) :=
  match rows with
  | [] => None
  | r :: rest =>
      match r with
      | [] => None
      | x :: _ => if Qeq_bool x 0 then find_pivot (acc ++ [r]) rest else Some (r, acc ++ rest)
      end
  end.

Fixpoint row_sub (f : Q) (p r : list Q) : list Q :=                  (* r - f * p *)
  match p, r with x :: p', y :: r' => Qred (y - f * x) :: row_sub f p' r' | _, _ => [] end.

Fixpoint dotq (a b : list Q) : Q :=
  match a, b with x :: a', y :: b' => Qred (x * y + dotq a' b') | _, _ => 0 end.

(* m unknowns; every row has m coefficients followed by the right-hand side.  None = singular. *)
Fixpoint solve (m : nat) (rows : list (list Q)) : option (list Q) :=
  match m with
  | O => Some []
  | S m' =>
      match find_pivot [] rows with
      | None => None
      | Some (p, others) =>
          match p with
          | [] => None
          | ph :: pt =>
              let red := map (fun r => match r with [] => [] | rh :: rt => row_sub (Qred (rh / ph)) pt rt end) others in
              match solve m' red with
              | None => None
              | Some xs => Some (Qred ((last pt 0 - dotq pt xs) / ph) :: xs)
              end
          end
      end
  end.

(* ---- post-processing ---- *)
(* coeffs_and_shifts[np.abs(coeffs_and_shifts) < 1e-10] = 0 *)
Definition thresh (x : Q) : Q := if Qle_bool (1 # 10000000000) (Qabs x) then x else 0.
(* drop columns that are entirely zero *)
Definition col_nonzero (c : Q * Q) : bool := negb (Qeq_bool (fst c) 0 && Qeq_bool (snd c) 0).
(* np.argsort(np.abs(shift)) : stable insertion (numpy's sort for short arrays); among equal |shift| the
   original (ascending) order is kept *)
Fixpoint insert_col (c : Q * Q) (l : list (Q * Q)) : list (Q * Q) :=
  match l with
  | [] => [c]
  | d :: r => if Qle_bool (Qabs (snd d)) (Qabs (snd c)) then d :: insert_col c r else c :: l
  end.
Definition sort_cols (l : list (Q * Q)) : list (Q * Q) := fold_left (fun acc c => insert_col c acc) l [].

(* columns are (coefficient, shift) *)
Definition fd_coeffs (n a : Z) (s : strategy) : option (list (Q * Q)) :=
  match shifts_of n a s with
  | None => None
  | Some zs =>
      let ss := map inject_Z zs in
      match solve (length ss) (vsystem ss (Z.to_nat n)) with
      | None => None
      | Some cs =>
          let cols := map (fun c => (thresh (fst c), thresh (snd c))) (combine cs ss) in
          Some (sort_cols (filter col_nonzero cols))
      end
  end.

(* ---- the vocabulary of the property: moments, polynomials, derivatives, stencils ---- *)
Fixpoint moment (cs : list (Q * Q)) (j : nat) : Q :=                 (* sum_i c_i * s_i^j *)
  match cs with [] => 0 | (c, s) :: r => c * qpow s j + moment r j end.

(* polynomial = coefficient list, lowest degree first; Horner evaluation *)
Fixpoint peval (p : list Q) (x : Q) : Q := match p with [] => 0 | a :: r => a + x * peval r x end.
(* formal derivative: [a0; a1; a2; ...] |-> [1*a1; 2*a2; ...] *)
Fixpoint dcoef (k : nat) (p : list Q) : list Q :=
  match p with [] => [] | a :: r => inject_Z (Z.of_nat k) * a :: dcoef (S k) r end.
Definition pderiv (p : list Q) : list Q := match p with [] => [] | _ :: r => dcoef 1 r end.
Definition nderiv (n : nat) (p : list Q) : list Q := Nat.iter n pderiv p.

(* sum_i c_i * p(x0 + h * s_i) and the finite-difference quotient *)
Fixpoint stencil_sum (cs : list (Q * Q)) (p : list Q) (x0 h : Q) : Q :=
  match cs with [] => 0 | (c, s) :: r => c * peval p (x0 + h * s) + stencil_sum r p x0 h end.
Definition stencil (n : nat) (cs : list (Q * Q)) (p : list Q) (x0 h : Q) : Q :=
  stencil_sum cs p x0 h / qpow h n.

(* the moment conditions  sum_i c_i s_i^j = n! [j = n]  for j < D *)
Definition moment_target (n j : nat) : Q := if Nat.eqb j n then qfact n else 0.
Definition moments_hold (n D : nat) (cs : list (Q * Q)) : Prop :=
  forall j, (j < D)%nat -> moment cs j == moment_target n j.
Definition moments_okb (n D : nat) (cs : list (Q * Q)) : bool :=
  forallb (fun j => Qeq_bool (moment cs j) (moment_target n j)) (seq 0 D).

(* exhaustive grid 1..nmax x 1..amax x {forward, backward, center} *)
Definition defined_as_expected (a : Z) (s : strategy) (r : option (list (Q * Q))) : bool :=
  match r, s with
  | Some _, (Forward | Backward) => true
  | Some _, Center => (a mod 2 =? 0)%Z
  | None, Center => negb (a mod 2 =? 0)%Z
  | _, _ => false
  end.
Definition cell_okb (n a : Z) (s : strategy) : bool :=
  let r := fd_coeffs n a s in
  defined_as_expected a s r &&
  match r with None => true | Some cs => moments_okb (Z.to_nat n) (Z.to_nat (n + a)) cs end.
Definition grid_okb (nmax amax : nat) : bool :=
  forallb (fun n => forallb (fun a => forallb (cell_okb n a) [Forward; Backward; Center])
                            (zrange 1 amax)) (zrange 1 nmax).

(* ---- correspondence with the implementation ---- *)
(* expected = the implementation's (coefficient, shift) columns as exact rationals of the floats, ties
   among equal |shift| put in ascending order by the harness; None = ValueError.
   shifts must agree exactly, coefficients within 1e-9 * max(1, largest model coefficient). *)
Definition tol : Q := 1 # 1000000000.
Definition maxabs (cs : list (Q * Q)) : Q := fold_right (fun c m => if Qle_bool (Qabs (fst c)) m then m else Qabs (fst c)) 1 cs.
Fixpoint cols_close (bound : Q) (a b : list (Q * Q)) : bool :=
  match a, b with
  | [], [] => true
  | (c, s) :: a', (c', s') :: b' =>
      Qeq_bool s s' && Qle_bool (Qabs (c - c')) bound && cols_close bound a' b'
  | _, _ => false
  end.
Definition check_case (c : (Z * Z * strategy) * option (list (Q * Q))) : bool :=
  let '((n, a, s), expected) := c in
  match fd_coeffs n a s, expected with
  | None, None => true
  | Some m, Some e => cols_close (tol * maxabs m) m e
  | _, _ => false
  end.

(* measurement only (no verdict): largest |model coefficient - implementation coefficient| divided by
   max(1, largest model coefficient), as (numerator, denominator); None if the shifts differ *)
Definition case_err (c : (Z * Z * strategy) * option (list (Q * Q))) : option (Z * Z) :=
  let '((n, a, s), expected) := c in
  match fd_coeffs n a s, expected with
  | Some m, Some e =>
      if Nat.eqb (length m) (length e) && forallb (fun p => Qeq_bool (snd (fst p)) (snd (snd p))) (combine m e)
      then let d := fold_right (fun p acc => let d := Qabs (fst (fst p) - fst (snd p)) in
                                             if Qle_bool d acc then acc else d) 0 (combine m e) in
           let r := Qred (d / maxabs m) in Some (Qnum r, Zpos (Qden r))
      else None
  | _, _ => None
  end.
