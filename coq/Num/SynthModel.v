(* C14 Unitary synthesis: computable model.
   (1) discrete part: skeletons (gate kind + wires) of the circuits emitted by one_qubit_decomposition (five rotation
       conventions), two_qubit_decomposition (0/1/2/3-CNOT templates) and multi_qubit_decomposition (cosine-sine step),
       transcribed from pennylane/ops/op_math/decompositions/unitary_decompositions.py, and CNOT counting;
   (2) numeric part: interval arithmetic over Q, complex intervals, and the checker that multiplies a circuit of
       enclosed gate matrices column by column and bounds its distance to an exactly given unitary over Q(zeta_8).
   No proofs here (Num/SynthProofs.v). *)
From Coq Require Import List Arith ZArith QArith Qminmax Qabs Bool.
From PLV Require Import Lin.Vec.
Import ListNotations.

Local Close Scope Q_scope.
Local Open Scope nat_scope.
(* ------------------------------------------------------------------ skeletons *)
Inductive gk := GRZ | GRY | GRX | GRot | GCNOT | GQU | GPhase | GSelZ | GSelY | GOther.
Definition gk_eqb (a b : gk) : bool :=
  match a, b with
  | GRZ, GRZ | GRY, GRY | GRX, GRX | GRot, GRot | GCNOT, GCNOT | GQU, GQU | GPhase, GPhase
  | GSelZ, GSelZ | GSelY, GSelY | GOther, GOther => true
  | _, _ => false
  end.
Definition sop := (gk * list nat)%type.
Fixpoint nats_eqb (a b : list nat) : bool :=
  match a, b with
  | [], [] => true
  | x :: a', y :: b' => Nat.eqb x y && nats_eqb a' b'
  | _, _ => false
  end.
Definition sop_eqb (a b : sop) : bool := gk_eqb (fst a) (fst b) && nats_eqb (snd a) (snd b).
Fixpoint skel_eqb (a b : list sop) : bool :=
  match a, b with
  | [], [] => true
  | x :: a', y :: b' => sop_eqb x y && skel_eqb a' b'
  | _, _ => false
  end.

Definition is_cnot (o : sop) : bool := gk_eqb (fst o) GCNOT.
Definition cnot_count (s : list sop) : nat := length (filter is_cnot s).
(* operators touching at least two wires *)
Definition multiwire (o : sop) : bool := Nat.leb 2 (length (snd o)).
Definition entangler_count (s : list sop) : nat := length (filter multiwire s).

(* the global phase is emitted last and only when it is not (numerically) zero *)
Definition strip_phase (s : list sop) : list sop := filter (fun o => negb (gk_eqb (fst o) GPhase)) s.

(* _decompose_0_cnots / _decompose_1_cnot / _decompose_2_cnots / _decompose_3_cnots on wires (0, 1) *)
Definition tmpl0 : list sop := [(GQU, [0]); (GQU, [1])].
Definition tmpl1 : list sop := [(GQU, [0]); (GQU, [1]); (GCNOT, [0; 1]); (GQU, [1]); (GQU, [0])].
Definition tmpl2 : list sop :=
  [(GQU, [0]); (GQU, [1]); (GCNOT, [1; 0]); (GRZ, [0]); (GRX, [1]); (GCNOT, [1; 0]); (GQU, [0]); (GQU, [1])].
Definition central3 : list sop := [(GCNOT, [1; 0]); (GRZ, [0]); (GRY, [1]); (GCNOT, [0; 1]); (GRY, [1]); (GCNOT, [1; 0])].
Definition tmpl3 : list sop := tmpl0 ++ central3 ++ tmpl0.
Definition two_qubit_templates : list (list sop) := [tmpl0; tmpl1; tmpl2; tmpl3].
Definition template_of (k : nat) : list sop := nth k two_qubit_templates [].
Definition two_qubit_skeleton_ok (s : list sop) : bool := existsb (skel_eqb (strip_phase s)) two_qubit_templates.

(* one-qubit conventions: rotations -> skeleton alternatives (rot has the RZ special case for theta = 0) *)
Inductive conv := CZYZ | CXYX | CXZX | CZXZ | CRot.
Definition conv_templates (c : conv) : list (list sop) :=
  match c with
  | CZYZ => [[(GRZ, [0]); (GRY, [0]); (GRZ, [0])]]
  | CXYX => [[(GRX, [0]); (GRY, [0]); (GRX, [0])]]
  | CXZX => [[(GRX, [0]); (GRZ, [0]); (GRX, [0])]]
  | CZXZ => [[(GRZ, [0]); (GRX, [0]); (GRZ, [0])]]
  | CRot => [[(GRot, [0])]; [(GRZ, [0])]]
  end.
Definition one_qubit_skeleton_ok (c : conv) (s : list sop) : bool := existsb (skel_eqb (strip_phase s)) (conv_templates c).

(* multi_qubit_decomp_rule on n wires: (n-1)-qubit unitaries on wires 1.. alternate with multiplexers targeting wire 0 *)
Definition rest (n : nat) : list nat := seq 1 (n - 1).
Definition allw (n : nat) : list nat := rest n ++ [0].
Definition tmpl_multi (n : nat) : list sop :=
  [(GQU, rest n); (GSelZ, allw n); (GQU, rest n); (GSelY, allw n); (GQU, rest n); (GSelZ, allw n); (GQU, rest n)].
Definition multi_skeleton_ok (n : nat) (s : list sop) : bool := skel_eqb s (tmpl_multi n).

(* what the harness records for one synthesis result *)
Inductive entry := EOne (c : conv) | ETwo | EMulti (n : nat) | EElementary (n : nat).
Definition allowed_elementary (o : sop) : bool :=
  match fst o with GRZ | GRY | GRX | GRot | GPhase => Nat.leb (length (snd o)) 1 | GCNOT => Nat.eqb (length (snd o)) 2 | _ => false end.
Definition skel_check (e : entry) (s : list sop) : bool :=
  match e with
  | EOne c => one_qubit_skeleton_ok c s
  | ETwo => two_qubit_skeleton_ok s && Nat.leb (entangler_count s) 3
  | EMulti n => multi_skeleton_ok n s
  | EElementary n => forallb allowed_elementary s && (if Nat.eqb n 1 then Nat.eqb (entangler_count s) 0 else true)
                     && (if Nat.eqb n 2 then Nat.leb (entangler_count s) 3 else true)
  end.
(* check_case for the discrete tie: (entry point kind, recorded skeleton, recorded CNOT count) *)
Definition check_skel (x : entry * list sop * nat) : bool :=
  let '(e, s, k) := x in skel_check e s && Nat.eqb (cnot_count s) k.

(* ------------------------------------------------------------------ interval arithmetic over Q *)
Local Open Scope Q_scope.
Definition itv := (Q * Q)%type.      (* [lo, hi] *)
Definition ipt (q : Q) : itv := (q, q).
Definition iadd (a b : itv) : itv := (Qred (fst a + fst b), Qred (snd a + snd b)).
Definition iopp (a : itv) : itv := (Qopp (snd a), Qopp (fst a)).
Definition isub (a b : itv) : itv := iadd a (iopp b).
Definition qmin4 (a b c d : Q) : Q := Qmin (Qmin a b) (Qmin c d).
Definition qmax4 (a b c d : Q) : Q := Qmax (Qmax a b) (Qmax c d).
Definition imul (a b : itv) : itv :=
  let p1 := Qred (fst a * fst b) in let p2 := Qred (fst a * snd b) in
  let p3 := Qred (snd a * fst b) in let p4 := Qred (snd a * snd b) in
  (qmin4 p1 p2 p3 p4, qmax4 p1 p2 p3 p4).
(* largest absolute value in the interval *)
Definition imag_max (a : itv) : Q := Qmax (Qabs (fst a)) (Qabs (snd a)).
Definition iwf (a : itv) : bool := Qle_bool (fst a) (snd a).

Definition ci := (itv * itv)%type.   (* real part, imaginary part *)
Definition czero : ci := (ipt 0, ipt 0).
Definition cone : ci := (ipt 1, ipt 0).
Definition cadd (x y : ci) : ci := (iadd (fst x) (fst y), iadd (snd x) (snd y)).
Definition cmul (x y : ci) : ci :=
  (isub (imul (fst x) (fst y)) (imul (snd x) (snd y)), iadd (imul (fst x) (snd y)) (imul (snd x) (fst y))).
Definition csub (x y : ci) : ci := (isub (fst x) (fst y), isub (snd x) (snd y)).
(* upper bound of |z|^2 over the box *)
Definition cnorm2_ub (x : ci) : Q := imag_max (fst x) * imag_max (fst x) + imag_max (snd x) * imag_max (snd x).

Definition igate := gate ci.
Definition i_basis := @basis ci czero cone.
Definition i_capply := @capply ci czero cadd cmul.

(* exact elements of Q(zeta_8): a + b z + c z^2 + d z^3, z = exp(i pi/4);  h encloses sqrt(1/2) *)
Definition z8 := (Q * Q * Q * Q)%type.
Definition half_ok (h : itv) : bool := Qle_bool 0 (fst h) && Qle_bool (fst h * fst h) (1 # 2) && Qle_bool (1 # 2) (snd h * snd h).
Definition z8_encl (h : itv) (x : z8) : ci :=
  let '(a, b, c, d) := x in
  (iadd (ipt a) (imul (ipt (b - d)) h), iadd (ipt c) (imul (ipt (b + d)) h)).

Definition col_ok (b2 : Q) (h : itv) (got : list ci) (want : list z8) : bool :=
  Nat.eqb (length got) (length want) &&
  forallb (fun p => Qle_bool (cnorm2_ub (csub (fst p) (z8_encl h (snd p)))) b2) (combine got want).

(* U is given by COLUMNS (list of columns, each a list of z8 entries) *)
Definition dist_check (n : nat) (gates : list igate) (Ucols : list (list z8)) (h : itv) (b2 : Q) : bool :=
  half_ok h && Nat.eqb (length Ucols) (2 ^ n)%nat &&
  forallb (fun p => col_ok b2 h (i_capply n gates (i_basis n (fst p))) (snd p)) (combine (seq 0 (2 ^ n)%nat) Ucols).

(* check_case for the numeric tie *)
Definition check_dist (x : nat * list igate * list (list z8) * itv * Q) : bool :=
  let '(n, gates, Ucols, h, b2) := x in dist_check n gates Ucols h b2.
