(* C14 Unitary synthesis: computable model.
   (1) discrete part: skeletons (gate kind + wires) of the circuits emitted by one_qubit_decomposition (five rotation
       conventions), two_qubit_decomposition (0/1/2/3-CNOT templates) and multi_qubit_decomposition (cosine-sine step),
       transcribed from pennylane/ops/op_math/decompositions/unitary_decompositions.py, and CNOT counting;
   (2) numeric part: fixed-point interval arithmetic (integers scaled by 2^60, outward rounding), complex intervals, and the checker that multiplies a circuit of
       enclosed gate matrices column by column and bounds its distance to an exactly given unitary over Q(zeta_8).
   No proofs here (Num/SynthProofs.v). *)
From Coq Require Import List Arith ZArith Bool Uint63.
From PLV Require Import Lin.Vec.
Import ListNotations.

Local Open Scope nat_scope.
(* ------------------------------------------------------------------ skeletons *)
Inductive gk := GRZ | GRY | GRX | GRot | GCNOT | GQU | GPhase | GSelZ | GSelY | GOther.
Definition gk_eqb (a b : gk) : bool :=
  match a, b with
  | GRZ, GRZ | GRY, GRY | GRX, GRX | GRot, GRot | GCNOT, GCNOT | GQU, GQU | GPhase, GPhase
  | GSelZ, GSelZ | GSelY, GSelY | GOther, GOther => true
  | _, _ => false
  end.
Definition sop := (gk * list nat)%type.
Fixpoint nats_eqb (a b : list nat) : bool :=
  match a, b with
  | [], [] => true
  | x :: a', y :: b' => Nat.eqb x y && nats_eqb a' b'
  | _, _ => false
  end.
Definition sop_eqb (a b : sop) : bool := gk_eqb (fst a) (fst b) && nats_eqb (snd a) (snd b).
Fixpoint skel_eqb (a b : list sop) : bool :=
  match a, b with
  | [], [] => true
  | x :: a', y :: b' => sop_eqb x y && skel_eqb a' b'
  | _, _ => false
  end.

Definition is_cnot (o : sop) : bool := gk_eqb (fst o) GCNOT.
Definition cnot_count (s : list sop) : nat := length (filter is_cnot s).
(* operators touching at least two wires *)
Definition multiwire (o : sop) : bool := Nat.leb 2 (length (snd o)).
Definition entangler_count (s : list sop) : nat := length (filter multiwire s).

(* the global phase is emitted last and only when it is not (numerically) zero *)
Definition strip_phase (s : list sop) : list sop := filter (fun o => negb (gk_eqb (fst o) GPhase)) s.

(* _decompose_0_cnots / _decompose_1_cnot / _decompose_2_cnots / _decompose_3_cnots on wires (0, 1) *)
Definition tmpl0 : list sop := [(GQU, [0]); (GQU, [1])].
Definition tmpl1 : list sop := [(GQU, [0]); (GQU, [1]); (GCNOT, [0; 1]); (GQU, [1]); (GQU, [0])].
Definition tmpl2 : list sop :=
  [(GQU, [0]); (GQU, [1]); (GCNOT, [1; 0]); (GRZ, [0]); (GRX, [1]); (GCNOT, [1; 0]); (GQU, [0]); (GQU, [1])].
Definition central3 : list sop := [(GCNOT, [1; 0]); (GRZ, [0]); (GRY, [1]); (GCNOT, [0; 1]); (GRY, [1]); (GCNOT, [1; 0])].
Definition tmpl3 : list sop := tmpl0 ++ central3 ++ tmpl0.
Definition two_qubit_templates : list (list sop) := [tmpl0; tmpl1; tmpl2; tmpl3].
Definition template_of (k : nat) : list sop := nth k two_qubit_templates [].
Definition two_qubit_skeleton_ok (s : list sop) : bool := existsb (skel_eqb (strip_phase s)) two_qubit_templates.

(* one-qubit conventions: rotations -> skeleton alternatives (rot has the RZ special case for theta = 0) *)
Inductive conv := CZYZ | CXYX | CXZX | CZXZ | CRot.
Definition conv_templates (c : conv) : list (list sop) :=
  match c with
  | CZYZ => [[(GRZ, [0]); (GRY, [0]); (GRZ, [0])]]
  | CXYX => [[(GRX, [0]); (GRY, [0]); (GRX, [0])]]
  | CXZX => [[(GRX, [0]); (GRZ, [0]); (GRX, [0])]]
  | CZXZ => [[(GRZ, [0]); (GRX, [0]); (GRZ, [0])]]
  | CRot => [[(GRot, [0])]; [(GRZ, [0])]]
  end.
Definition one_qubit_skeleton_ok (c : conv) (s : list sop) : bool := existsb (skel_eqb (strip_phase s)) (conv_templates c).

(* multi_qubit_decomp_rule on n wires: (n-1)-qubit unitaries on wires 1.. alternate with multiplexers targeting wire 0 *)
Definition rest (n : nat) : list nat := seq 1 (n - 1).
Definition allw (n : nat) : list nat := rest n ++ [0].
Definition tmpl_multi (n : nat) : list sop :=
  [(GQU, rest n); (GSelZ, allw n); (GQU, rest n); (GSelY, allw n); (GQU, rest n); (GSelZ, allw n); (GQU, rest n)].
Definition multi_skeleton_ok (n : nat) (s : list sop) : bool := skel_eqb s (tmpl_multi n).

(* what the harness records for one synthesis result *)
Inductive entry := EOne (c : conv) | ETwo | EMulti (n : nat) | EElementary (n : nat).
Definition allowed_elementary (o : sop) : bool :=
  match fst o with GRZ | GRY | GRX | GRot | GPhase => Nat.leb (length (snd o)) 1 | GCNOT => Nat.eqb (length (snd o)) 2 | _ => false end.
Definition skel_check (e : entry) (s : list sop) : bool :=
  match e with
  | EOne c => one_qubit_skeleton_ok c s
  | ETwo => two_qubit_skeleton_ok s && Nat.leb (entangler_count s) 3
  | EMulti n => multi_skeleton_ok n s
  | EElementary n => forallb allowed_elementary s && (if Nat.eqb n 1 then Nat.eqb (entangler_count s) 0 else true)
                     && (if Nat.eqb n 2 then Nat.leb (entangler_count s) 3 else true)
  end.
(* check_case for the discrete tie: (entry point kind, recorded skeleton, recorded CNOT count) *)
Definition check_skel (x : entry * list sop * nat) : bool :=
  let '(e, s, k) := x in skel_check e s && Nat.eqb (cnot_count s) k.

(* ------------------------------------------------------------------ fixed-point interval arithmetic
   An interval (lo, hi) of integers stands for [lo / K, hi / K], K = 2^60.  Products are rounded outward. *)
Local Close Scope nat_scope.
Local Open Scope Z_scope.
Definition KB : Z := 60.
Definition K : Z := 2 ^ KB.
Definition fi := (Z * Z)%type.
Definition fpt (m : Z) : fi := (m, m).
Definition fadd (a b : fi) : fi := (fst a + fst b, snd a + snd b).
Definition fopp (a : fi) : fi := (- snd a, - fst a).
Definition fsub (a b : fi) : fi := fadd a (fopp b).
Definition dn (p : Z) : Z := p / K.             (* floor *)
Definition up (p : Z) : Z := - ((- p) / K).      (* ceiling *)
Definition min4 (a b c d : Z) : Z := Z.min (Z.min a b) (Z.min c d).
Definition max4 (a b c d : Z) : Z := Z.max (Z.max a b) (Z.max c d).
Definition fmul (a b : fi) : fi :=
  let p1 := fst a * fst b in let p2 := fst a * snd b in let p3 := snd a * fst b in let p4 := snd a * snd b in
  (dn (min4 p1 p2 p3 p4), up (max4 p1 p2 p3 p4)).
Definition fabsmax (a : fi) : Z := Z.max (Z.abs (fst a)) (Z.abs (snd a)).

Definition ci := (fi * fi)%type.   (* real part, imaginary part *)
Definition czero : ci := (fpt 0, fpt 0).
Definition cone : ci := (fpt K, fpt 0).
Definition cadd (x y : ci) : ci := (fadd (fst x) (fst y), fadd (snd x) (snd y)).
Definition cmul (x y : ci) : ci :=
  (fsub (fmul (fst x) (fst y)) (fmul (snd x) (snd y)), fadd (fmul (fst x) (snd y)) (fmul (snd x) (fst y))).
Definition csub (x y : ci) : ci := (fsub (fst x) (fst y), fsub (snd x) (snd y)).
(* upper bound of |z|^2 * K^2 over the box *)
Definition cnorm2_ub (x : ci) : Z := fabsmax (fst x) * fabsmax (fst x) + fabsmax (snd x) * fabsmax (snd x).

Definition igate := gate ci.
Definition i_basis := @basis ci czero cone.
Definition i_capply := @capply ci czero cadd cmul.

(* the bound 1e-7 on |.|, i.e. 1e-14 on |.|^2, scaled by K^2 (rounded down) *)
Definition bound2 : Z := (K * K) / 100000000000000.

Fixpoint col_ok (b2 : Z) (got want : list ci) : bool :=
  match got, want with
  | [], [] => true
  | g :: gs, w :: ws => (cnorm2_ub (csub g w) <=? b2) && col_ok b2 gs ws
  | _, _ => false
  end.

(* U is given by COLUMNS, as enclosures; column c is compared with the circuit applied to basis state c *)
Fixpoint cols_check (n : nat) (gates : list igate) (b2 : Z) (c : nat) (Ucols : list (list ci)) : bool :=
  match Ucols with
  | [] => true
  | col :: r => col_ok b2 (i_capply n gates (i_basis n c)) col && cols_check n gates b2 (S c) r
  end.
Definition dist_check (n : nat) (gates : list igate) (Ucols : list (list ci)) (b2 : Z) : bool :=
  Nat.eqb (length Ucols) (2 ^ n)%nat && cols_check n gates b2 0%nat Ucols.

(* ---- exact data -> enclosures (computed here, not by the harness) *)
Definition qz := (Z * Z)%type.                  (* num / den, den > 0 *)
Definition f_of_qz (q : qz) : fi := let '(a, d) := q in ((a * K) / d, - ((- a * K) / d)).
Definition qz_ok (q : qz) : bool := 0 <? snd q.
(* dyadic float m * 2^e *)
Definition f_of_float (m e : Z) : fi :=
  let s := e + KB in
  if 0 <=? s then fpt (m * 2 ^ s) else (m / 2 ^ (- s), - ((- m) / 2 ^ (- s))).
(* h encloses sqrt(1/2):  0 <= lo, 0 <= hi, lo^2 <= K^2/2 <= hi^2 *)
Definition half_ok (h : fi) : bool := (0 <=? fst h) && (0 <=? snd h) && (2 * (fst h * fst h) <=? K * K) && (K * K <=? 2 * (snd h * snd h)).
(* exact elements of Q(zeta_8): a + b z + c z^2 + d z^3, z = exp(i pi/4): real part a + (b-d) sqrt(1/2), imaginary part c + (b+d) sqrt(1/2) *)
Definition z8 := (qz * qz * qz * qz)%type.
Definition qz_sub (x y : qz) : qz := (fst x * snd y - fst y * snd x, snd x * snd y).
Definition qz_add (x y : qz) : qz := (fst x * snd y + fst y * snd x, snd x * snd y).
Definition z8_ok (x : z8) : bool := let '(a, b, c, d) := x in qz_ok a && qz_ok b && qz_ok c && qz_ok d.
Definition z8_encl (h : fi) (x : z8) : ci :=
  let '(a, b, c, d) := x in
  (fadd (f_of_qz a) (fmul (f_of_qz (qz_sub b d)) h), fadd (f_of_qz c) (fmul (f_of_qz (qz_add b d)) h)).

(* ---- compact literals for the generated case files: numbers are lists of 62-bit limbs (primitive integers) *)
Definition limbs (l : list int) : Z := fold_right (fun a acc => Uint63.to_Z a + 4611686018427387904 * acc) 0 l.
Definition zp (l : list int) : Z := limbs l.
Definition zn (l : list int) : Z := - limbs l.
Definition G4 (a b c d : Z) : ci := ((a, b), (c, d)).          (* enclosure on the grid: [a,b] + i [c,d] *)
Definition FP (mr er mi ei : Z) : ci := (f_of_float mr er, f_of_float mi ei).   (* exact complex float *)
Definition mkG (ws : list nat) (M : list (list ci)) : igate := (ws, M).
Definition Z8 (a b c d : qz) : z8 := (a, b, c, d).
Definition QZ (a d : Z) : qz := (a, d).

Record dcase := DC { dc_n : nat; dc_gates : list igate; dc_U : list (list z8); dc_h : fi }.
(* check_case for the numeric tie *)
Definition check_dist (x : dcase) : bool :=
  half_ok (dc_h x) && forallb (forallb z8_ok) (dc_U x) &&
  dist_check (dc_n x) (dc_gates x) (map (map (z8_encl (dc_h x))) (dc_U x)) bound2.
