(* C60  Classical shadows: exact model of pennylane/shadows/classical_shadow.py
   (ClassicalShadow.local_snapshots / global_snapshots / expval / pauli_expval) and of the measurement
   recipe convention of measurements/classical_shadow.py (process_state_with_shots).

   Scalars are Gaussian rationals over canonical rationals Qc (Leibniz equality, computable).
   An n-qubit operator is a quad-tree of 2x2 blocks: Op 0 = C, Op (S n) = 2x2 block matrix of Op n, the FIRST
   qubit (column 0 of bits/recipes) being the outermost block = most significant index bit, which is the
   layout produced by the einsum/reshape in global_snapshots.
   Definitions only; the lemmas are in ShadowsProofs.v. *)
From Coq Require Import List ZArith QArith Qcanon Bool.
Import ListNotations.

(* ------------------------------------------------------------------ scalars *)
Definition C : Type := (Qc * Qc)%type.
Definition qz (z : Z) : Qc := Q2Qc (inject_Z z).
Definition qhalf : Qc := Q2Qc (1 # 2).
Definition qthird : Qc := Q2Qc (1 # 3).
Definition q3 : Qc := Q2Qc (3 # 1).
Definition cz : C := (0%Qc, 0%Qc).
Definition c1 : C := (1%Qc, 0%Qc).
Definition ci : C := (0%Qc, 1%Qc).
Definition cq (q : Qc) : C := (q, 0%Qc).
Definition cadd (x y : C) : C := ((fst x + fst y)%Qc, (snd x + snd y)%Qc).
Definition copp (x : C) : C := ((- fst x)%Qc, (- snd x)%Qc).
Definition csub (x y : C) : C := ((fst x - fst y)%Qc, (snd x - snd y)%Qc).
Definition cmul (x y : C) : C :=
  ((fst x * fst y - snd x * snd y)%Qc, (fst x * snd y + snd x * fst y)%Qc).
Definition cconj (x : C) : C := (fst x, (- snd x)%Qc).
Definition qeqb (x y : Qc) : bool := Qeq_bool (this x) (this y).
Definition ceqb (x y : C) : bool := qeqb (fst x) (fst y) && qeqb (snd x) (snd y).
Definition csum (l : list C) : C := fold_right cadd cz l.

(* ------------------------------------------------------------------ operators as quad-trees *)
Record Quad (A : Type) : Type := mkQ { q00 : A; q01 : A; q10 : A; q11 : A }.
Arguments mkQ {A} _ _ _ _.
Arguments q00 {A} _.
Arguments q01 {A} _.
Arguments q10 {A} _.
Arguments q11 {A} _.

Fixpoint Op (n : nat) : Type := match n with O => C | S m => Quad (Op m) end.
Definition M2 : Type := Quad C.       (* = Op 1 *)

Fixpoint ozero (n : nat) : Op n :=
  match n return Op n with O => cz | S m => mkQ (ozero m) (ozero m) (ozero m) (ozero m) end.
Fixpoint oid (n : nat) : Op n :=
  match n return Op n with O => c1 | S m => mkQ (oid m) (ozero m) (ozero m) (oid m) end.
Fixpoint oadd (n : nat) : Op n -> Op n -> Op n :=
  match n return Op n -> Op n -> Op n with
  | O => cadd
  | S m => fun x y => mkQ (oadd m (q00 x) (q00 y)) (oadd m (q01 x) (q01 y))
                          (oadd m (q10 x) (q10 y)) (oadd m (q11 x) (q11 y))
  end.
Fixpoint oscale (n : nat) (c : C) : Op n -> Op n :=
  match n return Op n -> Op n with
  | O => cmul c
  | S m => fun x => mkQ (oscale m c (q00 x)) (oscale m c (q01 x)) (oscale m c (q10 x)) (oscale m c (q11 x))
  end.
Definition osub (n : nat) (x y : Op n) : Op n := oadd n x (oscale n (copp c1) y).
Fixpoint omul (n : nat) : Op n -> Op n -> Op n :=
  match n return Op n -> Op n -> Op n with
  | O => cmul
  | S m => fun x y =>
      mkQ (oadd m (omul m (q00 x) (q00 y)) (omul m (q01 x) (q10 y)))
          (oadd m (omul m (q00 x) (q01 y)) (omul m (q01 x) (q11 y)))
          (oadd m (omul m (q10 x) (q00 y)) (omul m (q11 x) (q10 y)))
          (oadd m (omul m (q10 x) (q01 y)) (omul m (q11 x) (q11 y)))
  end.
Fixpoint otr (n : nat) : Op n -> C :=
  match n return Op n -> C with
  | O => fun x => x
  | S m => fun x => cadd (otr m (q00 x)) (otr m (q11 x))
  end.
(* tr (x y) computed without forming the product (proved equal to otr (omul x y) in ShadowsProofs.v) *)
Fixpoint pairing (n : nat) : Op n -> Op n -> C :=
  match n return Op n -> Op n -> C with
  | O => cmul
  | S m => fun x y => cadd (cadd (pairing m (q00 x) (q00 y)) (pairing m (q01 x) (q10 y)))
                           (cadd (pairing m (q10 x) (q01 y)) (pairing m (q11 x) (q11 y)))
  end.
Fixpoint oadj (n : nat) : Op n -> Op n :=
  match n return Op n -> Op n with
  | O => cconj
  | S m => fun x => mkQ (oadj m (q00 x)) (oadj m (q10 x)) (oadj m (q01 x)) (oadj m (q11 x))
  end.
Fixpoint oeqb (n : nat) : Op n -> Op n -> bool :=
  match n return Op n -> Op n -> bool with
  | O => ceqb
  | S m => fun x y => oeqb m (q00 x) (q00 y) && oeqb m (q01 x) (q01 y)
                      && oeqb m (q10 x) (q10 y) && oeqb m (q11 x) (q11 y)
  end.
Definition osum (n : nat) (l : list (Op n)) : Op n := fold_right (oadd n) (ozero n) l.
(* A (x) X for a 2x2 matrix A acting on the NEW FIRST qubit *)
Definition kron2 (m : nat) (A : M2) (X : Op m) : Op (S m) :=
  mkQ (oscale m (q00 A) X) (oscale m (q01 A) X) (oscale m (q10 A) X) (oscale m (q11 A) X).

(* dense row-major view (first qubit = most significant bit) *)
Definition map2 {A B D} (f : A -> B -> D) (l : list A) (r : list B) : list D :=
  map (fun p => f (fst p) (snd p)) (combine l r).
Fixpoint rows (n : nat) : Op n -> list (list C) :=
  match n return Op n -> list (list C) with
  | O => fun x => [[x]]
  | S m => fun x => map2 (@app C) (rows m (q00 x)) (rows m (q01 x))
                    ++ map2 (@app C) (rows m (q10 x)) (rows m (q11 x))
  end.
Fixpoint pow2 (n : nat) : nat := match n with O => 1 | S m => 2 * pow2 m end.
Fixpoint of_rows (n : nat) (r : list (list C)) : Op n :=
  match n return Op n with
  | O => nth 0 (nth 0 r []) cz
  | S m => let h := pow2 m in
           let top := firstn h r in
           let bot := skipn h r in
           mkQ (of_rows m (map (firstn h) top)) (of_rows m (map (skipn h) top))
               (of_rows m (map (firstn h) bot)) (of_rows m (map (skipn h) bot))
  end.
Definition shape_ok (n : nat) (r : list (list C)) : bool :=
  Nat.eqb (length r) (pow2 n) && forallb (fun row => Nat.eqb (length row) (pow2 n)) r.

(* ------------------------------------------------------------------ Paulis, recipes *)
Definition pI : M2 := mkQ c1 cz cz c1.
Definition pX : M2 := mkQ cz c1 c1 cz.
Definition pY : M2 := mkQ cz (copp ci) ci cz.
Definition pZ : M2 := mkQ c1 cz cz (copp c1).

Inductive recipe := RX | RY | RZ.
Definition recipe_eqb (a b : recipe) : bool :=
  match a, b with RX, RX | RY, RY | RZ, RZ => true | _, _ => false end.
(* ClassicalShadow.observables = [X, Y, Z]; recipe value i selects observables[i] *)
Definition observables : list M2 := [pX; pY; pZ].
Definition recipe_idx (r : recipe) : Z := match r with RX => 0 | RY => 1 | RZ => 2 end.
Definition recipe_of_Z (z : Z) : option recipe :=
  match z with 0%Z => Some RX | 1%Z => Some RY | 2%Z => Some RZ | _ => None end.
Definition pauli (r : recipe) : M2 := nth (Z.to_nat (recipe_idx r)) observables pI.
Definition bit_of_Z (z : Z) : option bool :=
  match z with 0%Z => Some false | 1%Z => Some true | _ => None end.
Definition Z_of_bit (b : bool) : Z := if b then 1%Z else 0%Z.
Definition sgn (b : bool) : Qc := if b then (- (1))%Qc else 1%Qc.     (* 1 - 2*bit *)

(* local_snapshots:  state = ((1 - 2 b) * U + eye) / 2 ;  return 3 * state - eye *)
Definition RB : Type := (recipe * bool)%type.
Definition proj1 (x : RB) : M2 :=
  oscale 1 (cq qhalf) (oadd 1 (oscale 1 (cq (sgn (snd x))) (pauli (fst x))) pI).
Definition snap1 (x : RB) : M2 := osub 1 (oscale 1 (cq q3) (proj1 x)) pI.

(* measurement side (process_state_with_shots): diagonalising rotations
   [Hadamard, Hadamard @ RZ(-pi/2), Identity];  U = phase * rot_num / sqrt(rot_norm2)
   (the phase exp(i pi/4) of H@RZ(-pi/2) = exp(i pi/4) H S^dagger is irrelevant for U^dagger |b><b| U) *)
Definition rot_num (r : recipe) : M2 :=
  match r with
  | RX => mkQ c1 c1 c1 (copp c1)
  | RY => mkQ c1 (copp ci) c1 ci
  | RZ => pI
  end.
Definition rot_norm2 (r : recipe) : Qc := match r with RZ => 1%Qc | _ => qz 2 end.
Definition ketbra (b : bool) : M2 := if b then mkQ cz cz cz c1 else mkQ c1 cz cz cz.
Definition rotated_basis (x : RB) : M2 :=   (* U^dagger |b><b| U *)
  oscale 1 (cq (/ rot_norm2 (fst x))%Qc)
         (omul 1 (oadj 1 (rot_num (fst x))) (omul 1 (ketbra (snd x)) (rot_num (fst x)))).

(* n-qubit tensor products; the list is read along the columns of bits/recipes *)
Fixpoint snap (n : nat) (rb : list RB) : Op n :=
  match n return Op n with
  | O => c1
  | S m => match rb with [] => ozero (S m) | x :: r => kron2 m (snap1 x) (snap m r) end
  end.
Fixpoint proj (n : nat) (rb : list RB) : Op n :=
  match n return Op n with
  | O => c1
  | S m => match rb with [] => ozero (S m) | x :: r => kron2 m (proj1 x) (proj m r) end
  end.

(* every (recipe, outcome) pair of one qubit, and of n qubits (first qubit = outermost loop) *)
Definition six : list RB := [(RX, false); (RX, true); (RY, false); (RY, true); (RZ, false); (RZ, true)].
Fixpoint all_rb (n : nat) : list (list RB) :=
  match n with O => [[]] | S m => flat_map (fun x => map (cons x) (all_rb m)) six end.

(* exact probability of drawing recipes r (uniform, 3^-n) and then observing bits b (Born rule) *)
Fixpoint w3 (n : nat) : Qc := match n with O => 1%Qc | S m => (qthird * w3 m)%Qc end.
Definition prob (n : nat) (rho : Op n) (rb : list RB) : C :=
  cmul (cq (w3 n)) (otr n (omul n rho (proj n rb))).
(* same value, cheaper to evaluate (prob_fast_eq in ShadowsProofs.v); used only by check_case *)
Definition prob_fast (n : nat) (rho : Op n) (rb : list RB) : C :=
  cmul (cq (w3 n)) (pairing n rho (proj n rb)).
(* the average of the snapshot over all recipes and outcomes *)
Definition avg (n : nat) (rho : Op n) : Op n :=
  osum n (map (fun rb => oscale n (prob n rho rb) (snap n rb)) (all_rb n)).

(* ------------------------------------------------------------------ pauli_expval *)
Definition word : Type := list (option recipe).       (* None = identity (-1 in the code) *)
Fixpoint matches (rb : list RB) (w : word) : bool :=
  match rb, w with
  | [], [] => true
  | _ :: r, None :: w' => matches r w'
  | (rc, _) :: r, Some p :: w' => recipe_eqb rc p && matches r w'
  | _, _ => false
  end.
Fixpoint parity (rb : list RB) (w : word) : bool :=
  match rb, w with
  | (_, b) :: r, Some _ :: w' => xorb b (parity r w')
  | _ :: r, None :: w' => parity r w'
  | _, _ => false
  end.
Fixpoint pow3 (w : word) : Qc :=
  match w with [] => 1%Qc | None :: w' => pow3 w' | Some _ :: w' => (q3 * pow3 w')%Qc end.
(* where(indices, 1 - 2*(sum bits mod 2), 0) * 3 ** count_nonzero(not id_mask) *)
Definition est (rb : list RB) (w : word) : Qc :=
  if matches rb w then (sgn (parity rb w) * pow3 w)%Qc else 0%Qc.
Fixpoint pword (n : nat) (w : word) : Op n :=
  match n return Op n with
  | O => c1
  | S m => match w with
           | [] => ozero (S m)
           | None :: w' => kron2 m pI (pword m w')
           | Some p :: w' => kron2 m (pauli p) (pword m w')
           end
  end.

(* expval(H) on a shadow with wire_map: word[wire_map.index(wire)] = letter *)
Fixpoint index_of (w : Z) (l : list Z) (i : nat) : option nat :=
  match l with [] => None | x :: r => if Z.eqb x w then Some i else index_of w r (S i) end.
Fixpoint set_nth {A} (i : nat) (x : A) (l : list A) : list A :=
  match l, i with
  | [], _ => []
  | _ :: r, O => x :: r
  | y :: r, S j => y :: set_nth j x r
  end.
Definition word_of_term (wm : list Z) (n : nat) (t : list (Z * Z)) : option word :=
  fold_left (fun acc wl =>
               match acc with
               | None => None
               | Some w => match index_of (fst wl) wm 0, recipe_of_Z (snd wl) with
                           | Some i, Some p => Some (set_nth i (Some p) w)
                           | _, _ => None
                           end
               end) t (Some (repeat None n)).
Definition Ham : Type := list (Qc * word).
Definition qsum (l : list Qc) : Qc := fold_right Qcplus 0%Qc l.
(* single-snapshot estimate of H = sum_k c_k P_k  (median of means with T = 1, k = 1 is the value itself) *)
Definition est_ham (rb : list RB) (h : Ham) : Qc := qsum (map (fun t => (fst t * est rb (snd t))%Qc) h).
Definition exact_ham (n : nat) (rho : Op n) (h : Ham) : C :=
  csum (map (fun t => cmul (cq (fst t)) (otr n (omul n rho (pword n (snd t))))) h).
Definition exact_ham_fast (n : nat) (rho : Op n) (h : Ham) : C :=
  csum (map (fun t => cmul (cq (fst t)) (pairing n rho (pword n (snd t)))) h).

(* ------------------------------------------------------------------ documented form of bits / recipes *)
Definition in01 (z : Z) : bool := Z.eqb z 0 || Z.eqb z 1.
Definition in012 (z : Z) : bool := Z.eqb z 0 || Z.eqb z 1 || Z.eqb z 2.
Definition table_ok (T : Z) (n : nat) (ok : Z -> bool) (t : list (list Z)) : bool :=
  Z.eqb (Z.of_nat (length t)) T && forallb (fun row => Nat.eqb (length row) n && forallb ok row) t.
Definition well_formed (T : Z) (n : nat) (bits recipes : list (list Z)) : bool :=
  table_ok T n in01 bits && table_ok T n in012 recipes.
(* model of the measurement record: recipes come from RandomState.randint(0,3,(T,n)) (oracle), the outcome of
   qubit q in snapshot t is the comparison  random() > p0  (oracle: the boolean result) *)
Definition measure_rows (rec_oracle : list (list recipe)) (samples : list (list bool))
  : list (list Z) * list (list Z) :=
  (map (map Z_of_bit) samples, map (map recipe_idx) rec_oracle).
Definition encode_rb (rb : list RB) : list Z * list Z :=
  (map (fun x => recipe_idx (fst x)) rb, map (fun x => Z_of_bit (snd x)) rb).

(* ------------------------------------------------------------------ correspondence checks (tie K) *)
Definition zc (p : Z * Z) : C := (qz (fst p), qz (snd p)).
Definition ratc (p : Z * Z * positive) : C :=
  (Q2Qc (fst (fst p) # snd p), Q2Qc (snd (fst p) # snd p)).
Definition ratq (p : Z * positive) : Qc := Q2Qc (fst p # snd p).
Fixpoint list_eqb {A B} (e : A -> B -> bool) (l : list A) (r : list B) : bool :=
  match l, r with
  | [], [] => true
  | x :: l', y :: r' => e x y && list_eqb e l' r'
  | _, _ => false
  end.
Definition rows_eqb := list_eqb (list_eqb ceqb).
Fixpoint decode_rb (rs bs : list Z) : option (list RB) :=
  match rs, bs with
  | [], [] => Some []
  | r :: rs', b :: bs' =>
      match recipe_of_Z r, bit_of_Z b, decode_rb rs' bs' with
      | Some r', Some b', Some t => Some ((r', b') :: t)
      | _, _, _ => None
      end
  | _, _ => None
  end.
Fixpoint all_some {A} (l : list (option A)) : option (list A) :=
  match l with
  | [] => Some []
  | None :: _ => None
  | Some x :: r => match all_some r with Some t => Some (x :: t) | None => None end
  end.

(* one enumerated row: recipes, bits, 2^n * global_snapshots()[t], [2 * local_snapshots()[t][q]]_q,
   [ClassicalShadow(bits[t:t+1], recipes[t:t+1], wire_map).expval(H_k)]_k as fractions *)
Definition RowData : Type :=
  (list Z * list Z * list (list (Z * Z)) * list (list (list (Z * Z))) * list (Z * positive))%type.
(* n, rho (rows, rationals), wire_map, observables H_k = [(coeff, [(wire label, letter)])], rows *)
Definition HamIn : Type := list ((Z * positive) * list (Z * Z)).
Definition Case : Type :=
  (nat * list (list (Z * Z * positive)) * list Z * list HamIn * list RowData)%type.

Definition ham_of (wm : list Z) (n : nat) (h : HamIn) : option Ham :=
  all_some (map (fun t => match word_of_term wm n (snd t) with
                          | Some w => Some (ratq (fst t), w)
                          | None => None
                          end) h).
Definition pow2q (n : nat) : Qc := qz (Z.of_nat (pow2 n)).

Definition check_row (n : nat) (hs : list Ham) (expected_rb : list RB) (row : RowData) : bool :=
  let '(rs, bs, gs, ls, hv) := row in
  match decode_rb rs bs with
  | None => false
  | Some rb =>
      list_eqb (fun a b => recipe_eqb (fst a) (fst b) && Bool.eqb (snd a) (snd b)) rb expected_rb
      && rows_eqb (rows n (oscale n (cq (pow2q n)) (snap n rb))) (map (map zc) gs)
      && list_eqb (fun x l => rows_eqb (rows 1 (oscale 1 (cq (qz 2)) (snap1 x))) (map (map zc) l)) rb ls
      && list_eqb (fun h v => qeqb (est_ham rb h) (ratq v)) hs hv
  end.

Definition check_case (c : Case) : bool :=
  let '(n, rho_rows, wm, hins, rws) := c in
  let rho_c := map (map ratc) rho_rows in
  let rho := of_rows n rho_c in
  match all_some (map (ham_of wm n) hins) with
  | None => false
  | Some hs =>
      shape_ok n rho_c
      && Nat.eqb (length rws) (length (all_rb n))
      (* (1) model = implementation on every (recipes, outcomes) row *)
      && forallb (fun p => check_row n hs (fst p) (snd p)) (combine (all_rb n) rws)
      (* (2) the implementation's snapshots, weighted by the exact probabilities, average to rho *)
      && oeqb n (osum n (map (fun p =>
                   let '(_, _, gs, _, _) := snd p in
                   oscale n (cmul (prob_fast n rho (fst p)) (cq (/ pow2q n)%Qc)) (of_rows n (map (map zc) gs)))
                 (combine (all_rb n) rws))) rho
      (* (3) the implementation's single-snapshot estimates average to tr(rho H) *)
      && list_eqb (fun h k =>
            ceqb (csum (map (fun p => let '(_, _, _, _, hv) := snd p in
                                      cmul (prob_fast n rho (fst p)) (cq (ratq (nth k hv (0%Z, 1%positive)))))
                            (combine (all_rb n) rws)))
                 (exact_ham_fast n rho h))
           hs (seq 0 (length hs))
  end.

(* device records: (T, n, bits, recipes) *)
Definition check_form (c : Z * nat * list (list Z) * list (list Z)) : bool :=
  let '(T, n, bits, recipes) := c in well_formed T n bits recipes.

(* exported matrices: observables used by local_snapshots (as Gaussian integers) and, per recipe index
   and outcome b, 2 * D^dagger |b><b| D for the diagonaliser D used by process_state_with_shots *)
Definition check_rot (c : list (list (list (Z * Z))) * list (list (list (list (Z * Z))))) : bool :=
  let '(obs, projs) := c in
  list_eqb (fun m l => rows_eqb (rows 1 m) (map (map zc) l)) observables obs
  && list_eqb (fun r pb =>
       list_eqb (fun b l => rows_eqb (rows 1 (oscale 1 (cq (qz 2)) (rotated_basis (r, b)))) (map (map zc) l)
                            && rows_eqb (rows 1 (oscale 1 (cq (qz 2)) (proj1 (r, b)))) (map (map zc) l))
                [false; true] pb)
       [RX; RY; RZ] projs.

(* one entry point for the three kinds of correspondence cases *)
Inductive AnyCase :=
| CEnum (c : Case)
| CForm (c : Z * nat * list (list Z) * list (list Z))
| CRot (c : list (list (list (Z * Z))) * list (list (list (list (Z * Z))))).
Definition check_any (c : AnyCase) : bool :=
  match c with CEnum c => check_case c | CForm c => check_form c | CRot c => check_rot c end.
