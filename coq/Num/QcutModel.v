(* C24  Circuit cutting: exact model of pennylane/qcut (tapes.py: PREPARE_SETTINGS, expand_fragment_tape;
   processing.py: CHANGE_OF_BASIS, _process_tensor, _to_tensors, contract_tensors; cutcircuit_mc.py tables).

   Scalars: Gaussian rationals C (Num/ShadowsModel.v); operators: quad-trees Op n (first qubit outermost).
   Conventions transcribed from the source:
   * a MeasureNode is expanded into the measurement of I, X, Y, Z on the cut wire (grouped into the three tapes
     {I,Z}, {X}, {Y} by partition_pauli_group); _process_tensor re-orders the last axis by argsort of the word
     strings, i.e. into the standard product order over I < X < Y < Z (first letter most significant);
   * a PrepareNode is expanded into the four preparations PREPARE_SETTINGS = [|0>, |1>, |+>, |+i>]
     (ops [I], [X], [H], [H, S]); the prepare settings of a fragment are iterated by itertools.product, first
     PrepareNode most significant, OUTSIDE the loop over measurement groups;
   * CHANGE_OF_BASIS (rows = I, X, Y, Z; columns = |0>, |1>, |+>, |+i>) is contracted with every prepare axis;
   * every fragment tensor is scaled by 2^(-(n_prep + n_meas)/2); each cut contributes one prepare and one measure
     axis, so the network carries (1/2)^(number of cuts) in total (the model keeps only this rational total);
   * contract_tensors gives one einsum symbol to each communication-graph edge and sums over all of them.
   Definitions only; lemmas are in QcutProofs.v. *)
From Coq Require Import List ZArith QArith Qcanon Bool.
From PLV Require Import Num.ShadowsModel.
Import ListNotations.
Local Open Scope nat_scope.

(* ------------------------------------------------------------------ Pauli letters and prepared states *)
Inductive pl := PI | PX | PY | PZ.
Definition pl_eqb (a b : pl) : bool :=
  match a, b with PI, PI | PX, PX | PY, PY | PZ, PZ => true | _, _ => false end.
Definition pl_idx (p : pl) : nat := match p with PI => 0 | PX => 1 | PY => 2 | PZ => 3 end.
Definition pl_of_Z (z : Z) : option pl :=
  match z with 0%Z => Some PI | 1%Z => Some PX | 2%Z => Some PY | 3%Z => Some PZ | _ => None end.
Definition paulis : list pl := [PI; PX; PY; PZ].
Definition pmat (p : pl) : M2 := match p with PI => pI | PX => pX | PY => pY | PZ => pZ end.

Inductive prep := S0 | S1 | SP | SI.          (* |0>, |1>, |+>, |+i> : the order of PREPARE_SETTINGS *)
Definition prep_idx (s : prep) : nat := match s with S0 => 0 | S1 => 1 | SP => 2 | SI => 3 end.
Definition prep_of_Z (z : Z) : option prep :=
  match z with 0%Z => Some S0 | 1%Z => Some S1 | 2%Z => Some SP | 3%Z => Some SI | _ => None end.
Definition preps : list prep := [S0; S1; SP; SI].
Definition chalf : C := cq qhalf.
(* density matrices of the prepared states *)
Definition pstate (s : prep) : M2 :=
  match s with
  | S0 => mkQ c1 cz cz cz
  | S1 => mkQ cz cz cz c1
  | SP => mkQ chalf chalf chalf chalf
  | SI => mkQ chalf (copp (cmul chalf ci)) (cmul chalf ci) chalf
  end.

(* the preparation CIRCUITS of PREPARE_SETTINGS: gates as (numerator matrix, squared norm of the denominator) *)
Inductive pgate := GI | GX | GH | GS.
Definition gnum (g : pgate) : M2 :=
  match g with
  | GI => pI | GX => pX
  | GH => mkQ c1 c1 c1 (copp c1)
  | GS => mkQ c1 cz cz ci
  end.
Definition gnorm2 (g : pgate) : Qc := match g with GH => qz 2 | _ => 1%Qc end.
Definition prep_ops (s : prep) : list pgate :=
  match s with S0 => [GI] | S1 => [GX] | SP => [GH] | SI => [GH; GS] end.
(* apply the gates in tape order to |0>: (amplitude numerators, squared norm) *)
Definition apply_g (g : pgate) (v : C * C * Qc) : C * C * Qc :=
  let '(a, b, n) := v in
  (cadd (cmul (q00 (gnum g)) a) (cmul (q01 (gnum g)) b),
   cadd (cmul (q10 (gnum g)) a) (cmul (q11 (gnum g)) b), (n * gnorm2 g)%Qc).
Definition run_prep (l : list pgate) : C * C * Qc := fold_left (fun v g => apply_g g v) l (c1, cz, 1%Qc).
Definition density (v : C * C * Qc) : M2 :=
  let '(a, b, n) := v in
  oscale 1 (cq (/ n)%Qc) (mkQ (cmul a (cconj a)) (cmul a (cconj b)) (cmul b (cconj a)) (cmul b (cconj b))).

(* CHANGE_OF_BASIS, literally *)
Definition COB : list (list Z) :=
  [[1; 1; 0; 0]; [-1; -1; 2; 0]; [-1; -1; 0; 2]; [1; -1; 0; 0]]%Z.
Definition cob (p : pl) (s : prep) : C := cq (qz (nth (prep_idx s) (nth (pl_idx p) COB []) 0%Z)).

(* cut_circuit_mc tables: setting i in 0..7 measures MC_MEASUREMENTS[i] and prepares MC_STATES[i] with weight evals[i] *)
Inductive mcstate := M0 | M1 | MP | MM | MIP | MIM.
Definition mc_density (s : mcstate) : M2 :=
  match s with
  | M0 => pstate S0 | M1 => pstate S1 | MP => pstate SP | MIP => pstate SI
  | MM => mkQ chalf (copp chalf) (copp chalf) chalf
  | MIM => mkQ chalf (cmul chalf ci) (copp (cmul chalf ci)) chalf
  end.
Definition mc_ops (s : mcstate) : list pgate :=
  match s with
  | M0 => [GI] | M1 => [GX] | MP => [GH] | MM => [GX; GH] | MIP => [GH; GS] | MIM => [GX; GH; GS]
  end.
Definition MC_STATES : list mcstate := [M0; M1; MP; MM; MIP; MIM; M0; M1].
Definition MC_MEAS : list pl := [PI; PI; PX; PX; PY; PY; PZ; PZ].
Definition MC_EVALS : list C :=
  [chalf; chalf; chalf; copp chalf; chalf; copp chalf; chalf; copp chalf].
Definition mc_settings : list (pl * mcstate * C) := combine (combine MC_MEAS MC_STATES) MC_EVALS.

(* ------------------------------------------------------------------ fragment tensors *)
(* one fragment: number of PrepareNodes / MeasureNodes, the flat slice of execution results, the flattened
   partition_pauli_group(n_meas) (oracle: the words actually measured, in tape order), and for each prepare /
   measure axis the communication-graph edge it belongs to *)
Record Frag := mkFrag { f_np : nat; f_nm : nat; f_res : list C; f_gf : list (list pl);
                        f_pe : list nat; f_me : list nat }.

Fixpoint list_eqb {A} (e : A -> A -> bool) (l r : list A) : bool :=
  match l, r with
  | [], [] => true
  | x :: l', y :: r' => e x y && list_eqb e l' r'
  | _, _ => false
  end.
Fixpoint find_idx (w : list pl) (gf : list (list pl)) (i : nat) : option nat :=
  match gf with
  | [] => None
  | x :: r => if list_eqb pl_eqb x w then Some i else find_idx w r (S i)
  end.
Fixpoint pow4 (n : nat) : nat := match n with O => 1 | S m => 4 * pow4 m end.
(* position of a tuple of prepare settings in itertools.product(range(4), repeat=n_prep) *)
Definition prep_pos (ss : list prep) : nat := fold_left (fun a s => 4 * a + prep_idx s) ss 0.
(* results.reshape((4,)*n_prep + (4**n_meas,)) [s..., order[r]]  with order = argsort(grouped_flat):
   the entry for measured word ws is found at the position of ws in grouped_flat *)
Definition raw (f : Frag) (ss : list prep) (ws : list pl) : C :=
  match find_idx ws (f_gf f) 0 with
  | Some j => nth (prep_pos ss * pow4 (f_nm f) + j) (f_res f) cz
  | None => cz
  end.
Fixpoint tuples {A} (alphabet : list A) (n : nat) : list (list A) :=
  match n with O => [[]] | S m => flat_map (fun x => map (cons x) (tuples alphabet m)) alphabet end.
Fixpoint cobprod (qs : list pl) (ss : list prep) : C :=
  match qs, ss with
  | q :: qs', s :: ss' => cmul (cob q s) (cobprod qs' ss')
  | _, _ => c1
  end.
(* step 4 of _process_tensor: tensordot of CHANGE_OF_BASIS with every prepare axis (axes restored by the final
   transpose), without the 2^(-n/2) factor *)
Definition tens (f : Frag) (qs ws : list pl) : C :=
  csum (map (fun ss => cmul (cobprod qs ss) (raw f ss ws)) (tuples preps (f_np f))).

(* ------------------------------------------------------------------ contraction over the communication graph *)
Definition lookup (a : list pl) (e : nat) : pl := nth e a PI.
Definition cprod (l : list C) : C := fold_right cmul c1 l.
Definition term (frs : list Frag) (a : list pl) : C :=
  cprod (map (fun f => tens f (map (lookup a) (f_pe f)) (map (lookup a) (f_me f))) frs).
Fixpoint halfpow (k : nat) : C := match k with O => c1 | S j => cmul chalf (halfpow j) end.
Definition contract_with (k : nat) (asg : list (list pl)) (frs : list Frag) : C :=
  cmul (halfpow k) (csum (map (term frs) asg)).
(* k = number of communication-graph edges (cuts) *)
Definition contract (k : nat) (frs : list Frag) : C := contract_with k (tuples paulis k) frs.

(* well-formedness of the recorded structure: slice sizes, grouped_flat is an enumeration of all words,
   every edge 0..k-1 is used by exactly one prepare axis and one measure axis *)
Definition count_occ_nat (e : nat) (l : list nat) : nat := length (filter (Nat.eqb e) l).
Definition frag_ok (f : Frag) : bool :=
  Nat.eqb (length (f_res f)) (pow4 (f_np f + f_nm f))
  && Nat.eqb (length (f_pe f)) (f_np f) && Nat.eqb (length (f_me f)) (f_nm f)
  && Nat.eqb (length (f_gf f)) (pow4 (f_nm f))
  && forallb (fun w => match find_idx w (f_gf f) 0 with Some _ => true | None => false end)
             (tuples paulis (f_nm f)).
Definition edges_ok (k : nat) (frs : list Frag) : bool :=
  forallb (fun e => Nat.eqb (count_occ_nat e (flat_map f_pe frs)) 1
                    && Nat.eqb (count_occ_nat e (flat_map f_me frs)) 1) (seq 0 k)
  && Nat.eqb (length (flat_map f_pe frs)) k && Nat.eqb (length (flat_map f_me frs)) k.

(* ------------------------------------------------------------------ what the fragments compute (specification side) *)
(* Generic quad-trees with leaves of type L: QT C m is an operator on m qubits, QT M2 m an operator on
   (m environment qubits) (x) (one further qubit, innermost). *)
Fixpoint QT (L : Type) (n : nat) : Type := match n with O => L | S m => Quad (QT L m) end.
(* trace of the product of two block operators, given the trace-of-product on the leaves *)
Fixpoint gpair {L1 L2 : Type} (lp : L1 -> L2 -> C) (n : nat) : QT L1 n -> QT L2 n -> C :=
  match n return QT L1 n -> QT L2 n -> C with
  | O => lp
  | S m => fun x y => cadd (cadd (gpair lp m (q00 x) (q00 y)) (gpair lp m (q01 x) (q10 y)))
                           (cadd (gpair lp m (q10 x) (q01 y)) (gpair lp m (q11 x) (q11 y)))
  end.
(* UPSTREAM fragment: X is the (unnormalised, arbitrary) operator on env_A (m qubits) (x) cut wire produced by the
   upstream circuit, OA the part of the observable on env_A.  Measuring OA (x) P:  tr[ X (OA (x) P) ] *)
Definition up_meas (m : nat) (X : QT M2 m) (OA : QT C m) (p : pl) : C :=
  gpair (fun sigma c => cmul c (pairing 1 sigma (pmat p))) m X OA.
(* DOWNSTREAM fragment in the Heisenberg picture: W = B^dagger O_B B on cut wire (x) env_B (k qubits), tau the
   initial operator of env_B; preparing sigma on the cut wire gives tr[ (sigma (x) tau) W ] *)
Definition down_prep (k : nat) (tau : Op k) (W : Op (S k)) (sigma : M2) : C :=
  pairing (S k) (kron2 k sigma tau) W.
(* UNCUT circuit: tr over env_A (x) cut (x) env_B of (X (x) tau) (OA (x) W), blockwise over env_A *)
Definition uncut (m k : nat) (X : QT M2 m) (OA : QT C m) (tau : Op k) (W : Op (S k)) : C :=
  gpair (fun sigma c => pairing (S k) (kron2 k sigma tau) (oscale (S k) c W)) m X OA.
(* the two fragments of a single cut as the implementation sees them: results in tape order
   (measure side: tapes {I,Z}, {X}, {Y}; prepare side: |0>, |1>, |+>, |+i>) *)
Definition GF1 : list (list pl) := [[PI]; [PZ]; [PX]; [PY]].
Definition frag_up (u : pl -> C) : Frag := mkFrag 0 1 (map (fun w => u (hd PI w)) GF1) GF1 [] [0].
Definition frag_down (d : prep -> C) : Frag := mkFrag 1 0 (map d preps) [[]] [0] [].

(* n-qubit Pauli words and product preparations (k parallel cuts between two fragments) *)
Fixpoint pword (n : nat) (w : list pl) : Op n :=
  match n return Op n with
  | O => c1
  | S m => match w with [] => ozero (S m) | p :: w' => kron2 m (pmat p) (pword m w') end
  end.
Fixpoint pprep (n : nat) (ss : list prep) : Op n :=
  match n return Op n with
  | O => c1
  | S m => match ss with [] => ozero (S m) | s :: r => kron2 m (pstate s) (pprep m r) end
  end.
(* reconstruction of tr(rho M) from measurements of rho in all Pauli words and preparations fed to M *)
Definition reconstruct (n : nat) (rho M : Op n) : C :=
  cmul (halfpow n)
       (csum (map (fun w => cmul (pairing n rho (pword n w))
                                 (csum (map (fun ss => cmul (cobprod w ss) (pairing n (pprep n ss) M))
                                            (tuples preps n))))
                  (tuples paulis n))).

(* ------------------------------------------------------------------ correspondence checks (tie K) *)
Definition rq (p : Z * positive) : C := cq (ratq p).
Fixpoint all_some' {A} (l : list (option A)) : option (list A) :=
  match l with
  | [] => Some []
  | None :: _ => None
  | Some x :: r => match all_some' r with Some t => Some (x :: t) | None => None end
  end.
(* fragment as recorded: n_prep, n_meas, results (fractions), grouped_flat (letters as 0..3), prepare edges, measure edges *)
Definition FragIn : Type := (nat * nat * list (Z * positive) * list (list Z) * list nat * list nat)%type.
Definition frag_of (x : FragIn) : option Frag :=
  let '(np, nm, res, gf, pe, me) := x in
  match all_some' (map (fun w => all_some' (map pl_of_Z w)) gf) with
  | Some g => Some (mkFrag np nm (map rq res) g pe me)
  | None => None
  end.
Definition Qabs' (q : Q) : Q := if Qle_bool 0 q then q else Qopp q.
(* |x - y| <= 10^-9 (1 + |x|): the implementation evaluates the same rational expression in float64, with the
   irrational per-tensor factors 2^(-n/2) *)
Definition close (x : C) (y : Qc) : bool :=
  qeqb (snd x) 0%Qc
  && Qle_bool (Qabs' (this (fst x) - this y)%Q) ((1 # 1000000000) * (1 + Qabs' (this (fst x))))%Q.
(* k, fragments, result of qcut_processing_fn as the exact value of the returned float *)
Definition ContractCase : Type := (nat * list FragIn * (Z * positive))%type.
Definition check_contract (c : ContractCase) : bool :=
  let '(k, fins, impl) := c in
  match all_some' (map frag_of fins) with
  | None => false
  | Some frs => forallb frag_ok frs && edges_ok k frs && close (contract k frs) (ratq impl)
  end.

(* exported tables: CHANGE_OF_BASIS (integers), 4 * density matrix of each PREPARE_SETTINGS circuit run on |0>
   (Gaussian integers), and for cut_circuit_mc per setting: measured letter, 4 * prepared density, 2 * weight *)
Definition zc4 (p : Z * Z) : C := (Q2Qc (fst p # 4), Q2Qc (snd p # 4)).
Definition m2_eqb (m : M2) (l : list (list (Z * Z))) : bool :=
  ShadowsModel.list_eqb (ShadowsModel.list_eqb ceqb) (rows 1 m) (map (map zc4) l).
Definition TablesCase : Type :=
  (list (list Z) * list (list (list (Z * Z))) * list (Z * list (list (Z * Z)) * Z))%type.
Definition check_tables (c : TablesCase) : bool :=
  let '(cobm, prs, mc) := c in
  list_eqb (list_eqb Z.eqb) cobm COB
  && ShadowsModel.list_eqb (fun s l => m2_eqb (pstate s) l && m2_eqb (density (run_prep (prep_ops s))) l) preps prs
  && ShadowsModel.list_eqb
       (fun (x : pl * mcstate * C) (y : Z * list (list (Z * Z)) * Z) =>
          let '(p, s, e) := x in let '(pz, dm, e2) := y in
          match pl_of_Z pz with Some p' => pl_eqb p p' | None => false end
          && m2_eqb (mc_density s) dm && m2_eqb (density (run_prep (mc_ops s))) dm
          && ceqb (cmul (cq (qz 2)) e) (cq (qz e2)))
       mc_settings mc.

Inductive AnyCase := CContract (c : ContractCase) | CTables (c : TablesCase).
Definition check_any (c : AnyCase) : bool :=
  match c with CContract c => check_contract c | CTables c => check_tables c end.
