From Coq Require Import List ZArith QArith Bool Arith Lia.
From PLV Require Import Num.QInfoModel.
Import ListNotations.
Lemma stub_true : True. Proof. exact I. Qed.
