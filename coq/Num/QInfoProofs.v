(* Lemmas for C49 about the exact quad-tree model Num/QInfoModel.v. *)
From Coq Require Import List ZArith QArith Qabs Bool Arith Lia Setoid Morphisms Lqa.
From PLV Require Import Num.QInfoModel.
Import ListNotations.

(* ================================================================== Gaussian rationals *)
Ltac cnorm := unfold ceq, cadd, cmul, cconj, cnorm2, cre, cofq, c0, c1 in *; simpl fst in *; simpl snd in *.
Ltac cring := cnorm; try split; ring.

Lemma ceq_refl x : ceq x x.
Proof. split; reflexivity. Qed.
Lemma ceq_sym x y : ceq x y -> ceq y x.
Proof. intros [A B]; split; symmetry; assumption. Qed.
Lemma ceq_trans x y z : ceq x y -> ceq y z -> ceq x z.
Proof. intros [A B] [A' B']; split; etransitivity; eassumption. Qed.
Add Parametric Relation : C ceq
  reflexivity proved by ceq_refl symmetry proved by ceq_sym transitivity proved by ceq_trans as ceq_rel.

Global Instance cadd_proper : Proper (ceq ==> ceq ==> ceq) cadd.
Proof. intros x x' [A B] y y' [A' B']; split; simpl; rewrite ?A, ?B, ?A', ?B'; reflexivity. Qed.
Global Instance cmul_proper : Proper (ceq ==> ceq ==> ceq) cmul.
Proof. intros x x' [A B] y y' [A' B']; split; simpl; rewrite ?A, ?B, ?A', ?B'; reflexivity. Qed.
Global Instance cconj_proper : Proper (ceq ==> ceq) cconj.
Proof. intros x x' [A B]; split; simpl; rewrite ?A, ?B; reflexivity. Qed.
Global Instance cnorm2_proper : Proper (ceq ==> Qeq) cnorm2.
Proof. intros x x' [A B]; unfold cnorm2; rewrite A, B; reflexivity. Qed.
Global Instance cre_proper : Proper (ceq ==> Qeq) cre.
Proof. intros x x' [A B]; exact A. Qed.

Lemma cadd_comm x y : ceq (cadd x y) (cadd y x). Proof. cring. Qed.
Lemma cadd_assoc x y z : ceq (cadd (cadd x y) z) (cadd x (cadd y z)). Proof. cring. Qed.
Lemma cadd_0_r x : ceq (cadd x c0) x. Proof. cring. Qed.
Lemma cadd_0_l x : ceq (cadd c0 x) x. Proof. cring. Qed.
Lemma cadd_shuffle a b c d : ceq (cadd (cadd a b) (cadd c d)) (cadd (cadd a c) (cadd b d)). Proof. cring. Qed.
Lemma cmul_comm x y : ceq (cmul x y) (cmul y x). Proof. cring. Qed.
Lemma cmul_assoc x y z : ceq (cmul (cmul x y) z) (cmul x (cmul y z)). Proof. cring. Qed.
Lemma cmul_1_l x : ceq (cmul c1 x) x. Proof. cring. Qed.
Lemma cmul_0_l x : ceq (cmul c0 x) c0. Proof. cring. Qed.
Lemma cmul_0_r x : ceq (cmul x c0) c0. Proof. cring. Qed.
Lemma cmul_add_r x y z : ceq (cmul x (cadd y z)) (cadd (cmul x y) (cmul x z)). Proof. cring. Qed.
Lemma cmul_add_l x y z : ceq (cmul (cadd x y) z) (cadd (cmul x z) (cmul y z)). Proof. cring. Qed.

Local Close Scope Q_scope.
Local Open Scope nat_scope.

(* ================================================================== tree equality *)
Lemma teq_refl t : teq t t.
Proof. induction t; simpl; auto using ceq_refl. Qed.
Lemma teq_sym s : forall t, teq s t -> teq t s.
Proof. induction s; destruct t; simpl; try tauto. apply ceq_sym. intuition. Qed.
Lemma teq_trans s : forall t u, teq s t -> teq t u -> teq s u.
Proof.
  induction s; destruct t, u; simpl; try tauto. apply ceq_trans.
  intros (A & B & C' & D) (A' & B' & C'' & D'); repeat split; eauto.
Qed.
Add Parametric Relation : qt teq
  reflexivity proved by teq_refl symmetry proved by teq_sym transitivity proved by teq_trans as teq_rel.

Lemma teq_wf n : forall s t, teq s t -> wf n s -> wf n t.
Proof.
  induction n; destruct s, t; simpl; try tauto.
  intros (A & B & C' & D) (A' & B' & C'' & D'); repeat split; eauto.
Qed.

Lemma tadd_teq s : forall s' t t', teq s s' -> teq t t' -> teq (tadd s t) (tadd s' t').
Proof.
  induction s; intros s' t t' Hs Ht; destruct s', t, t'; simpl in *; try tauto; try apply ceq_refl;
    try (rewrite Hs, Ht; reflexivity).
  destruct Hs as (A & B & C' & D), Ht as (A' & B' & C'' & D'); repeat split; auto.
Qed.
Global Instance tadd_proper : Proper (teq ==> teq ==> teq) tadd.
Proof. intros s s' Hs t t' Ht; apply tadd_teq; auto. Qed.
Lemma tscale_teq k k' t : forall t', ceq k k' -> teq t t' -> teq (tscale k t) (tscale k' t').
Proof.
  induction t; intros t' Hk Ht; destruct t'; simpl in *; try tauto.
  - rewrite Hk, Ht; reflexivity.
  - destruct Ht as (A & B & C' & D); repeat split; auto.
Qed.
Global Instance tscale_proper : Proper (ceq ==> teq ==> teq) tscale.
Proof. intros k k' Hk t t' Ht; apply tscale_teq; auto. Qed.
Global Instance ttrace_proper : Proper (teq ==> ceq) ttrace.
Proof.
  intros t; induction t; intros t' Ht; destruct t'; simpl in *; try tauto.
  destruct Ht as (A & B & C' & D). rewrite (IHt1 _ A), (IHt4 _ D); reflexivity.
Qed.
Lemma tget_proper t : forall t' r c, teq t t' -> ceq (tget t r c) (tget t' r c).
Proof.
  induction t; intros t' r c Ht; destruct t'; simpl in *; try tauto.
  destruct Ht as (A & B & C' & D). destruct r as [|br r], c as [|bc c]; try reflexivity.
  destruct br, bc; auto.
Qed.

(* ---------------------------------------------------------------- well-formedness of the operations *)
Lemma wf_tadd n : forall s t, wf n s -> wf n t -> wf n (tadd s t).
Proof. induction n; destruct s, t; simpl; try tauto. intuition. Qed.
Lemma wf_tscale n k : forall t, wf n t -> wf n (tscale k t).
Proof. induction n; destruct t; simpl; try tauto. intuition. Qed.
Lemma wf_tzero n : wf n (tzero n).
Proof. induction n; simpl; auto. Qed.
Lemma wf_teye n : wf n (teye n).
Proof. induction n; simpl; auto using wf_tzero. Qed.
Lemma wf_tkron n m : forall s t, wf n s -> wf m t -> wf (n + m) (tkron s t).
Proof. induction n; destruct s; simpl; try tauto; intros. apply wf_tscale; auto. intuition. Qed.
Lemma wf_tmul n : forall s t, wf n s -> wf n t -> wf n (tmul s t).
Proof. induction n; destruct s, t; simpl; try tauto. intuition auto using wf_tadd. Qed.
Lemma wf_tbuild n : forall f, wf n (tbuild n f).
Proof. induction n; simpl; auto. Qed.

(* ---------------------------------------------------------------- additive laws *)
Lemma tadd_comm n : forall s t, wf n s -> wf n t -> teq (tadd s t) (tadd t s).
Proof. induction n; destruct s, t; simpl; try tauto; intros. apply cadd_comm. intuition. Qed.
Lemma tadd_shuffle n : forall a b c d, wf n a -> wf n b -> wf n c -> wf n d ->
  teq (tadd (tadd a b) (tadd c d)) (tadd (tadd a c) (tadd b d)).
Proof.
  induction n; destruct a, b, c, d; simpl; try tauto; intros. apply cadd_shuffle.
  intuition.
Qed.
Lemma tadd_zero_r n : forall t, wf n t -> teq (tadd t (tzero n)) t.
Proof. induction n; destruct t; simpl; try tauto; intros. apply cadd_0_r. intuition. Qed.
Lemma tadd_zero_l n : forall t, wf n t -> teq (tadd (tzero n) t) t.
Proof. induction n; destruct t; simpl; try tauto; intros. apply cadd_0_l. intuition. Qed.
Lemma ttrace_tadd n : forall s t, wf n s -> wf n t -> ceq (ttrace (tadd s t)) (cadd (ttrace s) (ttrace t)).
Proof.
  induction n; destruct s, t; simpl; try tauto; intros. reflexivity.
  destruct H as (A & _ & _ & D), H0 as (A' & _ & _ & D').
  rewrite (IHn _ _ A A'), (IHn _ _ D D'). apply cadd_shuffle.
Qed.
Lemma ttrace_tscale k : forall t, ceq (ttrace (tscale k t)) (cmul k (ttrace t)).
Proof. induction t; simpl. reflexivity. rewrite IHt1, IHt4. symmetry; apply cmul_add_r. Qed.
Lemma tscale_tadd n k : forall s t, wf n s -> wf n t -> teq (tscale k (tadd s t)) (tadd (tscale k s) (tscale k t)).
Proof. induction n; destruct s, t; simpl; try tauto; intros. apply cmul_add_r. intuition. Qed.
Lemma tscale_cadd n k k' : forall t, wf n t -> teq (tscale (cadd k k') t) (tadd (tscale k t) (tscale k' t)).
Proof. induction n; destruct t; simpl; try tauto; intros. apply cmul_add_l. intuition. Qed.
Lemma tscale_tscale k k' : forall t, teq (tscale k (tscale k' t)) (tscale (cmul k k') t).
Proof. induction t; simpl. symmetry; apply cmul_assoc. auto. Qed.
Lemma tscale_1 : forall t, teq (tscale c1 t) t.
Proof. induction t; simpl. apply cmul_1_l. auto. Qed.
Lemma tscale_0 n : forall t, wf n t -> teq (tscale c0 t) (tzero n).
Proof. induction n; destruct t; simpl; try tauto; intros. apply cmul_0_l. intuition. Qed.
Lemma tscale_tzero n k : teq (tscale k (tzero n)) (tzero n).
Proof. induction n; simpl. apply cmul_0_r. auto. Qed.

(* ================================================================== partial trace *)
Lemma wf_ptrace1 m : forall p t, wf (S m) t -> p <= m -> wf m (ptrace1 p t).
Proof.
  induction m; intros p t; destruct t; simpl; try tauto; intros (A & B & C' & D) Hp.
  - assert (p = 0) by lia; subst. apply (wf_tadd 0); auto.
  - destruct p. apply (wf_tadd (S m)); auto.
    assert (p <= m) by lia. simpl. repeat split; apply IHm; auto.
Qed.
Lemma ptrace1_id n : forall p t, wf n t -> n <= p -> ptrace1 p t = t.
Proof.
  induction n; intros p t; destruct t; simpl; try tauto; try (destruct p; reflexivity); intros (A & B & C' & D) Hp.
  destruct p; [lia|]. simpl. rewrite (IHn p t1), (IHn p t2), (IHn p t3), (IHn p t4); auto; lia.
Qed.
Lemma wf_ptrace1_ex n p t : wf n t -> exists m, wf m (ptrace1 p t).
Proof.
  intros H. destruct (le_lt_dec n p).
  - exists n. rewrite (ptrace1_id n); auto.
  - destruct n; [lia|]. exists n. apply wf_ptrace1; auto; lia.
Qed.
Lemma ttrace_ptrace1 n : forall p t, wf n t -> ceq (ttrace (ptrace1 p t)) (ttrace t).
Proof.
  induction n; intros p t; destruct t; simpl; try tauto; try (destruct p; reflexivity); intros (A & B & C' & D).
  destruct p; simpl.
  - apply (ttrace_tadd n); auto.
  - rewrite (IHn p t1 A), (IHn p t4 D). reflexivity.
Qed.
Lemma ttrace_pt_loop : forall idxs t i n, wf n t -> ceq (ttrace (pt_loop t i idxs)) (ttrace t).
Proof.
  induction idxs; intros t i n H; simpl. reflexivity.
  destruct (wf_ptrace1_ex n (a - i) t H) as [m Hm].
  rewrite (IHidxs _ _ _ Hm). apply (ttrace_ptrace1 n); auto.
Qed.
Lemma partial_trace_trace n t idxs : wf n t -> ceq (ttrace (partial_trace t idxs)) (ttrace t).
Proof. apply ttrace_pt_loop. Qed.

(* ---------------------------------------------------------------- mask version *)
Lemma count_false_true m : count_false (true :: m) = count_false m.
Proof. reflexivity. Qed.
Lemma count_false_false m : count_false (false :: m) = S (count_false m).
Proof. reflexivity. Qed.

Lemma wf_ptm : forall m n t, length m = n -> wf n t -> wf (count_false m) (ptrace_mask m t).
Proof.
  induction m as [|b m]; intros n t Hl H; simpl in Hl; subst n.
  - destruct t; simpl in *; tauto.
  - destruct t; simpl in H; try tauto. destruct H as (A & B & C' & D).
    destruct b; simpl ptrace_mask.
    + rewrite count_false_true. apply wf_tadd; eapply IHm; eauto.
    + rewrite count_false_false. simpl. repeat split; eapply IHm; eauto.
Qed.
Lemma ptm_teq : forall m t t', teq t t' -> teq (ptrace_mask m t) (ptrace_mask m t').
Proof.
  induction m as [|b m]; intros t t' H.
  - destruct t, t'; simpl in *; tauto.
  - destruct t, t'; simpl in H; try tauto. destruct b; simpl; auto.
    destruct H as (A & B & C' & D). destruct b; simpl.
    + apply tadd_teq; auto.
    + repeat split; auto.
Qed.
Lemma ptm_tadd : forall m n s t, length m = n -> wf n s -> wf n t ->
  teq (ptrace_mask m (tadd s t)) (tadd (ptrace_mask m s) (ptrace_mask m t)).
Proof.
  induction m as [|b m]; intros n s t Hl Hs Ht; simpl in Hl; subst n.
  - destruct s, t; simpl in *; try tauto. apply ceq_refl.
  - destruct s, t; simpl in Hs, Ht; try tauto.
    destruct Hs as (A & B & C' & D), Ht as (A' & B' & C'' & D').
    destruct b; simpl.
    + rewrite (IHm _ _ _ eq_refl A A'), (IHm _ _ _ eq_refl D D').
      apply (tadd_shuffle (count_false m)); eapply wf_ptm; eauto.
    + repeat split; eapply IHm; eauto.
Qed.
Lemma ttrace_ptm : forall m n t, length m = n -> wf n t -> ceq (ttrace (ptrace_mask m t)) (ttrace t).
Proof.
  induction m as [|b m]; intros n t Hl H; simpl in Hl; subst n.
  - destruct t; simpl in *; try tauto. reflexivity.
  - destruct t; simpl in H; try tauto. destruct H as (A & B & C' & D).
    destruct b; simpl.
    + rewrite (ttrace_tadd (count_false m)) by (eapply wf_ptm; eauto).
      rewrite (IHm _ _ eq_refl A), (IHm _ _ eq_refl D). reflexivity.
    + rewrite (IHm _ _ eq_refl A), (IHm _ _ eq_refl D). reflexivity.
Qed.

Lemma ptm_compose : forall m1 n t m2, length m1 = n -> length m2 = count_false m1 -> wf n t ->
  teq (ptrace_mask m2 (ptrace_mask m1 t)) (ptrace_mask (mask_merge m1 m2) t).
Proof.
  induction m1 as [|b m1]; intros n t m2 Hl Hl2 H; simpl in Hl; subst n.
  - destruct m2; simpl in Hl2; try discriminate. destruct t; simpl in *; try tauto. apply ceq_refl.
  - destruct t; simpl in H; try tauto. destruct H as (A & B & C' & D).
    destruct b.
    + rewrite count_false_true in Hl2. simpl.
      rewrite (ptm_tadd m2 (count_false m1)); auto; try (eapply wf_ptm; eauto).
      apply tadd_teq; eapply IHm1; eauto.
    + rewrite count_false_false in Hl2. destruct m2 as [|b2 m2]; simpl in Hl2; try discriminate.
      injection Hl2 as Hl2. destruct b2; simpl.
      * apply tadd_teq; eapply IHm1; eauto.
      * repeat split; eapply IHm1; eauto.
Qed.

(* ---------------------------------------------------------------- the transcribed loop equals the mask contraction *)
Lemma strictb_cons x r : strictb (x :: r) = true -> strictb r = true /\ Forall (fun y => x < y) r.
Proof.
  revert x; induction r as [|y r]; intros x H. split; [reflexivity|constructor].
  simpl in H. apply andb_true_iff in H. destruct H as [H1 H2]. apply Nat.ltb_lt in H1.
  destruct (IHr y H2) as [H3 H4]. split. exact H2.
  constructor. exact H1. eapply Forall_impl; [|exact H4]. simpl; intros; lia.
Qed.
Lemma mem_false_lt i : forall l, Forall (fun y => i < y) l -> mem i l = false.
Proof.
  induction l; intros H; simpl. reflexivity. inversion H; subst.
  rewrite IHl by assumption. destruct (Nat.eqb_spec i a); [lia|reflexivity].
Qed.
Lemma mask_off_S n i idxs : mask_off (S n) i idxs = mem i idxs :: mask_off n (S i) idxs.
Proof. reflexivity. Qed.
Lemma mask_off_length n : forall i idxs, length (mask_off n i idxs) = n.
Proof. intros; unfold mask_off; rewrite map_length, seq_length; reflexivity. Qed.
Lemma mask_off_cons_lt n : forall i x r, x < i -> mask_off n i (x :: r) = mask_off n i r.
Proof.
  intros i x r H. unfold mask_off. apply map_ext_in. intros j Hj. apply in_seq in Hj. simpl.
  destruct (Nat.eqb_spec j x); [lia|reflexivity].
Qed.

Lemma pt_loop_node : forall idxs i a b c d, strictb idxs = true -> Forall (fun x => i < x) idxs ->
  pt_loop (QN a b c d) i idxs =
  QN (pt_loop a (S i) idxs) (pt_loop b (S i) idxs) (pt_loop c (S i) idxs) (pt_loop d (S i) idxs).
Proof.
  induction idxs as [|x r]; intros i a b c d Hs Hf. reflexivity.
  inversion Hf; subst. destruct (strictb_cons _ _ Hs) as [Hs' Hr].
  simpl pt_loop. replace (x - i) with (S (x - S i)) by lia. simpl ptrace1.
  rewrite IHr; auto. eapply Forall_impl; [|exact Hr]. simpl; intros; lia.
Qed.

Lemma pt_loop_mask : forall n t idxs i, wf n t -> strictb idxs = true ->
  Forall (fun x => i <= x /\ x < n + i) idxs ->
  teq (pt_loop t i idxs) (ptrace_mask (mask_off n i idxs) t).
Proof.
  induction n; intros t idxs i H Hs Hf.
  - destruct idxs as [|x r]. destruct t; simpl in *; try tauto. apply ceq_refl.
    inversion Hf; subst. lia.
  - destruct t; simpl in H; try tauto. destruct H as (A & B & C' & D).
    rewrite mask_off_S. destruct idxs as [|x r].
    + simpl mem. simpl pt_loop. simpl ptrace_mask.
      repeat split; apply (IHn _ [] (S i)); auto.
    + inversion Hf as [|? ? [Hx1 Hx2] Hf']; subst. destruct (strictb_cons _ _ Hs) as [Hs' Hr].
      destruct (Nat.eq_dec x i) as [->|Hne].
      * simpl mem. rewrite Nat.eqb_refl. simpl orb. simpl pt_loop. rewrite Nat.sub_diag. simpl ptrace1.
        simpl ptrace_mask. rewrite mask_off_cons_lt by lia.
        rewrite <- (ptm_tadd _ n) by (auto using mask_off_length).
        apply IHn; auto. apply wf_tadd; auto.
        rewrite Forall_forall in *. intros y Hy. specialize (Hr y Hy). specialize (Hf' y Hy). lia.
      * assert (Hall : Forall (fun y => i < y) (x :: r)).
        { constructor. lia. eapply Forall_impl; [|exact Hr]. simpl; intros; lia. }
        rewrite (mem_false_lt i (x :: r) Hall). rewrite pt_loop_node by assumption.
        simpl ptrace_mask.
        assert (Hf2 : Forall (fun y => S i <= y /\ y < n + S i) (x :: r)).
        { rewrite Forall_forall in *. intros y Hy. specialize (Hall y Hy). specialize (Hf y Hy). lia. }
        repeat split; apply IHn; auto.
Qed.

(* insertion sort facts *)
Lemma mem_insert x y : forall l, mem x (insert y l) = Nat.eqb x y || mem x l.
Proof.
  induction l; simpl. reflexivity. destruct (Nat.leb y a); simpl. reflexivity.
  rewrite IHl. destruct (Nat.eqb x y), (Nat.eqb x a); reflexivity.
Qed.
Lemma mem_isort x : forall l, mem x (isort l) = mem x l.
Proof. induction l; simpl. reflexivity. rewrite mem_insert, IHl. reflexivity. Qed.
Lemma Forall_insert (P : nat -> Prop) y : forall l, P y -> Forall P l -> Forall P (insert y l).
Proof.
  induction l; simpl; intros Hy Hl. constructor; auto. inversion Hl; subst.
  destruct (Nat.leb y a); constructor; auto.
Qed.
Lemma Forall_isort (P : nat -> Prop) : forall l, Forall P l -> Forall P (isort l).
Proof. induction l; simpl; intros H. constructor. inversion H; subst. apply Forall_insert; auto. Qed.
Lemma mask_off_isort n i l : mask_off n i (isort l) = mask_off n i l.
Proof. unfold mask_off. apply map_ext. intros; apply mem_isort. Qed.

Lemma partial_trace_mask n t idxs : wf n t -> strictb (isort idxs) = true -> Forall (fun x => x < n) idxs ->
  teq (partial_trace t idxs) (ptrace_mask (mask_of n idxs) t).
Proof.
  intros H Hs Hf. unfold partial_trace.
  change (mask_of n idxs) with (mask_off n 0 idxs). rewrite <- mask_off_isort.
  apply pt_loop_mask; auto. apply Forall_isort. eapply Forall_impl; [|exact Hf]. simpl; intros; lia.
Qed.

(* ---------------------------------------------------------------- explicit index contraction *)
Lemma csum_app l1 : forall l2, ceq (csum (l1 ++ l2)) (cadd (csum l1) (csum l2)).
Proof.
  induction l1; intros l2; simpl. symmetry; apply cadd_0_l.
  rewrite IHl1. symmetry; apply cadd_assoc.
Qed.
Lemma tget_tadd n : forall s t r c, wf n s -> wf n t ->
  ceq (tget (tadd s t) r c) (cadd (tget s r c) (tget t r c)).
Proof.
  induction n; destruct s, t; simpl; try tauto; intros r c Hs Ht. reflexivity.
  destruct Hs as (A & B & C' & D), Ht as (A' & B' & C'' & D').
  destruct r as [|br r], c as [|bc c]; try (symmetry; apply cadd_0_l).
  destruct br, bc; apply IHn; auto.
Qed.
Lemma count_true_true m : count_true (true :: m) = S (count_true m).
Proof. reflexivity. Qed.
Lemma count_true_false m : count_true (false :: m) = count_true m.
Proof. reflexivity. Qed.

Lemma ptm_contraction : forall m n t r c, length m = n -> wf n t ->
  length r = count_false m -> length c = count_false m ->
  ceq (tget (ptrace_mask m t) r c) (contraction m t r c).
Proof.
  induction m as [|b m]; intros n t r c Hl H Hr Hc; simpl in Hl; subst n.
  - destruct t; simpl in H; try tauto. unfold contraction. simpl. symmetry; apply cadd_0_r.
  - destruct t; simpl in H; try tauto. destruct H as (A & B & C' & D). destruct b.
    + rewrite count_false_true in Hr, Hc. simpl ptrace_mask.
      rewrite (tget_tadd (count_false m)) by (eapply wf_ptm; eauto).
      rewrite (IHm _ t1 r c eq_refl A Hr Hc), (IHm _ t4 r c eq_refl D Hr Hc).
      unfold contraction. rewrite count_true_true. simpl all_bits. rewrite map_app, !map_map, csum_app.
      simpl. reflexivity.
    + rewrite count_false_false in Hr, Hc.
      destruct r as [|br r]; [discriminate|]. destruct c as [|bc c]; [discriminate|].
      injection Hr as Hr. injection Hc as Hc.
      unfold contraction. rewrite count_true_false. simpl interleave. simpl ptrace_mask.
      destruct br, bc; simpl tget; eapply IHm; eauto.
Qed.

(* ---------------------------------------------------------------- product states *)
Lemma ptm_all_true : forall k t, wf k t -> teq (ptrace_mask (repeat true k) t) (QL (ttrace t)).
Proof.
  induction k; destruct t; simpl; try tauto; intros H. apply ceq_refl.
  destruct H as (A & _ & _ & D). rewrite (IHk _ A), (IHk _ D). simpl. apply ceq_refl.
Qed.
Lemma ptm_tscale : forall m n k t, length m = n -> wf n t ->
  teq (ptrace_mask m (tscale k t)) (tscale k (ptrace_mask m t)).
Proof.
  induction m as [|b m]; intros n k t Hl H; simpl in Hl; subst n.
  - destruct t; simpl in *; try tauto. apply ceq_refl.
  - destruct t; simpl in H; try tauto. destruct H as (A & B & C' & D). destruct b; simpl.
    + rewrite (IHm _ k _ eq_refl A), (IHm _ k _ eq_refl D).
      symmetry. apply (tscale_tadd (count_false m)); eapply wf_ptm; eauto.
    + repeat split; eapply IHm; eauto.
Qed.
(* tracing out the B part of A (x) B *)
Lemma ptm_kron_keep_left : forall k j A B, wf k A -> wf j B ->
  teq (ptrace_mask (repeat false k ++ repeat true j) (tkron A B)) (tscale (ttrace B) A).
Proof.
  induction k; destruct A; simpl; try tauto; intros B HA HB.
  - rewrite (ptm_tscale _ j) by (auto using repeat_length).
    rewrite (ptm_all_true j B HB). simpl. apply cmul_comm.
  - destruct HA as (W1 & W2 & W3 & W4). repeat split; apply IHk; auto.
Qed.
(* tracing out the A part of A (x) B *)
Lemma ptm_kron_keep_right : forall k j A B, wf k A -> wf j B ->
  teq (ptrace_mask (repeat true k ++ repeat false j) (tkron A B)) (tscale (ttrace A) B).
Proof.
  induction k; destruct A; simpl; try tauto; intros B HA HB.
  - assert (E : forall j B, wf j B -> teq (ptrace_mask (repeat false j) B) B).
    { clear. induction j; destruct B; simpl; try tauto; intros H. apply ceq_refl. intuition. }
    apply E. apply wf_tscale; auto.
  - destruct HA as (W1 & W2 & W3 & W4).
    rewrite (IHk j A1 B W1 HB), (IHk j A4 B W4 HB).
    symmetry. apply (tscale_cadd j); auto.
Qed.

(* ---------------------------------------------------------------- reduce_statevector = partial trace of |psi><psi| *)
Lemma rsv_is_ptm : forall m n u v, length m = n -> vwf n u -> vwf n v ->
  rsv m u v = ptrace_mask m (vouter u v).
Proof.
  induction m as [|b m]; intros n u v Hl Hu Hv; simpl in Hl; subst n.
  - destruct u, v; simpl in *; try tauto.
  - destruct u, v; simpl in Hu, Hv; try tauto. destruct Hu as [U0 U1], Hv as [V0 V1].
    destruct b; simpl.
    + rewrite (IHm _ u1 v1 eq_refl U0 V0), (IHm _ u2 v2 eq_refl U1 V1). reflexivity.
    + rewrite (IHm _ u1 v1 eq_refl U0 V0), (IHm _ u1 v2 eq_refl U0 V1),
              (IHm _ u2 v1 eq_refl U1 V0), (IHm _ u2 v2 eq_refl U1 V1). reflexivity.
Qed.
Lemma wf_vouter n : forall u v, vwf n u -> vwf n v -> wf n (vouter u v).
Proof. induction n; destruct u, v; simpl; try tauto. intuition. Qed.
Lemma vwf_vconj n : forall v, vwf n v -> vwf n (vconj v).
Proof. induction n; destruct v; simpl; try tauto. intuition. Qed.

(* ================================================================== fidelity and purity of pure states *)
Lemma vdot_teq_comm n : forall u v, vwf n u -> vwf n v -> ceq (vdot u v) (vdot v u).
Proof.
  induction n; destruct u, v; simpl; try tauto; intros Hu Hv. apply cmul_comm.
  destruct Hu, Hv. rewrite (IHn u1 v1), (IHn u2 v2); auto. reflexivity.
Qed.
Lemma cconj_cadd x y : ceq (cconj (cadd x y)) (cadd (cconj x) (cconj y)). Proof. cring. Qed.
Lemma cconj_cmul x y : ceq (cconj (cmul x y)) (cmul (cconj x) (cconj y)). Proof. cring. Qed.
Lemma cconj_invol x : ceq (cconj (cconj x)) x. Proof. cring. Qed.
Lemma cnorm2_cconj x : (cnorm2 (cconj x) == cnorm2 x)%Q. Proof. cnorm. ring. Qed.
Lemma cnorm2_nonneg x : (0 <= cnorm2 x)%Q.
Proof. unfold cnorm2. nra. Qed.

Lemma vdot_vconj_swap n : forall u v, vwf n u -> vwf n v ->
  ceq (vdot v (vconj u)) (cconj (vdot u (vconj v))).
Proof.
  induction n; destruct u, v; simpl; try tauto; intros Hu Hv. cring.
  destruct Hu, Hv. rewrite (IHn u1 v1), (IHn u2 v2); auto. symmetry; apply cconj_cadd.
Qed.

Lemma fidelity_sym n u v : vwf n u -> vwf n v ->
  (fidelity_statevector u v == fidelity_statevector v u)%Q.
Proof.
  intros Hu Hv. unfold fidelity_statevector.
  rewrite (vdot_vconj_swap n u v Hu Hv). symmetry; apply cnorm2_cconj.
Qed.
Lemma fidelity_nonneg u v : (0 <= fidelity_statevector u v)%Q.
Proof. apply cnorm2_nonneg. Qed.

Lemma vnorm2_nonneg n : forall u, vwf n u -> (0 <= vnorm2 u)%Q.
Proof.
  induction n; destruct u; simpl; try tauto; intros H.
  - unfold vnorm2. simpl. cnorm. nra.
  - destruct H as [H1 H2]. specialize (IHn _ H1) as I1. specialize (IHn _ H2) as I2.
    unfold vnorm2 in *. simpl. cnorm. lra.
Qed.
Lemma vnorm2_node u0 u1 : (vnorm2 (VN u0 u1) == vnorm2 u0 + vnorm2 u1)%Q.
Proof. unfold vnorm2. simpl. cnorm. reflexivity. Qed.

(* the arithmetic core of Cauchy-Schwarz when two blocks are joined *)
Lemma sq_nonneg (y : Q) : (0 <= y * y)%Q.
Proof. nra. Qed.
Lemma le_of_sq (x y : Q) : (0 <= y -> x * x <= y * y -> x <= y)%Q.
Proof.
  intros Hy H. destruct (Qlt_le_dec y x) as [Hlt|]; [|assumption]. exfalso.
  assert (y * y < x * x)%Q by nra. lra.
Qed.
Lemma cs_join (a b c d A0 A1 B0 B1 : Q) :
  (0 <= A0 -> 0 <= A1 -> 0 <= B0 -> 0 <= B1 ->
   a * a + b * b <= A0 * B0 -> c * c + d * d <= A1 * B1 ->
   (a + c) * (a + c) + (b + d) * (b + d) <= (A0 + A1) * (B0 + B1))%Q.
Proof.
  intros HA0 HA1 HB0 HB1 H0 H1.
  assert (HP : (0 <= A0 * B1)%Q) by (apply Qmult_le_0_compat; assumption).
  assert (HR : (0 <= A1 * B0)%Q) by (apply Qmult_le_0_compat; assumption).
  assert (Hl : ((a * c + b * d) * (a * c + b * d) <= (a * a + b * b) * (c * c + d * d))%Q).
  { pose proof (sq_nonneg (a * d - b * c)) as S.
    assert (E : ((a * a + b * b) * (c * c + d * d) ==
                 (a * c + b * d) * (a * c + b * d) + (a * d - b * c) * (a * d - b * c))%Q) by ring.
    rewrite E. lra. }
  assert (Hm : ((a * a + b * b) * (c * c + d * d) <= (A0 * B0) * (A1 * B1))%Q).
  { pose proof (sq_nonneg a). pose proof (sq_nonneg b). pose proof (sq_nonneg c). pose proof (sq_nonneg d).
    apply Qle_trans with ((A0 * B0) * (c * c + d * d))%Q.
    - apply Qmult_le_compat_r. assumption. lra.
    - rewrite (Qmult_comm (A0 * B0) (c * c + d * d)), (Qmult_comm (A0 * B0) (A1 * B1)).
      apply Qmult_le_compat_r. assumption. lra. }
  assert (H2 : (2 * (a * c + b * d) <= A0 * B1 + A1 * B0)%Q).
  { apply le_of_sq. lra.
    pose proof (sq_nonneg (A0 * B1 - A1 * B0)) as S.
    assert (E : ((A0 * B1 + A1 * B0) * (A0 * B1 + A1 * B0) ==
                 4 * ((A0 * B0) * (A1 * B1)) + (A0 * B1 - A1 * B0) * (A0 * B1 - A1 * B0))%Q) by ring.
    rewrite E.
    assert (E2 : (2 * (a * c + b * d) * (2 * (a * c + b * d)) == 4 * ((a * c + b * d) * (a * c + b * d)))%Q) by ring.
    rewrite E2. lra. }
  assert (E : ((a + c) * (a + c) + (b + d) * (b + d) ==
               (a * a + b * b) + (c * c + d * d) + 2 * (a * c + b * d))%Q) by ring.
  assert (E' : ((A0 + A1) * (B0 + B1) == A0 * B0 + A1 * B1 + (A0 * B1 + A1 * B0))%Q) by ring.
  rewrite E, E'. lra.
Qed.

Lemma cauchy_schwarz n : forall u v, vwf n u -> vwf n v ->
  (cnorm2 (vdot u (vconj v)) <= vnorm2 u * vnorm2 v)%Q.
Proof.
  induction n; destruct u, v; simpl; try tauto; intros Hu Hv.
  - unfold vnorm2. simpl. cnorm. apply Qle_lteq; right; ring.
  - destruct Hu as [U0 U1], Hv as [V0 V1].
    specialize (IHn _ _ U0 V0) as I0. specialize (IHn _ _ U1 V1) as I1.
    rewrite !vnorm2_node.
    pose proof (vnorm2_nonneg n _ U0). pose proof (vnorm2_nonneg n _ U1).
    pose proof (vnorm2_nonneg n _ V0). pose proof (vnorm2_nonneg n _ V1).
    destruct (vdot u1 (vconj v1)) as [a b]. destruct (vdot u2 (vconj v2)) as [c d].
    unfold cnorm2, cadd in *; simpl fst in *; simpl snd in *.
    apply cs_join; assumption.
Qed.
Lemma fidelity_le_norms n u v : vwf n u -> vwf n v ->
  (fidelity_statevector u v <= vnorm2 u * vnorm2 v)%Q.
Proof. apply cauchy_schwarz. Qed.
Lemma fidelity_le_1 n u v : vwf n u -> vwf n v -> (vnorm2 u == 1)%Q -> (vnorm2 v == 1)%Q ->
  (fidelity_statevector u v <= 1)%Q.
Proof.
  intros Hu Hv Nu Nv. pose proof (fidelity_le_norms n u v Hu Hv) as H. rewrite Nu, Nv in H.
  eapply Qle_trans. exact H. apply Qle_lteq; right; ring.
Qed.

(* tr(|u><v| |u'><v'|) = <v,u'> <v',u>  (bilinear forms, conjugations are inside v, v') *)
Lemma trprod_proper_l s : forall s' t, teq s s' -> ceq (trprod s t) (trprod s' t).
Proof.
  induction s; intros s' t H; destruct s', t; simpl in *; try tauto; try reflexivity.
  rewrite H; reflexivity.
  destruct H as (A & B & C' & D).
  rewrite (IHs1 _ _ A), (IHs2 _ _ B), (IHs3 _ _ C'), (IHs4 _ _ D). reflexivity.
Qed.
Lemma trprod_vouter n : forall u v u' v', vwf n u -> vwf n v -> vwf n u' -> vwf n v' ->
  ceq (trprod (vouter u v) (vouter u' v')) (cmul (vdot u v') (vdot v u')).
Proof.
  induction n; destruct u, v, u', v'; simpl; try tauto; intros Hu Hv Hu' Hv'. cring.
  destruct Hu as [U0 U1], Hv as [V0 V1], Hu' as [U0' U1'], Hv' as [V0' V1'].
  rewrite (IHn u1 v1 u'1 v'1), (IHn u1 v2 u'2 v'1), (IHn u2 v1 u'1 v'2), (IHn u2 v2 u'2 v'2); auto.
  cring.
Qed.
Lemma vdot_self_real n : forall u, vwf n u -> ceq (vdot u (vconj u)) (cofq (vnorm2 u)).
Proof.
  induction n; destruct u; simpl; try tauto; intros H.
  - unfold vnorm2. simpl. cring.
  - destruct H as [H1 H2]. destruct (IHn _ H1) as [_ E1]. destruct (IHn _ H2) as [_ E2].
    unfold vnorm2, cofq, cre in *. simpl in *. split; simpl. reflexivity. rewrite E1, E2. ring.
Qed.
Lemma purity_pure n u : vwf n u ->
  (compute_purity (vouter u (vconj u)) == vnorm2 u * vnorm2 u)%Q.
Proof.
  intros H. unfold compute_purity.
  rewrite (trprod_vouter n u (vconj u) u (vconj u)); auto using vwf_vconj.
  rewrite (vdot_teq_comm n (vconj u) u); auto using vwf_vconj.
  rewrite (vdot_self_real n u H). cnorm. ring.
Qed.
Lemma purity_pure_normalised n u : vwf n u -> (vnorm2 u == 1)%Q ->
  (compute_purity (vouter u (vconj u)) == 1)%Q.
Proof. intros H N. rewrite (purity_pure n u H), N. ring. Qed.

(* ================================================================== products, Kronecker expansion *)

Lemma tmul_teq s : forall s' t t', teq s s' -> teq t t' -> teq (tmul s t) (tmul s' t').
Proof.
  induction s; intros s' t t' Hs Ht; destruct s', t, t'; simpl in *; try tauto; try apply ceq_refl;
    try (rewrite Hs, Ht; reflexivity).
  destruct Hs as (A & B & C' & D), Ht as (A' & B' & C'' & D'); repeat split; apply tadd_teq; auto.
Qed.
Lemma tkron_teq s : forall s' t t', teq s s' -> teq t t' -> teq (tkron s t) (tkron s' t').
Proof.
  induction s; intros s' t t' Hs Ht; destruct s'; simpl in *; try tauto.
  apply tscale_teq; auto. destruct Hs as (A & B & C' & D). repeat split; auto.
Qed.
Global Instance tmul_proper : Proper (teq ==> teq ==> teq) tmul.
Proof. intros s s' Hs t t' Ht; apply tmul_teq; auto. Qed.
Global Instance tkron_proper : Proper (teq ==> teq ==> teq) tkron.
Proof. intros s s' Hs t t' Ht; apply tkron_teq; auto. Qed.
Lemma tmul_tzero_l n : forall t, wf n t -> teq (tmul (tzero n) t) (tzero n).
Proof.
  induction n; destruct t; simpl; try tauto; intros H. apply cmul_0_l.
  destruct H as (A & B & C' & D). rewrite !IHn by auto.
  repeat split; apply tadd_zero_l; apply wf_tzero.
Qed.
Lemma tmul_tzero_r n : forall t, wf n t -> teq (tmul t (tzero n)) (tzero n).
Proof.
  induction n; destruct t; simpl; try tauto; intros H. apply cmul_0_r.
  destruct H as (A & B & C' & D). rewrite !IHn by auto.
  repeat split; apply tadd_zero_l; apply wf_tzero.
Qed.
Lemma tmul_tscale_l n k : forall s t, wf n s -> wf n t -> teq (tmul (tscale k s) t) (tscale k (tmul s t)).
Proof.
  induction n; destruct s, t; simpl; try tauto; intros Hs Ht. apply cmul_assoc.
  destruct Hs as (A & B & C' & D), Ht as (A' & B' & C'' & D').
  rewrite !(tscale_tadd n) by (apply wf_tmul; auto). rewrite !IHn by auto.
  repeat split; reflexivity.
Qed.
Lemma tmul_tscale_r n k : forall s t, wf n s -> wf n t -> teq (tmul s (tscale k t)) (tscale k (tmul s t)).
Proof.
  induction n; destruct s, t; simpl; try tauto; intros Hs Ht. cring.
  destruct Hs as (A & B & C' & D), Ht as (A' & B' & C'' & D').
  rewrite !(tscale_tadd n) by (apply wf_tmul; auto). rewrite !IHn by auto.
  repeat split; reflexivity.
Qed.
Lemma tmul_teye_l n : forall t, wf n t -> teq (tmul (teye n) t) t.
Proof.
  induction n; destruct t; simpl; try tauto; intros H. apply cmul_1_l.
  destruct H as (A & B & C' & D). rewrite !IHn, !tmul_tzero_l by auto.
  repeat split; first [apply tadd_zero_r | apply tadd_zero_l]; auto.
Qed.
Lemma tmul_teye_r n : forall t, wf n t -> teq (tmul t (teye n)) t.
Proof.
  induction n; destruct t; simpl; try tauto; intros H. cring.
  destruct H as (A & B & C' & D). rewrite !IHn, !tmul_tzero_r by auto.
  repeat split; first [apply tadd_zero_r | apply tadd_zero_l]; auto.
Qed.
Lemma tkron_tadd_l n m : forall a b t, wf n a -> wf n b -> wf m t ->
  teq (tkron (tadd a b) t) (tadd (tkron a t) (tkron b t)).
Proof.
  induction n; destruct a, b; simpl; try tauto; intros t Ha Hb Ht. apply (tscale_cadd m); auto.
  destruct Ha as (A & B & C' & D), Hb as (A' & B' & C'' & D'). repeat split; apply IHn; auto.
Qed.
Lemma tkron_tzero_l n m : forall t, wf m t -> teq (tkron (tzero n) t) (tzero (n + m)).
Proof. induction n; simpl; intros t H. apply tscale_0; auto. repeat split; apply IHn; auto. Qed.

Lemma kron_eye_r_hom k n : forall A B, wf n A -> wf n B ->
  teq (tmul (tkron A (teye k)) (tkron B (teye k))) (tkron (tmul A B) (teye k)).
Proof.
  induction n; destruct A, B; simpl; try tauto; intros HA HB.
  - rewrite (tmul_tscale_l k), (tmul_tscale_r k), (tmul_teye_l k), tscale_tscale;
      auto using wf_teye, wf_tscale. reflexivity.
  - destruct HA as (A & B & C' & D), HB as (A' & B' & C'' & D').
    rewrite !IHn by auto.
    repeat split; symmetry; apply (tkron_tadd_l n k); auto using wf_tmul, wf_teye.
Qed.
Lemma kron_eye_l_hom p n : forall A B, wf n A -> wf n B ->
  teq (tmul (tkron (teye p) A) (tkron (teye p) B)) (tkron (teye p) (tmul A B)).
Proof.
  induction p; intros A B HA HB; simpl.
  - rewrite !tscale_1. reflexivity.
  - rewrite !(IHp A B HA HB).
    assert (Z : forall X, wf n X -> teq (tkron (tzero p) X) (tzero (p + n))) by (intros; apply tkron_tzero_l; auto).
    assert (WA : wf (p + n) (tkron (teye p) A)) by (apply wf_tkron; auto using wf_teye).
    assert (WB : wf (p + n) (tkron (teye p) B)) by (apply wf_tkron; auto using wf_teye).
    assert (WAB : wf (p + n) (tkron (teye p) (tmul A B))) by (apply wf_tkron; auto using wf_teye, wf_tmul).
    assert (T1 : teq (tmul (tkron (tzero p) A) (tkron (tzero p) B)) (tzero (p + n))).
    { rewrite (tmul_teq _ _ _ _ (Z A HA) (teq_refl _)). apply tmul_tzero_l. apply wf_tkron; auto using wf_tzero. }
    assert (T2 : teq (tmul (tkron (teye p) A) (tkron (tzero p) B)) (tzero (p + n))).
    { rewrite (tmul_teq _ _ _ _ (teq_refl _) (Z B HB)). apply tmul_tzero_r; auto. }
    assert (T3 : teq (tmul (tkron (tzero p) A) (tkron (teye p) B)) (tzero (p + n))).
    { rewrite (tmul_teq _ _ _ _ (Z A HA) (teq_refl _)). apply tmul_tzero_l; auto. }
    rewrite T1, T2, T3, (Z _ (wf_tmul n A B HA HB)).
    repeat split; first [apply tadd_zero_r; assumption | apply tadd_zero_l; auto using wf_tzero].
Qed.
Lemma kron_eye_eye p q : teq (tkron (teye p) (teye q)) (teye (p + q)).
Proof.
  induction p; simpl. apply tscale_1.
  repeat split; auto; apply tkron_tzero_l; apply wf_teye.
Qed.
Lemma ttrace_tzero n : ceq (ttrace (tzero n)) c0.
Proof. induction n; simpl. reflexivity. rewrite IHn. apply cadd_0_l. Qed.
Lemma ttrace_teye k : ceq (ttrace (teye k)) (cofq (qpow2 k)).
Proof. induction k; simpl. reflexivity. rewrite IHk. cring. Qed.
Lemma expand_then_reduce_kron n k A : wf n A ->
  teq (ptrace_mask (repeat false n ++ repeat true k) (tkron A (teye k))) (tscale (cofq (qpow2 k)) A).
Proof.
  intros H. rewrite (ptm_kron_keep_left n k A (teye k) H (wf_teye k)).
  apply tscale_teq. apply ttrace_teye. reflexivity.
Qed.

(* ================================================================== entries: build/get laws, re-indexing *)
Lemma tget_tbuild n : forall f r c, length r = n -> length c = n -> tget (tbuild n f) r c = f r c.
Proof.
  induction n; intros f r c Hr Hc.
  - destruct r, c; try discriminate. reflexivity.
  - destruct r as [|br r], c as [|bc c]; try discriminate. injection Hr as Hr. injection Hc as Hc.
    destruct br, bc; simpl; rewrite IHn; auto.
Qed.
Lemma tbuild_tget n : forall t, wf n t -> tbuild n (tget t) = t.
Proof.
  induction n; destruct t; simpl; try tauto; try reflexivity; intros H.
  destruct H as (A & B & C' & D).
  f_equal; [apply (IHn t1 A) | apply (IHn t2 B) | apply (IHn t3 C') | apply (IHn t4 D)].
Qed.
Lemma permute_dense_id t w : permute_dense t w w = t.
Proof.
  unfold permute_dense. assert (E : list_eqb w w = true).
  { induction w; simpl; auto. rewrite Nat.eqb_refl; auto. }
  rewrite E. reflexivity.
Qed.
Lemma permute_dense_entry t wires wo r c : length r = length wo -> length c = length wo ->
  list_eqb wires wo = false ->
  tget (permute_dense t wires wo) r c = tget t (gather wires wo r) (gather wires wo c).
Proof. intros Hr Hc E. unfold permute_dense. rewrite E. rewrite tget_tbuild; auto. Qed.
Lemma wf_permute_dense n t wires wo : wf n t -> length wo = n -> wf n (permute_dense t wires wo).
Proof. intros H L. unfold permute_dense. destruct (list_eqb wires wo); auto. subst n. apply wf_tbuild. Qed.

Lemma tget_tscale k : forall t r c, ceq (tget (tscale k t) r c) (cmul k (tget t r c)).
Proof.
  induction t; intros r c; simpl. reflexivity.
  destruct r as [|br r], c as [|bc c]; try (symmetry; apply cmul_0_r).
  destruct br, bc; auto.
Qed.
Lemma tget_tkron k : forall s t r1 c1 r2 c2, wf k s -> length r1 = k -> length c1 = k ->
  ceq (tget (tkron s t) (r1 ++ r2) (c1 ++ c2)) (cmul (tget s r1 c1) (tget t r2 c2)).
Proof.
  induction k; destruct s; simpl; try tauto; intros t r1 c1 r2 c2 H Hr Hc.
  - destruct r1, c1; try discriminate. simpl. apply tget_tscale.
  - destruct r1 as [|br r1], c1 as [|bc c1]; try discriminate. injection Hr as Hr. injection Hc as Hc.
    destruct H as (A & B & C' & D). destruct br, bc; simpl; apply IHk; auto.
Qed.
Lemma tget_tzero n : forall r c, tget (tzero n) r c = c0.
Proof. induction n; intros r c; simpl. reflexivity. destruct r as [|[] r], c as [|[] c]; auto. Qed.
Lemma tget_teye n : forall r c, length r = n -> length c = n ->
  tget (teye n) r c = if bits_eqb r c then c1 else c0.
Proof.
  induction n; intros r c Hr Hc.
  - destruct r, c; try discriminate. reflexivity.
  - destruct r as [|br r], c as [|bc c]; try discriminate. injection Hr as Hr. injection Hc as Hc.
    destruct br, bc; simpl; auto using tget_tzero.
Qed.

(* ================================================================== bridging list facts *)
Lemma list_eqb_refl w : list_eqb w w = true.
Proof. induction w; simpl; auto. rewrite Nat.eqb_refl; auto. Qed.
Lemma isort_strict : forall l, strictb l = true -> isort l = l.
Proof.
  induction l as [|x r]; intros H. reflexivity.
  destruct (strictb_cons _ _ H) as [Hs Hf]. simpl. rewrite (IHr Hs).
  destruct r as [|y r']. reflexivity. inversion Hf; subst. simpl.
  destruct (Nat.leb_spec x y); [reflexivity|lia].
Qed.
Lemma strictb_intro x : forall r, strictb r = true -> Forall (fun y => x < y) r -> strictb (x :: r) = true.
Proof.
  intros r Hs Hf. destruct r as [|y r']. reflexivity. inversion Hf; subst.
  change (Nat.ltb x y && strictb (y :: r') = true). rewrite Hs.
  destruct (Nat.ltb_spec x y); [reflexivity|lia].
Qed.
Lemma filter_seq_strict f : forall n a, strictb (filter f (seq a n)) = true /\ Forall (fun y => a <= y) (filter f (seq a n)).
Proof.
  induction n; intros a; simpl. split; [reflexivity|constructor].
  destruct (IHn (S a)) as [Hs Hf].
  assert (Hf' : Forall (fun y => a < y) (filter f (seq (S a) n))).
  { eapply Forall_impl; [|exact Hf]. simpl; intros; lia. }
  destruct (f a).
  - split. apply strictb_intro; auto. constructor. lia. eapply Forall_impl; [|exact Hf']. simpl; intros; lia.
  - split. exact Hs. eapply Forall_impl; [|exact Hf']. simpl; intros; lia.
Qed.
Lemma strictb_seq n a : strictb (seq a n) = true.
Proof.
  pose proof (filter_seq_strict (fun _ => true) n a) as [H _].
  assert (E : forall m b, filter (fun _ : nat => true) (seq b m) = seq b m).
  { induction m; intros; simpl; auto. rewrite IHm; reflexivity. }
  rewrite E in H. exact H.
Qed.
Lemma mem_In x : forall l, mem x l = true <-> In x l.
Proof.
  induction l; simpl. split; [discriminate|tauto].
  rewrite orb_true_iff, IHl, Nat.eqb_eq. intuition.
Qed.
Lemma mem_filter f x : forall l, mem x (filter f l) = f x && mem x l.
Proof.
  induction l; simpl. rewrite andb_false_r; reflexivity.
  destruct (f a) eqn:E; simpl; rewrite IHl.
  - destruct (Nat.eqb_spec x a); subst; simpl. rewrite E; reflexivity. reflexivity.
  - destruct (Nat.eqb_spec x a); subst; simpl. rewrite E; reflexivity. reflexivity.
Qed.
Lemma mem_seq i a n : a <= i < a + n -> mem i (seq a n) = true.
Proof. intros H. apply mem_In. apply in_seq. lia. Qed.

Lemma mask_of_traced n ix :
  mask_of n (filter (fun x => negb (mem x ix)) (seq 0 n)) = traced_mask n ix.
Proof.
  unfold mask_of, traced_mask. apply map_ext_in. intros i Hi. apply in_seq in Hi.
  rewrite mem_filter, mem_seq by lia. apply andb_true_r.
Qed.

(* reduce_dm with the kept indices given in increasing order is the mask contraction *)
Lemma reduce_dm_sorted n t ix : wf n t -> strictb ix = true -> length ix <> n ->
  teq (reduce_dm n t ix) (ptrace_mask (traced_mask n ix) t).
Proof.
  intros H Hs Hl. unfold reduce_dm. apply Nat.eqb_neq in Hl. rewrite Hl.
  rewrite (isort_strict ix Hs), permute_dense_id.
  set (traced := filter (fun x => negb (mem x ix)) (seq 0 n)).
  destruct (filter_seq_strict (fun x => negb (mem x ix)) n 0) as [Hst _].
  rewrite <- mask_of_traced. fold traced. apply partial_trace_mask; auto.
  - rewrite isort_strict; exact Hst.
  - unfold traced. apply Forall_forall. intros x Hx. apply filter_In in Hx. destruct Hx as [Hx _].
    apply in_seq in Hx. lia.
Qed.

Lemma map_const_false {A} (l : list A) : map (fun _ => false) l = repeat false (length l).
Proof. induction l; simpl; congruence. Qed.
Lemma traced_mask_full n : traced_mask n (seq 0 n) = repeat false n.
Proof.
  unfold traced_mask. rewrite (map_ext_in _ (fun _ => false)).
  - rewrite map_const_false, seq_length. reflexivity.
  - intros i Hi. apply in_seq in Hi. rewrite mem_seq by lia. reflexivity.
Qed.
Lemma rsv_all_false n : forall u v, vwf n u -> vwf n v -> rsv (repeat false n) u v = vouter u v.
Proof.
  induction n; destruct u, v; simpl; try tauto; intros [U0 U1] [V0 V1].
  rewrite !IHn; auto.
Qed.
Lemma dm_from_state_vector_outer n psi : vwf n psi ->
  dm_from_state_vector n psi = vouter psi (vconj psi).
Proof.
  intros H. unfold dm_from_state_vector, reduce_statevector.
  rewrite (isort_strict _ (strictb_seq n 0)), permute_dense_id, traced_mask_full.
  apply rsv_all_false; auto using vwf_vconj.
Qed.

(* traced_mask for a prefix / suffix of the wires *)
Lemma mem_seq_false i a n : i < a \/ a + n <= i -> mem i (seq a n) = false.
Proof.
  intros H. destruct (mem i (seq a n)) eqn:E; auto. apply mem_In in E. apply in_seq in E. lia.
Qed.
Lemma map_const_true {A} (l : list A) : map (fun _ => true) l = repeat true (length l).
Proof. induction l; simpl; congruence. Qed.
Lemma traced_mask_prefix k j : traced_mask (k + j) (seq 0 k) = repeat false k ++ repeat true j.
Proof.
  unfold traced_mask. rewrite seq_app, map_app. f_equal.
  - rewrite (map_ext_in _ (fun _ => false)). rewrite map_const_false, seq_length. reflexivity.
    intros i Hi. apply in_seq in Hi. rewrite mem_seq by lia. reflexivity.
  - rewrite (map_ext_in _ (fun _ => true)). rewrite map_const_true, seq_length. reflexivity.
    intros i Hi. apply in_seq in Hi. rewrite mem_seq_false by lia. reflexivity.
Qed.
Lemma traced_mask_suffix k j : traced_mask (k + j) (seq k j) = repeat true k ++ repeat false j.
Proof.
  unfold traced_mask. rewrite seq_app, map_app. f_equal.
  - rewrite (map_ext_in _ (fun _ => true)). rewrite map_const_true, seq_length. reflexivity.
    intros i Hi. apply in_seq in Hi. rewrite mem_seq_false by lia. reflexivity.
  - rewrite (map_ext_in _ (fun _ => false)). rewrite map_const_false, seq_length. reflexivity.
    intros i Hi. apply in_seq in Hi. rewrite mem_seq by lia. reflexivity.
Qed.

Lemma reduce_dm_product_left k j A B : wf k A -> wf j B -> 0 < j ->
  teq (reduce_dm (k + j) (tkron A B) (seq 0 k)) (tscale (ttrace B) A).
Proof.
  intros HA HB Hj.
  rewrite (reduce_dm_sorted (k + j)); auto using wf_tkron, strictb_seq.
  - rewrite traced_mask_prefix. apply ptm_kron_keep_left; auto.
  - rewrite seq_length. lia.
Qed.
Lemma reduce_dm_product_right k j A B : wf k A -> wf j B -> 0 < k ->
  teq (reduce_dm (k + j) (tkron A B) (seq k j)) (tscale (ttrace A) B).
Proof.
  intros HA HB Hk.
  rewrite (reduce_dm_sorted (k + j)); auto using wf_tkron, strictb_seq.
  - rewrite traced_mask_suffix. apply ptm_kron_keep_right; auto.
  - rewrite seq_length. lia.
Qed.
Lemma reduce_dm_sorted_trace n t ix : wf n t -> strictb ix = true -> length ix <> n ->
  ceq (ttrace (reduce_dm n t ix)) (ttrace t).
Proof.
  intros H Hs Hl. rewrite (reduce_dm_sorted n t ix H Hs Hl).
  apply (ttrace_ptm _ n); auto. unfold traced_mask. rewrite map_length, seq_length. reflexivity.
Qed.

(* ================================================================== expand_matrix on a contiguous, ordered block of wires *)
Lemma expand_matrix_contiguous_le3 : forall p k q t, p <= 3 -> 1 <= k <= 3 -> q <= 3 ->
  expand_matrix t (seq p k) (Some (seq 0 (p + k + q))) = expand_contiguous_spec p q t.
Proof.
  intros p k q t Hp Hk Hq.
  assert (P : p = 0 \/ p = 1 \/ p = 2 \/ p = 3) by lia.
  assert (K : k = 1 \/ k = 2 \/ k = 3) by lia.
  assert (Q' : q = 0 \/ q = 1 \/ q = 2 \/ q = 3) by lia.
  destruct P as [->|[->|[->| ->]]], K as [->|[->| ->]], Q' as [->|[->|[->| ->]]]; reflexivity.
Qed.

Lemma expand_contiguous_hom p q n A B : wf n A -> wf n B ->
  teq (expand_contiguous_spec p q (tmul A B))
      (tmul (expand_contiguous_spec p q A) (expand_contiguous_spec p q B)).
Proof.
  intros HA HB. unfold expand_contiguous_spec.
  destruct (Nat.ltb 0 p), (Nat.ltb 0 q).
  - rewrite (kron_eye_r_hom q (p + n)) by (apply wf_tkron; auto using wf_teye).
    rewrite (kron_eye_l_hom p n A B HA HB). reflexivity.
  - symmetry. apply (kron_eye_l_hom p n); auto.
  - symmetry. apply (kron_eye_r_hom q n); auto.
  - reflexivity.
Qed.
Lemma expand_contiguous_unit p q n :
  teq (expand_contiguous_spec p q (teye n)) (teye (if Nat.ltb 0 q then (if Nat.ltb 0 p then p + n else n) + q else if Nat.ltb 0 p then p + n else n)).
Proof.
  unfold expand_contiguous_spec. destruct (Nat.ltb 0 p), (Nat.ltb 0 q).
  - rewrite (kron_eye_eye p n). apply kron_eye_eye.
  - apply kron_eye_eye.
  - apply kron_eye_eye.
  - reflexivity.
Qed.

(* ================================================================== reduce_dm for arbitrary index order = explicit contraction *)
Lemma insert_length x : forall l, length (insert x l) = S (length l).
Proof. induction l; simpl. reflexivity. destruct (Nat.leb x a); simpl; auto. Qed.
Lemma isort_length : forall l, length (isort l) = length l.
Proof. induction l; simpl. reflexivity. rewrite insert_length; auto. Qed.
Lemma traced_mask_isort n ix : traced_mask n (isort ix) = traced_mask n ix.
Proof. unfold traced_mask. apply map_ext. intros. rewrite mem_isort. reflexivity. Qed.
Lemma traced_mask_length n ix : length (traced_mask n ix) = n.
Proof. unfold traced_mask. rewrite map_length, seq_length. reflexivity. Qed.

Lemma reduce_dm_unsorted n t ix : strictb (isort ix) = true -> length ix <> n ->
  reduce_dm n t ix = permute_dense (reduce_dm n t (isort ix)) (isort ix) ix.
Proof.
  intros Hs Hl. unfold reduce_dm. rewrite isort_length. apply Nat.eqb_neq in Hl. rewrite Hl.
  rewrite (isort_strict (isort ix) Hs), permute_dense_id.
  rewrite (filter_ext (fun x => negb (mem x (isort ix))) (fun x => negb (mem x ix))).
  reflexivity. intros x. rewrite mem_isort. reflexivity.
Qed.
Lemma reduce_dm_sorted_contraction n t ix r c : wf n t -> strictb ix = true -> length ix <> n ->
  length r = count_false (traced_mask n ix) -> length c = count_false (traced_mask n ix) ->
  ceq (tget (reduce_dm n t ix) r c) (contraction (traced_mask n ix) t r c).
Proof.
  intros H Hs Hl Hr Hc. rewrite (tget_proper _ _ r c (reduce_dm_sorted n t ix H Hs Hl)).
  apply (ptm_contraction _ n); auto using traced_mask_length.
Qed.
Lemma gather_length w wo r : length (gather w wo r) = length w.
Proof. unfold gather. apply map_length. Qed.
Lemma reduce_dm_unsorted_contraction n t ix r c : wf n t -> strictb (isort ix) = true ->
  length ix <> n -> list_eqb (isort ix) ix = false ->
  length ix = count_false (traced_mask n ix) -> length r = length ix -> length c = length ix ->
  ceq (tget (reduce_dm n t ix) r c)
      (contraction (traced_mask n ix) t (gather (isort ix) ix r) (gather (isort ix) ix c)).
Proof.
  intros H Hs Hl He Hk Hr Hc.
  rewrite (reduce_dm_unsorted n t ix Hs Hl), (permute_dense_entry _ _ _ r c Hr Hc He).
  rewrite <- (traced_mask_isort n ix).
  apply reduce_dm_sorted_contraction; auto.
  - rewrite isort_length; auto.
  - rewrite gather_length, isort_length, traced_mask_isort. exact Hk.
  - rewrite gather_length, isort_length, traced_mask_isort. exact Hk.
Qed.

Lemma ptm_order_independent n t m1 m2 m1' m2' : wf n t ->
  length m1 = n -> length m2 = count_false m1 -> length m1' = n -> length m2' = count_false m1' ->
  mask_merge m1 m2 = mask_merge m1' m2' ->
  teq (ptrace_mask m2 (ptrace_mask m1 t)) (ptrace_mask m2' (ptrace_mask m1' t)).
Proof.
  intros H L1 L2 L1' L2' E.
  rewrite (ptm_compose m1 n t m2 L1 L2 H), (ptm_compose m1' n t m2' L1' L2' H), E. reflexivity.
Qed.

Lemma expand_matrix_hom_contiguous_le3 p k q A B : p <= 3 -> 1 <= k <= 3 -> q <= 3 -> wf k A -> wf k B ->
  teq (expand_matrix (tmul A B) (seq p k) (Some (seq 0 (p + k + q))))
      (tmul (expand_matrix A (seq p k) (Some (seq 0 (p + k + q))))
            (expand_matrix B (seq p k) (Some (seq 0 (p + k + q))))).
Proof.
  intros Hp Hk Hq HA HB. rewrite !expand_matrix_contiguous_le3 by assumption.
  apply (expand_contiguous_hom p q k); auto.
Qed.
Lemma purity_of_dm_from_state_vector n psi : vwf n psi ->
  (compute_purity (dm_from_state_vector n psi) == vnorm2 psi * vnorm2 psi)%Q.
Proof. intros H. rewrite (dm_from_state_vector_outer n psi H). apply (purity_pure n); auto. Qed.
