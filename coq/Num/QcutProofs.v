(* C24  Lemmas about the circuit-cutting model (QcutModel.v). *)
From Coq Require Import List ZArith QArith Qcanon Bool Ring Field Lia Permutation.
From PLV Require Import Num.ShadowsModel Num.ShadowsProofs Num.QcutModel.
Import ListNotations.

(* ------------------------------------------------------------------ constants *)
Lemma two_neq0 : (1 + 1 <> 0)%Qc.
Proof. intro H. apply (f_equal this) in H. vm_compute in H. discriminate H. Qed.
Lemma qhalf_inv : qhalf = (/ (1 + 1))%Qc.
Proof. apply qeqb_eq. vm_compute. reflexivity. Qed.
Lemma chalf_double : forall x, cmul chalf (cadd x x) = x.
Proof.
  intros [a b]. unfold chalf, cq, cmul, cadd. cbn [fst snd]. rewrite qhalf_inv.
  f_equal; field; exact two_neq0.
Qed.
Lemma oscale_oscale : forall n a b X, oscale n a (oscale n b X) = oscale n (cmul a b) X.
Proof. intros; apply op_ext; intro; rewrite !entry_oscale; ring. Qed.

Lemma pair_ext : forall {A B} (a c : A) (b d : B), a = c -> b = d -> (a, b) = (c, d).
Proof. intros; subst; reflexivity. Qed.

(* ------------------------------------------------------------------ the single-qubit tables *)
Definition m2 (a b c d : C) : M2 := mkQ a b c d.
Lemma pauli_sum_twice : forall a b c d : C,
  osum 1 (map (fun p => oscale 1 (pairing 1 (m2 a b c d) (pmat p)) (pmat p)) paulis)
  = m2 (cadd a a) (cadd b b) (cadd c c) (cadd d d).
Proof.
  intros [a1 a2] [b1 b2] [c1' c2] [d1 d2].
  unfold osum, paulis, map, fold_right, pmat, pI, pX, pY, pZ, m2, ci, c1, cz.
  cbn [pairing oscale oadd ozero q00 q01 q10 q11].
  unfold cmul, cadd, copp, cz. cbn [fst snd].
  f_equal; apply pair_ext; ring.
Qed.
Lemma wirecut_id : forall a b c d : C,
  oscale 1 chalf (osum 1 (map (fun p => oscale 1 (pairing 1 (m2 a b c d) (pmat p)) (pmat p)) paulis))
  = m2 a b c d.
Proof.
  intros. rewrite pauli_sum_twice. unfold m2. cbn [oscale q00 q01 q10 q11].
  rewrite !chalf_double. reflexivity.
Qed.
Lemma pairing1_sym : forall x y : M2, pairing 1 x y = pairing 1 y x.
Proof. intros [a b c d] [e f g h]. cbn [pairing q00 q01 q10 q11]. ring. Qed.

Lemma prepare_resolution : forall p,
  pmat p = osum 1 (map (fun s => oscale 1 (cob p s) (pstate s)) preps).
Proof. intros [| | |]; apply (oeqb_eq 1); vm_compute; reflexivity. Qed.
Lemma prep_circuits : forall s, density (run_prep (prep_ops s)) = pstate s.
Proof. intros [| | |]; apply (oeqb_eq 1); vm_compute; reflexivity. Qed.
Lemma mc_circuits : forall s, density (run_prep (mc_ops s)) = mc_density s.
Proof. intros [| | | | |]; apply (oeqb_eq 1); vm_compute; reflexivity. Qed.
Lemma pstate_trace1_herm : forall s, otr 1 (pstate s) = c1 /\ oadj 1 (pstate s) = pstate s
                                     /\ omul 1 (pstate s) (pstate s) = pstate s.
Proof. intros [| | |]; repeat split; (apply (oeqb_eq 1) || apply ceqb_eq); vm_compute; reflexivity. Qed.

(* ------------------------------------------------------------------ linearity *)
Lemma pairing_add_r : forall n A X Y, pairing n A (oadd n X Y) = cadd (pairing n A X) (pairing n A Y).
Proof.
  induction n as [|m IH]; intros A X Y.
  - cbn [pairing oadd]; ring.
  - cbn [pairing oadd q00 q01 q10 q11]; rewrite !IH; ring.
Qed.
Lemma pairing_osum_r : forall n {T} (c : T -> C) (h : T -> Op n) A l,
  pairing n A (osum n (map (fun x => oscale n (c x) (h x)) l))
  = csum (map (fun x => cmul (c x) (pairing n A (h x))) l).
Proof.
  induction l as [|x l IH]; cbn [map osum fold_right csum].
  - apply pairing_zero_r.
  - rewrite pairing_add_r, pairing_scale_r. f_equal. exact IH.
Qed.

(* the upstream block structure: G M = tr[ X (OA (x) M) ] *)
Definition G (m : nat) (X : QT M2 m) (OA : QT C m) (M : M2) : C :=
  gpair (fun sigma c => cmul c (pairing 1 sigma M)) m X OA.
Lemma gpair_ext : forall {L1 L2} (f g : L1 -> L2 -> C), (forall x y, f x y = g x y) ->
  forall m X Y, gpair f m X Y = gpair g m X Y.
Proof.
  intros L1 L2 f g H; induction m as [|m IH]; intros X Y.
  - apply H.
  - cbn [gpair]. rewrite !IH. reflexivity.
Qed.
Lemma G_add : forall m X OA M1 M2', G m X OA (oadd 1 M1 M2') = cadd (G m X OA M1) (G m X OA M2').
Proof.
  unfold G; induction m as [|m IH]; intros X OA M1 M2'.
  - cbn [gpair]. rewrite pairing_add_r. ring.
  - cbn [gpair]. rewrite !IH. ring.
Qed.
Lemma G_scale : forall m X OA a M, G m X OA (oscale 1 a M) = cmul a (G m X OA M).
Proof.
  unfold G; induction m as [|m IH]; intros X OA a M.
  - cbn [gpair]. rewrite pairing_scale_r. ring.
  - cbn [gpair]. rewrite !IH. ring.
Qed.
Lemma G_zero : forall m X OA, G m X OA (ozero 1) = cz.
Proof.
  unfold G; induction m as [|m IH]; intros X OA.
  - cbn [gpair]. rewrite pairing_zero_r. ring.
  - cbn [gpair]. rewrite !IH. ring.
Qed.
Lemma G_osum : forall m X OA {T} (c : T -> C) (h : T -> M2) l,
  G m X OA (osum 1 (map (fun x => oscale 1 (c x) (h x)) l)) = csum (map (fun x => cmul (c x) (G m X OA (h x))) l).
Proof.
  induction l as [|x l IH]; cbn [map osum fold_right csum].
  - apply G_zero.
  - rewrite G_add, G_scale. f_equal. exact IH.
Qed.

(* the downstream fragment seen from the cut wire: an effective 2x2 observable *)
Definition Meff (k : nat) (tau : Op k) (W : Op (S k)) : M2 :=
  mkQ (pairing k tau (q00 W)) (pairing k tau (q01 W)) (pairing k tau (q10 W)) (pairing k tau (q11 W)).
Lemma down_prep_eff : forall k tau W sigma, down_prep k tau W sigma = pairing 1 sigma (Meff k tau W).
Proof.
  intros k tau W [a b c d]. unfold down_prep, kron2, Meff.
  cbn [pairing q00 q01 q10 q11]. rewrite !pairing_scale_l. reflexivity.
Qed.
Lemma uncut_is_G : forall m k X OA tau W, uncut m k X OA tau W = G m X OA (Meff k tau W).
Proof.
  intros. unfold uncut, G. apply gpair_ext. intros sigma c.
  rewrite pairing_scale_r. f_equal. apply down_prep_eff.
Qed.
Lemma up_meas_is_G : forall m X OA p, up_meas m X OA p = G m X OA (pmat p).
Proof. reflexivity. Qed.

Lemma pauli_coeff_from_preps : forall (M : M2) p,
  pairing 1 (pmat p) M = csum (map (fun s => cmul (cob p s) (pairing 1 (pstate s) M)) preps).
Proof.
  intros M p. rewrite (pairing1_sym (pmat p) M), (prepare_resolution p), pairing_osum_r.
  f_equal. apply map_ext; intro s. rewrite (pairing1_sym M). reflexivity.
Qed.

(* single cut, environments of any size *)
Theorem one_cut_formula : forall m k (X : QT M2 m) (OA : QT C m) (tau : Op k) (W : Op (S k)),
  uncut m k X OA tau W
  = cmul chalf (csum (map (fun p => cmul (csum (map (fun s => cmul (cob p s) (down_prep k tau W (pstate s))) preps))
                                         (up_meas m X OA p)) paulis)).
Proof.
  intros. rewrite uncut_is_G.
  destruct (Meff k tau W) as [a b c d] eqn:E.
  rewrite <- (wirecut_id a b c d) at 1. rewrite G_scale. f_equal.
  rewrite G_osum. f_equal. apply map_ext; intro p.
  rewrite <- up_meas_is_G. f_equal.
  rewrite (pairing1_sym (m2 a b c d) (pmat p)). unfold m2. rewrite <- E.
  rewrite pauli_coeff_from_preps. f_equal. apply map_ext; intro s. rewrite down_prep_eff. reflexivity.
Qed.

(* the executable contraction model on the two fragments of a single cut *)
Lemma contract_single_cut : forall (u : pl -> C) (d : prep -> C),
  contract 1 [frag_up u; frag_down d]
  = cmul chalf (csum (map (fun p => cmul (csum (map (fun s => cmul (cob p s) (d s)) preps)) (u p)) paulis)).
Proof.
  intros u d. unfold contract, contract_with, term, tens, raw, frag_up, frag_down, GF1, paulis, preps.
  cbn -[cmul cadd cob chalf]. unfold cob, COB. cbn -[cmul cadd chalf cq qz].
  ring.
Qed.
