(* C24  Lemmas about the circuit-cutting model (QcutModel.v). *)
From Coq Require Import List ZArith QArith Qcanon Bool Ring Field Lia Permutation.
From PLV Require Import Num.ShadowsModel Num.ShadowsProofs Num.QcutModel.
Import ListNotations.

(* ------------------------------------------------------------------ constants *)
Lemma two_neq0 : (1 + 1 <> 0)%Qc.
Proof. intro H. apply (f_equal this) in H. vm_compute in H. discriminate H. Qed.
Lemma qhalf_inv : qhalf = (/ (1 + 1))%Qc.
Proof. apply qeqb_eq. vm_compute. reflexivity. Qed.
Lemma chalf_double : forall x, cmul chalf (cadd x x) = x.
Proof.
  intros [a b]. unfold chalf, cq, cmul, cadd. cbn [fst snd]. rewrite qhalf_inv.
  f_equal; field; exact two_neq0.
Qed.
Lemma oscale_oscale : forall n a b X, oscale n a (oscale n b X) = oscale n (cmul a b) X.
Proof. intros; apply op_ext; intro; rewrite !entry_oscale; ring. Qed.

Lemma pair_ext : forall {A B} (a c : A) (b d : B), a = c -> b = d -> (a, b) = (c, d).
Proof. intros; subst; reflexivity. Qed.

(* ------------------------------------------------------------------ the single-qubit tables *)
Definition m2 (a b c d : C) : M2 := mkQ a b c d.
Lemma pauli_sum_twice : forall a b c d : C,
  osum 1 (map (fun p => oscale 1 (pairing 1 (m2 a b c d) (pmat p)) (pmat p)) paulis)
  = m2 (cadd a a) (cadd b b) (cadd c c) (cadd d d).
Proof.
  intros [a1 a2] [b1 b2] [c1' c2] [d1 d2].
  unfold osum, paulis, map, fold_right, pmat, pI, pX, pY, pZ, m2, ci, c1, cz.
  cbn [pairing oscale oadd ozero q00 q01 q10 q11].
  unfold cmul, cadd, copp, cz. cbn [fst snd].
  f_equal; apply pair_ext; ring.
Qed.
Lemma wirecut_id : forall a b c d : C,
  oscale 1 chalf (osum 1 (map (fun p => oscale 1 (pairing 1 (m2 a b c d) (pmat p)) (pmat p)) paulis))
  = m2 a b c d.
Proof.
  intros. rewrite pauli_sum_twice. unfold m2. cbn [oscale q00 q01 q10 q11].
  rewrite !chalf_double. reflexivity.
Qed.
Lemma pairing1_sym : forall x y : M2, pairing 1 x y = pairing 1 y x.
Proof. intros [a b c d] [e f g h]. cbn [pairing q00 q01 q10 q11]. ring. Qed.

Lemma prepare_resolution : forall p,
  pmat p = osum 1 (map (fun s => oscale 1 (cob p s) (pstate s)) preps).
Proof. intros [| | |]; apply (oeqb_eq 1); vm_compute; reflexivity. Qed.
Lemma prep_circuits : forall s, density (run_prep (prep_ops s)) = pstate s.
Proof. intros [| | |]; apply (oeqb_eq 1); vm_compute; reflexivity. Qed.
Lemma mc_circuits : forall s, density (run_prep (mc_ops s)) = mc_density s.
Proof. intros [| | | | |]; apply (oeqb_eq 1); vm_compute; reflexivity. Qed.
Lemma pstate_trace1_herm : forall s, otr 1 (pstate s) = c1 /\ oadj 1 (pstate s) = pstate s
                                     /\ omul 1 (pstate s) (pstate s) = pstate s.
Proof. intros [| | |]; repeat split; (apply (oeqb_eq 1) || apply ceqb_eq); vm_compute; reflexivity. Qed.

(* ------------------------------------------------------------------ linearity *)
Lemma pairing_add_r : forall n A X Y, pairing n A (oadd n X Y) = cadd (pairing n A X) (pairing n A Y).
Proof.
  induction n as [|m IH]; intros A X Y.
  - cbn [pairing oadd]; ring.
  - cbn [pairing oadd q00 q01 q10 q11]; rewrite !IH; ring.
Qed.
Lemma pairing_osum_r : forall n {T} (c : T -> C) (h : T -> Op n) A l,
  pairing n A (osum n (map (fun x => oscale n (c x) (h x)) l))
  = csum (map (fun x => cmul (c x) (pairing n A (h x))) l).
Proof.
  induction l as [|x l IH]; cbn [map osum fold_right csum].
  - apply pairing_zero_r.
  - rewrite pairing_add_r, pairing_scale_r. f_equal. exact IH.
Qed.

(* the upstream block structure: G M = tr[ X (OA (x) M) ] *)
Definition G (m : nat) (X : QT M2 m) (OA : QT C m) (M : M2) : C :=
  gpair (fun sigma c => cmul c (pairing 1 sigma M)) m X OA.
Lemma gpair_ext : forall {L1 L2} (f g : L1 -> L2 -> C), (forall x y, f x y = g x y) ->
  forall m X Y, gpair f m X Y = gpair g m X Y.
Proof.
  intros L1 L2 f g H; induction m as [|m IH]; intros X Y.
  - apply H.
  - cbn [gpair]. rewrite !IH. reflexivity.
Qed.
Lemma G_add : forall m X OA M1 M2', G m X OA (oadd 1 M1 M2') = cadd (G m X OA M1) (G m X OA M2').
Proof.
  unfold G; induction m as [|m IH]; intros X OA M1 M2'.
  - cbn [gpair]. rewrite pairing_add_r. ring.
  - cbn [gpair]. rewrite !IH. ring.
Qed.
Lemma G_scale : forall m X OA a M, G m X OA (oscale 1 a M) = cmul a (G m X OA M).
Proof.
  unfold G; induction m as [|m IH]; intros X OA a M.
  - cbn [gpair]. rewrite pairing_scale_r. ring.
  - cbn [gpair]. rewrite !IH. ring.
Qed.
Lemma G_zero : forall m X OA, G m X OA (ozero 1) = cz.
Proof.
  unfold G; induction m as [|m IH]; intros X OA.
  - cbn [gpair]. rewrite pairing_zero_r. ring.
  - cbn [gpair]. rewrite !IH. ring.
Qed.
Lemma G_osum : forall m X OA {T} (c : T -> C) (h : T -> M2) l,
  G m X OA (osum 1 (map (fun x => oscale 1 (c x) (h x)) l)) = csum (map (fun x => cmul (c x) (G m X OA (h x))) l).
Proof.
  induction l as [|x l IH]; cbn [map osum fold_right csum].
  - apply G_zero.
  - rewrite G_add, G_scale. f_equal. exact IH.
Qed.

(* the downstream fragment seen from the cut wire: an effective 2x2 observable *)
Definition Meff (k : nat) (tau : Op k) (W : Op (S k)) : M2 :=
  mkQ (pairing k tau (q00 W)) (pairing k tau (q01 W)) (pairing k tau (q10 W)) (pairing k tau (q11 W)).
Lemma down_prep_eff : forall k tau W sigma, down_prep k tau W sigma = pairing 1 sigma (Meff k tau W).
Proof.
  intros k tau W [a b c d]. unfold down_prep, kron2, Meff.
  cbn [pairing q00 q01 q10 q11]. rewrite !pairing_scale_l. reflexivity.
Qed.
Lemma uncut_is_G : forall m k X OA tau W, uncut m k X OA tau W = G m X OA (Meff k tau W).
Proof.
  intros. unfold uncut, G. apply gpair_ext. intros sigma c.
  rewrite pairing_scale_r. f_equal. apply down_prep_eff.
Qed.
Lemma up_meas_is_G : forall m X OA p, up_meas m X OA p = G m X OA (pmat p).
Proof. reflexivity. Qed.

Lemma pauli_coeff_from_preps : forall (M : M2) p,
  pairing 1 (pmat p) M = csum (map (fun s => cmul (cob p s) (pairing 1 (pstate s) M)) preps).
Proof.
  intros M p. rewrite (pairing1_sym (pmat p) M), (prepare_resolution p), pairing_osum_r.
  f_equal. apply map_ext; intro s. rewrite (pairing1_sym M). reflexivity.
Qed.

(* single cut, environments of any size *)
Theorem one_cut_formula : forall m k (X : QT M2 m) (OA : QT C m) (tau : Op k) (W : Op (S k)),
  uncut m k X OA tau W
  = cmul chalf (csum (map (fun p => cmul (csum (map (fun s => cmul (cob p s) (down_prep k tau W (pstate s))) preps))
                                         (up_meas m X OA p)) paulis)).
Proof.
  intros. rewrite uncut_is_G.
  destruct (Meff k tau W) as [a b c d] eqn:E.
  rewrite <- (wirecut_id a b c d) at 1. rewrite G_scale. f_equal.
  rewrite G_osum. f_equal. apply map_ext; intro p.
  rewrite <- up_meas_is_G. f_equal.
  rewrite (pairing1_sym (m2 a b c d) (pmat p)). unfold m2. rewrite <- E.
  rewrite pauli_coeff_from_preps. f_equal. apply map_ext; intro s. rewrite down_prep_eff. reflexivity.
Qed.

(* the executable contraction model on the two fragments of a single cut *)
Lemma contract_single_cut : forall (u : pl -> C) (d : prep -> C),
  contract 1 [frag_up u; frag_down d]
  = cmul chalf (csum (map (fun p => cmul (csum (map (fun s => cmul (cob p s) (d s)) preps)) (u p)) paulis)).
Proof.
  intros u d. unfold contract, contract_with, term, tens, raw, frag_up, frag_down, GF1, paulis, preps.
  cbn -[cmul cadd cob chalf]. unfold cob, COB. cbn -[cmul cadd chalf cq qz].
  ring.
Qed.

Theorem one_cut_model : forall m k (X : QT M2 m) (OA : QT C m) (tau : Op k) (W : Op (S k)),
  contract 1 [frag_up (up_meas m X OA); frag_down (fun s => down_prep k tau W (pstate s))]
  = uncut m k X OA tau W.
Proof. intros. rewrite contract_single_cut, one_cut_formula. reflexivity. Qed.

(* ------------------------------------------------------------------ order independence of the contraction *)
Lemma csum_perm : forall l l' : list C, Permutation l l' -> csum l = csum l'.
Proof.
  induction 1; cbn [csum fold_right]; try reflexivity.
  - unfold csum in IHPermutation. rewrite IHPermutation. reflexivity.
  - ring.
  - etransitivity; eassumption.
Qed.
Lemma cprod_perm : forall l l' : list C, Permutation l l' -> cprod l = cprod l'.
Proof.
  induction 1; cbn [cprod fold_right]; try reflexivity.
  - unfold cprod in IHPermutation. rewrite IHPermutation. reflexivity.
  - ring.
  - etransitivity; eassumption.
Qed.
Theorem contract_order_indep : forall k frs frs' asg',
  Permutation frs frs' -> Permutation (tuples paulis k) asg' ->
  contract_with k asg' frs' = contract k frs.
Proof.
  intros k frs frs' asg' Hf Ha. unfold contract, contract_with. f_equal.
  symmetry. transitivity (csum (map (term frs) asg')).
  - apply csum_perm. apply Permutation_map. exact Ha.
  - f_equal. apply map_ext; intro a. unfold term. apply cprod_perm. apply Permutation_map. exact Hf.
Qed.

(* ------------------------------------------------------------------ k parallel cuts between two fragments *)
Lemma pairing_kron_l : forall m A X M,
  pairing (S m) (kron2 m A X) M =
  cadd (cadd (cmul (q00 A) (pairing m X (q00 M))) (cmul (q01 A) (pairing m X (q10 M))))
       (cadd (cmul (q10 A) (pairing m X (q01 M))) (cmul (q11 A) (pairing m X (q11 M)))).
Proof. intros; unfold kron2; cbn [pairing q00 q01 q10 q11]; rewrite !pairing_scale_l; reflexivity. Qed.

Definition J (m : nat) (w : list pl) (N : Op m) : C :=
  csum (map (fun ss => cmul (cobprod w ss) (pairing m (pprep m ss) N)) (tuples preps m)).
Definition R (m : nat) (rho M : Op m) : C :=
  csum (map (fun w => cmul (pairing m rho (pword m w)) (J m w M)) (tuples paulis m)).
Lemma reconstruct_R : forall n rho M, reconstruct n rho M = cmul (halfpow n) (R n rho M).
Proof. reflexivity. Qed.

Lemma csum_lin4_c : forall {T} (L : list T) c0 a b c d (E f g p q : T -> C),
  csum (map (fun r => cmul (cmul c0 (E r))
                           (cadd (cadd (cmul a (f r)) (cmul b (g r))) (cadd (cmul c (p r)) (cmul d (q r))))) L)
  = cmul c0 (cadd (cadd (cmul a (csum (map (fun r => cmul (E r) (f r)) L)))
                        (cmul b (csum (map (fun r => cmul (E r) (g r)) L))))
                  (cadd (cmul c (csum (map (fun r => cmul (E r) (p r)) L)))
                        (cmul d (csum (map (fun r => cmul (E r) (q r)) L))))).
Proof.
  intros; induction L as [|r L IH]; cbn [map csum fold_right].
  - ring.
  - unfold csum in IH; rewrite IH; ring.
Qed.
Lemma res_entry : forall p kl,
  csum (map (fun s => cmul (cob p s) (blk kl (pstate s))) preps) = blk kl (pmat p).
Proof. intros [| | |] [[|] [|]]; apply ceqb_eq; vm_compute; reflexivity. Qed.

Lemma J_S : forall m p w (M : Op (S m)),
  J (S m) (p :: w) M =
  cadd (cadd (cmul (q00 (pmat p)) (J m w (q00 M))) (cmul (q01 (pmat p)) (J m w (q10 M))))
       (cadd (cmul (q10 (pmat p)) (J m w (q01 M))) (cmul (q11 (pmat p)) (J m w (q11 M)))).
Proof.
  intros. unfold J at 1. cbn [tuples]. rewrite csum_flat_map.
  transitivity (csum (map (fun s =>
      cadd (cadd (cmul (cmul (cob p s) (q00 (pstate s))) (J m w (q00 M)))
                 (cmul (cmul (cob p s) (q01 (pstate s))) (J m w (q10 M))))
           (cadd (cmul (cmul (cob p s) (q10 (pstate s))) (J m w (q01 M)))
                 (cmul (cmul (cob p s) (q11 (pstate s))) (J m w (q11 M))))) preps)).
  - f_equal. apply map_ext; intro s.
    transitivity (csum (map (fun ss => cmul (cmul (cob p s) (cobprod w ss))
        (cadd (cadd (cmul (q00 (pstate s)) (pairing m (pprep m ss) (q00 M)))
                    (cmul (q01 (pstate s)) (pairing m (pprep m ss) (q10 M))))
              (cadd (cmul (q10 (pstate s)) (pairing m (pprep m ss) (q01 M)))
                    (cmul (q11 (pstate s)) (pairing m (pprep m ss) (q11 M)))))) (tuples preps m))).
    + f_equal. apply map_ext; intro ss. cbn [cobprod pprep]. rewrite pairing_kron_l. reflexivity.
    + rewrite csum_lin4_c. unfold J. ring.
  - rewrite csum_lin4_outer.
    pose proof (res_entry p (false, false)) as H00. pose proof (res_entry p (false, true)) as H01.
    pose proof (res_entry p (true, false)) as H10. pose proof (res_entry p (true, true)) as H11.
    cbn [blk] in H00, H01, H10, H11. rewrite H00, H01, H10, H11. reflexivity.
Qed.

Lemma bilin4_inner : forall {T} (L : list T) a1 a2 a3 a4 b1 b2 b3 b4 (A1 A2 A3 A4 B1 B2 B3 B4 : T -> C),
  csum (map (fun w => cmul (cadd (cadd (cmul a1 (A1 w)) (cmul a2 (A2 w))) (cadd (cmul a3 (A3 w)) (cmul a4 (A4 w))))
                           (cadd (cadd (cmul b1 (B1 w)) (cmul b2 (B2 w))) (cadd (cmul b3 (B3 w)) (cmul b4 (B4 w))))) L)
  = (cadd (cadd (cadd (cadd (cmul (cmul a1 b1) (csum (map (fun w => cmul (A1 w) (B1 w)) L))) (cmul (cmul a1 b2) (csum (map (fun w => cmul (A1 w) (B2 w)) L)))) (cadd (cmul (cmul a1 b3) (csum (map (fun w => cmul (A1 w) (B3 w)) L))) (cmul (cmul a1 b4) (csum (map (fun w => cmul (A1 w) (B4 w)) L))))) (cadd (cadd (cmul (cmul a2 b1) (csum (map (fun w => cmul (A2 w) (B1 w)) L))) (cmul (cmul a2 b2) (csum (map (fun w => cmul (A2 w) (B2 w)) L)))) (cadd (cmul (cmul a2 b3) (csum (map (fun w => cmul (A2 w) (B3 w)) L))) (cmul (cmul a2 b4) (csum (map (fun w => cmul (A2 w) (B4 w)) L)))))) (cadd (cadd (cadd (cmul (cmul a3 b1) (csum (map (fun w => cmul (A3 w) (B1 w)) L))) (cmul (cmul a3 b2) (csum (map (fun w => cmul (A3 w) (B2 w)) L)))) (cadd (cmul (cmul a3 b3) (csum (map (fun w => cmul (A3 w) (B3 w)) L))) (cmul (cmul a3 b4) (csum (map (fun w => cmul (A3 w) (B4 w)) L))))) (cadd (cadd (cmul (cmul a4 b1) (csum (map (fun w => cmul (A4 w) (B1 w)) L))) (cmul (cmul a4 b2) (csum (map (fun w => cmul (A4 w) (B2 w)) L)))) (cadd (cmul (cmul a4 b3) (csum (map (fun w => cmul (A4 w) (B3 w)) L))) (cmul (cmul a4 b4) (csum (map (fun w => cmul (A4 w) (B4 w)) L))))))).
Proof.
  intros; induction L as [|r L IH]; cbn [map csum fold_right].
  - ring.
  - unfold csum in IH; rewrite IH; ring.
Qed.

Lemma R_S_p : forall m p (rho M : Op (S m)),
  csum (map (fun w => cmul (pairing (S m) rho (pword (S m) (p :: w))) (J (S m) (p :: w) M)) (tuples paulis m))
  = (cadd (cadd (cadd (cadd (cmul (cmul (q00 (pmat p)) (q00 (pmat p))) (R m (q00 rho) (q00 M))) (cmul (cmul (q00 (pmat p)) (q01 (pmat p))) (R m (q00 rho) (q10 M)))) (cadd (cmul (cmul (q00 (pmat p)) (q10 (pmat p))) (R m (q00 rho) (q01 M))) (cmul (cmul (q00 (pmat p)) (q11 (pmat p))) (R m (q00 rho) (q11 M))))) (cadd (cadd (cmul (cmul (q10 (pmat p)) (q00 (pmat p))) (R m (q01 rho) (q00 M))) (cmul (cmul (q10 (pmat p)) (q01 (pmat p))) (R m (q01 rho) (q10 M)))) (cadd (cmul (cmul (q10 (pmat p)) (q10 (pmat p))) (R m (q01 rho) (q01 M))) (cmul (cmul (q10 (pmat p)) (q11 (pmat p))) (R m (q01 rho) (q11 M)))))) (cadd (cadd (cadd (cmul (cmul (q01 (pmat p)) (q00 (pmat p))) (R m (q10 rho) (q00 M))) (cmul (cmul (q01 (pmat p)) (q01 (pmat p))) (R m (q10 rho) (q10 M)))) (cadd (cmul (cmul (q01 (pmat p)) (q10 (pmat p))) (R m (q10 rho) (q01 M))) (cmul (cmul (q01 (pmat p)) (q11 (pmat p))) (R m (q10 rho) (q11 M))))) (cadd (cadd (cmul (cmul (q11 (pmat p)) (q00 (pmat p))) (R m (q11 rho) (q00 M))) (cmul (cmul (q11 (pmat p)) (q01 (pmat p))) (R m (q11 rho) (q10 M)))) (cadd (cmul (cmul (q11 (pmat p)) (q10 (pmat p))) (R m (q11 rho) (q01 M))) (cmul (cmul (q11 (pmat p)) (q11 (pmat p))) (R m (q11 rho) (q11 M))))))).
Proof.
  intros. unfold R. rewrite <- bilin4_inner. f_equal. apply map_ext; intro w.
  cbn [pword]. rewrite pairing_kron_r, J_S. reflexivity.
Qed.

Lemma R_S : forall m (rho M : Op (S m)),
  R (S m) rho M =
  cadd (cadd (cadd (R m (q00 rho) (q00 M)) (R m (q00 rho) (q00 M))) (cadd (R m (q01 rho) (q10 M)) (R m (q01 rho) (q10 M))))
       (cadd (cadd (R m (q10 rho) (q01 M)) (R m (q10 rho) (q01 M))) (cadd (R m (q11 rho) (q11 M)) (R m (q11 rho) (q11 M)))).
Proof.
  intros. unfold R at 1. cbn [tuples]. rewrite csum_flat_map.
  transitivity (csum (map (fun p => (cadd (cadd (cadd (cadd (cmul (cmul (q00 (pmat p)) (q00 (pmat p))) (R m (q00 rho) (q00 M))) (cmul (cmul (q00 (pmat p)) (q01 (pmat p))) (R m (q00 rho) (q10 M)))) (cadd (cmul (cmul (q00 (pmat p)) (q10 (pmat p))) (R m (q00 rho) (q01 M))) (cmul (cmul (q00 (pmat p)) (q11 (pmat p))) (R m (q00 rho) (q11 M))))) (cadd (cadd (cmul (cmul (q10 (pmat p)) (q00 (pmat p))) (R m (q01 rho) (q00 M))) (cmul (cmul (q10 (pmat p)) (q01 (pmat p))) (R m (q01 rho) (q10 M)))) (cadd (cmul (cmul (q10 (pmat p)) (q10 (pmat p))) (R m (q01 rho) (q01 M))) (cmul (cmul (q10 (pmat p)) (q11 (pmat p))) (R m (q01 rho) (q11 M)))))) (cadd (cadd (cadd (cmul (cmul (q01 (pmat p)) (q00 (pmat p))) (R m (q10 rho) (q00 M))) (cmul (cmul (q01 (pmat p)) (q01 (pmat p))) (R m (q10 rho) (q10 M)))) (cadd (cmul (cmul (q01 (pmat p)) (q10 (pmat p))) (R m (q10 rho) (q01 M))) (cmul (cmul (q01 (pmat p)) (q11 (pmat p))) (R m (q10 rho) (q11 M))))) (cadd (cadd (cmul (cmul (q11 (pmat p)) (q00 (pmat p))) (R m (q11 rho) (q00 M))) (cmul (cmul (q11 (pmat p)) (q01 (pmat p))) (R m (q11 rho) (q10 M)))) (cadd (cmul (cmul (q11 (pmat p)) (q10 (pmat p))) (R m (q11 rho) (q01 M))) (cmul (cmul (q11 (pmat p)) (q11 (pmat p))) (R m (q11 rho) (q11 M)))))))) paulis)).
  - f_equal. apply map_ext; intro p. apply R_S_p.
  - unfold paulis. cbn [map csum fold_right]. unfold pmat, pI, pX, pY, pZ. cbn [q00 q01 q10 q11].
    generalize (R m (q00 rho) (q00 M)) (R m (q00 rho) (q10 M)) (R m (q00 rho) (q01 M)) (R m (q00 rho) (q11 M)) (R m (q01 rho) (q00 M)) (R m (q01 rho) (q10 M)) (R m (q01 rho) (q01 M)) (R m (q01 rho) (q11 M)) (R m (q10 rho) (q00 M)) (R m (q10 rho) (q10 M)) (R m (q10 rho) (q01 M)) (R m (q10 rho) (q11 M)) (R m (q11 rho) (q00 M)) (R m (q11 rho) (q10 M)) (R m (q11 rho) (q01 M)) (R m (q11 rho) (q11 M)).
    intros [x1 y1] [x2 y2] [x3 y3] [x4 y4] [x5 y5] [x6 y6] [x7 y7] [x8 y8] [x9 y9] [x10 y10] [x11 y11] [x12 y12] [x13 y13] [x14 y14] [x15 y15] [x16 y16].
    unfold cmul, cadd, copp, ci, c1, cz. cbn [fst snd]. apply pair_ext; ring.
Qed.

Lemma halfpow_S_double : forall n x, cmul (halfpow (S n)) (cadd x x) = cmul (halfpow n) x.
Proof. intros. cbn [halfpow]. rewrite <- (chalf_double x) at 3. ring. Qed.

Theorem reconstruct_pairing : forall n (rho M : Op n), reconstruct n rho M = pairing n rho M.
Proof.
  induction n as [|m IH]; intros rho M.
  - unfold reconstruct. cbn [halfpow tuples map csum fold_right pword pprep cobprod pairing]. ring.
  - rewrite reconstruct_R, R_S.
    assert (E : forall a b c d : C,
              cadd (cadd (cadd a a) (cadd b b)) (cadd (cadd c c) (cadd d d))
              = cadd (cadd (cadd a b) (cadd c d)) (cadd (cadd a b) (cadd c d))) by (intros; ring).
    rewrite E, halfpow_S_double.
    cbn [pairing]. rewrite <- !IH, !reconstruct_R. ring.
Qed.

(* ------------------------------------------------------------------ cut_circuit_mc: the eight settings *)
Lemma mc_group : forall t : pl -> C,
  osum 1 (map (fun x : pl * mcstate * C => oscale 1 (cmul (snd x) (t (fst (fst x)))) (mc_density (snd (fst x)))) mc_settings)
  = oscale 1 chalf (osum 1 (map (fun p => oscale 1 (t p) (pmat p)) paulis)).
Proof.
  intro t. unfold mc_settings, MC_MEAS, MC_STATES, MC_EVALS, paulis.
  cbn [combine map osum fold_right fst snd].
  generalize (t PI) (t PX) (t PY) (t PZ). intros [a1 a2] [b1 b2] [c1' c2] [d1 d2].
  unfold mc_density, pstate, pmat, pI, pX, pY, pZ, chalf, cq, ci, c1, cz.
  cbn [oscale oadd ozero q00 q01 q10 q11].
  unfold cmul, cadd, copp, cz. cbn [fst snd]. rewrite qhalf_inv.
  f_equal; apply pair_ext; field; exact two_neq0.
Qed.
Theorem mc_identity : forall a b c d : C,
  osum 1 (map (fun x : pl * mcstate * C =>
                 oscale 1 (cmul (snd x) (pairing 1 (m2 a b c d) (pmat (fst (fst x))))) (mc_density (snd (fst x))))
              mc_settings)
  = m2 a b c d.
Proof. intros. rewrite (mc_group (fun p => pairing 1 (m2 a b c d) (pmat p))). apply wirecut_id. Qed.

Lemma wirecut_prepare_form : forall a b c d : C,
  oscale 1 chalf
    (osum 1 (map (fun p => oscale 1 (pairing 1 (m2 a b c d) (pmat p))
                                  (osum 1 (map (fun s => oscale 1 (cob p s) (pstate s)) preps))) paulis))
  = m2 a b c d.
Proof.
  intros.
  transitivity (oscale 1 chalf (osum 1 (map (fun p => oscale 1 (pairing 1 (m2 a b c d) (pmat p)) (pmat p)) paulis)));
    [|apply wirecut_id].
  apply (f_equal (oscale 1 chalf)). apply (f_equal (osum 1)). apply map_ext; intro p.
  rewrite <- prepare_resolution. reflexivity.
Qed.

Lemma k_cuts_trace : forall k (rho M : Op k), reconstruct k rho M = otr k (omul k rho M).
Proof. intros. rewrite otr_omul. apply reconstruct_pairing. Qed.
Lemma prepare_settings_ok : forall s,
  density (run_prep (prep_ops s)) = pstate s
  /\ otr 1 (pstate s) = c1 /\ oadj 1 (pstate s) = pstate s /\ omul 1 (pstate s) (pstate s) = pstate s.
Proof. intro s; split; [apply prep_circuits | apply pstate_trace1_herm]. Qed.
