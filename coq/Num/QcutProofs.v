From PLV Require Import Num.ShadowsModel Num.ShadowsProofs Num.QcutModel.
