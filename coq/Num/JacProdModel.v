(* Model of pennylane/gradients/vjp.py and jvp.py :
     compute_vjp_single / compute_vjp_multi / vjp / batch_vjp
     compute_jvp_single / compute_jvp_multi / jvp / batch_jvp
   Python values are modelled dynamically (val): None, numpy arrays of rank 0/1/2 (tens), tuples.
   Numbers are integers (the harness uses dyadic floats k/4 and scales them, the contraction is
   bilinear so the scaled integers are exact images of the float results).
   No proofs here: this file must keep running for the correspondence check. *)
From Coq Require Import List ZArith Bool Arith.
Import ListNotations.
Open Scope Z_scope.

Inductive tens := T0 (x : Z) | T1 (l : list Z) | T2 (l : list (list Z)).
Inductive val := VNone | VT (t : tens) | VTup (l : list val).
Inductive res := Ok (v : val) | Err.          (* Err = a Python exception escaped *)

(* ---------------- small numeric helpers ---------------- *)
Fixpoint dot (a b : list Z) : Z :=
  match a, b with x :: a', y :: b' => x * y + dot a' b' | _, _ => 0 end.
Fixpoint vadd (a b : list Z) : list Z :=
  match a, b with x :: a', y :: b' => (x + y) :: vadd a' b' | _, _ => [] end.
Definition vscale (c : Z) (l : list Z) : list Z := map (Z.mul c) l.
Fixpoint madd (a b : list (list Z)) : list (list Z) :=
  match a, b with x :: a', y :: b' => vadd x y :: madd a' b' | _, _ => [] end.

Fixpoint eqb_ln (a b : list nat) : bool :=
  match a, b with [] , [] => true | x :: a', y :: b' => Nat.eqb x y && eqb_ln a' b' | _, _ => false end.

Definition tshape (t : tens) : list nat :=
  match t with T0 _ => [] | T1 l => [length l] | T2 r => [length r; length (hd [] r)] end.
Definition flatten_t (t : tens) : list Z :=
  match t with T0 x => [x] | T1 l => l | T2 r => concat r end.
Definition is_shape0 (t : tens) : bool := match t with T1 [] => true | _ => false end.   (* jac.shape == (0,) *)
Definition tscale (c : Z) (t : tens) : tens :=
  match t with T0 x => T0 (c * x) | T1 l => T1 (vscale c l) | T2 r => T2 (map (vscale c) r) end.
(* elementwise sum of two arrays of the SAME shape (np.stack demands equal shapes) *)
Definition tadd (a b : tens) : option tens :=
  if eqb_ln (tshape a) (tshape b) then
    match a, b with
    | T0 x, T0 y => Some (T0 (x + y))
    | T1 x, T1 y => Some (T1 (vadd x y))
    | T2 x, T2 y => Some (T2 (madd x y))
    | _, _ => None
    end
  else None.
(* math.sum(math.stack(l), axis=0) *)
Fixpoint sum_stack (l : list tens) : option tens :=
  match l with
  | [] => None                                  (* np.stack([]) raises *)
  | t :: r => match r with
              | [] => Some t
              | _ => match sum_stack r with Some s => tadd t s | None => None end
              end
  end.
(* math.squeeze *)
Definition squeeze (t : tens) : tens :=
  match t with
  | T1 [x] => T0 x
  | T2 [[x]] => T0 x
  | T2 [l] => T1 l
  | _ => t
  end.

Fixpoint all_some {A} (l : list (option A)) : option (list A) :=
  match l with
  | [] => Some []
  | None :: _ => None
  | Some x :: r => match all_some r with Some r' => Some (x :: r') | None => None end
  end.

Definition as_t (v : val) : option tens := match v with VT t => Some t | _ => None end.
Definition as_T0 (v : val) : option Z := match v with VT (T0 x) => Some x | _ => None end.
Definition as_T1 (v : val) : option (list Z) := match v with VT (T1 l) => Some l | _ => None end.
Definition is_tup (v : val) : bool := match v with VTup _ => true | _ => false end.

(* math.stack(jac) for a tuple of arrays, returned flattened (row-major): needs equal shapes *)
Definition stack_flat (js : list val) : option (list Z) :=
  match all_some (map as_t js) with
  | None => None
  | Some [] => None
  | Some (t :: r) =>
      if forallb (fun u => eqb_ln (tshape u) (tshape t)) r
      then Some (concat (map flatten_t (t :: r))) else None
  end.
(* math.stack of a list of arrays as an array (rank <= 2 only) *)
Definition stack_row (l : list tens) : option tens :=
  match l with
  | [] => None
  | T0 _ :: _ => option_map T1 (all_some (map (fun t => match t with T0 x => Some x | _ => None end) l))
  | T1 a :: _ =>
      match all_some (map (fun t => match t with T1 x => Some x | _ => None end) l) with
      | Some rows => if forallb (fun r => Nat.eqb (length r) (length a)) rows then Some (T2 rows) else None
      | None => None
      end
  | T2 _ :: _ => None
  end.

(* reshape(flat, (-1, n)) ; fuel = length of the list *)
Fixpoint chunks_aux (fuel n : nat) (l : list Z) : option (list (list Z)) :=
  match l with
  | [] => Some []
  | _ => match fuel with
         | O => None
         | S f => if Nat.ltb (length l) n then None
                  else option_map (cons (firstn n l)) (chunks_aux f n (skipn n l))
         end
  end.
Definition chunks (n : nat) (l : list Z) : option (list (list Z)) :=
  match l with [] => None                   (* reshape of a size-0 array with -1 is rejected *)
  | _ => chunks_aux (length l) n l end.

(* ---------------- compute_vjp_single(dy, jac)  (num=None) ---------------- *)
Definition compute_vjp_single (dy jac : val) : res :=
  match jac with
  | VNone => Ok VNone                                         (* if jac is None: return None *)
  | VT j =>
      match dy with
      | VT d =>
          let dyr := flatten_t d in                           (* dy_row = reshape(dy, [-1]) *)
          if is_shape0 j then Ok (VT (T2 [[]]))               (* zeros((1, 0)) *)
          else let jf := flatten_t j in                       (* (squeeze;) reshape(jac, (-1, 1)) *)
               if Nat.eqb (length jf) (length dyr)            (* dy_row @ jac needs equal lengths *)
               then Ok (VT (T1 [dot dyr jf])) else Err
      | _ => Err
      end
  | VTup js =>
      match dy with
      | VT d =>
          let dyr := flatten_t d in
          let num := length dyr in
          match js with
          | [] => Ok (VT (T2 [[]]))                           (* len(jac) == 0: zeros((1, 0)) *)
          | _ =>
              match stack_flat js with
              | None => Err
              | Some flat =>
                  if Nat.eqb num 1
                  then Ok (VT (T1 (vscale (hd 0 dyr) flat)))  (* dy_row @ reshape(stack, (1, -1)) *)
                  else match chunks num flat with             (* reshape(stack, (-1, num)) @ dy_row *)
                       | Some rows => Ok (VT (T1 (map (dot dyr) rows)))
                       | None => Err
                       end
              end
          end
      | _ => Err
      end
  end.

(* ---------------- compute_vjp_multi(dy, jac) ---------------- *)
Definition res_t (r : res) : option tens := match r with Ok (VT t) => Some t | _ => None end.

Fixpoint map2o {A B C} (f : A -> B -> C) (a : list A) (b : list B) : option (list C) :=   (* zip(strict=True) *)
  match a, b with
  | [], [] => Some []
  | x :: a', y :: b' => option_map (cons (f x y)) (map2o f a' b')
  | _, _ => None
  end.

Inductive dykind := KScalar (xs : list Z) | KVector (rows : list (list Z)) | KRagged.
(* math.shape(dy) of a tuple of arrays: (M,), (M,d) or an exception for ragged input *)
Definition dy_kind (ds : list val) : dykind :=
  match ds with
  | [] => KRagged                                              (* dy[0] raises -> except branch *)
  | _ =>
    match all_some (map as_T0 ds) with
    | Some xs => KScalar xs
    | None =>
        match all_some (map as_T1 ds) with
        | Some (a :: r) => if forallb (fun x => Nat.eqb (length x) (length a)) r
                           then KVector (a :: r) else KRagged
        | _ => KRagged
        end
    end
  end.

(* np.array(jac) for jac = tuple (measurements) of tuples (parameters) of rank-0 arrays *)
Definition dense0 (js : list val) : option (list (list Z)) :=
  all_some (map (fun j => match j with VTup l => all_some (map as_T0 l) | _ => None end) js).
(* ... of rank-1 arrays *)
Definition dense1 (js : list val) : option (list (list (list Z))) :=
  all_some (map (fun j => match j with VTup l => all_some (map as_T1 l) | _ => None end) js).

Fixpoint vsum1 (l : list (list Z)) : option (list Z) :=       (* sum of equal-length vectors *)
  match l with
  | [] => None
  | v :: r => match r with
              | [] => Some v
              | _ => match vsum1 r with
                     | Some s => if Nat.eqb (length v) (length s) then Some (vadd v s) else None
                     | None => None
                     end
              end
  end.

(* einsum("i,i...", dy, jac): dy (M,), jac (M,k) -> (k,) ; None = numpy raises -> fallback *)
Definition einsum_s (xs : list Z) (js : list val) : option (list Z) :=
  match dense0 js with
  | Some rows => match map2o vscale xs rows with Some l => vsum1 l | None => None end
  | None => None
  end.
(* einsum("ij,i...j", dy, jac): dy (M,d), jac (M,k,d) -> (k,) *)
Definition einsum_v (ds : list (list Z)) (js : list val) : option (list Z) :=
  match dense1 js with
  | Some rows3 =>
      let d := length (hd [] ds) in
      if forallb (fun rows => forallb (fun r => Nat.eqb (length r) d) rows) rows3
      then match map2o (fun dv rows => map (dot dv) rows) ds rows3 with
           | Some l => vsum1 l | None => None end
      else None
  | None => None
  end.

(* the except-branch: per measurement, per parameter compute_vjp_single, squeeze, stack, sum *)
Definition fallback_row (d j_ : val) : option tens :=
  match j_ with
  | VTup l =>
      match all_some (map (fun j => option_map squeeze (res_t (compute_vjp_single d j))) l) with
      | Some ts => stack_row ts
      | None => None
      end
  | _ => None
  end.
Definition vjp_fallback (ds js : list val) : res :=
  match map2o fallback_row ds js with
  | None => Err
  | Some rows => match all_some rows with
                 | Some ts => match sum_stack ts with Some t => Ok (VT t) | None => Err end
                 | None => Err
                 end
  end.

Definition compute_vjp_multi (dy jac : val) : res :=
  match jac with
  | VNone => Ok VNone
  | VTup (j0 :: jr) =>
      let js := j0 :: jr in
      match dy with
      | VTup ds =>
          if negb (is_tup j0) then
            (* single parameter: for d, j_ in zip(dy, jac, strict=True): compute_vjp_single *)
            match map2o (fun d j => res_t (compute_vjp_single d j)) ds js with
            | Some l => match all_some l with
                        | Some ts => match sum_stack ts with Some t => Ok (VT t) | None => Err end
                        | None => Err
                        end
            | None => Err
            end
          else
            match dy_kind ds with
            | KScalar xs => match einsum_s xs js with
                            | Some r => Ok (VT (T1 r))
                            | None => vjp_fallback ds js
                            end
            | KVector rows => match einsum_v rows js with
                              | Some r => Ok (VT (T1 r))
                              | None => vjp_fallback ds js
                              end
            | KRagged => vjp_fallback ds js
            end
      | _ => Err
      end
  | _ => Err                                                   (* jac[0] raises *)
  end.

(* ---------------- compute_jvp_single / multi ---------------- *)
Fixpoint lincomb (tg : list Z) (ts : list tens) : option tens :=   (* tensordot(concatenate(jac), tangent) *)
  match tg, ts with
  | [c], [t] => Some (tscale c t)
  | c :: tg', t :: ts' => match lincomb tg' ts' with Some s => tadd (tscale c t) s | None => None end
  | _, _ => None
  end.

Definition compute_jvp_single (tg : list Z) (jac : val) : res :=
  match jac with
  | VNone => Ok VNone
  | VT j =>
      if is_shape0 j then Ok (VT (T2 [[]]))                    (* zeros((1, 0)) *)
      else match tg with
           | [c] => Ok (VT (tscale c j))                       (* reshape to shape+(1,), tensordot *)
           | _ => Err                                          (* reshape fails for tangent_size <> 1 *)
           end
  | VTup js =>
      match js with
      | [] => Ok (VT (T2 [[]]))
      | _ => match all_some (map as_t js) with
             | Some ts => match lincomb tg ts with Some t => Ok (VT t) | None => Err end
             | None => Err
             end
      end
  end.

Fixpoint all_ok (l : list res) : option (list val) :=
  match l with
  | [] => Some []
  | Ok v :: r => match all_ok r with Some r' => Some (v :: r') | None => None end
  | Err :: _ => None
  end.

Definition compute_jvp_multi (tg : list Z) (jac : val) : res :=
  match jac with
  | VNone => Ok VNone
  | VTup js => match all_ok (map (compute_jvp_single tg) js) with Some l => Ok (VTup l) | None => Err end
  | _ => Err
  end.

(* ---------------- tapes, vjp(), jvp() ---------------- *)
Record tape := { tp_k : nat;             (* number of trainable parameters *)
                 tp_meas : list nat;     (* per measurement: 0 = scalar (expval), d>0 = probs of dimension d *)
                 tp_shots : nat }.       (* number of shot copies: 0 = analytic, 1 = one value, >1 partitioned *)
Definition multi (t : tape) : bool := Nat.ltb 1 (length (tp_meas t)).
Definition partitioned (t : tape) : bool := Nat.ltb 1 (tp_shots t).

Fixpoint all_zero_val (v : val) : bool :=                      (* _all_close_to_zero / math.allclose(.,0) *)
  match v with
  | VNone => false
  | VT t => forallb (Z.eqb 0) (flatten_t t)
  | VTup l => forallb all_zero_val l
  end.

(* the result of gradient_fn(tape): number of gradient tapes and the post-processing function *)
Definition gradfn := (nat * (list Z -> val))%type.

(* processing_fn of vjp(): contraction of the Jacobian returned by the gradient transform *)
Definition vjp_proc (t : tape) (dy : val) (g : gradfn) (results : list Z) : res :=
  let jac := snd g results in
  let f := if multi t then compute_vjp_multi else compute_vjp_single in
  if negb (partitioned t) then f dy jac
  else match dy, jac with
       | VTup ds, VTup js =>
           match map2o (fun d j => res_t (f d j)) ds js with
           | Some l => match all_some l with
                       | Some ts => match sum_stack ts with Some s => Ok (VT s) | None => Err end
                       | None => Err
                       end
           | None => Err
           end
       | _, _ => Err
       end.

Definition vjp_tape (t : tape) (dy : val) (g : gradfn) : nat * (list Z -> res) :=
  if Nat.eqb (tp_k t) 0 then (O, fun _ => Ok VNone)
  else if all_zero_val dy then (O, fun _ => Ok (VT (T1 (repeat 0 (tp_k t)))))
  else (fst g, vjp_proc t dy g).

Definition zero_meas (d : nat) : val := VT (if Nat.eqb d 0 then T0 0 else T1 (repeat 0 d)).
Definition zero_all (t : tape) : val :=
  match tp_meas t with [d] => zero_meas d | ms => VTup (map zero_meas ms) end.

Definition jvp_proc (t : tape) (tg : list Z) (g : gradfn) (results : list Z) : res :=
  let jac := snd g results in
  let f := if multi t then compute_jvp_multi else compute_jvp_single in
  if negb (partitioned t) then f tg jac
  else match jac with
       | VTup js =>
           match all_some (map (fun i => nth_error js i) (seq 0 (tp_shots t))) with   (* jac[i], i < num_copies *)
           | Some l => match all_ok (map (f tg) l) with Some r => Ok (VTup r) | None => Err end
           | None => Err
           end
       | _ => Err
       end.

Definition jvp_tape (t : tape) (tg : list Z) (g : gradfn) : nat * (list Z -> res) :=
  if Nat.eqb (tp_k t) 0 then
    (O, fun _ => Ok (if partitioned t then VTup (repeat (zero_all t) (tp_shots t)) else zero_all t))
  else if forallb (Z.eqb 0) tg then
    (O, fun _ => Ok (if partitioned t then VTup (repeat (zero_all t) (tp_shots t)) else zero_all t))
                                                               (* one zero result per shot copy *)
  else (fst g, jvp_proc t tg g).

(* ---------------- batch_vjp / batch_jvp processing_fn ---------------- *)
(* iterating over a value (list.extend) *)
Definition iter_val (v : val) : option (list val) :=
  match v with
  | VTup l => Some l
  | VT (T1 l) => Some (map (fun x => VT (T0 x)) l)
  | VT (T2 r) => Some (map (fun x => VT (T1 x)) r)
  | VT (T0 _) => None                                          (* TypeError: iteration over a 0-d array *)
  | VNone => None
  end.

Fixpoint batch_loop (ext : bool) (fs : list (nat * (list Z -> res))) (results : list Z) (acc : list val) : res :=
  match fs with
  | [] => Ok (VTup acc)
  | (n, f) :: r =>
      let res_t := firstn n results in                         (* results[start : start + res_len] *)
      let rest := skipn n results in
      match f res_t with
      | Err => Err
      | Ok VNone => batch_loop ext r rest (if ext then acc else acc ++ [VNone])
      | Ok v => if ext then match iter_val v with
                            | Some l => batch_loop ext r rest (acc ++ l)
                            | None => Err
                            end
                else batch_loop ext r rest (acc ++ [v])
      end
  end.

Definition batch_vjp (ext : bool) (ts : list (tape * val * gradfn)) (results : list Z) : res :=
  batch_loop ext (map (fun x => match x with (t, dy, g) => vjp_tape t dy g end) ts) results [].
Definition batch_jvp (ext : bool) (ts : list (tape * list Z * gradfn)) (results : list Z) : res :=
  batch_loop ext (map (fun x => match x with (t, tg, g) => jvp_tape t tg g end) ts) results [].

(* ---------------- correspondence ---------------- *)
Fixpoint scale_val (c : Z) (v : val) : val :=
  match v with VNone => VNone | VT t => VT (tscale c t) | VTup l => VTup (map (scale_val c) l) end.
(* the fake post-processing function used by the harness: jac = weight(slice) * J *)
Fixpoint weight_aux (i : Z) (l : list Z) : Z := match l with [] => 0 | x :: r => i * x + weight_aux (i + 1) r end.
Definition weight (l : list Z) : Z := match l with [] => 1 | _ => weight_aux 1 l end.
Definition fake_g (glen : nat) (J : val) : gradfn := (glen, fun sl => scale_val (weight sl) J).

Inductive tcase :=
| CVS (dy jac : val) | CVM (dy jac : val)
| CJS (tg : list Z) (jac : val) | CJM (tg : list Z) (jac : val)
| CBV (ext : bool) (ts : list (tape * val * (nat * val))) (results : list Z)
| CBJ (ext : bool) (ts : list (tape * list Z * (nat * val))) (results : list Z).

Definition run (c : tcase) : res :=
  match c with
  | CVS dy jac => compute_vjp_single dy jac
  | CVM dy jac => compute_vjp_multi dy jac
  | CJS tg jac => compute_jvp_single tg jac
  | CJM tg jac => compute_jvp_multi tg jac
  | CBV ext ts results =>
      batch_vjp ext (map (fun x => match x with (t, dy, (n, J)) => (t, dy, fake_g n J) end) ts) results
  | CBJ ext ts results =>
      batch_jvp ext (map (fun x => match x with (t, tg, (n, J)) => (t, tg, fake_g n J) end) ts) results
  end.

Fixpoint eqb_lz (a b : list Z) : bool :=
  match a, b with [], [] => true | x :: a', y :: b' => (x =? y) && eqb_lz a' b' | _, _ => false end.
Fixpoint eqb_llz (a b : list (list Z)) : bool :=
  match a, b with [], [] => true | x :: a', y :: b' => eqb_lz x y && eqb_llz a' b' | _, _ => false end.
Definition eqb_tens (a b : tens) : bool :=
  match a, b with
  | T0 x, T0 y => x =? y | T1 x, T1 y => eqb_lz x y | T2 x, T2 y => eqb_llz x y | _, _ => false end.
Fixpoint eqb_val (a b : val) : bool :=
  match a, b with
  | VNone, VNone => true
  | VT x, VT y => eqb_tens x y
  | VTup x, VTup y =>
      (fix go (x y : list val) : bool :=
         match x, y with [], [] => true | u :: x', v :: y' => eqb_val u v && go x' y' | _, _ => false end) x y
  | _, _ => false
  end.
Definition eqb_res (a b : res) : bool :=
  match a, b with Err, Err => true | Ok x, Ok y => eqb_val x y | _, _ => false end.

Definition check_case (c : tcase * res) : bool := eqb_res (run (fst c)) (snd c).
