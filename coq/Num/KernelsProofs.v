(* Lemmas for C68 (kernel utilities). *)
From Coq Require Import List QArith Qabs Bool Arith Lia Setoid Morphisms.
From PLV Require Import Num.KernelsModel.
Import ListNotations.
Open Scope Q_scope.

(* ================================================================== generic list facts *)
Lemma firstn_len_app {A} (a b : list A) m : length a = m -> firstn m (a ++ b) = a.
Proof. intros <-. rewrite firstn_app, Nat.sub_diag, firstn_all. simpl. apply app_nil_r. Qed.
Lemma skipn_len_app {A} (a b : list A) m : length a = m -> skipn m (a ++ b) = b.
Proof. intros <-. rewrite skipn_app, Nat.sub_diag, skipn_all. reflexivity. Qed.

Lemma nth_map_d {A B} (f : A -> B) l i d d' : (i < length l)%nat -> nth i (map f l) d' = f (nth i l d).
Proof.
  intros H. rewrite nth_indep with (d' := f d) by (rewrite map_length; exact H). apply map_nth.
Qed.

Lemma nth_map_seq {A} (f : nat -> A) n i d : (i < n)%nat -> nth i (map f (seq 0 n)) d = f i.
Proof.
  intros H. rewrite nth_indep with (d' := f O) by (rewrite map_length, seq_length; exact H).
  rewrite map_nth. rewrite seq_nth by exact H. reflexivity.
Qed.

(* ================================================================== kernel_matrix *)
Section KM.
Context {X : Type} (k : X -> X -> Q).

Lemma flat_length (X1 X2 : list X) :
  length (flat_map (fun x => map (fun y => k x y) X2) X1) = (length X1 * length X2)%nat.
Proof. induction X1; simpl; [reflexivity|]. rewrite app_length, map_length, IHX1. reflexivity. Qed.

Lemma chunks_flat (X1 X2 : list X) :
  chunks (length X1) (length X2) (flat_map (fun x => map (fun y => k x y) X2) X1)
  = map (fun x => map (fun y => k x y) X2) X1.
Proof.
  induction X1; simpl; [reflexivity|].
  rewrite firstn_len_app, skipn_len_app by apply map_length. rewrite IHX1. reflexivity.
Qed.

Lemma kernel_matrix_rows (X1 X2 : list X) : X1 <> [] -> X2 <> [] ->
  kernel_matrix k X1 X2 = Some (map (fun x => map (fun y => k x y) X2) X1).
Proof.
  intros H1 H2. unfold kernel_matrix.
  destruct (flat_map (fun x => map (fun y => k x y) X2) X1) eqn:E.
  - destruct X1 as [|x X1]; [congruence|]. destruct X2 as [|y X2]; [congruence|]. discriminate.
  - rewrite <- E. unfold reshape2. rewrite flat_length, Nat.eqb_refl, chunks_flat. reflexivity.
Qed.

Lemma kernel_matrix_entry (X1 X2 : list X) : X1 <> [] -> X2 <> [] ->
  exists M, kernel_matrix k X1 X2 = Some M /\ length M = length X1 /\
    (forall i, (i < length X1)%nat -> length (nth i M []) = length X2) /\
    forall d1 d2 i j, (i < length X1)%nat -> (j < length X2)%nat ->
      nth j (nth i M []) 0 = k (nth i X1 d1) (nth j X2 d2).
Proof.
  intros H1 H2. eexists. split; [apply kernel_matrix_rows; assumption|].
  split; [apply map_length|]. split.
  - intros i Hi. destruct X1 as [|x0 X1]; [congruence|].
    rewrite (nth_map_d _ _ _ x0) by exact Hi. apply map_length.
  - intros d1 d2 i j Hi Hj.
    rewrite (nth_map_d _ _ _ d1) by exact Hi.
    rewrite (nth_map_d _ _ _ d2) by exact Hj. reflexivity.
Qed.

Lemma kernel_matrix_empty (X1 X2 : list X) : X1 = [] \/ X2 = [] -> kernel_matrix k X1 X2 = None.
Proof.
  intros [-> | ->]; unfold kernel_matrix; simpl; [reflexivity|].
  replace (flat_map (fun x => @nil Q) X1) with (@nil Q); [reflexivity|].
  induction X1; simpl; auto.
Qed.
End KM.

(* ================================================================== flat list with assignments *)
Lemma upd_length l p v : length (upd l p v) = length l.
Proof. revert p. induction l; intros [|p]; simpl; auto. Qed.

Lemma nth_error_upd_same l p v : (p < length l)%nat -> nth_error (upd l p v) p = Some (Some v).
Proof.
  revert p. induction l; intros [|p] H; simpl in *; try lia; [reflexivity|]. apply IHl. lia.
Qed.

Lemma nth_error_upd_other l p q v : p <> q -> nth_error (upd l p v) q = nth_error l q.
Proof.
  revert p q. induction l; intros [|p] [|q] H; simpl; try reflexivity; try congruence.
  apply IHl. congruence.
Qed.

Lemma apply_writes_length ws : forall m, length (apply_writes m ws) = length m.
Proof.
  unfold apply_writes. induction ws; intros m; simpl; [reflexivity|]. rewrite IHws. apply upd_length.
Qed.

(* if every assignment to position q carries the value v, and either the list already holds v at q or q is
   assigned at least once, the list holds v at q afterwards (no reasoning about the ORDER of assignments) *)
Lemma apply_writes_spec ws : forall m q v, (q < length m)%nat ->
  (forall w, In w ws -> fst w = q -> snd w = v) ->
  (nth_error m q = Some (Some v) \/ exists w, In w ws /\ fst w = q) ->
  nth_error (apply_writes m ws) q = Some (Some v).
Proof.
  induction ws as [|w ws IH]; intros m q v Hq Hc Hd.
  - destruct Hd as [H | [w [[] _]]]. exact H.
  - change (apply_writes m (w :: ws)) with (apply_writes (upd m (fst w) (snd w)) ws).
    apply IH.
    + rewrite upd_length. exact Hq.
    + intros w' Hin. apply Hc. right. exact Hin.
    + destruct (Nat.eq_dec (fst w) q) as [E | E].
      * left. rewrite E. rewrite nth_error_upd_same by exact Hq.
        rewrite (Hc w (or_introl eq_refl) E). reflexivity.
      * destruct Hd as [H | [w' [[<- | Hin] Hf]]].
        -- left. rewrite nth_error_upd_other by exact E. exact H.
        -- congruence.
        -- right. exists w'. split; assumption.
Qed.

Lemma all_some_spec (m : arr) :
  (forall p, (p < length m)%nat -> exists v, nth_error m p = Some (Some v)) ->
  exists flat, all_some m = Some flat /\ length flat = length m /\
               forall p, (p < length m)%nat -> nth_error m p = Some (Some (nth p flat 0)).
Proof.
  induction m as [|x m IH]; intros H.
  - exists []. split; [reflexivity|]. split; [reflexivity|]. intros p Hp. inversion Hp.
  - destruct (H O) as [v Hv]; [simpl; lia|]. simpl in Hv. injection Hv as ->.
    destruct IH as [flat [E [L N]]].
    { intros p Hp. apply (H (S p)). simpl. lia. }
    exists (v :: flat). simpl. rewrite E. split; [reflexivity|]. split; [simpl; lia|].
    intros [|p] Hp; simpl; [reflexivity|]. apply N. lia.
Qed.

Lemma nth_chunks n : forall m l i j, length l = (n * m)%nat -> (i < n)%nat -> (j < m)%nat ->
  nth j (nth i (chunks n m l) []) 0 = nth (m * i + j) l 0.
Proof.
  induction n; intros m l i j L Hi Hj; [lia|].
  destruct i as [|i]; simpl chunks; cbn [nth].
  - rewrite Nat.mul_0_r, Nat.add_0_l.
    rewrite <- (firstn_skipn m l) at 2.
    rewrite app_nth1; [reflexivity|]. rewrite firstn_length. simpl in L. lia.
  - rewrite IHn; try lia.
    + rewrite <- (firstn_skipn m l) at 2.
      rewrite app_nth2; rewrite firstn_length; simpl in L; [|nia].
      f_equal. rewrite Nat.min_l by lia. nia.
    + rewrite skipn_length. simpl in L. lia.
Qed.

Lemma chunks_length n : forall m l, length (chunks n m l) = n.
Proof. induction n; intros; simpl; auto. Qed.

Lemma chunks_row_length n : forall m l i, length l = (n * m)%nat -> (i < n)%nat ->
  length (nth i (chunks n m l) []) = m.
Proof.
  induction n; intros m l i L Hi; [lia|]. destruct i; simpl.
  - rewrite firstn_length. simpl in L. lia.
  - apply IHn; [|lia]. rewrite skipn_length. simpl in L. lia.
Qed.

Lemma nth_transpose n R i j : (i < n)%nat -> (j < length R)%nat ->
  nth j (nth i (transpose n R) []) 0 = nth i (nth j R []) 0.
Proof.
  intros Hi Hj. unfold transpose. rewrite nth_map_seq by exact Hi.
  rewrite (nth_map_d _ _ _ []) by exact Hj. reflexivity.
Qed.

Lemma decode_pos N i j a b : (j < N)%nat -> (b < N)%nat -> (N * i + j = N * a + b)%nat -> i = a /\ j = b.
Proof. intros Hj Hb E. assert (i = a) by nia. subst. split; [reflexivity|lia]. Qed.

(* ================================================================== square_kernel_matrix *)
Section SQ.
Context {X : Type} (k : X -> X -> Q) (d : X).

(* the specification: upper triangle = kernel, lower triangle = the MIRRORED upper value (the kernel is never
   called with i > j), diagonal = 1 (assume_normalized_kernel) or kernel(x_i, x_i) *)
Definition sq_entry (xs : list X) (an : bool) (i j : nat) : Q :=
  if (i <? j)%nat then k (nth i xs d) (nth j xs d)
  else if (j <? i)%nat then k (nth j xs d) (nth i xs d)
  else if an then 1 else k (nth i xs d) (nth i xs d).

Lemma sq_entry_sym xs an i j : sq_entry xs an i j = sq_entry xs an j i.
Proof.
  unfold sq_entry.
  destruct (Nat.ltb_spec i j), (Nat.ltb_spec j i); try reflexivity; try lia.
  assert (i = j) by lia. subst. reflexivity.
Qed.

Lemma in_writes_offdiag xs w : In w (writes_offdiag k d xs) ->
  exists i j, (i < j)%nat /\ (j < length xs)%nat /\
    (w = ((length xs * i + j)%nat, k (nth i xs d) (nth j xs d)) \/
     w = ((length xs * j + i)%nat, k (nth i xs d) (nth j xs d))).
Proof.
  unfold writes_offdiag. intros H. apply in_flat_map in H. destruct H as [i [Hi H]].
  apply in_flat_map in H. destruct H as [j [Hj H]].
  apply in_seq in Hi. apply in_seq in Hj. exists i, j.
  split; [lia|]. split; [lia|].
  simpl in H. destruct H as [<- | [<- | []]]; [left|right]; reflexivity.
Qed.

Lemma writes_offdiag_in xs i j : (i < j)%nat -> (j < length xs)%nat ->
  In ((length xs * i + j)%nat, k (nth i xs d) (nth j xs d)) (writes_offdiag k d xs) /\
  In ((length xs * j + i)%nat, k (nth i xs d) (nth j xs d)) (writes_offdiag k d xs).
Proof.
  intros Hij Hj. unfold writes_offdiag.
  split; apply in_flat_map; exists i; (split; [apply in_seq; lia|]);
    apply in_flat_map; exists j; (split; [apply in_seq; lia|]); simpl; auto.
Qed.

Lemma phase1 xs an a b : (a < length xs)%nat -> (b < length xs)%nat -> a <> b ->
  nth_error (apply_writes (repeat None (length xs * length xs)) (writes_offdiag k d xs)) (length xs * a + b)
  = Some (Some (sq_entry xs an a b)).
Proof.
  intros Ha Hb Hab. set (N := length xs).
  apply apply_writes_spec.
  - rewrite repeat_length. fold N. nia.
  - intros w Hin Hf. apply in_writes_offdiag in Hin. fold N in Hin.
    destruct Hin as [i [j [Hij [Hj [-> | ->]]]]]; simpl in Hf |- *.
    + apply decode_pos in Hf; [|lia|lia]. destruct Hf as [-> ->].
      unfold sq_entry. destruct (Nat.ltb_spec a b); [reflexivity|lia].
    + apply decode_pos in Hf; [|lia|lia]. destruct Hf as [-> ->].
      unfold sq_entry. destruct (Nat.ltb_spec a b); [lia|].
      destruct (Nat.ltb_spec b a); [reflexivity|lia].
  - right. destruct (Nat.lt_ge_cases a b) as [H | H].
    + exists ((N * a + b)%nat, k (nth a xs d) (nth b xs d)). split; [|reflexivity].
      apply (writes_offdiag_in xs a b); assumption.
    + exists ((N * a + b)%nat, k (nth b xs d) (nth a xs d)). split; [|reflexivity].
      apply (writes_offdiag_in xs b a); [lia|assumption].
Qed.

Lemma phase2 xs an a b : (a < length xs)%nat -> (b < length xs)%nat ->
  nth_error (apply_writes (apply_writes (repeat None (length xs * length xs)) (writes_offdiag k d xs))
                          (writes_diag k d xs an)) (length xs * a + b)
  = Some (Some (sq_entry xs an a b)).
Proof.
  intros Ha Hb. set (N := length xs).
  apply apply_writes_spec.
  - rewrite apply_writes_length, repeat_length. fold N. nia.
  - intros w Hin Hf. unfold writes_diag in Hin. apply in_map_iff in Hin.
    destruct Hin as [i [<- Hi]]. apply in_seq in Hi. fold N in Hf. simpl in Hf |- *.
    apply decode_pos in Hf; [|lia|lia]. destruct Hf as [-> <-].
    unfold sq_entry. rewrite Nat.ltb_irrefl. reflexivity.
  - destruct (Nat.eq_dec a b) as [<- | Hab].
    + right. exists ((N * a + a)%nat, if an then 1 else k (nth a xs d) (nth a xs d)).
      split; [|reflexivity]. unfold writes_diag. apply in_map_iff. exists a.
      split; [reflexivity|]. apply in_seq. lia.
    + left. apply phase1; assumption.
Qed.

Theorem square_spec xs an : xs <> [] ->
  exists M, square_kernel_matrix k d xs an = Some M /\ length M = length xs /\
    (forall i, (i < length xs)%nat -> length (nth i M []) = length xs) /\
    forall i j, (i < length xs)%nat -> (j < length xs)%nat -> nth j (nth i M []) 0 = sq_entry xs an i j.
Proof.
  intros Hne. unfold square_kernel_matrix.
  assert (HN : (0 < length xs)%nat) by (destruct xs; [congruence|simpl; lia]).
  set (N := length xs) in *.
  destruct (an && Nat.eqb N 1) eqn:E1.
  - apply andb_prop in E1. destruct E1 as [-> E1]. apply Nat.eqb_eq in E1.
    exists [[1]]. split; [reflexivity|]. split; [simpl; lia|]. split.
    + intros i Hi. assert (i = O) by lia. subst. simpl. lia.
    + intros i j Hi Hj. assert (i = O) by lia. assert (j = O) by lia. subst. reflexivity.
  - set (m1 := apply_writes (repeat None (N * N)) (writes_offdiag k d xs)).
    assert (L1 : length m1 = (N * N)%nat) by (unfold m1; rewrite apply_writes_length, repeat_length; reflexivity).
    destruct (an && match nth_error m1 1 with Some _ => false | None => true end) eqn:E2.
    { exfalso. apply andb_prop in E2. destruct E2 as [-> E2]. simpl in E1. apply Nat.eqb_neq in E1.
      destruct (nth_error m1 1) eqn:E3; [discriminate|]. apply nth_error_None in E3. nia. }
    set (m2 := apply_writes m1 (writes_diag k d xs an)).
    assert (L2 : length m2 = (N * N)%nat) by (unfold m2; rewrite apply_writes_length; exact L1).
    assert (P2 : forall a b, (a < N)%nat -> (b < N)%nat -> nth_error m2 (N * a + b) = Some (Some (sq_entry xs an a b))).
    { intros a b Ha Hb. apply phase2; assumption. }
    destruct (all_some_spec m2) as [flat [EA [LF NF]]].
    { intros p Hp. rewrite L2 in Hp.
      assert (p = N * (p / N) + p mod N)%nat by (apply Nat.div_mod; lia).
      exists (sq_entry xs an (p / N) (p mod N)). rewrite H at 1. apply P2.
      - apply Nat.div_lt_upper_bound; lia.
      - apply Nat.mod_upper_bound. lia. }
    destruct m2 as [|h t] eqn:Em2; [simpl in L2; nia|]. rewrite <- Em2 in *. rewrite EA.
    unfold reshape2. rewrite LF, L2, Nat.eqb_refl.
    exists (transpose N (chunks N N flat)). split; [reflexivity|].
    split; [unfold transpose; rewrite map_length, seq_length; reflexivity|]. split.
    + intros i Hi. unfold transpose. rewrite nth_map_seq by exact Hi. rewrite map_length. apply chunks_length.
    + intros i j Hi Hj. rewrite nth_transpose; [|exact Hi|rewrite chunks_length; exact Hj].
      rewrite nth_chunks; [|lia|exact Hj|exact Hi].
      assert (Hp : (N * j + i < length m2)%nat) by (rewrite L2; nia).
      specialize (NF _ Hp). rewrite P2 in NF by assumption. injection NF as NF. rewrite <- NF.
      apply sq_entry_sym.
Qed.

(* symmetry of the result does NOT need a symmetric kernel *)
Corollary square_symmetric xs an M : square_kernel_matrix k d xs an = Some M ->
  forall i j, (i < length xs)%nat -> (j < length xs)%nat -> nth j (nth i M []) 0 = nth i (nth j M []) 0.
Proof.
  intros HM i j Hi Hj. destruct xs as [|x0 xs']; [simpl in Hi; lia|].
  destruct (square_spec (x0 :: xs') an) as [M' [E [_ [_ HE]]]]; [discriminate|].
  rewrite HM in E. injection E as <-. rewrite !HE by assumption. apply sq_entry_sym.
Qed.

Corollary square_unit_diagonal xs an M : square_kernel_matrix k d xs an = Some M ->
  (an = true \/ forall i, (i < length xs)%nat -> k (nth i xs d) (nth i xs d) = 1) ->
  forall i, (i < length xs)%nat -> nth i (nth i M []) 0 = 1.
Proof.
  intros HM Hn i Hi. destruct xs as [|x0 xs']; [simpl in Hi; lia|].
  destruct (square_spec (x0 :: xs') an) as [M' [E [_ [_ HE]]]]; [discriminate|].
  rewrite HM in E. injection E as <-. rewrite HE by assumption.
  unfold sq_entry. rewrite Nat.ltb_irrefl. destruct Hn as [-> | Hn]; [reflexivity|].
  destruct an; [reflexivity|]. apply Hn. exact Hi.
Qed.

(* the square matrix reproduces the kernel entrywise exactly when the kernel is symmetric on the data
   (and normalised, if assume_normalized_kernel is used) *)
Corollary square_is_kernel xs an M : square_kernel_matrix k d xs an = Some M ->
  (forall i j, (i < j)%nat -> (j < length xs)%nat -> k (nth j xs d) (nth i xs d) = k (nth i xs d) (nth j xs d)) ->
  (an = true -> forall i, (i < length xs)%nat -> k (nth i xs d) (nth i xs d) = 1) ->
  forall i j, (i < length xs)%nat -> (j < length xs)%nat -> nth j (nth i M []) 0 = k (nth i xs d) (nth j xs d).
Proof.
  intros HM Hs Hn i j Hi Hj. destruct xs as [|x0 xs']; [simpl in Hi; lia|].
  destruct (square_spec (x0 :: xs') an) as [M' [E [_ [_ HE]]]]; [discriminate|].
  rewrite HM in E. injection E as <-. rewrite HE by assumption.
  unfold sq_entry. destruct (Nat.ltb_spec i j); [reflexivity|].
  destruct (Nat.ltb_spec j i); [symmetry; apply Hs; assumption|].
  assert (i = j) by lia. subst j. destruct an; [symmetry; apply Hn; auto|reflexivity].
Qed.

Lemma square_empty an : square_kernel_matrix k d [] an = None.
Proof. destruct an; reflexivity. Qed.
End SQ.

(* ================================================================== sums, Frobenius products *)
Definition sumn (n : nat) (f : nat -> Q) : Q := qsum (map f (seq 0 n)).

Lemma qsum_map_ext (f g : nat -> Q) l : (forall i, In i l -> f i == g i) -> qsum (map f l) == qsum (map g l).
Proof.
  induction l; simpl; intros H; [reflexivity|].
  rewrite (H a) by (left; reflexivity). rewrite IHl; [reflexivity|]. intros; apply H; right; assumption.
Qed.

Lemma sumn_ext n f g : (forall i, (i < n)%nat -> f i == g i) -> sumn n f == sumn n g.
Proof. intros H. apply qsum_map_ext. intros i Hi. apply in_seq in Hi. apply H. lia. Qed.

Lemma sumn_S n f : sumn (S n) f == f O + sumn n (fun i => f (S i)).
Proof. unfold sumn. simpl. rewrite <- seq_shift, map_map. reflexivity. Qed.

Lemma dot_as_sum a : forall b, length a = length b ->
  dot a b == sumn (length a) (fun j => nth j a 0 * nth j b 0).
Proof.
  induction a as [|x a IH]; intros [|y b] L; simpl in L; try discriminate.
  - reflexivity.
  - cbn [length]. rewrite sumn_S. cbn [dot nth]. rewrite IH by lia. reflexivity.
Qed.

Lemma frob_as_sum A : forall B, length A = length B ->
  frob A B == sumn (length A) (fun i => dot (nth i A []) (nth i B [])).
Proof.
  induction A as [|x A IH]; intros [|y B] L; simpl in L; try discriminate.
  - reflexivity.
  - cbn [length]. rewrite sumn_S. cbn [frob nth]. rewrite IH by lia. reflexivity.
Qed.

Lemma frob_entries A B n m (f g : nat -> nat -> Q) :
  length A = n -> length B = n ->
  (forall i, (i < n)%nat -> length (nth i A []) = m) -> (forall i, (i < n)%nat -> length (nth i B []) = m) ->
  (forall i j, (i < n)%nat -> (j < m)%nat -> nth j (nth i A []) 0 = f i j) ->
  (forall i j, (i < n)%nat -> (j < m)%nat -> nth j (nth i B []) 0 = g i j) ->
  frob A B == sumn n (fun i => sumn m (fun j => f i j * g i j)).
Proof.
  intros LA LB RA RB EA EB. rewrite frob_as_sum by lia. rewrite LA.
  apply sumn_ext. intros i Hi. rewrite dot_as_sum by (rewrite RA, RB by exact Hi; reflexivity).
  rewrite RA by exact Hi. apply sumn_ext. intros j Hj. rewrite EA, EB by assumption. reflexivity.
Qed.

Lemma outer_entry a b i j : (i < length a)%nat -> (j < length b)%nat ->
  nth j (nth i (outer a b) []) 0 = nth i a 0 * nth j b 0.
Proof.
  intros Hi Hj. unfold outer. rewrite (nth_map_d _ _ _ 0) by exact Hi.
  rewrite (nth_map_d _ _ _ 0) by exact Hj. reflexivity.
Qed.

Lemma outer_row_length a b i : (i < length a)%nat -> length (nth i (outer a b) []) = length b.
Proof. intros Hi. unfold outer. rewrite (nth_map_d _ _ _ 0) by exact Hi. apply map_length. Qed.

(* ================================================================== polarity / target alignment *)
Lemma rescale_length Y : length (rescale_labels Y) = length Y.
Proof. apply map_length. Qed.

Lemma rescale_entry Y i : (i < length Y)%nat ->
  nth i (rescale_labels Y) 0
  = if is_one (nth i Y 0) then nth i Y 0 / qnat (count_plus Y)
    else nth i Y 0 / qnat (length Y - count_plus Y).
Proof. intros Hi. unfold rescale_labels. rewrite (nth_map_d _ _ _ 0) by exact Hi. reflexivity. Qed.

Lemma filter_len_le {A} (f : A -> bool) l : (length (filter f l) <= length l)%nat.
Proof. induction l; simpl; [lia|]. destruct (f a); simpl; lia. Qed.

Lemma count_plus_le Y : (count_plus Y <= length Y)%nat.
Proof. apply filter_len_le. Qed.

(* the divisions of the rescaling are never by zero *)
Lemma count_plus_pos Y y : In y Y -> is_one y = true -> (0 < count_plus Y)%nat.
Proof.
  intros Hin H1. unfold count_plus.
  assert (In y (filter is_one Y)) by (apply filter_In; split; assumption).
  destruct (filter is_one Y); [contradiction|simpl; lia].
Qed.

Lemma count_minus_pos Y y : In y Y -> is_one y = false -> (count_plus Y < length Y)%nat.
Proof.
  unfold count_plus. induction Y as [|z Y IH]; intros Hin H0; [contradiction|].
  simpl. destruct Hin as [-> | Hin].
  - rewrite H0. pose proof (filter_len_le is_one Y). lia.
  - specialize (IH Hin H0). destruct (is_one z); simpl; lia.
Qed.

Lemma rescale_plus Y i : (i < length Y)%nat -> nth i Y 0 == 1 ->
  nth i (rescale_labels Y) 0 == 1 / qnat (count_plus Y).
Proof.
  intros Hi H1. rewrite rescale_entry by exact Hi. unfold is_one.
  destruct (Qeq_bool (nth i Y 0) 1) eqn:E.
  - rewrite H1. reflexivity.
  - apply Qeq_bool_neq in E. contradiction.
Qed.

Lemma rescale_minus Y i : (i < length Y)%nat -> nth i Y 0 == -(1) ->
  nth i (rescale_labels Y) 0 == -(1) / qnat (length Y - count_plus Y).
Proof.
  intros Hi H1. rewrite rescale_entry by exact Hi. unfold is_one.
  destruct (Qeq_bool (nth i Y 0) 1) eqn:E.
  - apply Qeq_bool_eq in E. rewrite H1 in E. discriminate.
  - rewrite H1. reflexivity.
Qed.

Section POL.
Context {X : Type} (k : X -> X -> Q) (d : X).

Definition labels_used (Y : list Q) (rescale : bool) : list Q := if rescale then rescale_labels Y else Y.

Theorem polarity_spec xs Y an rescale : xs <> [] -> length Y = length xs ->
  let N := length xs in
  let y := fun i => nth i (labels_used Y rescale) 0 in
  let K := sq_entry k d xs an in
  exists p n2, polarity k d xs Y an rescale = Some (p, n2) /\
    p == sumn N (fun i => sumn N (fun j => K i j * (y i * y j))) /\
    n2 == sumn N (fun i => sumn N (fun j => K i j * K i j)) *
          sumn N (fun i => sumn N (fun j => (y i * y j) * (y i * y j))).
Proof.
  intros Hne HY N y K. unfold polarity.
  destruct (square_spec k d xs an Hne) as [M [E [LM [RM EM]]]]. rewrite E, HY, Nat.eqb_refl.
  fold (labels_used Y rescale). set (Y' := labels_used Y rescale).
  assert (LY : length Y' = N) by (unfold Y', labels_used; destruct rescale; [rewrite rescale_length|]; exact HY).
  eexists. eexists. split; [reflexivity|].
  assert (LT : length (outer Y' Y') = N) by (unfold outer; rewrite map_length; exact LY).
  assert (RT : forall i, (i < N)%nat -> length (nth i (outer Y' Y') []) = N).
  { intros i Hi. rewrite outer_row_length by lia. exact LY. }
  assert (ET : forall i j, (i < N)%nat -> (j < N)%nat -> nth j (nth i (outer Y' Y') []) 0 = y i * y j).
  { intros i j Hi Hj. apply outer_entry; lia. }
  split.
  - apply (frob_entries M (outer Y' Y') N N K (fun i j => y i * y j)); assumption.
  - rewrite (frob_entries M M N N K K) by assumption.
    rewrite (frob_entries (outer Y' Y') (outer Y' Y') N N (fun i j => y i * y j) (fun i j => y i * y j)) by assumption.
    reflexivity.
Qed.
End POL.

(* ================================================================== spectral post-processing *)
From Coq Require Import Lqa Qminmax.

Lemma dot_comm a : forall b, dot a b == dot b a.
Proof. induction a; intros [|y b]; simpl; try reflexivity. rewrite IHa. ring. Qed.

Lemma dot3_zeros_r a : forall w m, dot3 a w (repeat 0 m) == 0.
Proof. induction a; intros [|c w] [|m]; simpl; try reflexivity. rewrite IHa. ring. Qed.

Lemma dot3_zeros_l m : forall w b, dot3 (repeat 0 m) w b == 0.
Proof. induction m; intros [|c w] [|y b]; simpl; try reflexivity. rewrite IHm. ring. Qed.

Lemma dot3_vadd_r a : forall w b b', length b = length b' ->
  dot3 a w (vadd b b') == dot3 a w b + dot3 a w b'.
Proof.
  induction a; intros [|c w] [|y b] [|y' b'] L; simpl in *; try discriminate; try ring.
  rewrite IHa by lia. ring.
Qed.

Lemma dot3_vadd_l b : forall w a a', length a = length a' ->
  dot3 (vadd a a') w b == dot3 a w b + dot3 a' w b.
Proof.
  induction b; intros [|c w] [|y a0] [|y' a'] L; simpl in *; try discriminate; try ring.
  rewrite IHb by lia. ring.
Qed.

Lemma dot3_vscale_r a : forall w s b, dot3 a w (vscale s b) == s * dot3 a w b.
Proof. induction a; intros [|c w] s [|y b]; simpl; try ring. rewrite IHa. ring. Qed.

Lemma dot3_vscale_l a : forall w s b, dot3 (vscale s a) w b == s * dot3 a w b.
Proof. induction a; intros [|c w] s [|y b]; simpl; try ring. rewrite IHa. ring. Qed.

Lemma vadd_length a : forall b, length a = length b -> length (vadd a b) = length a.
Proof. induction a; intros [|y b] L; simpl in *; try discriminate; auto. Qed.

Lemma lincomb_length m x : forall V, Forall (fun r => length r = m) V -> length (lincomb m x V) = m.
Proof.
  induction x as [|xa x IH]; intros [|ra V] HV; simpl; try apply repeat_length.
  inversion HV; subst. rewrite vadd_length; unfold vscale; rewrite map_length; [reflexivity|].
  rewrite IH by assumption. reflexivity.
Qed.

Lemma dot_sandwich_row m ra w V : Forall (fun r => length r = m) V -> forall x,
  dot x (map (fun rb => dot3 ra w rb) V) == dot3 ra w (lincomb m x V).
Proof.
  induction 1 as [|rb V Hrb HV IH]; intros [|xa x]; simpl; try (rewrite dot3_zeros_r; reflexivity).
  rewrite IH. rewrite dot3_vadd_r.
  - rewrite dot3_vscale_r. ring.
  - unfold vscale. rewrite map_length, lincomb_length by assumption. exact Hrb.
Qed.

Lemma dot_sandwich_col m w u V : Forall (fun r => length r = m) V -> forall x,
  dot x (map (fun ra => dot3 ra w u) V) == dot3 (lincomb m x V) w u.
Proof.
  induction 1 as [|ra V Hra HV IH]; intros [|xa x]; simpl; try (rewrite dot3_zeros_l; reflexivity).
  rewrite IH. rewrite dot3_vadd_l.
  - rewrite dot3_vscale_l. ring.
  - unfold vscale. rewrite map_length, lincomb_length by assumption. exact Hra.
Qed.

Lemma dot_map_ext (f g : list Q -> Q) V : (forall r, In r V -> f r == g r) -> forall x,
  dot x (map f V) == dot x (map g V).
Proof.
  induction V as [|r V IH]; intros H [|xa x]; simpl; try reflexivity.
  rewrite (H r) by (left; reflexivity). rewrite IH; [reflexivity|]. intros; apply H; right; assumption.
Qed.

(* x^T (V diag(w) V^T) x = sum_j w_j (x^T V)_j^2 : no orthogonality needed *)
Theorem sandwich_qform m V w x : Forall (fun r => length r = m) V ->
  qform (sandwich V w) x == dot3 (lincomb m x V) w (lincomb m x V).
Proof.
  intros HV. unfold qform, sandwich. rewrite map_map.
  rewrite (dot_map_ext _ (fun ra => dot3 ra w (lincomb m x V))).
  - apply dot_sandwich_col. exact HV.
  - intros r _. rewrite dot_comm. apply dot_sandwich_row. exact HV.
Qed.

Lemma dot3_nonneg u : forall w, Forall (fun c => 0 <= c) w -> 0 <= dot3 u w u.
Proof.
  induction u as [|x u IH]; intros [|c w] H; simpl; try apply Qle_refl.
  inversion H; subst. specialize (IH w H3). nra.
Qed.

Theorem sandwich_psd m V w x : Forall (fun r => length r = m) V -> Forall (fun c => 0 <= c) w ->
  0 <= qform (sandwich V w) x.
Proof. intros HV Hw. rewrite (sandwich_qform m) by exact HV. apply dot3_nonneg. exact Hw. Qed.

(* ---- the three spectral functions are non-negative *)
Lemma Qltb_true a b : Qltb a b = true <-> a < b.
Proof.
  unfold Qltb. rewrite negb_true_iff. split; intros H.
  - apply Qnot_le_lt. intros H'. apply Qle_bool_iff in H'. congruence.
  - destruct (Qle_bool b a) eqn:E; [|reflexivity]. apply Qle_bool_iff in E. apply Qle_not_lt in E. contradiction.
Qed.

Lemma Qltb_false a b : Qltb a b = false <-> b <= a.
Proof. unfold Qltb. rewrite negb_false_iff. apply Qle_bool_iff. Qed.

Lemma clip0_nonneg c : 0 <= clip0 c.
Proof. unfold clip0. destruct (Qltb c 0) eqn:E; [apply Qle_refl|]. apply Qltb_false in E. exact E. Qed.

Lemma clip0_id c : 0 <= c -> clip0 c = c.
Proof. intros H. unfold clip0. apply Qltb_false in H. rewrite H. reflexivity. Qed.

Lemma clip0_is_max c : clip0 c == Qmax c 0.
Proof.
  unfold clip0. destruct (Qltb c 0) eqn:E.
  - apply Qltb_true in E. symmetry. apply Q.max_r. apply Qlt_le_weak. exact E.
  - apply Qltb_false in E. symmetry. apply Q.max_l. exact E.
Qed.

Lemma Forall_map_nonneg (f : Q -> Q) w : (forall c, In c w -> 0 <= f c) -> Forall (fun c => 0 <= c) (map f w).
Proof. intros H. apply Forall_forall. intros c Hc. apply in_map_iff in Hc. destruct Hc as [c' [<- Hin]]. auto. Qed.

(* ---- entrywise rational equality of matrices *)
Lemma vec_eq_refl a : Forall2 Qeq a a.
Proof. induction a; constructor; [reflexivity|assumption]. Qed.
Lemma mat_eq_refl A : mat_eq A A.
Proof. induction A; constructor; [apply vec_eq_refl|assumption]. Qed.
Lemma vec_eq_sym a b : Forall2 Qeq a b -> Forall2 Qeq b a.
Proof. induction 1; constructor; [symmetry|]; assumption. Qed.
Lemma mat_eq_sym A B : mat_eq A B -> mat_eq B A.
Proof. induction 1; constructor; [apply vec_eq_sym|]; assumption. Qed.
Lemma vec_eq_trans a b : Forall2 Qeq a b -> forall c, Forall2 Qeq b c -> Forall2 Qeq a c.
Proof. induction 1; intros c Hc; inversion Hc; subst; constructor; [etransitivity; eassumption|auto]. Qed.
Lemma mat_eq_trans A B : mat_eq A B -> forall C, mat_eq B C -> mat_eq A C.
Proof.
  unfold mat_eq. induction 1; intros C HC; inversion HC; subst; constructor;
    [eapply vec_eq_trans; eassumption|apply IHForall2; assumption].
Qed.

Lemma dot_compat_l a a' : Forall2 Qeq a a' -> forall x, dot a x == dot a' x.
Proof. induction 1; intros [|xa x0]; simpl; try reflexivity. rewrite H, IHForall2. reflexivity. Qed.

Lemma qform_mat_eq A B x : mat_eq A B -> qform A x == qform B x.
Proof.
  intros H. unfold qform. generalize x at 1 3. induction H as [|ra rb A B Hr HAB IH]; intros [|ya y]; simpl; try reflexivity.
  rewrite IH, (dot_compat_l _ _ Hr). reflexivity.
Qed.

Lemma dot3_compat_mid a : forall w w' b, Forall2 Qeq w w' -> dot3 a w b == dot3 a w' b.
Proof.
  induction a; intros w w' b H; destruct H; destruct b; simpl; try reflexivity.
  rewrite H, (IHa _ _ _ H0). reflexivity.
Qed.

Lemma Forall2_map_same {A B} (R : B -> B -> Prop) (f g : A -> B) l :
  (forall x, In x l -> R (f x) (g x)) -> Forall2 R (map f l) (map g l).
Proof. induction l; simpl; intros H; constructor; auto. Qed.

Lemma sandwich_compat V w w' : Forall2 Qeq w w' -> mat_eq (sandwich V w) (sandwich V w').
Proof.
  intros H. unfold sandwich, mat_eq. apply Forall2_map_same. intros ra _.
  apply Forall2_map_same. intros rb _. apply dot3_compat_mid. exact H.
Qed.

Lemma map_id_on_nonneg (f : Q -> Q) w : (forall c, 0 <= c -> f c == c) -> Forall (fun c => 0 <= c) w ->
  Forall2 Qeq w (map f w).
Proof. intros Hf. induction 1; simpl; constructor; [symmetry; apply Hf; assumption|assumption]. Qed.

Lemma min_nonneg_all w : Forall (fun c => hd 0 w <= c) w -> 0 <= hd 0 w -> Forall (fun c => 0 <= c) w.
Proof. intros H H0. eapply Forall_impl; [|exact H]. intros c Hc. simpl in Hc. eapply Qle_trans; eassumption. Qed.

(* generic: `if w[0] < 0 then V f(w) V^T else K` is V f(w) V^T whenever f fixes non-negative numbers,
   K = V diag(w) V^T and w[0] is the smallest eigenvalue *)
Lemma spectral_branch (f : Q -> Q) w V K : (forall c, 0 <= c -> f c == c) ->
  Forall (fun c => hd 0 w <= c) w -> mat_eq K (sandwich V w) ->
  mat_eq (if Qltb (hd 0 w) 0 then sandwich V (map f w) else K) (sandwich V (map f w)).
Proof.
  intros Hf Hmin HK. destruct (Qltb (hd 0 w) 0) eqn:E; [apply mat_eq_refl|].
  apply Qltb_false in E. eapply mat_eq_trans; [exact HK|]. apply sandwich_compat.
  apply map_id_on_nonneg; [exact Hf|]. apply min_nonneg_all; assumption.
Qed.

Theorem threshold_spectral w V K : Forall (fun c => hd 0 w <= c) w -> mat_eq K (sandwich V w) ->
  mat_eq (threshold_matrix w V K) (sandwich V (map clip0 w)).
Proof. intros. apply spectral_branch; try assumption. intros c Hc. rewrite clip0_id by exact Hc. reflexivity. Qed.

Theorem flip_spectral w V K : Forall (fun c => hd 0 w <= c) w -> mat_eq K (sandwich V w) ->
  mat_eq (flip_matrix w V K) (sandwich V (map Qabs w)).
Proof. intros. apply spectral_branch; try assumption. intros c Hc. apply Qabs_pos. exact Hc. Qed.

Theorem threshold_psd m w V K x : Forall (fun r => length r = m) V ->
  Forall (fun c => hd 0 w <= c) w -> mat_eq K (sandwich V w) -> 0 <= qform (threshold_matrix w V K) x.
Proof.
  intros HV Hmin HK. rewrite (qform_mat_eq _ _ x (threshold_spectral w V K Hmin HK)).
  apply (sandwich_psd m); [exact HV|]. apply Forall_map_nonneg. intros c _. apply clip0_nonneg.
Qed.

Theorem flip_psd m w V K x : Forall (fun r => length r = m) V ->
  Forall (fun c => hd 0 w <= c) w -> mat_eq K (sandwich V w) -> 0 <= qform (flip_matrix w V K) x.
Proof.
  intros HV Hmin HK. rewrite (qform_mat_eq _ _ x (flip_spectral w V K Hmin HK)).
  apply (sandwich_psd m); [exact HV|]. apply Forall_map_nonneg. intros c _. apply Qabs_nonneg.
Qed.

(* ---- displace *)
Lemma vsub_compat a a' : Forall2 Qeq a a' -> forall b b', Forall2 Qeq b b' -> Forall2 Qeq (vsub a b) (vsub a' b').
Proof. induction 1; intros b b' Hb; destruct Hb; simpl; constructor; [rewrite H, H1; reflexivity|auto]. Qed.
Lemma msub_compat A A' : mat_eq A A' -> forall B B', mat_eq B B' -> mat_eq (msub A B) (msub A' B').
Proof.
  unfold mat_eq. induction 1; intros B B' Hb; destruct Hb; simpl; constructor;
    [apply vsub_compat; assumption|apply IHForall2; assumption].
Qed.
Lemma vscale_compat s a a' : Forall2 Qeq a a' -> Forall2 Qeq (vscale s a) (vscale s a').
Proof. induction 1; simpl; constructor; [rewrite H; reflexivity|assumption]. Qed.
Lemma mscale_compat s A A' : mat_eq A A' -> mat_eq (mscale s A) (mscale s A').
Proof. unfold mat_eq. induction 1; simpl; constructor; [apply vscale_compat; assumption|assumption]. Qed.

Lemma vsub_vscale_maps {A} (f g : A -> Q) s l :
  vsub (map f l) (vscale s (map g l)) = map (fun r => f r - s * g r) l.
Proof. induction l; simpl; [reflexivity|]. rewrite IHl. reflexivity. Qed.
Lemma msub_mscale_maps {A} (F G : A -> list Q) s l :
  msub (map F l) (mscale s (map G l)) = map (fun r => vsub (F r) (vscale s (G r))) l.
Proof. induction l; simpl; [reflexivity|]. rewrite IHl. reflexivity. Qed.

Lemma dot3_shift a : forall w s b,
  dot3 a w b - s * dot3 a (repeat 1 (length w)) b == dot3 a (map (fun c => c - s) w) b.
Proof. induction a; intros [|c w] s [|y b]; simpl; try ring. rewrite <- IHa. ring. Qed.

(* K - wmin * I = V diag(w - wmin) V^T when V V^T = I *)
Theorem displace_spectral wmin w V K :
  mat_eq K (sandwich V w) -> mat_eq (eye (length K)) (sandwich V (repeat 1 (length w))) ->
  mat_eq (displace_matrix wmin K)
         (sandwich V (if Qltb wmin 0 then map (fun c => c - wmin) w else w)).
Proof.
  intros HK HI. unfold displace_matrix. destruct (Qltb wmin 0); [|exact HK].
  eapply mat_eq_trans.
  - apply msub_compat; [exact HK|]. apply mscale_compat. exact HI.
  - unfold sandwich. rewrite msub_mscale_maps. apply Forall2_map_same. intros ra _.
    rewrite vsub_vscale_maps. apply Forall2_map_same. intros rb _. apply dot3_shift.
Qed.

Theorem displace_psd m wmin w V K x : Forall (fun r => length r = m) V ->
  wmin = hd 0 w -> Forall (fun c => hd 0 w <= c) w ->
  mat_eq K (sandwich V w) -> mat_eq (eye (length K)) (sandwich V (repeat 1 (length w))) ->
  0 <= qform (displace_matrix wmin K) x.
Proof.
  intros HV -> Hmin HK HI. rewrite (qform_mat_eq _ _ x (displace_spectral _ w V K HK HI)).
  apply (sandwich_psd m); [exact HV|].
  destruct (Qltb (hd 0 w) 0) eqn:E.
  - apply Forall_forall. intros c Hc. apply in_map_iff in Hc. destruct Hc as [c' [<- Hin]].
    rewrite Forall_forall in Hmin. specialize (Hmin c' Hin). simpl in Hmin. lra.
  - apply Qltb_false in E. apply min_nonneg_all; assumption.
Qed.

Lemma nth_vsub a : forall b i, (i < length a)%nat -> (i < length b)%nat ->
  nth i (vsub a b) 0 = nth i a 0 - nth i b 0.
Proof. induction a; intros [|y b] [|i] Ha Hb; simpl in *; try lia; [reflexivity|]. apply IHa; lia. Qed.
Lemma nth_msub A : forall B i, (i < length A)%nat -> (i < length B)%nat ->
  nth i (msub A B) [] = vsub (nth i A []) (nth i B []).
Proof. induction A; intros [|y B] [|i] Ha Hb; simpl in *; try lia; [reflexivity|]. apply IHA; lia. Qed.

Lemma eye_entry n a b : (a < n)%nat -> (b < n)%nat ->
  nth b (nth a (eye n) []) 0 = if Nat.eqb a b then 1 else 0.
Proof. intros Ha Hb. unfold eye. rewrite nth_map_seq by exact Ha. rewrite nth_map_seq by exact Hb. reflexivity. Qed.

(* displace = K - wmin * identity, entry by entry (no spectral assumption) *)
Theorem displace_entry wmin K a b : Qltb wmin 0 = true ->
  (a < length K)%nat -> (b < length K)%nat -> (b < length (nth a K []))%nat ->
  nth b (nth a (displace_matrix wmin K) []) 0 = nth b (nth a K []) 0 - wmin * (if Nat.eqb a b then 1 else 0).
Proof.
  intros E Ha Hb Hr. unfold displace_matrix. rewrite E. set (n := length K).
  assert (Le : length (eye n) = n) by (unfold eye; rewrite map_length, seq_length; reflexivity).
  rewrite nth_msub; [|exact Ha|unfold mscale; rewrite map_length, Le; exact Ha].
  unfold mscale. rewrite (nth_map_d _ _ _ []) by (rewrite Le; exact Ha).
  assert (Lr : length (nth a (eye n) []) = n).
  { unfold eye. rewrite nth_map_seq by exact Ha. rewrite map_length, seq_length. reflexivity. }
  rewrite nth_vsub; [|exact Hr|unfold vscale; rewrite map_length, Lr; exact Hb].
  unfold vscale. rewrite (nth_map_d _ _ _ 0) by (rewrite Lr; exact Hb).
  rewrite eye_entry by assumption. reflexivity.
Qed.

(* inputs without negative eigenvalue are returned unchanged *)
Lemma threshold_unchanged w V K : 0 <= hd 0 w -> threshold_matrix w V K = K.
Proof. intros H. unfold threshold_matrix. apply Qltb_false in H. rewrite H. reflexivity. Qed.
Lemma flip_unchanged w V K : 0 <= hd 0 w -> flip_matrix w V K = K.
Proof. intros H. unfold flip_matrix. apply Qltb_false in H. rewrite H. reflexivity. Qed.
Lemma displace_unchanged wmin K : 0 <= wmin -> displace_matrix wmin K = K.
Proof. intros H. unfold displace_matrix. apply Qltb_false in H. rewrite H. reflexivity. Qed.

(* ================================================================== the decidable side conditions of the tie *)
Lemma eqb_vec_sound a : forall b, eqb_vec a b = true -> Forall2 Qeq a b.
Proof.
  induction a; intros [|y b] H; simpl in H; try discriminate; constructor.
  - apply andb_prop in H. apply Qeq_bool_iff. tauto.
  - apply IHa. apply andb_prop in H. tauto.
Qed.
Lemma eqb_mat_sound A : forall B, eqb_mat A B = true -> mat_eq A B.
Proof.
  unfold mat_eq. induction A; intros [|y B] H; simpl in H; try discriminate; constructor.
  - apply eqb_vec_sound. apply andb_prop in H. tauto.
  - apply IHA. apply andb_prop in H. tauto.
Qed.
Lemma mat_eq_length A B : mat_eq A B -> length A = length B.
Proof. induction 1; simpl; auto. Qed.

Lemma sorted_asc_min w : sorted_asc w = true -> Forall (fun c => hd 0 w <= c) w.
Proof.
  induction w as [|x r IH]; intros H; [constructor|].
  constructor; [apply Qle_refl|]. destruct r as [|y r']; [constructor|].
  change (sorted_asc (x :: y :: r')) with (Qle_bool x y && sorted_asc (y :: r')) in H.
  apply andb_prop in H. destruct H as [Hxy Hs]. apply Qle_bool_iff in Hxy.
  specialize (IH Hs). simpl in IH |- *. eapply Forall_impl; [|exact IH].
  intros c Hc. simpl in Hc. eapply Qle_trans; eassumption.
Qed.

Lemma spectral_ok_sound w V K : spectral_ok w V K = true ->
  mat_eq K (sandwich V w) /\ mat_eq (eye (length K)) (sandwich V (repeat 1 (length w))) /\
  Forall (fun c => hd 0 w <= c) w /\ Forall (fun r => length r = length w) V.
Proof.
  unfold spectral_ok. intros H.
  repeat (apply andb_prop in H; destruct H as [H ?]).
  pose proof (eqb_mat_sound _ _ H) as HK.
  split; [exact HK|]. split.
  - apply mat_eq_length in HK. unfold sandwich in HK. rewrite map_length in HK. rewrite HK.
    apply eqb_mat_sound. assumption.
  - split; [apply sorted_asc_min; assumption|].
    apply Forall_forall. intros r Hr. rewrite forallb_forall in H1. apply Nat.eqb_eq. apply H1. exact Hr.
Qed.

(* every post-processing model output on a case accepted by the tie is positive semidefinite over Q *)
Theorem post_model_psd which w V K x : spectral_ok w V K = true -> 0 <= qform (post_model which w V K) x.
Proof.
  intros H. apply spectral_ok_sound in H. destruct H as [HK [HI [Hmin HV]]].
  destruct which as [|[|which]]; simpl.
  - eapply threshold_psd; eassumption.
  - eapply displace_psd; try eassumption. reflexivity.
  - eapply flip_psd; eassumption.
Qed.
