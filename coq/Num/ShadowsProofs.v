(* C60  Lemmas about the classical-shadow model (ShadowsModel.v). *)
From Coq Require Import List ZArith QArith Qcanon Bool Ring Lia.
From PLV Require Import Num.ShadowsModel.
Import ListNotations.

(* ------------------------------------------------------------------ C is a commutative ring *)
Lemma C_ring : ring_theory cz c1 cadd cmul csub copp (@eq C).
Proof.
  constructor; intros;
    repeat match goal with x : C |- _ => destruct x end;
    unfold cadd, cmul, csub, copp, cz, c1; cbn [fst snd]; f_equal; ring.
Qed.
Add Ring Cring : C_ring.

Lemma cq_mul : forall a b, cq (a * b)%Qc = cmul (cq a) (cq b).
Proof. intros; unfold cq, cmul; cbn [fst snd]; f_equal; ring. Qed.
Lemma cq_add : forall a b, cq (a + b)%Qc = cadd (cq a) (cq b).
Proof. intros; unfold cq, cadd; cbn [fst snd]; f_equal; ring. Qed.
Lemma cq_0 : cq 0%Qc = cz. Proof. reflexivity. Qed.
Lemma cq_1 : cq 1%Qc = c1. Proof. reflexivity. Qed.

Lemma qeqb_eq : forall x y, qeqb x y = true -> x = y.
Proof. intros x y H; apply Qc_is_canon; apply Qeq_bool_eq; exact H. Qed.
Lemma ceqb_eq : forall x y, ceqb x y = true -> x = y.
Proof.
  intros [a b] [c d] H; unfold ceqb in H; cbn [fst snd] in H.
  apply andb_true_iff in H; destruct H as [H1 H2].
  f_equal; apply qeqb_eq; assumption.
Qed.
Lemma oeqb_eq : forall n (A B : Op n), oeqb n A B = true -> A = B.
Proof.
  induction n as [|m IH]; intros A B H.
  - apply ceqb_eq; exact H.
  - destruct A as [a0 a1 a2 a3], B as [b0 b1 b2 b3]; cbn [oeqb q00 q01 q10 q11] in H.
    repeat (apply andb_true_iff in H; destruct H as [H ?]).
    f_equal; apply IH; assumption.
Qed.

(* ------------------------------------------------------------------ entries: a ring homomorphism view *)
Definition Path : Type := list (bool * bool).
Definition blk {A} (ij : bool * bool) (x : Quad A) : A :=
  match ij with
  | (false, false) => q00 x | (false, true) => q01 x
  | (true, false) => q10 x | (true, true) => q11 x
  end.
Fixpoint entry (n : nat) : Op n -> Path -> C :=
  match n return Op n -> Path -> C with
  | O => fun x _ => x
  | S m => fun x p => match p with
                      | [] => entry m (blk (false, false) x) []
                      | ij :: p' => entry m (blk ij x) p'
                      end
  end.

Lemma op_ext : forall n (A B : Op n), (forall p, entry n A p = entry n B p) -> A = B.
Proof.
  induction n as [|m IH]; intros A B H.
  - exact (H []).
  - destruct A as [a0 a1 a2 a3], B as [b0 b1 b2 b3]; f_equal; apply IH; intro p.
    + exact (H ((false, false) :: p)).
    + exact (H ((false, true) :: p)).
    + exact (H ((true, false) :: p)).
    + exact (H ((true, true) :: p)).
Qed.
Lemma entry_oadd : forall n A B p, entry n (oadd n A B) p = cadd (entry n A p) (entry n B p).
Proof.
  induction n as [|m IH]; intros A B p; [reflexivity|].
  destruct p as [|[[|] [|]] p']; cbn [entry oadd blk q00 q01 q10 q11]; apply IH.
Qed.
Lemma entry_oscale : forall n c A p, entry n (oscale n c A) p = cmul c (entry n A p).
Proof.
  induction n as [|m IH]; intros c A p; [reflexivity|].
  destruct p as [|[[|] [|]] p']; cbn [entry oscale blk q00 q01 q10 q11]; apply IH.
Qed.
Lemma entry_ozero : forall n p, entry n (ozero n) p = cz.
Proof.
  induction n as [|m IH]; intros p; [reflexivity|].
  destruct p as [|[[|] [|]] p']; cbn [entry ozero blk q00 q01 q10 q11]; apply IH.
Qed.
Lemma entry_osum : forall n l p, entry n (osum n l) p = csum (map (fun x => entry n x p) l).
Proof.
  induction l as [|x l IH]; intros p; cbn [osum fold_right map csum].
  - apply entry_ozero.
  - rewrite entry_oadd. f_equal. apply IH.
Qed.
Ltac omod := apply op_ext; intro; repeat rewrite ?entry_oadd, ?entry_oscale, ?entry_ozero; ring.

Lemma oscale_1 : forall n A, oscale n c1 A = A.            Proof. intros; omod. Qed.
Lemma oscale_0 : forall n A, oscale n cz A = ozero n.       Proof. intros; omod. Qed.
Lemma oadd_0_r : forall n A, oadd n A (ozero n) = A.        Proof. intros; omod. Qed.
Lemma oadd_0_l : forall n A, oadd n (ozero n) A = A.        Proof. intros; omod. Qed.
Lemma kron2_0 : forall A : M2, kron2 0 A c1 = A.
Proof. intros [a b c d]; unfold kron2; cbn [oscale q00 q01 q10 q11]; f_equal; ring. Qed.
Lemma blk_kron2 : forall m ij A X, blk ij (kron2 m A X) = oscale m (blk ij A) X.
Proof. intros m [[|] [|]] A X; reflexivity. Qed.
Lemma entry_kron2 : forall m A X ij p,
  entry (S m) (kron2 m A X) (ij :: p) = cmul (blk ij A) (entry m X p).
Proof. intros; cbn [entry]; rewrite blk_kron2; apply entry_oscale. Qed.
Lemma entry_S_nil : forall m (x : Op (S m)), entry (S m) x [] = entry (S m) x [(false, false)].
Proof. reflexivity. Qed.

(* ------------------------------------------------------------------ trace pairing *)
Lemma otr_oadd : forall n A B, otr n (oadd n A B) = cadd (otr n A) (otr n B).
Proof.
  induction n as [|m IH]; intros A B; [reflexivity|].
  cbn [otr oadd q00 q11]; rewrite !IH; ring.
Qed.
Lemma otr_omul : forall n A B, otr n (omul n A B) = pairing n A B.
Proof.
  induction n as [|m IH]; intros A B; [reflexivity|].
  cbn [otr omul pairing q00 q01 q10 q11]; rewrite !otr_oadd, !IH; ring.
Qed.
Lemma pairing_scale_r : forall n c A X, pairing n A (oscale n c X) = cmul c (pairing n A X).
Proof.
  induction n as [|m IH]; intros c A X.
  - cbn [pairing oscale]; ring.
  - cbn [pairing oscale q00 q01 q10 q11]; rewrite !IH; ring.
Qed.
Lemma pairing_scale_l : forall n c A X, pairing n (oscale n c A) X = cmul c (pairing n A X).
Proof.
  induction n as [|m IH]; intros c A X.
  - cbn [pairing oscale]; ring.
  - cbn [pairing oscale q00 q01 q10 q11]; rewrite !IH; ring.
Qed.
Lemma pairing_add_l : forall n A B X, pairing n (oadd n A B) X = cadd (pairing n A X) (pairing n B X).
Proof.
  induction n as [|m IH]; intros A B X.
  - cbn [pairing oadd]; ring.
  - cbn [pairing oadd q00 q01 q10 q11]; rewrite !IH; ring.
Qed.
Lemma pairing_zero_l : forall n X, pairing n (ozero n) X = cz.
Proof.
  induction n as [|m IH]; intros X.
  - cbn [pairing ozero]; ring.
  - cbn [pairing ozero q00 q01 q10 q11]; rewrite !IH; ring.
Qed.
Lemma pairing_zero_r : forall n A, pairing n A (ozero n) = cz.
Proof.
  induction n as [|m IH]; intros A.
  - cbn [pairing ozero]; ring.
  - cbn [pairing ozero q00 q01 q10 q11]; rewrite !IH; ring.
Qed.
Lemma pairing_oid_r : forall n A, pairing n A (oid n) = otr n A.
Proof.
  induction n as [|m IH]; intros A.
  - cbn [pairing oid otr]; ring.
  - cbn [pairing oid otr q00 q01 q10 q11]; rewrite !IH, !pairing_zero_r; ring.
Qed.
Lemma pairing_kron_r : forall m R A X,
  pairing (S m) R (kron2 m A X) =
  cadd (cadd (cmul (q00 A) (pairing m (q00 R) X)) (cmul (q10 A) (pairing m (q01 R) X)))
       (cadd (cmul (q01 A) (pairing m (q10 R) X)) (cmul (q11 A) (pairing m (q11 R) X))).
Proof. intros; unfold kron2; cbn [pairing q00 q01 q10 q11]; rewrite !pairing_scale_r; reflexivity. Qed.
Lemma pairing_kron_kron : forall m A B X Y,
  pairing (S m) (kron2 m A X) (kron2 m B Y) = cmul (pairing 1 A B) (pairing m X Y).
Proof.
  intros; rewrite pairing_kron_r; unfold kron2; cbn [pairing q00 q01 q10 q11].
  rewrite !pairing_scale_l; ring.
Qed.
Lemma pairing_osum_l : forall n {T} (c : T -> C) (h : T -> Op n) P l,
  pairing n (osum n (map (fun x => oscale n (c x) (h x)) l)) P
  = csum (map (fun x => cmul (c x) (pairing n (h x) P)) l).
Proof.
  induction l as [|x l IH]; cbn [map osum fold_right csum].
  - apply pairing_zero_l.
  - rewrite pairing_add_l, pairing_scale_l. f_equal. exact IH.
Qed.

Lemma prob_fast_eq : forall n rho rb, prob_fast n rho rb = prob n rho rb.
Proof. intros; unfold prob, prob_fast; rewrite otr_omul; reflexivity. Qed.
Lemma exact_ham_fast_eq : forall n rho h, exact_ham_fast n rho h = exact_ham n rho h.
Proof.
  intros; unfold exact_ham, exact_ham_fast; f_equal; apply map_ext; intro t.
  rewrite otr_omul; reflexivity.
Qed.

(* ------------------------------------------------------------------ scalar sums *)
Lemma csum_app : forall l1 l2 : list C, csum (l1 ++ l2) = cadd (csum l1) (csum l2).
Proof.
  induction l1 as [|y l1 IH1]; intro l2.
  - cbn [app]. unfold csum at 2. cbn [fold_right]. ring.
  - cbn [app]. unfold csum in *. cbn [fold_right]. rewrite IH1. ring.
Qed.
Lemma csum_flat_map : forall {T} (F : list T -> C) (L : list (list T)) (Sx : list T),
  csum (map F (flat_map (fun x => map (cons x) L) Sx))
  = csum (map (fun x => csum (map (fun r => F (x :: r)) L)) Sx).
Proof.
  intros T F L Sx; induction Sx as [|x Sx IH]; [reflexivity|].
  cbn [flat_map]; rewrite map_app, csum_app, IH, map_map. reflexivity.
Qed.
Lemma csum_lin4_inner : forall {T} (L : list T) a b c d s (f g p q E : T -> C),
  csum (map (fun r => cmul (cadd (cadd (cmul a (f r)) (cmul b (g r))) (cadd (cmul c (p r)) (cmul d (q r))))
                           (cmul s (E r))) L)
  = cadd (cadd (cmul (cmul a s) (csum (map (fun r => cmul (f r) (E r)) L)))
               (cmul (cmul b s) (csum (map (fun r => cmul (g r) (E r)) L))))
         (cadd (cmul (cmul c s) (csum (map (fun r => cmul (p r) (E r)) L)))
               (cmul (cmul d s) (csum (map (fun r => cmul (q r) (E r)) L)))).
Proof.
  intros; induction L as [|r L IH]; cbn [map csum fold_right].
  - ring.
  - unfold csum in IH; rewrite IH; ring.
Qed.
Lemma csum_lin4_outer : forall {T} (l : list T) (a b c d : T -> C) e0 e1 e2 e3,
  csum (map (fun x => cadd (cadd (cmul (a x) e0) (cmul (b x) e1)) (cadd (cmul (c x) e2) (cmul (d x) e3))) l)
  = cadd (cadd (cmul (csum (map a l)) e0) (cmul (csum (map b l)) e1))
         (cadd (cmul (csum (map c l)) e2) (cmul (csum (map d l)) e3)).
Proof.
  intros; induction l as [|x l IH]; cbn [map csum fold_right].
  - ring.
  - unfold csum in IH; rewrite IH; ring.
Qed.
Lemma csum_add : forall {T} (l : list T) (f g : T -> C),
  csum (map (fun x => cadd (f x) (g x)) l) = cadd (csum (map f l)) (csum (map g l)).
Proof.
  intros; induction l as [|x l IH]; cbn [map csum fold_right].
  - ring.
  - unfold csum in IH; rewrite IH; ring.
Qed.
Lemma csum_scale : forall {T} (l : list T) c (f : T -> C),
  csum (map (fun x => cmul c (f x)) l) = cmul c (csum (map f l)).
Proof.
  intros; induction l as [|x l IH]; cbn [map csum fold_right].
  - ring.
  - unfold csum in IH; rewrite IH; ring.
Qed.
Lemma csum_zero : forall {T} (l : list T), csum (map (fun _ => cz) l) = cz.
Proof.
  intros; induction l as [|x l IH]; cbn [map csum fold_right].
  - reflexivity.
  - unfold csum in IH; rewrite IH; ring.
Qed.

(* ------------------------------------------------------------------ the single-qubit facts (closed computations) *)
(* coefficient of rho_ij in block (k,l) of the averaged snapshot of one qubit *)
Definition coef (i j k l : bool) (x : RB) : C :=
  cmul (cmul (cq qthird) (blk (j, i) (proj1 x))) (blk (k, l) (snap1 x)).
Lemma coef_sum : forall i j k l,
  csum (map (coef i j k l) six) = if Bool.eqb i k && Bool.eqb j l then c1 else cz.
Proof. intros [|] [|] [|] [|]; apply ceqb_eq; vm_compute; reflexivity. Qed.

Lemma rotated_basis_is_proj1 : forall x, rotated_basis x = proj1 x.
Proof. intros [[| |] [|]]; apply (oeqb_eq 1); vm_compute; reflexivity. Qed.
Lemma rot_unitary : forall r,
  omul 1 (oadj 1 (rot_num r)) (rot_num r) = oscale 1 (cq (rot_norm2 r)) pI.
Proof. intros [| |]; apply (oeqb_eq 1); vm_compute; reflexivity. Qed.
Lemma snap1_hermitian_trace1 : forall x, oadj 1 (snap1 x) = snap1 x /\ otr 1 (snap1 x) = c1.
Proof. intros [[| |] [|]]; split; (apply (oeqb_eq 1) || apply ceqb_eq); vm_compute; reflexivity. Qed.
Lemma pair_snap1_pI : forall x, pairing 1 (snap1 x) pI = c1.
Proof. intros [[| |] [|]]; apply ceqb_eq; vm_compute; reflexivity. Qed.
Lemma pair_snap1_pauli : forall rc b p,
  pairing 1 (snap1 (rc, b)) (pauli p) = if recipe_eqb rc p then cq (sgn b * q3)%Qc else cz.
Proof. intros [| |] [|] [| |]; apply ceqb_eq; vm_compute; reflexivity. Qed.

(* ------------------------------------------------------------------ enumeration *)
Lemma all_rb_length_in : forall n rb, In rb (all_rb n) -> length rb = n.
Proof.
  induction n as [|m IH]; intros rb H.
  - destruct H as [<-|[]]; reflexivity.
  - cbn [all_rb] in H. apply in_flat_map in H. destruct H as [x [_ H]].
    apply in_map_iff in H. destruct H as [r [<- H]]. cbn [length]. f_equal. apply IH; exact H.
Qed.
Lemma all_rb_complete : forall n rb, length rb = n -> In rb (all_rb n).
Proof.
  induction n as [|m IH]; intros rb H.
  - destruct rb; [left; reflexivity | discriminate].
  - destruct rb as [|x r]; [discriminate|]. cbn [all_rb]. apply in_flat_map. exists x. split.
    + destruct x as [[| |] [|]]; cbn; tauto.
    + apply in_map. apply IH. injection H; auto.
Qed.
Lemma all_rb_count : forall n, length (all_rb n) = (6 ^ n)%nat.
Proof.
  induction n as [|m IH]; [reflexivity|].
  cbn [all_rb six flat_map]. rewrite !app_length, !map_length, IH. cbn [length Nat.pow]. lia.
Qed.

(* ------------------------------------------------------------------ unbiasedness of the snapshot, all n *)
Definition avge (n : nat) (rho : Op n) (p : Path) : C :=
  csum (map (fun rb => cmul (prob n rho rb) (entry n (snap n rb) p)) (all_rb n)).
Lemma entry_avg : forall n rho p, entry n (avg n rho) p = avge n rho p.
Proof.
  intros; unfold avg, avge. rewrite entry_osum, map_map. f_equal. apply map_ext; intro rb.
  apply entry_oscale.
Qed.

Lemma prob_S : forall m (rho : Op (S m)) x r,
  prob (S m) rho (x :: r) =
  cadd (cadd (cmul (cmul (cq qthird) (q00 (proj1 x))) (prob m (q00 rho) r))
             (cmul (cmul (cq qthird) (q10 (proj1 x))) (prob m (q01 rho) r)))
       (cadd (cmul (cmul (cq qthird) (q01 (proj1 x))) (prob m (q10 rho) r))
             (cmul (cmul (cq qthird) (q11 (proj1 x))) (prob m (q11 rho) r))).
Proof.
  intros; unfold prob. rewrite !otr_omul. cbn [proj w3]. rewrite pairing_kron_r, cq_mul. ring.
Qed.

Lemma avge_id : forall n rho p, avge n rho p = entry n rho p.
Proof.
  induction n as [|m IH]; intros rho p.
  - unfold avge, prob. cbn [all_rb map csum fold_right w3 snap proj entry omul otr]. rewrite cq_1. ring.
  - assert (Hc : forall kl p', avge (S m) rho (kl :: p') = entry (S m) rho (kl :: p')).
    { intros kl p'. unfold avge. cbn [all_rb]. rewrite csum_flat_map.
      transitivity (csum (map (fun x =>
          cadd (cadd (cmul (coef false false (fst kl) (snd kl) x) (entry m (q00 rho) p'))
                     (cmul (coef false true (fst kl) (snd kl) x) (entry m (q01 rho) p')))
               (cadd (cmul (coef true false (fst kl) (snd kl) x) (entry m (q10 rho) p'))
                     (cmul (coef true true (fst kl) (snd kl) x) (entry m (q11 rho) p')))) six)).
      - f_equal. apply map_ext; intro x.
        transitivity (csum (map (fun r =>
           cmul (cadd (cadd (cmul (cmul (cq qthird) (q00 (proj1 x))) (prob m (q00 rho) r))
                            (cmul (cmul (cq qthird) (q10 (proj1 x))) (prob m (q01 rho) r)))
                      (cadd (cmul (cmul (cq qthird) (q01 (proj1 x))) (prob m (q10 rho) r))
                            (cmul (cmul (cq qthird) (q11 (proj1 x))) (prob m (q11 rho) r))))
                (cmul (blk kl (snap1 x)) (entry m (snap m r) p'))) (all_rb m))).
        + f_equal. apply map_ext; intro r. rewrite prob_S. cbn [snap]. rewrite entry_kron2. reflexivity.
        + rewrite csum_lin4_inner.
          change (csum (map (fun r => cmul (prob m (q00 rho) r) (entry m (snap m r) p')) (all_rb m)))
            with (avge m (q00 rho) p').
          change (csum (map (fun r => cmul (prob m (q01 rho) r) (entry m (snap m r) p')) (all_rb m)))
            with (avge m (q01 rho) p').
          change (csum (map (fun r => cmul (prob m (q10 rho) r) (entry m (snap m r) p')) (all_rb m)))
            with (avge m (q10 rho) p').
          change (csum (map (fun r => cmul (prob m (q11 rho) r) (entry m (snap m r) p')) (all_rb m)))
            with (avge m (q11 rho) p').
          rewrite !IH. unfold coef. destruct kl as [k l]; cbn [fst snd blk]. reflexivity.
      - rewrite csum_lin4_outer, !coef_sum.
        destruct kl as [[|] [|]]; cbn [fst snd Bool.eqb andb entry blk]; ring. }
    destruct p as [|kl p']; [rewrite entry_S_nil; unfold avge; cbn [entry]; apply (Hc (false, false) []) | apply Hc].
Qed.

Theorem avg_id : forall n (rho : Op n), avg n rho = rho.
Proof. intros; apply op_ext; intro p; rewrite entry_avg; apply avge_id. Qed.

(* one qubit, written out over the six (recipe, outcome) pairs with formal entries *)
Lemma avg_1q_explicit : forall a b c d : C,
  osum 1 (map (fun x => oscale 1 (cmul (cq qthird) (otr 1 (omul 1 (mkQ a b c d) (proj1 x)))) (snap1 x)) six)
  = mkQ a b c d.
Proof.
  intros. transitivity (avg 1 (mkQ a b c d)); [|apply (avg_id 1)].
  unfold avg, prob. cbn [all_rb six flat_map map app w3 snap proj].
  rewrite !kron2_0. replace (cq (qthird * 1)%Qc) with (cq qthird) by (f_equal; ring). reflexivity.
Qed.

(* ------------------------------------------------------------------ the Pauli estimator *)
Lemma sgn_xorb : forall a b, sgn (xorb a b) = (sgn a * sgn b)%Qc.
Proof. intros [|] [|]; unfold sgn; cbn [xorb]; ring. Qed.
Lemma est_cons_none : forall x r w, est (x :: r) (None :: w) = est r w.
Proof. intros [rc b] r w; reflexivity. Qed.
Lemma est_cons_some : forall rc b r p w,
  est ((rc, b) :: r) (Some p :: w) = if recipe_eqb rc p then (sgn b * q3 * est r w)%Qc else 0%Qc.
Proof.
  intros; unfold est; cbn [matches parity pow3].
  destruct (recipe_eqb rc p); cbn [andb]; [|reflexivity].
  destruct (matches r w); [rewrite sgn_xorb; ring | ring].
Qed.
Lemma est_is_trace : forall n rb w, length rb = n -> length w = n ->
  cq (est rb w) = pairing n (snap n rb) (pword n w).
Proof.
  induction n as [|m IH]; intros rb w Hr Hw.
  - destruct rb, w; try discriminate. reflexivity.
  - destruct rb as [|[rc b] r]; [discriminate|]. destruct w as [|o w]; [discriminate|].
    injection Hr as Hr. injection Hw as Hw. cbn [snap pword].
    destruct o as [p|].
    + rewrite pairing_kron_kron, pair_snap1_pauli, est_cons_some, <- (IH r w Hr Hw).
      destruct (recipe_eqb rc p).
      * rewrite cq_mul; reflexivity.
      * rewrite cq_0; ring.
    + rewrite pairing_kron_kron, pair_snap1_pI, est_cons_none, <- (IH r w Hr Hw). ring.
Qed.

Theorem pauli_unbiased : forall n (rho : Op n) (w : word), length w = n ->
  csum (map (fun rb => cmul (prob n rho rb) (cq (est rb w))) (all_rb n)) = otr n (omul n rho (pword n w)).
Proof.
  intros n rho w Hw. rewrite otr_omul.
  transitivity (pairing n (avg n rho) (pword n w)); [|rewrite avg_id; reflexivity]. unfold avg.
  rewrite pairing_osum_l. f_equal. apply map_ext_in; intros rb Hin.
  rewrite (est_is_trace n rb w (all_rb_length_in n rb Hin) Hw). reflexivity.
Qed.

Lemma est_ham_cons : forall rb c w h, est_ham rb ((c, w) :: h) = (c * est rb w + est_ham rb h)%Qc.
Proof. reflexivity. Qed.
Theorem ham_unbiased : forall n (rho : Op n) (h : Ham), Forall (fun t => length (snd t) = n) h ->
  csum (map (fun rb => cmul (prob n rho rb) (cq (est_ham rb h))) (all_rb n)) = exact_ham n rho h.
Proof.
  intros n rho h Hh; induction Hh as [|[c w] h Hw Hh IH].
  - unfold est_ham, exact_ham. cbn [map qsum fold_right csum].
    transitivity (csum (map (fun _ : list RB => cz) (all_rb n))).
    + f_equal. apply map_ext; intro. rewrite cq_0. ring.
    + apply csum_zero.
  - cbn [snd] in Hw.
    transitivity (cadd (cmul (cq c) (csum (map (fun rb => cmul (prob n rho rb) (cq (est rb w))) (all_rb n))))
                       (csum (map (fun rb => cmul (prob n rho rb) (cq (est_ham rb h))) (all_rb n)))).
    + transitivity (csum (map (fun rb => cadd (cmul (cq c) (cmul (prob n rho rb) (cq (est rb w))))
                                              (cmul (prob n rho rb) (cq (est_ham rb h)))) (all_rb n))).
      * f_equal. apply map_ext; intro rb. rewrite est_ham_cons, cq_add, cq_mul. ring.
      * etransitivity;
          [apply (csum_add (all_rb n) (fun rb => cmul (cq c) (cmul (prob n rho rb) (cq (est rb w))))
                           (fun rb => cmul (prob n rho rb) (cq (est_ham rb h))))|].
        f_equal. apply (csum_scale (all_rb n) (cq c) (fun rb => cmul (prob n rho rb) (cq (est rb w)))).
    + rewrite IH, (pauli_unbiased n rho w Hw). reflexivity.
Qed.

(* the weights are a probability distribution when tr rho = 1 *)
Lemma pword_none : forall n, pword n (repeat None n) = oid n.
Proof.
  induction n as [|m IH]; [reflexivity|].
  cbn [repeat pword]. rewrite IH. unfold kron2, pI. cbn [q00 q01 q10 q11 oid].
  rewrite oscale_1, oscale_0. reflexivity.
Qed.
Lemma est_none : forall rb, est rb (repeat None (length rb)) = 1%Qc.
Proof.
  induction rb as [|x r IH]; [reflexivity|]. cbn [length repeat]. rewrite est_cons_none. exact IH.
Qed.
Theorem probs_sum : forall n (rho : Op n), csum (map (prob n rho) (all_rb n)) = otr n rho.
Proof.
  intros. transitivity (otr n (omul n rho (pword n (repeat None n)))).
  - rewrite <- (pauli_unbiased n rho (repeat None n) (repeat_length _ _)).
    f_equal. apply map_ext_in; intros rb Hin.
    assert (E : est rb (repeat None n) = 1%Qc)
      by (rewrite <- (all_rb_length_in n rb Hin); apply est_none).
    rewrite E, cq_1. ring.
  - rewrite otr_omul, pword_none. apply pairing_oid_r.
Qed.

(* ------------------------------------------------------------------ documented form *)
Lemma table_ok_map : forall {T} (f : T -> Z) ok n (t : list (list T)),
  (forall x, ok (f x) = true) -> Forall (fun row => length row = n) t ->
  table_ok (Z.of_nat (length t)) n ok (map (map f) t) = true.
Proof.
  intros T f ok n t Hok Hrows. unfold table_ok. rewrite map_length, Z.eqb_refl. cbn [andb].
  apply forallb_forall. intros row Hin. apply in_map_iff in Hin. destruct Hin as [r [<- Hin]].
  rewrite Forall_forall in Hrows. rewrite map_length, (Hrows r Hin), Nat.eqb_refl. cbn [andb].
  apply forallb_forall. intros z Hz. apply in_map_iff in Hz. destruct Hz as [y [<- _]]. apply Hok.
Qed.
Theorem measure_rows_well_formed : forall n rec samples,
  length rec = length samples ->
  Forall (fun row => length row = n) rec -> Forall (fun row => length row = n) samples ->
  well_formed (Z.of_nat (length samples)) n (fst (measure_rows rec samples)) (snd (measure_rows rec samples)) = true.
Proof.
  intros n rec samples Hl Hr Hs. unfold well_formed, measure_rows. cbn [fst snd].
  rewrite (table_ok_map Z_of_bit in01 n samples); [|intros [|]; reflexivity|exact Hs].
  rewrite <- Hl. rewrite (table_ok_map recipe_idx in012 n rec); [reflexivity|intros [| |]; reflexivity|exact Hr].
Qed.
Theorem enumeration_well_formed : forall n,
  well_formed (Z.of_nat (length (all_rb n))) n
              (map (fun rb => snd (encode_rb rb)) (all_rb n)) (map (fun rb => fst (encode_rb rb)) (all_rb n)) = true.
Proof.
  intros n. unfold well_formed, table_ok. rewrite !map_length, Z.eqb_refl. cbn [andb].
  apply andb_true_iff; split; apply forallb_forall; intros row Hin;
    apply in_map_iff in Hin; destruct Hin as [rb [<- Hin]]; unfold encode_rb; cbn [fst snd];
    apply andb_true_iff; split.
  - rewrite map_length. apply Nat.eqb_eq. apply all_rb_length_in; exact Hin.
  - apply forallb_forall; intros z Hz; apply in_map_iff in Hz; destruct Hz as [[[| |] [|]] [<- _]]; reflexivity.
  - rewrite map_length. apply Nat.eqb_eq. apply all_rb_length_in; exact Hin.
  - apply forallb_forall; intros z Hz; apply in_map_iff in Hz; destruct Hz as [[[| |] [|]] [<- _]]; reflexivity.
Qed.
