(* Model for C49 (pennylane/math/quantum.py, fidelity.py, matrix_manipulation.py).
   No proofs here: this file must keep running for the correspondence check even when a proof breaks.

   Numbers: Gaussian rationals C = Q * Q (exact).
   Matrices on n qubits: quad-trees [qt] of depth n.  [QN a b c d] holds the four blocks
       a = <0|M|0>, b = <0|M|1>, c = <1|M|0>, d = <1|M|1>
   of the MOST significant qubit (= wire 0 = first tensor axis after numpy's reshape to [2]*2n: big-endian).
   State vectors on n qubits: binary trees [vt] of depth n ([VN lo hi], lo = amplitude block with first bit 0).
   The flat row-major arrays PennyLane works on are converted by [qt_of_rows]/[rows_of_qt]
   ([vt_of_list]); these conversions fix the big-endian convention idx(b_0 .. b_{n-1}) = sum b_k 2^(n-1-k)
   and are exercised by every correspondence case.

   Transcribed: reduce_dm (both branches), partial_trace (sort + loop with shifted target index),
   reduce_statevector (joint contraction of psi and conj(psi) + final permutation), dm_from_state_vector,
   _permute_dense_matrix (axes transposition expressed on bit indices), expand_matrix (all branches for
   dense, un-batched input), _compute_purity, fidelity_statevector.  *)
From Coq Require Import List ZArith QArith Qabs Bool Arith.
Import ListNotations.

(* ================================================================== Gaussian rationals *)
Definition C := (Q * Q)%type.
Definition c0 : C := (0, 0).
Definition c1 : C := (1, 0).
Definition cadd (x y : C) : C := (fst x + fst y, snd x + snd y).
Definition cmul (x y : C) : C := (fst x * fst y - snd x * snd y, fst x * snd y + snd x * fst y).
Definition cconj (x : C) : C := (fst x, - snd x).
Definition cnorm2 (x : C) : Q := fst x * fst x + snd x * snd x.
Definition cre (x : C) : Q := fst x.
Definition cofq (q : Q) : C := (q, 0).
Definition ceqb (x y : C) : bool := Qeq_bool (fst x) (fst y) && Qeq_bool (snd x) (snd y).
Definition ceq (x y : C) : Prop := (fst x == fst y)%Q /\ (snd x == snd y)%Q.

Local Close Scope Q_scope.
Local Open Scope nat_scope.

(* ================================================================== trees *)
Inductive qt := QL (x : C) | QN (a b c d : qt).
Inductive vt := VL (x : C) | VN (lo hi : vt).

Fixpoint wf (n : nat) (t : qt) : Prop :=
  match n, t with
  | O, QL _ => True
  | S k, QN a b c d => wf k a /\ wf k b /\ wf k c /\ wf k d
  | _, _ => False
  end.
Fixpoint vwf (n : nat) (v : vt) : Prop :=
  match n, v with
  | O, VL _ => True
  | S k, VN a b => vwf k a /\ vwf k b
  | _, _ => False
  end.
Fixpoint teq (s t : qt) : Prop :=
  match s, t with
  | QL x, QL y => ceq x y
  | QN a b c d, QN a' b' c' d' => teq a a' /\ teq b b' /\ teq c c' /\ teq d d'
  | _, _ => False
  end.

(* ---------------------------------------------------------------- bit indices (big-endian) *)
Fixpoint idx_acc (acc : nat) (bs : list bool) : nat :=
  match bs with [] => acc | b :: r => idx_acc (2 * acc + (if b then 1 else 0)) r end.
Definition idx (bs : list bool) : nat := idx_acc 0 bs.

Fixpoint all_bits (n : nat) : list (list bool) :=
  match n with
  | O => [[]]
  | S k => map (cons false) (all_bits k) ++ map (cons true) (all_bits k)
  end.

Definition pick {A} (br bc : bool) (a b c d : A) : A :=
  if br then (if bc then d else c) else (if bc then b else a).

Fixpoint tget (t : qt) (r c : list bool) : C :=
  match t with
  | QL x => x
  | QN t00 t01 t10 t11 =>
      match r, c with
      | br :: r', bc :: c' =>
          tget (if br then (if bc then t11 else t10) else (if bc then t01 else t00)) r' c'
      | _, _ => c0
      end
  end.

Fixpoint tbuild (n : nat) (f : list bool -> list bool -> C) : qt :=
  match n with
  | O => QL (f [] [])
  | S k => QN (tbuild k (fun r c => f (false :: r) (false :: c)))
              (tbuild k (fun r c => f (false :: r) (true :: c)))
              (tbuild k (fun r c => f (true :: r) (false :: c)))
              (tbuild k (fun r c => f (true :: r) (true :: c)))
  end.

Fixpoint vget (v : vt) (r : list bool) : C :=
  match v with
  | VL x => x
  | VN lo hi => match r with b :: r' => vget (if b then hi else lo) r' | [] => c0 end
  end.

Fixpoint vbuild (n : nat) (f : list bool -> C) : vt :=
  match n with
  | O => VL (f [])
  | S k => VN (vbuild k (fun r => f (false :: r))) (vbuild k (fun r => f (true :: r)))
  end.

(* flat arrays *)
Definition cmat := list (list C).
Definition mnth (m : cmat) (i j : nat) : C := nth j (nth i m []) c0.
Definition qt_of_rows (n : nat) (m : cmat) : qt := tbuild n (fun r c => mnth m (idx r) (idx c)).
Definition rows_of_qt (n : nat) (t : qt) : cmat :=
  map (fun r => map (fun c => tget t r c) (all_bits n)) (all_bits n).
Definition vt_of_list (n : nat) (l : list C) : vt := vbuild n (fun r => nth (idx r) l c0).
Definition list_of_vt (n : nat) (v : vt) : list C := map (vget v) (all_bits n).

(* ================================================================== linear algebra on trees *)
Fixpoint tzero (n : nat) : qt :=
  match n with O => QL c0 | S k => QN (tzero k) (tzero k) (tzero k) (tzero k) end.
Fixpoint teye (n : nat) : qt :=
  match n with O => QL c1 | S k => QN (teye k) (tzero k) (tzero k) (teye k) end.

Fixpoint tadd (s t : qt) : qt :=
  match s, t with
  | QL x, QL y => QL (cadd x y)
  | QN a b c d, QN a' b' c' d' => QN (tadd a a') (tadd b b') (tadd c c') (tadd d d')
  | _, _ => QL c0                                    (* shape mismatch: error value *)
  end.
Fixpoint tscale (k : C) (t : qt) : qt :=
  match t with
  | QL x => QL (cmul k x)
  | QN a b c d => QN (tscale k a) (tscale k b) (tscale k c) (tscale k d)
  end.
Fixpoint ttrace (t : qt) : C :=
  match t with QL x => x | QN a _ _ d => cadd (ttrace a) (ttrace d) end.
(* Kronecker product: s on the more significant qubits *)
Fixpoint tkron (s t : qt) : qt :=
  match s with
  | QL x => tscale x t
  | QN a b c d => QN (tkron a t) (tkron b t) (tkron c t) (tkron d t)
  end.
(* matrix product by 2x2 blocks *)
Fixpoint tmul (s t : qt) : qt :=
  match s, t with
  | QL x, QL y => QL (cmul x y)
  | QN a b c d, QN a' b' c' d' =>
      QN (tadd (tmul a a') (tmul b c')) (tadd (tmul a b') (tmul b d'))
         (tadd (tmul c a') (tmul d c')) (tadd (tmul c b') (tmul d d'))
  | _, _ => QL c0
  end.
(* einsum("ab,ba", A, B) = tr(A B) *)
Fixpoint trprod (s t : qt) : C :=
  match s, t with
  | QL x, QL y => cmul x y
  | QN a b c d, QN a' b' c' d' =>
      cadd (cadd (trprod a a') (trprod b c')) (cadd (trprod c b') (trprod d d'))
  | _, _ => c0
  end.

Fixpoint vconj (v : vt) : vt :=
  match v with VL x => VL (cconj x) | VN a b => VN (vconj a) (vconj b) end.
(* einsum("b,b->", u, v) (no conjugation) *)
Fixpoint vdot (u v : vt) : C :=
  match u, v with
  | VL x, VL y => cmul x y
  | VN a b, VN a' b' => cadd (vdot a a') (vdot b b')
  | _, _ => c0
  end.
(* |u><v*| i.e. entries u_r * v_c *)
Fixpoint vouter (u v : vt) : qt :=
  match u, v with
  | VL x, VL y => QL (cmul x y)
  | VN u0 u1, VN v0 v1 => QN (vouter u0 v0) (vouter u0 v1) (vouter u1 v0) (vouter u1 v1)
  | _, _ => QL c0
  end.
Definition vnorm2 (v : vt) : Q := cre (vdot v (vconj v)).

(* ================================================================== small list helpers *)
Fixpoint mem (x : nat) (l : list nat) : bool :=
  match l with [] => false | y :: r => Nat.eqb x y || mem x r end.
Fixpoint insert (x : nat) (l : list nat) : list nat :=
  match l with [] => [x] | y :: r => if Nat.leb x y then x :: l else y :: insert x r end.
Fixpoint isort (l : list nat) : list nat :=
  match l with [] => [] | x :: r => insert x (isort r) end.
Fixpoint index_of (w : nat) (l : list nat) : nat :=
  match l with [] => O | x :: r => if Nat.eqb x w then O else S (index_of w r) end.
Fixpoint list_eqb (a b : list nat) : bool :=
  match a, b with
  | [], [] => true
  | x :: a', y :: b' => Nat.eqb x y && list_eqb a' b'
  | _, _ => false
  end.
Definition list_min (l : list nat) : nat := match l with [] => O | x :: r => fold_left Nat.min r x end.
Definition list_max (l : list nat) : nat := fold_left Nat.max l O.

(* ================================================================== partial trace *)
(* one einsum step of partial_trace: contract row axis p with column axis p *)
Fixpoint ptrace1 (p : nat) (t : qt) {struct t} : qt :=
  match t with
  | QL x => QL x
  | QN a b c d =>
      match p with
      | O => tadd a d
      | S p' => QN (ptrace1 p' a) (ptrace1 p' b) (ptrace1 p' c) (ptrace1 p' d)
      end
  end.

(* "for i, target_index in enumerate(indices): target_index = target_index - i; ..." *)
Fixpoint pt_loop (t : qt) (i : nat) (idxs : list nat) : qt :=
  match idxs with [] => t | x :: r => pt_loop (ptrace1 (x - i) t) (S i) r end.
Definition partial_trace (t : qt) (indices : list nat) : qt := pt_loop t 0 (isort indices).

(* tidy specification: trace out the qubits marked true in the mask *)
Fixpoint ptrace_mask (m : list bool) (t : qt) : qt :=
  match m, t with
  | true :: m', QN a b c d => tadd (ptrace_mask m' a) (ptrace_mask m' d)
  | false :: m', QN a b c d =>
      QN (ptrace_mask m' a) (ptrace_mask m' b) (ptrace_mask m' c) (ptrace_mask m' d)
  | _, _ => t
  end.
Definition traced_mask (n : nat) (kept : list nat) : list bool :=
  map (fun i => negb (mem i kept)) (seq 0 n).
Definition mask_of (n : nat) (traced : list nat) : list bool :=
  map (fun i => mem i traced) (seq 0 n).

(* explicit index contraction: full index from kept bits r and traced bits s according to the mask *)
Fixpoint interleave (m : list bool) (r s : list bool) : list bool :=
  match m with
  | [] => []
  | true :: m' => match s with b :: s' => b :: interleave m' r s' | [] => false :: interleave m' r [] end
  | false :: m' => match r with b :: r' => b :: interleave m' r' s | [] => false :: interleave m' [] s end
  end.
Fixpoint csum (l : list C) : C := match l with [] => c0 | x :: r => cadd x (csum r) end.
Definition count_true (m : list bool) : nat := length (filter (fun b => b) m).
Definition contraction (m : list bool) (t : qt) (r c : list bool) : C :=
  csum (map (fun s => tget t (interleave m r s) (interleave m c s)) (all_bits (count_true m))).

(* ================================================================== _permute_dense_matrix *)
(* perm = [wires.index(w) for w in wire_order]; reshape to [2]*2n; transpose(perm + (perm+n)); reshape.
   On bit indices: new[r'] = old[r] with r[perm[j]] = r'[j], i.e. r[k] = r'[wire_order.index(wires[k])]. *)
Definition gather (wires wire_order : list nat) (r : list bool) : list bool :=
  map (fun w => nth (index_of w wire_order) r false) wires.
Definition permute_dense (t : qt) (wires wire_order : list nat) : qt :=
  if list_eqb wires wire_order then t
  else tbuild (length wire_order)
         (fun r c => tget t (gather wires wire_order r) (gather wires wire_order c)).

(* ================================================================== reduce_dm & friends *)
Definition reduce_dm (n : nat) (t : qt) (indices : list nat) : qt :=
  let consecutive := seq 0 n in
  if Nat.eqb (length indices) n then permute_dense t consecutive indices
  else
    let traced := filter (fun x => negb (mem x indices)) consecutive in
    permute_dense (partial_trace t traced) (isort indices) indices.

(* einsum(f"a{indices1},a{indices2}->a{target}", state, conj(state)) *)
Fixpoint rsv (m : list bool) (u v : vt) : qt :=
  match m, u, v with
  | true :: m', VN u0 u1, VN v0 v1 => tadd (rsv m' u0 v0) (rsv m' u1 v1)
  | false :: m', VN u0 u1, VN v0 v1 =>
      QN (rsv m' u0 v0) (rsv m' u0 v1) (rsv m' u1 v0) (rsv m' u1 v1)
  | _, VL x, VL y => QL (cmul x y)
  | _, _, _ => QL c0
  end.
Definition reduce_statevector (n : nat) (psi : vt) (indices : list nat) : qt :=
  permute_dense (rsv (traced_mask n indices) psi (vconj psi)) (isort indices) indices.
Definition dm_from_state_vector (n : nat) (psi : vt) : qt := reduce_statevector n psi (seq 0 n).

Definition compute_purity (t : qt) : Q := cre (trprod t t).
Definition purity (n : nat) (t : qt) (indices : list nat) : Q := compute_purity (reduce_dm n t indices).

(* einsum("b,b->", state0, conj(state1)); abs(.)**2 *)
Definition fidelity_statevector (u v : vt) : Q := cnorm2 (vdot u (vconj v)).

(* ================================================================== expand_matrix *)
Definition expand_matrix (t : qt) (wires : list nat) (wire_order : option (list nat)) : qt :=
  match wire_order with
  | None => t
  | Some wo =>
    if list_eqb wo wires then t
    else match wires with
    | [] => tscale (tget t [] []) (teye (length wo))
    | _ =>
      let wi := map (fun w => index_of w wo) wires in
      let lo := list_min wi in
      let hi := list_max wi in
      let subset := firstn (S hi - lo) (skipn lo wo) in
      let diff := filter (fun w => negb (mem w wires)) subset in
      let expanded := wires ++ diff in
      let t1 := match diff with [] => t | _ => tkron t (teye (length diff)) end in
      let t2 := permute_dense t1 expanded subset in
      if Nat.ltb (length expanded) (length wo) then
        let post := length wo - hi - 1 in
        let t3 := if Nat.ltb 0 lo then tkron (teye lo) t2 else t2 in
        if Nat.ltb 0 post then tkron t3 (teye post) else t3
      else t2
    end
  end.

(* tidy specification of expand_matrix: entry (r, c) over the full wire order *)
Definition agree_off (wires wo : list nat) (r c : list bool) : bool :=
  forallb (fun kw => mem (snd kw) wires || Bool.eqb (nth (fst kw) r false) (nth (fst kw) c false))
          (combine (seq 0 (length wo)) wo).
Definition expand_spec (t : qt) (wires wo : list nat) (r c : list bool) : C :=
  if agree_off wires wo r c then tget t (gather wires wo r) (gather wires wo c) else c0.

(* ================================================================== definitions used by the theorems (specification side) *)
(* composing two mask contractions: m2 lives on the qubits kept by m1 *)
Fixpoint mask_merge (m1 m2 : list bool) : list bool :=
  match m1 with
  | [] => m2
  | true :: m1' => true :: mask_merge m1' m2
  | false :: m1' =>
      match m2 with b :: m2' => b :: mask_merge m1' m2' | [] => false :: mask_merge m1' [] end
  end.
Definition mask_off (n i : nat) (idxs : list nat) : list bool := map (fun j => mem j idxs) (seq i n).
Fixpoint strictb (l : list nat) : bool :=
  match l with x :: r => match r with y :: _ => Nat.ltb x y && strictb r | [] => true end | [] => true end.
Definition count_false (m : list bool) : nat := length (filter negb m).

(* 2^k *)
Fixpoint qpow2 (k : nat) : Q := match k with O => 1%Q | S j => (2 * qpow2 j)%Q end.
(* equality of bit strings *)
Fixpoint bits_eqb (r c : list bool) : bool :=
  match r, c with
  | [], [] => true
  | a :: r', b :: c' => Bool.eqb a b && bits_eqb r' c'
  | _, _ => false
  end.
(* expand_matrix of an operator acting on the contiguous block of wires p .. p+k-1 of p+k+q ordered wires *)
Definition expand_contiguous_spec (p q : nat) (t : qt) : qt :=
  let t3 := if Nat.ltb 0 p then tkron (teye p) t else t in
  if Nat.ltb 0 q then tkron t3 (teye q) else t3.

(* ================================================================== correspondence interface *)
(* matrices arrive as integer Gaussian entries over a common positive denominator *)
Definition zc := (Z * Z)%type.
Definition dmat := (positive * list (list zc))%type.
Definition dvec := (positive * list zc)%type.
Definition c_of (d : positive) (e : zc) : C := ((fst e # d)%Q, (snd e # d)%Q).
Definition cmat_of (m : dmat) : cmat := map (map (c_of (fst m))) (snd m).
Definition clist_of (v : dvec) : list C := map (c_of (fst v)) (snd v).

Inductive op :=
| OReduceDm (n : nat) (rho : dmat) (indices : list nat)
| OPartialTrace (n : nat) (rho : dmat) (indices : list nat)
| OReduceSv (n : nat) (psi : dvec) (indices : list nat)
| ODmFromSv (n : nat) (psi : dvec)
| OExpand (k : nat) (m : dmat) (wires : list nat) (wo : option (list nat))
| OPurity (n : nat) (rho : dmat) (indices : list nat)
| OFidSv (n : nat) (psi phi : dvec).

Inductive res := RMat (m : dmat) | RReal (q tol : Q).

Fixpoint list_all2 {A B} (f : A -> B -> bool) (a : list A) (b : list B) : bool :=
  match a, b with
  | [], [] => true
  | x :: a', y :: b' => f x y && list_all2 f a' b'
  | _, _ => false
  end.
Definition cmat_eqb (a b : cmat) : bool := list_all2 (list_all2 ceqb) a b.

Definition out_wires (o : op) : nat :=
  match o with
  | OReduceDm _ _ ix => length ix
  | OPartialTrace n _ ix => n - length ix
  | OReduceSv _ _ ix => length ix
  | ODmFromSv n _ => n
  | OExpand k _ _ None => k
  | OExpand k _ wires (Some wo) => if list_eqb wo wires then k else length wo
  | _ => O
  end.

Definition model_mat (o : op) : option qt :=
  match o with
  | OReduceDm n rho ix => Some (reduce_dm n (qt_of_rows n (cmat_of rho)) ix)
  | OPartialTrace n rho ix => Some (partial_trace (qt_of_rows n (cmat_of rho)) ix)
  | OReduceSv n psi ix => Some (reduce_statevector n (vt_of_list n (clist_of psi)) ix)
  | ODmFromSv n psi => Some (dm_from_state_vector n (vt_of_list n (clist_of psi)))
  | OExpand k m wires wo => Some (expand_matrix (qt_of_rows k (cmat_of m)) wires wo)
  | _ => None
  end.
Definition model_real (o : op) : option Q :=
  match o with
  | OPurity n rho ix => Some (purity n (qt_of_rows n (cmat_of rho)) ix)
  | OFidSv n psi phi =>
      Some (fidelity_statevector (vt_of_list n (clist_of psi)) (vt_of_list n (clist_of phi)))
  | _ => None
  end.

Definition check_case (x : op * res) : bool :=
  let (o, r) := x in
  match r with
  | RMat e =>
      match model_mat o with
      | Some t => cmat_eqb (rows_of_qt (out_wires o) t) (cmat_of e)
      | None => false
      end
  | RReal q tol =>
      match model_real o with
      | Some m => Qle_bool (Qabs (m - q)%Q) tol
      | None => false
      end
  end.
