(* C63  Pulse evolution.  Computable part only (no proofs).

   (1) Reflective checker for "U solves the Schroedinger equation of H":  matrices with entries in the QSym scalars
       (Laurent polynomials in zeta and z_k = exp(i theta_k / D)); the time elapsed in a window is the formal real
       variable theta_j.  solves_schrodinger hz D j H U U0 = true  means (soundness: Num/PulseProofs.v)
           d/d theta_j U = -i * H * U    as normal forms, entry by entry, and   U[theta_j := 0] = U0.
   (2) Piecewise-constant schedules: window k has its own duration variable theta_k; V_k = U_k * V_{k-1}.
   (3) routing of the entries of `params` in ParametrizedHamiltonian / HardwareHamiltonian as list manipulation
       (pennylane/pulse/parametrized_hamiltonian.py, hardware_hamiltonian.py, rydberg.py, transmon.py). *)
From Coq Require Import List Arith ZArith QArith Bool.
From PLV Require Import Alg.Poly Alg.DerivDef Lin.Vec Lin.PVec.
Import ListNotations.
Local Close Scope Q_scope.

(* ------------------------------------------------------------------------------------------------ (1) *)
Definition p_minus_i (hz : Z) : poly := [((-1)%Q, [(hz / 2)%Z])].
Definition mderiv (hz D : Z) (j : nat) (U : pmat) : pmat := map (map (pderiv hz D j)) U.
Definition schrod_rhs (hz : Z) (H U : pmat) : pmat := map (map (nmul hz (p_minus_i hz))) (p_mmul hz H U).

(* theta_j := 0, i.e. z_j := 1 : erase the exponent of variable S j *)
Fixpoint ezero (k : nat) (e : list Z) : list Z :=
  match e, k with
  | [], _ => []
  | _ :: r, O => 0%Z :: r
  | x :: r, S k' => x :: ezero k' r
  end.
Definition pat0 (j : nat) (p : poly) : poly := map (fun t => (fst t, ezero (S j) (snd t))) p.
Definition mat0 (j : nat) (U : pmat) : pmat := map (map (pat0 j)) U.

Definition solves_schrodinger (hz D : Z) (j : nat) (H U U0 : pmat) : bool :=
  (0 <? hz)%Z && Z.even hz && negb (D =? 0)%Z
  && meqb hz (mderiv hz D j U) (schrod_rhs hz H U)
  && meqb hz (mat0 j U) U0.

(* ------------------------------------------------------------------------------------------------ (2) *)
(* schedule = list of (H_k, U_k): U_k is the single-window propagator written in the duration variable theta_k
   (k counted from k0).  The accumulated propagator after window k is V_k = U_k * V_{k-1}. *)
Fixpoint sched_ok (hz D : Z) (k : nat) (V0 : pmat) (ws : list (pmat * pmat)) : bool :=
  match ws with
  | [] => true
  | (H, U) :: r => let V := p_mmul hz U V0 in solves_schrodinger hz D k H V V0 && sched_ok hz D (S k) V r
  end.
Fixpoint sched_final (hz : Z) (V0 : pmat) (ws : list (pmat * pmat)) : pmat :=
  match ws with [] => V0 | (H, U) :: r => sched_final hz (p_mmul hz U V0) r end.

(* ------------------------------------------------------------------------------------------------ (3) plain ParametrizedHamiltonian *)
(* a coefficient is a fixed number or a callable; with the test functions "return the parameter" a callable is
   represented by the integer factor accumulated through scalar multiplications: value = factor * parameter *)
Inductive pcoef := CFixed (v : Z) | CCall (m : Z).
Definition is_call (c : pcoef) : bool := match c with CCall _ => true | CFixed _ => false end.
Definition pterm := (pcoef * Z)%type.                        (* coefficient, operator id *)
(* the object: (fixed terms, parametrized terms), __init__ partitions a coefficient list stably *)
Definition ph := (list pterm * list pterm)%type.
Definition ph_make (ts : list pterm) : ph :=
  (filter (fun t => negb (is_call (fst t))) ts, filter (fun t => is_call (fst t)) ts).
Definition ph_terms (h : ph) : list pterm := fst h ++ snd h.         (* .coeffs / .ops : fixed first *)
Definition ph_add (a b : ph) : ph := ph_make (ph_terms a ++ ph_terms b).          (* a + b, both ParametrizedHamiltonian *)
Definition ph_addop (a : ph) (c op : Z) : ph := ph_make (ph_terms a ++ [(CFixed c, op)]).   (* a + c*op *)
Definition ph_opadd (c op : Z) (b : ph) : ph := ph_make ((CFixed c, op) :: ph_terms b).     (* c*op + b  (__radd__) *)
Definition cscale (c : Z) (x : pcoef) : pcoef := match x with CFixed v => CFixed (c * v) | CCall m => CCall (c * m) end.
Definition ph_scale (c : Z) (a : ph) : ph :=
  ph_make (map (fun t => (cscale c (fst t), snd t)) (fst a) ++ map (fun t => (cscale c (fst t), snd t)) (snd a)).

(* H(params, t): the value of every coefficient; None when the number of parameters is wrong *)
Fixpoint route_params (ts : list pterm) (ps : list Z) : option (list (Z * Z)) :=
  match ts, ps with
  | [], [] => Some []
  | (CCall m, op) :: r, p :: ps' => match route_params r ps' with Some l => Some ((m * p, op)%Z :: l) | None => None end
  | (CFixed v, op) :: r, p :: ps' => match route_params r ps' with Some l => Some ((v, op) :: l) | None => None end  (* not reachable for made objects *)
  | _, _ => None
  end.
Definition fixed_values (ts : list pterm) : list (Z * Z) :=
  map (fun t => (match fst t with CFixed v => v | CCall m => m end, snd t)) ts.
Definition ph_call (h : ph) (ps : list Z) : option (list (Z * Z) * list (Z * Z)) :=
  match route_params (snd h) ps with Some l => Some (fixed_values (fst h), l) | None => None end.

Inductive pexp :=
| PLeaf (ts : list pterm)
| PAdd (a b : pexp)
| POpAdd (c op : Z) (b : pexp)
| PAddOp (a : pexp) (c op : Z)
| PScale (c : Z) (a : pexp).
Fixpoint pden (e : pexp) : ph :=
  match e with
  | PLeaf ts => ph_make ts
  | PAdd a b => ph_add (pden a) (pden b)
  | POpAdd c op b => ph_opadd c op (pden b)
  | PAddOp a c op => ph_addop (pden a) c op
  | PScale c a => ph_scale c (pden a)
  end.

(* sorted comparison of (value, operator) lists *)
Definition zz_leb (a b : Z * Z) : bool := (fst a <? fst b)%Z || ((fst a =? fst b)%Z && (snd a <=? snd b)%Z).
Fixpoint zz_insert (x : Z * Z) (l : list (Z * Z)) : list (Z * Z) :=
  match l with [] => [x] | y :: r => if zz_leb x y then x :: l else y :: zz_insert x r end.
Definition zz_sort (l : list (Z * Z)) : list (Z * Z) := fold_right zz_insert [] l.
Fixpoint zz_eqb (a b : list (Z * Z)) : bool :=
  match a, b with
  | [], [] => true
  | x :: a', y :: b' => (fst x =? fst y)%Z && (snd x =? snd y)%Z && zz_eqb a' b'
  | _, _ => false
  end.
Fixpoint iota_from (s : Z) (n : nat) : list Z := match n with O => [] | S m => s :: iota_from (s + 1)%Z m end.

(* observed: (coeffs_fixed with ops, per-parameter values f_k(100+k) with ops, terms of H(params,t) sorted) *)
Definition check_plain (x : pexp * (list (Z * Z) * list (Z * Z) * list (Z * Z))) : bool :=
  let '(e, (ofix, opar, ocalled)) := x in
  let h := pden e in
  match ph_call h (iota_from 100 (length (snd h))) with
  | Some (f, p) => zz_eqb f ofix && zz_eqb p opar && zz_eqb (zz_sort (f ++ p)) ocalled
  | None => false
  end.

(* ------------------------------------------------------------------------------------------------ (3') hardware Hamiltonians *)
Inductive harg := AConst | ACall (f : Z).                       (* a number, or a callable with identifier f *)
Definition acall (a : harg) : bool := match a with ACall _ => true | AConst => false end.
(* descriptor of one entry of coeffs_parametrized *)
Inductive hcoef :=
| HC_F (f : Z)                                   (* plain callable f(p, t) *)
| HC_AP (amp phase : harg)                       (* AmplitudeAndPhase(trig, amp, phase), at least one callable *)
| HC_APF (amp phase freq : harg).                (* AmplitudeAndPhaseAndFreq(sin, amp, phase, freq) (callable even with three numbers) *)
Inductive pval := POne (x : Z) | PMany (l : list Z).

(* which reorder function the object carries (HardwareHamiltonian) or none (ParametrizedHamiltonian) *)
Inductive rkind := RNone | RAP | RAPF.
Definition rk_eqb (a b : rkind) : bool :=
  match a, b with RNone, RNone | RAP, RAP | RAPF, RAPF => true | _, _ => false end.

(* _reorder_parameters (hardware_hamiltonian.py), transcribed with its two counters; params_idx is kept as the
   remaining parameter list.  Reading params[k] beyond the end raises IndexError: None. *)
Fixpoint reorder_ap (i coeff_idx : nat) (cs : list hcoef) (ps : list Z) : option (list pval) :=
  match cs with
  | [] => Some []
  | c :: r =>
      if Nat.eqb i coeff_idx then
        match c with
        | HC_AP a p =>
            if acall a && acall p then
              match ps with
              | x :: y :: ps' => match reorder_ap (S i) (coeff_idx + 2) r ps' with
                                 | Some l => Some (PMany [x; y] :: PMany [x; y] :: l) | None => None end
              | _ => None
              end
            else if acall a || acall p then
              match ps with
              | x :: ps' => match reorder_ap (S i) (coeff_idx + 2) r ps' with
                            | Some l => Some (POne x :: POne x :: l) | None => None end
              | _ => None
              end
            else reorder_ap (S i) coeff_idx r ps
        | _ =>
            match ps with
            | x :: ps' => match reorder_ap (S i) (coeff_idx + 1) r ps' with Some l => Some (POne x :: l) | None => None end
            | [] => None
            end
        end
      else reorder_ap (S i) coeff_idx r ps
  end.

Definition ncall3 (a p f : harg) : nat := (if acall a then 1 else 0) + (if acall p then 1 else 0) + (if acall f then 1 else 0).
(* _reorder_AmpPhaseFreq (transmon.py): slices never raise, they are just shorter *)
Fixpoint reorder_apf (cs : list hcoef) (ps : list Z) : option (list pval) :=
  match cs with
  | [] => Some []
  | HC_APF a p f :: r =>
      let n := ncall3 a p f in
      match reorder_apf r (skipn n ps) with Some l => Some (PMany (firstn n ps) :: l) | None => None end
  | _ :: r =>
      match ps with
      | x :: ps' => match reorder_apf r ps' with Some l => Some (POne x :: l) | None => None end
      | [] => None
      end
  end.

(* construction: (reorder kind, number of fixed coefficients, coeffs_parametrized) ; None = the construction raises *)
Inductive hexp :=
| HFix (n : nat)                                  (* ParametrizedHamiltonian with n fixed terms *)
| HFixHw (apf : bool) (n : nat)                   (* rydberg_interaction (false) / transmon_interaction (true): n fixed terms *)
| HFun (f : Z)                                    (* ParametrizedHamiltonian([f], [op]) *)
| HAdd (a b : hexp)
| HDrive (amp phase : harg)
| HRyd (amp phase det : harg) (amp_nonzero det_nonzero : bool)
| HTrans (amp phase freq : harg).
(* (reorder kind, number of fixed coefficients, coeffs_parametrized, settings is not None) *)
Definition hobj := (rkind * nat * list hcoef * bool)%type.
Definition drive_coeffs (amp phase : harg) : nat * list hcoef :=
  if acall amp || acall phase then (0, [HC_AP amp phase; HC_AP amp phase]) else (2, []).
Fixpoint hden (e : hexp) : option hobj :=
  match e with
  | HFix n => Some (RNone, n, [], false)
  | HFixHw apf n => Some (if apf then RAPF else RAP, n, [], true)
  | HFun f => Some (RNone, 0, [HC_F f], false)
  | HDrive a p => let '(nf, cs) := drive_coeffs a p in Some (RAP, nf, cs, false)
  | HRyd a p d anz dnz =>
      if negb (acall a) && negb anz && negb (acall d) && negb dnz then None       (* all terms zero: ValueError *)
      else
        let '(nf, cs) := if negb (acall a) && negb anz then (0, []) else drive_coeffs a p in
        let '(nf2, cs2) := if negb (acall d) && negb dnz then (0, []) else
                             match d with ACall f => (0, [HC_F f]) | AConst => (1, []) end in
        Some (RAP, nf + nf2, cs ++ cs2, false)
  | HTrans a p f => Some (RAPF, 0, [HC_APF a p f], false)
  | HAdd a b =>
      match hden a, hden b with
      | Some (ka, na, ca, sa), Some (kb, nb, cb, sb) =>
          match ka, kb with
          | RNone, _ => Some (kb, na + nb, ca ++ cb, sb)              (* HardwareHamiltonian.__radd__ (or plain + plain) *)
          | _, RNone => Some (ka, na + nb, ca ++ cb, sa)
          | _, _ =>
              if negb (rk_eqb ka kb) then None                         (* different reorder functions: ValueError *)
              else match ka with
                   | RAP => if sa && sb then None                      (* RydbergSettings + RydbergSettings: ValueError *)
                            else Some (ka, na + nb, ca ++ cb, sa || sb)
                   | _ => if negb sa && sb then None                   (* None + TransmonSettings: TypeError (no __radd__), see harness note *)
                          else Some (ka, na + nb, ca ++ cb, sa || sb)
                   end
          end
      | _, _ => None
      end
  end.

Definition hreorder (k : rkind) (cs : list hcoef) (ps : list Z) : option (list pval) :=
  match k with
  | RAP => reorder_ap 0 0 cs ps
  | RAPF => reorder_apf cs ps
  | RNone => Some (map POne ps)
  end.

(* calls made when the coefficient functions are evaluated on the reordered parameters:
   (function id, value received).  None = evaluating raises (indexing a scalar / index out of range). *)
Definition pidx (v : pval) (k : nat) : option Z :=
  match v with PMany l => nth_error l k | POne _ => None end.
Definition calls_of (c : hcoef) (v : pval) : option (list (Z * pval)) :=
  match c with
  | HC_F f => Some [(f, v)]
  | HC_AP (ACall fa) (ACall fp) =>
      match pidx v 0, pidx v 1 with Some x, Some y => Some [(fa, POne x); (fp, POne y)] | _, _ => None end
  | HC_AP (ACall fa) AConst => Some [(fa, v)]
  | HC_AP AConst (ACall fp) => Some [(fp, v)]
  | HC_AP AConst AConst => Some []
  | HC_APF a p f =>
      (* callables index their slot in the order amp, phase, freq among the callables present *)
      let ia := 0%nat in
      let ip := if acall a then 1%nat else 0%nat in
      let ifr := ((if acall a then 1 else 0) + (if acall p then 1 else 0))%nat in
      let one (x : harg) (k : nat) : option (list (Z * pval)) :=
        match x with
        | ACall g => match pidx v k with Some z => Some [(g, POne z)] | None => None end
        | AConst => Some []
        end in
      match one a ia, one p ip, one f ifr with
      | Some l1, Some l2, Some l3 => Some (l1 ++ l2 ++ l3)
      | _, _, _ => None
      end
  end.
Fixpoint all_calls (cs : list hcoef) (vs : list pval) : option (list (Z * pval)) :=
  match cs, vs with
  | [], [] => Some []
  | c :: cs', v :: vs' =>
      match calls_of c v, all_calls cs' vs' with Some a, Some b => Some (a ++ b) | _, _ => None end
  | _, _ => None                       (* zip(..., strict=True) *)
  end.
Definition hcalls (o : hobj) (ps : list Z) : option (list (Z * pval)) :=
  let '(k, _, cs, _) := o in
  if negb (Nat.eqb (length ps) (length cs)) && rk_eqb k RNone then None else      (* plain __call__ checks the length first *)
  match hreorder k cs ps with
  | Some vs => if Nat.eqb (length vs) (length cs) then all_calls cs vs else None
  | None => None
  end.

(* ---- comparison with the observation ---- *)
Inductive hdesc := DF | DAP (a p : bool) | DAPF (a p f : bool).
Definition desc_of (c : hcoef) : hdesc :=
  match c with HC_F _ => DF | HC_AP a p => DAP (acall a) (acall p) | HC_APF a p f => DAPF (acall a) (acall p) (acall f) end.
Definition hdesc_eqb (x y : hdesc) : bool :=
  match x, y with
  | DF, DF => true
  | DAP a p, DAP a' p' => Bool.eqb a a' && Bool.eqb p p'
  | DAPF a p f, DAPF a' p' f' => Bool.eqb a a' && Bool.eqb p p' && Bool.eqb f f'
  | _, _ => false
  end.
Fixpoint list_eqb {A} (eq : A -> A -> bool) (a b : list A) : bool :=
  match a, b with [], [] => true | x :: a', y :: b' => eq x y && list_eqb eq a' b' | _, _ => false end.
Definition pval_eqb (x y : pval) : bool :=
  match x, y with
  | POne a, POne b => (a =? b)%Z
  | PMany a, PMany b => list_eqb Z.eqb a b
  | _, _ => false
  end.
Definition call_eqb (x y : Z * pval) : bool := (fst x =? fst y)%Z && pval_eqb (snd x) (snd y).
(* calls are compared as SETS of (function, value received): neither the order in which coefficient functions are evaluated
   nor how often (ParametrizedHamiltonian.__call__ evaluates H_parametrized twice) is part of the claim *)
Definition calls_sub (a b : list (Z * pval)) : bool := forallb (fun x => existsb (call_eqb x) b) a.
Definition ocalls_eqb (m o : option (list (Z * pval))) : bool :=
  match m, o with
  | Some a, Some b => calls_sub a b && calls_sub b a
  | None, None => true
  | _, _ => false
  end.

Inductive route_obs :=
| RouteErr (e : hexp)                                             (* the construction raised *)
| RouteObs (e : hexp) (n : nat) (hw : bool) (desc : list hdesc) (nfixed : Z) (reorder : list pval)
           (calls calls_pytree : option (list (Z * pval))).

(* n integer-coded parameters 100, 101, ... are passed *)
Definition check_route (o : route_obs) : bool :=
  match o with
  | RouteErr e => match hden e with None => true | Some _ => false end
  | RouteObs e n hw desc nfixed reorder calls calls2 =>
      match hden e with
      | None => false
      | Some (k, nf, cs, st) =>
          let ps := iota_from 100 n in
          Bool.eqb hw (negb (rk_eqb k RNone))
          && list_eqb hdesc_eqb (map desc_of cs) desc
          && (Z.of_nat nf =? nfixed)%Z
          && (if hw then match hreorder k cs ps with Some vs => list_eqb pval_eqb vs reorder | None => false end else true)
          && ocalls_eqb (hcalls (k, nf, cs, st) ps) calls
          && ocalls_eqb (hcalls (k, nf, cs, st) ps) calls2
      end
  end.
