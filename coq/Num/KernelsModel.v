(* Model of pennylane/kernels/utils.py (kernel_matrix, square_kernel_matrix),
   pennylane/kernels/cost_functions.py (polarity, target_alignment, via math.frobenius_inner_product)
   and the eigenvalue post-processing of pennylane/kernels/postprocessing.py
   (threshold_matrix, displace_matrix, flip_matrix) on an exact spectral form.
   Numbers are rationals (Q); kernels are arbitrary functions X -> X -> Q with SCALAR values
   (the batched branch `math.ndim(matrix[0]) != 0` is not modelled).
   Python exceptions are modelled by None.
   No proofs here: this file must keep running for the correspondence check. *)
From Coq Require Import List QArith Qabs Bool Arith.
Import ListNotations.
Open Scope Q_scope.

Definition mat := list (list Q).

(* ------------------------------------------------------------------ list arithmetic *)
Fixpoint qsum (l : list Q) : Q := match l with [] => 0 | x :: r => x + qsum r end.
Fixpoint dot (a b : list Q) : Q :=
  match a, b with x :: a', y :: b' => x * y + dot a' b' | _, _ => 0 end.
(* sum_j a_j w_j b_j *)
Fixpoint dot3 (a w b : list Q) : Q :=
  match a, w, b with x :: a', c :: w', y :: b' => x * c * y + dot3 a' w' b' | _, _, _ => 0 end.
Fixpoint vadd (a b : list Q) : list Q :=
  match a, b with x :: a', y :: b' => (x + y) :: vadd a' b' | _, _ => [] end.
Fixpoint vsub (a b : list Q) : list Q :=
  match a, b with x :: a', y :: b' => (x - y) :: vsub a' b' | _, _ => [] end.
Definition vscale (c : Q) (a : list Q) : list Q := map (Qmult c) a.
Fixpoint msub (A B : mat) : mat :=
  match A, B with ra :: A', rb :: B' => vsub ra rb :: msub A' B' | _, _ => [] end.
Definition mscale (c : Q) (M : mat) : mat := map (vscale c) M.
(* np.sum(A * B) for equally shaped rank-2 arrays *)
Fixpoint frob (A B : mat) : Q :=
  match A, B with ra :: A', rb :: B' => dot ra rb + frob A' B' | _, _ => 0 end.
Definition outer (a b : list Q) : mat := map (fun x => map (fun y => x * y) b) a.   (* np.outer *)
Definition Qltb (a b : Q) : bool := negb (Qle_bool b a).

(* ------------------------------------------------------------------ numpy shape helpers *)
Fixpoint chunks (n m : nat) (l : list Q) : mat :=
  match n with O => [] | S n' => firstn m l :: chunks n' m (skipn m l) end.
(* math.reshape(flat, (n, m)) : raises unless size = n*m *)
Definition reshape2 (n m : nat) (l : list Q) : option mat :=
  if Nat.eqb (length l) (n * m) then Some (chunks n m l) else None.
(* math.moveaxis(A, -1, 0) on a rank-2 array with m columns = transpose *)
Definition transpose (m : nat) (M : mat) : mat :=
  map (fun j => map (fun r => nth j r 0) M) (seq 0 m).

(* ------------------------------------------------------------------ kernels/utils.py *)
(* kernel_matrix(X1, X2, kernel):
     matrix = math.stack([kernel(x, y) for x, y in product(X1, X2)])   (stack of an empty list raises)
     scalar kernel values: return math.reshape(matrix, (N, M))   -- no moveaxis in this branch *)
Definition kernel_matrix {X : Type} (k : X -> X -> Q) (X1 X2 : list X) : option mat :=
  let N := length X1 in
  let M := length X2 in
  let flat := flat_map (fun x => map (fun y => k x y) X2) X1 in
  match flat with
  | [] => None
  | _ => reshape2 N M flat
  end.

(* the flat Python list `matrix = [None] * N**2` and item assignment matrix[p] = v
   (every index used by the code is < N*N; an out-of-range p leaves the list unchanged here) *)
Definition arr := list (option Q).
Fixpoint upd (l : arr) (p : nat) (v : Q) : arr :=
  match l, p with
  | [], _ => []
  | _ :: r, O => Some v :: r
  | x :: r, S p' => x :: upd r p' v
  end.
Definition apply_writes (m : arr) (ws : list (nat * Q)) : arr :=
  fold_left (fun m w => upd m (fst w) (snd w)) ws m.
Fixpoint all_some (l : arr) : option (list Q) :=
  match l with
  | [] => Some []
  | None :: _ => None
  | Some x :: r => match all_some r with Some r' => Some (x :: r') | None => None end
  end.

(* for i in range(N): for j in range(i + 1, N):
       matrix[N*i + j] = (kernel_value := kernel(X[i], X[j])); matrix[N*j + i] = kernel_value
   -- the sequence of assignments, in program order; the kernel is called ONCE per pair i<j and the
      value is copied to the mirrored position *)
Definition writes_offdiag {X : Type} (k : X -> X -> Q) (d : X) (xs : list X) : list (nat * Q) :=
  let N := length xs in
  flat_map (fun i =>
    flat_map (fun j => let v := k (nth i xs d) (nth j xs d) in
                       [((N * i + j)%nat, v); ((N * j + i)%nat, v)])
             (seq (S i) (N - S i)))
    (seq 0 N).
(* diagonal: `one` for assume_normalized_kernel, kernel(X[i], X[i]) otherwise *)
Definition writes_diag {X : Type} (k : X -> X -> Q) (d : X) (xs : list X) (an : bool) : list (nat * Q) :=
  let N := length xs in
  map (fun i => ((N * i + i)%nat, if an then 1 else k (nth i xs d) (nth i xs d))) (seq 0 N).

Definition square_kernel_matrix {X : Type} (k : X -> X -> Q) (d : X) (xs : list X) (an : bool) : option mat :=
  let N := length xs in
  if an && Nat.eqb N 1 then Some [[1]]                       (* math.eye(1) *)
  else
    let m1 := apply_writes (repeat None (N * N)) (writes_offdiag k d xs) in
    (* one = math.ones_like(matrix[1]) : IndexError when the list has fewer than 2 entries (N = 0) *)
    if an && match nth_error m1 1 with Some _ => false | None => true end then None
    else
      let m2 := apply_writes m1 (writes_diag k d xs an) in
      match m2 with
      | [] => None                                           (* matrix[0] : IndexError *)
      | _ => match all_some m2 with                          (* math.stack *)
             | None => None
             | Some flat =>
               match reshape2 N N flat with
               | None => None
               | Some R => Some (transpose N R)              (* moveaxis(reshape(...), -1, 0) *)
               end
             end
      end.

(* ------------------------------------------------------------------ kernels/cost_functions.py *)
Definition is_one (y : Q) : bool := Qeq_bool y 1.
Definition count_plus (Y : list Q) : nat := length (filter is_one Y).     (* np.count_nonzero(np.array(Y) == 1) *)
Definition qnat (n : nat) : Q := inject_Z (Z.of_nat n).
(* _Y = [y / nplus if y == 1 else y / nminus for y in Y] *)
Definition rescale_labels (Y : list Q) : list Q :=
  let nplus := count_plus Y in
  let nminus := (length Y - nplus)%nat in
  map (fun y => if is_one y then y / qnat nplus else y / qnat nminus) Y.

(* polarity(X, Y, kernel, assume_normalized_kernel, rescale_class_labels, normalize):
   returns (inner, normsq) with inner = np.sum(K * T) and normsq = np.sum(K*K) * np.sum(T*T);
   the float result is inner                     when normalize = False,
                       inner / sqrt(normsq)      when normalize = True (= target_alignment).
   K * T needs equal shapes: len(Y) = N is demanded here. *)
Definition polarity {X : Type} (k : X -> X -> Q) (d : X) (xs : list X) (Y : list Q)
           (an rescale : bool) : option (Q * Q) :=
  match square_kernel_matrix k d xs an with
  | None => None
  | Some K =>
    if Nat.eqb (length Y) (length xs) then
      let Y' := if rescale then rescale_labels Y else Y in
      let T := outer Y' Y' in
      Some (frob K T, frob K K * frob T T)
    else None
  end.

(* ------------------------------------------------------------------ kernels/postprocessing.py *)
(* np.linalg.eigh(K) is an oracle: w (ascending) and V (rows of the eigenvector matrix v; column j is the
   eigenvector of w_j) are arguments.  (v * w0) @ np.transpose(v) has entry (a,b) = sum_j v[a,j] w0[j] v[b,j]. *)
Definition sandwich (V : mat) (w : list Q) : mat :=
  map (fun ra => map (fun rb => dot3 ra w rb) V) V.
Definition clip0 (c : Q) : Q := if Qltb c 0 then 0 else c.            (* np.clip(w, 0, None) *)
Definition threshold_matrix (w : list Q) (V K : mat) : mat :=
  if Qltb (hd 0 w) 0 then sandwich V (map clip0 w) else K.
Definition flip_matrix (w : list Q) (V K : mat) : mat :=
  if Qltb (hd 0 w) 0 then sandwich V (map Qabs w) else K.
Definition eye (n : nat) : mat :=
  map (fun a => map (fun b => if Nat.eqb a b then 1 else 0) (seq 0 n)) (seq 0 n).
(* wmin = np.linalg.eigvalsh(K)[0];  K - np.eye(K.shape[0]) * wmin *)
Definition displace_matrix (wmin : Q) (K : mat) : mat :=
  if Qltb wmin 0 then msub K (mscale wmin (eye (length K))) else K.

(* quadratic form x^T M x *)
Definition qform (M : mat) (x : list Q) : Q := dot x (map (fun row => dot row x) M).
(* x^T V as a vector: sum_a x_a * (row a of V), rows of length m *)
Fixpoint lincomb (m : nat) (x : list Q) (V : mat) : list Q :=
  match x, V with
  | xa :: x', ra :: V' => vadd (vscale xa ra) (lincomb m x' V')
  | _, _ => repeat 0 m
  end.
Definition mat_eq (A B : mat) : Prop := Forall2 (Forall2 Qeq) A B.

(* ------------------------------------------------------------------ correspondence *)
Definition tab (T : mat) (i j : nat) : Q := nth j (nth i T []) 0.     (* table kernel on point indices *)

Fixpoint eqb_vec (a b : list Q) : bool :=
  match a, b with [], [] => true | x :: a', y :: b' => Qeq_bool x y && eqb_vec a' b' | _, _ => false end.
Fixpoint eqb_mat (A B : mat) : bool :=
  match A, B with [], [] => true | x :: a', y :: b' => eqb_vec x y && eqb_mat a' b' | _, _ => false end.
Definition eqb_omat (A B : option mat) : bool :=
  match A, B with None, None => true | Some a, Some b => eqb_mat a b | _, _ => false end.
Fixpoint close_vec (tol : Q) (a b : list Q) : bool :=
  match a, b with [], [] => true
  | x :: a', y :: b' => Qle_bool (Qabs (x - y)) tol && close_vec tol a' b' | _, _ => false end.
Fixpoint close_mat (tol : Q) (A B : mat) : bool :=
  match A, B with [], [] => true | x :: a', y :: b' => close_vec tol x y && close_mat tol a' b' | _, _ => false end.
Fixpoint sorted_asc (w : list Q) : bool :=
  match w with [] => true | x :: r => match r with [] => true | y :: _ => Qle_bool x y && sorted_asc r end end.

Definition tol9 : Q := 1 # 1000000000.

(* which: 0 threshold_matrix, 1 displace_matrix, 2 flip_matrix *)
Definition post_model (which : nat) (w : list Q) (V K : mat) : mat :=
  match which with
  | O => threshold_matrix w V K
  | S O => displace_matrix (hd 0 w) K
  | _ => flip_matrix w V K
  end.
(* the hypotheses of the spectral theorems, decided on the case: K = V diag(w) V^T, V V^T = I, w ascending,
   V square with as many columns as eigenvalues *)
Definition spectral_ok (w : list Q) (V K : mat) : bool :=
  eqb_mat K (sandwich V w) && eqb_mat (eye (length V)) (sandwich V (repeat 1 (length w)))
  && sorted_asc w && forallb (fun r => Nat.eqb (length r) (length w)) V && Nat.eqb (length V) (length w).

Inductive tcase :=
| CKm (T : mat) (X1 X2 : list nat) (out : option mat)
| CSq (T : mat) (xs : list nat) (an : bool) (out : option mat)
| CPol (T : mat) (xs : list nat) (Y : list Q) (an rescale normalize exact : bool) (out : option Q)
| CPost (which : nat) (w : list Q) (V K out : mat).

Definition check_case (c : tcase) : bool :=
  match c with
  | CKm T X1 X2 out => eqb_omat (kernel_matrix (tab T) X1 X2) out
  | CSq T xs an out => eqb_omat (square_kernel_matrix (tab T) O xs an) out
  | CPol T xs Y an rescale normalize exact out =>
    match polarity (tab T) O xs Y an rescale, out with
    | None, None => true
    | Some (p, n2), Some r =>
      if normalize then
        (* r = p / sqrt(n2)  <->  r^2 n2 = p^2 and sign r = sign p *)
        Qle_bool (Qabs (r * r * n2 - p * p)) (tol9 * n2) && Qle_bool 0 (r * p) && Qltb 0 n2
      else if exact then Qeq_bool p r
      else Qle_bool (Qabs (p - r)) (tol9 * (1 + Qabs p))
    | _, _ => false
    end
  | CPost which w V K out => spectral_ok w V K && close_mat tol9 (post_model which w V K) out
  end.
