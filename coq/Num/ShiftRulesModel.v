(* Model for C35 (pennylane/gradients/general_shift_rules.py).  No proofs here: this file must keep
   running for the correspondence check even when a proof elsewhere breaks.

   Part 1 (over R): rules as lists of (coefficient, shift), their application to a function, the
            trigonometric moments, trigonometric polynomials and their derivative.
   Part 2 (over Q, executable): transcription of the BRANCH TEST of _get_shift_rule / generate_shift_rule
            (input validation, equidistant test on the sorted frequencies, default-shift test).
   Part 3 (over Q, executable): transcription of process_shifts (zeroing below tol, dropping zero
            coefficients, merging equal rounded shifts, final lexsort). *)
From Coq Require Import List ZArith QArith Qabs Qround Bool Reals.
Import ListNotations.

(* ================================================================== Part 1: real-valued rules *)
Section RealRules.
Open Scope R_scope.

Definition rrule := list (R * R).                       (* (coefficient, shift) *)

(* sum_k c_k * f (x + s_k) : the value the shift rule computes for f at x *)
Fixpoint rapply (rl : rrule) (f : R -> R) (x : R) : R :=
  match rl with [] => 0 | cs :: t => fst cs * f (x + snd cs) + rapply t f x end.

Fixpoint mom0 (rl : rrule) : R := match rl with [] => 0 | cs :: t => fst cs + mom0 t end.
Fixpoint mom_cos (rl : rrule) (w : R) : R :=
  match rl with [] => 0 | cs :: t => fst cs * cos (w * snd cs) + mom_cos t w end.
Fixpoint mom_sin (rl : rrule) (w : R) : R :=
  match rl with [] => 0 | cs :: t => fst cs * sin (w * snd cs) + mom_sin t w end.

(* the shape _get_shift_rule returns: concatenate((coeffs, -coeffs)), concatenate((shifts, -shifts)) *)
Definition antisym (half : rrule) : rrule := half ++ map (fun cs => (- fst cs, - snd cs)) half.

(* _iterate_shift_rule for order 2 (itertools.product, coefficients multiplied, shifts added) *)
Definition iterate2 (r1 r2 : rrule) : rrule :=
  flat_map (fun a => map (fun b => (fst a * fst b, snd a + snd b)) r2) r1.

(* trigonometric polynomial a0 + sum_j a_j cos(w_j x) + b_j sin(w_j x); a term is (w, a, b) *)
Definition tterm := (R * R * R)%type.
Definition tw (t : tterm) : R := fst (fst t).
Definition ta (t : tterm) : R := snd (fst t).
Definition tb (t : tterm) : R := snd t.
Fixpoint tsum (ts : list tterm) (x : R) : R :=
  match ts with [] => 0 | t :: r => (ta t * cos (tw t * x) + tb t * sin (tw t * x)) + tsum r x end.
Definition tpoly (a0 : R) (ts : list tterm) (x : R) : R := a0 + tsum ts x.
(* its derivative, termwise *)
Fixpoint tderiv (ts : list tterm) (x : R) : R :=
  match ts with [] => 0
  | t :: r => (- (ta t * tw t) * sin (tw t * x) + tb t * tw t * cos (tw t * x)) + tderiv r x end.
(* second derivative, termwise *)
Fixpoint tderiv2 (ts : list tterm) (x : R) : R :=
  match ts with [] => 0
  | t :: r => (- (ta t * tw t * tw t) * cos (tw t * x) - tb t * tw t * tw t * sin (tw t * x)) + tderiv2 r x end.

(* the moment conditions for one frequency (first derivative) *)
Definition moments1 (rl : rrule) (w : R) : Prop := mom_cos rl w = 0 /\ mom_sin rl w = w.
(* second derivative *)
Definition moments2 (rl : rrule) (w : R) : Prop := mom_cos rl w = - (w * w) /\ mom_sin rl w = 0.

(* the two-term rule for frequency w: generate_shift_rule((w,)) = [[w/2, pi/(2w)], [-w/2, -pi/(2w)]] *)
Definition two_term (w : R) : rrule := antisym [(w / 2, PI / (2 * w))].

End RealRules.

(* ================================================================== Part 2: the branch test, over Q *)
Open Scope Q_scope.

Definition Qltb (a b : Q) : bool := negb (Qle_bool b a).

(* math.sort : ascending; insertion sort *)
Fixpoint insertQ (x : Q) (l : list Q) : list Q :=
  match l with [] => [x] | y :: r => if Qle_bool x y then x :: l else y :: insertQ x r end.
Definition sortQ (l : list Q) : list Q := fold_right insertQ [] l.

(* len(set(xs)) != len(xs) on a sorted array: two adjacent equal entries *)
Fixpoint has_adj_dup (l : list Q) : bool :=
  match l with x :: ((y :: _) as r) => Qeq_bool x y || has_adj_dup r | _ => false end.

(* np.round(x, 10): round half to even of x * 10^10, as the integer numerator over 10^10 *)
Definition round_he (x : Q) : Z :=
  let n := Qfloor x in
  let fr := x - inject_Z n in
  match Qcompare fr (1 # 2) with
  | Lt => n
  | Gt => (n + 1)%Z
  | Eq => if Z.even n then n else (n + 1)%Z
  end.
Definition TEN10 : Z := 10000000000%Z.
Definition round10 (x : Q) : Z := round_he (x * inject_Z TEN10).
Definition key_val (k : Z) : Q := k # 10000000000.

(* np.diff *)
Fixpoint diffs_from (p : Q) (l : list Q) : list Q :=
  match l with [] => [] | y :: t => (y - p) :: diffs_from y t end.
Definition diffs (l : list Q) : list Q := match l with [] => [] | x :: r => diffs_from x r end.

Definition all_equalZ (l : list Z) : bool := match l with [] => true | x :: r => forallb (Z.eqb x) r end.

(* len(set(np.round(np.diff(frequencies), 10))) <= 1 *)
Definition equidistant_test (sorted : list Q) : bool := all_equalZ (map round10 (diffs sorted)).

(* ---- the one-line switch --------------------------------------------------------------------
   false = the branch test as it is in the pinned tree (equal SPACING of the sorted frequencies only);
   true  = the repaired test, which also requires the smallest frequency to equal the spacing. *)
Definition REPAIRED_BRANCH_TEST : bool := true.

Definition min_is_spacing (sorted : list Q) : bool :=
  match sorted with x :: y :: _ => (round10 (y - x - x) =? 0)%Z | _ => true end.
Definition equidistant_branch_test (sorted : list Q) : bool :=
  equidistant_test sorted && (if REPAIRED_BRANCH_TEST then min_is_spacing sorted else true).

(* the set for which the closed form is valid: {w, 2w, ..., Rw} (exact) *)
Fixpoint mult_from (w : Q) (k : Z) (l : list Q) : bool :=
  match l with [] => true | y :: t => Qeq_bool y (inject_Z k * w) && mult_from w (k + 1) t end.
Definition is_multiples (sorted : list Q) : bool :=
  match sorted with [] => true | w :: _ => mult_from w 1 sorted end.
(* exact (unrounded) versions of the two tests *)
Definition equally_spaced_exact (sorted : list Q) : bool :=
  match diffs sorted with [] => true | d :: r => forallb (Qeq_bool d) r end.
Definition min_is_spacing_exact (sorted : list Q) : bool :=
  match sorted with x :: y :: _ => Qeq_bool (y - x) x | _ => true end.

(* pi to 50 digits; only used to decide np.allclose(shifts, default_shifts), generated inputs stay
   away from the tolerance boundary *)
Definition PIQ : Q := 314159265358979323846264338327950288419716939937510 # 100000000000000000000000000000000000000000000000000.

(* (2*mu - 1) * pi / (2 * n_freqs * freq_min), mu = 1..n *)
Fixpoint default_shifts_from (mu : Z) (k : nat) (n : Z) (fmin : Q) : list Q :=
  match k with O => []
  | S k' => (inject_Z (2 * mu - 1) * PIQ / (inject_Z (2 * n) * fmin)) :: default_shifts_from (mu + 1) k' n fmin end.
Definition default_shifts (n : nat) (fmin : Q) : list Q := default_shifts_from 1 n (Z.of_nat n) fmin.

(* np.allclose(a, b): all |a - b| <= atol + rtol * |b|, rtol = 1e-5, atol = 1e-8 *)
Fixpoint allclose (a b : list Q) : bool :=
  match a, b with
  | [], [] => true
  | x :: r, y :: s => Qle_bool (Qabs (x - y)) ((1 # 100000000) + (1 # 100000) * Qabs y) && allclose r s
  | _, _ => false
  end.

Inductive branch := BErr | BEqui | BSolve.

(* _get_shift_rule up to the branch decision *)
Definition get_shift_rule_branch (freqs : list Q) (shifts : option (list Q)) : branch :=
  let n := length freqs in
  let fs := sortQ freqs in
  match fs with
  | [] => BErr                                                      (* stack of nothing raises *)
  | fmin :: _ =>
      if has_adj_dup fs || Qle_bool fmin 0 then BErr else
      match shifts with
      | None => if equidistant_branch_test fs then BEqui else BSolve
      | Some sh =>
          let ss := sortQ sh in
          if negb (length ss =? n)%nat then BErr
          else if has_adj_dup ss then BErr
          else if equidistant_branch_test fs && allclose ss (default_shifts n fmin) then BEqui else BSolve
      end
  end.

(* generate_shift_rule: frequencies = tuple(f for f in frequencies if f > 0) first *)
Definition generate_branch (freqs : list Q) (shifts : option (list Q)) : branch :=
  get_shift_rule_branch (filter (fun f => Qltb 0 f) freqs) shifts.

(* ================================================================== Part 3: process_shifts, over Q *)
Definition qrule := list (Q * Q).

Definition TOL : Q := 1 # 10000000000.
(* rule[np.abs(rule) < tol] = 0   (coefficients AND shifts) *)
Definition zero_small (x : Q) : Q := if Qltb (Qabs x) TOL then 0 else x.
Definition zero_small_rule (r : qrule) : qrule := map (fun cs => (zero_small (fst cs), zero_small (snd cs))) r.
(* rule = rule[~(rule[:, 0] == 0)] *)
Definition drop_zero (r : qrule) : qrule := filter (fun cs => negb (Qeq_bool (fst cs) 0)) r.

Definition round_key (s : Q) : Z := round10 s.

(* np.unique: distinct values, ascending *)
Fixpoint dedupZ (l : list Z) : list Z :=
  match l with [] => [] | x :: r => if existsb (Z.eqb x) r then dedupZ r else x :: dedupZ r end.
Fixpoint insertZ (x : Z) (l : list Z) : list Z :=
  match l with [] => [x] | y :: r => if (x <=? y)%Z then x :: l else y :: insertZ x r end.
Definition sortZ (l : list Z) : list Z := fold_right insertZ [] l.
Definition unique_keys (r : qrule) : list Z := sortZ (dedupZ (map (fun cs => round_key (snd cs)) r)).

(* np.sum(rule[slc, 0]) over the rows whose rounded shift is k *)
Fixpoint coeff_for (k : Z) (r : qrule) : Q :=
  match r with [] => 0
  | cs :: t => if (round_key (snd cs) =? k)%Z then fst cs + coeff_for k t else coeff_for k t end.

Definition merge_always (r : qrule) : qrule := map (fun k => (coeff_for k r, key_val k)) (unique_keys r).
(* if rule.shape[0] != unique_mods.shape[0]: ... (otherwise the rule is left as it is, unrounded) *)
Definition merge (r : qrule) : qrule :=
  if (length r =? length (unique_keys r))%nat then r else merge_always r.

(* np.lexsort((-np.sign(s), np.abs(s))): primary |s| ascending, then positive before negative; stable *)
Definition sgnQ (s : Q) : Z := Z.sgn (Qnum s).
Definition shift_le (a b : Q) : bool :=
  Qltb (Qabs a) (Qabs b) || (Qeq_bool (Qabs a) (Qabs b) && (- sgnQ a <=? - sgnQ b)%Z).
Fixpoint insertS (x : Q * Q) (l : qrule) : qrule :=
  match l with [] => [x] | y :: r => if shift_le (snd x) (snd y) then x :: l else y :: insertS x r end.
Definition sort_rule (r : qrule) : qrule := fold_right insertS [] r.

Definition process_core (r : qrule) : qrule := sort_rule (merge (drop_zero r)).
Definition process_shifts (r : qrule) : qrule := process_core (zero_small_rule r).

(* sum_k c_k * g(s_k) *)
Fixpoint qsum (g : Q -> Q) (r : qrule) : Q :=
  match r with [] => 0 | cs :: t => fst cs * g (snd cs) + qsum g t end.
Definition rounded (r : qrule) : qrule := map (fun cs => (fst cs, key_val (round_key (snd cs)))) r.
Definition on_grid (r : qrule) : Prop := forall cs, In cs r -> key_val (round_key (snd cs)) == snd cs.

(* ================================================================== correspondence cases *)
Inductive tcase :=
| CBranch (freqs : list Q) (shifts : option (list Q)) (observed : branch)
| CProcess (r : qrule) (observed : qrule).

Definition eq_branch (a b : branch) : bool :=
  match a, b with BErr, BErr | BEqui, BEqui | BSolve, BSolve => true | _, _ => false end.
Fixpoint eq_qrule (a b : qrule) : bool :=
  match a, b with
  | [], [] => true
  | x :: r, y :: s => Qeq_bool (fst x) (fst y) && Qeq_bool (snd x) (snd y) && eq_qrule r s
  | _, _ => false
  end.

Definition check_case (c : tcase) : bool :=
  match c with
  | CBranch f s o => eq_branch (generate_branch f s) o
  | CProcess r o => eq_qrule (process_shifts r) o
  end.
