(* Lemmas about the optimizer model (Num/OptimizersModel.v).  The gradient-descent family is treated over Q;
   the Rotosolve closed form over the stdlib reals (second part of the file). *)
From Coq Require Import List ZArith QArith Qabs Qround Bool Lia Setoid Morphisms.
From PLV Require Import Num.OptimizersModel.
Import ListNotations.
Open Scope Q_scope.

(* ------------------------------------------------------------------ vectors *)
Lemma coord_nil : forall k, coord k [] = 0.
Proof. destruct k; reflexivity. Qed.

Lemma map_coord : forall (g : Q -> Q) l k, g 0 == 0 -> coord k (map g l) == g (coord k l).
Proof.
  unfold coord. induction l as [|x l IH]; intros k H; destruct k; simpl; try (symmetry; exact H); try reflexivity.
  apply IH, H.
Qed.

Lemma vzip_coord : forall f a b k, f 0 0 == 0 -> coord k (vzip f a b) == f (coord k a) (coord k b).
Proof.
  intros f a. induction a as [|x a IH]; intros b k H.
  - cbn [vzip]. rewrite coord_nil. apply (map_coord (f 0)), H.
  - destruct b as [|y b].
    + cbn [vzip]. rewrite coord_nil. apply (map_coord (fun x => f x 0)), H.
    + cbn [vzip]. destruct k; unfold coord; simpl; [reflexivity | apply IH, H].
Qed.

Lemma nth_0_hd : forall {A} (l : list A) d, nth 0 l d = hd d l.
Proof. destruct l; reflexivity. Qed.
Lemma nth_S_tl : forall {A} (l : list A) d i, nth (S i) l d = nth i (tl l) d.
Proof. destruct l; simpl; intros; [destruct i|]; reflexivity. Qed.
Lemma nth_repeat_same : forall {A} (x : A) n i, nth i (repeat x n) x = x.
Proof. induction n; destruct i; simpl; auto. Qed.

(* ------------------------------------------------------------------ the apply_grad loop *)
Lemma walk_args_nth : forall u args grad st i,
  nth i (fst (walk u grad args st)) dflt_arg =
  let a := nth i args dflt_arg in
  if fst a then (true, fst (u (snd a) (nth (rank i args) grad []) (nth i st empty_acc))) else a.
Proof.
  induction args as [|[rg x] r IH]; intros grad st i.
  - destruct i; reflexivity.
  - cbn [walk]. destruct rg.
    + destruct (u x (hd [] grad) (hd empty_acc st)) as [x' s'] eqn:E.
      specialize (IH (tl grad) (tl st)).
      destruct (walk u (tl grad) r (tl st)) as [r' st'] eqn:W. destruct i.
      * cbn [fst snd rank nth]. rewrite !nth_0_hd. unfold vec in *. rewrite E. reflexivity.
      * cbn [fst nth rank]. change (1 + rank i r)%nat with (S (rank i r)).
        rewrite !nth_S_tl. exact (IH i).
    + specialize (IH grad (tl st)).
      destruct (walk u grad r (tl st)) as [r' st'] eqn:W. destruct i.
      * reflexivity.
      * cbn [fst nth rank]. change (0 + rank i r)%nat with (rank i r). rewrite nth_S_tl. exact (IH i).
Qed.

Lemma walk_st_nth : forall u args grad st i,
  nth i (snd (walk u grad args st)) empty_acc =
  let a := nth i args dflt_arg in
  if fst a then snd (u (snd a) (nth (rank i args) grad []) (nth i st empty_acc)) else nth i st empty_acc.
Proof.
  induction args as [|[rg x] r IH]; intros grad st i.
  - destruct i; reflexivity.
  - cbn [walk]. destruct rg.
    + destruct (u x (hd [] grad) (hd empty_acc st)) as [x' s'] eqn:E.
      specialize (IH (tl grad) (tl st)).
      destruct (walk u (tl grad) r (tl st)) as [r' st'] eqn:W. destruct i.
      * cbn [fst snd rank nth]. rewrite !nth_0_hd. unfold vec in *. rewrite E. reflexivity.
      * cbn [snd fst nth rank]. change (1 + rank i r)%nat with (S (rank i r)).
        rewrite !nth_S_tl. exact (IH i).
    + specialize (IH grad (tl st)).
      destruct (walk u grad r (tl st)) as [r' st'] eqn:W. destruct i.
      * cbn [fst snd rank nth]. rewrite nth_0_hd. reflexivity.
      * cbn [snd fst nth rank]. rewrite nth_S_tl. exact (IH i).
Qed.

Lemma walk_flags : forall u args grad st, map fst (fst (walk u grad args st)) = map fst args.
Proof.
  induction args as [|[rg x] r IH]; intros grad st; [reflexivity|].
  cbn [walk]. destruct rg.
  - destruct (u x (hd [] grad) (hd empty_acc st)) as [x' s'].
    specialize (IH (tl grad) (tl st)). destruct (walk u (tl grad) r (tl st)). cbn in *. now rewrite IH.
  - specialize (IH grad (tl st)). destruct (walk u grad r (tl st)). cbn in *. now rewrite IH.
Qed.

Lemma rank_flags : forall a b i, map fst a = map fst b -> rank i a = rank i b.
Proof.
  induction a as [|[rg x] a IH]; intros [|[rg' y] b] i H; try discriminate; [reflexivity|].
  cbn in H. injection H as -> H. destruct i; [reflexivity|]. cbn [rank]. now rewrite (IH b i H).
Qed.

Lemma trainable_flags : forall a b i, map fst a = map fst b -> trainable i a = trainable i b.
Proof.
  unfold trainable. induction a as [|[rg x] a IH]; intros [|[rg' y] b] i H; try discriminate; [reflexivity|].
  cbn in H. injection H as -> H. destruct i; [reflexivity|]. cbn [nth]. apply IH, H.
Qed.

(* ------------------------------------------------------------------ one call of step *)
Definition cur (args : list arg) (st : ostate) : nat * list accs :=
  match st with None => init_state args | Some s => s end.

Lemma step_unfold : forall k h nm gradf args st,
  step k h nm gradf args st =
  (fst (walk (upd k h nm (S (fst (cur args st)))) (gradf (query k h args st)) args (snd (cur args st))),
   Some (S (fst (cur args st)),
         snd (walk (upd k h nm (S (fst (cur args st)))) (gradf (query k h args st)) args (snd (cur args st))))).
Proof.
  intros. unfold step, opt_apply. fold (cur args st). destruct (cur args st) as [t ac]. cbn [fst snd].
  destruct (walk _ _ args ac); reflexivity.
Qed.

Lemma cur_acc : forall args st i, nth i (snd (cur args st)) empty_acc = (acc1 i st, acc2 i st).
Proof.
  intros args [[t ac]|] i; unfold acc1, acc2; cbn.
  - destruct (nth i ac empty_acc); reflexivity.
  - rewrite nth_repeat_same. destruct i; reflexivity.
Qed.

Lemma cur_t : forall args st, fst (cur args st) = st_t st.
Proof. intros args [[t ac]|]; reflexivity. Qed.

Lemma step_flags : forall k h nm gradf args st, map fst (fst (step k h nm gradf args st)) = map fst args.
Proof. intros. rewrite step_unfold. cbn [fst]. apply walk_flags. Qed.

Lemma step_t : forall k h nm gradf args st, st_t (snd (step k h nm gradf args st)) = S (st_t st).
Proof. intros. rewrite step_unfold. cbn. now rewrite cur_t. Qed.

(* the generic statement behind multi_arg_independent / nontrainable_untouched *)
Lemma step_arg : forall k h nm gradf args st i,
  nth i (fst (step k h nm gradf args st)) dflt_arg =
  if trainable i args
  then (true, fst (upd k h nm (S (st_t st)) (argv i args) (nth (rank i args) (gradf (query k h args st)) [])
                       (acc1 i st, acc2 i st)))
  else nth i args dflt_arg.
Proof.
  intros. rewrite step_unfold. cbn [fst]. rewrite walk_args_nth. cbn zeta.
  unfold trainable, argv. rewrite cur_acc, cur_t. reflexivity.
Qed.

Lemma step_acc : forall k h nm gradf args st i,
  (acc1 i (snd (step k h nm gradf args st)), acc2 i (snd (step k h nm gradf args st))) =
  if trainable i args
  then snd (upd k h nm (S (st_t st)) (argv i args) (nth (rank i args) (gradf (query k h args st)) [])
                (acc1 i st, acc2 i st))
  else (acc1 i st, acc2 i st).
Proof.
  intros. rewrite step_unfold. unfold acc1 at 1, acc2 at 1. cbn [snd st_accs].
  rewrite <- surjective_pairing. rewrite walk_st_nth. cbn zeta.
  unfold trainable, argv. rewrite cur_acc, cur_t. reflexivity.
Qed.

Lemma step_argv_untouched : forall k h nm gradf args st i,
  trainable i args = false -> nth i (fst (step k h nm gradf args st)) dflt_arg = nth i args dflt_arg.
Proof. intros. rewrite step_arg, H. reflexivity. Qed.

(* ------------------------------------------------------------------ histories *)
Lemma run_S : forall k h nm orc n t0 args st,
  run k h nm orc (S n) t0 args st =
  run k h nm orc n (S t0) (fst (step k h nm (orc t0) args st)) (snd (step k h nm (orc t0) args st)).
Proof. intros. cbn [run]. destruct (step k h nm (orc t0) args st); reflexivity. Qed.

Lemma trace_S : forall k h nm orc n t0 args st,
  trace k h nm orc (S n) t0 args st =
  orc t0 (query k h args st)
  :: trace k h nm orc n (S t0) (fst (step k h nm (orc t0) args st)) (snd (step k h nm (orc t0) args st)).
Proof. intros. cbn [trace]. destruct (step k h nm (orc t0) args st); reflexivity. Qed.

Lemma trace_length : forall k h nm orc n t0 args st, length (trace k h nm orc n t0 args st) = n.
Proof. induction n; intros; [reflexivity|]. rewrite trace_S. cbn [length]. now rewrite IHn. Qed.

Lemma run_flags : forall k h nm orc n t0 args st, map fst (fst (run k h nm orc n t0 args st)) = map fst args.
Proof. induction n; intros; [reflexivity|]. rewrite run_S, IHn. apply step_flags. Qed.

Lemma run_t : forall k h nm orc n t0 args st, st_t (snd (run k h nm orc n t0 args st)) = (n + st_t st)%nat.
Proof. induction n; intros; [reflexivity|]. rewrite run_S, IHn, step_t. lia. Qed.

Lemma trace_nth : forall k h nm orc n t0 args st j, (j < n)%nat ->
  nth j (trace k h nm orc n t0 args st) [] =
  orc (t0 + j)%nat (query k h (fst (run k h nm orc j t0 args st)) (snd (run k h nm orc j t0 args st))).
Proof.
  induction n; intros t0 args st j Hj; [lia|]. rewrite trace_S. destruct j.
  - cbn [nth run fst snd]. now rewrite Nat.add_0_r.
  - cbn [nth]. rewrite IHn by lia. rewrite run_S. now rewrite Nat.add_succ_comm.
Qed.

(* non-trainable arguments, any number of steps *)
Lemma run_untouched : forall k h nm orc n t0 args st i,
  trainable i args = false -> nth i (fst (run k h nm orc n t0 args st)) dflt_arg = nth i args dflt_arg.
Proof.
  induction n; intros t0 args st i H; [reflexivity|]. rewrite run_S, IHn.
  - now apply step_argv_untouched.
  - rewrite (trainable_flags _ args); [exact H | apply step_flags].
Qed.

Ltac vz := rewrite vzip_coord; cbv beta; rewrite ?Qred_correct; try ring; try reflexivity.

(* ---- gradient descent ---- *)
Lemma gd_step_coord : forall h nm gradf args st i c, trainable i args = true ->
  coord c (argv i (fst (step GD h nm gradf args st))) ==
  coord c (argv i args) - eta h * coord c (nth (rank i args) (gradf (query GD h args st)) []).
Proof.
  intros. unfold argv at 1. rewrite step_arg, H. cbn [snd fst upd].
  vz.
Qed.

Lemma gd_closed : forall h nm orc n t0 args st i c, trainable i args = true ->
  coord c (argv i (fst (run GD h nm orc n t0 args st))) ==
  coord c (argv i args) - eta h * qsum (gseq (rank i args) c (trace GD h nm orc n t0 args st)).
Proof.
  induction n; intros t0 args st i c H.
  - cbn. ring.
  - rewrite run_S, trace_S. cbn [gseq map qsum].
    rewrite IHn by (rewrite (trainable_flags _ args); [exact H | apply step_flags]).
    rewrite (rank_flags _ args) by apply step_flags.
    rewrite gd_step_coord by exact H. unfold gseq, vec. ring.
Qed.

(* ---- linear accumulator recurrences  a' = alpha * a + beta * phi(g)  along a history ---- *)
Lemma qpow_S : forall x n, qpow x (S n) = x * qpow x n.
Proof. reflexivity. Qed.

Lemma run_linear_acc :
  forall (k : kind) (h : hyper) (nm : numerics) (proj : nat -> ostate -> vec) (alpha beta : Q) (phi : Q -> Q) i c,
  (forall gradf args st, trainable i args = true ->
     coord c (proj i (snd (step k h nm gradf args st))) ==
     alpha * coord c (proj i st) + beta * phi (coord c (nth (rank i args) (gradf (query k h args st)) []))) ->
  forall orc n t0 args st, trainable i args = true ->
    coord c (proj i (snd (run k h nm orc n t0 args st))) ==
    qpow alpha n * coord c (proj i st) +
    wsum alpha (map (fun g => beta * phi g) (gseq (rank i args) c (trace k h nm orc n t0 args st))).
Proof.
  intros k h nm proj alpha beta phi i c Hstep orc. induction n; intros t0 args st H.
  - cbn. ring.
  - rewrite run_S, trace_S. cbn [gseq map wsum].
    rewrite IHn by (rewrite (trainable_flags _ args); [exact H | apply step_flags]).
    rewrite (rank_flags _ args) by apply step_flags.
    rewrite Hstep by exact H. unfold gseq.
    rewrite !map_length, trace_length, qpow_S. unfold vec. ring.
Qed.

Lemma step_acc1 : forall k h nm gradf args st i, trainable i args = true ->
  acc1 i (snd (step k h nm gradf args st)) =
  fst (snd (upd k h nm (S (st_t st)) (argv i args) (nth (rank i args) (gradf (query k h args st)) []) (acc1 i st, acc2 i st))).
Proof. intros. pose proof (step_acc k h nm gradf args st i) as E. rewrite H in E. now rewrite <- E. Qed.

Lemma step_acc2 : forall k h nm gradf args st i, trainable i args = true ->
  acc2 i (snd (step k h nm gradf args st)) =
  snd (snd (upd k h nm (S (st_t st)) (argv i args) (nth (rank i args) (gradf (query k h args st)) []) (acc1 i st, acc2 i st))).
Proof. intros. pose proof (step_acc k h nm gradf args st i) as E. rewrite H in E. now rewrite <- E. Qed.

Definition is_momentum (k : kind) : Prop := k = Momentum \/ k = Nesterov.

Lemma momentum_step_acc : forall k h nm gradf args st i c, is_momentum k -> trainable i args = true ->
  coord c (acc1 i (snd (step k h nm gradf args st))) ==
  gam h * coord c (acc1 i st) + eta h * (coord c (nth (rank i args) (gradf (query k h args st)) [])).
Proof.
  intros k h nm gradf args st i c [-> | ->] H; rewrite step_acc1 by exact H; cbn [upd fst snd];
    vz.
Qed.

Lemma momentum_step_arg : forall k h nm gradf args st i c, is_momentum k -> trainable i args = true ->
  coord c (argv i (fst (step k h nm gradf args st))) ==
  coord c (argv i args) - coord c (acc1 i (snd (step k h nm gradf args st))).
Proof.
  intros k h nm gradf args st i c [-> | ->] H; rewrite step_acc1 by exact H; unfold argv at 1;
    rewrite step_arg, H; cbn [upd fst snd];
    vz.
Qed.

Lemma adagrad_step_acc : forall h nm gradf args st i c, trainable i args = true ->
  coord c (acc1 i (snd (step Adagrad h nm gradf args st))) ==
  1 * coord c (acc1 i st) + 1 * (fun g => g * g) (coord c (nth (rank i args) (gradf (query Adagrad h args st)) [])).
Proof.
  intros. rewrite step_acc1 by exact H. cbn [upd fst snd].
  vz.
Qed.

Lemma rmsprop_step_acc : forall h nm gradf args st i c, trainable i args = true ->
  coord c (acc1 i (snd (step RMSProp h nm gradf args st))) ==
  gam h * coord c (acc1 i st) + (1 - gam h) * (fun g => g * g) (coord c (nth (rank i args) (gradf (query RMSProp h args st)) [])).
Proof.
  intros. rewrite step_acc1 by exact H. cbn [upd fst snd].
  vz.
Qed.

Lemma adam_step_fm : forall h nm gradf args st i c, trainable i args = true ->
  coord c (acc1 i (snd (step Adam h nm gradf args st))) ==
  gam h * coord c (acc1 i st) + (1 - gam h) * (fun g => g) (coord c (nth (rank i args) (gradf (query Adam h args st)) [])).
Proof.
  intros. rewrite step_acc1 by exact H. cbn [upd fst snd].
  vz.
Qed.

Lemma adam_step_sm : forall h nm gradf args st i c, trainable i args = true ->
  coord c (acc2 i (snd (step Adam h nm gradf args st))) ==
  beta2 h * coord c (acc2 i st) + (1 - beta2 h) * (fun g => g * g) (coord c (nth (rank i args) (gradf (query Adam h args st)) [])).
Proof.
  intros. rewrite step_acc2 by exact H. cbn [upd fst snd].
  vz.
Qed.

(* ---- closed forms (general start state; a fresh or reset optimizer has all accumulator coordinates 0) ---- *)
Lemma acc_fresh : forall i c, coord c (acc1 i None) = 0 /\ coord c (acc2 i None) = 0.
Proof. intros. unfold acc1, acc2. destruct i; cbn -[coord]; rewrite coord_nil; auto. Qed.

Lemma momentum_acc_closed : forall k h nm orc n t0 args st i c, is_momentum k -> trainable i args = true ->
  coord c (acc1 i (snd (run k h nm orc n t0 args st))) ==
  qpow (gam h) n * coord c (acc1 i st) +
  wsum (gam h) (map (fun g => eta h * g) (gseq (rank i args) c (trace k h nm orc n t0 args st))).
Proof.
  intros k h nm orc n t0 args st i c Hk H.
  apply (run_linear_acc k h nm acc1 (gam h) (eta h) (fun g => g) i c); [|exact H].
  intros. now apply momentum_step_acc.
Qed.

Lemma adagrad_acc_closed : forall h nm orc n t0 args st i c, trainable i args = true ->
  coord c (acc1 i (snd (run Adagrad h nm orc n t0 args st))) ==
  coord c (acc1 i st) + qsum (map (fun g => g * g) (gseq (rank i args) c (trace Adagrad h nm orc n t0 args st))).
Proof.
  intros h nm orc n t0 args st i c H.
  rewrite (run_linear_acc Adagrad h nm acc1 1 1 (fun g => g * g) i c) by (try exact H; intros; now apply adagrad_step_acc).
  assert (P : forall m, qpow 1 m == 1) by (induction m; cbn; [reflexivity | rewrite IHm; ring]).
  rewrite P. generalize (gseq (rank i args) c (trace Adagrad h nm orc n t0 args st)) as l.
  induction l as [|x l IH]; cbn [map wsum qsum]; [ring|].
  rewrite P. setoid_replace (1 * coord c (acc1 i st) + (1 * (1 * (x * x)) + wsum 1 (map (fun g : Q => 1 * (g * g)) l)))
    with (x * x + (1 * coord c (acc1 i st) + wsum 1 (map (fun g : Q => 1 * (g * g)) l))) by ring.
  rewrite IH. ring.
Qed.

Lemma rmsprop_acc_closed : forall h nm orc n t0 args st i c, trainable i args = true ->
  coord c (acc1 i (snd (run RMSProp h nm orc n t0 args st))) ==
  qpow (gam h) n * coord c (acc1 i st) +
  wsum (gam h) (map (fun g => (1 - gam h) * (g * g)) (gseq (rank i args) c (trace RMSProp h nm orc n t0 args st))).
Proof.
  intros h nm orc n t0 args st i c H.
  apply (run_linear_acc RMSProp h nm acc1 (gam h) (1 - gam h) (fun g => g * g) i c); [|exact H].
  intros. now apply rmsprop_step_acc.
Qed.

Lemma adam_fm_closed : forall h nm orc n t0 args st i c, trainable i args = true ->
  coord c (acc1 i (snd (run Adam h nm orc n t0 args st))) ==
  qpow (gam h) n * coord c (acc1 i st) +
  wsum (gam h) (map (fun g => (1 - gam h) * g) (gseq (rank i args) c (trace Adam h nm orc n t0 args st))).
Proof.
  intros h nm orc n t0 args st i c H.
  apply (run_linear_acc Adam h nm acc1 (gam h) (1 - gam h) (fun g => g) i c); [|exact H].
  intros. now apply adam_step_fm.
Qed.

Lemma adam_sm_closed : forall h nm orc n t0 args st i c, trainable i args = true ->
  coord c (acc2 i (snd (run Adam h nm orc n t0 args st))) ==
  qpow (beta2 h) n * coord c (acc2 i st) +
  wsum (beta2 h) (map (fun g => (1 - beta2 h) * (g * g)) (gseq (rank i args) c (trace Adam h nm orc n t0 args st))).
Proof.
  intros h nm orc n t0 args st i c H.
  apply (run_linear_acc Adam h nm acc2 (beta2 h) (1 - beta2 h) (fun g => g * g) i c); [|exact H].
  intros. now apply adam_step_sm.
Qed.

(* momentum parameters: x_n = x_0 - sum of the accumulators after each step; stated one step at a time above
   (momentum_step_arg) *)

(* a constant gradient shows what the (1 - beta^t) factors correct *)
Lemma wsum_const : forall (alpha g : Q) (phi : Q -> Q) l,
  (forall x, In x l -> phi x == phi g) ->
  wsum alpha (map (fun x => (1 - alpha) * phi x) l) == (1 - qpow alpha (length l)) * phi g.
Proof.
  intros alpha g phi. induction l as [|x l IH]; intros H; cbn [map wsum length qpow].
  - ring.
  - rewrite IH by (intros; apply H; now right). rewrite map_length, (H x) by now left. ring.
Qed.

Lemma adam_bias_algebra : forall (h : hyper) (sq : Q -> Q) (t : nat) (f v : Q),
  (forall a b, sq (a * b) == sq a * sq b) -> Proper (Qeq ==> Qeq) sq ->
  ~ 1 - qpow (gam h) t == 0 -> ~ 1 - qpow (beta2 h) t == 0 -> ~ sq (1 - qpow (beta2 h) t) == 0 ->
  ~ sq v + eps h == 0 ->
  adam_stepsize h sq t * f / (sq v + eps h) ==
  eta h * (f / (1 - qpow (gam h) t)) / (sq (v / (1 - qpow (beta2 h) t)) + eps h / sq (1 - qpow (beta2 h) t)).
Proof.
  intros h sq t f v Hm Hp H1 H2 Hs Hd. unfold adam_stepsize.
  set (d1 := 1 - qpow (gam h) t) in *. set (d2 := 1 - qpow (beta2 h) t) in *.
  assert (E : sq v == sq (v / d2) * sq d2).
  { rewrite <- Hm. apply Hp. field. exact H2. }
  assert (Hd' : ~ sq (v / d2) * sq d2 + eps h == 0) by (now rewrite <- E).
  rewrite E. set (w := sq (v / d2)) in *. set (s := sq d2) in *.
  field. repeat split; assumption.
Qed.

(* ---- parameter updates of the square-root optimizers, coordinate by coordinate ---- *)
Definition good_rnd (nm : numerics) : Prop := Proper (Qeq ==> Qeq) (rnd nm) /\ rnd nm 0 == 0.

Lemma rnd_zero : forall nm x, good_rnd nm -> x == 0 -> rnd nm x == 0.
Proof. intros nm x [P Z] H. rewrite H. exact Z. Qed.

Lemma adagrad_like_update : forall k h nm gradf args st i c, k = Adagrad \/ k = RMSProp -> good_rnd nm ->
  trainable i args = true ->
  coord c (argv i (fst (step k h nm gradf args st))) ==
  coord c (argv i args) -
  rnd nm (eta h / sq nm (coord c (acc1 i (snd (step k h nm gradf args st))) + eps h)
          * coord c (nth (rank i args) (gradf (query k h args st)) [])).
Proof.
  intros k h nm gradf args st i c [-> | ->] G H; rewrite step_acc1 by exact H; unfold argv at 1;
    rewrite step_arg, H; cbn [upd fst snd].
  all: rewrite vzip_coord; cbv beta; rewrite ?Qred_correct; [|ring].
  all: rewrite vzip_coord; cbv beta; [reflexivity | apply rnd_zero; [exact G | ring]].
Qed.

Lemma adam_update : forall h nm gradf args st i c, good_rnd nm -> trainable i args = true ->
  coord c (argv i (fst (step Adam h nm gradf args st))) ==
  coord c (argv i args) -
  rnd nm (adam_stepsize h (sq nm) (S (st_t st)) * coord c (acc1 i (snd (step Adam h nm gradf args st)))
          / (sq nm (coord c (acc2 i (snd (step Adam h nm gradf args st)))) + eps h)).
Proof.
  intros h nm gradf args st i c G H. rewrite step_acc1, step_acc2 by exact H. unfold argv at 1.
  rewrite step_arg, H; cbn [upd fst snd].
  rewrite vzip_coord; cbv beta; rewrite ?Qred_correct; [|ring].
  rewrite vzip_coord; cbv beta; [reflexivity | apply rnd_zero; [exact G | unfold Qdiv; ring]].
Qed.

(* ---- step_and_cost ---- *)
Lemma sc_same_update : forall k h nm ag gradf costf args st,
  fst (step_and_cost k h nm ag gradf costf args st) = step k h nm gradf args st.
Proof.
  intros. unfold step_and_cost, step. destruct (opt_apply k h nm (gradf (query k h args st)) args st); reflexivity.
Qed.

Lemma sc_cost : forall k h nm ag gradf costf args st,
  snd (step_and_cost k h nm ag gradf costf args st) = if ag then costf (query k h args st) else costf args.
Proof.
  intros. unfold step_and_cost. destruct (opt_apply k h nm (gradf (query k h args st)) args st).
  destruct ag; reflexivity.
Qed.

Lemma query_id : forall k h args st, k <> Nesterov \/ st = None -> query k h args st = args.
Proof. intros k h args st [H | ->]; destruct k; try reflexivity; congruence. Qed.

Lemma sc_prestep : forall k h nm ag gradf costf args st,
  k <> Nesterov \/ ag = false \/ st = None ->
  snd (step_and_cost k h nm ag gradf costf args st) = costf args.
Proof.
  intros k h nm ag gradf costf args st H. rewrite sc_cost. destruct ag; [|reflexivity].
  rewrite query_id; [reflexivity|]. destruct H as [H | [H | H]]; [now left | discriminate | now right].
Qed.

Definition nm_id : numerics := mkN (fun x => x) (fun x => x).

Lemma nesterov_sc_refuted :
  exists h gradf costf args st,
    ~ snd (step_and_cost Nesterov h nm_id true gradf costf args st) == costf args.
Proof.
  exists (mkH (1 # 2) (1 # 2) 0 0), (fun a => [map (fun x => 2 * x) (argv 0 a)]), (fun a => coord 0 (argv 0 a)),
         [(true, [1])], (Some (1%nat, [([1], [])])).
  vm_compute. discriminate.
Qed.

(* ---- Nesterov: where the oracle is asked ---- *)
Lemma shift_nth : forall m args ac i,
  nth i (shift m args ac) dflt_arg =
  let a := nth i args dflt_arg in
  if fst a then (true, vzip (fun x y => Qred (x - m * y)) (snd a) (fst (nth i ac empty_acc))) else a.
Proof.
  induction args as [|[rg x] r IH]; intros ac i.
  - destruct i; reflexivity.
  - cbn [shift]. destruct i.
    + cbn [nth fst snd]. rewrite nth_0_hd. destruct rg; reflexivity.
    + cbn [nth]. rewrite nth_S_tl. apply IH.
Qed.

Lemma shift_coord : forall m args ac i c,
  coord c (argv i (shift m args ac)) ==
  if trainable i args then coord c (argv i args) - m * coord c (fst (nth i ac empty_acc)) else coord c (argv i args).
Proof.
  intros. unfold argv at 1. rewrite shift_nth. cbv zeta. unfold trainable, argv.
  destruct (fst (nth i args dflt_arg)); [|reflexivity]. cbn [snd]. vz.
Qed.

Lemma step_state_nonempty : forall k h nm gradf args st, args <> [] ->
  exists t a ac, snd (step k h nm gradf args st) = Some (t, a :: ac).
Proof.
  intros k h nm gradf [|[rg x] r] st H; [congruence|]. rewrite step_unfold. cbn [snd walk].
  destruct rg.
  - destruct (upd _ _ _ _ _ _ _). destruct (walk _ _ r _). cbn [snd]. eauto.
  - destruct (walk _ _ r _). cbn [snd]. eauto.
Qed.

Lemma nesterov_query : forall h args st i c,
  coord c (argv i (query Nesterov h args st)) ==
  if trainable i args then coord c (argv i args) - gam h * coord c (acc1 i st) else coord c (argv i args).
Proof.
  intros h args [[t [|a ac]]|] i c; cbn [query].
  - destruct (trainable i args); [|reflexivity]. unfold acc1. destruct i; cbn -[coord argv]; rewrite coord_nil; ring.
  - rewrite shift_coord. reflexivity.
  - destruct (acc_fresh i c) as [E _]. rewrite E. destruct (trainable i args); [ring | reflexivity].
Qed.

(* ---- square-root enclosure used by the correspondence run ---- *)
Lemma qsqrt_enclosure : forall p x, 0 < x ->
  let lo := qsqrt p x in let hi := lo + (1 # (Qden x * 2 ^ p)) in
  0 <= lo /\ lo * lo <= x /\ x < hi * hi.
Proof.
  intros p [n d] Hx. unfold qsqrt. cbn [Qnum Qden].
  assert (Hn : (0 < n)%Z) by (unfold Qlt in Hx; cbn in Hx; lia).
  destruct (Qle_bool (n # d) 0) eqn:E.
  { apply Qle_bool_iff in E. unfold Qle in E; cbn in E. lia. }
  cbv zeta. set (N := (n * Zpos d * 4 ^ Zpos p)%Z). set (D := (d * 2 ^ p)%positive).
  assert (HN : (0 <= N)%Z) by (unfold N; apply Z.mul_nonneg_nonneg; [lia | apply Z.pow_nonneg; lia]).
  pose proof (Z.sqrt_spec N HN) as [S1 S2]. set (s := Z.sqrt N) in *.
  assert (Hs : (0 <= s)%Z) by apply Z.sqrt_nonneg.
  assert (HD : (Zpos D * Zpos D = Zpos d * Zpos d * 4 ^ Zpos p)%Z).
  { unfold D. rewrite Pos2Z.inj_mul, Pos2Z.inj_pow. change 4%Z with (2 * 2)%Z. rewrite Z.pow_mul_l. ring. }
  rewrite !Qred_correct. repeat split.
  - unfold Qle; cbn. lia.
  - unfold Qle; cbn [Qnum Qden Qmult]. rewrite Pos2Z.inj_mul, HD.
    apply Z.le_trans with (N * Zpos d)%Z; [apply Z.mul_le_mono_nonneg_r; lia | unfold N; apply Z.eq_le_incl; ring].
  - setoid_replace ((s # D) + (1 # D)) with ((s + 1)%Z # D) by (unfold Qeq; cbn [Qnum Qden Qplus]; rewrite Pos2Z.inj_mul; ring).
    unfold Qlt; cbn [Qnum Qden Qmult]. rewrite Pos2Z.inj_mul, HD.
    apply Z.le_lt_trans with (N * Zpos d)%Z; [unfold N; apply Z.eq_le_incl; ring|].
    apply Z.mul_lt_mono_pos_r; [lia|]. unfold Z.succ in S2. lia.
Qed.

(* ---- Rotoselect selection loop ---- *)
Lemma roto_select_min : forall cands bi bt bc i,
  let r := roto_select bi bt bc i cands in
  snd r <= bc /\ (forall th c, In (th, c) cands -> snd r <= c).
Proof.
  induction cands as [|[th c] cands IH]; intros bi bt bc i; cbn [roto_select].
  - split; [apply Qle_refl | intros ? ? []].
  - destruct (Qle_bool c bc) eqn:E.
    + apply Qle_bool_iff in E. destruct (IH i th c (S i)) as [A B]. split.
      * eapply Qle_trans; eauto.
      * intros th' c' [X | X]; [injection X as <- <-; exact A | eapply B; eauto].
    + assert (L : bc < c). { apply Qnot_le_lt. intro X. apply Qle_bool_iff in X. congruence. }
      destruct (IH bi bt bc (S i)) as [A B]. split; [exact A|].
      intros th' c' [X | X]; [injection X as <- <-; eapply Qle_trans; [exact A | now apply Qlt_le_weak] | eapply B; eauto].
Qed.

(* ================================================================== Rotosolve / Rotoselect closed form, over the reals *)
From Coq Require Import Reals Lra.
Local Close Scope Q_scope.
Local Open Scope R_scope.

(* numpy.arctan2(y, x) for finite arguments *)
Definition atan2 (y x : R) : R :=
  if Rlt_dec 0 x then atan (y / x)
  else if Rlt_dec x 0 then (if Rle_dec 0 y then atan (y / x) + PI else atan (y / x) - PI)
  else if Rlt_dec 0 y then PI / 2 else if Rlt_dec y 0 then - (PI / 2) else 0.

Lemma atan_polar : forall t, cos (atan t) > 0 /\ sin (atan t) = t * cos (atan t).
Proof.
  intros t. pose proof (atan_bound t) as [B1 B2].
  assert (Hc : cos (atan t) > 0) by (apply cos_gt_0; lra).
  split; [exact Hc|]. pose proof (atan_right_inv t) as E. unfold tan in E.
  rewrite <- E at 2. field. lra.
Qed.

Lemma atan2_polar : forall y x, exists r, 0 <= r /\ x = r * cos (atan2 y x) /\ y = r * sin (atan2 y x).
Proof.
  intros y x. unfold atan2. destruct (Rlt_dec 0 x) as [Hx | Hx].
  - destruct (atan_polar (y / x)) as [Hc Hs]. exists (x / cos (atan (y / x))). repeat split.
    + apply Rlt_le, Rdiv_lt_0_compat; lra.
    + field. lra.
    + rewrite Hs. field. split; lra.
  - destruct (Rlt_dec x 0) as [Hx' | Hx'].
    + destruct (atan_polar (y / x)) as [Hc Hs]. exists (- x / cos (atan (y / x))).
      assert (R0 : 0 <= - x / cos (atan (y / x))) by (apply Rlt_le, Rdiv_lt_0_compat; lra).
      destruct (Rle_dec 0 y).
      * rewrite neg_cos, neg_sin. repeat split; [exact R0 | field; lra | rewrite Hs; field; split; lra].
      * unfold Rminus. rewrite cos_plus, sin_plus, cos_neg, sin_neg, cos_PI, sin_PI.
        repeat split; [exact R0 | field; lra | rewrite Hs; field; split; lra].
    + assert (x = 0) by lra. subst x. destruct (Rlt_dec 0 y).
      * exists y. rewrite cos_PI2, sin_PI2. repeat split; lra.
      * destruct (Rlt_dec y 0).
        -- exists (- y). rewrite cos_neg, sin_neg, cos_PI2, sin_PI2. repeat split; lra.
        -- exists 0. repeat split; lra.
Qed.

(* RotosolveOptimizer.min_analytic, transcribed: objective_fn = f, freq, f0 = f 0 *)
Definition roto_shift (freq : R) : R := / 2 * PI / freq.
Definition roto_B (f : R -> R) (freq : R) : R :=
  let s := roto_shift freq in atan2 (2 * f 0 - f s - f (- s)) (f s - f (- s)).
Definition roto_xmin (f : R -> R) (freq : R) : R :=
  let s := roto_shift freq in
  let x := - s - roto_B f freq / freq in
  if Rle_dec x (- 2 * s) then x + 4 * s else x.
Definition roto_ymin (f : R -> R) (freq : R) : R :=
  let s := roto_shift freq in
  let C := / 2 * (f s + f (- s)) in
  - sqrt ((f 0 - C) ^ 2 + / 4 * (f s - f (- s)) ^ 2) + C.

Section Rotosolve.
  Variables (f : R -> R) (C p q freq : R).
  Hypothesis Hfreq : 0 < freq.
  Hypothesis Hf : forall t, f t = C + p * sin (freq * t) + q * cos (freq * t).

  Let s := roto_shift freq.
  Lemma fs_eq : freq * s = PI / 2.
  Proof. unfold s, roto_shift. field. lra. Qed.
  Lemma f_0 : f 0 = C + q.
  Proof. rewrite Hf, Rmult_0_r, sin_0, cos_0. ring. Qed.
  Lemma f_p : f s = C + p.
  Proof. rewrite Hf, fs_eq, sin_PI2, cos_PI2. ring. Qed.
  Lemma f_m : f (- s) = C - p.
  Proof.
    rewrite Hf. replace (freq * - s) with (- (PI / 2)) by (rewrite <- fs_eq; ring).
    rewrite sin_neg, cos_neg, sin_PI2, cos_PI2. ring.
  Qed.

  Lemma roto_core : exists r, 0 <= r /\ 2 * p = r * cos (roto_B f freq) /\ 2 * q = r * sin (roto_B f freq).
  Proof.
    unfold roto_B. fold s. rewrite f_0, f_p, f_m.
    destruct (atan2_polar (2 * (C + q) - (C + p) - (C - p)) (C + p - (C - p))) as [r [H0 [H1 H2]]].
    exists r. repeat split; [exact H0 | rewrite <- H1; ring | rewrite <- H2; ring].
  Qed.

  Lemma f_lower : forall r, 0 <= r -> 2 * p = r * cos (roto_B f freq) -> 2 * q = r * sin (roto_B f freq) ->
    forall t, C - r / 2 <= f t.
  Proof.
    intros r H0 H1 H2 t. rewrite Hf.
    replace (C + p * sin (freq * t) + q * cos (freq * t)) with (C + r / 2 * sin (freq * t + roto_B f freq)).
    - pose proof (SIN_bound (freq * t + roto_B f freq)) as [L _].
      assert (0 <= r / 2 * (sin (freq * t + roto_B f freq) + 1)) by (apply Rmult_le_pos; lra). lra.
    - rewrite sin_plus. replace p with (r * cos (roto_B f freq) / 2) by lra.
      replace q with (r * sin (roto_B f freq) / 2) by lra. field.
  Qed.

  Lemma f_at : forall r x, 2 * p = r * cos (roto_B f freq) -> 2 * q = r * sin (roto_B f freq) ->
    freq * x = - (PI / 2) - roto_B f freq \/ freq * x = - (PI / 2) - roto_B f freq + 2 * PI -> f x = C - r / 2.
  Proof.
    intros r x H1 H2 Hx. rewrite Hf.
    assert (E : sin (freq * x) = - cos (roto_B f freq) /\ cos (freq * x) = - sin (roto_B f freq)).
    { assert (E0 : sin (- (PI / 2) - roto_B f freq) = - cos (roto_B f freq) /\
                   cos (- (PI / 2) - roto_B f freq) = - sin (roto_B f freq)).
      { unfold Rminus. rewrite sin_plus, cos_plus, !sin_neg, !cos_neg, sin_PI2, cos_PI2. split; ring. }
      destruct Hx as [-> | ->]; [exact E0|].
      replace (- (PI / 2) - roto_B f freq + 2 * PI) with (- (PI / 2) - roto_B f freq + PI + PI) by ring.
      rewrite neg_sin, neg_sin, neg_cos, neg_cos. destruct E0 as [-> ->]. split; ring. }
    destruct E as [-> ->]. pose proof (sin2_cos2 (roto_B f freq)) as T. unfold Rsqr in T.
    transitivity (C - r / 2 * (sin (roto_B f freq) * sin (roto_B f freq) + cos (roto_B f freq) * cos (roto_B f freq)));
      [|rewrite T; ring].
    replace p with (r * cos (roto_B f freq) / 2) by lra.
    replace q with (r * sin (roto_B f freq) / 2) by lra. field.
  Qed.

  Lemma xmin_angle : freq * roto_xmin f freq = - (PI / 2) - roto_B f freq \/
                     freq * roto_xmin f freq = - (PI / 2) - roto_B f freq + 2 * PI.
  Proof.
    unfold roto_xmin. fold s. destruct (Rle_dec (- s - roto_B f freq / freq) (- 2 * s)); [right | left].
    - replace (freq * (- s - roto_B f freq / freq + 4 * s)) with (- (freq * s) - roto_B f freq + 4 * (freq * s)) by (field; lra).
      rewrite fs_eq. field.
    - replace (freq * (- s - roto_B f freq / freq)) with (- (freq * s) - roto_B f freq) by (field; lra).
      rewrite fs_eq. ring.
  Qed.

  Theorem rotosolve_min : forall t, f (roto_xmin f freq) <= f t.
  Proof.
    intros t. destruct roto_core as [r [H0 [H1 H2]]].
    rewrite (f_at r _ H1 H2 xmin_angle). now apply f_lower.
  Qed.

  Theorem rotosolve_ymin : roto_ymin f freq = f (roto_xmin f freq).
  Proof.
    destruct roto_core as [r [H0 [H1 H2]]]. rewrite (f_at r _ H1 H2 xmin_angle).
    unfold roto_ymin. fold s. rewrite f_0, f_p, f_m.
    replace ((C + q - / 2 * (C + p + (C - p))) ^ 2 + / 4 * (C + p - (C - p)) ^ 2) with ((r / 2) * (r / 2)).
    - rewrite sqrt_square by lra. field.
    - pose proof (sin2_cos2 (roto_B f freq)) as T. unfold Rsqr in T.
      transitivity (r / 2 * (r / 2) * (sin (roto_B f freq) * sin (roto_B f freq) + cos (roto_B f freq) * cos (roto_B f freq)));
        [rewrite T; ring|].
      replace p with (r * cos (roto_B f freq) / 2) by lra.
      replace q with (r * sin (roto_B f freq) / 2) by lra. field.
  Qed.

End Rotosolve.

(* the amplitude / phase form of the property text *)
Lemma rotosolve_min_phase : forall (f : R -> R) (A phi C freq : R), 0 < freq ->
  (forall t, f t = A * sin (freq * t + phi) + C) ->
  forall t, f (roto_xmin f freq) <= f t.
Proof.
  intros f A phi C freq Hfr Hf. apply (rotosolve_min f C (A * cos phi) (A * sin phi) freq Hfr).
  intros t. rewrite Hf, sin_plus. ring.
Qed.
