(* C59: lemmas about the model of pennylane.fourier (coq/Num/FourierModel.v).
   Part A: finite sets of rationals as lists (membership up to ==), canonical form, sumset algebra.
   Part B: the transcription (join_nn on half spectra + mirror) equals the sumset of the full spectra;
           |jac| scaling = scaling of the full spectrum; gate half spectrum = eigenvalue differences.
   Part C: finite Fourier sums: product -> sumset of frequencies, evaluation homomorphism, x -> a x.
   Part D: DFT in an arbitrary commutative ring: orthogonality and exactness for band-limited samples (all N);
           exact orthogonality in the model's cyclotomic coordinates for odd N <= 17 (by computation);
           low-pass index bookkeeping. *)
From Coq Require Import List ZArith QArith Qabs Bool Lia Lqa Setoid.
From PLV Require Import Num.FourierModel.
Import ListNotations.
Open Scope Q_scope.

(* membership up to equality of rationals *)
Definition InQ (x : Q) (l : list Q) : Prop := exists y, In y l /\ x == y.
Fixpoint nodupQ (l : list Q) : Prop := match l with [] => True | x :: r => ~ InQ x r /\ nodupQ r end.
Fixpoint ssorted (l : list Q) : Prop := match l with [] => True | x :: r => (forall y, In y r -> x < y) /\ ssorted r end.
Fixpoint wsorted (l : list Q) : Prop := match l with [] => True | x :: r => (forall y, In y r -> x <= y) /\ wsorted r end.
Definition nonneg (l : list Q) : Prop := forall y, In y l -> 0 <= y.

Lemma InQ_compat x x' l : x == x' -> InQ x l -> InQ x' l.
Proof. intros E (y & Hy & Hx). exists y. split; [exact Hy|]. rewrite <- E. exact Hx. Qed.
Lemma InQ_nil x : ~ InQ x [].
Proof. intros (y & [] & _). Qed.
Lemma InQ_cons x y l : InQ x (y :: l) <-> x == y \/ InQ x l.
Proof.
  split.
  - intros (z & [<-|Hz] & E); [left; exact E | right; exists z; auto].
  - intros [E|(z & Hz & E)]; [exists y; split; [left; reflexivity | exact E] | exists z; split; [right; exact Hz | exact E]].
Qed.
Lemma InQ_app x a b : InQ x (a ++ b) <-> InQ x a \/ InQ x b.
Proof.
  split.
  - intros (z & Hz & E). apply in_app_or in Hz as [Hz|Hz]; [left|right]; exists z; auto.
  - intros [(z & Hz & E)|(z & Hz & E)]; exists z; split; auto; apply in_or_app; auto.
Qed.
Lemma In_InQ x l : In x l -> InQ x l.
Proof. intros H. exists x. split; [exact H | reflexivity]. Qed.
Lemma InQ_map_opp x l : InQ x (map Qopp l) <-> InQ (- x) l.
Proof.
  split.
  - intros (z & Hz & E). apply in_map_iff in Hz as (u & <- & Hu). exists u. split; [exact Hu|]. rewrite E. ring.
  - intros (z & Hz & E). exists (- z). split; [apply in_map; exact Hz|]. rewrite <- E. ring.
Qed.
Lemma InQ_map_mul c x l : InQ x (map (Qmult c) l) <-> exists u, InQ u l /\ x == c * u.
Proof.
  split.
  - intros (z & Hz & E). apply in_map_iff in Hz as (u & <- & Hu). exists u. split; [apply In_InQ; exact Hu | exact E].
  - intros (u & (z & Hz & Eu) & E). exists (c * z). split; [apply in_map; exact Hz|]. rewrite E, Eu. reflexivity.
Qed.

Lemma memQ_spec x l : memQ x l = true <-> InQ x l.
Proof.
  unfold memQ. rewrite existsb_exists. split; intros (y & Hy & E); exists y; split; auto; apply Qeq_bool_iff; exact E.
Qed.
Lemma InQ_nubQ x l : InQ x (nubQ l) <-> InQ x l.
Proof.
  induction l as [|y l IH]; [reflexivity|]. cbn [nubQ]. destruct (memQ y l) eqn:M.
  - rewrite IH, InQ_cons. split; [auto|]. intros [E|H]; [|exact H]. apply memQ_spec in M. apply (InQ_compat y); [symmetry; exact E | exact M].
  - rewrite !InQ_cons, IH. reflexivity.
Qed.
Lemma nubQ_nodup l : nodupQ (nubQ l).
Proof.
  induction l as [|y l IH]; [exact I|]. cbn [nubQ]. destruct (memQ y l) eqn:M; [exact IH|].
  split; [|exact IH]. rewrite InQ_nubQ. intros H. apply memQ_spec in H. congruence.
Qed.
Lemma InQ_insQ x y l : InQ x (insQ y l) <-> x == y \/ InQ x l.
Proof.
  induction l as [|z l IH]; cbn [insQ]; [apply InQ_cons|].
  destruct (Qle_bool y z); [apply InQ_cons|]. rewrite InQ_cons, IH, InQ_cons. tauto.
Qed.
Lemma In_insQ x y l : In x (insQ y l) <-> x = y \/ In x l.
Proof.
  induction l as [|z l IH]; cbn [insQ]; [cbn; intuition|].
  destruct (Qle_bool y z); [cbn; intuition|]. cbn [In]. rewrite IH. cbn [In]. intuition.
Qed.
Lemma InQ_sortQ x l : InQ x (sortQ l) <-> InQ x l.
Proof.
  induction l as [|y l IH]; [reflexivity|]. unfold sortQ in *. cbn [fold_right]. rewrite InQ_insQ, IH, InQ_cons. reflexivity.
Qed.
Lemma In_sortQ x l : In x (sortQ l) <-> In x l.
Proof.
  induction l as [|y l IH]; [reflexivity|]. unfold sortQ in *. cbn [fold_right]. rewrite In_insQ, IH. cbn [In]. intuition.
Qed.
Lemma InQ_setQ x l : InQ x (setQ l) <-> InQ x l.
Proof. unfold setQ. rewrite InQ_sortQ. apply InQ_nubQ. Qed.

Lemma insQ_wsorted y l : wsorted l -> wsorted (insQ y l).
Proof.
  induction l as [|z l IH]; intros H; cbn [insQ]; [split; [intros ? []|exact I]|].
  destruct (Qle_bool y z) eqn:L.
  - apply Qle_bool_iff in L. split; [|exact H]. destruct H as [Hz _]. intros u [<-|Hu]; [exact L|].
    apply Qle_trans with z; [exact L | apply Hz; exact Hu].
  - assert (Lt : z <= y). { destruct (Qlt_le_dec z y) as [G|G]; [apply Qlt_le_weak; exact G|]. apply Qle_bool_iff in G. congruence. }
    destruct H as [Hz Hs]. split; [|apply IH; exact Hs]. intros u Hu. apply In_insQ in Hu as [->|Hu]; [exact Lt | apply Hz; exact Hu].
Qed.
Lemma sortQ_wsorted l : wsorted (sortQ l).
Proof. induction l as [|y l IH]; [exact I|]. unfold sortQ in *. cbn [fold_right]. apply insQ_wsorted. exact IH. Qed.
Lemma insQ_ssorted y l : ssorted l -> ~ InQ y l -> ssorted (insQ y l).
Proof.
  induction l as [|z l IH]; intros H N; cbn [insQ]; [split; [intros ? []|exact I]|].
  assert (Nz : ~ y == z). { intros E. apply N. apply InQ_cons. left. exact E. }
  assert (Nl : ~ InQ y l). { intros E. apply N. apply InQ_cons. right. exact E. }
  destruct (Qle_bool y z) eqn:L.
  - apply Qle_bool_iff in L. assert (Lt : y < z). { apply Qle_lteq in L as [L|L]; [exact L | contradiction]. }
    split; [|exact H]. destruct H as [Hz _]. intros u [<-|Hu]; [exact Lt|]. apply Qlt_trans with z; [exact Lt | apply Hz; exact Hu].
  - assert (Lt : z < y). { destruct (Qlt_le_dec z y) as [G|G]; [exact G|]. apply Qle_bool_iff in G. congruence. }
    destruct H as [Hz Hs]. split; [|apply IH; assumption]. intros u Hu. apply In_insQ in Hu as [->|Hu]; [exact Lt | apply Hz; exact Hu].
Qed.
Lemma sortQ_ssorted l : nodupQ l -> ssorted (sortQ l).
Proof.
  induction l as [|y l IH]; intros H; [exact I|]. destruct H as [N H]. unfold sortQ in *. cbn [fold_right].
  apply insQ_ssorted; [apply IH; exact H|]. change (~ InQ y (sortQ l)). rewrite InQ_sortQ. exact N.
Qed.
Lemma setQ_ssorted l : ssorted (setQ l).
Proof. apply sortQ_ssorted, nubQ_nodup. Qed.

(* two strictly sorted lists with the same members are equal entry by entry *)
Lemma ssorted_head_lt x l y : ssorted (x :: l) -> InQ y l -> x < y.
Proof. intros [H _] (z & Hz & E). rewrite E. apply H. exact Hz. Qed.
Lemma ssorted_ext a : forall b, ssorted a -> ssorted b -> (forall x, InQ x a <-> InQ x b) -> Forall2 Qeq a b.
Proof.
  induction a as [|x a IH]; intros [|y b] Ha Hb E.
  - constructor.
  - exfalso. apply (InQ_nil y). apply E. apply InQ_cons. left. reflexivity.
  - exfalso. apply (InQ_nil x). apply E. apply InQ_cons. left. reflexivity.
  - assert (Exy : x == y).
    { destruct (proj1 (InQ_cons x y b) (proj1 (E x) (proj2 (InQ_cons x x a) (or_introl (Qeq_refl x))))) as [G|G]; [exact G|].
      destruct (proj1 (InQ_cons y x a) (proj2 (E y) (proj2 (InQ_cons y y b) (or_introl (Qeq_refl y))))) as [G'|G']; [symmetry; exact G'|].
      pose proof (ssorted_head_lt _ _ _ Hb G). pose proof (ssorted_head_lt _ _ _ Ha G'). lra. }
    constructor; [exact Exy|]. apply IH; [apply Ha | apply Hb|]. intros z. split; intros Hz.
    + assert (G : InQ z (y :: b)) by (apply E, InQ_cons; right; exact Hz). apply InQ_cons in G as [G|G]; [|exact G].
      pose proof (ssorted_head_lt _ _ _ Ha Hz). lra.
    + assert (G : InQ z (x :: a)) by (apply E, InQ_cons; right; exact Hz). apply InQ_cons in G as [G|G]; [|exact G].
      pose proof (ssorted_head_lt _ _ _ Hb Hz). lra.
Qed.

(* ------------------------------------------------------------------ sumset *)
Lemma In_sums x a b : In x (sums a b) <-> exists u v, In u a /\ In v b /\ x = u + v.
Proof.
  unfold sums. rewrite in_flat_map. split.
  - intros (u & Hu & H). apply in_map_iff in H as (v & <- & Hv). exists u, v. auto.
  - intros (u & v & Hu & Hv & ->). exists u. split; [exact Hu | apply in_map; exact Hv].
Qed.
Lemma InQ_sums x a b : InQ x (sums a b) <-> exists u v, InQ u a /\ InQ v b /\ x == u + v.
Proof.
  split.
  - intros (z & Hz & E). apply In_sums in Hz as (u & v & Hu & Hv & ->). exists u, v. repeat split; auto using In_InQ.
  - intros (u & v & (u' & Hu & Eu) & (v' & Hv & Ev) & E). exists (u' + v'). split; [apply In_sums; exists u', v'; auto|].
    rewrite E, Eu, Ev. reflexivity.
Qed.
Lemma sumset_spec x a b : InQ x (sumset a b) <-> exists u v, InQ u a /\ InQ v b /\ x == u + v.
Proof. unfold sumset. rewrite InQ_setQ. apply InQ_sums. Qed.
Lemma sumset_spec_In x a b : InQ x (sumset a b) <-> exists u v, In u a /\ In v b /\ x == u + v.
Proof.
  rewrite sumset_spec. split.
  - intros (u & v & (u' & Hu & Eu) & (v' & Hv & Ev) & E). exists u', v'. repeat split; auto. rewrite E, Eu, Ev. reflexivity.
  - intros (u & v & Hu & Hv & E). exists u, v. repeat split; auto using In_InQ.
Qed.
Lemma sumset_comm_mem x a b : InQ x (sumset a b) <-> InQ x (sumset b a).
Proof. rewrite !sumset_spec. split; intros (u & v & Hu & Hv & E); exists v, u; repeat split; auto; rewrite E; ring. Qed.
Lemma sumset_assoc_mem x a b c : InQ x (sumset (sumset a b) c) <-> InQ x (sumset a (sumset b c)).
Proof.
  rewrite !sumset_spec. split.
  - intros (s & w & Hs & Hw & E). apply sumset_spec in Hs as (u & v & Hu & Hv & Es).
    exists u, (v + w). split; [exact Hu|]. split.
    + apply sumset_spec. exists v, w. split; [exact Hv|]. split; [exact Hw | reflexivity].
    + rewrite E, Es. ring.
  - intros (u & s & Hu & Hs & E). apply sumset_spec in Hs as (v & w & Hv & Hw & Es).
    exists (u + v), w. split.
    + apply sumset_spec. exists u, v. split; [exact Hu|]. split; [exact Hv | reflexivity].
    + split; [exact Hw|]. rewrite E, Es. ring.
Qed.
Lemma sumset_comm a b : Forall2 Qeq (sumset a b) (sumset b a).
Proof. apply ssorted_ext; try apply setQ_ssorted. intros x. apply sumset_comm_mem. Qed.
Lemma sumset_assoc a b c : Forall2 Qeq (sumset (sumset a b) c) (sumset a (sumset b c)).
Proof. apply ssorted_ext; try apply setQ_ssorted. intros x. apply sumset_assoc_mem. Qed.
Lemma scaleset_spec c x a : InQ x (scaleset c a) <-> exists u, InQ u a /\ x == c * u.
Proof. unfold scaleset. rewrite InQ_setQ. apply InQ_map_mul. Qed.
Lemma scaleset_sumset c a b x : InQ x (scaleset c (sumset a b)) <-> InQ x (sumset (scaleset c a) (scaleset c b)).
Proof.
  rewrite scaleset_spec, sumset_spec. split.
  - intros (s & Hs & E). apply sumset_spec in Hs as (u & v & Hu & Hv & Es). exists (c * u), (c * v).
    repeat split; [apply scaleset_spec; exists u; split; [auto|reflexivity] | apply scaleset_spec; exists v; split; [auto|reflexivity]|].
    rewrite E, Es. ring.
  - intros (u' & v' & Hu & Hv & E). apply scaleset_spec in Hu as (u & Hu & Eu). apply scaleset_spec in Hv as (v & Hv & Ev).
    exists (u + v). split; [apply sumset_spec; exists u, v; repeat split; auto; reflexivity|]. rewrite E, Eu, Ev. ring.
Qed.

(* ------------------------------------------------------------------ the transcription: mirror and join_nn *)
Lemma sortQ_nonneg s : nonneg s -> nonneg (sortQ s).
Proof. intros H y Hy. apply H. apply In_sortQ. exact Hy. Qed.

Lemma InQ_mirror x s : nonneg s -> InQ 0 s -> (InQ x (mirror s) <-> InQ x s \/ InQ (- x) s).
Proof.
  intros Hn H0. unfold mirror. cbv zeta. rewrite InQ_app, InQ_map_opp.
  assert (Hrev : forall z l, InQ z (rev l) <-> InQ z l).
  { intros z l. split; intros (y & Hy & E); exists y; split; auto; [apply in_rev; exact Hy | apply in_rev in Hy; exact Hy]. }
  rewrite Hrev. rewrite <- (InQ_sortQ x s), <- (InQ_sortQ (- x) s).
  pose proof (sortQ_wsorted s) as Hw. pose proof (sortQ_nonneg s Hn) as Hn'. apply InQ_sortQ in H0.
  destruct (sortQ s) as [|h t]; [cbn [tl]; tauto|]. cbn [tl]. split.
  - intros [H|H]; [right; apply InQ_cons; right; exact H | left; exact H].
  - intros [H|H]; [right; exact H|]. apply InQ_cons in H as [E|H]; [|left; exact H]. right.
    (* -x == h and h is the minimum, 0 is a member, everything is non-negative: h == 0 *)
    assert (Hh : h == 0).
    { apply Qle_antisym; [|apply Hn'; left; reflexivity]. apply InQ_cons in H0 as [E0|(z & Hz & E0)]; [rewrite E0; apply Qle_refl|].
      destruct Hw as [Hw _]. rewrite E0. apply Hw. exact Hz. }
    apply InQ_cons. left. rewrite Hh in E. lra.
Qed.

Lemma In_join_raw x a b : In x (join_raw a b) <-> exists u v, In u a /\ In v b /\ (x = u + v \/ x = Qabs (u - v)).
Proof.
  unfold join_raw. rewrite in_app_iff, !in_flat_map. split.
  - intros [(u & Hu & H)|(u & Hu & H)]; apply in_map_iff in H as (v & <- & Hv); exists u, v; auto.
  - intros (u & v & Hu & Hv & [->| ->]); [left|right]; exists u; (split; [exact Hu|]); apply in_map_iff; exists v; auto.
Qed.

Lemma is_zero_set_spec s : is_zero_set s = true -> exists z, s = [z] /\ z == 0.
Proof. destruct s as [|z [|? ?]]; cbn; try discriminate. intros H. exists z. split; [reflexivity | apply Qeq_bool_iff; exact H]. Qed.

Lemma InQ_join_nn x a b : nonneg a -> nonneg b -> InQ 0 a -> InQ 0 b ->
  (InQ x (join_nn a b) <-> exists u v, In u a /\ In v b /\ (x == u + v \/ x == Qabs (u - v))).
Proof.
  intros Ha Hb Za Zb. unfold join_nn. destruct (is_zero_set a) eqn:Ea; [|destruct (is_zero_set b) eqn:Eb].
  - apply is_zero_set_spec in Ea as (z & -> & Ez). split.
    + intros (y & Hy & E). exists z, y. split; [left; reflexivity|]. split; [exact Hy|]. left. rewrite Ez, E. ring.
    + intros (u & v & [<-|[]] & Hv & [E|E]); exists v; (split; [exact Hv|]).
      * rewrite E, Ez. ring.
      * rewrite E. pose proof (Hb v Hv). rewrite Ez. setoid_replace (0 - v) with (- v) by ring. rewrite Qabs_opp. apply Qabs_pos. assumption.
  - apply is_zero_set_spec in Eb as (z & -> & Ez). split.
    + intros (y & Hy & E). exists y, z. split; [exact Hy|]. split; [left; reflexivity|]. left. rewrite Ez, E. ring.
    + intros (u & v & Hu & [<-|[]] & [E|E]); exists u; (split; [exact Hu|]).
      * rewrite E, Ez. ring.
      * rewrite E. pose proof (Ha u Hu). rewrite Ez. setoid_replace (u - 0) with u by ring. apply Qabs_pos. assumption.
  - rewrite InQ_nubQ. split.
    + intros (y & Hy & E). apply In_join_raw in Hy as (u & v & Hu & Hv & [->| ->]); exists u, v; auto.
    + intros (u & v & Hu & Hv & [E|E]); [exists (u + v) | exists (Qabs (u - v))]; (split; [apply In_join_raw; exists u, v; auto | exact E]).
Qed.

Lemma join_nn_nonneg a b : nonneg a -> nonneg b -> nonneg (join_nn a b).
Proof.
  intros Ha Hb. unfold join_nn. destruct (is_zero_set a); [exact Hb|]. destruct (is_zero_set b); [exact Ha|].
  intros y Hy. assert (G : InQ y (join_raw a b)) by (apply InQ_nubQ, In_InQ; exact Hy).
  destruct G as (z & Hz & E). apply In_join_raw in Hz as (u & v & Hu & Hv & [->| ->]); rewrite E.
  - pose proof (Ha u Hu). pose proof (Hb v Hv). lra.
  - apply Qabs_nonneg.
Qed.

Lemma Qabs_cases x : (0 <= x /\ Qabs x == x) \/ (x <= 0 /\ Qabs x == - x).
Proof. destruct (Qlt_le_dec x 0) as [H|H]; [right; split; [lra | apply Qabs_neg; lra] | left; split; [exact H | apply Qabs_pos; exact H]]. Qed.

(* the implementation's bookkeeping on non-negative half spectra followed by the final mirroring
   = sumset of the full (mirrored) spectra *)
Lemma mirror_join_sumset x a b : nonneg a -> nonneg b -> InQ 0 a -> InQ 0 b ->
  (InQ x (mirror (join_nn a b)) <-> InQ x (sumset (mirror a) (mirror b))).
Proof.
  intros Ha Hb Za Zb.
  assert (Zj : InQ 0 (join_nn a b)).
  { apply InQ_join_nn; auto. destruct Za as (u & Hu & Eu). destruct Zb as (v & Hv & Ev). exists u, v. repeat split; auto. left. rewrite <- Eu, <- Ev. ring. }
  rewrite (InQ_mirror x _ (join_nn_nonneg a b Ha Hb) Zj), !InQ_join_nn by assumption. rewrite sumset_spec.
  assert (Ma : forall u, In u a -> InQ u (mirror a) /\ InQ (- u) (mirror a)).
  { intros u Hu. split; apply InQ_mirror; auto; [left; apply In_InQ; exact Hu | right; apply (InQ_compat u); [ring | apply In_InQ; exact Hu]]. }
  assert (Mb : forall v, In v b -> InQ v (mirror b) /\ InQ (- v) (mirror b)).
  { intros v Hv. split; apply InQ_mirror; auto; [left; apply In_InQ; exact Hv | right; apply (InQ_compat v); [ring | apply In_InQ; exact Hv]]. }
  split.
  - intros [(u & v & Hu & Hv & [E|E])|(u & v & Hu & Hv & [E|E])]; destruct (Ma u Hu) as [Pu Nu]; destruct (Mb v Hv) as [Pv Nv].
    + exists u, v. auto.
    + destruct (Qabs_cases (u - v)) as [[G Eq]|[G Eq]]; rewrite Eq in E; [exists u, (- v) | exists (- u), v]; repeat split; auto; lra.
    + exists (- u), (- v). repeat split; auto. lra.
    + destruct (Qabs_cases (u - v)) as [[G Eq]|[G Eq]]; rewrite Eq in E; [exists (- u), v | exists u, (- v)]; repeat split; auto; lra.
  - intros (u' & v' & Hu & Hv & E).
    apply InQ_mirror in Hu; auto. apply InQ_mirror in Hv; auto.
    destruct Hu as [(u & Hu & Eu)|(u & Hu & Eu)]; destruct Hv as [(v & Hv & Ev)|(v & Hv & Ev)].
    + left. exists u, v. repeat split; auto. left. lra.
    + destruct (Qabs_cases (u - v)) as [[G Eq]|[G Eq]]; [left|right]; exists u, v; repeat split; auto; right; rewrite Eq; lra.
    + destruct (Qabs_cases (u - v)) as [[G Eq]|[G Eq]]; [right|left]; exists u, v; repeat split; auto; right; rewrite Eq; lra.
    + right. exists u, v. repeat split; auto. left. lra.
Qed.

(* scaling by |jac| on the half spectrum = scaling the full spectrum by jac (qnode_spectrum) *)
Lemma mirror_scale x j s : nonneg s -> InQ 0 s ->
  (InQ x (mirror (map (Qmult (Qabs j)) s)) <-> exists u, InQ u (mirror s) /\ x == j * u).
Proof.
  intros Hn H0.
  assert (Hn' : nonneg (map (Qmult (Qabs j)) s)).
  { intros y Hy. apply in_map_iff in Hy as (u & <- & Hu). apply Qmult_le_0_compat; [apply Qabs_nonneg | apply Hn; exact Hu]. }
  assert (H0' : InQ 0 (map (Qmult (Qabs j)) s)).
  { apply InQ_map_mul. exists 0. split; [exact H0 | ring]. }
  rewrite (InQ_mirror x _ Hn' H0'), !InQ_map_mul. split.
  - intros [(u & Hu & E)|(u & Hu & E)]; destruct (Qabs_cases j) as [[G Eq]|[G Eq]]; rewrite Eq in E.
    + exists u. split; [apply InQ_mirror; auto | exact E].
    + exists (- u). split; [apply InQ_mirror; auto; right; apply (InQ_compat u); [ring | exact Hu] | lra].
    + exists (- u). split; [apply InQ_mirror; auto; right; apply (InQ_compat u); [ring | exact Hu] | lra].
    + exists u. split; [apply InQ_mirror; auto | lra].
  - intros (u & Hu & E). apply InQ_mirror in Hu; auto.
    destruct Hu as [Hu|Hu]; destruct (Qabs_cases j) as [[G Eq]|[G Eq]].
    + left. exists u. split; [exact Hu | rewrite Eq; exact E].
    + right. exists u. split; [exact Hu | rewrite Eq; lra].
    + right. exists (- u). split; [exact Hu | rewrite Eq; lra].
    + left. exists (- u). split; [exact Hu | rewrite Eq; lra].
Qed.

Lemma get_spectrum_zero ev : InQ 0 (get_spectrum ev).
Proof. unfold get_spectrum. apply InQ_nubQ, InQ_app. right. apply In_InQ. left. reflexivity. Qed.
Lemma pair_diffs_nonneg ev : wsorted ev -> nonneg (pair_diffs ev).
Proof.
  induction ev as [|x r IH]; intros H y Hy; [destruct Hy|]. destruct H as [Hx Hr]. cbn [pair_diffs] in Hy.
  apply in_app_or in Hy as [Hy|Hy]; [|apply IH; assumption]. apply in_map_iff in Hy as (z & <- & Hz). pose proof (Hx z Hz). lra.
Qed.
Lemma get_spectrum_nonneg ev : wsorted ev -> nonneg (get_spectrum ev).
Proof.
  intros H y Hy. assert (G : InQ y (pair_diffs ev ++ [0])) by (apply InQ_nubQ, In_InQ; exact Hy).
  destruct G as (z & Hz & E). rewrite E. apply in_app_or in Hz as [Hz|[<-|[]]]; [apply (pair_diffs_nonneg ev H); exact Hz | apply Qle_refl].
Qed.
(* the half spectrum of a gate = all differences of two eigenvalues, up to sign *)
Lemma In_pair_diffs ev x : In x (pair_diffs ev) -> exists e e', In e ev /\ In e' ev /\ x = e' - e.
Proof.
  induction ev as [|y r IH]; [intros []|]. cbn [pair_diffs]. intros H. apply in_app_or in H as [H|H].
  - apply in_map_iff in H as (z & <- & Hz). exists y, z. cbn [In]. auto.
  - destruct (IH H) as (e & e' & He & He' & ->). exists e, e'. cbn [In]. auto.
Qed.
Lemma pair_diffs_complete ev : forall e e', In e ev -> In e' ev -> InQ (e' - e) (pair_diffs ev ++ [0]) \/ InQ (e - e') (pair_diffs ev ++ [0]).
Proof.
  induction ev as [|y r IH]; [intros ? ? []|]. intros e e' [<-|He] [<-|He'].
  - left. apply InQ_app. right. exists 0. split; [left; reflexivity | ring].
  - left. apply InQ_app. left. apply In_InQ. cbn [pair_diffs]. apply in_or_app. left. apply in_map_iff. exists e'. auto.
  - right. apply InQ_app. left. apply In_InQ. cbn [pair_diffs]. apply in_or_app. left. apply in_map_iff. exists e. auto.
  - destruct (IH e e' He He') as [H|H]; [left|right]; apply InQ_app in H as [H|H]; apply InQ_app; auto; left;
      destruct H as (z & Hz & E); exists z; (split; [cbn [pair_diffs]; apply in_or_app; right; exact Hz | exact E]).
Qed.
Lemma get_spectrum_spec ev x : ev <> [] -> wsorted ev ->
  (InQ x (mirror (get_spectrum ev)) <-> exists e e', In e ev /\ In e' ev /\ x == e' - e).
Proof.
  intros Hne Hw.
  assert (Hex : exists e, In e ev) by (destruct ev as [|e ?]; [congruence | exists e; left; reflexivity]).
  destruct Hex as (e0 & He0).
  rewrite (InQ_mirror x _ (get_spectrum_nonneg ev Hw) (get_spectrum_zero ev)). unfold get_spectrum. rewrite !InQ_nubQ. split.
  - intros [H|H]; apply InQ_app in H as [(z & Hz & E)|(z & [<-|[]] & E)].
    + apply In_pair_diffs in Hz as (e & e' & He & He' & ->). exists e, e'. auto.
    + exists e0, e0. repeat split; auto. rewrite E. ring.
    + apply In_pair_diffs in Hz as (e & e' & He & He' & ->). exists e', e. repeat split; auto. lra.
    + exists e0, e0. repeat split; auto. lra.
  - intros (e & e' & He & He' & E). destruct (pair_diffs_complete ev e e' He He') as [H|H]; [left|right].
    + apply (InQ_compat (e' - e)); [symmetry; exact E | exact H].
    + apply (InQ_compat (e - e')); [rewrite E; ring | exact H].
Qed.

(* ------------------------------------------------------------------ finite Fourier sums *)
Lemma freqs_fmul f p q : In f (freqs (fmul p q)) -> exists u v, In u (freqs p) /\ In v (freqs q) /\ f = u + v.
Proof.
  unfold freqs, fmul. intros H. apply in_map_iff in H as (t & <- & Ht). apply in_flat_map in Ht as (s & Hs & Ht).
  apply in_map_iff in Ht as (t0 & <- & Ht0). exists (fst s), (fst t0). repeat split; try (apply in_map; assumption).
Qed.
Lemma freqs_fmul_sumset f p q : In f (freqs (fmul p q)) -> InQ f (sumset (freqs p) (freqs q)).
Proof. intros H. apply freqs_fmul in H as (u & v & Hu & Hv & ->). apply sumset_spec_In. exists u, v. split; [exact Hu|]. split; [exact Hv | reflexivity]. Qed.

Lemma feval_app chi p q : feval chi (p ++ q) == feval chi p + feval chi q.
Proof. induction p as [|t p IH]; cbn [feval app]; [ring | rewrite IH; ring]. Qed.
Lemma feval_fmul chi : (forall a b, chi (a + b) == chi a * chi b) ->
  forall p q, feval chi (fmul p q) == feval chi p * feval chi q.
Proof.
  intros Hchi p q. induction p as [|s p IH]; [cbn; ring|]. unfold fmul in *. cbn [flat_map feval]. rewrite feval_app, IH.
  assert (G : feval chi (map (fun t => (fst s + fst t, snd s * snd t)) q) == snd s * chi (fst s) * feval chi q).
  { clear IH. induction q as [|t q IHq]; cbn [map feval fst snd]; [ring|]. rewrite IHq, Hchi. ring. }
  rewrite G. ring.
Qed.
Lemma freqs_fscale a p : freqs (fscale_arg a p) = map (Qmult a) (freqs p).
Proof. unfold freqs, fscale_arg. rewrite !map_map. reflexivity. Qed.
Lemma feval_fscale chi a p : feval chi (fscale_arg a p) = feval (fun w => chi (a * w)) p.
Proof. induction p as [|t p IH]; cbn [fscale_arg map feval fst snd]; [reflexivity|]. unfold fscale_arg in IH. rewrite IH. reflexivity. Qed.

(* ------------------------------------------------------------------ DFT in a commutative ring *)
Section DFT.
Variable R : Type.
Variables (rO rI : R) (radd rmul rsub : R -> R -> R) (ropp : R -> R).
Hypothesis Rth : ring_theory rO rI radd rmul rsub ropp (@eq R).
Add Ring Rring : Rth.
Local Infix "+r" := radd (at level 50, left associativity).
Local Infix "*r" := rmul (at level 40, left associativity).
Local Infix "-r" := rsub (at level 50, left associativity).

Fixpoint rpow (w : R) (n : nat) : R := match n with O => rI | S k => w *r rpow w k end.
Fixpoint rsum (n : nat) (g : nat -> R) : R := match n with O => rO | S k => rsum k g +r g k end.
Fixpoint rnat (n : nat) : R := match n with O => rO | S k => rnat k +r rI end.
Definition regular (y : R) : Prop := forall z, y *r z = rO -> z = rO.

(* samples of the band-limited function with coefficients cs (by residue) and the DFT of the samples *)
Definition idft (N : nat) (w : R) (cs : nat -> R) (j : nat) : R := rsum N (fun r => cs r *r rpow w (j * r)).
Definition dft (N : nat) (w : R) (f : nat -> R) (q : nat) : R := rsum N (fun j => f j *r rpow w (j * (N - q))).

Lemma rpow_add w a b : rpow w (a + b) = rpow w a *r rpow w b.
Proof. induction a as [|a IH]; cbn [rpow Nat.add]; [ring | rewrite IH; ring]. Qed.
Lemma rpow_mul w a b : rpow w (a * b) = rpow (rpow w a) b.
Proof.
  induction b as [|b IH]; [rewrite Nat.mul_0_r; reflexivity|]. rewrite Nat.mul_succ_r, Nat.add_comm, rpow_add, IH. reflexivity.
Qed.
Lemma rpow_one n : rpow rI n = rI.
Proof. induction n as [|n IH]; cbn [rpow]; [reflexivity | rewrite IH; ring]. Qed.
Lemma rsum_ext n g h : (forall i, (i < n)%nat -> g i = h i) -> rsum n g = rsum n h.
Proof. induction n as [|n IH]; intros H; cbn [rsum]; [reflexivity|]. rewrite IH, H by (intros; try apply H; lia). reflexivity. Qed.
Lemma rsum_zero n : rsum n (fun _ => rO) = rO.
Proof. induction n as [|n IH]; cbn [rsum]; [reflexivity | rewrite IH; ring]. Qed.
Lemma rsum_add n g h : rsum n (fun i => g i +r h i) = rsum n g +r rsum n h.
Proof. induction n as [|n IH]; cbn [rsum]; [ring | rewrite IH; ring]. Qed.
Lemma rsum_scale n c g : rsum n (fun i => c *r g i) = c *r rsum n g.
Proof. induction n as [|n IH]; cbn [rsum]; [ring | rewrite IH; ring]. Qed.
Lemma rsum_scale_r n c g : rsum n (fun i => g i *r c) = rsum n g *r c.
Proof. induction n as [|n IH]; cbn [rsum]; [ring | rewrite IH; ring]. Qed.
Lemma rsum_swap n m (g : nat -> nat -> R) : rsum n (fun i => rsum m (fun j => g i j)) = rsum m (fun j => rsum n (fun i => g i j)).
Proof.
  induction n as [|n IH]; cbn [rsum]; [rewrite rsum_zero; reflexivity|]. rewrite IH, <- rsum_add. reflexivity.
Qed.
Lemma rsum_delta n q (a : R) : (q < n)%nat -> rsum n (fun r => if Nat.eqb r q then a else rO) = a.
Proof.
  induction n as [|n IH]; intros H; [lia|]. cbn [rsum]. destruct (Nat.eqb n q) eqn:E.
  - apply Nat.eqb_eq in E. subst q. rewrite (rsum_ext n _ (fun _ => rO)), rsum_zero; [ring|].
    intros i Hi. destruct (Nat.eqb i n) eqn:E'; [apply Nat.eqb_eq in E'; lia | reflexivity].
  - apply Nat.eqb_neq in E. rewrite IH by lia. ring.
Qed.
Lemma geom_telescope x n : (x -r rI) *r rsum n (fun j => rpow x j) = rpow x n -r rI.
Proof. induction n as [|n IH]; cbn [rsum rpow]; [ring|]. transitivity ((x -r rI) *r rsum n (fun j => rpow x j) +r (x -r rI) *r rpow x n); [ring | rewrite IH; ring]. Qed.
Lemma geom_zero x n : rpow x n = rI -> regular (x -r rI) -> rsum n (fun j => rpow x j) = rO.
Proof. intros Hx Hr. apply Hr. rewrite geom_telescope, Hx. ring. Qed.
Lemma geom_one n : rsum n (fun j => rpow rI j) = rnat n.
Proof. induction n as [|n IH]; cbn [rsum rnat]; [reflexivity | rewrite IH, rpow_one; reflexivity]. Qed.

(* orthogonality of the characters of Z_N *)
Lemma orthogonality N w : rpow w N = rI -> (forall m, (0 < m < N)%nat -> regular (rpow w m -r rI)) ->
  forall r q, (r < N)%nat -> (q < N)%nat ->
  rsum N (fun j => rpow w (j * r) *r rpow w (j * (N - q))) = if Nat.eqb r q then rnat N else rO.
Proof.
  intros HN Hreg r q Hr Hq.
  rewrite (rsum_ext N _ (fun j => rpow (rpow w (r + (N - q))) j)).
  2:{ intros j _. rewrite <- rpow_add, <- Nat.mul_add_distr_l, Nat.mul_comm. apply rpow_mul. }
  destruct (Nat.eqb r q) eqn:E.
  - apply Nat.eqb_eq in E. subst q. replace (r + (N - r))%nat with N by lia. rewrite HN. apply geom_one.
  - apply Nat.eqb_neq in E. apply geom_zero.
    + rewrite <- rpow_mul, Nat.mul_comm, rpow_mul, HN. apply rpow_one.
    + destruct (Nat.lt_ge_cases r q) as [L|L].
      * apply Hreg. lia.
      * replace (r + (N - q))%nat with (N + (r - q))%nat by lia. rewrite rpow_add, HN.
        replace (rI *r rpow w (r - q)) with (rpow w (r - q)) by ring. apply Hreg. lia.
Qed.

(* the N-point DFT of the samples of sum_r c_r w^(j r) returns N c_q : exact for band-limited functions, all N *)
Theorem dft_idft N w cs : rpow w N = rI -> (forall m, (0 < m < N)%nat -> regular (rpow w m -r rI)) ->
  forall q, (q < N)%nat -> dft N w (idft N w cs) q = rnat N *r cs q.
Proof.
  intros HN Hreg q Hq. unfold dft, idft.
  rewrite (rsum_ext N _ (fun j => rsum N (fun r => cs r *r (rpow w (j * r) *r rpow w (j * (N - q)))))).
  2:{ intros j _. rewrite <- rsum_scale_r. apply rsum_ext. intros r _. ring. }
  rewrite rsum_swap.
  rewrite (rsum_ext N _ (fun r => if Nat.eqb r q then rnat N *r cs q else rO)).
  2:{ intros r Hr. rewrite rsum_scale, (orthogonality N w HN Hreg r q Hr Hq). destruct (Nat.eqb r q) eqn:E; [apply Nat.eqb_eq in E; subst r|]; ring. }
  apply rsum_delta. exact Hq.
Qed.
End DFT.

(* non-vacuity of the hypotheses: the integers with w = -1, N = 2 *)
Lemma dft_instance_Z : rpow Z 1%Z Z.mul (-1)%Z 2 = 1%Z /\
  (forall m, (0 < m < 2)%nat -> regular Z 0%Z Z.mul (Z.sub (rpow Z 1%Z Z.mul (-1)%Z m) 1%Z)).
Proof.
  split; [reflexivity|]. intros m Hm. assert (m = 1%nat) by lia. subst m. intros z Hz. cbn [rpow] in Hz. lia.
Qed.

(* ------------------------------------------------------------------ exact orthogonality in cyclotomic coordinates *)
Definition odd17 : list Z := [1; 3; 5; 7; 9; 11; 13; 15; 17]%Z.
Definition cyclo_ok (N : Z) : bool :=
  forallb (fun m => match geom_const N ((N - 1) / 2) m with
                    | Some c => Z.eqb c (if Z.eqb (m mod N) 0 then N else 0)
                    | None => false end) (zrange (- 2 * N) (Z.to_nat (4 * N + 1))).
Lemma cyclo_orthogonality_all : forallb cyclo_ok odd17 = true.
Proof. vm_compute. reflexivity. Qed.
Lemma cyclo_orthogonality N m : In N odd17 -> (- 2 * N <= m <= 2 * N)%Z ->
  geom_const N ((N - 1) / 2) m = Some (if Z.eqb (m mod N) 0 then N else 0)%Z.
Proof.
  intros HN Hm. pose proof cyclo_orthogonality_all as H. rewrite forallb_forall in H. specialize (H N HN).
  unfold cyclo_ok in H. rewrite forallb_forall in H.
  assert (Hin : In m (zrange (- 2 * N) (Z.to_nat (4 * N + 1)))).
  { unfold zrange. apply in_map_iff. exists (Z.to_nat (m + 2 * N)). split; [lia|]. apply in_seq. lia. }
  specialize (H m Hin). destruct (geom_const N ((N - 1) / 2) m) as [c|]; [|discriminate]. apply Z.eqb_eq in H. subst c. reflexivity.
Qed.
(* the tabulated DFT kernel of the model is the delta function: N at residue 0, 0 elsewhere *)
Definition gtab_ok (N : Z) : bool :=
  match gtab N ((N - 1) / 2) with
  | Some c :: rest => Z.eqb c N && forallb (fun o => match o with Some 0%Z => true | _ => false end) rest
                      && Nat.eqb (length rest) (Z.to_nat (N - 1))
  | _ => false
  end.
Lemma gtab_delta_all : forallb gtab_ok odd17 = true.
Proof. vm_compute. reflexivity. Qed.
Lemma gtab_delta N : In N odd17 -> gtab N ((N - 1) / 2) = Some N :: repeat (Some 0%Z) (Z.to_nat (N - 1)).
Proof.
  intros HN. pose proof gtab_delta_all as H. rewrite forallb_forall in H. specialize (H N HN). unfold gtab_ok in H.
  destruct (gtab N ((N - 1) / 2)) as [|[c|] rest]; try discriminate.
  apply andb_prop in H as [H H3]. apply andb_prop in H as [H1 H2]. apply Z.eqb_eq in H1. apply Nat.eqb_eq in H3. subst c. f_equal.
  rewrite <- H3. clear H3. induction rest as [|o rest IH]; [reflexivity|]. cbn [forallb] in H2. apply andb_prop in H2 as [Ho H2].
  cbn [length repeat]. rewrite <- IH by exact H2. destruct o as [[| |]|]; try discriminate. reflexivity.
Qed.

(* low-pass bookkeeping: position i of the filtered array is copied from the position of the unfiltered
   array that holds the same frequency *)
Lemma filter_src_freq t d i : (0 <= d <= t)%Z -> (0 <= i < 2 * d + 1)%Z ->
  freq_of_pos t (filter_src t d i) = freq_of_pos d i.
Proof.
  intros Hd Hi. unfold filter_src, fftshift_src, ifftshift_src, freq_of_pos. cbv zeta.
  replace ((2 * d + 1) / 2)%Z with d by (apply Z.div_unique with 1%Z; lia).
  replace ((2 * t + 1) / 2)%Z with t by (apply Z.div_unique with 1%Z; lia).
  destruct (Z.leb_spec i d) as [L|L].
  - rewrite (Z.mod_small (i + d)) by lia. replace (i + d + (t - d) - t)%Z with i by lia.
    rewrite Z.mod_small by lia. destruct (Z.leb_spec i t); lia.
  - replace ((i + d) mod (2 * d + 1))%Z with (i - d - 1)%Z by (apply Z.mod_unique with 1%Z; lia).
    replace (i - d - 1 + (t - d) - t)%Z with (i - (2 * d + 1))%Z by lia.
    replace ((i - (2 * d + 1)) mod (2 * t + 1))%Z with (i - (2 * d + 1) + (2 * t + 1))%Z by (apply Z.mod_unique with (-1)%Z; lia).
    destruct (Z.leb_spec (i - (2 * d + 1) + (2 * t + 1)) t); lia.
Qed.
