(* Model of pennylane/optimize/{gradient_descent,momentum,nesterov_momentum,adagrad,rms_prop,adam}.py
   over exact rationals, plus the selection loop of rotoselect.py.  No proofs here: this file must keep
   running for the correspondence check even when a proof elsewhere breaks.

   Data.  An argument of the objective is (requires_grad flag, flat vector of its entries).  The optimizer
   memory (`self.accumulation`) is None or one entry per argument INDEX; every entry is a pair of vectors
   (first / second accumulator; Adam uses both, Momentum/Adagrad/RMSProp only the first, GD none) and a
   step counter (Adam's "t"; a ghost for the others).  The scalar 0.0 that the source puts into a fresh
   accumulation list is the empty vector: all vector operations pad the shorter operand with zeros, which
   is numpy broadcasting of the scalar 0.  (Broadcasting between non-empty vectors of different lengths is
   an error in numpy and outside the model: gradients have the shape of their argument.)

   The square root, and the rounding of the quotient update term that contains it, are explicit function
   arguments (`sq nm`, `rnd nm`) of every definition: the theorems hold for every such pair (rnd = identity
   is the documented formula); the correspondence run instantiates them with `qsqrt 100` (a rational lower
   approximation of the square root with error < 2^-100 / denominator, proved in
   OptimizersProofs.qsqrt_encloses) and `qround 100` (rounding down to a multiple of 2^-100, which keeps the
   model's numbers dyadic and small). *)
From Coq Require Import List ZArith QArith Qabs Qround Bool.
Import ListNotations.
Open Scope Q_scope.

Definition vec := list Q.
Definition arg := (bool * vec)%type.
Definition accs := (vec * vec)%type.
Definition empty_acc : accs := ([], []).
Definition dflt_arg : arg := (false, []).

(* elementwise binary operation, the shorter operand padded with zeros *)
Fixpoint vzip (f : Q -> Q -> Q) (a b : vec) {struct a} : vec :=
  match a, b with
  | [], _ => map (f 0) b
  | _, [] => map (fun x => f x 0) a
  | x :: a', y :: b' => f x y :: vzip f a' b'
  end.

Fixpoint qpow (x : Q) (n : nat) : Q := match n with O => 1 | S n' => x * qpow x n' end.

Inductive kind := GD | Momentum | Nesterov | Adagrad | RMSProp | Adam.
(* eta = stepsize; gam = momentum (Momentum, Nesterov) / decay (RMSProp) / beta1 (Adam); beta2, eps as named *)
Record hyper := mkH { eta : Q; gam : Q; beta2 : Q; eps : Q }.
Record numerics := mkN { sq : Q -> Q; rnd : Q -> Q }.

(* ---- the per-argument update of each optimizer (body of the `if requires_grad` branch of apply_grad,
        i.e. _update_accumulation followed by the new value).  t = value of accumulation["t"] AFTER the
        increment (only Adam reads it).  Qred only normalises fractions. ---- *)
Definition adam_stepsize (h : hyper) (sq : Q -> Q) (t : nat) : Q :=
  eta h * sq (1 - qpow (beta2 h) t) / (1 - qpow (gam h) t).

Definition upd (k : kind) (h : hyper) (nm : numerics) (t : nat) (x g : vec) (s : accs) : vec * accs :=
  match k with
  | GD => (vzip (fun a b => Qred (a - eta h * b)) x g, s)
  | Momentum | Nesterov =>
      (* accumulation[index] = momentum * accumulation[index] + stepsize * grad ; arg - accumulation[index] *)
      let a' := vzip (fun a b => Qred (gam h * a + eta h * b)) (fst s) g in
      (vzip (fun a b => Qred (a - b)) x a', (a', snd s))
  | Adagrad =>
      (* accumulation[index] + grad**2 ; arg - stepsize / sqrt(accumulation[index] + eps) * grad *)
      let a' := vzip (fun a b => Qred (a + b * b)) (fst s) g in
      (vzip (fun a b => Qred (a - b)) x (vzip (fun a b => rnd nm (eta h / sq nm (a + eps h) * b)) a' g), (a', snd s))
  | RMSProp =>
      (* decay * accumulation[index] + (1 - decay) * grad**2 *)
      let a' := vzip (fun a b => Qred (gam h * a + (1 - gam h) * (b * b))) (fst s) g in
      (vzip (fun a b => Qred (a - b)) x (vzip (fun a b => rnd nm (eta h / sq nm (a + eps h) * b)) a' g), (a', snd s))
  | Adam =>
      let fm' := vzip (fun a b => Qred (gam h * a + (1 - gam h) * b)) (fst s) g in
      let sm' := vzip (fun a b => Qred (beta2 h * a + (1 - beta2 h) * (b * b))) (snd s) g in
      let ns := adam_stepsize h (sq nm) t in
      (vzip (fun a b => Qred (a - b)) x (vzip (fun f v => rnd nm (ns * f / (sq nm v + eps h))) fm' sm'), (fm', sm'))
  end.

(* ---- the loop of apply_grad: `index` walks over the arguments and over the accumulation list,
        `trained_index` over the gradient tuple (consumed from the front) ---- *)
Fixpoint walk (u : vec -> vec -> accs -> vec * accs) (grad : list vec) (args : list arg) (st : list accs)
  : list arg * list accs :=
  match args with
  | [] => ([], st)
  | (rg, x) :: r =>
      let s := hd empty_acc st in
      if rg then
        let '(x', s') := u x (hd [] grad) s in
        let '(r', st') := walk u (tl grad) r (tl st) in
        ((rg, x') :: r', s' :: st')
      else
        let '(r', st') := walk u grad r (tl st) in
        ((rg, x) :: r', s :: st')
  end.

Definition ostate := option (nat * list accs).        (* None = `self.accumulation is None` *)

(* if self.accumulation is None: self.accumulation = [0.0] * len(args)   (Adam: fm, sm, t = 0) *)
Definition init_state (args : list arg) : nat * list accs := (O, repeat empty_acc (length args)).

Definition opt_apply (k : kind) (h : hyper) (nm : numerics) (grad : list vec) (args : list arg) (st : ostate)
  : list arg * ostate :=
  let '(t, ac) := match st with None => init_state args | Some s => s end in
  let t' := S t in
  let '(args', ac') := walk (upd k h nm t') grad args ac in
  (args', Some (t', ac')).

(* ---- compute_grad: where the gradient oracle is queried.  Nesterov: `if self.accumulation:` (not None and
        not an empty list) the trainable arguments are shifted by - momentum * accumulation[index]. ---- *)
Fixpoint shift (m : Q) (args : list arg) (ac : list accs) : list arg :=
  match args with
  | [] => []
  | (rg, x) :: r =>
      (rg, if rg then vzip (fun a b => Qred (a - m * b)) x (fst (hd empty_acc ac)) else x) :: shift m r (tl ac)
  end.

Definition query (k : kind) (h : hyper) (args : list arg) (st : ostate) : list arg :=
  match k, st with
  | Nesterov, Some (_, (_ :: _) as ac) => shift (gam h) args ac
  | _, _ => args
  end.

(* step / step_and_cost.  `gradf` and `costf` are the oracles (gradient: one vector per TRAINABLE argument,
   in order).  autograd = true models grad_fn=None: the gradient function built by qp.grad records the
   objective value of its own evaluation point in `.forward`, and step_and_cost returns that value when it
   is present; with a user grad_fn (no `.forward`) the objective is evaluated at *args. *)
Definition step (k : kind) (h : hyper) (nm : numerics) (gradf : list arg -> list vec) (args : list arg) (st : ostate)
  : list arg * ostate :=
  opt_apply k h nm (gradf (query k h args st)) args st.

Definition step_and_cost (k : kind) (h : hyper) (nm : numerics) (autograd : bool)
  (gradf : list arg -> list vec) (costf : list arg -> Q) (args : list arg) (st : ostate)
  : list arg * ostate * Q :=
  let q := query k h args st in
  let g := gradf q in
  let forward := if autograd then Some (costf q) else None in
  let '(args', st') := opt_apply k h nm g args st in
  (args', st', match forward with Some c => c | None => costf args end).

Definition reset (st : ostate) : ostate := None.

(* ---- histories: n steps with a step-indexed gradient oracle; `trace` = the gradients the optimizer was
        given, `queries` = the points at which the oracle was asked ---- *)
Fixpoint run (k : kind) (h : hyper) (nm : numerics) (orc : nat -> list arg -> list vec) (n t0 : nat)
  (args : list arg) (st : ostate) : list arg * ostate :=
  match n with
  | O => (args, st)
  | S n' => let '(args', st') := step k h nm (orc t0) args st in run k h nm orc n' (S t0) args' st'
  end.

Fixpoint trace (k : kind) (h : hyper) (nm : numerics) (orc : nat -> list arg -> list vec) (n t0 : nat)
  (args : list arg) (st : ostate) : list (list vec) :=
  match n with
  | O => []
  | S n' => let '(args', st') := step k h nm (orc t0) args st in
            orc t0 (query k h args st) :: trace k h nm orc n' (S t0) args' st'
  end.

(* ---- observers used by the statements ---- *)
Definition argv (i : nat) (args : list arg) : vec := snd (nth i args dflt_arg).
Definition trainable (i : nat) (args : list arg) : bool := fst (nth i args dflt_arg).
Definition coord (k : nat) (v : vec) : Q := nth k v 0.
(* number of trainable arguments before position i = the index of argument i's gradient in the tuple *)
Fixpoint rank (i : nat) (args : list arg) : nat :=
  match i, args with
  | S i', (rg, _) :: r => (if rg then 1 else 0) + rank i' r
  | _, _ => 0
  end%nat.
Definition st_accs (st : ostate) : list accs := match st with None => [] | Some (_, ac) => ac end.
Definition st_t (st : ostate) : nat := match st with None => O | Some (t, _) => t end.
Definition acc1 (i : nat) (st : ostate) : vec := fst (nth i (st_accs st) empty_acc).
Definition acc2 (i : nat) (st : ostate) : vec := snd (nth i (st_accs st) empty_acc).
(* coordinate k of the gradient of argument i in each element of a trace *)
Definition gseq (r k : nat) (tr : list (list vec)) : list Q := map (fun g => coord k (nth r g [])) tr.

Fixpoint qsum (l : list Q) : Q := match l with [] => 0 | x :: r => x + qsum r end.
(* sum_i c^(n-i) * x_i  for l = [x_1; ...; x_n] *)
Fixpoint wsum (c : Q) (l : list Q) : Q := match l with [] => 0 | x :: r => qpow c (length r) * x + wsum c r end.

(* ---- rational square-root approximation used by the correspondence run:
        qsqrt p x <= sqrt x < qsqrt p x + 1 / (den x * 2^p)   (x > 0) ---- *)
Definition qsqrt (p : positive) (x : Q) : Q :=
  if Qle_bool x 0 then 0
  else let d := Zpos (Qden x) in
       Qred (Z.sqrt (Qnum x * d * 4 ^ Zpos p) # (Qden x * 2 ^ p)).

Definition qround (p : positive) (x : Q) : Q := Qred (Qfloor (x * (Zpos (2 ^ p) # 1)) # 2 ^ p).

(* ---- objectives of the correspondence run: f(z) = z^T A z + b.z + c on the concatenation z of all
        arguments (A any square matrix); gradient (A + A^T) z + b, cut into the trainable arguments ---- *)
Record quad := mkQ { qA : list (list Q); qb : list Q; qc : Q }.
Definition flat (args : list arg) : vec := concat (map snd args).
Fixpoint dot (a b : vec) : Q := match a, b with x :: a', y :: b' => Qred (x * y + dot a' b') | _, _ => 0 end.
Definition quad_cost (q : quad) (args : list arg) : Q :=
  let z := flat args in Qred (dot z (map (fun row => dot row z) (qA q)) + dot (qb q) z + qc q).
Definition quad_grad_flat (q : quad) (z : vec) : vec :=
  map (fun k => Qred (dot (nth k (qA q) []) z + dot (map (fun row => nth k row 0) (qA q)) z + nth k (qb q) 0))
      (seq 0 (length z)).
Fixpoint split_grad (g : vec) (args : list arg) : list vec :=
  match args with
  | [] => []
  | (rg, x) :: r => let n := length x in
      if rg then firstn n g :: split_grad (skipn n g) r else split_grad (skipn n g) r
  end.
Definition quad_grad (q : quad) (args : list arg) : list vec := split_grad (quad_grad_flat q (flat args)) args.

(* ---- correspondence with the implementation ---- *)
Inductive call :=
| CStep (autograd : bool) (obj : nat)          (* opt.step(objective_obj, *args [, grad_fn=...]) *)
| CStepCost (autograd : bool) (obj : nat)      (* opt.step_and_cost(...) *)
| CReset.                                      (* opt.reset() *)

(* observation after a call: arguments (flag, values), returned cost, optimizer memory *)
Definition obs := (list arg * option Q * ostate)%type.

Definition uses_sqrt (k : kind) : bool := match k with Adagrad | RMSProp | Adam => true | _ => false end.

Definition close (tol a b : Q) : bool :=
  Qle_bool (Qabs (a - b)) (tol * (if Qle_bool (Qabs b) 1 then 1 else Qabs b)).
Fixpoint vec_ok (cmp : Q -> Q -> bool) (a b : vec) : bool :=
  match a, b with
  | [], [] => true
  | x :: a', y :: b' => cmp x y && vec_ok cmp a' b'
  | _, _ => false
  end.
Fixpoint list_ok {A} (cmp : A -> A -> bool) (a b : list A) : bool :=
  match a, b with
  | [], [] => true
  | x :: a', y :: b' => cmp x y && list_ok cmp a' b'
  | _, _ => false
  end.
Definition tol_par : Q := 1 # 1000000000000.      (* 1e-12 * max(1, |value|): parameters after a sqrt update *)
Definition tol_cost : Q := 1 # 10000000000.       (* 1e-10 * max(1, |value|): cost at such parameters *)

Definition args_ok (k : kind) (m o : list arg) : bool :=
  let cmp := if uses_sqrt k then close tol_par else Qeq_bool in
  list_ok (fun a b => Bool.eqb (fst a) (fst b) && vec_ok cmp (snd a) (snd b)) m o.
Definition cost_ok (k : kind) (m o : option Q) : bool :=
  match m, o with
  | None, None => true
  | Some a, Some b => if uses_sqrt k then close tol_cost a b else Qeq_bool a b
  | _, _ => false
  end.
(* optimizer memory is compared exactly (it never goes through a square root) *)
Definition state_ok (k : kind) (m o : ostate) : bool :=
  match k with
  | GD => true                                                     (* no memory attribute *)
  | Adam =>
      match m, o with
      | None, None => true
      | Some (t, a), Some (t', a') =>
          Nat.eqb t t' && list_ok (fun x y => vec_ok Qeq_bool (fst x) (fst y) && vec_ok Qeq_bool (snd x) (snd y)) a a'
      | _, _ => false
      end
  | _ =>
      match m, o with
      | None, None => true
      | Some (_, a), Some (_, a') => list_ok (fun x y => vec_ok Qeq_bool (fst x) (fst y)) a a'
      | _, _ => false
      end
  end.

(* replay the calls on the model.  For the sqrt optimizers the model continues from its OWN arguments
   (the observed ones differ by rounding); a disagreement is therefore never masked by re-synchronisation. *)
Fixpoint replay (k : kind) (h : hyper) (objs : list quad) (cs : list call) (os : list obs)
  (args : list arg) (st : ostate) : bool :=
  match cs, os with
  | [], [] => true
  | c :: cs', (oargs, ocost, ost) :: os' =>
      let sq := mkN (qsqrt 100) (qround 100) in
      let '(args', st', cost) :=
        match c with
        | CStep ag j => let q := nth j objs (mkQ [] [] 0) in
                        let '(a, s) := step k h sq (quad_grad q) args st in (a, s, None)
        | CStepCost ag j => let q := nth j objs (mkQ [] [] 0) in
                            let '(a, s, c) := step_and_cost k h sq ag (quad_grad q) (quad_cost q) args st in
                            (a, s, Some c)
        | CReset => (args, reset st, None)
        end in
      args_ok k args' oargs && cost_ok k cost ocost && state_ok k st' ost && replay k h objs cs' os' args' st'
  | _, _ => false
  end.

Definition check_case (c : kind * hyper * list arg * list quad * list call * list obs) : bool :=
  let '(k, h, args0, objs, cs, os) := c in replay k h objs cs os args0 None.

(* ---- Rotoselect: the selection loop of _find_optimal_generators on the list of (optimal angle, cost at that angle)
        produced by _rotosolve for each possible generator; `<=` so that later generators win ties ---- *)
Fixpoint roto_select (best_i : nat) (best_theta best_cost : Q) (i : nat) (cands : list (Q * Q)) : nat * Q * Q :=
  match cands with
  | [] => (best_i, best_theta, best_cost)
  | (th, c) :: r => if Qle_bool c best_cost then roto_select i th c (S i) r
                    else roto_select best_i best_theta best_cost (S i) r
  end.
