From Coq Require Import List Arith ZArith QArith Reals Bool.
From Coquelicot Require Import Coquelicot.
From PLV Require Import Alg.Poly Alg.PolyEval Alg.Angles Alg.DerivDef Alg.Deriv Lin.Vec Lin.VecHom Lin.PVec Lin.PVecSound Lin.Grad.
Import ListNotations.
Local Close Scope Q_scope.
Local Open Scope R_scope.
Local Open Scope C_scope.

Definition c_inner (u v : cvec) : C := dot (RtoC 0) Cplus Cmult (map Cconj u) v.
Definition cobs := list (C * list (gate C)).
Definition ctape := (list (gate C) * cobs)%type.
Definition c_state (n : nat) (circ : list (gate C)) : cvec := c_capply n circ (c_basis n 0).
Definition c_expect (n : nat) (s : cvec) (O : cobs) : C :=
  fold_right (fun cg acc => Cplus (Cmult (fst cg) (c_inner s (c_capply n (snd cg) s))) acc) (RtoC 0) O.
(* <0| U^dagger (sum_k c_k O_k) U |0> *)
Definition c_expval (n : nat) (t : ctape) : C := c_expect n (c_state n (fst t)) (snd t).
Definition c_lincomb (cs vs : list C) : C :=
  fold_right (fun cv acc => Cplus (Cmult (fst cv) (snd cv)) acc) (RtoC 0) (combine cs vs).

Section Sound.
  Variable hz : Z.
  Variable rho : env.
  Hypothesis G : good_env hz rho.
  Notation ev := (peval rho).
  Definition evobs (O : pobs) : cobs := map (fun cg => (ev (fst cg), map (evg rho) (snd cg))) O.
  Definition evtape (t : ptape) : ctape := (map (evg rho) (fst t), evobs (snd t)).

  Lemma ev_inner u v : ev (p_inner hz u v) = c_inner (map ev u) (map ev v).
  Proof.
    unfold p_inner, c_inner.
    rewrite (dot_hom poly C pzero (nadd hz) (nmul hz) (RtoC 0) Cplus Cmult ev (ev_zero rho) (ev_add hz rho G) (ev_mul hz rho G)).
    f_equal. rewrite !map_map. apply map_ext. intros a. apply (peval_pconj hz rho G).
  Qed.
  Lemma ev_expect n s O : ev (p_expect hz n s O) = c_expect n (map ev s) (evobs O).
  Proof.
    induction O as [|[c g] O IH]; [reflexivity|]. cbn [p_expect c_expect evobs map fold_right fst snd].
    rewrite (ev_add hz rho G), (ev_mul hz rho G), ev_inner, (ev_capply hz rho G). fold (p_expect hz n s O). rewrite IH. reflexivity.
  Qed.
  Lemma ev_expval n t : ev (p_expval hz n t) = c_expval n (evtape t).
  Proof. unfold p_expval, c_expval, p_state, c_state, evtape. cbn [fst snd]. rewrite ev_expect, (ev_capply hz rho G), ev_basis. reflexivity. Qed.
  Lemma ev_plincomb cs ps : ev (plincomb hz cs ps) = c_lincomb (map ev cs) (map ev ps).
  Proof.
    unfold plincomb, c_lincomb. revert ps. induction cs as [|c cs IH]; intros [|p ps]; try reflexivity.
    cbn [combine fold_right map fst snd]. rewrite (ev_add hz rho G), (ev_mul hz rho G), IH. reflexivity.
  Qed.
  Lemma ev_tapes n ts : map ev (p_tapes hz n ts) = map (fun t => c_expval n (evtape t)) ts.
  Proof. unfold p_tapes. rewrite map_map. apply map_ext. intros t. apply ev_expval. Qed.
End Sound.

(* the translator's polynomial E really is the tape's expectation value, for all real parameters *)
Theorem expval_is_forall hz D n t E : (0 < hz)%Z -> expval_is hz n t E = true ->
  forall th : list R, c_expval n (evtape (aenv hz D th) t) = peval (aenv hz D th) E.
Proof.
  intros H X th. unfold expval_is in X. apply (peqb_sound hz _ (aenv_good hz D th H)) in X.
  rewrite <- X. symmetry. apply (ev_expval hz _ (aenv_good hz D th H)).
Qed.

Theorem deriv_is_forall hz D j E dE : (0 < hz)%Z -> deriv_is hz D j E dE = true ->
  forall th x, Cderive (fun y => peval (aenv hz D (upd th j y)) E) x (peval (aenv hz D (upd th j x)) dE).
Proof.
  intros H X th x. unfold deriv_is in X. apply andb_prop in X as [X X3]. apply andb_prop in X as [X1 X2].
  apply negb_true_iff, Z.eqb_neq in X2.
  rewrite <- (peqb_sound hz _ (aenv_good hz D (upd th j x) H) _ _ X3). apply pderiv_sound; assumption.
Qed.

(* A discharged shift-rule obligation means: for ALL real parameter vectors, the linear combination of the
   shifted tapes' expectation values IS the partial derivative of the original tape's expectation value. *)
Theorem shift_rule_ok_forall hz D n j cs ts t : (0 < hz)%Z -> shift_rule_ok hz D n j cs ts t = true ->
  forall th x,
    Cderive (fun y => c_expval n (evtape (aenv hz D (upd th j y)) t)) x
            (c_lincomb (map (peval (aenv hz D (upd th j x))) cs)
                       (map (fun t' => c_expval n (evtape (aenv hz D (upd th j x)) t')) ts)).
Proof.
  intros H X th x. unfold shift_rule_ok, grad_ok in X. apply andb_prop in X as [X X3]. apply andb_prop in X as [X1 X2].
  apply negb_true_iff, Z.eqb_neq in X2.
  pose proof (aenv_good hz D (upd th j x) H) as Gx.
  rewrite <- (ev_tapes hz _ Gx), <- (ev_plincomb hz _ Gx), (peqb_sound hz _ Gx _ _ X3).
  apply (Cderive_ext (fun y => peval (aenv hz D (upd th j y)) (p_expval hz n t))).
  - intros y. apply (ev_expval hz _ (aenv_good hz D (upd th j y) H)).
  - apply pderiv_sound; assumption.
Qed.

(* second order: the linear combination is d/dtheta_j of the function whose value is the (certified) first derivative *)
Theorem hess_rule_ok_forall hz D n j k cs ts t : (0 < hz)%Z -> hess_rule_ok hz D n j k cs ts t = true ->
  forall th,
    (forall x, Cderive (fun y => c_expval n (evtape (aenv hz D (upd th k y)) t)) x
                       (peval (aenv hz D (upd th k x)) (pderiv hz D k (p_expval hz n t)))) /\
    (forall x, Cderive (fun y => peval (aenv hz D (upd th j y)) (pderiv hz D k (p_expval hz n t))) x
            (c_lincomb (map (peval (aenv hz D (upd th j x))) cs)
                       (map (fun t' => c_expval n (evtape (aenv hz D (upd th j x)) t')) ts))).
Proof.
  intros H X th. unfold hess_rule_ok, hess_ok in X. apply andb_prop in X as [X X3]. apply andb_prop in X as [X1 X2].
  apply negb_true_iff, Z.eqb_neq in X2. split; intros x.
  - apply (Cderive_ext (fun y => peval (aenv hz D (upd th k y)) (p_expval hz n t))).
    + intros y. apply (ev_expval hz _ (aenv_good hz D (upd th k y) H)).
    + apply pderiv_sound; assumption.
  - pose proof (aenv_good hz D (upd th j x) H) as Gx.
    rewrite <- (ev_tapes hz _ Gx), <- (ev_plincomb hz _ Gx), (peqb_sound hz _ Gx _ _ X3).
    apply pderiv_sound; assumption.
Qed.
