(* Exact reference simulation used by the differential checks: run a circuit of constant (parameter-free)
   gate matrices over Q(zeta) on |0...0> and print every amplitude as its rational coordinates in the basis
   1, zeta, ..., zeta^(hz-1)  (pairs numerator, denominator). *)
From Coq Require Import List ZArith QArith Bool.
From PLV Require Import Alg.Poly Lin.Vec Lin.PVec.
Import ListNotations.

Definition zeta_exp (t : term) : option Z :=
  match estrip (snd t) with [] => Some 0%Z | [e] => Some e | _ => None end.
Definition coeff_at (hz : Z) (p : poly) (k : Z) : Q :=
  Qred (fold_right Qplus 0%Q (map fst (filter (fun t => match zeta_exp t with Some e => (e =? k)%Z | None => false end) (pnorm hz p)))).
Definition coords (hz : Z) (p : poly) : list (Z * Z) :=
  map (fun k => let q := coeff_at hz p (Z.of_nat k) in (Qnum q, Zpos (Qden q))) (seq 0 (Z.to_nat hz)).
Definition is_constant (hz : Z) (p : poly) : bool := forallb (fun t => match zeta_exp t with Some _ => true | None => false end) (pnorm hz p).

Definition run_state (hz : Z) (n : nat) (circ : list pgate) : list (list (Z * Z)) :=
  map (coords hz) (p_capply hz n circ (p_basis n 0)).
(* state from an arbitrary basis column *)
Definition run_col (hz : Z) (n : nat) (circ : list pgate) (c : nat) : list (list (Z * Z)) :=
  map (coords hz) (p_capply hz n circ (p_basis n c)).
