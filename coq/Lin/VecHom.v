(* Ring homomorphisms commute with every generic vector/matrix operation of Lin/Vec.v. *)
From Coq Require Import List Arith Bool.
From PLV Require Import Lin.Vec.
Import ListNotations.

Section Hom.
  Variables A B : Type.
  Variables (zA oA : A) (addA mulA : A -> A -> A).
  Variables (zB oB : B) (addB mulB : B -> B -> B).
  Variable phi : A -> B.
  Hypothesis phi_zero : phi zA = zB.
  Hypothesis phi_one : phi oA = oB.
  Hypothesis phi_add : forall a b, phi (addA a b) = addB (phi a) (phi b).
  Hypothesis phi_mul : forall a b, phi (mulA a b) = mulB (phi a) (phi b).

  Notation vmap := (map phi).
  Notation mmap := (map (map phi)).
  Definition gmap (g : gate A) : gate B := (fst g, map (map phi) (snd g)).

  Lemma vnth_hom v i : phi (vnth zA v i) = vnth zB (vmap v) i.
  Proof. unfold vnth. rewrite <- phi_zero. symmetry. apply map_nth. Qed.

  Lemma mnth_hom M r c : phi (mnth zA M r c) = mnth zB (mmap M) r c.
  Proof.
    unfold mnth. change (@nil B) with (map phi []). rewrite map_nth.
    rewrite <- phi_zero. symmetry. apply map_nth.
  Qed.

  Lemma basis_hom n c : vmap (basis zA oA n c) = basis zB oB n c.
  Proof.
    unfold basis. rewrite map_map. apply map_ext. intros i. destruct (Nat.eqb i c); assumption.
  Qed.

  Lemma apply_entry_hom n ws M v i :
    phi (apply_entry zA addA mulA n ws M v i) = apply_entry zB addB mulB n ws (mmap M) (vmap v) i.
  Proof.
    unfold apply_entry. induction (seq 0 (2 ^ length ws)) as [|x l IH]; cbn [fold_right]; [exact phi_zero|].
    rewrite phi_add, phi_mul, IH, mnth_hom, vnth_hom. reflexivity.
  Qed.

  Lemma apply_gate_hom n ws M v :
    vmap (apply_gate zA addA mulA n ws M v) = apply_gate zB addB mulB n ws (mmap M) (vmap v).
  Proof. unfold apply_gate. rewrite map_map. apply map_ext. intros i. apply apply_entry_hom. Qed.

  Lemma capply_hom n c : forall v,
    vmap (capply zA addA mulA n c v) = capply zB addB mulB n (map gmap c) (vmap v).
  Proof.
    unfold capply. induction c as [|g c IH]; intros v; [reflexivity|]. cbn [fold_left map].
    rewrite IH, apply_gate_hom. reflexivity.
  Qed.

  Lemma dot_hom a b : phi (dot zA addA mulA a b) = dot zB addB mulB (vmap a) (vmap b).
  Proof.
    unfold dot. revert b. induction a as [|x a IH]; intros b; [exact phi_zero|].
    destruct b as [|y b]; [exact phi_zero|]. cbn [combine map fold_right fst snd].
    rewrite phi_add, phi_mul. f_equal. apply IH.
  Qed.

  Lemma mcol_hom M c : vmap (mcol zA M c) = mcol zB (mmap M) c.
  Proof.
    unfold mcol. rewrite !map_map. apply map_ext. intros r.
    rewrite <- phi_zero. symmetry. apply map_nth.
  Qed.

  Lemma hd_len_hom (Y : list (list A)) : length (hd [] (mmap Y)) = length (hd [] Y).
  Proof. destruct Y as [|r Y]; [reflexivity|]. cbn. apply map_length. Qed.

  Lemma mmul_hom X Y : mmap (mmul zA addA mulA X Y) = mmul zB addB mulB (mmap X) (mmap Y).
  Proof.
    unfold mmul. rewrite !map_map. apply map_ext. intros r.
    rewrite map_map, hd_len_hom. apply map_ext. intros c.
    rewrite dot_hom, mcol_hom. reflexivity.
  Qed.

  Lemma mident_hom d : mmap (mident zA oA d) = mident zB oB d.
  Proof.
    unfold mident. rewrite map_map. apply map_ext. intros r. rewrite map_map. apply map_ext.
    intros c. destruct (Nat.eqb r c); assumption.
  Qed.

  Lemma mtranspose_hom M : mmap (mtranspose zA M) = mtranspose zB (mmap M).
  Proof.
    unfold mtranspose. rewrite map_map, hd_len_hom. apply map_ext. intros c. apply mcol_hom.
  Qed.

  Lemma madd_hom X Y : mmap (madd addA X Y) = madd addB (mmap X) (mmap Y).
  Proof.
    unfold madd. revert Y. induction X as [|r X IH]; intros Y; [reflexivity|].
    destruct Y as [|s Y]; [reflexivity|]. cbn [combine map fst snd]. f_equal; [|apply IH].
    clear IH. revert s. induction r as [|a r IH]; intros s; [reflexivity|]. destruct s as [|b s]; [reflexivity|].
    cbn [combine map fst snd]. rewrite phi_add. f_equal. apply IH.
  Qed.
End Hom.
