From Coq Require Import List Arith ZArith QArith Reals Bool.
From Coquelicot Require Import Complex.
From PLV Require Import Alg.Poly Alg.PolyEval Alg.Angles Lin.Vec Lin.VecHom Lin.PVec.
Import ListNotations.
Local Close Scope Q_scope.
Local Open Scope R_scope.
Local Open Scope C_scope.

Definition cvec := list C.
Definition cmat := list (list C).
Definition c_basis := @basis C (RtoC 0) (RtoC 1).
Definition c_apply_gate := @apply_gate C (RtoC 0) Cplus Cmult.
Definition c_capply := @capply C (RtoC 0) Cplus Cmult.
Definition c_mmul := @mmul C (RtoC 0) Cplus Cmult.
Definition c_mident := @mident C (RtoC 0) (RtoC 1).
Definition c_madj (M : cmat) : cmat := map (map Cconj) (mtranspose (RtoC 0) M).

Section Sound.
  Variable hz : Z.
  Variable rho : env.
  Hypothesis G : good_env hz rho.
  Notation ev := (peval rho).
  Notation evv := (map (peval rho)).
  Notation evm := (map (map (peval rho))).
  Definition evg (g : pgate) : gate C := gmap poly C ev g.

  Lemma ev_zero : ev pzero = 0. Proof. reflexivity. Qed.
  Lemma ev_one : ev pone = 1. Proof. apply (peval_pone rho). Qed.
  Lemma ev_add a b : ev (nadd hz a b) = ev a + ev b. Proof. apply (peval_nadd hz rho G). Qed.
  Lemma ev_mul a b : ev (nmul hz a b) = ev a * ev b. Proof. apply (peval_nmul hz rho G). Qed.

  Lemma ev_basis n c : evv (p_basis n c) = c_basis n c.
  Proof. apply (basis_hom poly C pzero pone (RtoC 0) (RtoC 1) ev ev_zero ev_one). Qed.
  Lemma ev_apply_gate n ws M v : evv (p_apply_gate hz n ws M v) = c_apply_gate n ws (evm M) (evv v).
  Proof. apply (apply_gate_hom poly C pzero (nadd hz) (nmul hz) (RtoC 0) Cplus Cmult ev ev_zero ev_add ev_mul). Qed.
  Lemma ev_capply n c v : evv (p_capply hz n c v) = c_capply n (map evg c) (evv v).
  Proof. apply (capply_hom poly C pzero (nadd hz) (nmul hz) (RtoC 0) Cplus Cmult ev ev_zero ev_add ev_mul). Qed.
  Lemma ev_mmul X Y : evm (p_mmul hz X Y) = c_mmul (evm X) (evm Y).
  Proof. apply (mmul_hom poly C pzero (nadd hz) (nmul hz) (RtoC 0) Cplus Cmult ev ev_zero ev_add ev_mul). Qed.
  Lemma ev_mident d : evm (p_mident d) = c_mident d.
  Proof. apply (mident_hom poly C pzero pone (RtoC 0) (RtoC 1) ev ev_zero ev_one). Qed.
  Lemma ev_madj M : evm (p_madj M) = c_madj (evm M).
  Proof.
    unfold p_madj, c_madj. rewrite <- (mtranspose_hom poly C pzero (RtoC 0) ev ev_zero).
    rewrite !map_map. apply map_ext. intros r. rewrite !map_map. apply map_ext. intros a.
    apply (peval_pconj hz rho G).
  Qed.

  Lemma veqb_sound u : forall v, veqb hz u v = true -> evv u = evv v.
  Proof.
    induction u as [|a u IH]; intros [|b v] H; try discriminate; [reflexivity|].
    cbn in H. apply andb_prop in H as [H1 H2]. cbn [map]. f_equal; [apply (peqb_sound hz rho G _ _ H1) | apply IH, H2].
  Qed.
  Lemma meqb_sound X : forall Y, meqb hz X Y = true -> evm X = evm Y.
  Proof.
    induction X as [|r X IH]; intros [|s Y] H; try discriminate; [reflexivity|].
    cbn in H. apply andb_prop in H as [H1 H2]. cbn [map]. f_equal; [apply veqb_sound, H1 | apply IH, H2].
  Qed.

  Theorem cols_ok_sound n circ ows M cols : cols_ok hz n circ ows M cols = true ->
    forall c, In c cols -> c_capply n (map evg circ) (c_basis n c) = c_apply_gate n ows (evm M) (c_basis n c).
  Proof.
    unfold cols_ok. rewrite forallb_forall. intros H c Hc. specialize (H c Hc). apply veqb_sound in H.
    rewrite ev_capply, ev_apply_gate, ev_basis in H. exact H.
  Qed.

  Theorem circ_cols_eq_sound n c1 c2 cols : circ_cols_eq hz n c1 c2 cols = true ->
    forall c, In c cols -> c_capply n (map evg c1) (c_basis n c) = c_capply n (map evg c2) (c_basis n c).
  Proof.
    unfold circ_cols_eq. rewrite forallb_forall. intros H c Hc. specialize (H c Hc). apply veqb_sound in H.
    rewrite !ev_capply, ev_basis in H. exact H.
  Qed.

  Theorem is_unitary_sound M : is_unitary hz M = true -> c_mmul (c_madj (evm M)) (evm M) = c_mident (length M).
  Proof. unfold is_unitary. intros H. apply meqb_sound in H. rewrite ev_mmul, ev_madj, ev_mident in H. exact H. Qed.

  Theorem commute_sound X Y : commute hz X Y = true -> c_mmul (evm X) (evm Y) = c_mmul (evm Y) (evm X).
  Proof. unfold commute. intros H. apply meqb_sound in H. rewrite !ev_mmul in H. exact H. Qed.

  Theorem mmul_eq_sound X Y Z : meqb hz (p_mmul hz X Y) Z = true -> c_mmul (evm X) (evm Y) = evm Z.
  Proof. intros H. apply meqb_sound in H. rewrite ev_mmul in H. exact H. Qed.
End Sound.

(* the "for every real parameter value" forms *)
Theorem cols_ok_forall hz D n circ ows M cols : (0 < hz)%Z -> cols_ok hz n circ ows M cols = true ->
  forall (thetas : list R) c, In c cols ->
    c_capply n (map (evg (aenv hz D thetas)) circ) (c_basis n c)
    = c_apply_gate n ows (map (map (peval (aenv hz D thetas))) M) (c_basis n c).
Proof. intros H E thetas. apply (cols_ok_sound hz _ (aenv_good hz D thetas H)). exact E. Qed.

Theorem is_unitary_forall hz D M : (0 < hz)%Z -> is_unitary hz M = true ->
  forall thetas : list R, let Mc := map (map (peval (aenv hz D thetas))) M in
    c_mmul (c_madj Mc) Mc = c_mident (length M).
Proof. intros H E thetas. apply (is_unitary_sound hz _ (aenv_good hz D thetas H)). exact E. Qed.

Theorem meqb_forall hz D X Y : (0 < hz)%Z -> meqb hz X Y = true ->
  forall thetas : list R, map (map (peval (aenv hz D thetas))) X = map (map (peval (aenv hz D thetas))) Y.
Proof. intros H E thetas. apply (meqb_sound hz _ (aenv_good hz D thetas H)). exact E. Qed.

(* ---- branch probabilities ---- *)
Definition c_norm2 (v : cvec) : C := fold_right (fun x acc => Cplus (Cmult (Cconj x) x) acc) (RtoC 0) v.
Definition c_norms_total (vs : list cvec) : C := fold_right (fun v acc => Cplus (c_norm2 v) acc) (RtoC 0) vs.

Lemma norm2_sound hz rho (G : good_env hz rho) v : peval rho (norm2 hz v) = c_norm2 (map (peval rho) v).
Proof.
  induction v as [|x v IH]; [reflexivity|]. cbn [norm2 c_norm2 map fold_right].
  rewrite (peval_nadd hz rho G), (peval_nmul hz rho G), (peval_pconj hz rho G). fold (norm2 hz v). rewrite IH. reflexivity.
Qed.
Lemma norms_total_sound hz rho (G : good_env hz rho) vs :
  peval rho (norms_total hz vs) = c_norms_total (map (map (peval rho)) vs).
Proof.
  induction vs as [|v vs IH]; [reflexivity|]. cbn [norms_total c_norms_total map fold_right].
  rewrite (peval_nadd hz rho G), (norm2_sound hz rho G). fold (norms_total hz vs). rewrite IH. reflexivity.
Qed.
Theorem probs_total_one_sound hz rho (G : good_env hz rho) vs : probs_total_one hz vs = true ->
  c_norms_total (map (map (peval rho)) vs) = RtoC 1.
Proof.
  unfold probs_total_one. intros H. apply (peqb_sound hz rho G) in H.
  rewrite (norms_total_sound hz rho G) in H. rewrite H. apply (peval_pone rho).
Qed.

(* ---- Kraus completeness ---- *)
Definition c_madd := @madd C Cplus.
Definition c_zero_mat (d : nat) : cmat := map (fun _ => map (fun _ => RtoC 0) (seq 0 d)) (seq 0 d).
Definition c_kraus_sum (d : nat) (Ks : list cmat) : cmat :=
  fold_right (fun K acc => c_madd (c_mmul (c_madj K) K) acc) (c_zero_mat d) Ks.
Lemma kraus_sum_sound hz rho (G : good_env hz rho) d Ks :
  map (map (peval rho)) (kraus_sum hz d Ks) = c_kraus_sum d (map (map (map (peval rho))) Ks).
Proof.
  induction Ks as [|K Ks IH]; cbn [kraus_sum c_kraus_sum fold_right map].
  - unfold c_zero_mat. rewrite map_map. apply map_ext. intros r. rewrite map_map. apply map_ext. intros c. reflexivity.
  - fold (kraus_sum hz d Ks). unfold p_madd.
    rewrite (madd_hom poly C (nadd hz) Cplus (peval rho) (peval_nadd hz rho G)).
    rewrite (ev_mmul hz rho G), (ev_madj hz rho G), IH. reflexivity.
Qed.
Theorem kraus_complete_sound hz rho (G : good_env hz rho) d Ks : kraus_complete hz d Ks = true ->
  c_kraus_sum d (map (map (map (peval rho))) Ks) = c_mident d.
Proof.
  unfold kraus_complete. intros H. apply (meqb_sound hz rho G) in H.
  rewrite (kraus_sum_sound hz rho G), ev_mident in H. exact H.
Qed.
