(* Reference semantics of operator arithmetic (C03): expression trees over leaf gates, denoted as full
   2^n x 2^n matrices by matrix arithmetic.  Generic in the scalars; polynomial and complex instances below. *)
From Coq Require Import List Arith ZArith QArith Bool.
From PLV Require Import Alg.Poly Lin.Vec Lin.PVec.
Import ListNotations.

Inductive oexp (A : Type) :=
| OLeaf (ws : list nat) (M : list (list A))          (* a gate matrix on wire positions ws *)
| OAdj (e : oexp A)
| OPow (k : nat) (e : oexp A)                         (* non-negative integer power *)
| OCtrl (cw : list nat) (cv : list bool) (e : oexp A) (* controlled on wires cw with values cv *)
| OProd (a b : oexp A)                                (* a @ b : matrix product a*b *)
| OSum (a b : oexp A)
| OSProd (c : A) (e : oexp A).
Arguments OLeaf {A}. Arguments OAdj {A}. Arguments OPow {A}. Arguments OCtrl {A}. Arguments OProd {A}. Arguments OSum {A}. Arguments OSProd {A}.

Section Den.
  Variable A : Type.
  Variables (zero one : A) (add mul : A -> A -> A) (conj : A -> A).

  Definition full_of_gate (n : nat) (ws : list nat) (M : list (list A)) : list (list A) :=
    mtranspose zero (map (fun c => apply_gate zero add mul n ws M (basis zero one n c)) (seq 0 (2 ^ n))).
  Definition madjg (M : list (list A)) : list (list A) := map (map conj) (mtranspose zero M).
  Definition mscaleg (c : A) (M : list (list A)) : list (list A) := map (map (mul c)) M.
  Fixpoint mpowg (d : nat) (k : nat) (M : list (list A)) : list (list A) :=
    match k with O => mident zero one d | S j => mmul zero add mul M (mpowg d j M) end.
  Definition ctrl_hit (n : nat) (cw : list nat) (cv : list bool) (i : nat) : bool :=
    forallb (fun p => Bool.eqb (nth (fst p) (bits n i) false) (snd p)) (combine cw cv).
  Definition projg (n : nat) (cw : list nat) (cv : list bool) (keep : bool) : list (list A) :=
    map (fun r => map (fun c => if Nat.eqb r c then (if Bool.eqb (ctrl_hit n cw cv r) keep then one else zero) else zero) (seq 0 (2 ^ n))) (seq 0 (2 ^ n)).

  Fixpoint denote (n : nat) (e : oexp A) : list (list A) :=
    match e with
    | OLeaf ws M => full_of_gate n ws M
    | OAdj e => madjg (denote n e)
    | OPow k e => mpowg (2 ^ n) k (denote n e)
    | OCtrl cw cv e => madd add (mmul zero add mul (projg n cw cv true) (denote n e)) (projg n cw cv false)
    | OProd a b => mmul zero add mul (denote n a) (denote n b)
    | OSum a b => madd add (denote n a) (denote n b)
    | OSProd c e => mscaleg c (denote n e)
    end.
End Den.

Definition p_denote (hz : Z) := denote poly pzero pone (nadd hz) (nmul hz) pconj.
Definition exp_ok (hz : Z) (n : nat) (e : oexp poly) (M : pmat) : bool := meqb hz (p_denote hz n e) M.
