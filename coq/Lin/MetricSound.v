From Coq Require Import List Arith ZArith QArith Reals Bool Lia.
From Coquelicot Require Import Coquelicot.
From PLV Require Import Alg.Poly Alg.PolyEval Alg.Angles Alg.DerivDef Alg.Deriv Lin.Vec Lin.VecHom Lin.PVec Lin.PVecSound Lin.Grad Lin.GradSound Lin.Metric.
Import ListNotations.
Local Close Scope Q_scope.
Local Open Scope R_scope.
Local Open Scope C_scope.

(* the Fubini-Study metric entry from a state vector s and two tangent vectors di, dj *)
Definition c_repart (z : C) : C := Cmult (RtoC (/ 2)) (Cplus z (Cconj z)).
Definition c_metric (s di dj : cvec) : C :=
  c_repart (Cplus (c_inner di dj) (Copp (Cmult (c_inner di s) (c_inner s dj)))).
Definition c_quad (quad : list (C * (nat * nat))) (lin : list (C * nat)) (c0 : C) (vals : list C) : C :=
  let v a := nth a vals (RtoC 0) in
  Cplus (fold_right (fun q acc => Cplus (Cmult (fst q) (Cmult (v (fst (snd q))) (v (snd (snd q))))) acc) (RtoC 0) quad)
        (Cplus (fold_right (fun l acc => Cplus (Cmult (fst l) (v (snd l))) acc) (RtoC 0) lin) c0).

Lemma eeval_ext rho rho' e : (forall k, rho k = rho' k) -> forall k, eeval rho k e = eeval rho' k e.
Proof. intros H. induction e as [|x e IH]; intros k; cbn [eeval]; [reflexivity|]. rewrite H, IH. reflexivity. Qed.
Lemma peval_ext rho rho' p : (forall k, rho k = rho' k) -> peval rho p = peval rho' p.
Proof. intros H. induction p as [|t p IH]; [reflexivity|]. rewrite !peval_cons, IH. unfold teval. rewrite (eeval_ext rho rho' _ H). reflexivity. Qed.
Lemma aenv_upd_same hz D th i k : aenv hz D (upd th i (nth i th 0%R)) k = aenv hz D th k.
Proof.
  destruct k as [|k]; [reflexivity|]. cbn [aenv].
  destruct (Nat.eq_dec k i) as [->|N]; [rewrite nth_upd_same | rewrite nth_upd_other by exact N]; reflexivity.
Qed.

Section Sound.
  Variable hz : Z.
  Variable rho : env.
  Hypothesis G : good_env hz rho.
  Notation ev := (peval rho).

  Lemma ev_pscale c p : ev (pscale c p) = Cmult (q2c c) (ev p).
  Proof. apply peval_pscale. Qed.
  Lemma ev_repart p : ev (p_repart hz p) = c_repart (ev p).
  Proof.
    unfold p_repart, c_repart. rewrite ev_pscale, (peval_nadd hz rho G), (peval_pconj hz rho G). f_equal.
    unfold q2c. f_equal. unfold Q2R. cbn. field.
  Qed.
  Lemma ev_metric D n circ i j :
    ev (p_metric hz D n circ i j)
    = c_metric (map ev (p_state hz n circ)) (map ev (p_dstate hz D n circ i)) (map ev (p_dstate hz D n circ j)).
  Proof.
    unfold p_metric, c_metric. rewrite ev_repart, (peval_nadd hz rho G), (peval_pneg rho), (peval_nmul hz rho G),
      !(ev_inner hz rho G). reflexivity.
  Qed.
  Lemma ev_nth vals a : ev (nth a vals pzero) = nth a (map ev vals) (RtoC 0).
  Proof. change (RtoC 0) with (ev pzero). symmetry. apply map_nth. Qed.
  Lemma ev_pquad quad lin c0 vals :
    ev (pquad hz quad lin c0 vals)
    = c_quad (map (fun q => (ev (fst q), snd q)) quad) (map (fun l => (ev (fst l), snd l)) lin) (ev c0) (map ev vals).
  Proof.
    unfold pquad, c_quad. rewrite !(peval_nadd hz rho G). f_equal; [|f_equal].
    - induction quad as [|q quad IH]; [reflexivity|]. cbn [fold_right map fst snd].
      rewrite (peval_nadd hz rho G), !(peval_nmul hz rho G), !ev_nth, IH. reflexivity.
    - induction lin as [|l lin IH]; [reflexivity|]. cbn [fold_right map fst snd].
      rewrite (peval_nadd hz rho G), (peval_nmul hz rho G), ev_nth, IH. reflexivity.
  Qed.
End Sound.

(* what the polynomial p_metric means: at every real parameter vector th, the state components have partial derivatives
   (the entries of dI, dJ) and the evaluation of p_metric is the Fubini-Study expression built from them *)
Theorem metric_is_forall hz D n circ i j Gp : (0 < hz)%Z -> metric_is hz D n circ i j Gp = true ->
  forall th : list R,
    let rho := aenv hz D th in
    let s := c_state n (map (evg rho) circ) in
    exists dI dJ : cvec,
      (forall m, Cderive (fun y => nth m (c_state n (map (evg (aenv hz D (upd th i y))) circ)) (RtoC 0)) (nth i th 0%R) (nth m dI (RtoC 0))) /\
      (forall m, Cderive (fun y => nth m (c_state n (map (evg (aenv hz D (upd th j y))) circ)) (RtoC 0)) (nth j th 0%R) (nth m dJ (RtoC 0))) /\
      peval rho Gp = c_metric s dI dJ.
Proof.
  intros H X th rho s. unfold metric_is in X. apply andb_prop in X as [X X3]. apply andb_prop in X as [X1 X2].
  apply negb_true_iff, Z.eqb_neq in X2.
  pose proof (aenv_good hz D th H) as Gr.
  exists (map (peval rho) (p_dstate hz D n circ i)), (map (peval rho) (p_dstate hz D n circ j)).
  assert (St : forall th', map (peval (aenv hz D th')) (p_state hz n circ) = c_state n (map (evg (aenv hz D th')) circ)).
  { intros th'. unfold p_state, c_state. rewrite (ev_capply hz _ (aenv_good hz D th' H)), ev_basis. reflexivity. }
  assert (Dv : forall k m, Cderive (fun y => nth m (c_state n (map (evg (aenv hz D (upd th k y))) circ)) (RtoC 0)) (nth k th 0%R)
                                   (nth m (map (peval rho) (p_dstate hz D n circ k)) (RtoC 0))).
  { intros k m.
    apply (Cderive_ext (fun y => peval (aenv hz D (upd th k y)) (nth m (p_state hz n circ) pzero))).
    - intros y. rewrite <- St. change (RtoC 0) with (peval (aenv hz D (upd th k y)) pzero). symmetry. apply map_nth.
    - replace (nth m (map (peval rho) (p_dstate hz D n circ k)) (RtoC 0))
        with (peval rho (pderiv hz D k (nth m (p_state hz n circ) pzero))).
      2:{ unfold p_dstate. rewrite <- (map_nth (pderiv hz D k) (p_state hz n circ) pzero m).
          symmetry. exact (map_nth (peval rho) (map (pderiv hz D k) (p_state hz n circ)) pzero m). }
      unfold rho. rewrite <- (peval_ext _ _ _ (aenv_upd_same hz D th k)).
      apply pderiv_sound; assumption. }
  split; [apply Dv|]. split; [apply Dv|].
  unfold s, rho. rewrite <- (peqb_sound hz _ Gr _ _ X3), (ev_metric hz _ Gr), <- St. reflexivity.
Qed.

(* a discharged `postproc_is` obligation: the transform's (degree <= 2) post-processing applied to the exact expectation
   values of its tapes evaluates to the polynomial G at every parameter vector *)
Theorem postproc_is_forall hz D n quad lin c0 ts Gp : (0 < hz)%Z -> postproc_is hz n quad lin c0 ts Gp = true ->
  forall th : list R,
    let rho := aenv hz D th in
    c_quad (map (fun q => (peval rho (fst q), snd q)) quad) (map (fun l => (peval rho (fst l), snd l)) lin) (peval rho c0)
           (map (fun t => c_expval n (evtape rho t)) ts) = peval rho Gp.
Proof.
  intros H X th rho. unfold postproc_is in X. pose proof (aenv_good hz D th H) as Gr.
  unfold rho. rewrite <- (peqb_sound hz _ Gr _ _ X), (ev_pquad hz _ Gr), (ev_tapes hz _ Gr). reflexivity.
Qed.
