(* Polynomial instance of the generic vector/matrix operations and the reflective checkers.
   This file is computable only; the soundness theorems are in Lin/PVecSound.v. *)
From Coq Require Import List Arith ZArith QArith Bool.
From PLV Require Import Alg.Poly Lin.Vec.
Import ListNotations.

Definition pvec := list poly.
Definition pmat := list (list poly).
Definition pgate := gate poly.

Definition p_basis := @basis poly pzero pone.
Definition p_apply_gate (hz : Z) := @apply_gate poly pzero (nadd hz) (nmul hz).
Definition p_capply (hz : Z) := @capply poly pzero (nadd hz) (nmul hz).
Definition p_mmul (hz : Z) := @mmul poly pzero (nadd hz) (nmul hz).
Definition p_mident := @mident poly pzero pone.
Definition p_madd (hz : Z) := @madd poly (nadd hz).
Definition p_madj (M : pmat) : pmat := map (map pconj) (mtranspose pzero M).

Fixpoint veqb (hz : Z) (u v : pvec) : bool :=
  match u, v with
  | [], [] => true
  | a :: u', b :: v' => peqb hz a b && veqb hz u' v'
  | _, _ => false
  end.

Fixpoint meqb (hz : Z) (X Y : pmat) : bool :=
  match X, Y with
  | [], [] => true
  | r :: X', s :: Y' => veqb hz r s && meqb hz X' Y'
  | _, _ => false
  end.

(* circuit (list of gates on n wires) acts on the listed basis columns exactly like matrix M on wires ows *)
Definition cols_ok (hz : Z) (n : nat) (circ : list pgate) (ows : list nat) (M : pmat) (cols : list nat) : bool :=
  forallb (fun c => veqb hz (p_capply hz n circ (p_basis n c)) (p_apply_gate hz n ows M (p_basis n c))) cols.

(* two circuits act identically on the listed basis columns *)
Definition circ_cols_eq (hz : Z) (n : nat) (c1 c2 : list pgate) (cols : list nat) : bool :=
  forallb (fun c => veqb hz (p_capply hz n c1 (p_basis n c)) (p_capply hz n c2 (p_basis n c))) cols.

Definition all_cols (n : nat) : list nat := seq 0 (2 ^ n).
(* columns whose bits on the listed (work) wires are all zero *)
Definition cols_zero_on (n : nat) (work : list nat) : list nat :=
  filter (fun c => forallb (fun w => negb (nth w (bits n c) false)) work) (all_cols n).

Definition is_unitary (hz : Z) (M : pmat) : bool := meqb hz (p_mmul hz (p_madj M) M) (p_mident (length M)).
Definition commute (hz : Z) (X Y : pmat) : bool := meqb hz (p_mmul hz X Y) (p_mmul hz Y X).
Definition is_diag (hz : Z) (M : pmat) : bool :=
  forallb (fun r => forallb (fun c => if Nat.eqb r c then true else pis_zero hz (mnth pzero M r c)) (seq 0 (length M))) (seq 0 (length M)).

(* squared norm of an (unnormalised) amplitude vector, and the total over a family of branches *)
Definition norm2 (hz : Z) (v : pvec) : poly := fold_right (fun x acc => nadd hz (nmul hz (pconj x) x) acc) pzero v.
Definition norms_total (hz : Z) (vs : list pvec) : poly := fold_right (fun v acc => nadd hz (norm2 hz v) acc) pzero vs.
Definition probs_total_one (hz : Z) (vs : list pvec) : bool := peqb hz (norms_total hz vs) pone.

(* completeness of a Kraus set: sum_k K_k^dagger K_k = I *)
Definition kraus_sum (hz : Z) (d : nat) (Ks : list pmat) : pmat :=
  fold_right (fun K acc => p_madd hz (p_mmul hz (p_madj K) K) acc) (map (fun _ => map (fun _ => pzero) (seq 0 d)) (seq 0 d)) Ks.
Definition kraus_complete (hz : Z) (d : nat) (Ks : list pmat) : bool := meqb hz (kraus_sum hz d Ks) (p_mident d).
