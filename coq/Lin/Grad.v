(* Expectation values of exact circuits as QSym scalars, and the reflective checkers behind the gradient
   properties (C34, C37, C38).  Computable part only; soundness is in Lin/GradSound.v. *)
From Coq Require Import List Arith ZArith QArith Bool.
From PLV Require Import Alg.Poly Alg.DerivDef Lin.Vec Lin.PVec.
Import ListNotations.

Definition p_inner (hz : Z) (u v : pvec) : poly := dot pzero (nadd hz) (nmul hz) (map pconj u) v.
(* an observable is a linear combination  sum_k c_k * (circuit_k)  of products of matrices on wires *)
Definition pobs := list (poly * list pgate).
Definition ptape := (list pgate * pobs)%type.

Definition p_state (hz : Z) (n : nat) (circ : list pgate) : pvec := p_capply hz n circ (p_basis n 0).
Definition p_expect (hz : Z) (n : nat) (s : pvec) (O : pobs) : poly :=
  fold_right (fun cg acc => nadd hz (nmul hz (fst cg) (p_inner hz s (p_capply hz n (snd cg) s))) acc) pzero O.
Definition p_expval (hz : Z) (n : nat) (t : ptape) : poly := p_expect hz n (p_state hz n (fst t)) (snd t).
Definition p_tapes (hz : Z) (n : nat) (ts : list ptape) : list poly := map (p_expval hz n) ts.

(* the tape's expectation value is the scalar E (used to certify the translator's own polynomial) *)
Definition expval_is (hz : Z) (n : nat) (t : ptape) (E : poly) : bool := peqb hz (p_expval hz n t) E.
Definition deriv_is (hz D : Z) (j : nat) (E dE : poly) : bool :=
  Z.even hz && negb (D =? 0)%Z && peqb hz (pderiv hz D j E) dE.
(* sum_k cs_k * <tape_k>  is the derivative of <t> with respect to theta_j *)
Definition shift_rule_ok (hz D : Z) (n j : nat) (cs : list poly) (ts : list ptape) (t : ptape) : bool :=
  grad_ok hz D j cs (p_tapes hz n ts) (p_expval hz n t).
Definition hess_rule_ok (hz D : Z) (n j k : nat) (cs : list poly) (ts : list ptape) (t : ptape) : bool :=
  hess_ok hz D j k cs (p_tapes hz n ts) (p_expval hz n t).
