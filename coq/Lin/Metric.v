(* Fubini-Study metric of an exact circuit's output state as a QSym scalar, and the reflective checker behind C38.
   Computable part only; soundness is in Lin/MetricSound.v. *)
From Coq Require Import List Arith ZArith QArith Bool.
From PLV Require Import Alg.Poly Alg.DerivDef Lin.Vec Lin.PVec Lin.Grad.
Import ListNotations.

Definition p_dstate (hz D : Z) (n : nat) (circ : list pgate) (j : nat) : pvec := map (pderiv hz D j) (p_state hz n circ).
Definition p_repart (hz : Z) (p : poly) : poly := pscale (1#2) (nadd hz p (pconj p)).
(* Re( <d_i psi | d_j psi> - <d_i psi | psi> <psi | d_j psi> ) *)
Definition p_metric (hz D : Z) (n : nat) (circ : list pgate) (i j : nat) : poly :=
  let s := p_state hz n circ in
  let di := p_dstate hz D n circ i in
  let dj := p_dstate hz D n circ j in
  p_repart hz (nadd hz (p_inner hz di dj) (pneg (nmul hz (p_inner hz di s) (p_inner hz s dj)))).

(* a polynomial of degree <= 2 in a list of values: sum c * v_a * v_b + sum c * v_a + const *)
Definition pquad (hz : Z) (quad : list (poly * (nat * nat))) (lin : list (poly * nat)) (c0 : poly) (vals : list poly) : poly :=
  let v a := nth a vals pzero in
  nadd hz (fold_right (fun q acc => nadd hz (nmul hz (fst q) (nmul hz (v (fst (snd q))) (v (snd (snd q))))) acc) pzero quad)
          (nadd hz (fold_right (fun l acc => nadd hz (nmul hz (fst l) (v (snd l))) acc) pzero lin) c0).

Definition metric_is (hz D : Z) (n : nat) (circ : list pgate) (i j : nat) (G : poly) : bool :=
  Z.even hz && negb (D =? 0)%Z && peqb hz (p_metric hz D n circ i j) G.
(* the post-processing polynomial applied to the exact results of the transform's tapes equals G *)
Definition postproc_is (hz : Z) (n : nat) quad lin c0 (ts : list ptape) (G : poly) : bool :=
  peqb hz (pquad hz quad lin c0 (p_tapes hz n ts)) G.
