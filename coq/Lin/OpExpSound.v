From Coq Require Import List Arith ZArith QArith Reals Bool.
From Coquelicot Require Import Complex.
From PLV Require Import Alg.Poly Alg.PolyEval Alg.Angles Lin.Vec Lin.VecHom Lin.PVec Lin.PVecSound Lin.OpExp.
Import ListNotations.
Local Close Scope Q_scope.
Local Open Scope R_scope.
Local Open Scope C_scope.

Definition c_denote := denote C (RtoC 0) (RtoC 1) Cplus Cmult Cconj.

Fixpoint emap (f : poly -> C) (e : oexp poly) : oexp C :=
  match e with
  | OLeaf ws M => OLeaf ws (map (map f) M)
  | OAdj e => OAdj (emap f e)
  | OPow k e => OPow k (emap f e)
  | OCtrl cw cv e => OCtrl cw cv (emap f e)
  | OProd a b => OProd (emap f a) (emap f b)
  | OSum a b => OSum (emap f a) (emap f b)
  | OSProd c e => OSProd (f c) (emap f e)
  end.

Section S.
  Variable hz : Z.
  Variable rho : env.
  Hypothesis G : good_env hz rho.
  Notation ev := (peval rho).
  Notation evm := (map (map (peval rho))).

  Lemma ev_full_of_gate n ws M :
    evm (full_of_gate poly pzero pone (nadd hz) (nmul hz) n ws M) = full_of_gate C (RtoC 0) (RtoC 1) Cplus Cmult n ws (evm M).
  Proof.
    unfold full_of_gate. rewrite (mtranspose_hom poly C pzero (RtoC 0) ev (ev_zero rho)). f_equal.
    rewrite map_map. apply map_ext. intros c.
    pose proof (ev_apply_gate hz rho G n ws M (p_basis n c)) as H. unfold p_apply_gate, c_apply_gate, p_basis in H.
    rewrite H. f_equal. pose proof (ev_basis rho n c) as B. unfold p_basis, c_basis in B. exact B.
  Qed.

  Lemma ev_mpow d k M : evm (mpowg poly pzero pone (nadd hz) (nmul hz) d k M) = mpowg C (RtoC 0) (RtoC 1) Cplus Cmult d k (evm M).
  Proof.
    induction k as [|k IH]; cbn [mpowg].
    - apply (ev_mident rho).
    - pose proof (ev_mmul hz rho G M (mpowg poly pzero pone (nadd hz) (nmul hz) d k M)) as H.
      unfold p_mmul, c_mmul in H. rewrite H, IH. reflexivity.
  Qed.

  Lemma ev_proj n cw cv keep : evm (projg poly pzero pone n cw cv keep) = projg C (RtoC 0) (RtoC 1) n cw cv keep.
  Proof.
    unfold projg. rewrite map_map. apply map_ext. intros r. rewrite map_map. apply map_ext. intros c.
    destruct (Nat.eqb r c); [|reflexivity]. destruct (Bool.eqb _ keep); [apply (ev_one rho) | reflexivity].
  Qed.

  Theorem denote_sound n e : evm (p_denote hz n e) = c_denote n (emap ev e).
  Proof.
    unfold p_denote, c_denote. induction e as [ws M|e IH|k e IH|cw cv e IH|a IHa b IHb|a IHa b IHb|c e IH]; cbn [denote emap].
    - apply ev_full_of_gate.
    - unfold madjg. rewrite <- IH. rewrite <- (mtranspose_hom poly C pzero (RtoC 0) ev (ev_zero rho)).
      rewrite !map_map. apply map_ext. intros r. rewrite !map_map. apply map_ext. intros x. apply (peval_pconj hz rho G).
    - rewrite ev_mpow, IH. reflexivity.
    - rewrite (madd_hom poly C (nadd hz) Cplus ev (peval_nadd hz rho G)).
      pose proof (ev_mmul hz rho G (projg poly pzero pone n cw cv true) (denote poly pzero pone (nadd hz) (nmul hz) pconj n e)) as H.
      unfold p_mmul, c_mmul in H. rewrite H, !ev_proj, IH. reflexivity.
    - pose proof (ev_mmul hz rho G (denote poly pzero pone (nadd hz) (nmul hz) pconj n a) (denote poly pzero pone (nadd hz) (nmul hz) pconj n b)) as H.
      unfold p_mmul, c_mmul in H. rewrite H, IHa, IHb. reflexivity.
    - rewrite (madd_hom poly C (nadd hz) Cplus ev (peval_nadd hz rho G)), IHa, IHb. reflexivity.
    - unfold mscaleg. rewrite <- IH. rewrite !map_map. apply map_ext. intros r. rewrite !map_map. apply map_ext. intros x.
      apply (peval_nmul hz rho G).
  Qed.

  Theorem exp_ok_sound n e M : exp_ok hz n e M = true -> c_denote n (emap ev e) = evm M.
  Proof. unfold exp_ok. intros H. apply (meqb_sound hz rho G) in H. rewrite denote_sound in H. exact H. Qed.
End S.

Theorem exp_ok_forall hz D n e M : (0 < hz)%Z -> exp_ok hz n e M = true ->
  forall th : list R, c_denote n (emap (peval (aenv hz D th)) e) = map (map (peval (aenv hz D th))) M.
Proof. intros H E th. exact (exp_ok_sound hz _ (aenv_good hz D th H) n e M E). Qed.
