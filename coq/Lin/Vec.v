(* List-based state vectors and gate application, generic in the scalar type.
   A register of n wires has 2^n amplitudes; wire 0 is the MOST significant bit of the index
   (PennyLane's convention).  A k-wire gate is a 2^k x 2^k matrix given as a list of rows. *)
From Coq Require Import List Arith Bool.
Import ListNotations.

Fixpoint bits (n i : nat) : list bool :=   (* big-endian, length n *)
  match n with
  | O => []
  | S m => bits m (Nat.div2 i) ++ [Nat.odd i]
  end.

Definition idx (bs : list bool) : nat := fold_left (fun a (b : bool) => 2 * a + (if b then 1 else 0)) bs 0.

Definition sub_bits (ws : list nat) (bs : list bool) : list bool := map (fun w => nth w bs false) ws.

Fixpoint set_nth {A} (i : nat) (x : A) (l : list A) : list A :=
  match l, i with
  | [], _ => []
  | _ :: r, O => x :: r
  | y :: r, S j => y :: set_nth j x r
  end.

Fixpoint replace_bits (ws : list nat) (xs : list bool) (bs : list bool) : list bool :=
  match ws, xs with
  | w :: ws', x :: xs' => replace_bits ws' xs' (set_nth w x bs)
  | _, _ => bs
  end.

Section Generic.
  Variable A : Type.
  Variables (zero one : A) (add mul : A -> A -> A).

  Definition vec := list A.
  Definition mat := list (list A).

  Definition vnth (v : vec) (i : nat) : A := nth i v zero.
  Definition mnth (M : mat) (r c : nat) : A := nth c (nth r M []) zero.

  Definition basis (n c : nat) : vec := map (fun i => if Nat.eqb i c then one else zero) (seq 0 (2 ^ n)).

  (* amplitude i of  (M on wires ws) v *)
  Definition apply_entry (n : nat) (ws : list nat) (M : mat) (v : vec) (i : nat) : A :=
    let bs := bits n i in
    let r := idx (sub_bits ws bs) in
    let k := length ws in
    fold_right (fun x acc => add (mul (mnth M r x) (vnth v (idx (replace_bits ws (bits k x) bs)))) acc)
               zero (seq 0 (2 ^ k)).

  Definition apply_gate (n : nat) (ws : list nat) (M : mat) (v : vec) : vec :=
    map (apply_entry n ws M v) (seq 0 (2 ^ n)).

  Definition gate := (list nat * mat)%type.

  Definition capply (n : nat) (c : list gate) (v : vec) : vec :=
    fold_left (fun v g => apply_gate n (fst g) (snd g) v) c v.

  (* plain matrix operations (used for attribute claims, commutation, unitarity) *)
  Definition dot (a b : list A) : A := fold_right add zero (map (fun p => mul (fst p) (snd p)) (combine a b)).
  Definition mcol (M : mat) (c : nat) : list A := map (fun r => nth c r zero) M.
  Definition mmul (X Y : mat) : mat :=
    map (fun r => map (fun c => dot r (mcol Y c)) (seq 0 (length (hd [] Y)))) X.
  Definition mident (d : nat) : mat := map (fun r => map (fun c => if Nat.eqb r c then one else zero) (seq 0 d)) (seq 0 d).
  Definition mtranspose (M : mat) : mat := map (mcol M) (seq 0 (length (hd [] M))).
  Definition madd (X Y : mat) : mat := map (fun p => map (fun q => add (fst q) (snd q)) (combine (fst p) (snd p))) (combine X Y).
  Definition mmap_entries (f : A -> A) (M : mat) : mat := map (map f) M.
End Generic.

Arguments vnth {A} zero v i.
Arguments mnth {A} zero M r c.
Arguments basis {A} zero one n c.
Arguments apply_entry {A} zero add mul n ws M v i.
Arguments apply_gate {A} zero add mul n ws M v.
Arguments capply {A} zero add mul n c v.
Arguments dot {A} zero add mul a b.
Arguments mcol {A} zero M c.
Arguments mmul {A} zero add mul X Y.
Arguments mident {A} zero one d.
Arguments mtranspose {A} zero M.
Arguments madd {A} add X Y.
