#!/bin/bash
# refresh every evidence file on the current tree (quick tier); prints a summary line per check
cd "$(dirname "$0")"
ids=$(/venv/bin/python -c "import json;print(' '.join(c['property_id'] for c in json.load(open('MANIFEST.json'))['checks']))")
for p in $ids; do
  out=$(./check $p --tier ${1:-quick} 2>&1 | grep -E "^VIOLATION|^KNOWN|^\[C" | cut -c1-160)
  echo "$out"
done
