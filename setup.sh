#!/bin/bash
# MANIFEST.setup_cmd: build the static Coq theory from files on disk only (offline).
#   ./setup.sh            full build of every static file (gate on forbidden constructs)
#   ./setup.sh target.vo  (used by the checks) regenerate the project file if needed and build one target
set -e
cd "$(dirname "$0")/coq"
mkdir -p Gen
exec 9>/tmp/.verif_coq_build.lock
flock 9
new=$( { echo "-Q . PLV"; find Alg Lin Circ Disc Num Tab Props -name '*.v' 2>/dev/null | sort; } )
if [ ! -f _CoqProject ] || [ "$new" != "$(cat _CoqProject)" ] || [ ! -f Makefile ]; then
  echo "$new" > _CoqProject
  coq_makefile -f _CoqProject -o Makefile >/dev/null
fi
if [ $# -gt 0 ]; then
  timeout 3000 make -j8 "$@" 2>&1 | tail -n 30
  test "${PIPESTATUS[0]}" = 0
  exit 0
fi
# gate: no axioms / admits / disabled checks anywhere in the development
if grep -rnE '\b(Admitted|admit|Axiom|Parameter|Conjecture|Admit Obligations|bypass_check|Unset Guard|Unset Positivity|Unset Universe|native_compute)\b' --include='*.v' Alg Lin Circ Disc Num Tab Props 2>/dev/null; then
  echo "forbidden construct found" >&2; exit 2
fi
timeout 3000 make -j16 2>&1 | tail -n 40
test "${PIPESTATUS[0]}" = 0
