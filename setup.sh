#!/bin/bash
# MANIFEST.setup_cmd: build the static Coq theory from files on disk only (offline).
set -e
cd "$(dirname "$0")/coq"
mkdir -p Gen
{ echo "-Q . PLV"; find Alg Lin Circ Disc Num Tab Props -name '*.v' 2>/dev/null | sort; } > _CoqProject
# gate: no axioms / admits / disabled checks anywhere in the development
if grep -rnE '\b(Admitted|admit|Axiom|Parameter|Conjecture|Admit Obligations|bypass_check|Unset Guard|Unset Positivity|Unset Universe)\b' --include='*.v' Alg Lin Circ Disc Num Tab Props 2>/dev/null | grep -v '^\S*:\s*(\*' ; then
  echo "forbidden construct found" >&2; exit 2
fi
coq_makefile -f _CoqProject -o Makefile >/dev/null
timeout 3000 make -j16 2>&1 | tail -n 40
test "${PIPESTATUS[0]}" = 0
