"""Regenerates /verif/MANIFEST.json from the property modules (harness/props/cXX.py)."""
import importlib, json, sys
from pathlib import Path
H = Path(__file__).resolve().parent
sys.path.insert(0, str(H))
props = [json.loads(l) for l in (H.parent / "properties.jsonl").read_text().splitlines() if l.strip()]
NA = json.loads((H / "not_applicable.json").read_text())
READY = set(json.loads((H / "ready.json").read_text()))
checks, na = [], []
for p in props:
    pid = p["id"]
    f = H / "props" / f"{pid.lower()}.py"
    if f.exists() and pid in READY:
        m = importlib.import_module(f"props.{pid.lower()}")
        M = m.META
        checks.append({
            "property_id": pid,
            "quick_cmd": f"./check {pid} --tier quick",
            "thorough_cmd": f"./check {pid} --tier thorough",
            "evidence_file": f"/verif/evidence/{pid}.json",
            "replay_cmd_template": f"./check {pid} --replay {{path}}",
            "engine": M.get("engine", "coq-model+correspondence"),
            "level_claimed": {"category": M.get("level", "proof") if M.get("level", "proof") in ("exploration", "fault_enumeration", "model_checking", "proof", "translation_validation", "other") else "proof", "text": M["text"], "design_ref": M.get("design_ref", "DESIGN.md §3")},
            "level_note": M["note"],
            "technique": M["technique"],
        })
    else:
        na.append({"property_id": pid, "reason": NA["reasons"].get(pid, NA["default"])})
man = {
    "version": 1,
    "setup_cmd": "./setup.sh",
    "hooks": {"guard": "PENNYLANE_VERIF", "enable": "no source hooks are used; checks run /repo as is with PYTHONPATH=/repo",
              "baseline_off_cmd": "cd /repo && /venv/bin/python -m pytest -ra -q -p no:cacheprovider --timeout=900 --continue-on-collection-errors",
              "source_commits": [], "add_only": True},
    "engines": [
        {"name": "coq-model+correspondence", "path": "/verif/coq, /verif/harness", "serves_properties": [c["property_id"] for c in checks],
         "kind_free_text": "Coq 8.16 theorems about Gallina models (coq/Disc, coq/Num, coq/Alg, coq/Lin); models tied to /repo on every run by vm_compute correspondence on generated cases and/or by obligations regenerated from /repo through symbolic execution (harness/qsym.py)"}],
    "checks": checks,
    "notes": "See DESIGN.md. ./check <id> is the single entry point; known findings in harness/known_findings.json.",
    "not_applicable": na,
}
(H.parent / "MANIFEST.json").write_text(json.dumps(man, indent=1))
print(len(checks), "checks;", len(na), "not claimed")

try:
    import jsonschema
    jsonschema.validate(json.load(open("/verif/MANIFEST.json")), json.load(open("/root/.vp/MANIFEST.schema.json")))
    print("MANIFEST.json validates against the schema")
except ImportError:
    pass
