import sys; sys.path.insert(0,'/tmp/probe')
import numpy as np, pennylane as qp, inspect, collections
from sym import S
import pennylane.core.operator.operator2 as o2
o2._init_arg_types=lambda op: None
from pennylane.decomposition import decomposition_rule as dr
from pennylane.decomposition.utils import _get_decomp_args
reg=dr._decompositions_private
def symarr(j,n):
    a=np.empty((1,),dtype=object); a[0]=S.var(j,n); return a
def find_cls(name):
    for mod in (qp, qp.templates, qp.ops, qp.ops.op_math):
        c=getattr(mod,name,None)
        if inspect.isclass(c): return c
    return None
stats=collections.Counter(); fails=[]
plain=[k for k in reg if '(' not in k]
for name in plain:
    cls=find_cls(name)
    if cls is None: stats['nocls']+=1; continue
    npar=getattr(cls,'num_params',None); nw=getattr(cls,'num_wires',None)
    if not isinstance(npar,int) or not isinstance(nw,int):
        stats['variadic']+=1; continue
    try:
        ps=[symarr(j,npar) for j in range(npar)]
        op=cls(*ps,wires=list(range(nw)))
    except Exception as e:
        stats['ctor_fail']+=1; fails.append((name,'ctor',repr(e)[:80])); continue
    for rule in reg[name]:
        stats['rules']+=1
        try:
            params,args,kwargs=_get_decomp_args(op)
            if not rule.is_applicable(**params): stats['notapplicable']+=1; continue
            with qp.queuing.AnnotatedQueue() as q:
                rule(*args,**kwargs)
            ok=True
            for o in q.queue:
                for x in o.data:
                    v=np.asarray(x).flat[0] if np.asarray(x).size else None
                    if isinstance(v,S) and v.t is not None: ok=False
            stats['ok' if ok else 'nonlinear']+=1
        except Exception as e:
            stats['rule_fail']+=1; fails.append((name,getattr(rule,'name',''),repr(e)[:100]))
print(dict(stats))
for f in fails[:60]: print(f)
