import numpy as np, pennylane as qp, warnings, itertools, collections, math, random, inspect
warnings.filterwarnings("ignore")
R=random.Random(41); rng=np.random.default_rng(14)
bad=collections.defaultdict(list)
# ---- C35
from pennylane.gradients import generate_shift_rule, generate_multi_shift_rule
def trig(freqs):
    a0=R.uniform(-1,1); ab=[(R.uniform(-1,1),R.uniform(-1,1)) for _ in freqs]
    f=lambda x: a0+sum(a*np.cos(w*x)+b*np.sin(w*x) for (a,b),w in zip(ab,freqs))
    def d(x,order):
        tot=0
        for (a,b),w in zip(ab,freqs):
            # derivative of a cos(wx)+b sin(wx) order k
            k=order%4; c=w**order
            tot+= c*([a*np.cos(w*x)+b*np.sin(w*x), -a*np.sin(w*x)+b*np.cos(w*x), -a*np.cos(w*x)-b*np.sin(w*x), a*np.sin(w*x)-b*np.cos(w*x)][k])
        return tot
    return f,d
for it in range(600):
    kind=R.choice(['equi','int','rand','dense'])
    Rn=R.randint(1,5)
    if kind=='equi': w0=R.choice([0.5,1,2,1.3]); freqs=tuple(w0*k for k in range(1,Rn+1))
    elif kind=='int': freqs=tuple(sorted(R.sample(range(1,9),Rn)))
    elif kind=='rand': freqs=tuple(sorted(round(R.uniform(0.2,4),3) for _ in range(Rn)))
    else: freqs=tuple(round(1+0.1*k,3) for k in range(Rn))
    if len(set(freqs))<Rn: continue
    shifts=None
    if R.random()<0.4: shifts=tuple(sorted(round(R.uniform(0.1,3),3) for _ in range(Rn)))
    if shifts and len(set(shifts))<Rn: continue
    order=R.choice([1,1,2,3]) 
    try: rule=generate_shift_rule(freqs,shifts=shifts,order=order)
    except Exception as e: bad['C35exc'].append((freqs,shifts,order,repr(e)[:60])); continue
    f,d=trig(freqs)
    for x in (0.0,R.uniform(-3,3)):
        val=sum(c*f(x+s) for c,s in rule); ex=d(x,order)
        if abs(val-ex)>1e-6*(1+abs(ex))*max(1,np.abs(rule[:,0]).max()): bad['C35'].append((freqs,shifts,order,val,ex)); break
# ---- C09 declared frequencies cover spectrum via DFT
def find_cls(name):
    for mod in (qp, qp.templates, qp.ops, qp.ops.op_math):
        c=getattr(mod,name,None)
        if inspect.isclass(c): return c
from pennylane.ops.qubit import attributes as A
cands=[n for n in dir(qp) if inspect.isclass(getattr(qp,n)) and isinstance(getattr(getattr(qp,n),'num_params',None),int) and getattr(qp,n).num_params>=1 and isinstance(getattr(getattr(qp,n),'num_wires',None),int) and issubclass(getattr(qp,n),qp.operation.Operator)]
tested=0
for name in cands:
    cls=getattr(qp,name)
    if name in('QubitUnitary','DiagonalQubitUnitary','BasisState','StatePrep','Hermitian','SpecialUnitary','ControlledQubitUnitary','QubitDensityMatrix','SparseHamiltonian','Projector','BlockEncode','PCPhase','QubitChannel'): continue
    try:
        nw=cls.num_wires; base=rng.uniform(-3,3,cls.num_params)
        op=cls(*base,wires=range(nw))
        if not getattr(op,'has_matrix',False): continue
        if isinstance(op, qp.operation.Channel): continue
        freqs=qp.gradients.parameter_frequencies(op) if hasattr(qp.gradients,'parameter_frequencies') else op.parameter_frequencies
    except Exception as e:
        bad['C09_skip'].append((name,repr(e)[:60])); continue
    tested+=1
    from scipy.stats import unitary_group
    V=unitary_group.rvs(2**nw,random_state=5); Hm=rng.normal(size=(2**nw,2**nw)); Hm=Hm+Hm.T
    for j in range(cls.num_params):
        fr=np.array(sorted(freqs[j])); 
        # sample f over a period candidate: use fine grid and check via least squares fit with declared freqs
        xs=np.linspace(0,40,801)
        ys=[]
        for x in xs:
            p=list(base); p[j]=x
            U=qp.matrix(cls(*p,wires=range(nw)))
            psi=U@V[:,0]; ys.append(np.real(psi.conj()@Hm@psi))
        ys=np.array(ys)
        cols=[np.ones_like(xs)]+[np.cos(w*xs) for w in fr]+[np.sin(w*xs) for w in fr]
        Mx=np.stack(cols,1); coef,res,_,_=np.linalg.lstsq(Mx,ys,rcond=None)
        err=np.abs(Mx@coef-ys).max()
        if err>1e-6: bad['C09'].append((name,j,tuple(fr),err))
print('C09 tested',tested)
print({k:(len(v),v[:4]) for k,v in bad.items()})
