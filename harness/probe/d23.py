import numpy as np, pennylane as qp, warnings, itertools, collections, math, random
warnings.filterwarnings("ignore")
R=random.Random(83); rng=np.random.default_rng(28)
bad=collections.defaultdict(list)
# ---- C70 default.clifford vs default.qubit
cl=[qp.Hadamard,qp.S,qp.X,qp.Y,qp.Z,qp.SX]
cl2=[qp.CNOT,qp.CZ,qp.CY,qp.SWAP,qp.ISWAP,qp.ECR]
for it in range(200):
    n=R.randint(1,5); ops=[]
    for _ in range(R.randint(1,12)):
        if R.random()<0.6 or n==1:
            g=R.choice(cl)(R.randrange(n)); ops.append(qp.adjoint(g) if R.random()<0.2 else g)
        else: ops.append(R.choice(cl2)(R.sample(range(n),2)))
    ws=R.sample(range(n),R.randint(1,n))
    ob=qp.prod(*[R.choice([qp.X,qp.Y,qp.Z])(w) for w in ws]) if len(ws)>1 else R.choice([qp.X,qp.Y,qp.Z])(ws[0])
    ms=[qp.expval(ob),qp.probs(wires=ws),qp.var(ob)]
    t=qp.tape.QuantumScript(ops,ms)
    try:
        a=qp.execute([t],qp.device('default.clifford',wires=n))[0]; b=qp.execute([t],qp.device('default.qubit',wires=n))[0]
    except Exception as e: bad['C70exc'].append((repr(e)[:100],[str(o) for o in ops])); continue
    for i,(x,y) in enumerate(zip(a,b)):
        if i==3:
            # state up to global phase
            k=np.argmax(np.abs(y)); 
            if abs(x[k])<1e-9 or not np.allclose(x*(y[k]/x[k]),y,atol=1e-7): bad['C70state'].append([str(o) for o in ops])
        elif not np.allclose(x,y,atol=1e-7): bad['C70_%d'%i].append(([str(o) for o in ops],str(ms[i]),np.round(x,3).tolist(),np.round(y,3).tolist()))
# ---- C67 to_openqasm: parse back with from_qasm? use qp.from_qasm3 on qasm2? just check via own mini parser
import re
def parse_qasm2(s,n):
    U=np.eye(2**n,dtype=complex)
    def emb(M,ws):
        return qp.matrix(qp.QubitUnitary(M,wires=ws),wire_order=range(n))
    g1={'h':lambda:qp.matrix(qp.Hadamard(0)),'x':lambda:qp.matrix(qp.X(0)),'y':lambda:qp.matrix(qp.Y(0)),'z':lambda:qp.matrix(qp.Z(0)),'s':lambda:np.diag([1,1j]),'sdg':lambda:np.diag([1,-1j]),'t':lambda:np.diag([1,np.exp(1j*np.pi/4)]),'tdg':lambda:np.diag([1,np.exp(-1j*np.pi/4)]),'sx':lambda:0.5*np.array([[1+1j,1-1j],[1-1j,1+1j]]),'id':lambda:np.eye(2)}
    def u3(t,p,l): return np.array([[np.cos(t/2),-np.exp(1j*l)*np.sin(t/2)],[np.exp(1j*p)*np.sin(t/2),np.exp(1j*(p+l))*np.cos(t/2)]])
    gp={'rx':lambda a:u3(a,-np.pi/2,np.pi/2),'ry':lambda a:u3(a,0,0),'rz':lambda a:np.diag([np.exp(-1j*a/2),np.exp(1j*a/2)]),'u1':lambda a:np.diag([1,np.exp(1j*a)]),'p':lambda a:np.diag([1,np.exp(1j*a)]),'u2':lambda p,l:u3(np.pi/2,p,l),'u3':u3}
    def ctrl(M): 
        C=np.eye(4,dtype=complex); C[2:,2:]=M; return C
    SWAP=np.array([[1,0,0,0],[0,0,1,0],[0,1,0,0],[0,0,0,1]],dtype=complex)
    for line in s.splitlines():
        line=line.strip()
        if not line or line.startswith(('OPENQASM','include','qreg','creg','measure','barrier')): continue
        m=re.match(r'(\w+)(?:\(([^)]*)\))?\s+(.*);',line)
        name,args,qs=m.group(1),m.group(2),m.group(3)
        ws=[int(x) for x in re.findall(r'q\[(\d+)\]',qs)]
        av=[eval(a,{'pi':np.pi}) for a in args.split(',')] if args else []
        if name in g1: M=g1[name]()
        elif name in gp: M=gp[name](*av)
        elif name=='cx': M=ctrl(g1['x']())
        elif name=='cz': M=ctrl(g1['z']())
        elif name=='cy': M=ctrl(g1['y']())
        elif name=='ch': M=ctrl(g1['h']())
        elif name=='swap': M=SWAP
        elif name=='crx': M=ctrl(gp['rx'](*av))
        elif name=='cry': M=ctrl(gp['ry'](*av))
        elif name=='crz': M=ctrl(gp['rz'](*av))
        elif name=='cu1' or name=='cp': M=ctrl(gp['u1'](*av))
        elif name=='ccx': 
            M=np.eye(8,dtype=complex); M[6:,6:]=g1['x']()
        elif name=='cswap':
            M=np.eye(8,dtype=complex); M[4:,4:]=SWAP
        elif name=='rxx': M=qp.matrix(qp.IsingXX(av[0],[0,1]))
        elif name=='rzz': M=qp.matrix(qp.IsingZZ(av[0],[0,1]))
        else: raise ValueError('unknown gate '+name)
        U=emb(M,ws)@U
    return U
from pennylane.io.to_openqasm import OPENQASM_GATES
print(sorted(OPENQASM_GATES.items()))
pool1=[n for n in OPENQASM_GATES if hasattr(qp,n) and getattr(qp,n).num_wires==1]
pool2=[n for n in OPENQASM_GATES if hasattr(qp,n) and getattr(qp,n).num_wires==2]
pool3=[n for n in OPENQASM_GATES if hasattr(qp,n) and getattr(qp,n).num_wires==3]
def eq_phase(A,B):
    i=np.argmax(np.abs(A)); a=A.flat[i]; b=B.flat[i]
    return abs(b)>1e-9 and np.allclose(A,B*(a/b),atol=1e-6)
for it in range(300):
    n=R.randint(1,4); ops=[]
    for _ in range(R.randint(1,8)):
        pool=pool1 if (n==1 or R.random()<0.5) else pool2 if (n==2 or R.random()<0.8) else pool3
        nm=R.choice(pool); cls=getattr(qp,nm)
        ops.append(cls(*[R.uniform(-6,6) for _ in range(cls.num_params)],wires=R.sample(range(n),cls.num_wires)))
    t=qp.tape.QuantumScript(ops,[qp.probs(wires=range(n))])
    try:
        s=qp.to_openqasm(t,rotations=False,measure_all=False,precision=None)
        U=parse_qasm2(s,n); V=qp.matrix(t,wire_order=range(n))
        if not eq_phase(U,V): bad['C67'].append(([str(o) for o in ops],s))
    except Exception as e: bad['C67exc'].append((repr(e)[:100],[o.name for o in ops]))
for k,v in bad.items(): print(k,len(v),v[:2])
print('done')
