import numpy as np, pennylane as qp, warnings, itertools, collections, math, random, copy, pickle
warnings.filterwarnings("ignore")
R=random.Random(71); rng=np.random.default_rng(22)
bad=collections.defaultdict(list)
names1=['Hadamard','PauliX','PauliY','PauliZ','S','T','SX','RX','RY','RZ','PhaseShift','Rot','U3']
names2=['CNOT','CZ','SWAP','ISWAP','CRX','CRZ','IsingXX','IsingXY','SingleExcitation']
labels=[0,1,2,'a']
def leaf():
    nm=R.choice(names1+names2); cls=getattr(qp,nm)
    ws=R.sample(labels,cls.num_wires)
    return cls(*[R.uniform(-3,3) for _ in range(cls.num_params)],wires=ws)
def expr(d):
    if d==0 or R.random()<0.25: return leaf()
    r=R.random()
    if r<0.15: return qp.adjoint(expr(d-1))
    if r<0.3: return qp.pow(expr(d-1),R.choice([2,3,-1,0,1]))
    if r<0.45:
        b=expr(d-1); free=[w for w in labels+['c1','c2'] if w not in b.wires]
        k=R.randint(1,min(2,len(free))); cw=R.sample(free,k)
        return qp.ctrl(b,control=cw,control_values=[R.randint(0,1) for _ in cw])
    if r<0.65: return qp.prod(*[expr(d-1) for _ in range(R.randint(2,3))])
    if r<0.8: return qp.sum(*[expr(d-1) for _ in range(R.randint(2,3))])
    if r<0.9: return qp.s_prod(complex(round(R.uniform(-2,2),2),R.choice([0,0,round(R.uniform(-1,1),2)])),expr(d-1))
    return qp.exp(R.choice([qp.X,qp.Y,qp.Z])(R.choice(labels)),1j*round(R.uniform(-2,2),2))
def ref(e,wo):
    n=len(wo)
    if isinstance(e,qp.ops.op_math.Adjoint) or type(e).__name__.startswith('Adjoint'): return ref(e.base,wo).conj().T
    if isinstance(e,qp.ops.op_math.Pow) or type(e).__name__.startswith('Pow'):
        B=ref(e.base,wo); z=e.z
        return np.linalg.matrix_power(B,z) if z>=0 else np.linalg.matrix_power(np.linalg.inv(B),-z)
    if isinstance(e,(qp.ops.op_math.Controlled,)) or hasattr(e,'control_wires') and hasattr(e,'base') and len(e.control_wires)>0 and type(e).__name__ in('Controlled','ControlledOp','ControlledOp2'):
        B=ref(e.base,wo); cw=list(e.control_wires); cv=list(e.control_values)
        P=np.eye(2**n)
        proj=np.ones(2**n,dtype=bool)
        for w,v in zip(cw,cv):
            i=wo.index(w); bit=np.array([(k>>(n-1-i))&1 for k in range(2**n)])
            proj&=(bit==int(v))
        Pm=np.diag(proj.astype(float))
        return Pm@B+(np.eye(2**n)-Pm)
    if isinstance(e,qp.ops.op_math.Prod):
        M=np.eye(2**n,dtype=complex)
        for o in e.operands: M=M@ref(o,wo)
        return M
    if isinstance(e,qp.ops.op_math.Sum): return sum(ref(o,wo) for o in e.operands)
    if isinstance(e,qp.ops.op_math.SProd): return e.scalar*ref(e.base,wo)
    if isinstance(e,qp.ops.op_math.Exp):
        from scipy.linalg import expm
        return expm(e.coeff*ref(e.base,wo))
    return qp.matrix(e,wire_order=wo)
for it in range(500):
    try: e=expr(R.randint(1,3))
    except Exception as ex: bad['build_exc:'+type(ex).__name__].append(repr(ex)[:80]); continue
    wo=list(labels)+[w for w in ['c1','c2'] if w in e.wires]
    if len(wo)>6: continue
    try:
        M=qp.matrix(e,wire_order=wo); Rf=ref(e,wo)
    except Exception as ex: bad['mat_exc:'+type(ex).__name__].append((repr(ex)[:80],str(e)[:100])); continue
    if not np.allclose(M,Rf,atol=1e-7): bad['C03arith'].append(str(e)[:200]); continue
    try:
        s=qp.simplify(e)
        if not np.allclose(qp.matrix(s,wire_order=wo),M,atol=1e-7): bad['C03simplify'].append((str(e)[:200],str(s)[:200]))
    except Exception as ex: bad['simp_exc:'+type(ex).__name__].append((repr(ex)[:80],str(e)[:120]))
    wm={w:w2 for w,w2 in zip(wo,R.sample(wo,len(wo)))}
    try:
        m=qp.map_wires(e,wm)
        if not np.allclose(qp.matrix(m,wire_order=[wm[w] for w in wo]),M,atol=1e-7): bad['C03mapwires'].append(str(e)[:200])
    except Exception as ex: bad['map_exc:'+type(ex).__name__].append((repr(ex)[:80],str(e)[:120]))
    # C04/C06
    try:
        if not qp.equal(e,e): bad['C04refl'].append(str(e)[:100])
        for nm,f in (('copy',copy.copy),('deepcopy',copy.deepcopy),('pickle',lambda x: pickle.loads(pickle.dumps(x))),('pytree',lambda x: qp.pytrees.unflatten(*qp.pytrees.flatten(x)))):
            c=f(e)
            if not qp.equal(e,c): bad['C06'+nm].append(str(e)[:150])
            elif hash(c)!=hash(e): bad['C04hash_'+nm].append(str(e)[:150])
        b=qp.ops.functions.bind_new_parameters(e,list(e.parameters))
        if not qp.equal(e,b): bad['C06bind'].append(str(e)[:150])
    except Exception as ex: bad['c46_exc:'+type(ex).__name__].append((repr(ex)[:100],str(e)[:120]))
for k,v in bad.items(): print(k,len(v),v[:2])
