import numpy as np, pennylane as qp, warnings, itertools, collections, math, random
warnings.filterwarnings("ignore")
R=random.Random(61)
bad=collections.defaultdict(list)
def rop(n):
    k=R.random()
    if k<0.5 or n==1: return R.choice([qp.RX,qp.RY])(R.uniform(-3,3),R.randrange(n)) if R.random()<.6 else R.choice([qp.Hadamard,qp.X,qp.S])(R.randrange(n))
    if k<0.9 or n<3: return R.choice([qp.CNOT,qp.CZ,qp.SWAP])(R.sample(range(n),2))
    return qp.Toffoli(R.sample(range(n),3))
# ---- C46 specs on tapes: counts, depth
for it in range(500):
    n=R.randint(1,5); ops=[rop(n) for _ in range(R.randint(0,12))]
    t=qp.tape.QuantumScript(ops,[qp.expval(qp.Z(0))])
    sp=t.specs['resources']
    cnt=collections.Counter(o.name for o in ops)
    # depth reference
    front=collections.defaultdict(int)
    for o in ops:
        d=1+max(front[w] for w in o.wires)
        for w in o.wires: front[w]=d
    depth=max(front.values()) if front else 0
    got_counts=dict(sp.gate_types) if hasattr(sp,'gate_types') else dict(getattr(sp,'counts',{}))
    gd=getattr(sp,'depth',None) if hasattr(sp,'depth') else getattr(sp,'circuit_depth',None)
    if got_counts!=dict(cnt): bad['C46counts'].append((got_counts,dict(cnt)))
    if gd is not None and gd!=depth: bad['C46depth'].append(([str(o) for o in ops],gd,depth))
    nw=getattr(sp,'num_wires',None)
    if nw!=len(t.wires): bad['C46wires'].append((nw,len(t.wires)))
# ---- C71 snapshots
for it in range(150):
    n=R.randint(1,3); ops=[]; pos=[]
    L=R.randint(1,8)
    for i in range(L):
        ops.append(rop(n))
        if R.random()<0.35: ops.append(qp.Snapshot(tag=R.choice([None,'t%d'%i]) , measurement=R.choice([None,qp.expval(qp.Z(0)),qp.probs(wires=[0])]))); pos.append(len(ops)-1)
    def f():
        for o in ops: qp.apply(o)
        return qp.expval(qp.Z(0))
    dev=qp.device('default.qubit',wires=n)
    qn=qp.QNode(f,dev)
    try: snaps=qp.snapshots(qn)()
    except Exception as e: bad['C71exc'].append(repr(e)[:100]); continue
    plain=[o for o in ops if o.name!='Snapshot']
    final=qp.execute([qp.tape.QuantumScript(plain,[qp.expval(qp.Z(0))])],dev)[0]
    if not np.isclose(snaps['execution_results'],final): bad['C71final'].append(1)
    keys=[k for k in snaps if k!='execution_results']
    if len(keys)!=len(pos): bad['C71nkeys'].append((keys,len(pos)))
    for j,p in enumerate(pos):
        sn=ops[p]; pre=[o for o in ops[:p] if o.name!='Snapshot']
        m=sn.hyperparameters.get('measurement',None) or qp.state()
        exp=qp.execute([qp.tape.QuantumScript(pre,[m])],dev)[0]
        tagk=sn.tag if sn.tag is not None else None
        # find key
        if tagk is not None: got=snaps[tagk]
        else:
            ints=[k for k in keys if isinstance(k,int)]
            untagged_index=sum(1 for q in pos[:j] if ops[q].tag is None)
            got=snaps[ints[untagged_index]] if untagged_index<len(ints) else None
        if got is None or not np.allclose(got,exp): bad['C71snap'].append((j,[str(o) for o in ops]))
# ---- C73 tracker
for it in range(60):
    dev=qp.device('default.qubit')
    tapes=[qp.tape.QuantumScript([qp.RX(0.1*i,0)],[qp.expval(qp.Z(0))],shots=R.choice([None,5,(3,4)])) for i in range(R.randint(1,4))]
    with qp.Tracker(dev) as tr:
        nb=R.randint(1,3)
        for _ in range(nb): dev.execute(tapes)
    ex_exp=nb*sum((len(list(t.shots)) if t.shots and t.shots.has_partitioned_shots else 1) for t in tapes)
    sh_exp=nb*sum(t.shots.total_shots for t in tapes if t.shots)
    if tr.totals.get('batches')!=nb: bad['C73batches'].append((tr.totals,nb))
    if tr.totals.get('simulations')!=nb*len(tapes): bad['C73sim'].append((tr.totals,nb*len(tapes)))
    if tr.totals.get('shots',0)!=sh_exp: bad['C73shots'].append((tr.totals,sh_exp))
    if tr.totals.get('executions')!=ex_exp: bad['C73exec'].append((tr.totals,ex_exp,[str(t.shots) for t in tapes]))
print({k:(len(v),v[:2]) for k,v in bad.items()})
