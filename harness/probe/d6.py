import numpy as np, pennylane as qp, warnings
warnings.filterwarnings("ignore")
dev=qp.device('default.qubit')
ops=[qp.RX(0.7,0),qp.RY(0.3,1),qp.CNOT([0,1])]
def run(t): return qp.execute([t],dev)[0]
t=qp.tape.QuantumScript(ops,[qp.var(qp.I(1))])
print('var(I) direct',run(t))
for tr in (qp.transforms.split_non_commuting, qp.transforms.split_to_single_terms):
    ts,fn=tr(t); print(tr.__name__, [ [str(m) for m in x.measurements] for x in ts], fn(qp.execute(ts,dev)))
t=qp.tape.QuantumScript(ops,[qp.var(qp.I(1)), qp.expval(qp.Z(0))])
ts,fn=qp.transforms.split_non_commuting(t); print('with extra', fn(qp.execute(ts,dev)), run(t))
H=qp.sum(-1.5*qp.I(1), 0.6*qp.I(0), 0.5*qp.Y(0), -0.4*qp.I(0))
t=qp.tape.QuantumScript(ops,[qp.expval(H)])
print('H direct',run(t))
ts,fn=qp.transforms.diagonalize_measurements(t); print('diag',[str(o) for o in ts[0].operations],[str(m) for m in ts[0].measurements], fn(qp.execute(ts,dev)))
H2=qp.sum(0.5*qp.Y(0), -0.4*qp.I(0))
t=qp.tape.QuantumScript(ops,[qp.expval(H2)]); print('H2 direct',run(t)); ts,fn=qp.transforms.diagonalize_measurements(t); print('diag H2',[str(m) for m in ts[0].measurements],fn(qp.execute(ts,dev)))
H3=qp.sum(0.5*qp.Y(0), -0.4*qp.I(1))
t=qp.tape.QuantumScript(ops,[qp.expval(H3)]); print('H3 direct',run(t)); ts,fn=qp.transforms.diagonalize_measurements(t); print('diag H3',[str(o) for o in ts[0].operations],[str(m) for m in ts[0].measurements],fn(qp.execute(ts,dev)))
H4=qp.sum(1.49*qp.Y(1), 0.36*qp.Y(1), -1.82*(qp.I(0)@qp.I(1)), 0.65*(qp.Z(0)@qp.I(1)))
t=qp.tape.QuantumScript(ops,[qp.expval(H4)]); print('H4 direct',run(t)); ts,fn=qp.transforms.diagonalize_measurements(t); print('diag H4',[str(o) for o in ts[0].operations],[str(m) for m in ts[0].measurements],fn(qp.execute(ts,dev)))
