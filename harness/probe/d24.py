import numpy as np, pennylane as qp, warnings, itertools, collections
from scipy.stats import unitary_group
warnings.filterwarnings("ignore")
from pennylane.decomposition.utils import _get_decomp_args
bad=collections.defaultdict(list)
def branches(rule,op,n_target_wires):
    params,args,kwargs=_get_decomp_args(op)
    with qp.queuing.AnnotatedQueue() as q: rule(*args,**kwargs)
    ops=q.queue
    # resolve dynamic wires to fresh labels
    wm={}; seq=[]
    for o in ops:
        if o.name=='Allocate':
            for w in o.wires: wm[w]='w%d'%len(wm)
            continue
        if o.name=='Deallocate': continue
        seq.append(o)
    wires=list(op.wires)+list(wm.values()); n=len(wires)
    meas=[o for o in seq if o.name in('PauliMeasure','MidMeasure','MidMeasureMP') or 'Measure' in o.name]
    res=[]
    for outcome in itertools.product([0,1],repeat=len(meas)):
        K=np.eye(2**n,dtype=complex); val={}
        mi=0
        for o in seq:
            o2=o.map_wires(wm) if wm else o
            if o in meas:
                b=outcome[mi]; mi+=1
                if o.name=='PauliMeasure':
                    word=o.hyperparameters['pauli_word'] if 'pauli_word' in o.hyperparameters else o.pauli_word
                    fs=[{'X':qp.X,'Y':qp.Y,'Z':qp.Z,'I':qp.I}[c](w) for c,w in zip(word,o2.wires)]
                    P=qp.matrix(qp.prod(*fs) if len(fs)>1 else fs[0],wire_order=wires)
                else:
                    P=qp.matrix(qp.Z(o2.wires[0]),wire_order=wires)
                Pr=(np.eye(2**n)+(1-2*b)*P)/2
                K=Pr@K
                if getattr(o,'reset',False) and b==1: K=qp.matrix(qp.X(o2.wires[0]),wire_order=wires)@K
                val[id(o)]=b; val_key=o
                val[o]=b if False else b
                continue
            if o.name=='Conditional' or type(o).__name__=='Conditional':
                mv=o.meas_val
                # evaluate
                ms=mv.measurements
                bits=[outcome[meas.index(m)] for m in ms]
                cond=mv.processing_fn(*bits)
                if cond:
                    base=o.base.map_wires(wm) if wm else o.base
                    K=(qp.matrix(base,wire_order=wires) if len(base.wires) else np.exp(-1j*base.data[0])*np.eye(2**n))@K
                continue
            K=(qp.matrix(o2,wire_order=wires) if len(o2.wires) else np.exp(-1j*o2.data[0])*np.eye(2**n))@K
        res.append((outcome,K))
    return wires,res
def check(rule,op,name):
    U=qp.matrix(op,wire_order=list(op.wires)); d=U.shape[0]
    wires,res=branches(rule,op,len(op.wires)); k=2**(len(wires)-len(op.wires))
    tot=0
    for outcome,K in res:
        Kin=K.reshape(d,k,d,k)[:,:,:,0]   # aux input |0>
        # expect Kin[:,a,:] = c * U * v_a
        M=Kin.transpose(1,0,2).reshape(k*d,d)
        p=np.real(np.trace(M.conj().T@M))/d; tot+=p
        if p<1e-12: continue
        # find proportionality: project each aux component
        ok=True; 
        for a in range(k):
            blk=Kin[:,a,:]
            if np.abs(blk).max()<1e-9: continue
            c=np.vdot(U.ravel(),blk.ravel())/np.vdot(U.ravel(),U.ravel())
            if not np.allclose(blk,c*U,atol=1e-8): ok=False
        if not ok: bad[name].append(outcome)
    if abs(tot-1)>1e-8: bad[name+'_prob'].append(tot)
    print(name,'branches',len(res),'bad',len(bad.get(name,[])))
for opn,op in [('Hadamard',qp.Hadamard(0)),('CNOT',qp.CNOT([0,1])),('CZ',qp.CZ([0,1])),('CY',qp.CY([0,1]))]:
    for rule in qp.list_decomps(type(op)):
        params,args,kwargs=_get_decomp_args(op)
        try:
            with qp.queuing.AnnotatedQueue() as q: rule(*args,**kwargs)
        except Exception as e: continue
        if any('Measure' in o.name for o in q.queue):
            try: check(rule,op,opn+':'+getattr(rule,'name',str(rule))[:40])
            except Exception as e: print(opn,'EXC',repr(e)[:200])
print(dict(bad))
