import numpy as np, pennylane as qp, warnings, itertools, collections, math, random, inspect
warnings.filterwarnings("ignore")
R=random.Random(13); rng=np.random.default_rng(4)
bad=collections.defaultdict(list)
from pennylane.ops.qubit import attributes as A
def find_cls(name):
    for mod in (qp, qp.templates, qp.ops, qp.ops.op_math):
        c=getattr(mod,name,None)
        if inspect.isclass(c): return c
def inst(cls,params=None,wires=None):
    npar=cls.num_params; nw=cls.num_wires
    if not isinstance(nw,int): nw=3
    if params is None: params=rng.uniform(-6,6,npar)
    kw={}
    if cls.__name__=='PauliRot': kw['pauli_word']='XYZ'
    if cls.__name__=='PCPhase': kw['dim']=2
    return cls(*params,wires=wires or list(range(nw)),**kw)
# C07
for name in A.self_inverses:
    op=inst(find_cls(name)); M=qp.matrix(op)
    if not np.allclose(M@M,np.eye(len(M))): bad['self_inv'].append(name)
for name in A.symmetric_over_all_wires:
    cls=find_cls(name)
    if cls is None: bad['nocls'].append(name); continue
    try:
        op=inst(cls); n=len(op.wires); M=qp.matrix(op,wire_order=range(n))
        for perm in itertools.permutations(range(n)):
            op2=inst(cls,params=op.data,wires=list(perm))
            if not np.allclose(qp.matrix(op2,wire_order=range(n)),M): bad['sym_all'].append((name,perm)); break
    except Exception as e: bad['sym_exc'].append((name,repr(e)[:80]))
for name in A.symmetric_over_control_wires:
    cls=find_cls(name); op=inst(cls); M=qp.matrix(op,wire_order=range(3))
    if not np.allclose(qp.matrix(cls(wires=[1,0,2]),wire_order=range(3)),M): bad['sym_ctrl'].append(name)
for name in A.diagonal_in_z_basis:
    cls=find_cls(name)
    try:
        if name=='DiagonalQubitUnitary': op=cls(np.exp(1j*rng.uniform(0,6,4)),wires=[0,1])
        else: op=inst(cls)
        M=qp.matrix(op)
        if not np.allclose(M,np.diag(np.diag(M))): bad['diag'].append(name)
    except Exception as e: bad['diag_exc'].append((name,repr(e)[:80]))
for name in A.composable_rotations:
    cls=find_cls(name)
    if name=='Rot': continue
    a,b=rng.uniform(-6,6,2)
    Ma,Mb,Mab=[qp.matrix(inst(cls,params=[x])) for x in (a,b,a+b)]
    if not np.allclose(Ma@Mb,Mab): bad['composable'].append(name)
for name in A.has_unitary_generator:
    cls=find_cls(name)
    try:
        op=inst(cls); g=qp.generator(op,format='observable'); G=qp.matrix(g,wire_order=op.wires)
        G2=G@G; c=G2[0,0]
        if not (np.allclose(G2,c*np.eye(len(G))) and abs(c)>1e-9): bad['unitary_gen'].append(name)
    except Exception as e: bad['ug_exc'].append((name,repr(e)[:100]))
for name in A.supports_broadcasting:
    cls=find_cls(name)
    if cls is None or not isinstance(getattr(cls,'num_params',None),int) or cls.num_params==0 or name in('QubitUnitary','ControlledQubitUnitary','SpecialUnitary','StatePrep','AmplitudeEmbedding','AngleEmbedding','IQPEmbedding','QAOAEmbedding'): continue
    try:
        P=rng.uniform(-6,6,(cls.num_params,3))
        opb=inst(cls,params=[P[i] for i in range(cls.num_params)]); Mb=qp.matrix(opb)
        for k in range(3):
            Mk=qp.matrix(inst(cls,params=[P[i][k] for i in range(cls.num_params)]))
            if not np.allclose(Mb[k],Mk): bad['broadcast'].append((name,k)); break
    except Exception as e: bad['bc_exc'].append((name,repr(e)[:100]))
# C28 channels
import pennylane.ops.channel as ch
for name in ch.__all__:
    cls=getattr(ch,name)
    for trial in range(5):
        try:
            if name in ('QubitChannel',): continue
            if name=='PauliError': op=cls('XY',rng.uniform(0,1),wires=[0,1])
            elif name=='ThermalRelaxationError': op=cls(rng.uniform(0,1),rng.uniform(1e-5,1e-4),rng.uniform(1e-5,1e-4),rng.uniform(1e-8,1e-6),wires=0)
            elif name=='GeneralizedAmplitudeDamping': op=cls(rng.uniform(0,1),rng.uniform(0,1),wires=0)
            elif name=='ResetError': 
                a=rng.uniform(0,1); op=cls(a,rng.uniform(0,1-a),wires=0)
            elif name=='DepolarizingChannel': op=cls(rng.uniform(0,1),wires=0)
            elif cls.num_params==1: op=cls(rng.uniform(0,1),wires=list(range(cls.num_wires)) if isinstance(cls.num_wires,int) else [0])
            else: bad['ch_skip'].append(name); break
            Ks=op.kraus_matrices(); S=sum(K.conj().T@K for K in Ks)
            if not np.allclose(S,np.eye(len(S)),atol=1e-10): bad['kraus'].append((name,op.data))
        except Exception as e: bad['ch_exc'].append((name,repr(e)[:100])); break
print({k:(len(v),v[:4]) for k,v in bad.items()})
