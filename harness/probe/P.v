From Coq Require Import ZArith QArith List Bool Lia.
Import ListNotations.
Open Scope Z_scope.
(* K8 = Q(zeta8) as 4 rationals ; to avoid Qred cost use Z numerators over common dyadic denominators? probe with Q *)
Definition K := (Q*Q*Q*Q)%type.
Definition kadd (a b:K):K := let '(a0,a1,a2,a3):=a in let '(b0,b1,b2,b3):=b in (Qred(a0+b0),Qred(a1+b1),Qred(a2+b2),Qred(a3+b3))%Q.
Definition kmul (a b:K):K := let '(a0,a1,a2,a3):=a in let '(b0,b1,b2,b3):=b in
 (Qred(a0*b0 - a1*b3 - a2*b2 - a3*b1), Qred(a0*b1+a1*b0 - a2*b3 - a3*b2), Qred(a0*b2+a1*b1+a2*b0 - a3*b3), Qred(a0*b3+a1*b2+a2*b1+a3*b0))%Q.
Definition kzero:K := (0,0,0,0)%Q.
Definition kis0 (a:K) := let '(a0,a1,a2,a3):=a in Qeq_bool a0 0 && Qeq_bool a1 0 && Qeq_bool a2 0 && Qeq_bool a3 0.
(* multivariate Laurent: list (list Z * K) sorted by exponent vector *)
Fixpoint lcmp (a b:list Z) : comparison := match a,b with [],[] => Eq | [],_ => Lt | _,[] => Gt | x::a',y::b' => match Z.compare x y with Eq => lcmp a' b' | c => c end end.
Definition P := list (list Z * K).
Fixpoint padd (p q:P) {struct p}: P :=
  match p with [] => q | (m,c)::p' =>
    (fix aux (q:P):P := match q with [] => (m,c)::p' | (n,d)::q' =>
        match lcmp m n with
        | Lt => (m,c)::padd p' q
        | Gt => (n,d)::aux q'
        | Eq => let s:=kadd c d in if kis0 s then padd p' q' else (m,s)::padd p' q' end end) q end.
Definition pscale (m:list Z)(c:K)(p:P):P := map (fun '(n,d) => (map (fun '(x,y)=>x+y) (combine m n), kmul c d)) p.
Fixpoint pmul (p q:P):P := match p with [] => [] | (m,c)::p' => padd (pscale m c q) (pmul p' q) end.
Definition pzero:P := [].
Definition pone (n:nat):P := [(repeat 0 n,(1,0,0,0)%Q)].
(* state vector = list P of length 2^n; apply 1q gate [[a,b],[c,d]] on qubit k of n (qubit 0 = msb) *)
Definition vec := list P.
Fixpoint nthP (v:vec)(i:nat):P := nth i v pzero.
Definition apply1 (n k:nat)(a b c d:P)(v:vec):vec :=
  let stride := Nat.pow 2 (n-1-k) in
  map (fun i => let bit := Nat.odd (i / stride) in
        let i0 := if bit then (i - stride)%nat else i in let i1 := (i0+stride)%nat in
        if bit then padd (pmul c (nthP v i0)) (pmul d (nthP v i1)) else padd (pmul a (nthP v i0)) (pmul b (nthP v i1))) (seq 0 (Nat.pow 2 n)).
Definition cnot (n c t:nat)(v:vec):vec :=
  let sc := Nat.pow 2 (n-1-c) in let st := Nat.pow 2 (n-1-t) in
  map (fun i => if Nat.odd (i/sc) then (if Nat.odd (i/st) then nthP v (i-st) else nthP v (i+st)) else nthP v i) (seq 0 (Nat.pow 2 n)).
Definition half:K := (1#2,0,0,0)%Q.
(* RY(k*theta/8): z = e^{i theta/16}: cos = (z^k+z^-k)/2 ; sin = (z^k - z^-k)/(2i) = -i/2 (z^k - z^-k) ; i = zeta^2 *)
Definition cosP (k:Z):P := padd [([k],half)] [([-k],half)].
Definition sinP (k:Z):P := padd [([k],(0,0,-1#2,0)%Q)] [([-k],(0,0,1#2,0)%Q)].
Definition pneg (p:P):P := pscale [0] (-1,0,0,0)%Q p.
Definition ry n q k v := apply1 n q (cosP k) (pneg (sinP k)) (sinP k) (cosP k) v.
Definition hs:K := (0,1#2,0,-1#2)%Q. (* 1/sqrt2 = (zeta - zeta^3)/2 *)
Definition had n q v := apply1 n q [([0],hs)] [([0],hs)] [([0],hs)] (pneg [([0],hs)]) v.
Definition basis n j : vec := map (fun i => if Nat.eqb i j then pone 1 else pzero) (seq 0 (Nat.pow 2 n)).
Definition dexc (v:vec):vec :=
 let n:=4%nat in
 let g := [cnot n 2 3; cnot n 0 2; had n 3; had n 0; cnot n 2 3; cnot n 0 1; ry n 1 1; ry n 0 (-1); cnot n 0 3; had n 3; cnot n 3 1; ry n 1 1; ry n 0 (-1); cnot n 2 1; cnot n 2 0; ry n 1 (-1); ry n 0 1; cnot n 3 1; had n 3; cnot n 0 3; ry n 1 (-1); ry n 0 1; cnot n 0 1; cnot n 2 0; had n 0; had n 3; cnot n 0 2; cnot n 2 3]%nat in
 fold_left (fun v f => f v) g v.
Time Eval vm_compute in (dexc (basis 4 3)).
Time Eval vm_compute in (map (fun j => length (dexc (basis 4 j))) (seq 0 16)).
Time Eval vm_compute in (map (fun j => map (fun p => length p) (dexc (basis 4 j))) (seq 0 16)).
