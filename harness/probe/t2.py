import sys; sys.path.insert(0,'/tmp/probe')
import numpy as np, pennylane as qp
from sym import S
def symarr(j,n):
    a=np.empty((1,),dtype=object); a[0]=S.var(j,n); return a
import pennylane.core.operator.operator2 as o2
o2._init_arg_types=lambda op: None
ok=0; bad=[]; tot=0
for cls,n,nw in [(qp.CRX,1,2),(qp.CRY,1,2),(qp.CRZ,1,2),(qp.CRot,3,2),(qp.IsingXX,1,2),(qp.IsingYY,1,2),(qp.IsingZZ,1,2),(qp.IsingXY,1,2),(qp.RX,1,1),(qp.RY,1,1),(qp.RZ,1,1),(qp.Rot,3,1),(qp.PhaseShift,1,1),(qp.U2,2,1),(qp.U3,3,1),(qp.ControlledPhaseShift,1,2),(qp.SingleExcitation,1,2),(qp.DoubleExcitation,1,4),(qp.PSWAP,1,2),(qp.MultiRZ,1,3)]:
    for rule in qp.list_decomps(cls):
        tot+=1
        ps=[symarr(j,n) for j in range(n)]
        try:
            with qp.queuing.AnnotatedQueue() as q:
                rule(*ps, wires=list(range(nw)))
            ops=q.queue
            desc=[]
            for o in ops:
                d=[]
                for x in o.data:
                    x=np.asarray(x)
                    v=x.flat[0]
                    d.append(v.lin if isinstance(v,S) else float(v))
                desc.append((o.name,list(o.wires),d))
            print(cls.__name__, getattr(rule,'__name__',rule), desc[:6], '...' if len(desc)>6 else '')
            ok+=1
        except Exception as e:
            bad.append((cls.__name__, getattr(rule,'name',str(rule))[:40], repr(e)[:150]))
print(ok,tot)
for b in bad: print(b)
