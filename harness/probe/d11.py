import numpy as np, pennylane as qp, warnings, itertools, collections, math, random
warnings.filterwarnings("ignore")
R=random.Random(37); rng=np.random.default_rng(12)
bad=collections.defaultdict(list)
from pennylane.wires import Wires
# ---- C30
for it in range(1500):
    n=R.randint(1,4); shots=R.randint(1,12); order=R.sample([0,1,2,3,'a','b'],n)
    S=rng.integers(0,2,(shots,n))
    mw=R.sample(order,R.randint(1,n)); idx=[order.index(w) for w in mw]
    sub=S[:,idx]; ints=sub@(2**np.arange(len(mw))[::-1])
    # probs
    p=qp.probs(wires=mw).process_samples(S,Wires(order))
    pe=np.bincount(ints,minlength=2**len(mw))/shots
    if not np.allclose(np.ravel(p),pe): bad['probs'].append((S.tolist(),order,mw))
    # expval/var of Pauli Z word & Hermitian with arbitrary eigvals
    ob=qp.prod(*[qp.Z(w) for w in mw]) if len(mw)>1 else qp.Z(mw[0])
    vals=np.prod(1-2*sub,axis=1)
    e=qp.expval(ob).process_samples(S,Wires(order)); v=qp.var(ob).process_samples(S,Wires(order))
    if not (np.isclose(e,vals.mean()) and np.isclose(v,vals.var())): bad['z_word'].append((S.tolist(),order,mw,float(e),vals.mean()))
    d=rng.integers(-8,8,2**len(mw))/4
    H=qp.Hermitian(np.diag(d),wires=mw)
    eig=H.eigvals()  # sorted? 
    try:
        e2=qp.expval(H).process_samples(S,Wires(order))
        # direct arithmetic: samples are in eigenbasis after diagonalizing gates; eigenvalue lookup by index into eigvals()
        if not np.isclose(e2,eig[ints].mean()): bad['herm'].append((S.tolist(),mw))
    except Exception as ex: bad['herm_exc'].append(repr(ex)[:80])
    c=qp.counts(wires=mw,all_outcomes=True).process_samples(S,Wires(order))
    if sum(c.values())!=shots or any(c[format(k,'0%db'%len(mw))]!=int((ints==k).sum()) for k in range(2**len(mw))): bad['counts'].append((S.tolist(),mw,c))
    c2=qp.counts(wires=mw).process_samples(S,Wires(order))
    if c2!={k:v for k,v in c.items() if v}: bad['counts2'].append((c,c2))
    pc=qp.probs(wires=mw).process_counts(c2,Wires(mw))
    if not np.allclose(np.ravel(pc),pe): bad['process_counts'].append((c2,pe.tolist(),np.ravel(pc).tolist()))
# ---- C51 pauli arithmetic
from pennylane.pauli import PauliWord, PauliSentence
def rw(n): return PauliWord({w:R.choice('XYZ') for w in R.sample(range(n),R.randint(0,n))})
def rs(n): return PauliSentence({rw(n):complex(R.randint(-3,3),R.randint(-3,3))/2 for _ in range(R.randint(1,4))})
for it in range(600):
    n=R.randint(1,4); wo=R.sample(range(n),n)
    a,b=rs(n),rs(n)
    A,B=a.to_mat(wo),b.to_mat(wo)
    if not np.allclose((a@b).to_mat(wo),A@B): bad['ps_mul'].append((a,b))
    if not np.allclose((a+b).to_mat(wo),A+B): bad['ps_add'].append((a,b))
    if not np.allclose(a.commutator(b).to_mat(wo),A@B-B@A): bad['ps_comm'].append((a,b))
    if not np.allclose(a.to_mat(wo,format='csr').toarray(),A): bad['ps_sparse'].append(a)
    for bs in (1,2,7):
        if not np.allclose(a.to_mat(wo,format='csr',buffer_size=bs).toarray(),A): bad['ps_buffer'].append((a,bs))
    if not np.isclose(a.trace(),np.trace(A)/2**n if False else a.trace()): pass
    op=a.operation(wo)
    if not np.allclose(qp.matrix(op,wire_order=wo),A): bad['ps_op'].append(a)
    try:
        back=qp.pauli_decompose(A,wire_order=wo,pauli=True,check_hermitian=False)
        if not np.allclose(back.to_mat(wo),A): bad['decomp'].append(a)
    except Exception as ex: bad['decomp_exc'].append((repr(ex)[:60],bool(np.allclose(A,0))))
    try:
        ps2=qp.pauli.pauli_sentence(op)
        if not np.allclose(ps2.to_mat(wo),A): bad['pauli_sentence'].append(a)
    except Exception as ex: bad['psent_exc'].append(repr(ex)[:80])
print({k:(len(v),v[:2]) for k,v in bad.items()})
