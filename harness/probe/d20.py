import numpy as np, pennylane as qp, warnings, random
warnings.filterwarnings("ignore")
exec(open('/tmp/probe/d19.py').read().split("for it in range(500):")[0])
R.seed(5)
found=[]
for it in range(3000):
    try: e=expr(R.randint(1,2))
    except Exception: continue
    wo=list(labels)+[w for w in ['c1','c2'] if w in e.wires]
    try:
        M=qp.matrix(e,wire_order=wo); s=qp.simplify(e); Ms=qp.matrix(s,wire_order=wo)
    except Exception: continue
    if not np.allclose(M,Ms,atol=1e-7):
        found.append((len(str(e)),str(e),str(s),np.abs(M-Ms).max()))
found.sort()
for f in found[:8]: print(f[1],'\n   ->',f[2],'\n   maxdiff',f[3])
print(len(found))
