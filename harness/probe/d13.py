import numpy as np, pennylane as qp, warnings, itertools, collections, math, random, networkx as nx
warnings.filterwarnings("ignore")
R=random.Random(43); rng=np.random.default_rng(15)
bad=collections.defaultdict(list)
# ---- C53 fermion mappings: CAR & homomorphism
from pennylane.fermi import FermiWord, FermiSentence
def mat(ps,n): return qp.matrix(ps,wire_order=range(n)) if len(ps.wires) or True else None
def M(op,n):
    try: return qp.matrix(op,wire_order=range(n))
    except Exception: 
        return np.array(op.to_mat(range(n))) if hasattr(op,'to_mat') else None
maps={'jw':lambda f,n: qp.jordan_wigner(f,ps=True),'par':lambda f,n: qp.parity_transform(f,n,ps=True),'bk':lambda f,n: qp.bravyi_kitaev(f,n,ps=True)}
def tm(ps,n):
    if len(ps)==0: return np.zeros((2**n,2**n),dtype=complex)
    return ps.to_mat(wire_order=range(n))
for n in range(1,7):
    for name,mp in maps.items():
        A={}; 
        for p in range(n):
            A[p]=tm(mp(FermiWord({(0,p):'-'}),n),n); 
            Ad=tm(mp(FermiWord({(0,p):'+'}),n),n)
            if not np.allclose(Ad,A[p].conj().T): bad[name+'_adj'].append((n,p))
        for p in range(n):
            for q in range(n):
                ac=A[p]@A[q].conj().T+A[q].conj().T@A[p]
                if not np.allclose(ac,np.eye(2**n)*(p==q)): bad[name+'_car'].append((n,p,q))
                if not np.allclose(A[p]@A[q]+A[q]@A[p],0): bad[name+'_car2'].append((n,p,q))
        # homomorphism random words
        for _ in range(20):
            L=R.randint(1,4); ops=[(R.randrange(n),R.choice('+-')) for _ in range(L)]
            fw=FermiWord({(i,o):s for i,(o,s) in enumerate(ops)})
            prod=np.eye(2**n,dtype=complex)
            for o,s in ops: prod=prod@(A[o].conj().T if s=='+' else A[o])
            try:
                if not np.allclose(tm(mp(fw,n),n),prod): bad[name+'_hom'].append((n,ops))
            except Exception as e: bad[name+'_exc'].append((n,ops,repr(e)[:60]))
# ---- C72 QAOA costs
from pennylane import qaoa
def diag(H,n,wires): 
    Mx=qp.matrix(H,wire_order=wires); 
    assert np.allclose(Mx,np.diag(np.diag(Mx))); return np.real(np.diag(Mx))
for it in range(150):
    n=R.randint(2,5); g=nx.gnp_random_graph(n,R.choice([0.3,0.6,1.0]),seed=R.randint(0,9999))
    if g.number_of_edges()==0: continue
    wires=list(range(n))
    def bits(k): return [(k>>(n-1-i))&1 for i in range(n)]
    Hc,_=qaoa.maxcut(g); d=diag(Hc,n,wires)
    for k in range(2**n):
        b=bits(k); cut=sum(b[u]!=b[v] for u,v in g.edges)
        if not np.isclose(d[k],-cut): bad['maxcut'].append((list(g.edges),b,d[k],-cut)); break
    for constrained in (True,False):
        Hc,_=qaoa.max_independent_set(g,constrained=constrained); d=diag(Hc,n,wires)
        Hv,_=qaoa.min_vertex_cover(g,constrained=constrained); dv=diag(Hv,n,wires)
        Hq,_=qaoa.max_clique(g,constrained=constrained); dq=diag(Hq,n,wires)
        comp=nx.complement(g)
        for k in range(2**n):
            b=bits(k); ones=sum(b)
            viol=sum(b[u] and b[v] for u,v in g.edges)
            unc=sum((not b[u]) and (not b[v]) for u,v in g.edges)
            violc=sum(b[u] and b[v] for u,v in comp.edges)
            if constrained:
                # documented: sum Z_v  ; eigenvalue of Z on |1> is -1 ... objective sign conventions
                exp_mis=sum(1-2*x for x in b); exp_mvc=-sum(1-2*x for x in b); exp_mc=sum(1-2*x for x in b)
            else:
                exp_mis=0.75*sum((1-2*b[u])*(1-2*b[v])-(1-2*b[u])-(1-2*b[v]) for u,v in g.edges)+sum(1-2*x for x in b)
                exp_mvc=0.75*sum((1-2*b[u])*(1-2*b[v])+(1-2*b[u])+(1-2*b[v]) for u,v in g.edges)-sum(1-2*x for x in b)
                exp_mc=0.75*sum((1-2*b[u])*(1-2*b[v])-(1-2*b[u])-(1-2*b[v]) for u,v in comp.edges)+sum(1-2*x for x in b)
            if not np.isclose(d[k],exp_mis): bad['mis_%s'%constrained].append((list(g.edges),b,d[k],exp_mis)); break
            if not np.isclose(dv[k],exp_mvc): bad['mvc_%s'%constrained].append((list(g.edges),b,dv[k],exp_mvc)); break
            if not np.isclose(dq[k],exp_mc): bad['mc_%s'%constrained].append((list(g.edges),b,dq[k],exp_mc)); break
print({k:(len(v),v[:2]) for k,v in bad.items()})
