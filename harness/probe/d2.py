import numpy as np, pennylane as qp, warnings, itertools, collections, math, random
warnings.filterwarnings("ignore")
R=random.Random(11); rng=np.random.default_rng(2)
bad=collections.defaultdict(list)
from pennylane.ops.op_math.decompositions.rings import ZSqrtTwo, ZOmega, DyadicMatrix, SO3Matrix
from pennylane.ops.op_math.decompositions import norm_solver as ns
def rz(b=50): return ZSqrtTwo(R.randint(-b,b),R.randint(-b,b))
def ro(b=50): return ZOmega(*[R.randint(-b,b) for _ in range(4)])
for _ in range(2000):
    x,y,z=rz(),rz(),rz()
    if not ((x*y)*z==x*(y*z) and x*(y+z)==x*y+x*z and x*y==y*x and abs(x*y)==abs(x)*abs(y) and (x*y).adj2()==x.adj2()*y.adj2()): bad['zs2'].append((x,y,z))
    if y!=0:
        r=x%y
        # check x - r divisible by y (or x+r) and |N(r)|<|N(y)|
        d=abs(y)
        for cand in (x-r,x+r):
            n=cand*y.adj2()
            if n.a%d==0 and n.b%d==0: break
        else: bad['zs2mod_div'].append((x,y,r))
        if not abs(abs(r))<abs(abs(y)): bad['zs2mod_norm'].append((x,y,r,abs(r),abs(y)))
    a,b,c=ro(),ro(),ro()
    if not ((a*b)*c==a*(b*c) and a*(b+c)==a*b+a*c and a*b==b*a and abs(a*b)==abs(a)*abs(b) and (a*b).conj()==a.conj()*b.conj() and (a*b).adj2()==a.adj2()*b.adj2()): bad['zo'].append((a,b,c))
    if abs(complex(a)*complex(b)-complex(a*b))>1e-6*(1+abs(complex(a*b))): bad['zo_complex'].append((a,b))
    if b!=0:
        r=a%b
        if not abs(abs(r))<abs(abs(b)): bad['zomod_norm'].append((a,b,r))
    s=x*x
    q=s.sqrt()
    if q is None or not (q*q==s): bad['sqrt'].append((x,s,q))
# dyadic
def rd(): return DyadicMatrix(ro(4),ro(4),ro(4),ro(4),k=R.randint(0,4))
for _ in range(500):
    A,B,C=rd(),rd(),rd()
    if not np.allclose((A@B).ndarray, A.ndarray@B.ndarray): bad['dy_mm'].append((A,B))
    if not np.allclose((A+B).ndarray, A.ndarray+B.ndarray): bad['dy_add'].append((A,B))
    if not ((A@B)@C==A@(B@C)): bad['dy_assoc'].append((A,B,C))
# primality
def isp(n):
    if n<2: return False
    i=2
    while i*i<=n:
        if n%i==0: return False
        i+=1
    return True
for n in range(0,30000):
    if ns._primality_test(n)!=isp(n): bad['prime'].append(n)
for p in [q for q in range(3,2000) if isp(q)]:
    for n in range(0,p,7):
        r=ns._sqrt_modulo_p(n,p)
        has=any((x*x-n)%p==0 for x in range(p))
        if (r is None)==has or (r is not None and (r*r-n)%p!=0): bad['sqrtmod'].append((n,p,r))
# diophantine
cnt=0
for _ in range(3000):
    xi=ZSqrtTwo(R.randint(-300,300),R.randint(-200,200))
    try: t=ns._solve_diophantine(xi)
    except Exception as e:
        bad['dioph_exc:'+type(e).__name__].append(xi); continue
    if t is not None:
        cnt+=1
        if not (t.conj()*t)==xi.to_omega(): bad['dioph'].append((xi,t))
print('dioph solved',cnt)
print('done', {k:(len(v),v[:2]) for k,v in bad.items()})
