import numpy as np, pennylane as qp, warnings, itertools, collections, math, random, inspect
from scipy.linalg import expm
warnings.filterwarnings("ignore")
R=random.Random(73); rng=np.random.default_rng(24)
bad=collections.defaultdict(list)
classes=[]
for n in dir(qp):
    c=getattr(qp,n)
    if inspect.isclass(c) and issubclass(c,qp.operation.Operator) and isinstance(getattr(c,'num_params',None),int) and isinstance(getattr(c,'num_wires',None),int):
        classes.append(c)
print(len(classes))
special=[0.0,np.pi,-np.pi,2*np.pi,4*np.pi,np.pi/2,-2*np.pi]
skip={'QubitUnitary','DiagonalQubitUnitary','BasisState','StatePrep','Hermitian','SpecialUnitary','ControlledQubitUnitary','QubitDensityMatrix','SparseHamiltonian','Projector','BlockEncode','QubitChannel','Snapshot'}
for cls in classes:
    if cls.__name__ in skip or issubclass(cls,qp.operation.Channel): continue
    for trial in range(6):
        params=[ (R.choice(special) if trial>=3 else R.uniform(-7,7)) for _ in range(cls.num_params)]
        labels=R.sample([0,1,2,3,'a','b'],cls.num_wires)
        try: op=cls(*params,wires=labels)
        except Exception as e: bad['ctor'].append((cls.__name__,repr(e)[:60])); break
        wo=R.sample(labels,len(labels))
        nm=cls.__name__
        try:
            if op.has_matrix:
                M=qp.matrix(op,wire_order=wo)
            else:
                try: qp.matrix(op,wire_order=wo); bad['flag_matrix'].append(nm)
                except Exception: pass
                continue
        except Exception as e: bad['matrix_exc'].append((nm,repr(e)[:80])); continue
        # sparse
        if op.has_sparse_matrix:
            try:
                Sm=op.sparse_matrix(wire_order=wo).toarray()
                if not np.allclose(Sm,M): bad['sparse'].append((nm,params))
            except Exception as e: bad['sparse_exc'].append((nm,repr(e)[:80]))
        # decomposition
        if op.has_decomposition:
            try:
                dec=op.decomposition(); t=qp.tape.QuantumScript(dec)
                D=qp.matrix(t,wire_order=wo) if dec else np.eye(len(M))
                if not np.allclose(D,M,atol=1e-7): bad['decomp'].append((nm,params,labels))
            except Exception as e: bad['decomp_exc'].append((nm,repr(e)[:80]))
        # eigvals / diag gates
        try:
            ev=qp.eigvals(op)
            evM=np.linalg.eigvals(M)
            if not np.allclose(np.sort_complex(np.round(ev,7)),np.sort_complex(np.round(evM,7)),atol=1e-6): bad['eigvals'].append((nm,params))
            if op.has_diagonalizing_gates:
                dg=op.diagonalizing_gates(); Ud=qp.matrix(qp.tape.QuantumScript(dg),wire_order=labels) if dg else np.eye(len(M))
                Ml=qp.matrix(op,wire_order=labels)
                if not np.allclose(Ud.conj().T@np.diag(op.eigvals())@Ud,Ml,atol=1e-7): bad['diag_gates'].append((nm,params))
        except qp.exceptions.EigvalsUndefinedError if hasattr(qp,'exceptions') else Exception: pass
        except Exception as e: bad['eig_exc'].append((nm,repr(e)[:80]))
        # pauli rep
        try:
            pr=op.pauli_rep
            if pr is not None and not np.allclose(pr.to_mat(wire_order=wo),M,atol=1e-7): bad['pauli_rep'].append((nm,params))
        except Exception as e: bad['pauli_exc'].append((nm,repr(e)[:80]))
        # generator
        if getattr(op,'has_generator',False) and cls.num_params==1:
            try:
                g=qp.generator(op,format='observable'); G=qp.matrix(g,wire_order=wo)
                if not np.allclose(expm(1j*params[0]*G),M,atol=1e-7): bad['generator'].append((nm,params))
            except Exception as e: bad['gen_exc'].append((nm,repr(e)[:80]))
for k,v in bad.items(): print(k,len(v),v[:4])
