import numpy as np, pennylane as qp, warnings, random
warnings.filterwarnings("ignore")
import sys; sys.path.insert(0,'/tmp/probe')
exec(open('/tmp/probe/d8.py').read().split("for it in range(250):")[0])
for s in (852453442,726868378):
    f=make(1,s)
    t=qp.tape.make_qscript(f)()
    print([str(o) for o in t.operations]); print([str(m) for m in t.measurements])
    for method in ('deferred','tree-traversal','one-shot'):
        q=qp.QNode(make(1,s),qp.device('default.qubit',seed=1),mcm_method=method)
        if method=='one-shot': q=qp.set_shots(q,20000)
        print(method,[np.round(np.asarray(x,dtype=float),4).tolist() for x in q()])
