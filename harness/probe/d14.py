import numpy as np, pennylane as qp, warnings, itertools, collections, math, random
warnings.filterwarnings("ignore")
R=random.Random(47); rng=np.random.default_rng(16)
bad=collections.defaultdict(list)
from pennylane.decomposition import gate_sets
GS={'rot_cnot':gate_sets.ROTATIONS_PLUS_CNOT,'cliffT':getattr(gate_sets,'CLIFFORD_T_PLUS_RZ',None) or gate_sets.CLIFFORD_T,'custom1':{qp.RX,qp.RZ,qp.CZ,qp.GlobalPhase},'custom2':{qp.RY,qp.RZ,qp.CNOT,qp.GlobalPhase},'custom3':{qp.Hadamard,qp.RZ,qp.CNOT,qp.GlobalPhase},'custom4':{qp.IsingXX,qp.RZ,qp.RX,qp.GlobalPhase}}
print([k for k in dir(gate_sets) if k.isupper()])
names1=['Hadamard','S','T','SX','RX','RY','RZ','PhaseShift','Rot','U2','U3']
names2=['CNOT','CZ','CY','CH','SWAP','ISWAP','SISWAP','ECR','CRX','CRY','CRZ','CRot','ControlledPhaseShift','IsingXX','IsingYY','IsingZZ','IsingXY','PSWAP','SingleExcitation','FermionicSWAP','CPhaseShift10']
names3=['Toffoli','CCZ','CSWAP']
names4=['DoubleExcitation','OrbitalRotation']
def mkop(n):
    while True:
        k=R.random()
        pool=names1 if k<0.4 else names2 if k<0.75 else names3 if k<0.9 else names4
        nm=R.choice(pool); cls=getattr(qp,nm)
        if cls.num_wires>n: continue
        ws=R.sample(range(n),cls.num_wires)
        op=cls(*[R.uniform(-6,6) for _ in range(cls.num_params)],wires=ws)
        r=R.random()
        if r<0.12: op=qp.adjoint(op)
        elif r<0.2: op=qp.pow(op,R.choice([2,3,-1]))
        elif r<0.28 and len(ws)<n and len(ws)<=2:
            c=R.choice([w for w in range(n) if w not in ws]); op=qp.ctrl(op,control=c,control_values=[R.randint(0,1)])
        return op
def eq_phase(A,B):
    i=np.argmax(np.abs(A)); a=A.flat[i]; b=B.flat[i]
    return abs(b)>1e-9 and np.allclose(A,B*(a/b),atol=1e-7)
for graph in (False,True):
    (qp.decomposition.enable_graph if graph else qp.decomposition.disable_graph)()
    for it in range(120):
        n=R.randint(1,4); ops=[mkop(n) for _ in range(R.randint(1,5))]
        t=qp.tape.QuantumScript(ops,[qp.expval(qp.Z(0))])
        U=qp.matrix(t,wire_order=range(n))
        for gname,gs in GS.items():
            try:
                (t2,),_=qp.transforms.decompose(qp.tape.QuantumScript(list(ops),t.measurements),gate_set=gs)
            except Exception as e:
                bad['exc_%s_%s:%s'%(graph,gname,type(e).__name__)].append((repr(e)[:80],[str(o) for o in ops])); continue
            names={(o.name) for o in t2.operations}
            allowed={(g if isinstance(g,str) else g.__name__) for g in gs}
            allowed|={ {'PauliX':'X','PauliY':'Y','PauliZ':'Z'}.get(a,a) for a in allowed}
            extra={nm for nm in names if nm not in allowed and {'X':'PauliX','Y':'PauliY','Z':'PauliZ','Adjoint(S)':'Adjoint(S)'}.get(nm,nm) not in allowed}
            if extra: bad['notinset_%s_%s'%(graph,gname)].append((sorted(extra),[str(o) for o in ops]))
            wo=list(range(n))+[w for w in t2.wires if w not in range(n)]
            V=qp.matrix(t2,wire_order=wo) if t2.operations else np.eye(2**n)
            if V.shape!=U.shape: V=V.reshape(2**n,-1,2**n,V.shape[0]//2**n)[:,0,:,0]
            ok=np.allclose(U,V,atol=1e-7) if graph else eq_phase(U,V)
            if not ok:
                bad['sem_%s_%s'%(graph,gname)].append(([str(o) for o in ops],[str(o) for o in t2.operations][:12], 'phase-only' if eq_phase(U,V) else 'WRONG'))
qp.decomposition.disable_graph()
out={k:(len(v),v[:2]) for k,v in bad.items()}
for k,v in out.items(): print(k,v)
