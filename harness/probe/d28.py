import numpy as np, pennylane as qp, warnings, itertools, collections, math, random
warnings.filterwarnings("ignore")
R=random.Random(103); rng=np.random.default_rng(36)
bad=collections.defaultdict(list)
def tapes(k):
    return [qp.tape.QuantumScript([qp.RX(0.3+0.2*i,0),qp.RY(0.7*i,1),qp.CNOT([0,1])],[qp.sample(wires=[0,1]),qp.expval(qp.Z(0))],shots=R.choice([7,(3,4)])) for i in range(k)]
def flat(r): 
    if isinstance(r,(tuple,list)): return np.concatenate([flat(x) for x in r]) if len(r) else np.array([])
    return np.ravel(np.asarray(r,dtype=float))
if __name__=='__main__':
    for it in range(6):
        R.seed(it); ts=tapes(4)
        a=flat(qp.device('default.qubit',seed=42).execute(ts)); b=flat(qp.device('default.qubit',seed=42).execute(ts))
        if not np.array_equal(a,b): bad['C31_same_seed'].append(it)
        for mw in (1,2,3):
            try:
                c=flat(qp.device('default.qubit',seed=42,max_workers=mw).execute(ts)); d=flat(qp.device('default.qubit',seed=42,max_workers=mw).execute(ts))
                if not np.array_equal(c,d): bad['C31_parallel_repro_%d'%mw].append(it)
            except Exception as e: bad['C31exc'].append(repr(e)[:100])
        # analytic parallel equals serial, in order
        ta=[qp.tape.QuantumScript([qp.RX(0.1*i,0)],[qp.expval(qp.Z(0))]) for i in range(7)]
        s=flat(qp.device('default.qubit').execute(ta)); p=flat(qp.device('default.qubit',max_workers=3).execute(ta))
        if not np.allclose(s,p): bad['C31_order'].append(it)
    # C29: samples valid & distribution for permuted wire subsets
    for it in range(40):
        n=R.randint(1,4); ops=[R.choice([qp.RX,qp.RY])(R.uniform(-3,3),w) for w in range(n)]+[qp.CNOT(R.sample(range(n),2)) for _ in range(R.randint(0,2)) if n>1]
        ws=R.sample(range(n),R.randint(1,n)); shots=20000
        t=qp.tape.QuantumScript(ops,[qp.counts(wires=ws,all_outcomes=True),qp.sample(wires=ws)],shots=shots)
        ex=qp.execute([qp.tape.QuantumScript(ops,[qp.probs(wires=ws)])],qp.device('default.qubit'))[0]
        for mk in ('numpy','jax'):
            try:
                if mk=='numpy': dev=qp.device('default.qubit',seed=it)
                else:
                    import jax; dev=qp.device('default.qubit',seed=jax.random.PRNGKey(it))
                c,s=qp.execute([t],dev)[0]
                if sum(c.values())!=shots: bad['C29_total_'+mk].append(it)
                emp=np.array([c[format(k,'0%db'%len(ws))] for k in range(2**len(ws))])/shots
                chi=np.sum((emp-ex)**2*shots/np.maximum(ex,1e-12)*(ex>1e-12))+ (shots*np.sum(emp[ex<=1e-12]))*1e6
                if chi>60+3*2**len(ws): bad['C29_chi_'+mk].append((it,ws,np.round(emp,3).tolist(),np.round(ex,3).tolist()))
                s=np.asarray(s).reshape(shots,-1); idx=s@(2**np.arange(len(ws))[::-1]); emp2=np.bincount(idx.astype(int),minlength=2**len(ws))/shots
                if not np.allclose(emp,emp2): bad['C29_counts_vs_samples_'+mk].append(it)
            except Exception as e: bad['C29exc_'+mk].append(repr(e)[:100])
    for k,v in bad.items(): print(k,len(v),v[:3])
    print('done')
