import sys; sys.path.insert(0,'/tmp/probe')
import numpy as np, pennylane as qp
from sym import S
def symarr(j,n):
    a=np.empty((1,),dtype=object); a[0]=S.var(j,n); return a
ok=0;bad=[]
tests=[(qp.RX,1),(qp.RY,1),(qp.RZ,1),(qp.PhaseShift,1),(qp.Rot,3),(qp.U1,1),(qp.U2,2),(qp.U3,3),(qp.IsingXX,1),(qp.IsingYY,1),(qp.IsingZZ,1),(qp.IsingXY,1),(qp.CRX,1),(qp.CRY,1),(qp.CRZ,1),(qp.CRot,3),(qp.ControlledPhaseShift,1),(qp.SingleExcitation,1),(qp.DoubleExcitation,1),(qp.PSWAP,1),(qp.GlobalPhase,1),(qp.SingleExcitationPlus,1),(qp.FermionicSWAP,1),(qp.OrbitalRotation,1),(qp.PCPhase,1)]
for cls,n in tests:
    try:
        ps=[symarr(j,n) for j in range(n)]
        kw={}
        if cls is qp.PCPhase: kw=dict(dimension=(2,4))
        M=cls.compute_matrix(*ps,**kw)
        th=np.random.uniform(-7,7,n)
        Mn=np.array([[x.num(th) if isinstance(x,S) else complex(x) for x in row] for row in np.asarray(M)[0]],dtype=complex)
        ref=cls.compute_matrix(*th,**kw)
        err=np.abs(Mn-ref).max()
        print(cls.__name__, M.shape, M.dtype, "err",err)
        ok+=1
    except Exception as e:
        bad.append((cls.__name__,repr(e)[:200]))
print(ok,bad)
