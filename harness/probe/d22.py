import numpy as np, pennylane as qp, warnings, itertools, collections, math, random
warnings.filterwarnings("ignore")
R=random.Random(79); rng=np.random.default_rng(26)
bad=collections.defaultdict(list)
dev=qp.device('default.qubit')
def run_basis(opfn, regs, inputs, nw):
    """prepare basis state with register values, apply op, return dict reg->int if output is a basis state else None"""
    bits=np.zeros(nw,dtype=int)
    for reg,val in inputs.items():
        ws=regs[reg]; b=[(val>>(len(ws)-1-i))&1 for i in range(len(ws))]
        for w,x in zip(ws,b): bits[w]=x
    ops=[qp.BasisState(bits,wires=range(nw)),opfn()]
    p=qp.execute([qp.tape.QuantumScript(ops,[qp.probs(wires=range(nw))])],dev)[0]
    k=int(np.argmax(p))
    if p[k]<1-1e-7: return None
    out=[(k>>(nw-1-i))&1 for i in range(nw)]
    return {reg:int(''.join(str(out[w]) for w in ws),2) if ws else 0 for reg,ws in regs.items()}
# Adder / PhaseAdder-free: Adder(k, x_wires, mod, work_wires)
for nx in (2,3):
    for mod in range(2,2**nx+1):
        for k in range(-3,2**nx+2):
            regs={'x':list(range(nx)),'w':[nx,nx+1]}
            for x in range(mod):
                try: out=run_basis(lambda: qp.Adder(k,regs['x'],mod=mod,work_wires=regs['w']),regs,{'x':x},nx+2)
                except Exception as e: bad['Adder_exc'].append((nx,mod,k,repr(e)[:60])); break
                if out is None or out['x']!=(x+k)%mod or out['w']!=0: bad['Adder'].append((nx,mod,k,x,out)); break
# OutAdder, Multiplier, OutMultiplier, SemiAdder, ModExp
for nx in (2,):
  for ny in (2,):
    nz=3
    for mod in (None,3,5,7,8):
        if mod and mod>2**nz: continue
        regs={'x':[0,1],'y':[2,3],'z':[4,5,6],'w':[7,8]}
        for x,y,z in itertools.product(range(4),range(4),range(2**nz if mod is None else mod)):
            m=mod or 2**nz
            try:
                out=run_basis(lambda: qp.OutAdder(regs['x'],regs['y'],regs['z'],mod=mod,work_wires=regs['w']),regs,{'x':x,'y':y,'z':z},9)
                if out is None or out['z']!=(z+x+y)%m or out['x']!=x or out['y']!=y or out['w']!=0: bad['OutAdder'].append((mod,x,y,z,out))
                out=run_basis(lambda: qp.OutMultiplier(regs['x'],regs['y'],regs['z'],mod=mod,work_wires=regs['w']),regs,{'x':x,'y':y,'z':z},9)
                if out is None or out['z']!=(z+x*y)%m or out['x']!=x or out['w']!=0: bad['OutMultiplier'].append((mod,x,y,z,out))
            except Exception as e: bad['Out_exc'].append((mod,repr(e)[:80])); break
for nx in (3,):
    regs={'x':[0,1,2],'w':[3,4,5,6,7]}
    for mod in (3,5,7,8):
        for k in range(1,mod):
            if math.gcd(k,mod)!=1: continue
            for x in range(mod):
                try:
                    out=run_basis(lambda: qp.Multiplier(k,regs['x'],mod=mod,work_wires=regs['w']),regs,{'x':x},8)
                    if out is None or out['x']!=(x*k)%mod or out['w']!=0: bad['Multiplier'].append((mod,k,x,out))
                except Exception as e: bad['Mult_exc'].append((mod,k,repr(e)[:80])); break
# SemiAdder x -> y
for nx,ny in ((2,2),(2,3),(3,2),(3,3),(1,3)):
    regs={'x':list(range(nx)),'y':list(range(nx,nx+ny)),'w':list(range(nx+ny,nx+ny+max(ny-1,1)))}
    nw=nx+ny+max(ny-1,1)
    for x,y in itertools.product(range(2**nx),range(2**ny)):
        try:
            out=run_basis(lambda: qp.SemiAdder(regs['x'],regs['y'],work_wires=regs['w'][:max(ny-1,0)] or None),regs,{'x':x,'y':y},nw)
            if out is None or out['y']!=(x+y)%2**ny or out['x']!=x or out['w']!=0: bad['SemiAdder'].append((nx,ny,x,y,out))
        except Exception as e: bad['Semi_exc'].append((nx,ny,repr(e)[:100])); break
# IntegerComparator
for n in (2,3):
    for val in range(0,2**n+1):
        for geq in (True,False):
            regs={'x':list(range(n)),'t':[n]}
            for x in range(2**n):
                try:
                    out=run_basis(lambda: qp.IntegerComparator(val,geq=geq,wires=range(n+1)),regs,{'x':x,'t':0},n+1)
                    exp=int(x>=val) if geq else int(x<val)
                    if out is None or out['t']!=exp or out['x']!=x: bad['IntComp'].append((n,val,geq,x,out))
                except Exception as e: bad['IntComp_exc'].append((n,val,repr(e)[:80])); break
for k,v in bad.items(): print(k,len(v),v[:3])
print('done')
