import numpy as np, pennylane as qp, warnings, itertools, collections, math, random
warnings.filterwarnings("ignore")
R=random.Random(109); rng=np.random.default_rng(40)
bad=collections.defaultdict(list)
# ---- C60 shadows: exact unbiasedness by full enumeration
from pennylane.shadows import ClassicalShadow
from scipy.stats import unitary_group
H=np.array([[1,1],[1,-1]])/np.sqrt(2); Sd=np.diag([1,-1j])
rot={0:H,1:H@Sd,2:np.eye(2)}   # X, Y, Z measurement rotations
for n in (1,2,3):
    for trial in range(3):
        psi=unitary_group.rvs(2**n,random_state=trial+10*n)[:,0]; rho=np.outer(psi,psi.conj())
        recs=list(itertools.product(range(3),repeat=n)); outs=list(itertools.product([0,1],repeat=n))
        bits=[];recipes=[];weights=[]
        for r in recs:
            U=np.array([[1]])
            for q in r: U=np.kron(U,rot[q])
            p=np.abs(U@psi)**2
            for k,b in enumerate(outs):
                bits.append(b); recipes.append(r); weights.append(p[k]/3**n)
        sh=ClassicalShadow(np.array(bits),np.array(recipes))
        snaps=sh.global_snapshots()
        est=np.tensordot(np.array(weights),snaps,axes=1)
        if not np.allclose(est,rho,atol=1e-9): bad['C60_state'].append((n,trial,np.abs(est-rho).max()))
        # pauli expval estimator: weighted mean of per-snapshot estimates -> need per-snapshot; use k=len to get single mean? emulate: expval uses median of means; with k=1 -> mean unweighted. Instead check via local snapshot algebra:
        for word in itertools.product('IXYZ',repeat=n):
            if all(c=='I' for c in word): continue
            P=np.array([[1]])
            for c in word: P=np.kron(P,{'I':np.eye(2),'X':np.array([[0,1],[1,0]]),'Y':np.array([[0,-1j],[1j,0]]),'Z':np.diag([1,-1])}[c])
            exact=np.real(np.trace(rho@P))
            est2=np.real(np.tensordot(np.array(weights),np.einsum('tij,ji->t',snaps,P),axes=1))
            if not np.isclose(est2,exact,atol=1e-9): bad['C60_pauli'].append((n,word))
# device returns: bits/recipes form
dev=qp.device('default.qubit',wires=2,seed=1)
@qp.qnode(dev)
def c():
    qp.Hadamard(0); qp.CNOT([0,1]); return qp.classical_shadow(wires=[0,1])
b,r=qp.set_shots(c,50)()
if b.shape!=(50,2) or r.shape!=(50,2) or not set(np.unique(b))<={0,1} or not set(np.unique(r))<={0,1,2}: bad['C60_form'].append((b.shape,r.shape))
# ---- C47 estimator additivity
import pennylane.estimator as qre
try:
    ops=[qre.Hadamard,qre.CNOT,qre.Toffoli,qre.T,qre.S,qre.X,qre.Z,qre.CZ,qre.SWAP]
    def mk():
        o=R.choice(ops)(); r=R.random()
        if r<0.15: o=qre.Adjoint(o)
        elif r<0.3: o=qre.Pow(o,R.randint(1,3))
        elif r<0.45: o=qre.Controlled(o,num_ctrl_wires=R.randint(1,2),num_zero_ctrl=0)
        return o
    def counts(res): return dict(res.gate_counts if hasattr(res,'gate_counts') else res.clean_gate_counts)
    for it in range(100):
        A=[mk() for _ in range(R.randint(1,4))]; B=[mk() for _ in range(R.randint(1,4))]
        def wf(L): 
            def f():
                for o in L: qre.apply(o) if hasattr(qre,'apply') else o.queue()
            return f
        def est(L):
            def f():
                for o in L:
                    type(o)  # ops already constructed outside; re-queue
                    o.queue() if hasattr(o,'queue') else None
            return qre.estimate(f)()
        ra,rb,rab=est(A),est(B),est(A+B)
        ca,cb,cab=counts(ra),counts(rb),counts(rab)
        tot=collections.Counter(ca); tot.update(cb)
        if dict(tot)!=dict(cab): bad['C47_add'].append(([str(o) for o in A],[str(o) for o in B],ca,cb,cab))
except Exception as e:
    import traceback; bad['C47exc'].append(traceback.format_exc()[-400:])
# ---- C74 pauli tracker
from pennylane.ftqc.pauli_tracker import commute_clifford_op, xz_to_pauli, pauli_to_xz
def pm(x,z,w): 
    return qp.matrix(xz_to_pauli(x,z)(w)) if True else None
for op,nw in ((qp.H(0),1),(qp.S(0),1),(qp.CNOT([0,1]),2)):
    C=qp.matrix(op,wire_order=range(nw))
    for xz in itertools.product(itertools.product([0,1],repeat=2),repeat=nw):
        new=commute_clifford_op(op,list(xz))
        P=np.array([[1]]);Pn=np.array([[1]])
        for (x,z) in xz: P=np.kron(P,np.linalg.matrix_power(np.array([[0,1],[1,0]]),x)@np.linalg.matrix_power(np.diag([1,-1]),z))
        for (x,z) in new: Pn=np.kron(Pn,np.linalg.matrix_power(np.array([[0,1],[1,0]]),x)@np.linalg.matrix_power(np.diag([1,-1]),z))
        L=Pn@C; Rr=C@P
        k=np.argmax(np.abs(Rr))
        if abs(L.flat[k])<1e-9 or not np.allclose(L*(Rr.flat[k]/L.flat[k]),Rr): bad['C74_tracker'].append((op.name,xz,new))
for k,v in bad.items(): print(k,len(v),str(v[:2])[:1200])
print('done')
