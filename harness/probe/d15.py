import numpy as np, pennylane as qp, warnings, itertools, collections, math, random
warnings.filterwarnings("ignore")
R=random.Random(53)
bad=collections.defaultdict(list)
transform=qp.transform
from pennylane import CompilePipeline
# ---- C23: pipeline composition with synthetic transforms; tapes identified by a GlobalPhase tag list
def tag(t): return tuple(round(float(o.data[0]),6) for o in t.operations)
def mk_transform(k,label):
    @transform
    def tr(tape):
        outs=[qp.tape.QuantumScript(list(tape.operations)+[qp.GlobalPhase(label+i*0.001)],tape.measurements) for i in range(k(tape))]
        def post(res): return (label,tuple(res))
        return outs,post
    return tr
def by_hand(trs,tape,run):
    if not trs: return run(tape)
    outs,post=trs[0](tape)
    return post(tuple(by_hand(trs[1:],o,run) for o in outs))
for it in range(400):
    L=R.randint(0,4); trs=[]
    for j in range(L):
        fan=R.choice([0,1,1,2,3,'dep'])
        kf=(lambda t,f=fan: (len(t.operations)%3) if f=='dep' else f)
        trs.append(mk_transform(kf,float(j+1)))
    batch=[qp.tape.QuantumScript([qp.GlobalPhase(0.1*i)],[qp.expval(qp.Z(0))]) for i in range(R.randint(0,3))]
    run=lambda t: ('R',tag(t))
    pipe=CompilePipeline(*trs) if trs else CompilePipeline()
    try:
        outs,post=pipe(tuple(batch))
        got=post(tuple(run(t) for t in outs))
        exp=tuple(by_hand(trs,t,run) for t in batch)
        if tuple(got)!=exp: bad['C23'].append((L,len(batch),got,exp))
    except Exception as e: bad['C23exc'].append(repr(e)[:100])
# ---- C43 for_loop vs python
for it in range(2000):
    a,b,c=R.randint(-6,6),R.randint(-6,6),R.choice([-3,-2,-1,1,2,3])
    rec=[]
    @qp.for_loop(a,b,c)
    def body(i,x): rec.append(i); return x+i
    try: out=body(0)
    except Exception as e: bad['C43exc'].append((a,b,c,repr(e)[:60])); continue
    if rec!=list(range(a,b,c)) or out!=sum(range(a,b,c)): bad['C43'].append((a,b,c,rec))
# ---- C40 bind/params
for it in range(500):
    ops=[]
    for _ in range(R.randint(1,6)):
        ops.append(R.choice([lambda: qp.RX(R.random(),0), lambda: qp.Rot(R.random(),R.random(),R.random(),1), lambda: qp.CNOT([0,1]), lambda: qp.IsingXX(R.random(),[0,1])])())
    t=qp.tape.QuantumScript(ops,[qp.expval(qp.Hermitian(np.eye(2)*R.random(),0)) if R.random()<0.3 else qp.expval(qp.Z(0))])
    P=t.get_parameters(trainable_only=False); n=len(P)
    tr=sorted(R.sample(range(n),R.randint(0,n))); t.trainable_params=tr
    if not all(np.allclose(x,P[i]) for x,i in zip(t.get_parameters(),tr)): bad['C40get'].append(tr)
    t2=t.bind_new_parameters(t.get_parameters(trainable_only=False),list(range(n)))
    if not qp.equal(t,t2): bad['C40bind_id'].append(1)
    idx=sorted(R.sample(range(n),R.randint(0,n))); new=[R.random() if np.ndim(P[i])==0 else np.eye(2)*0.5 for i in idx]
    t3=t.bind_new_parameters(new,idx); P3=t3.get_parameters(trainable_only=False)
    for i in range(n):
        exp=new[idx.index(i)] if i in idx else P[i]
        if not np.allclose(P3[i],exp): bad['C40bind'].append((i,idx))
    if t3.trainable_params!=t.trainable_params: bad['C40train'].append((t.trainable_params,t3.trainable_params))
    for i,info in enumerate(t.par_info):
        op=t.operations[info['op_idx']] if info['op_idx']<len(t.operations) else t.measurements[info['op_idx']-len(t.operations)].obs
        if not np.allclose(op.data[info['p_idx']],P[i]): bad['C40parinfo'].append(i)
print({k:(len(v),v[:2]) for k,v in bad.items()})
