import numpy as np, pennylane as qp, warnings, itertools, collections, math, random
from scipy.stats import unitary_group
warnings.filterwarnings("ignore")
R=random.Random(59); rng=np.random.default_rng(18)
bad=collections.defaultdict(list)
def mat_of(ops,wires): 
    return qp.matrix(qp.tape.QuantumScript(ops),wire_order=wires) if ops else np.eye(2**len(wires))
def eq_phase(A,B):
    i=np.argmax(np.abs(A)); a=A.flat[i]; b=B.flat[i]
    return abs(b)>1e-9 and np.allclose(A,B*(a/b),atol=1e-6)
# C14 one qubit
I2=np.eye(2);X=np.array([[0,1],[1,0]]);Y=np.array([[0,-1j],[1j,0]]);Z=np.diag([1,-1]);H=(X+Z)/np.sqrt(2);S=np.diag([1,1j]);T=np.diag([1,np.exp(1j*np.pi/4)])
edge1=[I2,X,Y,Z,H,S,T,-I2,1j*I2,np.diag([1,-1j]),H@S,np.exp(0.3j)*X, qp.matrix(qp.RX(1e-9,0)), qp.matrix(qp.RY(np.pi,0)), qp.matrix(qp.RY(np.pi-1e-9,0)), qp.matrix(qp.RZ(2*np.pi,0))]
for U in edge1+[unitary_group.rvs(2,random_state=i) for i in range(40)]:
    for rot in ('ZYZ','XYX','XZX','ZXZ','rot'):
        try:
            ops=qp.ops.one_qubit_decomposition(U,0,rotations=rot,return_global_phase=True)
            V=mat_of(ops,[0])
            if not np.allclose(U,V,atol=1e-7): bad['C14_1q_'+rot].append(np.round(U,4).tolist())
        except Exception as e: bad['C14_1q_exc_'+rot].append(repr(e)[:80])
# C14 two qubit
CN=qp.matrix(qp.CNOT([0,1]));SW=qp.matrix(qp.SWAP([0,1]))
def loc(i): return np.kron(unitary_group.rvs(2,random_state=i),unitary_group.rvs(2,random_state=i+1000))
edge2=[np.eye(4),CN,SW,qp.matrix(qp.CZ([0,1])),qp.matrix(qp.ISWAP([0,1])),qp.matrix(qp.SISWAP([0,1])),loc(1),loc(2)@CN@loc(3),loc(4)@CN@loc(5)@CN@loc(6),loc(7)@SW@loc(8),np.diag(np.exp(1j*rng.uniform(0,6,4))),qp.matrix(qp.CRX(1e-8,[0,1])),qp.matrix(qp.IsingXX(np.pi/2,[0,1])),qp.matrix(qp.IsingZZ(1e-7,[0,1])), loc(9)@qp.matrix(qp.CRY(0.3,[0,1]))@loc(10), np.kron(H,H)@CN, -np.eye(4), 1j*SW]
for U in edge2+[unitary_group.rvs(4,random_state=i) for i in range(60)]:
    try:
        ops=qp.ops.two_qubit_decomposition(U,wires=[0,1])
        V=mat_of(ops,[0,1]); ncn=sum(o.name=='CNOT' for o in ops)
        if not np.allclose(U,V,atol=1e-6): bad['C14_2q'].append((np.round(U,3).tolist(), 'phase-only' if eq_phase(U,V) else 'WRONG'))
        if ncn>3: bad['C14_cnots'].append(ncn)
    except Exception as e: bad['C14_2q_exc'].append(repr(e)[:100])
for n in (3,):
    for i in range(6):
        U=unitary_group.rvs(2**n,random_state=i)
        try:
            ops=qp.ops.multi_qubit_decomposition(U,wires=range(n))
            V=mat_of(ops,range(n))
            if not np.allclose(U,V,atol=1e-6): bad['C14_mq'].append(('phase-only' if eq_phase(U,V) else 'WRONG'))
        except Exception as e: bad['C14_mq_exc'].append(repr(e)[:100])
# C15
for it in range(40):
    th=R.choice([0,np.pi/4,-np.pi/4,np.pi/2,np.pi,2*np.pi-1e-6,-2*np.pi+1e-6,1e-6,3*np.pi/4,7*np.pi/4])if R.random()<0.5 else R.uniform(-2*np.pi,2*np.pi)
    eps=R.choice([1e-1,1e-2,1e-3,1e-4,1e-5])
    for cls in (qp.RZ,qp.PhaseShift):
        op=cls(th,0)
        try:
            ops=qp.ops.rs_decomposition(op,epsilon=eps)
            names={o.name for o in ops}
            if not names<={'Hadamard','S','T','PauliX','PauliY','PauliZ','Adjoint(S)','Adjoint(T)','GlobalPhase','Identity'}: bad['C15_alphabet'].append(names)
            V=mat_of(ops,[0]); U=qp.matrix(op)
            err=np.linalg.norm(U-V,2)
            if err>eps*1.0000001+1e-12: bad['C15_eps_'+cls.__name__].append((th,eps,err))
        except Exception as e: bad['C15_exc'].append((th,eps,repr(e)[:80]))
print({k:(len(v),v[:3]) for k,v in bad.items()})
