import numpy as np, pennylane as qp, warnings, copy
warnings.filterwarnings("ignore")
import pennylane.transforms as T
from pennylane.core.transforms.transform import Transform
def mk():
    return qp.tape.QuantumScript([qp.RX(0.3,0),qp.RX(0.4,0),qp.Hadamard(1),qp.Hadamard(1),qp.CNOT([0,1]),qp.RZ(0.2,1),qp.SWAP([0,1]),qp.Rot(0.1,0.2,0.3,0),qp.adjoint(qp.S(1)),qp.CRX(0.5,[1,0]), qp.GlobalPhase(0.3), qp.Barrier([0,1])],
       [qp.expval(qp.Z(0)@qp.X(1)+0.5*qp.Y(0)), qp.probs(wires=[1])], shots=None)
def fp(t): return ([ (o.name, tuple(np.ravel(d).tolist() for d in o.data), tuple(o.wires)) for o in t.operations], [repr(m) for m in t.measurements], list(t.trainable_params), t.shots)
names=sorted(set(T.__all__)|{'param_shift','finite_diff','hadamard_grad','spsa_grad','metric_tensor','param_shift_hessian'})
res={}
for n in names:
    f=getattr(T,n,None) or getattr(qp.gradients,n,None) or getattr(qp,n,None)
    if not isinstance(f,Transform): continue
    t=mk(); a=fp(t)
    try:
        out=f(t)
        b=fp(t)
        res[n]='MUTATED' if a!=b else 'ok'
        if a!=b:
            for x,y in zip(a,b):
                if x!=y: print(n,'diff:',str(x)[:150],'->',str(y)[:150])
    except Exception as e:
        b=fp(t)
        res[n]=('MUTATED+' if a!=b else '')+'exc:'+type(e).__name__
print(res)
