import numpy as np, pennylane as qp, warnings, itertools, collections, math, random
warnings.filterwarnings("ignore")
R=random.Random(29); rng=np.random.default_rng(9)
bad=collections.defaultdict(list)
# ---- C21: analytic deferred vs tree-traversal on random dynamic circuits
def make(n,seedprog):
    RR=random.Random(seedprog)
    def f():
        ms=[]
        for _ in range(RR.randint(2,8)):
            r=RR.random()
            if r<0.35: RR.choice([qp.RX,qp.RY])(RR.uniform(-3,3),RR.randrange(n))
            elif r<0.5 and n>1: qp.CNOT(RR.sample(range(n),2))
            elif r<0.75 and len(ms)<4:
                ms.append(qp.measure(RR.randrange(n),reset=RR.random()<0.4,postselect=RR.choice([None,None,None,0,1])))
            elif ms:
                m=RR.choice(ms)
                pred = m if RR.random()<0.5 else (m==0) if RR.random()<0.5 or len(ms)<2 else (ms[0] & ms[-1])
                qp.cond(pred, RR.choice([qp.X,qp.Hadamard,qp.Z]))(RR.randrange(n))
        out=[qp.probs(wires=range(n)), qp.expval(qp.Z(0))]
        if ms: out.append(qp.expval(ms[0])); out.append(qp.probs(op=ms[:2]))
        return tuple(out)
    return f
def flat(r): return np.concatenate([np.ravel(np.asarray(x,dtype=float)) for x in r])
for it in range(250):
    n=R.randint(1,3); s=R.randint(0,10**9)
    res={}
    for method in ('deferred','tree-traversal'):
        try:
            q=qp.QNode(make(n,s),qp.device('default.qubit'),mcm_method=method)
            res[method]=flat(q())
        except Exception as e:
            res[method]=('EXC',repr(e)[:100])
    a,b=res['deferred'],res['tree-traversal']
    if isinstance(a,tuple) or isinstance(b,tuple):
        if isinstance(a,tuple)!=isinstance(b,tuple): bad['C21_exc_mismatch'].append((s,n,a if isinstance(a,tuple) else 'ok',b if isinstance(b,tuple) else 'ok'))
        continue
    if np.isnan(a).any() or np.isnan(b).any(): bad["nan_cases"].append(s); continue
    if a.shape!=b.shape or not np.allclose(a,b,atol=1e-8,equal_nan=True): bad['C21'].append((s,n,a.round(4).tolist(),b.round(4).tolist()))
print({k:(len(v),v[:3]) for k,v in bad.items()})
