import numpy as np, pennylane as qp, warnings, collections
warnings.filterwarnings("ignore")
rng=np.random.default_rng(7)
T=qp.transforms
special=[0.0,np.pi,-np.pi,2*np.pi,np.pi/2,4*np.pi]
def ang(): return float(rng.choice(special)) if rng.random()<0.3 else float(rng.uniform(-7,7))
def rand_gate(n):
    k=rng.integers(0,22)
    if n==1 and k>=12 and k not in (19,20): k=k%12
    if n==2 and k==21: k=12
    w=[int(x) for x in rng.permutation(n)]
    one=[w[0]]; two=w[:2]; three=w[:3]
    G=[lambda: qp.Hadamard(one), lambda: qp.X(one), lambda: qp.Y(one), lambda: qp.Z(one), lambda: qp.S(one), lambda: qp.T(one), lambda: qp.SX(one),
       lambda: qp.RX(ang(),one), lambda: qp.RY(ang(),one), lambda: qp.RZ(ang(),one), lambda: qp.PhaseShift(ang(),one), lambda: qp.Rot(ang(),ang(),ang(),one),
       lambda: qp.CNOT(two), lambda: qp.CZ(two), lambda: qp.CY(two), lambda: qp.SWAP(two), lambda: qp.CRX(ang(),two), lambda: qp.CRZ(ang(),two), lambda: qp.IsingXX(ang(),two),
       lambda: qp.adjoint(qp.S(one)), lambda: qp.adjoint(qp.RX(ang(),one)),
       lambda: qp.Toffoli(three) if n>=3 else qp.CNOT(two)]
    return G[k]()
def rand_circ(n,L):
    ops=[]
    for _ in range(L):
        g=rand_gate(n); ops.append(g)
        r=rng.random()
        if r<0.15: ops.append(qp.adjoint(g) if rng.random()<0.5 else type(g)(*g.data,wires=g.wires) if not isinstance(g,qp.ops.op_math.Adjoint) else g)
    return qp.tape.QuantumScript(ops,[qp.expval(qp.Z(0))])
def uni(t,n): 
    if not t.operations: return np.eye(2**n)
    return qp.matrix(t,wire_order=range(n))
def eq_phase(A,B):
    i=np.argmax(np.abs(A)); 
    a=A.flat[i]; b=B.flat[i]
    if abs(b)<1e-9: return False
    return np.allclose(A,B*(a/b),atol=1e-7)
passes={'cancel_inverses':T.cancel_inverses,'cancel_inverses_nr':lambda t: T.cancel_inverses(t,recursive=False),'merge_rotations':T.merge_rotations,'commute_controlled_r':T.commute_controlled,'commute_controlled_l':lambda t: T.commute_controlled(t,direction='left'),
 'single_qubit_fusion':T.single_qubit_fusion,'undo_swaps':T.undo_swaps,'combine_global_phases':T.combine_global_phases,'remove_barrier':T.remove_barrier,'compile':qp.compile}
stats=collections.Counter(); bad=[]
for it in range(400):
    n=int(rng.integers(1,5)); L=int(rng.integers(1,12))
    t=rand_circ(n,L)
    U=uni(t,n)
    for name,p in passes.items():
        try:
            (t2,),_=p(qp.tape.QuantumScript(list(t.operations),t.measurements))
        except Exception as e:
            stats[name+':EXC']+=1; bad.append((name,'EXC',repr(e)[:100],[str(o) for o in t.operations])); continue
        V=uni(t2,n)
        if name=='undo_swaps':
            ok=np.allclose(np.abs(V[:,0]),np.abs(U[:,0]),atol=1e-7) and eq_phase(U[:,[0]],V[:,[0]])
        else: ok=eq_phase(U,V)
        stats[name+(':ok' if ok else ':BAD')]+=1
        if not ok and len(bad)<40: bad.append((name,[str(o) for o in t.operations],[str(o) for o in t2.operations]))
print(dict(stats))
seen=set()
for b in bad:
    if b[0] in seen: continue
    seen.add(b[0]); print(b)
