import numpy as np, pennylane as qp, warnings, itertools, collections, math, random
warnings.filterwarnings("ignore")
R=random.Random(19); rng=np.random.default_rng(6)
bad=collections.defaultdict(list)
dev=qp.device('default.qubit')
P=[qp.X,qp.Y,qp.Z,qp.I]
def word(n):
    ws=R.sample(range(n),R.randint(1,n)); return qp.prod(*[R.choice(P)(w) for w in ws]) if len(ws)>1 else R.choice(P)(ws[0])
def obs(n):
    r=R.random()
    if r<0.4: return word(n)
    if r<0.8:
        terms=[R.uniform(-2,2)*word(n) for _ in range(R.randint(2,4))]
        if R.random()<0.4: terms.append(R.uniform(-1,1)*qp.I(0))
        return qp.sum(*terms)
    return R.uniform(-2,2)*word(n)
def flat(r):
    if isinstance(r,(tuple,list)): return np.concatenate([flat(x) for x in r]) if len(r) else np.array([])
    return np.ravel(np.asarray(r,dtype=float))
for it in range(300):
    n=R.randint(1,4)
    ops=[R.choice([qp.RX,qp.RY,qp.RZ])(R.uniform(-3,3),R.randrange(n)) for _ in range(R.randint(1,6))]
    if n>1: ops+= [qp.CNOT(R.sample(range(n),2)) for _ in range(R.randint(0,3))]
    R.shuffle(ops)
    ms=[]
    for _ in range(R.randint(1,4)):
        r=R.random()
        if r<0.6: ms.append(qp.expval(obs(n)))
        elif r<0.75: ms.append(qp.var(word(n)))
        else: ms.append(qp.probs(wires=R.sample(range(n),R.randint(1,n))))
    t=qp.tape.QuantumScript(ops,ms)
    try: ref=flat(qp.execute([t],dev)[0])
    except Exception as e: bad['refexc'].append(repr(e)[:80]); continue
    for name,tr in [('snc_default',qp.transforms.split_non_commuting),('snc_wires',lambda x: qp.transforms.split_non_commuting(x,grouping_strategy='wires')),('snc_qwc',lambda x: qp.transforms.split_non_commuting(x,grouping_strategy='qwc')),('snc_none',lambda x: qp.transforms.split_non_commuting(x,grouping_strategy=None)),('single_terms',qp.transforms.split_to_single_terms),('diag',qp.transforms.diagonalize_measurements)]:
        t0=qp.tape.QuantumScript(list(ops),list(ms))
        try:
            ts,fn=tr(t0)
            out=flat(fn(qp.execute(ts,dev)))
        except Exception as e:
            bad[name+'_exc:'+type(e).__name__].append((repr(e)[:90],[str(m) for m in ms])); continue
        if out.shape!=ref.shape or not np.allclose(out,ref,atol=1e-8): bad[name].append(([str(o) for o in ops],[str(m) for m in ms]))
print({k:(len(v),v[:2]) for k,v in bad.items()})
