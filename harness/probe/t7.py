import numpy as np, pennylane as qp, warnings
warnings.filterwarnings("ignore")
T=qp.transforms
def mk(): return qp.tape.QuantumScript([qp.RX(0.3,0),qp.RX(0.4,0),qp.Hadamard(1),qp.Hadamard(1),qp.CNOT([0,1]),qp.RZ(0.2,1)],[qp.expval(qp.Z(0))])
for name,p in {'cancel_inverses':T.cancel_inverses,'merge_rotations':T.merge_rotations,'commute_controlled':T.commute_controlled,'single_qubit_fusion':T.single_qubit_fusion,'undo_swaps':T.undo_swaps,'compile':qp.compile}.items():
    t=mk(); before=[str(o) for o in t.operations]; h=t.hash
    (t2,),_=p(t)
    after=[str(o) for o in t.operations]
    print(name, 'MUTATED' if before!=after else 'ok', after if before!=after else '', 'hash same' if t.hash==h else 'hash changed')
