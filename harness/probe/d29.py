import numpy as np, pennylane as qp, warnings, itertools, collections, math, random, copy, tempfile, os
warnings.filterwarnings("ignore")
R=random.Random(107); rng=np.random.default_rng(38)
bad=collections.defaultdict(list)
exec(open('/tmp/probe/d19.py').read().split("def ref(e,wo):")[0].split("bad=collections.defaultdict(list)")[1])
# ---- C04: symmetry & hash on mutated pairs
def mutate(e):
    """return a structurally different op by rebuilding with one change"""
    r=R.random()
    if r<0.4 and e.num_params and not isinstance(e,(qp.ops.op_math.CompositeOp,)):
        try:
            ps=list(e.parameters); i=R.randrange(len(ps)); ps[i]=ps[i]+R.choice([0.5,1e-3,2*np.pi,-0.7])
            return qp.ops.functions.bind_new_parameters(e,ps)
        except Exception: return None
    if r<0.8:
        ws=list(e.wires); 
        if len(ws)>=2:
            i,j=R.sample(range(len(ws)),2); wm={ws[i]:ws[j],ws[j]:ws[i]}
            return qp.map_wires(e,wm)
        return qp.map_wires(e,{ws[0]:'zz'}) if ws else None
    return None
for it in range(1500):
    try: a=expr(R.randint(0,2))
    except Exception: continue
    b=mutate(a)
    if b is None: continue
    try:
        ab=qp.equal(a,b); ba=qp.equal(b,a)
    except Exception as ex: bad['C04exc:'+type(ex).__name__].append((repr(ex)[:80],str(a)[:80])); continue
    if ab!=ba: bad['C04asym'].append((str(a)[:120],str(b)[:120],ab,ba))
    if ab:
        wo=sorted(set(a.wires)|set(b.wires),key=str)
        try:
            if len(wo)<=6 and not np.allclose(qp.matrix(a,wire_order=wo),qp.matrix(b,wire_order=wo),atol=1e-6): bad['C04equal_diff_matrix'].append((str(a)[:150],str(b)[:150]))
        except Exception: pass
    try:
        c=copy.deepcopy(a)
        if hash(c)!=hash(a): bad['C04hash_copy'].append(str(a)[:100])
    except Exception as ex: bad['C04hashexc'].append(repr(ex)[:80])
# measurements
for it in range(300):
    ob=lambda: R.choice([qp.X,qp.Y,qp.Z])(R.choice([0,1,'a']))
    mk=[lambda: qp.expval(ob()),lambda: qp.var(ob()),lambda: qp.probs(wires=R.sample([0,1,'a'],R.randint(1,3))),lambda: qp.sample(wires=R.sample([0,1],R.randint(1,2))),lambda: qp.counts(wires=[0],all_outcomes=R.choice([True,False])),lambda: qp.state(),lambda: qp.expval(qp.Hermitian(np.diag([1.0,R.choice([2.0,3.0])]),0))]
    a=R.choice(mk)(); b=R.choice(mk)()
    try:
        if qp.equal(a,b)!=qp.equal(b,a): bad['C04mp_asym'].append((str(a),str(b)))
        if not qp.equal(a,copy.deepcopy(a)) or hash(a)!=hash(copy.deepcopy(a)): bad['C04mp_copy'].append(str(a))
        if qp.equal(a,b) and hash(a)!=hash(b): bad['C04mp_eq_hash'].append((str(a),str(b)))
    except Exception as ex: bad['C04mp_exc'].append((repr(ex)[:80],str(a),str(b)))
# ---- C64 dataset round trip
from pennylane import data
vals=[None,1,2.5,3+4j,'hello',np.arange(6).reshape(2,3)*0.5,[1,2,3],(1,'a',None),{'x':1,'y':[1,2]},[],{},(), [[1,2],[3]], {'n':{'m':(1,2)}}, qp.X(0), qp.RX(0.3,'a')@qp.Z(1), qp.Hamiltonian([0.5,-1.2],[qp.X(0),qp.Z(0)@qp.Y(1)]), np.array(3.0), True, 'ü', [qp.Y(0),qp.CNOT([0,1])]]
def eqv(a,b):
    if isinstance(a,qp.operation.Operator): return isinstance(b,qp.operation.Operator) and qp.equal(a,b)
    if isinstance(a,np.ndarray): return isinstance(b,np.ndarray) and a.shape==b.shape and np.allclose(a,b)
    if isinstance(a,(list,tuple)): return type(a)==type(b) and len(a)==len(b) and all(eqv(x,y) for x,y in zip(a,b)) if not isinstance(b,(data.DatasetList if hasattr(data,'DatasetList') else ())) else all(eqv(x,y) for x,y in zip(a,list(b)))
    if isinstance(a,dict): return set(a)==set(b) and all(eqv(a[k],b[k]) for k in a)
    return a==b and (type(a)==type(b) or isinstance(a,(int,float,complex)))
for i,v in enumerate(vals):
    try:
        ds=data.Dataset(attr=v, other=5)
        with tempfile.TemporaryDirectory() as d:
            pth=os.path.join(d,'t.h5'); ds.write(pth)
            ds2=data.Dataset.open(pth) if hasattr(data.Dataset,'open') else data.load(pth)
            got=ds2.attr
            g2=got
            if hasattr(got,'copy_value'): g2=got.copy_value()
            if isinstance(got,(data.attributes.DatasetList,)): g2=list(got)
            if isinstance(got,(data.attributes.DatasetDict,)): g2=dict(got)
            def norm(x):
                if hasattr(data.attributes,'DatasetList') and isinstance(x,data.attributes.DatasetList): return [norm(y) for y in x]
                if hasattr(data.attributes,'DatasetDict') and isinstance(x,data.attributes.DatasetDict): return {k:norm(y) for k,y in x.items()}
                if isinstance(x,tuple): return tuple(norm(y) for y in x)
                if isinstance(x,list): return [norm(y) for y in x]
                if isinstance(x,dict): return {k:norm(y) for k,y in x.items()}
                return x
            g3=norm(got)
            if not eqv(v,g3): bad['C64'].append((repr(v)[:60],repr(g3)[:80]))
    except Exception as ex: bad['C64exc'].append((repr(v)[:50],repr(ex)[:120]))
for k,v in bad.items(): print(k,len(v),v[:3])
print('done')
