import numpy as np, pennylane as qp, warnings, itertools, collections, math, random, networkx as nx
warnings.filterwarnings("ignore")
R=random.Random(17); rng=np.random.default_rng(5)
bad=collections.defaultdict(list)
dev=qp.device('default.qubit')
# ---- C19 transpile
def rand_graph(n):
    kind=R.choice(['line','ring','tree','rand'])
    if kind=='line': g=nx.path_graph(n)
    elif kind=='ring': g=nx.cycle_graph(n) if n>2 else nx.path_graph(n)
    elif kind=='tree': g=nx.random_labeled_tree(n,seed=R.randint(0,999)) if hasattr(nx,'random_labeled_tree') else nx.path_graph(n)
    else:
        while True:
            g=nx.gnp_random_graph(n,0.5,seed=R.randint(0,9999))
            if nx.is_connected(g): break
    return g
for it in range(0):
    n=R.randint(3,6); g=rand_graph(n)
    ops=[]
    for _ in range(R.randint(1,10)):
        if R.random()<0.4: ops.append(R.choice([qp.RX,qp.RY,qp.RZ])(R.uniform(-3,3),R.randrange(n)))
        else:
            a,b=R.sample(range(n),2); ops.append(R.choice([qp.CNOT,qp.CZ,qp.SWAP,lambda w: qp.CRX(R.uniform(-3,3),w), lambda w: qp.IsingXX(R.uniform(-3,3),w)])([a,b]))
    mk=R.choice(['expval','probs','multi'])
    if mk=='expval': ms=[qp.expval(R.choice([qp.X,qp.Y,qp.Z])(R.randrange(n)))]
    elif mk=='probs': ms=[qp.probs(wires=R.sample(range(n),R.randint(1,n)))]
    else: ms=[qp.expval(qp.Z(R.randrange(n))),qp.probs(wires=[R.randrange(n)]),qp.var(qp.X(R.randrange(n)))]
    t=qp.tape.QuantumScript(ops,ms)
    try:
        (t2,),fn=qp.transforms.transpile(t,coupling_map=list(g.edges))
    except Exception as e:
        bad['C19exc'].append((repr(e)[:80],[str(o) for o in ops],list(g.edges))); continue
    for o in t2.operations:
        if len(o.wires)==2 and not g.has_edge(*o.wires): bad['C19edge'].append((str(o),list(g.edges)))
    r1=qp.execute([t],dev)[0]; r2=fn(qp.execute([t2],dev))
    f=lambda r: np.concatenate([np.ravel(x) for x in (r if isinstance(r,tuple) else (r,))])
    if not np.allclose(f(r1),f(r2),atol=1e-8): bad['C19sem'].append(([str(o) for o in ops],[str(m) for m in ms],list(g.edges)))
# ---- C22 resolve_dynamic_wires
from pennylane.allocation import allocate, deallocate, Allocate, Deallocate
def gen_prog(depth=0):
    """returns list of op constructors executed in queue"""
    pass
for it in range(400):
    static=[0,1]
    def qfunc():
        live=[]
        qp.Hadamard(0)
        for _ in range(R.randint(1,7)):
            r=R.random()
            if r<0.35 or not live:
                k=R.randint(1,2); st='zero'; rest=R.choice([True,False])
                ws=allocate(k,state=st,restored=rest)
                live.append((ws,rest))
                for w in ws:
                    if rest:
                        qp.CNOT([0,w]); qp.CNOT([0,w])
                    else:
                        qp.CNOT([R.choice(static),w]) if R.random()<0.7 else qp.X(w)
            elif r<0.6:
                i=R.randrange(len(live)); ws,rest=live.pop(i); deallocate(ws)
            else:
                ws,rest=R.choice(live); w=R.choice(list(ws))
                if rest: qp.CZ([R.choice(static),w]); qp.CZ([static[0],w]) if False else None
                else: qp.CNOT([w,R.choice(static)])
        for ws,rest in live: deallocate(ws)
        return qp.probs(wires=static)
    try:
        t=qp.tape.make_qscript(qfunc)()
    except Exception as e:
        bad['C22gen'].append(repr(e)[:100]); continue
    cfg=dict(min_int=10) if R.random()<0.5 else dict(zeroed=[5,6][:R.randint(0,2)],any_state=[7,8][:R.randint(0,2)],min_int=R.choice([None,10]),allow_resets=R.choice([True,False]))
    # reference: each allocation gets fresh wire (min_int with no reuse): emulate by mapping dynamic wires to fresh ints
    fresh={}; ops_ref=[]
    for o in t.operations:
        if o.name=='Allocate':
            for w in o.wires: fresh[w]=100+len(fresh)
        elif o.name=='Deallocate': pass
        else: ops_ref.append(o.map_wires(fresh) if fresh else o)
    tref=qp.tape.QuantumScript(ops_ref,t.measurements)
    try:
        (t2,),_=qp.transforms.resolve_dynamic_wires(t,**cfg)
    except qp.exceptions.AllocationError as e:
        continue
    except Exception as e:
        bad['C22exc'].append((repr(e)[:100],cfg)); continue
    try:
        r1=qp.execute([tref],dev)[0]; r2=qp.execute([t2],qp.device('default.qubit'),)[0]
    except Exception as e:
        bad['C22run'].append(repr(e)[:100]); continue
    if not np.allclose(r1,r2,atol=1e-8): bad['C22sem'].append((cfg,[str(o) for o in t.operations],[str(o) for o in t2.operations]))
print({k:(len(v),v[:2]) for k,v in bad.items()})
