import numpy as np, pennylane as qp, warnings, itertools, collections, math, random
warnings.filterwarnings("ignore")
rng=np.random.default_rng(3); R=random.Random(5)
bad=collections.defaultdict(list)
# ---- C44 shots
from pennylane.measurements import Shots
def expand(spec):
    out=[]
    for s in spec:
        if isinstance(s,tuple): out+= [s[0]]*s[1]
        else: out.append(s)
    return out
for _ in range(3000):
    spec=[]
    for _ in range(R.randint(1,6)):
        v=R.choice([1,2,3,5,10]); spec.append((v,R.randint(1,3)) if R.random()<0.4 else v)
    s=Shots(spec); e=expand(spec)
    ok = s.total_shots==sum(e) and list(s)==e and list(s.bins())==[(sum(e[:i]),sum(e[:i+1])) for i in range(len(e))] and s.has_partitioned_shots==(len(e)>1) and s.num_copies==len(e)
    rle=[(k,len(list(g))) for k,g in itertools.groupby(e)]
    ok = ok and [(c.shots,c.copies) for c in s.shot_vector]==rle
    spec2=[R.choice([1,2,3]) for _ in range(R.randint(1,3))]; s2=Shots(spec2)
    ok = ok and list(s+s2)==e+expand(spec2) and list(s*3)==[3*x for x in e]
    if not ok: bad['C44'].append(spec)
# ---- C45 wires
from pennylane.wires import Wires
labs=[0,1,2,3,'a','b',(0,1),'0']
for _ in range(3000):
    ls=[Wires(R.sample(labs,R.randint(0,5))) for _ in range(R.randint(1,4))]
    allw=Wires.all_wires(ls); exp=list(dict.fromkeys(itertools.chain(*[l.labels for l in ls])))
    sh=Wires.shared_wires(ls); un=Wires.unique_wires(ls)
    cnt=collections.Counter(itertools.chain(*[l.labels for l in ls]))
    ok= list(allw)==exp and list(sh)==[w for w in ls[0] if all(w in l for l in ls)] and list(un)==[w for l in ls for w in l if cnt[w]==1]
    a,b=ls[0],ls[-1]
    ok= ok and set(a|b)==set(a)|set(b) and set(a&b)==set(a)&set(b) and set(a-b)==set(a)-set(b) and set(a^b)==set(a)^set(b)
    ok= ok and all(a.index(w)==i for i,w in enumerate(a)) and (hash(a)==hash(Wires(list(a))))
    if not ok: bad['C45'].append([l.labels for l in ls])
# ---- C50 GF2 exhaustive
from pennylane.math import binary_matrix_rank, binary_finite_reduced_row_echelon, binary_solve_linear_system
def rank_ref(M):
    M=[int(''.join(map(str,r)),2) if len(r) else 0 for r in M.tolist()]; rk=0
    rows=M[:]
    for bit in range(8,-1,-1):
        piv=None
        for i,r in enumerate(rows):
            if (r>>bit)&1: piv=i;break
        if piv is None: continue
        p=rows.pop(piv); rk+=1
        rows=[r^p if (r>>bit)&1 else r for r in rows]
    return rk
for m in range(1,4):
    for n in range(1,5):
        for bits in itertools.product([0,1],repeat=m*n):
            M=np.array(bits,dtype=int).reshape(m,n)
            if binary_matrix_rank(M)!=rank_ref(M): bad['C50rank'].append(M.tolist())
            Rf=binary_finite_reduced_row_echelon(M)
            if binary_matrix_rank(Rf)!=rank_ref(M): bad['C50rref'].append(M.tolist())
for n in range(1,4):
    for bits in itertools.product([0,1],repeat=n*n):
        A=np.array(bits,dtype=int).reshape(n,n)
        for bb in itertools.product([0,1],repeat=n):
            b=np.array(bb,dtype=int)
            try:
                x=binary_solve_linear_system(A,b)
                if not np.array_equal((A@x)%2,b): bad['C50solve'].append((A.tolist(),bb))
                if rank_ref(A)<n: bad['C50solve_singular_accepted'].append((A.tolist(),bb))
            except np.linalg.LinAlgError:
                if rank_ref(A)==n: bad['C50solve_reject'].append((A.tolist(),bb))
# ---- C36 finite diff
from pennylane.gradients import finite_diff_coeffs
from fractions import Fraction
for n in range(1,5):
    for a in range(1,7):
        for strat in ('forward','backward','center'):
            if strat=='center' and a%2: continue
            c,s=finite_diff_coeffs(n,a,strat)
            for deg in range(0,n+a):
                val=sum(ci*si**deg for ci,si in zip(c,s)); exp=math.factorial(n) if deg==n else 0
                if abs(val-exp)>1e-6*max(1,abs(exp)): bad['C36'].append((n,a,strat,deg,val))
# ---- C25 fold_global count
for _ in range(300):
    L=R.randint(1,8); ops=[qp.RX(R.random(),0) if R.random()<.5 else qp.CNOT([0,1]) for _ in range(L)]
    t=qp.tape.QuantumScript(ops,[qp.expval(qp.Z(0))]); sf=R.choice([1,2,3,1.5,2.2,3.7,5,1.1])
    (t2,),_=qp.noise.fold_global(t,sf)
    U=qp.matrix(t,wire_order=[0,1]);V=qp.matrix(t2,wire_order=[0,1])
    if not np.allclose(U,V): bad['C25sem'].append((L,sf))
for k,v in bad.items(): print(k,len(v),v[:3])
print('done', {k:len(v) for k,v in bad.items()})
